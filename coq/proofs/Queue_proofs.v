(** Lemmas about model/Queue.v: the CommitsQueue worklist, for ANY placement [ins]
    and ANY initial ordering [srt] that are permutations. *)
From W.lib Require Import GoSort.
From W.model Require Import Graph Queue.
From W.proofs Require Import Graph_proofs.
From Coq Require Import List NArith ZArith Bool Arith Lia Permutation.
Import ListNotations.

Section Generic.
  Variable g : graph.
  Variable ins : id -> list id -> list id.
  Variable srt : list id -> list id.
  Hypothesis Hins : forall c q, Permutation (ins c q) (c :: q).
  Hypothesis Hsrt : forall l, Permutation (srt l) l.

  Notation insert := (insert g ins).
  Notation insert_all := (insert_all g ins).
  Notation pop_insert_parents := (pop_insert_parents g ins).
  Notation new_queue := (new_queue g srt).

  (** already returned by a pop: seen and no longer queued *)
  Definition popped_of (q : cq) (x : id) : Prop := In x (q_seen q) /\ ~ In x (q_items q).

  (** InsertParents: the fresh commits [nw] are consed on seen and placed somewhere in items *)
  Lemma insert_all_spec : forall ps q q',
    insert_all q ps = Ok q' ->
    exists nw, q_seen q' = nw ++ q_seen q /\ Permutation (q_items q') (nw ++ q_items q) /\
      NoDup nw /\
      (forall x, In x nw -> In x ps /\ ~ In x (q_seen q) /\ lookup g x <> None) /\
      (forall x, In x ps -> In x (q_seen q) \/ In x nw).
  Proof.
    induction ps as [|p ps IH]; intros q q' H; simpl in H.
    - inversion H; subst. exists []. simpl. repeat split; auto; try tauto. constructor.
    - unfold Queue.insert in H. unfold seen in H. destruct (mem p (q_seen q)) eqn:E.
      + destruct (IH q q' H) as [nw [H1 [H2 [H3 [H4 H5]]]]]. exists nw. repeat split; auto.
        * right. now apply H4.
        * now apply H4.
        * now apply H4.
        * intros x [<-|Hx]; [left; now apply mem_In | now apply H5].
      + apply mem_false in E. destruct (lookup g p) as [c|] eqn:El; [|discriminate].
        destruct (IH _ q' H) as [nw [H1 [H2 [H3 [H4 H5]]]]]. simpl in *.
        exists (nw ++ [p]). rewrite <- !app_assoc. simpl. split; [exact H1|]. split; [|split; [|split]].
        * eapply Permutation_trans; [exact H2|]. apply Permutation_app_head. apply Hins.
        * apply NoDup_snoc; auto. intros Hp. apply H4 in Hp.
          destruct Hp as [_ [Hp _]]. apply Hp. now left.
        * intros x Hx. apply in_app_or in Hx. destruct Hx as [Hx|[<-|[]]].
          -- destruct (H4 x Hx) as [Ha [Hb Hc]]. split; [now right|]. split; [|exact Hc].
             intros Hs. apply Hb. now right.
          -- split; [now left|]. split; [exact E | congruence].
        * intros x [<-|Hx].
          -- right. apply in_or_app. right. now left.
          -- destruct (H5 x Hx) as [[<-|Hs]|Hn].
             ++ right. apply in_or_app. right. now left.
             ++ now left.
             ++ right. apply in_or_app. now left.
  Qed.

  Lemma insert_all_ok : forall ps q,
    (forall p, In p ps -> lookup g p <> None) -> exists q', insert_all q ps = Ok q'.
  Proof.
    induction ps as [|p ps IH]; intros q H; simpl.
    - now exists q.
    - unfold Queue.insert. destruct (seen q p).
      + apply IH. intros x Hx. apply H. now right.
      + destruct (lookup g p) eqn:El.
        * apply IH. intros x Hx. apply H. now right.
        * exfalso. apply (H p); [now left | exact El].
  Qed.

  (** Reset *)
  Lemma reset_loop_spec : forall l items sn items' sn',
    reset_loop g l items sn = Ok (items', sn') ->
    Permutation items sn -> NoDup sn ->
    Permutation items' sn' /\ NoDup sn' /\
    (forall x, In x sn' <-> In x sn \/ In x l) /\
    (forall x, In x sn' -> In x sn \/ lookup g x <> None).
  Proof.
    induction l as [|v l IH]; intros items sn items' sn' H Hp Hn; simpl in H.
    - inversion H; subst. repeat split; auto; simpl; tauto.
    - destruct (mem v sn) eqn:E.
      + destruct (IH _ _ _ _ H Hp Hn) as [H1 [H2 [H3 H4]]]. repeat split; auto.
        * intros Hx. apply H3 in Hx. destruct Hx; [now left | right; now right].
        * intros [Hx|[<-|Hx]]; apply H3; [now left | left; now apply mem_In | now right].
      + apply mem_false in E. destruct (lookup g v) eqn:El; [|discriminate].
        destruct (IH _ _ _ _ H) as [H1 [H2 [H3 H4]]].
        * eapply Permutation_trans; [apply Permutation_app_comm|]. simpl. now constructor.
        * now constructor.
        * repeat split; auto.
          -- intros Hx. apply H3 in Hx. destruct Hx as [[<-|Hx]|Hx]; [right; now left | now left | right; now right].
          -- intros [Hx|[<-|Hx]]; apply H3; [left; now right | left; now left | now right].
          -- intros x Hx. destruct (H4 x Hx) as [[<-|Hs]|Hs]; [right; congruence | now left | now right].
  Qed.

  Lemma reset_loop_ok : forall l items sn,
    (forall x, In x l -> lookup g x <> None) -> exists r, reset_loop g l items sn = Ok r.
  Proof.
    induction l as [|v l IH]; intros items sn H; simpl.
    - eexists; reflexivity.
    - destruct (mem v sn).
      + apply IH. intros x Hx. apply H. now right.
      + destruct (lookup g v) eqn:El.
        * apply IH. intros x Hx. apply H. now right.
        * exfalso. apply (H v); [now left | exact El].
  Qed.

  (** worklist invariant of a queue that walks the history below [roots]
      (DESIGN 10a; [popped] is represented as seen minus items) *)
  Definition q_inv (roots : list id) (q : cq) : Prop :=
    NoDup (q_items q) /\ NoDup (q_seen q) /\ incl (q_items q) (q_seen q) /\
    (forall x, In x (q_seen q) -> reach g roots x) /\
    (forall x, In x (q_seen q) -> lookup g x <> None) /\
    (forall r, In r roots -> In r (q_seen q)) /\
    (forall x p, popped_of q x -> In p (parents_of g x) -> In p (q_seen q)).

  (** remaining pops are bounded by this measure *)
  Definition q_meas (q : cq) : nat := length g - length (q_seen q) + length (q_items q).

  Lemma seen_bound : forall roots q, q_inv roots q -> length (q_seen q) <= length g.
  Proof.
    intros roots q [_ [I2 [_ [_ [I5 _]]]]].
    rewrite <- (map_length fst g). apply NoDup_incl_length; [exact I2|].
    intros x Hx. specialize (I5 x Hx). destruct (lookup g x) eqn:E; [|congruence].
    eapply lookup_nodes; eauto.
  Qed.

  Lemma new_queue_inv : forall roots q,
    new_queue roots = Ok q ->
    q_inv roots q /\ q_meas q = length g /\
    (forall x, In x (q_seen q) <-> In x roots) /\ (forall x, ~ popped_of q x).
  Proof.
    intros roots q H. unfold Queue.new_queue in H.
    destruct (reset_loop g roots [] []) as [[items sn]| |] eqn:E; try discriminate.
    inversion H; subst; clear H.
    destruct (reset_loop_spec _ _ _ _ _ E (Permutation_refl _) (NoDup_nil _)) as [H1 [H2 [H3 H4]]].
    assert (Hp : Permutation (srt items) sn) by (eapply Permutation_trans; [apply Hsrt | exact H1]).
    assert (Hnp : forall x, ~ popped_of (mk_cq (srt items) sn) x).
    { intros x [Ha Hb]. simpl in *. apply Hb. eapply Permutation_in; [apply Permutation_sym; exact Hp | exact Ha]. }
    split; [|split; [|split]]; simpl.
    - unfold q_inv; simpl. repeat split.
      + eapply Permutation_NoDup; [apply Permutation_sym; exact Hp | exact H2].
      + exact H2.
      + intros x Hx. eapply Permutation_in; eauto.
      + intros x Hx. apply reach_root. apply H3 in Hx. now destruct Hx.
      + intros x Hx. destruct (H4 x Hx) as [[]|Hx']. exact Hx'.
      + intros r Hr. apply H3. now right.
      + intros x p Hx. now apply Hnp in Hx.
    - unfold q_meas. simpl. rewrite (Permutation_length Hp).
      assert (length sn <= length g).
      { rewrite <- (map_length fst g). apply NoDup_incl_length; [exact H2|].
        intros x Hx. destruct (H4 x Hx) as [[]|Hx']. destruct (lookup g x) eqn:El; [|congruence].
        eapply lookup_nodes; eauto. }
      lia.
    - intros x. rewrite H3. simpl. tauto.
    - exact Hnp.
  Qed.

  Lemma new_queue_ok : forall roots,
    (forall r, In r roots -> lookup g r <> None) -> exists q, new_queue roots = Ok q.
  Proof.
    intros roots H. unfold Queue.new_queue.
    destruct (reset_loop_ok roots [] [] H) as [[items sn] E]. rewrite E. eexists; reflexivity.
  Qed.

  (** one PopInsertParents on a history that is complete below the roots *)
  Lemma pop_step : forall roots q,
    q_inv roots q ->
    (forall x, reach g roots x -> lookup g x <> None) ->
    (pop_insert_parents q = PEof /\ q_items q = []) \/
    (exists x q', pop_insert_parents q = POk x q' /\ q_inv roots q' /\
        In x (q_items q) /\ S (q_meas q') = q_meas q /\
        incl (q_seen q) (q_seen q') /\
        (forall y, popped_of q' y <-> popped_of q y \/ y = x)).
  Proof.
    intros roots q Hinv Hpres. unfold Queue.pop_insert_parents.
    destruct (q_items q) as [|x r] eqn:Ei; [left; now split|right].
    assert (Hb := seen_bound roots q Hinv).
    destruct Hinv as [I1 [I2 [I3 [I4 [I5 [I6 I7]]]]]]. rewrite Ei in *.
    assert (Hxs : In x (q_seen q)) by (apply I3; now left).
    destruct (insert_all_ok (parents_of g x) (mk_cq r (q_seen q))) as [q' Hq'].
    { intros p Hp. apply Hpres. eapply reach_parents_of; [apply I4; exact Hxs | exact Hp]. }
    rewrite Hq'. exists x, q'. split; [reflexivity|].
    destruct (insert_all_spec _ _ _ Hq') as [nw [H1 [H2 [H3 [H4 H5]]]]]. simpl in *.
    inversion I1 as [|x' r' Hxr Hr]; subst x' r'.
    assert (Hnd : NoDup (nw ++ r)).
    { apply NoDup_app_intro; auto. intros y Hy Hin. destruct (H4 y Hy) as [_ [Hns _]].
      apply Hns. apply I3. now right. }
    assert (Hpop : forall y, popped_of q' y <-> popped_of q y \/ y = x).
    { intros y. unfold popped_of. rewrite H1, Ei. split.
      - intros [Ha Hb']. assert (Hny : ~ In y (nw ++ r)).
        { intros Hin. apply Hb'. eapply Permutation_in; [apply Permutation_sym; exact H2 | exact Hin]. }
        apply in_app_or in Ha. destruct Ha as [Ha|Ha].
        + exfalso. apply Hny. apply in_or_app. now left.
        + destruct (N.eq_dec y x) as [->|Hne]; [now right|]. left. split; [exact Ha|].
          intros [Hin|Hin]; [now apply Hne | apply Hny; apply in_or_app; now right].
      - intros [[Ha Hb']| ->].
        + split; [apply in_or_app; now right|]. intros Hin.
          apply (Permutation_in _ H2) in Hin. apply in_app_or in Hin. destruct Hin as [Hin|Hin].
          * destruct (H4 y Hin) as [_ [Hns _]]. now apply Hns.
          * apply Hb'. now right.
        + split; [apply in_or_app; now right|]. intros Hin.
          apply (Permutation_in _ H2) in Hin. apply in_app_or in Hin. destruct Hin as [Hin|Hin].
          * destruct (H4 x Hin) as [_ [Hns _]]. now apply Hns.
          * now apply Hxr. }
    split; [|split; [now left|split; [|split; [|exact Hpop]]]].
    - unfold q_inv. rewrite H1. repeat split.
      + eapply Permutation_NoDup; [apply Permutation_sym; exact H2 | exact Hnd].
      + apply NoDup_app_intro; auto. intros y Hy. now apply H4.
      + intros y Hy. apply (Permutation_in _ H2) in Hy. apply in_app_or in Hy. apply in_or_app.
        destruct Hy as [Hy|Hy]; [now left | right; apply I3; now right].
      + intros y Hy. apply in_app_or in Hy. destruct Hy as [Hy|Hy]; [|now apply I4].
        eapply reach_parents_of; [apply I4; exact Hxs | now apply H4].
      + intros y Hy. apply in_app_or in Hy. destruct Hy as [Hy|Hy]; [now apply H4 | now apply I5].
      + intros r0 Hr0. apply in_or_app. right. now apply I6.
      + intros y p Hy Hp. apply Hpop in Hy. destruct Hy as [Hy| ->].
        * apply in_or_app. right. eapply I7; eauto.
        * apply in_or_app. destruct (H5 p Hp); [now right | now left].
    - unfold q_meas. rewrite H1, (Permutation_length H2), Ei, !app_length. simpl.
      assert (length (nw ++ q_seen q) <= length g).
      { rewrite <- (map_length fst g). apply NoDup_incl_length.
        - apply NoDup_app_intro; auto. intros y Hy. now apply H4.
        - intros y Hy. apply in_app_or in Hy.
          assert (Hl : lookup g y <> None) by (destruct Hy as [Hy|Hy]; [now apply H4 | now apply I5]).
          destruct (lookup g y) eqn:El; [|congruence]. eapply lookup_nodes; eauto. }
      rewrite app_length in H. lia.
    - intros y Hy. rewrite H1. apply in_or_app. now right.
  Qed.

  (** at EOF the seen set is exactly the reachable set *)
  Lemma eof_complete : forall roots q,
    q_inv roots q -> q_items q = [] -> forall x, reach g roots x <-> In x (q_seen q).
  Proof.
    intros roots q [I1 [I2 [I3 [I4 [I5 [I6 I7]]]]]] He x. split; [|apply I4].
    apply (reach_least g roots (fun y => In y (q_seen q))); [exact I6|].
    intros a b Ha Hb. apply (I7 a b); [|exact Hb]. split; [exact Ha|]. rewrite He. tauto.
  Qed.

  (** the history walk: every commit reachable from the roots exactly once *)
  Lemma walk_loop_spec : forall roots fuel q acc,
    q_inv roots q ->
    (forall x, reach g roots x -> lookup g x <> None) ->
    q_meas q < fuel ->
    NoDup acc -> (forall x, In x acc <-> popped_of q x) ->
    exists l, walk_loop g ins fuel q acc = (0, l) /\ NoDup l /\
              forall x, In x l <-> reach g roots x.
  Proof.
    intros roots. induction fuel as [|fuel IH]; intros q acc Hinv Hpres Hf Hnd Hacc; [lia|].
    simpl. destruct (pop_step roots q Hinv Hpres) as [[He Hi]|[x [q' [He [Hinv' [Hx [Hm [_ Hpop]]]]]]]];
      rewrite He.
    - exists (rev acc). split; [reflexivity|]. split; [now apply NoDup_rev|].
      intros x. rewrite <- in_rev, Hacc, (eof_complete roots q Hinv Hi). unfold popped_of.
      rewrite Hi. simpl. tauto.
    - apply IH; auto; [lia| |].
      + constructor; [|exact Hnd]. intros Hin. apply Hacc in Hin. now destruct Hin.
      + intros y. rewrite Hpop, <- Hacc. simpl. split; intros [H|H]; auto.
  Qed.

  Theorem walk_spec : forall roots,
    (forall x, reach g roots x -> lookup g x <> None) ->
    exists l, walk g ins srt roots = (0, l) /\ NoDup l /\ forall x, In x l <-> reach g roots x.
  Proof.
    intros roots Hpres. unfold walk.
    destruct (new_queue_ok roots) as [q Hq].
    { intros r Hr. apply Hpres. now apply reach_root. }
    rewrite Hq. destruct (new_queue_inv roots q Hq) as [Hinv [Hm [_ Hnp]]].
    apply (walk_loop_spec roots); auto.
    - unfold walk_fuel. lia.
    - constructor.
    - intros x. split; [intros [] | intros H; now apply Hnp in H].
  Qed.
End Generic.

(** the placement and the sort used by the Go code are permutations *)
Lemma ins_time_perm : forall g c q, Permutation (ins_time g c q) (c :: q).
Proof.
  intros g c q. unfold ins_time.
  set (i := search _ _). rewrite <- (firstn_skipn i q) at 3.
  apply Permutation_sym. apply Permutation_middle.
Qed.

Lemma sins_perm : forall g x l, Permutation (sins g x l) (x :: l).
Proof.
  induction l as [|y r IH]; simpl; [apply Permutation_refl|].
  destruct (Z.leb (ctime g y) (ctime g x)); [apply Permutation_refl|].
  eapply Permutation_trans; [apply perm_skip; exact IH | apply perm_swap].
Qed.

Lemma srt_time_perm : forall g l, Permutation (srt_time g l) l.
Proof.
  induction l as [|x l IH]; simpl; [constructor|].
  eapply Permutation_trans; [apply sins_perm | now apply perm_skip].
Qed.
