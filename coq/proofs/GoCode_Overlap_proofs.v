(** (f) diff.findOverlappingBlocks: translated body (gen/ExtractedCode.v) = [find_overlapping]
    of model/Diff.v, for block indices whose keys all have the same number of columns. *)
From Coq Require Import List ZArith NArith Bool String Lia Arith.
From W.lib Require Import Tree Bytes GoLang.
From W.proofs Require Import GoLang_proofs.
From W.gen Require Import ExtractedCode.
From W.model Require Import Diff.
Import ListNotations.
Local Open Scope Z_scope.

Definition same_width (w : nat) (l : list (list bytes)) : Prop := Forall (fun k => length k = w) l.

Lemma same_width_nth w l i : same_width w l -> (i < length l)%nat -> length (nth i l []) = w.
Proof. intros H Hi. unfold same_width in H. rewrite Forall_forall in H. apply H. now apply nth_In. Qed.

Lemma kcmp_same_length_end (b s : list bytes) : length b = length s ->
  kcmp (skipn (length s) b) (skipn (length s) s) = Datatypes.Eq.
Proof. intros H. rewrite skipn_all. rewrite <- H. rewrite skipn_all. reflexivity. Qed.

Lemma scan_start_bound l s : forall j st,
  scan_start l s j = Some st -> (j - 1 <= st < j + length l)%nat.
Proof.
  induction l as [|b l IH]; intros j st H; cbn [scan_start] in H; [discriminate|].
  cbn [length]. destruct (kcmp b s).
  - inversion H; subst. lia.
  - apply IH in H. lia.
  - inversion H; subst. destruct (Nat.eqb_spec j 0); lia.
Qed.

Definition opt_Z (o : option nat) : Z := match o with Some s => Z.of_nat s | None => -1 end.

Lemma go_findOverlappingBlocks_model (A B : list (list bytes)) (off1 prevEnd w : nat) :
  same_width w A -> same_width w B ->
  (off1 < length A)%nat -> (prevEnd <= length B)%nat ->
  Z.of_nat (length A) < 2 ^ 62 -> Z.of_nat (length B) < 2 ^ 62 ->
  exists fuel, run_func fuel go_prog go_findOverlappingBlocks
                        [v_strss A; v_strss B; v_nat off1; v_nat prevEnd]
               = FOk [VInt (fst (find_overlapping A B off1 prevEnd));
                      VInt (snd (find_overlapping A B off1 prevEnd))] [].
Proof.
  intros WA WB Hoff Hpe LA LB.
  start_func go_findOverlappingBlocks. unfold v_strss, v_nat, find_overlapping, find_overlapping_g. cbn [andb].
  change key with (list bytes).
  straight.
  (* n == 0 *)
  stepn. stepn.
  destruct (Nat.eqb_spec (length B) 0) as [N0|N0].
  { replace (Z.of_nat (length B) =? 0) with true by (symmetry; apply Z.eqb_eq; lia). stepsn. reflexivity. }
  replace (Z.of_nat (length B) =? 0) with false by (symmetry; apply Z.eqb_neq; lia).
  stepn. straight.
  (* if prevEnd == 0 { prevEnd++ } *)
  set (pe := if (prevEnd =? 0)%nat then 1%nat else prevEnd).
  assert (Hpe1 : (1 <= pe <= length B)%nat) by (unfold pe; destruct (Nat.eqb_spec prevEnd 0); lia).
  eapply (wp_seq_cut _ _ _ _
            [VList (map v_strs A); VList (map v_strs B); VInt (Z.of_nat off1); VInt (Z.of_nat pe);
             VInt (-1); VInt 0; VInt (Z.of_nat (length B)); VUnset; VUnset; VUnset; VUnset; VUnset; VUnset]).
  { stepn. unfold pe. destruct (Nat.eqb_spec prevEnd 0) as [P0|P0].
    - replace (Z.of_nat prevEnd =? 0) with true by (symmetry; apply Z.eqb_eq; lia). stepsn. subst prevEnd. reflexivity.
    - replace (Z.of_nat prevEnd =? 0) with false by (symmetry; apply Z.eqb_neq; lia). stepsn. reflexivity. }
  set (s1 := nth off1 A []).
  assert (Hs1 : length (nth off1 A []) = w) by (apply same_width_nth; auto).
  (* findStart *)
  eapply (wp_seq_inv _ _ _ _
            (fun e1 => exists vj vk vs,
               e1 = [VList (map v_strs A); VList (map v_strs B); VInt (Z.of_nat off1); VInt (Z.of_nat pe);
                     VInt (opt_Z (scan_start (skipn (pe - 1) B) s1 (pe - 1))); VInt 0;
                     VInt (Z.of_nat (length B)); vj; vk; vs; VUnset; VUnset; VUnset])).
  { stepn. stepn.
    replace (Z.of_nat pe - 1) with (Z.of_nat (pe - 1)) by lia.
    eapply (wp_for_inv _ _ _ _ _ _
              (fun e => exists j vk vs,
                 e = [VList (map v_strs A); VList (map v_strs B); VInt (Z.of_nat off1); VInt (Z.of_nat pe);
                      VInt (-1); VInt 0; VInt (Z.of_nat (length B)); VInt (Z.of_nat j); vk; vs;
                      VUnset; VUnset; VUnset]
                 /\ (pe - 1 <= j <= length B)%nat
                 /\ scan_start (skipn (pe - 1) B) s1 (pe - 1) = scan_start (skipn j B) s1 j)
              (fun e => match nth 7 e VUnset with
                        | VInt j => Z.to_nat (Z.of_nat (length B) - j)
                        | _ => O
                        end)).
    { exists (pe - 1)%nat, VUnset, VUnset. split; [reflexivity|]. split; [lia|reflexivity]. }
    intros e (j & vk & vs & -> & Hj & Hscan).
    eexists; split; [evn; reflexivity|].
    destruct (Z.ltb_spec (Z.of_nat j) (Z.of_nat (length B))) as [Hlt|Hge].
    2:{ (* loop ends: start stays -1 *)
      exists (VInt (Z.of_nat j)), vk, vs. rewrite Hscan.
      rewrite skipn_all2 by lia. reflexivity. }
    assert (HwB : length (nth j B []) = w) by (apply same_width_nth; auto; lia).
    rewrite (skipn_nth_cons B j []) in Hscan by lia. cbn [scan_start] in Hscan.
    stepn. stepn.
    eapply (wp_items_inv _ _ _ _ _ _
              (fun k e => (exists vk vs,
                 e = [VList (map v_strs A); VList (map v_strs B); VInt (Z.of_nat off1); VInt (Z.of_nat pe);
                      VInt (-1); VInt 0; VInt (Z.of_nat (length B)); VInt (Z.of_nat j); vk; vs;
                      VUnset; VUnset; VUnset])
                 /\ kcmp (nth j B []) s1 = kcmp (skipn k (nth j B [])) (skipn k s1))).
    - split; [eauto|reflexivity].
    - intros k e x ((vk' & vs' & ->) & Hk) Hx.
      apply (nth_error_map_inv VStr s1 k x []) in Hx. destruct Hx as [Hkw ->]. unfold s1 in Hkw.
      rewrite kcmp_skipn_step in Hk by (unfold s1; lia).
      ev. unfold s1 in *.
      pose proof (bcmp_flags (nth k (nth j B []) []) (nth k (nth off1 A []) [])) as Hfl.
      destruct (bcmp (nth k (nth j B []) []) (nth k (nth off1 A []) [])) eqn:C; destruct Hfl as [Fgt Flt].
      + (* equal so far *) repeat first [stepn | rewrite Fgt | rewrite Flt]. split; [eauto|exact Hk].
      + (* B[j] < s: continue findStart *)
        repeat first [stepn | rewrite Fgt | rewrite Flt]. split.
        * exists (S j), (VInt (Z.of_nat k)), (VStr (nth k (nth off1 A []) [])).
          split; [repeat f_equal; lia|]. split; [lia|]. rewrite Hscan, Hk. reflexivity.
        * lia.
      + (* B[j] > s: start = j or j-1, break *)
        stepn. rewrite Fgt. stepn. stepn. split_if as Hj0.
        * stepsn. eexists _, _, _. rewrite Hscan, Hk. apply Z.eqb_eq in Hj0.
          replace (j =? 0)%nat with true by (symmetry; apply Nat.eqb_eq; lia). reflexivity.
        * stepsn. eexists _, _, _. rewrite Hscan, Hk. apply Z.eqb_neq in Hj0.
          replace (j =? 0)%nat with false by (symmetry; apply Nat.eqb_neq; lia).
          cbn [opt_Z]. repeat f_equal. lia.
    - intros e ((vk' & vs' & ->) & Hk). rewrite length_map_VStr in Hk.
      unfold s1 in Hk. rewrite kcmp_same_length_end in Hk by lia.
      stepsn. eexists _, _, _. unfold s1 in *. rewrite Hscan, Hk. reflexivity. }
  intros e1 (vj & vk & vs & ->).
  destruct (scan_start (skipn (pe - 1) B) s1 (pe - 1)) as [st|] eqn:Est; cbn [opt_Z fst snd].
  2:{ (* start == -1: return n-1, n *) stepsn. reflexivity. }
  assert (Hst : (st < length B)%nat).
  { apply scan_start_bound in Est. rewrite skipn_length in Est. lia. }
  stepn. stepn.
  replace (Z.of_nat st =? -1) with false by (symmetry; apply Z.eqb_neq; lia).
  stepn. stepn. straight.
  (* findEnd *)
  set (s2 := nth (S off1) A []).
  set (E := if (off1 <? length A - 1)%nat then scan_end (skipn st B) s2 st else None).
  eapply (wp_seq_inv _ _ _ _
            (fun e2 => exists vj2 vk2 vs2,
               e2 = [VList (map v_strs A); VList (map v_strs B); VInt (Z.of_nat off1); VInt (Z.of_nat pe);
                     VInt (Z.of_nat st); VInt (opt_Z E);
                     VInt (Z.of_nat (length B)); vj; vk; vs; vj2; vk2; vs2])).
  { stepn. unfold E.
    destruct (Nat.ltb_spec off1 (length A - 1)) as [Hlast|Hlast].
    2:{ replace (Z.of_nat off1 <? Z.of_nat (length A) - 1) with false by (symmetry; apply Z.ltb_ge; lia).
        stepsn. eexists _, _, _. reflexivity. }
    replace (Z.of_nat off1 <? Z.of_nat (length A) - 1) with true by (symmetry; apply Z.ltb_lt; lia).
    assert (Hs2 : length (nth (S off1) A []) = w) by (apply same_width_nth; auto; lia).
    stepsn.
    eapply (wp_for_inv _ _ _ _ _ _
              (fun e => exists j vk2 vs2,
                 e = [VList (map v_strs A); VList (map v_strs B); VInt (Z.of_nat off1); VInt (Z.of_nat pe);
                      VInt (Z.of_nat st); VInt (-1); VInt (Z.of_nat (length B)); vj; vk; vs;
                      VInt (Z.of_nat j); vk2; vs2]
                 /\ (st <= j <= length B)%nat
                 /\ scan_end (skipn st B) s2 st = scan_end (skipn j B) s2 j)
              (fun e => match nth 10 e VUnset with
                        | VInt j => Z.to_nat (Z.of_nat (length B) - j)
                        | _ => O
                        end)).
    { exists st, VUnset, VUnset. split; [reflexivity|]. split; [lia|reflexivity]. }
    intros e (j & vk2 & vs2 & -> & Hj & Hscan).
    eexists; split; [evn; reflexivity|].
    destruct (Z.ltb_spec (Z.of_nat j) (Z.of_nat (length B))) as [Hlt|Hge].
    2:{ eexists _, _, _. rewrite Hscan. rewrite skipn_all2 by lia. reflexivity. }
    assert (HwB : length (nth j B []) = w) by (apply same_width_nth; auto; lia).
    rewrite (skipn_nth_cons B j []) in Hscan by lia. cbn [scan_end] in Hscan.
    stepn. stepn.
    replace (Z.to_nat (Z.of_nat off1 + 1)) with (S off1) by lia.
    eapply (wp_items_inv _ _ _ _ _ _
              (fun k e => (exists vk2 vs2,
                 e = [VList (map v_strs A); VList (map v_strs B); VInt (Z.of_nat off1); VInt (Z.of_nat pe);
                      VInt (Z.of_nat st); VInt (-1); VInt (Z.of_nat (length B)); vj; vk; vs;
                      VInt (Z.of_nat j); vk2; vs2])
                 /\ kcmp (nth j B []) s2 = kcmp (skipn k (nth j B [])) (skipn k s2))).
    - split; [eauto|reflexivity].
    - intros k e x ((vk' & vs' & ->) & Hk) Hx.
      apply (nth_error_map_inv VStr (nth (S off1) A []) k x []) in Hx. destruct Hx as [Hkw ->].
      rewrite kcmp_skipn_step in Hk by (unfold s2; lia).
      ev. unfold s2 in *.
      pose proof (bcmp_flags (nth k (nth j B []) []) (nth k (nth (S off1) A []) [])) as Hfl.
      destruct (bcmp (nth k (nth j B []) []) (nth k (nth (S off1) A []) [])) eqn:C; destruct Hfl as [Fgt Flt].
      + repeat first [stepn | rewrite Fgt | rewrite Flt]. split; [eauto|exact Hk].
      + repeat first [stepn | rewrite Fgt | rewrite Flt]. split.
        * exists (S j), (VInt (Z.of_nat k)), (VStr (nth k (nth (S off1) A []) [])).
          split; [repeat f_equal; lia|]. split; [lia|]. rewrite Hscan, Hk. reflexivity.
        * lia.
      + repeat first [stepn | rewrite Fgt | rewrite Flt].
        eexists _, _, _. rewrite Hscan, Hk. reflexivity.
    - intros e ((vk' & vs' & ->) & Hk). rewrite length_map_VStr in Hk.
      unfold s2 in *. rewrite kcmp_same_length_end in Hk by lia.
      stepsn. eexists _, _, _. rewrite Hscan, Hk. reflexivity. }
  intros e2 (vj2 & vk2 & vs2 & ->).
  (* if end == -1 { end = n }; return start, end *)
  unfold E. destruct (off1 <? length A - 1)%nat; [destruct (scan_end (skipn st B) s2 st) as [en|]|]; cbn [opt_Z].
  - stepn. stepn. replace (Z.of_nat en =? -1) with false by (symmetry; apply Z.eqb_neq; lia).
    stepsn. reflexivity.
  - stepsn. reflexivity.
  - stepsn. reflexivity.
Qed.
