(** Bridge B1 (C01/C03 -> C04): proofs.
    - [to_diff_wf]: a table that is sound in the ingest model's sense (IngestSpec.WF_table,
      what C03 proves of every ingested table) is well-formed in the diff model's sense
      (DiffSpec.WF_table 255), and the table index the diff model derives from the blocks is
      the table index the ingest wrote.
    - [ingest_diff]: ingest two CSVs, diff the results: the event list is the specification's
      diff of the two key |-> row maps of the INPUT rows (composition of ingest_lossless = C01,
      ingest_wf = C03 and diff_correct = C04).
    - [ingest_diff_events]: the same in the words of the property, positions projected away. *)
From W.lib Require Import Tree Bytes.
From W.model Require Import Sorter SorterSpec Ingest IngestSpec.
From W.model Require Diff DiffSpec.
From W.model Require Import BridgeIngestDiff.
From W.proofs Require Import Sorter_proofs Ingest_proofs.
From W.proofs Require DiffTable_proofs DiffMain_proofs.
From Coq Require Import Arith Lia ZifyNat ZifyN ZifyBool Bool List Sorting.Sorted Sorting.Permutation.
Import ListNotations.
Local Open Scope nat_scope.

(** * generic list facts *)

Lemma SS_map {A B} (g : A -> B) (R : B -> B -> Prop) l :
  StronglySorted (fun a b => R (g a) (g b)) l -> StronglySorted R (map g l).
Proof.
  induction 1 as [|a l Hs IH Ha]; cbn; constructor; auto.
  rewrite Forall_forall in *. intros y Hy. apply in_map_iff in Hy as (x & <- & Hx). auto.
Qed.

Lemma nth_error_map_inv {A B} (f : A -> B) l n y :
  nth_error (map f l) n = Some y -> exists x, nth_error l n = Some x /\ y = f x.
Proof.
  rewrite nth_error_map. destruct (nth_error l n) as [x|]; cbn; [|discriminate].
  intros E. injection E as <-. eauto.
Qed.

Lemma concat_map_map {A B} (f : A -> B) (ls : list (list A)) :
  concat (map (map f) ls) = map f (concat ls).
Proof. now rewrite concat_map. Qed.

(** * the view of an ingested table *)
Section View.
  Variable rid : row -> N.

  Lemma fst_to_diff_rows ncols pk l :
    map fst (map (to_diff_row rid ncols pk) l) = map (dkey ncols pk) l.
  Proof. rewrite map_map. apply map_ext. reflexivity. Qed.

  Lemma to_diff_blocks_concat T :
    concat (Diff.t_blocks (to_diff_table rid T)) =
    input_rows rid (length (t_columns T)) (t_pk T) (rows_of T).
  Proof. unfold to_diff_table, input_rows, rows_of. cbn [Diff.t_blocks]. apply concat_map_map. Qed.

  (** B1: IngestSpec.WF_table implies DiffSpec.WF_table (block size 255 on both sides),
      and the table index is the list of first keys *)
  Theorem to_diff_wf H T tidx :
    IngestSpec.WF_table H T tidx ->
    DiffSpec.WF_table 255 (to_diff_table rid T) /\
    Diff.tindex (Diff.t_blocks (to_diff_table rid T)) = tidx.
  Proof.
    intros (_ & Hsz & Hfull & Hasc & _ & _ & Htidx & _).
    split.
    - unfold DiffSpec.WF_table, DiffSpec.WF_blocks. split.
      + intros i b Hn. unfold to_diff_table in Hn. cbn [Diff.t_blocks] in Hn.
        apply nth_error_map_inv in Hn as (b0 & Hn & ->). rewrite !map_length.
        rewrite Forall_forall in Hsz. pose proof (Hsz b0 (nth_error_In _ _ Hn)) as Hb.
        unfold block_size in *. split; [exact Hb|].
        intros Hi. unfold to_diff_table in Hi. cbn [Diff.t_blocks] in Hi. rewrite map_length in Hi.
        specialize (Hfull i Hi). rewrite (nth_error_nth _ _ _ Hn) in Hfull. exact Hfull.
      + rewrite to_diff_blocks_concat. unfold input_rows. rewrite fst_to_diff_rows.
        apply SS_map. exact Hasc.
    - subst tidx. unfold to_diff_table, Diff.tindex. cbn [Diff.t_blocks]. rewrite map_map.
      apply map_ext_in. intros b Hb. rewrite Forall_forall in Hsz. specialize (Hsz b Hb).
      destruct b as [|r b]; [cbn in Hsz; lia|]. reflexivity.
  Qed.

  Lemma names_eqb_refl a : Diff.names_eqb a a = true.
  Proof. unfold Diff.names_eqb, keqb. now rewrite kcmp_refl. Qed.

  (** the specification's diff of two ingested views with the same header and key *)
  Lemma spec_diff_same_header eu T1 T2 :
    t_columns T1 = t_columns T2 -> t_pk T1 = t_pk T2 ->
    DiffSpec.spec_diff eu (to_diff_table rid T1) (to_diff_table rid T2) =
    DiffSpec.spec_diff_rows eu true
      (input_rows rid (length (t_columns T1)) (t_pk T1) (rows_of T1))
      (input_rows rid (length (t_columns T1)) (t_pk T1) (rows_of T2)).
  Proof.
    intros Ec Ep. unfold DiffSpec.spec_diff. rewrite !to_diff_blocks_concat.
    assert (Pk : forall T, Diff.t_pk (to_diff_table rid T) = pk_names (t_columns T) (t_pk T)) by reflexivity.
    assert (Cl : forall T, Diff.t_cols (to_diff_table rid T) = t_columns T) by reflexivity.
    rewrite !Pk, !Cl, <- Ec, <- Ep, !names_eqb_refl, orb_true_r. reflexivity.
  Qed.
End View.

(** * sorted arrangements of the input *)

Lemma run_sorted_strict ncols pk l :
  wf_rows ncols l -> NoDup (map (dkey ncols pk) l) -> run_sorted pk l ->
  keys_strictly_ascending ncols pk l.
Proof.
  intros Hwf Hnd Hs. induction Hs as [|a l Hs IH Ha]; [constructor|].
  unfold wf_rows in Hwf. apply Forall_cons_iff in Hwf as [Hla Hwl].
  cbn [map] in Hnd. apply NoDup_cons_iff in Hnd as [Hna Hnl].
  constructor; [apply IH; auto|].
  rewrite Forall_forall in *. intros b Hb. specialize (Ha b Hb).
  rewrite (ssl_dkey ncols) in Ha by auto. apply klt_false_le in Ha.
  destruct (kcmp (dkey ncols pk a) (dkey ncols pk b)) eqn:E; [|reflexivity|congruence].
  apply kcmp_eq in E. exfalso. apply Hna. rewrite E. now apply in_map.
Qed.

Lemma sorted_input_ok ncols pk rows :
  wf_pk ncols pk -> wf_rows ncols rows -> NoDup (map (dkey ncols pk) rows) ->
  Permutation (sorted_input pk rows) rows /\ keys_strictly_ascending ncols pk (sorted_input pk rows).
Proof.
  intros Hpk Hwf Hnd. destruct (isort_ok ncols pk rows Hpk Hwf) as (HP & HS).
  split; [exact HP|]. apply run_sorted_strict; auto.
  - eapply perm_wf_rows; [symmetry; exact HP|exact Hwf].
  - eapply Permutation_NoDup; [|exact Hnd]. apply Permutation_map. now symmetry.
Qed.

Lemma sorted_arrangement_unique ncols pk S S' :
  keys_strictly_ascending ncols pk S -> keys_strictly_ascending ncols pk S' ->
  Permutation S S' -> S = S'.
Proof.
  apply strict_sorted_perm_unique. intros a b. apply kcmp_lt_asym.
Qed.

(** * end to end *)
Section EndToEnd.
  Variable rid : row -> N.

  Theorem ingest_diff H sort1 sort2 arrive1 arrive2 rs1 rs2 columns pknames rows1 rows2 :
    sort_ok (length columns) sort1 -> sort_ok (length columns) sort2 ->
    any_arrival arrive1 -> any_arrival arrive2 ->
    incl pknames columns -> NoDup pknames ->
    wf_rows (length columns) rows1 -> cells_in_limit rows1 ->
    wf_rows (length columns) rows2 -> cells_in_limit rows2 ->
    exists pk T1 tidx1 w1 T2 tidx2 w2,
      key_indices columns pknames = Some pk /\
      ingest_table H sort1 arrive1 rs1 columns pknames rows1 = (IOk T1 tidx1, w1) /\
      ingest_table H sort2 arrive2 rs2 columns pknames rows2 = (IOk T2 tidx2, w2) /\
      DiffSpec.WF_table 255 (to_diff_table rid T1) /\ DiffSpec.WF_table 255 (to_diff_table rid T2) /\
      Diff.tindex (Diff.t_blocks (to_diff_table rid T1)) = tidx1 /\
      Diff.tindex (Diff.t_blocks (to_diff_table rid T2)) = tidx2 /\
      (* whatever the keys: the diff of the stored tables is the specification's diff of the stored rows *)
      (forall eu, Diff.diff_tables 255 eu (to_diff_table rid T1) (to_diff_table rid T2) =
                  Diff.Ok (DiffSpec.spec_diff_rows eu true
                             (input_rows rid (length columns) pk (rows_of T1))
                             (input_rows rid (length columns) pk (rows_of T2)))) /\
      (* any key-ordered arrangement of the inputs *)
      (forall eu S1 S2,
         Permutation S1 rows1 -> keys_strictly_ascending (length columns) pk S1 ->
         Permutation S2 rows2 -> keys_strictly_ascending (length columns) pk S2 ->
         Diff.diff_tables 255 eu (to_diff_table rid T1) (to_diff_table rid T2) =
         Diff.Ok (DiffSpec.spec_diff_rows eu true (input_rows rid (length columns) pk S1)
                                          (input_rows rid (length columns) pk S2))) /\
      (* unique keys: the inputs sorted by key *)
      (NoDup (map (dkey (length columns) pk) rows1) -> NoDup (map (dkey (length columns) pk) rows2) ->
       forall eu,
         Diff.diff_tables 255 eu (to_diff_table rid T1) (to_diff_table rid T2) =
         Diff.Ok (DiffSpec.spec_diff_rows eu true
                    (input_rows rid (length columns) pk (sorted_input pk rows1))
                    (input_rows rid (length columns) pk (sorted_input pk rows2)))).
  Proof.
    intros Hs1 Hs2 Ha1 Ha2 Hincl Hnd Hw1 Hc1 Hw2 Hc2.
    destruct (ingest_lossless H sort1 arrive1 rs1 columns pknames rows1 Hs1 Ha1 Hincl Hnd Hw1 Hc1)
      as (pk & T1 & tidx1 & w1 & Hki & Hi1 & _ & Hcol1 & Hpk1 & _ & Hasc1 & _ & _ & Hperm1).
    destruct (ingest_lossless H sort2 arrive2 rs2 columns pknames rows2 Hs2 Ha2 Hincl Hnd Hw2 Hc2)
      as (pk' & T2 & tidx2 & w2 & Hki' & Hi2 & _ & Hcol2 & Hpk2 & _ & Hasc2 & _ & _ & Hperm2).
    rewrite Hki in Hki'. injection Hki' as <-.
    destruct (ingest_wf H sort1 arrive1 rs1 columns pknames rows1 Hs1 Ha1 Hincl Hnd Hw1 Hc1)
      as (T1' & tidx1' & w1' & Hi1' & Hwf1).
    rewrite Hi1 in Hi1'. injection Hi1' as <- <- <-.
    destruct (ingest_wf H sort2 arrive2 rs2 columns pknames rows2 Hs2 Ha2 Hincl Hnd Hw2 Hc2)
      as (T2' & tidx2' & w2' & Hi2' & Hwf2).
    rewrite Hi2 in Hi2'. injection Hi2' as <- <- <-.
    destruct (to_diff_wf rid H T1 tidx1 Hwf1) as (W1 & X1).
    destruct (to_diff_wf rid H T2 tidx2 Hwf2) as (W2 & X2).
    assert (Hstored : forall eu,
      Diff.diff_tables 255 eu (to_diff_table rid T1) (to_diff_table rid T2) =
      Diff.Ok (DiffSpec.spec_diff_rows eu true
                 (input_rows rid (length columns) pk (rows_of T1))
                 (input_rows rid (length columns) pk (rows_of T2)))).
    { intros eu. rewrite (DiffMain_proofs.diff_correct 255 eu _ _ W1 W2).
      rewrite spec_diff_same_header by congruence.
      rewrite Hcol1, Hpk1, ensure_names_length. reflexivity. }
    assert (Hany : forall eu S1 S2,
      Permutation S1 rows1 -> keys_strictly_ascending (length columns) pk S1 ->
      Permutation S2 rows2 -> keys_strictly_ascending (length columns) pk S2 ->
      Diff.diff_tables 255 eu (to_diff_table rid T1) (to_diff_table rid T2) =
      Diff.Ok (DiffSpec.spec_diff_rows eu true (input_rows rid (length columns) pk S1)
                                       (input_rows rid (length columns) pk S2))).
    { intros eu S1 S2 P1 A1 P2 A2. rewrite Hstored.
      assert (N1 : NoDup (map (dkey (length columns) pk) rows1)).
      { eapply Permutation_NoDup; [apply Permutation_map; exact P1|].
        now apply strict_sorted_NoDup_keys. }
      assert (N2 : NoDup (map (dkey (length columns) pk) rows2)).
      { eapply Permutation_NoDup; [apply Permutation_map; exact P2|].
        now apply strict_sorted_NoDup_keys. }
      rewrite (sorted_arrangement_unique (length columns) pk (rows_of T1) S1 Hasc1 A1)
        by (rewrite P1; symmetry; auto).
      rewrite (sorted_arrangement_unique (length columns) pk (rows_of T2) S2 Hasc2 A2)
        by (rewrite P2; symmetry; auto).
      reflexivity. }
    exists pk, T1, tidx1, w1, T2, tidx2, w2.
    do 7 (split; [assumption|]). split; [exact Hstored|]. split; [exact Hany|].
    intros N1 N2 eu.
    pose proof (key_indices_wf _ _ _ Hki) as Hwpk.
    destruct (sorted_input_ok (length columns) pk rows1 Hwpk Hw1 N1) as (P1 & A1).
    destruct (sorted_input_ok (length columns) pk rows2 Hwpk Hw2 N2) as (P2 & A2).
    now apply Hany.
  Qed.

  (** * the property's wording on the input rows *)

  Lemma nth_input_rows ncols pk S p k i :
    nth_error (input_rows rid ncols pk S) p = Some (k, i) ->
    exists r, In r S /\ dkey ncols pk r = k /\ i = rid r.
  Proof.
    intros Hn. apply nth_error_map_inv in Hn as (r & Hn & E). injection E as -> ->.
    exists r. split; [eapply nth_error_In; eauto|auto].
  Qed.

  Lemma in_input_rows_nth ncols pk S r :
    In r S -> exists p, nth_error (input_rows rid ncols pk S) p = Some (dkey ncols pk r, rid r).
  Proof.
    intros Hr. apply In_nth_error in Hr as (p & Hp). exists p.
    unfold input_rows. now rewrite (map_nth_error _ _ _ Hp).
  Qed.

  Lemma lookup_input_none ncols pk S k :
    DiffSpec.lookup (input_rows rid ncols pk S) k = None <-> absent ncols pk S k.
  Proof.
    rewrite DiffTable_proofs.lookup_none. unfold input_rows. rewrite fst_to_diff_rows.
    unfold absent. split.
    - intros Hn r Hr E. apply Hn. rewrite <- E. now apply in_map.
    - intros Ha Hin. apply in_map_iff in Hin as (r & E & Hr). exact (Ha r Hr E).
  Qed.

  Lemma changed_iff eu r r' :
    (rid r = rid r' -> r = r') ->
    eu || negb true || negb (N.eqb (rid r) (rid r')) = true <-> (eu = true \/ r <> r').
  Proof.
    intros rid_inj. cbn [negb]. rewrite orb_false_r. rewrite orb_true_iff, negb_true_iff, N.eqb_neq. split.
    - intros [E|E]; [now left|right]. intros ->. now apply E.
    - intros [E|E]; [now left|right]. intros E'. apply E. now apply rid_inj.
  Qed.

  Lemma spec_reports_exactly eu ncols pk rows1 rows2 S1 S2 :
    rid_separates rid rows1 rows2 ->
    Permutation S1 rows1 -> Permutation S2 rows2 ->
    keys_strictly_ascending ncols pk S2 ->
    reports_exactly rid eu ncols pk rows1 rows2
      (DiffSpec.spec_diff_rows eu true (input_rows rid ncols pk S1) (input_rows rid ncols pk S2)).
  Proof.
    intros Hsep P1 P2 A2.
    assert (ND : NoDup (map fst (input_rows rid ncols pk S2))).
    { unfold input_rows. rewrite fst_to_diff_rows. now apply strict_sorted_NoDup_keys. }
    pose proof (fun d => DiffMain_proofs.spec_rows_in eu true (input_rows rid ncols pk S1)
                           (input_rows rid ncols pk S2) d ND) as Hin.
    assert (K1 : forall k r, keyed ncols pk rows1 k r <-> keyed ncols pk S1 k r).
    { intros k r. unfold keyed. split; intros (Hr & E); split; auto;
        [eapply Permutation_in; [symmetry; exact P1|exact Hr]|eapply Permutation_in; eauto]. }
    assert (K2 : forall k r, keyed ncols pk rows2 k r <-> keyed ncols pk S2 k r).
    { intros k r. unfold keyed. split; intros (Hr & E); split; auto;
        [eapply Permutation_in; [symmetry; exact P2|exact Hr]|eapply Permutation_in; eauto]. }
    assert (B1 : forall k, absent ncols pk rows1 k <-> absent ncols pk S1 k).
    { intros k. unfold absent. split; intros Ha r Hr; apply Ha;
        [eapply Permutation_in; eauto|eapply Permutation_in; [symmetry; exact P1|exact Hr]]. }
    assert (B2 : forall k, absent ncols pk rows2 k <-> absent ncols pk S2 k).
    { intros k. unfold absent. split; intros Ha r Hr; apply Ha;
        [eapply Permutation_in; eauto|eapply Permutation_in; [symmetry; exact P2|exact Hr]]. }
    unfold reports_exactly. split; [|split; [|split]].
    - intros d Hd. apply Hin in Hd. destruct d as [k i p|k i p i' q|k i' q]; cbn in Hd.
      + destruct Hd as (Hn & Hl). apply nth_input_rows in Hn as (r & Hr & Ek & Ei).
        exists r. split; [exact Ei|]. split; [apply K1; split; auto|].
        apply B2. now apply lookup_input_none.
      + destruct Hd as (Hn & Hn' & Hc).
        apply nth_input_rows in Hn as (r & Hr & Ek & Ei).
        apply nth_input_rows in Hn' as (r' & Hr' & Ek' & Ei').
        exists r, r'. subst i i'. repeat split; auto.
        * eapply Permutation_in; eauto.
        * eapply Permutation_in; eauto.
        * apply changed_iff in Hc; [exact Hc|].
          apply Hsep; eapply Permutation_in; eauto.
      + destruct Hd as (Hn & Hl). apply nth_input_rows in Hn as (r' & Hr' & Ek & Ei).
        exists r'. split; [exact Ei|]. split; [apply K2; split; auto|].
        apply B1. now apply lookup_input_none.
    - intros k r Hk Ha. apply K1 in Hk as (Hr & Ek). apply B2 in Ha.
      destruct (in_input_rows_nth ncols pk S1 r Hr) as (p & Hp). exists p.
      apply Hin. cbn. rewrite Ek in Hp. split; [exact Hp|]. now apply lookup_input_none.
    - intros k r r' Hk Hk' Hc. apply K1 in Hk as (Hr & Ek). apply K2 in Hk' as (Hr' & Ek').
      destruct (in_input_rows_nth ncols pk S1 r Hr) as (p & Hp).
      destruct (in_input_rows_nth ncols pk S2 r' Hr') as (q & Hq). exists p, q.
      apply Hin. cbn. rewrite Ek in Hp. rewrite Ek' in Hq. repeat split; auto.
      apply changed_iff; [|exact Hc].
      apply Hsep; eapply Permutation_in; eauto.
    - intros k r' Hk' Ha. apply K2 in Hk' as (Hr' & Ek'). apply B1 in Ha.
      destruct (in_input_rows_nth ncols pk S2 r' Hr') as (q & Hq). exists q.
      apply Hin. cbn. rewrite Ek' in Hq. split; [exact Hq|]. now apply lookup_input_none.
  Qed.

  Theorem ingest_diff_events H sort1 sort2 arrive1 arrive2 rs1 rs2 columns pknames rows1 rows2 eu :
    sort_ok (length columns) sort1 -> sort_ok (length columns) sort2 ->
    any_arrival arrive1 -> any_arrival arrive2 ->
    incl pknames columns -> NoDup pknames ->
    wf_rows (length columns) rows1 -> cells_in_limit rows1 ->
    wf_rows (length columns) rows2 -> cells_in_limit rows2 ->
    exists pk T1 tidx1 w1 T2 tidx2 w2 evs,
      key_indices columns pknames = Some pk /\
      ingest_table H sort1 arrive1 rs1 columns pknames rows1 = (IOk T1 tidx1, w1) /\
      ingest_table H sort2 arrive2 rs2 columns pknames rows2 = (IOk T2 tidx2, w2) /\
      Diff.diff_tables 255 eu (to_diff_table rid T1) (to_diff_table rid T2) = Diff.Ok evs /\
      NoDup (map DiffSpec.dev_key evs) /\
      (NoDup (map (dkey (length columns) pk) rows1) -> NoDup (map (dkey (length columns) pk) rows2) ->
       rid_separates rid rows1 rows2 ->
       reports_exactly rid eu (length columns) pk rows1 rows2 evs).
  Proof.
    intros Hs1 Hs2 Ha1 Ha2 Hincl Hnd Hw1 Hc1 Hw2 Hc2.
    destruct (ingest_diff H sort1 sort2 arrive1 arrive2 rs1 rs2 columns pknames rows1 rows2
                Hs1 Hs2 Ha1 Ha2 Hincl Hnd Hw1 Hc1 Hw2 Hc2)
      as (pk & T1 & tidx1 & w1 & T2 & tidx2 & w2 & Hki & Hi1 & Hi2 & W1 & W2 & _ & _ & Hst & _ & Hsorted).
    exists pk, T1, tidx1, w1, T2, tidx2, w2. eexists.
    split; [exact Hki|]. split; [exact Hi1|]. split; [exact Hi2|]. split; [apply Hst|].
    split.
    - destruct (DiffMain_proofs.diff_no_dup 255 eu _ _ W1 W2) as (evs & He & Hn).
      rewrite Hst in He. injection He as <-. exact Hn.
    - intros N1 N2 Hsep.
      pose proof (key_indices_wf _ _ _ Hki) as Hwpk.
      destruct (sorted_input_ok (length columns) pk rows1 Hwpk Hw1 N1) as (P1 & A1).
      destruct (sorted_input_ok (length columns) pk rows2 Hwpk Hw2 N2) as (P2 & A2).
      specialize (Hsorted N1 N2 eu). rewrite Hst in Hsorted. injection Hsorted as ->.
      now apply spec_reports_exactly.
  Qed.
End EndToEnd.

(** * consequences for every producer covered by C03 *)
Section Producers.
  Variable rid : row -> N.

  (** any two tables sound in C03's sense (whatever their headers and keys): the diff model
      does not panic on their views and computes the specification's diff *)
  Theorem wf_tables_diff_correct H1 H2 T1 tidx1 T2 tidx2 eu :
    IngestSpec.WF_table H1 T1 tidx1 -> IngestSpec.WF_table H2 T2 tidx2 ->
    Diff.diff_tables_idx 255 true eu (to_diff_table rid T1) (to_diff_table rid T2) tidx1 tidx2 =
    Diff.Ok (DiffSpec.spec_diff eu (to_diff_table rid T1) (to_diff_table rid T2)).
  Proof.
    intros W1 W2.
    destruct (to_diff_wf rid H1 T1 tidx1 W1) as (D1 & <-).
    destruct (to_diff_wf rid H2 T2 tidx2 W2) as (D2 & <-).
    exact (DiffMain_proofs.diff_correct 255 eu _ _ D1 D2).
  Qed.

  (** rows handed to a sorter in any way, then IngestTableFromSorter (the path of the merge
      commit and the doctor re-ingest): the stored table is well-formed for the diff *)
  Theorem sorter_table_diff_wf H sort_rows arrive columns pk s rows :
    any_arrival arrive -> wf_pk (length columns) pk -> NoDup pk -> wf_rows (length columns) rows ->
    Permutation (concat (runs_of sort_rows pk s)) rows ->
    Forall (run_sorted pk) (runs_of sort_rows pk s) ->
    exists T tidx w,
      ingest_from_sorter H sort_rows arrive columns pk s = (IOk T tidx, w) /\
      DiffSpec.WF_table 255 (to_diff_table rid T) /\
      Diff.tindex (Diff.t_blocks (to_diff_table rid T)) = tidx.
  Proof.
    intros Ha Hpk Hnd Hw Hp Hr.
    destruct (sorter_any_rows_wf H sort_rows arrive columns pk s rows Ha Hpk Hnd Hw Hp Hr)
      as (T & tidx & w & Hi & Hwf & _).
    exists T, tidx, w. split; [exact Hi|]. exact (to_diff_wf rid H T tidx Hwf).
  Qed.
End Producers.

(** * non-vacuity: a 3-row CSV pair *)

Lemma ex_rid_separates : rid_separates ex_rid ex_rows1 ex_rows2.
Proof.
  intros a b Ha Hb. cbn in Ha, Hb.
  repeat (destruct Ha as [<-|Ha]; [|]); try contradiction;
    repeat (destruct Hb as [<-|Hb]; [|]); try contradiction;
    vm_compute; intros E; try discriminate E; reflexivity.
Qed.

(** every hypothesis of [ingest_diff] / [ingest_diff_events] holds of a concrete pair of
    3-row CSVs (key = first column; run size 1 with in-order arrival on one side, run size 2
    with reversed arrival on the other), and the diff of the two ingested tables is the
    expected non-trivial list: key 1 modified, key 3 added, key 4 removed, key 2 unchanged *)
Lemma ex_nonvacuous :
  sort_ok (length ex_columns) isort_rows /\
  any_arrival (fun l => l) /\ any_arrival (@rev asyncblock) /\
  incl [[97%N]] ex_columns /\ NoDup [[97%N] : bytes] /\
  wf_rows (length ex_columns) ex_rows1 /\ cells_in_limit ex_rows1 /\
  wf_rows (length ex_columns) ex_rows2 /\ cells_in_limit ex_rows2 /\
  NoDup (map (dkey 2 [0]) ex_rows1) /\ NoDup (map (dkey 2 [0]) ex_rows2) /\
  rid_separates ex_rid ex_rows1 ex_rows2 /\
  match fst (ingest_table no_hash isort_rows (fun l => l) 1 ex_columns [[97%N]] ex_rows1),
        fst (ingest_table no_hash isort_rows (@rev asyncblock) 2 ex_columns [[97%N]] ex_rows2) with
  | IOk T1 _, IOk T2 _ =>
      Diff.diff_tables 255 false (to_diff_table ex_rid T1) (to_diff_table ex_rid T2) =
      Diff.Ok [Diff.Modified [[49%N]] (ex_rid [[49%N]; [121%N]]) 0 (ex_rid [[49%N]; [119%N]]) 0;
               Diff.Added [[51%N]] (ex_rid [[51%N]; [120%N]]) 2;
               Diff.Removed [[52%N]] (ex_rid [[52%N]; [120%N]]) 2] /\
      DiffSpec.spec_diff_rows false true
        (input_rows ex_rid 2 [0] (sorted_input [0] ex_rows1))
        (input_rows ex_rid 2 [0] (sorted_input [0] ex_rows2)) =
      [Diff.Modified [[49%N]] (ex_rid [[49%N]; [121%N]]) 0 (ex_rid [[49%N]; [119%N]]) 0;
       Diff.Added [[51%N]] (ex_rid [[51%N]; [120%N]]) 2;
       Diff.Removed [[52%N]] (ex_rid [[52%N]; [120%N]]) 2]
  | _, _ => False
  end.
Proof.
  split; [apply isort_ok|].
  split; [intros l; reflexivity|].
  split; [intros l; symmetry; apply Permutation_rev|].
  split; [intros x [<-|[]]; now left|].
  split; [repeat constructor; intros []|].
  split; [repeat constructor|].
  split; [repeat constructor; vm_compute; discriminate|].
  split; [repeat constructor|].
  split; [repeat constructor; vm_compute; discriminate|].
  split; [vm_compute; repeat constructor; cbn; intuition discriminate|].
  split; [vm_compute; repeat constructor; cbn; intuition discriminate|].
  split; [exact ex_rid_separates|].
  vm_compute. split; reflexivity.
Qed.
