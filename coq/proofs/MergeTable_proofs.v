(** Proofs for C05, part 3: table level under the "same layout" guard - every table
    (base and branches) has the same duplicate-free column list with the key columns
    first.  Any number of branches. *)
From W.lib Require Import Tree Bytes GoSlice.
From W.model Require Import ColDiff Merge MergeSpec.
From W.proofs Require Import Merge_proofs ColDiff_proofs.
From Coq Require Import Arith Lia Bool List Permutation.
Import ListNotations.

(** ---- layer 1: CompareColumns under the guard is the identity layout ---- *)
Lemma collect_groups_all_known names cols a :
  (forall s, In s cols -> In s names) -> collect_groups names cols a = [].
Proof.
  revert a. induction cols as [|s t IH]; intros a H; cbn; [reflexivity|].
  destruct (map_idx_in names s (H s (or_introl eq_refl))) as [i E]. rewrite E.
  apply IH. intros x Hx. apply H. now right.
Qed.

Lemma weave_nil names k : weave [] names k = names.
Proof. revert k. induction names as [|x t IH]; intros k; cbn; [reflexivity|]. now rewrite IH. Qed.

Lemma insert_to_names_same names cols :
  (forall s, In s cols -> In s names) -> insert_to_names names cols = names.
Proof.
  intros H. unfold insert_to_names. rewrite collect_groups_all_known by assumption.
  cbn. apply weave_nil.
Qed.

Lemma collect_groups_fresh cols a : collect_groups [] cols a = map (fun s => (a, s)) cols.
Proof. induction cols as [|s t IH]; cbn; [reflexivity|]. now rewrite IH. Qed.

Lemma insert_to_names_nil cols : insert_to_names [] cols = cols.
Proof.
  unfold insert_to_names. rewrite collect_groups_fresh. cbn [weave]. rewrite app_nil_r.
  unfold group_of. induction cols as [|s t IH]; cbn; [reflexivity|]. now rewrite IH.
Qed.

Lemma names0_same cols others :
  others <> [] -> Forall (fun c => c = cols) others -> names0 cols others = cols.
Proof.
  intros Hne Hall. unfold names0.
  assert (E : fold_left insert_to_names others [] = cols).
  { destruct others as [|c t]; [congruence|]. inversion Hall as [|? ? Hc Ht]; subst. cbn [fold_left].
    rewrite insert_to_names_nil. clear Hne Hall.
    induction t as [|c t IH]; cbn [fold_left]; [reflexivity|].
    inversion Ht; subst. rewrite insert_to_names_same by auto. now apply IH. }
  rewrite E. now apply insert_to_names_same.
Qed.

Lemma filter_rank_none pk es :
  map ce_name (filter (fun e => rank_eqb None e pk) es) =
  filter (fun s => negb (mem_name pk s)) (map ce_name es).
Proof.
  induction es as [|e es IH]; cbn [filter map]; [reflexivity|].
  assert (E : rank_eqb None e pk = negb (mem_name pk (ce_name e))).
  { unfold rank_eqb. destruct (map_idx pk (ce_name e)) as [i|] eqn:Em; cbn [anchor_eqb].
    - symmetry. apply negb_false_iff. apply mem_name_in. apply map_idx_some in Em as [Hi <-]. now apply nth_In.
    - symmetry. apply negb_true_iff. apply map_idx_none in Em.
      destruct (mem_name pk (ce_name e)) eqn:E'; [|reflexivity]. apply mem_name_in in E'. tauto. }
  rewrite E. destruct (negb (mem_name pk (ce_name e))); cbn [map]; now rewrite IH.
Qed.

Lemma hoist_names pk es :
  NoDup pk -> NoDup (map ce_name es) -> (forall p, In p pk -> In p (map ce_name es)) ->
  map ce_name (hoist pk es) = pk ++ filter (fun s => negb (mem_name pk s)) (map ce_name es).
Proof.
  intros Hpk Hnd Hsub. unfold hoist. rewrite map_app, filter_rank_none. f_equal.
  assert (H : forall r, r < length pk ->
             map ce_name (filter (fun e => rank_eqb (Some r) e pk) es) = [nth r pk []]).
  { intros r Hr.
    destruct (proj1 (in_map_iff ce_name es (nth r pk [])) (Hsub _ (nth_In pk [] Hr))) as (x & Hx & Hin).
    rewrite (filter_unique ce_name _ es x Hnd Hin).
    - cbn. now rewrite Hx.
    - unfold rank_eqb. rewrite Hx, (map_idx_nodup pk r Hpk Hr). apply anchor_eqb_eq. reflexivity.
    - intros e _ He. unfold rank_eqb in He. apply anchor_eqb_eq in He. apply map_idx_some in He as [_ He].
      now rewrite Hx. }
  assert (G : forall n k, k + n <= length pk ->
             map ce_name (flat_map (fun r => filter (fun e => rank_eqb (Some r) e pk) es) (seq k n))
             = firstn n (skipn k pk)).
  { induction n as [|n IH]; intros k Hk; cbn [seq flat_map]; [reflexivity|].
    rewrite map_app, H by lia. rewrite IH by lia. cbn [app].
    assert (E : skipn k pk = nth k pk [] :: skipn (S k) pk).
    { clear -Hk. revert k Hk. induction pk as [|p pk IH]; intros k Hk; [cbn in Hk; lia|].
      destruct k as [|k]; [reflexivity|]. cbn [skipn nth]. apply IH. cbn in Hk. lia. }
    rewrite E. reflexivity. }
  rewrite G by lia. cbn [skipn]. apply firstn_all.
Qed.

Lemma NoDup_app_inv {A} (l1 l2 : list A) :
  NoDup (l1 ++ l2) -> NoDup l1 /\ NoDup l2 /\ forall x, In x l1 -> ~ In x l2.
Proof.
  induction l1 as [|a l1 IH]; cbn; intros H.
  - split; [constructor|]. split; [assumption|]. intros x [].
  - inversion H as [|? ? Ha Hn]; subst. destruct (IH Hn) as (H1 & H2 & H3).
    split; [constructor; [|assumption]; intros Hin; apply Ha; apply in_or_app; now left|].
    split; [assumption|]. intros x [<-|Hx]; [|now apply H3].
    intros Hin. apply Ha. apply in_or_app. now right.
Qed.

Lemma filter_notin_prefix pk rest :
  NoDup (pk ++ rest) -> filter (fun s => negb (mem_name pk s)) (pk ++ rest) = rest.
Proof.
  intros Hnd. rewrite filter_app.
  assert (E1 : filter (fun s => negb (mem_name pk s)) pk = []).
  { assert (G : forall l, (forall s, In s l -> In s pk) -> filter (fun s => negb (mem_name pk s)) l = []).
    { induction l as [|x l IH]; intros H; cbn; [reflexivity|].
      assert (Hm : mem_name pk x = true) by (apply mem_name_in, H; now left).
      rewrite Hm. cbn. apply IH. intros s Hs. apply H. now right. }
    now apply G. }
  assert (E2 : filter (fun s => negb (mem_name pk s)) rest = rest).
  { assert (G : forall l, (forall s, In s l -> ~ In s pk) -> filter (fun s => negb (mem_name pk s)) l = l).
    { induction l as [|x l IH]; intros H; cbn; [reflexivity|].
      assert (Hm : mem_name pk x = false).
      { destruct (mem_name pk x) eqn:E; [|reflexivity]. apply mem_name_in in E. exfalso. now apply (H x (or_introl eq_refl)). }
      rewrite Hm. cbn. f_equal. apply IH. intros s Hs. apply H. now right. }
    apply G. intros s Hs Hp. destruct (NoDup_app_inv _ _ Hnd) as (_ & _ & Hd). now apply (Hd s Hp). }
  now rewrite E1, E2.
Qed.

(** the guard on headers *)
Definition guard_headers (cols pk : list name) (base : header) (others : list header) : Prop :=
  NoDup cols /\ (exists rest, cols = pk ++ rest) /\ others <> [] /\
  base = (cols, pk) /\ Forall (fun o => o = (cols, pk)) others.

Lemma guard_wf cols pk base others :
  guard_headers cols pk base others -> wf_header base /\ Forall wf_header others.
Proof.
  intros (Hnd & (rest & ->) & Hne & -> & Hall).
  assert (Hw : wf_header (pk ++ rest, pk)).
  { unfold wf_header; cbn. split; [assumption|]. split; [now destruct (NoDup_app_inv _ _ Hnd)|].
    intros p Hp. apply in_or_app. now left. }
  split; [assumption|]. apply Forall_forall. intros o Ho. rewrite Forall_forall in Hall. now rewrite (Hall o Ho).
Qed.

Section GuardLayout.
  Variables (cols pk : list name) (base : header) (others : list header) (cd : coldiff).
  Hypothesis Hg : guard_headers cols pk base others.
  Hypothesis Hcd : compare_columns base others = Ok cd.

  Lemma gl_names : cd_names cd = cols.
  Proof.
    destruct (guard_wf _ _ _ _ Hg) as [Hwb Hwo].
    destruct (cc_shape base others cd Hwo Hcd) as [Hne E].
    destruct Hg as (Hnd & (rest & Ec) & _ & Eb & Hall).
    rewrite E. cbn [cd_names].
    assert (En0 : names0 (fst base) (map fst others) = cols).
    { rewrite Eb. cbn [fst]. apply names0_same.
      - intros H. apply map_eq_nil in H. now apply Hne.
      - apply Forall_forall. intros c Hc. apply in_map_iff in Hc as (o & <- & Ho).
        rewrite Forall_forall in Hall. now rewrite (Hall o Ho). }
    assert (Epk : snd (hd hdr0 others) = pk).
    { destruct others as [|o t]; [now exfalso; apply Hne|]. inversion Hall; subst. reflexivity. }
    rewrite En0, Epk.
    rewrite hoist_names.
    - rewrite entries_names. rewrite Ec. rewrite Ec in Hnd. now rewrite (filter_notin_prefix pk rest Hnd).
    - rewrite Ec in Hnd. now destruct (NoDup_app_inv _ _ Hnd).
    - now rewrite entries_names.
    - intros p Hp. rewrite entries_names, Ec. apply in_or_app. now left.
  Qed.

  Lemma gl_layers : cd_layers cd = length others.
  Proof. destruct (guard_wf _ _ _ _ Hg) as [Hwb Hwo]. exact (cc_layers base others cd Hwo Hcd). Qed.

  Lemma gl_base_idx n : n < length cols -> nth n (cd_base_idx cd) None = Some n.
  Proof.
    intros Hn. destruct (guard_wf _ _ _ _ Hg) as [Hwb Hwo].
    pose proof gl_names as En. destruct Hg as (Hnd & _ & _ & Eb & _).
    apply (cc_base_idx base others cd Hwb Hwo Hcd); [now rewrite En|].
    rewrite Eb, En. cbn [fst]. split; [assumption|reflexivity].
  Qed.

  Lemma gl_other_idx l n : l < length others -> n < length cols ->
    nth n (nth l (cd_other_idx cd) []) None = Some n.
  Proof.
    intros Hl Hn. destruct (guard_wf _ _ _ _ Hg) as [Hwb Hwo].
    pose proof gl_names as En. destruct Hg as (Hnd & _ & _ & _ & Hall).
    apply (cc_other_idx base others cd Hwb Hwo Hcd); [assumption|now rewrite En|].
    rewrite Forall_forall in Hall. rewrite (Hall _ (nth_In others hdr0 Hl)), En. cbn [fst].
    split; [assumption|reflexivity].
  Qed.

  Lemma gl_consistent : cd_consistent cd.
  Proof. destruct (guard_wf _ _ _ _ Hg) as [Hwb Hwo]. exact (cc_consistent base others cd Hwb Hwo Hcd). Qed.

  Lemma gl_lengths :
    length (cd_base_idx cd) = length cols /\
    forall l, l < length others -> length (nth l (cd_other_idx cd) []) = length cols.
  Proof.
    destruct gl_consistent as (H1 & _ & H3). rewrite gl_names in *. split; [assumption|].
    intros l Hl. rewrite <- gl_layers in Hl. now destruct (H3 l Hl).
  Qed.

  Lemma rearrange_id idx (r : row) :
    length idx = length r -> (forall n, n < length r -> nth n idx None = Some n) -> rearrange idx r = r.
  Proof.
    intros Hl Hn. apply nth_ext with (d := []) (d' := []); [unfold rearrange; now rewrite map_length|].
    intros n Hlt. unfold rearrange in Hlt. rewrite map_length, Hl in Hlt.
    rewrite nth_rearrange, Hn by assumption. reflexivity.
  Qed.

  Lemma gl_rearrange_base (r : row) : length r = length cols -> rearrange (cd_base_idx cd) r = r.
  Proof.
    intros Hr. apply rearrange_id; [now rewrite (proj1 gl_lengths)|].
    intros n Hn. apply gl_base_idx. now rewrite <- Hr.
  Qed.

  Lemma gl_rearrange_other l (r : row) :
    l < length others -> length r = length cols -> rearrange (nth l (cd_other_idx cd) []) r = r.
  Proof.
    intros Hl Hr. apply rearrange_id; [now rewrite (proj2 gl_lengths l Hl)|].
    intros n Hn. apply gl_other_idx; [assumption|now rewrite <- Hr].
  Qed.

  (** under the guard the states of a record are just the cells of the rows *)
  Lemma gl_base_st m i : i < length cols -> base_st cd m i = cell_base (m_base m) i.
  Proof. intros Hi. unfold base_st, cell_base. now rewrite gl_base_idx. Qed.

  Lemma gl_layer_cell l r i : l < length others -> i < length cols -> layer_cell cd l r i = SVal (nth i r []).
  Proof. intros Hl Hi. unfold layer_cell. now rewrite gl_other_idx. Qed.
End GuardLayout.

(** ---- layer 2: one Merge record under the identity layout ---- *)
Definition id_layout (cd : coldiff) (n N : nat) : Prop :=
  length (cd_names cd) = n /\ cd_layers cd = N /\ cd_consistent cd /\
  (forall i, i < n -> nth i (cd_base_idx cd) None = Some i) /\
  (forall l i, l < N -> i < n -> nth i (nth l (cd_other_idx cd) []) None = Some i) /\
  length (cd_base_idx cd) = n /\ (forall l, l < N -> length (nth l (cd_other_idx cd) []) = n).

Definition wf_mrec (n N : nat) (m : mrec) : Prop :=
  length (m_others m) = N /\
  (forall b, m_base m = Some b -> length b = n) /\
  (forall r, In (Some r) (m_others m) -> length r = n).

Section Layer2.
  Variables (cd : coldiff) (n N : nat) (m : mrec).
  Hypothesis Hid : id_layout cd n N.
  Hypothesis Hwf : wf_mrec n N m.

  Lemma l2_layer_cell l r i : l < N -> layer_cell cd l r i = if i <? n then SVal (nth i r []) else SNoCell.
  Proof.
    intros Hl. destruct Hid as (_ & _ & _ & _ & Ho & _ & Hlo). unfold layer_cell.
    destruct (i <? n) eqn:E.
    - apply Nat.ltb_lt in E. now rewrite Ho.
    - apply Nat.ltb_ge in E. rewrite nth_overflow; [reflexivity|]. now rewrite Hlo.
  Qed.

  Lemma l2_dedupe_ok : dedupe_ok cd m.
  Proof.
    intros l l' r r' Hl Hl' Hk i. apply keqb_eq in Hk. subst r'.
    destruct Hwf as (HN & _).
    assert (l < N) by (rewrite <- HN; apply nth_error_Some; congruence).
    assert (l' < N) by (rewrite <- HN; apply nth_error_Some; congruence).
    now rewrite !l2_layer_cell.
  Qed.

  Lemma l2_base_st i : i < n -> base_st cd m i = cell_base (m_base m) i.
  Proof. intros Hi. destruct Hid as (_ & _ & _ & Hb & _). unfold base_st, cell_base. now rewrite Hb. Qed.

  Lemma l2_states i : i < n -> states cd m i = cell_states (m_base m) (m_others m) i.
  Proof.
    intros Hi. unfold states, cell_states. destruct Hwf as (HN & _).
    assert (G : forall os k, k + length os <= N ->
              flat_map (layer_states cd m i) (combine (seq k (length os)) os) =
              flat_map (fun o => match o with
                                 | Some r => [SVal (nth i r [])]
                                 | None => if is_some (m_base m) then [SNoCell] else []
                                 end) os).
    { induction os as [|o os IH]; intros k Hk; cbn [length seq combine flat_map]; [reflexivity|].
      cbn [length] in Hk. rewrite IH by lia. f_equal.
      unfold layer_states; cbn [fst snd]. destruct o as [r|]; [|reflexivity].
      rewrite l2_layer_cell by lia. apply Nat.ltb_lt in Hi. now rewrite Hi. }
    apply G. lia.
  Qed.

  Lemma l2_len : length (m_others m) = cd_layers cd.
  Proof. destruct Hid as (_ & HN & _). destruct Hwf as (H & _). congruence. Qed.

  (** cell-wise part of the specification *)
  Definition col_conflict (i : nat) : bool :=
    conflictb (cell_base (m_base m) i) (cell_states (m_base m) (m_others m) i).
  Definition col_value (i : nat) : bytes :=
    render (spec_value (cell_base (m_base m) i) (cell_states (m_base m) (m_others m) i)).

  Lemma l2_try_resolve_flag :
    r_resolved (try_resolve cd m) = true <->
    row_removed m = false /\ existsb col_conflict (seq 0 n) = false.
  Proof.
    destruct Hid as (Hn & _ & Hc & _).
    rewrite (resolved_flag_correct cd m Hc l2_len l2_dedupe_ok). rewrite Hn.
    split; intros [Hr H]; (split; [assumption|]).
    - destruct (existsb col_conflict (seq 0 n)) eqn:E; [|reflexivity].
      apply existsb_exists in E as (i & Hi & Hci). apply in_seq in Hi.
      unfold col_conflict in Hci. rewrite <- l2_base_st, <- l2_states in Hci by lia.
      rewrite H in Hci by lia. discriminate Hci.
    - intros i Hi. rewrite l2_base_st, l2_states by assumption.
      destruct (conflictb _ _) eqn:E; [|reflexivity].
      assert (existsb col_conflict (seq 0 n) = true); [|congruence].
      apply existsb_exists. exists i. split; [apply in_seq; lia|exact E].
  Qed.

  Lemma l2_try_resolve_row :
    row_removed m = false -> existsb col_conflict (seq 0 n) = false ->
    r_row (try_resolve cd m) = Some (map col_value (seq 0 n)).
  Proof.
    intros Hr Hnc. destruct Hid as (Hn & _ & Hc & _).
    assert (0 < n \/ n = 0) as [Hpos|H0] by lia.
    - destruct (try_resolve_row cd m 0) as (row & Hrow & Hlen & _); [lia|].
      rewrite Hrow. f_equal.
      apply nth_ext with (d := []) (d' := []); [now rewrite map_length, seq_length, Hlen|].
      intros i Hi. rewrite Hlen, Hn in Hi.
      destruct (resolve_cell_correct cd m i Hc l2_len l2_dedupe_ok) as [_ Hv]; [lia|].
      destruct Hv as (row' & Hrow' & Hval); [assumption| |].
      + rewrite l2_base_st, l2_states by assumption.
        destruct (conflictb _ _) eqn:E; [|reflexivity].
        assert (existsb col_conflict (seq 0 n) = true); [|congruence].
        apply existsb_exists. exists i. split; [apply in_seq; lia|exact E].
      + rewrite Hrow in Hrow'. injection Hrow' as <-. rewrite Hval.
        rewrite l2_base_st, l2_states by assumption.
        rewrite (nth_map_seq col_value n i []) by assumption. reflexivity.
    - rewrite try_resolve_cells. cbn [r_row]. rewrite Hn, H0. reflexivity.
  Qed.

  (** counting *)
  Lemma filter_partition_length {A} (p : A -> bool) l :
    length l = length (filter p l) + length (filter (fun x => negb (p x)) l).
  Proof. induction l as [|x l IH]; cbn; [reflexivity|]. destruct (p x); cbn; lia. Qed.

  Lemma filter_filter {A} (p q : A -> bool) l : filter p (filter q l) = filter (fun x => q x && p x) l.
  Proof. induction l as [|x l IH]; cbn; [reflexivity|]. destruct (q x); cbn; [destruct (p x); now rewrite IH|assumption]. Qed.

  Lemma filter_id {A} (p : A -> bool) l : (forall x, In x l -> p x = true) -> filter p l = l.
  Proof.
    induction l as [|x l IH]; intros H; cbn; [reflexivity|]. rewrite (H x (or_introl eq_refl)).
    f_equal. apply IH. intros y Hy. apply H. now right.
  Qed.

  Lemma filter_len_le {A} (p : A -> bool) l : length (filter p l) <= length l.
  Proof. induction l as [|x l IH]; cbn; [lia|]. destruct (p x); cbn; lia. Qed.

  Lemma filter_all {A} (p : A -> bool) l : length (filter p l) = length l <-> forall x, In x l -> p x = true.
  Proof.
    induction l as [|x l IH]; cbn; [split; [intros _ ? []|reflexivity]|].
    destruct (p x) eqn:E; cbn.
    - rewrite Nat.succ_inj_wd, IH. split; [intros H y [<-|Hy]; auto|intros H y Hy; apply H; now right].
    - split; [|intros H; rewrite (H x (or_introl eq_refl)) in E; discriminate E].
      intros H. pose proof (filter_len_le p l). lia.
  Qed.

  Lemma row_removed_iff :
    row_removed m = true <-> is_some (m_base m) = true /\ length (filter is_some (m_others m)) <> length (m_others m).
  Proof.
    unfold row_removed. rewrite andb_true_iff. apply and_iff_compat_l.
    rewrite existsb_exists. split.
    - intros (o & Hin & Ho) H. pose proof (proj1 (filter_all (@is_some row) (m_others m)) H) as H'.
      rewrite (H' o Hin) in Ho. discriminate Ho.
    - intros H. destruct (existsb (fun o => negb (is_some o)) (m_others m)) eqn:E.
      + now apply existsb_exists in E.
      + exfalso. apply H. apply (proj2 (filter_all (@is_some row) (m_others m))). intros o Ho.
        destruct (is_some o) eqn:Eo; [reflexivity|]. exfalso.
        assert (existsb (fun o => negb (is_some o)) (m_others m) = true); [|congruence].
        apply existsb_exists. exists o. split; [assumption|now rewrite Eo].
  Qed.

  (** Resolve / the noChanges skip against [spec_row] *)
  Lemma l2_resolve_spec :
    (m_base m = None -> exists r, In (Some r) (m_others m)) ->
    match spec_row n (m_base m) (m_others m) with
    | OStay _ => no_changes m = true
    | OGone => no_changes m = false /\ resolve cd m = {| r_resolved := true; r_row := None; r_unres := [] |}
    | OConflict => no_changes m = false /\ r_resolved (resolve cd m) = false
    | ORow r => no_changes m = false /\ r_resolved (resolve cd m) = true /\ r_row (resolve cd m) = Some r
    end.
  Proof.
    intros Hpres. unfold spec_row, resolve, no_changes.
    set (os := m_others m) in *. set (present := filter is_some os).
    set (changed_rows := filter (fun o => negb (sum_eqb o (m_base m))) present).
    assert (Hun : length (filter (fun o => is_some o && is_some (m_base m) && sum_eqb o (m_base m)) os)
                  = if is_some (m_base m) then length present - length changed_rows else 0).
    { destruct (m_base m) as [b|] eqn:Eb; cbn [is_some].
      - pose proof (filter_partition_length (fun o => sum_eqb o (Some b)) present) as Hp.
        fold changed_rows in Hp. subst present. rewrite filter_filter in Hp.
        rewrite (filter_ext_in' (fun o => is_some o && true && sum_eqb o (Some b)) (fun x => is_some x && sum_eqb x (Some b)))
          by (intros o _; now rewrite andb_true_r).
        unfold changed_rows. lia.
      - rewrite (filter_ext_in' _ (fun _ => false)) by (intros o _; now rewrite andb_false_r).
        clear. induction os; cbn; auto. }
    assert (Hcl : length changed_rows <= length present) by (apply filter_len_le).
    destruct (m_base m) as [b|] eqn:Eb.
    - (* the base has the row *)
      cbn [is_some] in Hun |- *.
      destruct changed_rows as [|c cr] eqn:Ecr.
      + (* every present branch row equals the base row *)
        assert (Hall : forall o, In o present -> sum_eqb o (Some b) = true).
        { intros o Ho. destruct (sum_eqb o (Some b)) eqn:E; [reflexivity|]. exfalso.
          assert (In o changed_rows) by (apply filter_In; split; [assumption|now rewrite E]).
          rewrite Ecr in H. destruct H. }
        cbn [length] in Hun. rewrite Nat.sub_0_r in Hun.
        destruct (Nat.eqb (length present) (length os)) eqn:Elen.
        * apply Nat.eqb_eq in Elen. apply forallb_forall. intros o Ho. apply Hall.
          apply filter_In. split; [assumption|]. subst present.
          exact (proj1 (filter_all (@is_some row) os) Elen o Ho).
        * apply Nat.eqb_neq in Elen. split.
          -- destruct (forallb _ os) eqn:Ef; [|reflexivity]. exfalso. apply Elen. subst present.
             apply (proj2 (filter_all (@is_some row) os)). intros o Ho. rewrite forallb_forall in Ef. specialize (Ef o Ho).
             destruct o; [reflexivity|discriminate Ef].
          -- fold present. rewrite Hun, Nat.eqb_refl, orb_true_r. reflexivity.
      + (* some branch changed the row *)
        assert (Hc : In c present /\ sum_eqb c (Some b) = false).
        { assert (Hin : In c changed_rows) by (rewrite Ecr; now left).
          apply filter_In in Hin as [Hin Hn]. split; [assumption|now apply negb_true_iff in Hn]. }
        destruct Hc as [Hcp Hcs].
        assert (Hnc : forallb (fun o => sum_eqb o (Some b)) os = false).
        { destruct (forallb _ os) eqn:Ef; [|reflexivity]. rewrite forallb_forall in Ef.
          apply filter_In in Hcp as [Hco _]. rewrite (Ef c Hco) in Hcs. discriminate Hcs. }
        assert (Hearly : Nat.eqb (length present) 0 ||
                         Nat.eqb (length (filter (fun o => is_some o && true && sum_eqb o (Some b)) os)) (length present) = false).
        { rewrite Hun. cbn [length] in *. apply orb_false_iff. split; apply Nat.eqb_neq.
          - destruct present; [destruct Hcp|cbn; lia].
          - lia. }
        fold present. rewrite Hearly.
        cbn [is_some andb].
        destruct (negb (Nat.eqb (length present) (length os))) eqn:Erem.
        * (* removed by some branch *)
          split; [assumption|].
          destruct (r_resolved (try_resolve cd m)) eqn:Er; [|reflexivity].
          apply l2_try_resolve_flag in Er as [Hr _].
          assert (row_removed m = true); [|congruence].
          apply row_removed_iff. rewrite Eb. split; [reflexivity|].
          apply negb_true_iff, Nat.eqb_neq in Erem. exact Erem.
        * assert (Hrr : row_removed m = false).
          { destruct (row_removed m) eqn:E; [|reflexivity]. apply row_removed_iff in E as [_ E].
            apply negb_false_iff, Nat.eqb_eq in Erem. now apply E in Erem. }
          assert (Ecc : existsb (fun i => conflictb (cell_base (Some b) i) (cell_states (Some b) os i)) (seq 0 n)
                        = existsb col_conflict (seq 0 n)) by (unfold col_conflict; now rewrite Eb).
          assert (Ecv : map (fun i => render (spec_value (cell_base (Some b) i) (cell_states (Some b) os i))) (seq 0 n)
                        = map col_value (seq 0 n)) by (unfold col_value; now rewrite Eb).
          rewrite Ecc, Ecv.
          destruct (existsb col_conflict (seq 0 n)) eqn:Ecf.
          -- split; [assumption|]. destruct (r_resolved (try_resolve cd m)) eqn:Er; [|reflexivity].
             apply l2_try_resolve_flag in Er as [_ Er]. congruence.
          -- split; [assumption|]. split; [apply l2_try_resolve_flag; now split|].
             now apply l2_try_resolve_row.
    - (* the base lacks the row *)
      cbn [is_some] in Hun |- *. destruct (Hpres eq_refl) as [r0 Hr0].
      assert (Hp0 : In (Some r0) present) by (apply filter_In; now split).
      assert (Ecr : changed_rows = present).
      { subst changed_rows. apply filter_id. intros o Ho. apply filter_In in Ho as [_ Ho].
        destruct o; [reflexivity|discriminate Ho]. }
      clear Ecr.
      assert (Hearly : Nat.eqb (length present) 0 ||
                       Nat.eqb (length (filter (fun o => is_some o && false && sum_eqb o None) os)) (length present) = false).
      { rewrite Hun. apply orb_false_iff. split; apply Nat.eqb_neq; destruct present; try (destruct Hp0); cbn; lia. }
      fold present. rewrite Hearly.
      destruct present as [|p0 pt] eqn:Ep; [destruct Hp0|]. cbn [is_some andb].
      assert (Hrr : row_removed m = false) by (unfold row_removed; now rewrite Eb).
      assert (Ecc : existsb (fun i => conflictb (cell_base None i) (cell_states None os i)) (seq 0 n)
                    = existsb col_conflict (seq 0 n)) by (unfold col_conflict; now rewrite Eb).
      assert (Ecv : map (fun i => render (spec_value (cell_base None i) (cell_states None os i))) (seq 0 n)
                    = map col_value (seq 0 n)) by (unfold col_value; now rewrite Eb).
      rewrite Ecc, Ecv.
      destruct (existsb col_conflict (seq 0 n)) eqn:Ecf.
      + split; [reflexivity|]. destruct (r_resolved (try_resolve cd m)) eqn:Er; [|reflexivity].
        apply l2_try_resolve_flag in Er as [_ Er]. congruence.
      + split; [reflexivity|]. split; [apply l2_try_resolve_flag; now split|].
        now apply l2_try_resolve_row.
  Qed.
End Layer2.

(** ---- layer 3: whole tables under the guard ---- *)
Lemma names_eqb_refl l : names_eqb l l = true.
Proof. induction l as [|x l IH]; cbn; [reflexivity|]. now rewrite beqb_refl, IH. Qed.

Lemma combine_seq_in {A} (l : list A) (d : A) k i :
  i < length l -> In (k + i, nth i l d) (combine (seq k (length l)) l).
Proof.
  revert k i. induction l as [|x l IH]; intros k i Hi; cbn in Hi; [lia|].
  cbn [length seq combine]. destruct i as [|i]; [left; f_equal; lia|].
  right. replace (k + S i) with (S k + i) by lia. apply IH. lia.
Qed.

Lemma map_snd_combine_seq {A} (l : list A) k : map snd (combine (seq k (length l)) l) = l.
Proof. revert k. induction l as [|x l IH]; intros k; cbn; [reflexivity|]. now rewrite IH. Qed.

Lemma all_indices_nodup cols i :
  NoDup cols -> i < length cols -> all_indices cols (nth i cols []) = [i].
Proof.
  intros Hnd Hi. unfold all_indices.
  rewrite (filter_unique snd _ _ (i, nth i cols [])).
  - reflexivity.
  - now rewrite map_snd_combine_seq.
  - exact (combine_seq_in cols [] 0 i Hi).
  - cbn. apply beqb_refl.
  - intros [j s] _ H. cbn in *. now apply beqb_eq in H.
Qed.

Lemma key_indices_prefix pk rest :
  NoDup (pk ++ rest) -> key_indices (pk ++ rest) pk = seq 0 (length pk).
Proof.
  intros Hnd. unfold key_indices.
  assert (G : forall l k, k + length l <= length pk -> (forall j, j < length l -> nth j l [] = nth (k + j) pk []) ->
            flat_map (all_indices (pk ++ rest)) l = seq k (length l)).
  { induction l as [|x l IH]; intros k Hk Hn; cbn [flat_map length seq]; [reflexivity|].
    cbn [length] in Hk.
    assert (Ex : x = nth k (pk ++ rest) []).
    { specialize (Hn 0 (Nat.lt_0_succ _)). cbn in Hn. rewrite Nat.add_0_r in Hn. rewrite Hn.
      symmetry. apply app_nth1. lia. }
    rewrite Ex, all_indices_nodup; [|assumption|rewrite app_length; lia].
    cbn [app]. f_equal. apply IH; [lia|]. intros j Hj. specialize (Hn (S j)). cbn in Hn.
    rewrite Hn by lia. f_equal. lia. }
  apply (G pk 0); [apply Nat.le_refl|]. intros j _. reflexivity.
Qed.

Section Layer3.
  Variables (cols pk : list name) (base : table) (others : list table).
  Hypothesis Hg : guard cols pk base others.

  Let n := length cols.
  Let p := length pk.
  Let N := length others.

  Lemma l3_pk_idx t : wf_table cols pk t -> pk_idx t = seq 0 p.
  Proof.
    intros (Hc & Hp & _). destruct Hg as (Hnd & _ & (rest & Ec) & _).
    unfold pk_idx. rewrite Hc, Hp, Ec. apply key_indices_prefix. now rewrite <- Ec.
  Qed.

  Lemma l3_p_pos : 0 < p.
  Proof. destruct Hg as (_ & Hne & _). subst p. destruct pk; [congruence|cbn; lia]. Qed.

  Lemma l3_key_of t r : wf_table cols pk t -> key_of t r = kf p r.
  Proof.
    intros Hw. unfold key_of. rewrite (l3_pk_idx t Hw). pose proof l3_p_pos.
    destruct p as [|p'] eqn:E; [lia|]. reflexivity.
  Qed.

  Lemma l3_wf_base : wf_table cols pk base.
  Proof. now destruct Hg as (_ & _ & _ & _ & H & _). Qed.
  Lemma l3_wf_other o : In o others -> wf_table cols pk o.
  Proof. destruct Hg as (_ & _ & _ & _ & _ & H). rewrite Forall_forall in H. apply H. Qed.

  Lemma l3_diff_enabled o : In o others -> diff_enabled base o = true.
  Proof.
    intros Ho. unfold diff_enabled.
    destruct l3_wf_base as (_ & Hpb & _). destruct (l3_wf_other o Ho) as (_ & Hpo & _).
    rewrite Hpb, Hpo, names_eqb_refl. cbn [andb].
    rewrite (l3_pk_idx o (l3_wf_other o Ho)), seq_length. pose proof l3_p_pos.
    destruct p; [lia|reflexivity].
  Qed.

  Lemma NoDup_map_inj {A B} (f : A -> B) l a b :
    NoDup (map f l) -> In a l -> In b l -> f a = f b -> a = b.
  Proof.
    induction l as [|x l IH]; intros Hnd Ha Hb E; [destruct Ha|].
    cbn in Hnd. inversion Hnd as [|? ? Hx Hn]; subst.
    destruct Ha as [->|Ha], Hb as [->|Hb]; try reflexivity.
    - exfalso. apply Hx. rewrite E. now apply in_map.
    - exfalso. apply Hx. rewrite <- E. now apply in_map.
    - now apply IH.
  Qed.

  Lemma l3_lookup t k r : wf_table cols pk t ->
    (lookup t k = Some r <-> In r (t_rows t) /\ kf p r = k).
  Proof.
    intros Hw. unfold lookup. split.
    - intros H. apply find_some in H as [Hin Hk]. split; [assumption|].
      apply keqb_eq in Hk. now rewrite <- (l3_key_of t r Hw).
    - intros [Hin Hk]. destruct (find _ (t_rows t)) as [r'|] eqn:Ef.
      + apply find_some in Ef as [Hin' Hk']. apply keqb_eq in Hk'. f_equal.
        pose proof Hw as (_ & _ & _ & Hnd).
        apply (NoDup_map_inj (key_of t) (t_rows t)); try assumption.
        rewrite Hk'. symmetry. now rewrite (l3_key_of t r Hw).
      + exfalso. apply (find_none _ _ Ef) in Hin. rewrite (l3_key_of t r Hw), Hk, keqb_refl in Hin. discriminate Hin.
  Qed.
End Layer3.

(** ---- sorting and run-deduplication ---- *)
Lemma insert_by_in {A} (lt : A -> A -> bool) x l y : In y (insert_by lt x l) <-> y = x \/ In y l.
Proof.
  induction l as [|z l IH]; cbn; [intuition congruence|]. destruct (lt z x); cbn; [rewrite IH|]; intuition congruence.
Qed.

Lemma isort_in {A} (lt : A -> A -> bool) l y : In y (isort lt l) <-> In y l.
Proof.
  induction l as [|x l IH]; cbn; [tauto|]. fold (isort lt l). rewrite insert_by_in, IH. intuition congruence.
Qed.

Lemma dedupe_runs_sub {A} (eqb : A -> A -> bool) l : forall prev y, In y (dedupe_runs eqb prev l) -> In y l.
Proof.
  induction l as [|x l IH]; intros prev y; cbn; [tauto|].
  destruct prev as [q|]; [destruct (eqb q x)|]; cbn; intros H.
  - right. now apply (IH (Some q)).
  - destruct H as [<-|H]; [now left|right; now apply (IH (Some x))].
  - destruct H as [<-|H]; [now left|right; now apply (IH (Some x))].
Qed.

(** every element is represented by a kept element (or by [prev]) that is [eqb] to it *)
Lemma dedupe_runs_repr {A} (eqb : A -> A -> bool) (Hrefl : forall a, eqb a a = true) l :
  forall prev y, In y l ->
    (exists z, In z (dedupe_runs eqb prev l) /\ eqb z y = true) \/ (exists q, prev = Some q /\ eqb q y = true).
Proof.
  induction l as [|x l IH]; intros prev y Hin; [destruct Hin|]. cbn.
  destruct Hin as [<-|Hin].
  - destruct prev as [q|]; [destruct (eqb q x) eqn:E|].
    + right. now exists q.
    + left. exists x. split; [now left|apply Hrefl].
    + left. exists x. split; [now left|apply Hrefl].
  - destruct prev as [q|]; [destruct (eqb q x) eqn:E|].
    + apply (IH (Some q) y Hin).
    + destruct (IH (Some x) y Hin) as [(z & Hz & Ez)|(q' & Eq & Ez)].
      * left. exists z. split; [now right|assumption].
      * injection Eq as <-. left. exists x. split; [now left|assumption].
    + destruct (IH (Some x) y Hin) as [(z & Hz & Ez)|(q' & Eq & Ez)].
      * left. exists z. split; [now right|assumption].
      * injection Eq as <-. left. exists x. split; [now left|assumption].
Qed.

(** if rows with equal keys are equal rows, sort + run-dedupe keeps exactly the input rows *)
Lemma sorted_rows_in pk rows r :
  (forall a b, In a rows -> In b rows -> pick pk a = pick pk b -> a = b) ->
  (In r (sorted_rows pk rows) <-> In r rows).
Proof.
  intros Huniq. unfold sorted_rows. split.
  - intros H. apply dedupe_runs_sub in H. now apply isort_in in H.
  - intros H. apply (isort_in (row_lt pk)) in H.
    destruct (dedupe_runs_repr (fun a b => keqb (pick pk a) (pick pk b)) (fun a => keqb_refl _)
                (isort (row_lt pk) rows) None r H) as [(z & Hz & Ez)|(q & Eq & _)]; [|discriminate Eq].
    apply keqb_eq in Ez.
    assert (z = r); [|now subst].
    apply Huniq; [|now apply isort_in in H|assumption].
    apply dedupe_runs_sub in Hz. now apply isort_in in Hz.
Qed.

Lemma dedupe_keys_in l k : In k (dedupe_runs keqb None (isort klt l)) <-> In k l.
Proof.
  split.
  - intros H. apply dedupe_runs_sub in H. now apply isort_in in H.
  - intros H. apply (isort_in klt) in H.
    destruct (dedupe_runs_repr keqb keqb_refl (isort klt l) None k H) as [(z & Hz & Ez)|(q & Eq & _)]; [|discriminate Eq].
    apply keqb_eq in Ez. now subst.
Qed.

Lemma remove_cols_none {A} (rm : list bool) (r : list A) :
  (forall i, nth i rm false = false) -> remove_cols rm r = r.
Proof.
  intros H. unfold remove_cols.
  rewrite (filter_ext_in' _ (fun _ => true)) by (intros [i x] _; cbn; now rewrite H).
  rewrite filter_true. apply map_snd_combine_seq.
Qed.

Lemma true_positions_none rm : (forall i, nth i rm false = false) -> true_positions rm = [].
Proof.
  intros H. unfold true_positions.
  assert (G : forall k l, (forall i, nth i l false = false) -> filter snd (combine (seq k (length l)) l) = []).
  { intros k l. revert k. induction l as [|b l IH]; intros k Hl; cbn; [reflexivity|].
    pose proof (Hl 0) as H0. cbn in H0. subst b. cbn. apply IH. intros i. exact (Hl (S i)). }
  now rewrite G.
Qed.

Lemma spec_row_stay n b os r : spec_row n (Some b) os = OStay r -> r = b.
Proof.
  unfold spec_row. destruct (filter _ (filter is_some os)).
  - destruct (Nat.eqb _ _); [intros H; now injection H|discriminate].
  - cbn [is_some andb]. destruct (negb _); [discriminate|]. destruct (existsb _ _); discriminate.
Qed.

Lemma spec_row_stay_base n b os r : spec_row n b os = OStay r -> b = Some r.
Proof.
  destruct b as [b|]; [intros H; apply spec_row_stay in H; now subst|].
  unfold spec_row. cbn [is_some andb]. destruct (existsb _ _); discriminate.
Qed.

Lemma flat_map_nil {A B} (f : A -> list B) l : (forall x, In x l -> f x = []) -> flat_map f l = [].
Proof. induction l as [|x l IH]; intros H; cbn; [reflexivity|]. rewrite (H x (or_introl eq_refl)). apply IH. intros y Hy. apply H. now right. Qed.

Section Layer3b.
  Variables (cols pk : list name) (base : table) (others : list table) (cd : coldiff).
  Hypothesis Hg : guard cols pk base others.
  Hypothesis Hcd : compare_columns (header_of base) (map header_of others) = Ok cd.

  Let n := length cols.
  Let p := length pk.
  Let N := length others.

  Lemma l3_guard_headers : guard_headers cols pk (header_of base) (map header_of others).
  Proof.
    destruct Hg as (Hnd & _ & Hrest & Hne & (Hc & Hp & _) & Ho).
    split; [assumption|]. split; [assumption|].
    split; [intros E; apply map_eq_nil in E; now apply Hne|].
    split; [unfold header_of; now rewrite Hc, Hp|].
    apply Forall_forall. intros h Hh. apply in_map_iff in Hh as (o & <- & Hin).
    rewrite Forall_forall in Ho. destruct (Ho o Hin) as (Hco & Hpo & _). unfold header_of. now rewrite Hco, Hpo.
  Qed.

  Lemma l3_id_layout : id_layout cd n N.
  Proof.
    pose proof l3_guard_headers as Hgh.
    assert (EN : length (map header_of others) = N) by (subst N; now rewrite map_length).
    split; [subst n; now rewrite (gl_names _ _ _ _ _ Hgh Hcd)|].
    split; [now rewrite (gl_layers _ _ _ _ _ Hgh Hcd)|].
    split; [exact (gl_consistent _ _ _ _ _ Hgh Hcd)|].
    split; [intros i Hi; now apply (gl_base_idx _ _ _ _ _ Hgh Hcd)|].
    split; [intros l i Hl Hi; apply (gl_other_idx _ _ _ _ _ Hgh Hcd); [now rewrite EN|assumption]|].
    destruct (gl_lengths _ _ _ _ _ Hgh Hcd) as [H1 H2].
    split; [assumption|]. intros l Hl. apply H2. now rewrite EN.
  Qed.

  Lemma l3_wf_any t : t = base \/ In t others -> wf_table cols pk t.
  Proof. intros [->|H]; [apply (l3_wf_base _ _ _ _ Hg)|now apply (l3_wf_other _ _ _ _ Hg)]. Qed.

  Lemma l3_all_keys k : In k (all_keys base others) <-> table_keys pk base others k.
  Proof.
    unfold all_keys.
    rewrite (filter_id (diff_enabled base) others) by (intros o Ho; now apply (l3_diff_enabled _ _ _ _ Hg)).
    destruct Hg as (_ & _ & _ & Hne & _).
    destruct others as [|o0 ot] eqn:Eo; [congruence|]. rewrite <- Eo in *.
    rewrite dedupe_keys_in, in_app_iff, in_map_iff, in_flat_map. split.
    - intros [(r & <- & Hr)|(o & Ho & Hk)].
      + exists base. split; [now left|]. exists r. split; [assumption|].
        symmetry. apply (l3_key_of _ _ _ _ Hg). apply l3_wf_any. now left.
      + apply in_map_iff in Hk as (r & <- & Hr). exists o. split; [now right|]. exists r. split; [assumption|].
        symmetry. apply (l3_key_of _ _ _ _ Hg). apply l3_wf_any. now right.
    - intros (t & [->|Ht] & r & Hr & <-).
      + left. exists r. split; [|assumption]. apply (l3_key_of _ _ _ _ Hg). apply l3_wf_any. now left.
      + right. exists t. split; [assumption|]. apply in_map_iff. exists r. split; [|assumption].
        apply (l3_key_of _ _ _ _ Hg). apply l3_wf_any. now right.
  Qed.

  Lemma l3_mk k :
    mk_mrec base others k = {| m_base := lookup base k; m_others := map (fun o => lookup o k) others |}.
  Proof.
    unfold mk_mrec. f_equal. apply map_ext_in. intros o Ho. now rewrite (l3_diff_enabled _ _ _ _ Hg o Ho).
  Qed.

  Lemma l3_wf_mrec k : wf_mrec n N (mk_mrec base others k).
  Proof.
    rewrite l3_mk. unfold wf_mrec; cbn [m_base m_others].
    split; [now rewrite map_length|]. split.
    - intros b Hb. apply (l3_lookup _ _ _ _ Hg) in Hb as [Hin _]; [|apply l3_wf_any; now left].
      destruct (l3_wf_any base (or_introl eq_refl)) as (_ & _ & Hl & _). now apply Hl.
    - intros r Hr. apply in_map_iff in Hr as (o & Hlo & Ho).
      apply (l3_lookup _ _ _ _ Hg) in Hlo as [Hin _]; [|apply l3_wf_any; now right].
      destruct (l3_wf_any o (or_intror Ho)) as (_ & _ & Hl & _). now apply Hl.
  Qed.

  Lemma l3_present k : table_keys pk base others k ->
    m_base (mk_mrec base others k) = None -> exists r, In (Some r) (m_others (mk_mrec base others k)).
  Proof.
    rewrite l3_mk. cbn [m_base m_others]. intros (t & Ht & r & Hr & Hk) Hb.
    assert (Hl : lookup t k = Some r) by (apply (l3_lookup _ _ _ _ Hg); [now apply l3_wf_any|now split]).
    destruct Ht as [->|Ht]; [congruence|]. exists r. apply in_map_iff. now exists t.
  Qed.

  Lemma l3_spec k : table_keys pk base others k ->
    match spec_row n (lookup base k) (map (fun o => lookup o k) others) with
    | OStay _ => no_changes (mk_mrec base others k) = true
    | OGone => no_changes (mk_mrec base others k) = false /\
               resolve cd (mk_mrec base others k) = {| r_resolved := true; r_row := None; r_unres := [] |}
    | OConflict => no_changes (mk_mrec base others k) = false /\ r_resolved (resolve cd (mk_mrec base others k)) = false
    | ORow r => no_changes (mk_mrec base others k) = false /\ r_resolved (resolve cd (mk_mrec base others k)) = true /\
                r_row (resolve cd (mk_mrec base others k)) = Some r
    end.
  Proof.
    intros Hk. pose proof (l2_resolve_spec cd n N (mk_mrec base others k) l3_id_layout (l3_wf_mrec k) (l3_present k Hk)) as H.
    assert (E1 : m_base (mk_mrec base others k) = lookup base k) by (now rewrite l3_mk).
    assert (E2 : m_others (mk_mrec base others k) = map (fun o => lookup o k) others) by (now rewrite l3_mk).
    rewrite E1, E2 in H. exact H.
  Qed.

  Lemma l3_recs kr :
    In kr (merge_records cd base others) <->
    exists k, table_keys pk base others k /\ no_changes (mk_mrec base others k) = false /\
              kr = {| k_key := k; k_m := mk_mrec base others k; k_res := resolve cd (mk_mrec base others k) |}.
  Proof.
    unfold merge_records. rewrite in_flat_map. split.
    - intros (k & Hk & Hin). apply l3_all_keys in Hk. exists k. split; [assumption|].
      destruct (no_changes (mk_mrec base others k)); [destruct Hin|]. destruct Hin as [<-|[]]. now split.
    - intros (k & Hk & Hnc & ->). exists k. split; [now apply l3_all_keys|]. rewrite Hnc. now left.
  Qed.

  Lemma l3_collected policy r : policy < 2 ->
    (In r (collected_rows base (merge_records cd base others) policy) <->
     exists k, table_keys pk base others k /\ final_row cols base others policy k = Some r).
  Proof.
    intros Hpol. unfold collected_rows.
    assert (Hidx : pk_idx base = seq 0 p) by (apply (l3_pk_idx _ _ _ _ Hg); apply l3_wf_any; now left).
    pose proof (l3_p_pos _ _ _ _ Hg) as Hpp. fold p in Hpp.
    assert (Hne : seq 0 p = 0 :: seq 1 (p - 1)).
    { destruct p as [|p']; [lia|]. cbn [seq]. now rewrite Nat.sub_succ, Nat.sub_0_r. }
    rewrite Hidx, Hne. cbv iota. rewrite <- Hne. clear Hne.
    (* no manual rows for policy 0 and 1 *)
    rewrite (flat_map_nil (fun kr => if r_resolved (k_res kr) then [] else match policy, r_row (k_res kr) with
                                                                           | 2, Some r0 => [r0] | _, _ => [] end)).
    2:{ intros kr _. destruct (r_resolved (k_res kr)); [reflexivity|].
        destruct policy as [|[|q]]; [reflexivity|reflexivity|lia]. }
    cbn [app]. rewrite in_app_iff, in_flat_map, filter_In.
    set (recs := merge_records cd base others).
    assert (Hdisc : forall k, In k (map k_key (filter (fun kr => r_resolved (k_res kr) || negb (Nat.eqb policy 0)) recs)) <->
                       table_keys pk base others k /\ no_changes (mk_mrec base others k) = false /\
                       (r_resolved (resolve cd (mk_mrec base others k)) || negb (Nat.eqb policy 0)) = true).
    { intros k. rewrite in_map_iff. split.
      - intros (kr & <- & Hf). apply filter_In in Hf as [Hin Hc]. apply l3_recs in Hin as (k & Hk & Hnc & ->).
        cbn in *. now repeat split.
      - intros (Hk & Hnc & Hc). eexists. split; [|apply filter_In; split; [apply l3_recs; exists k; repeat split; eassumption|exact Hc]].
        reflexivity. }
    assert (Hex : forall idx, existsb (keqb idx) (map k_key (filter (fun kr => r_resolved (k_res kr) || negb (Nat.eqb policy 0)) recs)) = true
                  <-> In idx (map k_key (filter (fun kr => r_resolved (k_res kr) || negb (Nat.eqb policy 0)) recs))).
    { intros idx. rewrite existsb_exists. split.
      - intros (x & Hx & E). apply keqb_eq in E. now subst.
      - intros H. exists idx. split; [assumption|apply keqb_refl]. }
    split.
    - intros [(kr & Hin & Hr)|[Hin Hnd]].
      + apply l3_recs in Hin as (k & Hk & Hnc & ->). cbn [k_res] in Hr.
        exists k. split; [assumption|]. unfold final_row. fold n. pose proof (l3_spec k Hk) as Hs.
        destruct (spec_row n (lookup base k) (map (fun o => lookup o k) others)) as [r0| | |r0].
        * congruence.
        * destruct Hs as [_ Hs]. rewrite Hs in Hr. cbn in Hr. destruct Hr.
        * destruct Hs as [_ Hs]. rewrite Hs in Hr. destruct Hr.
        * destruct Hs as (_ & Hs1 & Hs2). rewrite Hs1, Hs2 in Hr. destruct Hr as [<-|[]]. reflexivity.
      + set (k := kf p r).
        assert (Hk : table_keys pk base others k) by (exists base; split; [now left|]; now exists r).
        assert (Hl : lookup base k = Some r) by (apply (l3_lookup _ _ _ _ Hg); [apply l3_wf_any; now left|now split]).
        exists k. split; [assumption|]. unfold final_row. fold n. pose proof (l3_spec k Hk) as Hs.
        apply negb_true_iff in Hnd.
        assert (Hnot : ~ (no_changes (mk_mrec base others k) = false /\
                          (r_resolved (resolve cd (mk_mrec base others k)) || negb (Nat.eqb policy 0)) = true)).
        { intros [H1 H2]. assert (Hd : In k (map k_key (filter (fun kr => r_resolved (k_res kr) || negb (Nat.eqb policy 0)) recs))).
          { apply Hdisc. now repeat split. }
          apply Hex in Hd. unfold k, kf in Hd. congruence. }
        destruct (spec_row n (lookup base k) (map (fun o => lookup o k) others)) as [r0| | |r0] eqn:Es.
        * apply spec_row_stay_base in Es. congruence.
        * exfalso. apply Hnot. destruct Hs as [H1 H2]. split; [assumption|]. now rewrite H2.
        * destruct Hs as [H1 H2]. destruct (Nat.eqb policy 0) eqn:Ep0; [assumption|].
          exfalso. apply Hnot. split; [assumption|]. now rewrite orb_true_r.
        * exfalso. apply Hnot. destruct Hs as (H1 & H2 & _). split; [assumption|]. now rewrite H2.
    - intros (k & Hk & Hf). unfold final_row in Hf. fold n in Hf. pose proof (l3_spec k Hk) as Hs.
      destruct (spec_row n (lookup base k) (map (fun o => lookup o k) others)) as [r0| | |r0] eqn:Es.
      + injection Hf as <-. right.
        pose proof (spec_row_stay_base _ _ _ _ Es) as Hl.
        apply (l3_lookup _ _ _ _ Hg) in Hl as [Hin Hkr]; [|apply l3_wf_any; now left].
        split; [assumption|]. apply negb_true_iff.
        destruct (existsb _ _) eqn:E; [|reflexivity]. exfalso.
        change (pick (seq 0 p) r0) with (kf (length pk) r0) in E. rewrite Hkr in E.
        apply Hex in E. apply Hdisc in E as (_ & Hnc & _). congruence.
      + discriminate Hf.
      + destruct (Nat.eqb policy 0) eqn:Ep0; [|discriminate Hf]. right.
        apply (l3_lookup _ _ _ _ Hg) in Hf as [Hin Hkr]; [|apply l3_wf_any; now left].
        split; [assumption|]. apply negb_true_iff.
        destruct (existsb _ _) eqn:E; [|reflexivity]. exfalso.
        change (pick (seq 0 p) r) with (kf (length pk) r) in E. rewrite Hkr in E.
        apply Hex in E. apply Hdisc in E as (_ & _ & Hc).
        destruct Hs as [_ Hs]. rewrite Hs in Hc. try rewrite Ep0 in Hc. cbn in Hc. discriminate Hc.
      + injection Hf as <-. left. destruct Hs as (H1 & H2 & H3).
        exists {| k_key := k; k_m := mk_mrec base others k; k_res := resolve cd (mk_mrec base others k) |}.
        split; [apply l3_recs; exists k; now repeat split|]. cbn [k_res]. rewrite H2, H3. now left.
  Qed.
End Layer3b.

(** ---- the key cells of a merged row ---- *)
Lemma spec_row_row n b os r :
  spec_row n b os = ORow r ->
  r = map (fun i => render (spec_value (cell_base b i) (cell_states b os i))) (seq 0 n) /\
  (is_some b = true -> length (filter is_some os) = length os).
Proof.
  unfold spec_row.
  assert (G : (if is_some b && negb (Nat.eqb (length (filter is_some os)) (length os)) then OConflict
               else if existsb (fun i => conflictb (cell_base b i) (cell_states b os i)) (seq 0 n) then OConflict
                    else ORow (map (fun i => render (spec_value (cell_base b i) (cell_states b os i))) (seq 0 n))) = ORow r ->
              r = map (fun i => render (spec_value (cell_base b i) (cell_states b os i))) (seq 0 n) /\
              (is_some b = true -> length (filter is_some os) = length os)).
  { destruct (is_some b && negb (Nat.eqb (length (filter is_some os)) (length os))) eqn:E; [discriminate|].
    destruct (existsb _ _); [discriminate|]. intros H; injection H as <-. split; [reflexivity|].
    intros Hb. rewrite Hb in E. cbn in E. apply negb_false_iff in E. now apply Nat.eqb_eq in E. }
  destruct b as [b|]; [|exact G].
  destruct (filter _ (filter is_some os)); [destruct (Nat.eqb _ _); discriminate|exact G].
Qed.

Lemma pick_nth idx (r : row) i : i < length idx -> nth i (pick idx r) [] = nth (nth i idx 0) r [].
Proof.
  intros Hi. unfold pick. rewrite (nth_map_lt (fun j => nth j r []) idx i [] 0) by assumption. reflexivity.
Qed.

Lemma kf_nth p r i : i < p -> nth i (kf p r) [] = nth i r [].
Proof. intros Hi. unfold kf. rewrite pick_nth by (now rewrite seq_length). now rewrite seq_nth. Qed.

Lemma kf_length p r : length (kf p r) = p.
Proof. unfold kf, pick. now rewrite map_length, seq_length. Qed.

Section Layer3c.
  Variables (cols pk : list name) (base : table) (others : list table) (cd : coldiff).
  Hypothesis Hg : guard cols pk base others.
  Hypothesis Hcd : compare_columns (header_of base) (map header_of others) = Ok cd.

  Let n := length cols.
  Let p := length pk.

  Lemma l3_p_le_n : p <= n.
  Proof. destruct Hg as (_ & _ & (rest & ->) & _). subst p n. rewrite app_length. lia. Qed.

  Lemma l3_final_key policy k r :
    table_keys pk base others k -> final_row cols base others policy k = Some r ->
    kf p r = k /\ length r = n.
  Proof.
    intros Hk Hf. unfold final_row in Hf. fold n in Hf.
    assert (Hbase : forall r0, lookup base k = Some r0 -> kf p r0 = k /\ length r0 = n).
    { intros r0 Hl. apply (l3_lookup _ _ _ _ Hg) in Hl as [Hin Hkr]; [|apply (l3_wf_base _ _ _ _ Hg)].
      split; [assumption|]. destruct (l3_wf_base _ _ _ _ Hg) as (_ & _ & Hlen & _). now apply Hlen. }
    destruct (spec_row n (lookup base k) (map (fun o => lookup o k) others)) as [r0| | |r0] eqn:Es.
    - injection Hf as <-. apply Hbase. now apply spec_row_stay_base in Es.
    - discriminate Hf.
    - destruct (Nat.eqb policy 0); [now apply Hbase|discriminate Hf].
    - injection Hf as <-. apply spec_row_row in Es as [-> Hall].
      split; [|now rewrite map_length, seq_length].
      assert (Hlenk : length k = p).
      { destruct Hk as (t & _ & r0 & _ & <-). apply kf_length. }
      apply nth_ext with (d := []) (d' := []); [now rewrite kf_length|].
      intros i Hi. rewrite kf_length in Hi. pose proof l3_p_le_n as Hpn.
      rewrite kf_nth by assumption. rewrite nth_map_seq by lia.
      (* every participating state of a key column is the key cell *)
      set (os := map (fun o => lookup o k) others) in *.
      assert (Hst : forall s, In s (cell_states (lookup base k) os i) -> s = SVal (nth i k [])).
      { intros s Hs. unfold cell_states in Hs. apply in_flat_map in Hs as (o & Ho & Hs).
        destruct o as [ro|].
        - destruct Hs as [<-|[]]. f_equal. subst os. apply in_map_iff in Ho as (t & Hl & Ht).
          apply (l3_lookup _ _ _ _ Hg) in Hl as [_ Hkr]; [|now apply (l3_wf_other _ _ _ _ Hg)].
          rewrite <- Hkr. symmetry. now apply kf_nth.
        - destruct (is_some (lookup base k)) eqn:Eb; [|destruct Hs]. exfalso.
          specialize (Hall eq_refl).
          pose proof (proj1 (filter_all (@is_some row) os) Hall None Ho) as Hn. discriminate Hn. }
      unfold spec_value.
      destruct (find (changed (cell_base (lookup base k) i)) (cell_states (lookup base k) os i)) as [s|] eqn:Ef.
      + apply find_some in Ef as [Hin _]. now rewrite (Hst s Hin).
      + (* no change: then the base has the row (a participating branch state would differ from "absent") *)
        destruct (lookup base k) as [br|] eqn:Eb.
        * cbn [cell_base render]. destruct (Hbase br eq_refl) as [Hkb _]. rewrite <- Hkb. symmetry. now apply kf_nth.
        * exfalso. destruct Hk as (t & Ht & r0 & Hr0 & Hk0).
          assert (Hl : lookup t k = Some r0).
          { apply (l3_lookup _ _ _ _ Hg); [destruct Ht as [->|Ht]; [apply (l3_wf_base _ _ _ _ Hg)|now apply (l3_wf_other _ _ _ _ Hg)]|now split]. }
          destruct Ht as [->|Ht]; [congruence|].
          assert (Hin : In (SVal (nth i r0 [])) (cell_states None os i)).
          { unfold cell_states. apply in_flat_map. exists (Some r0). split; [|now left].
            subst os. apply in_map_iff. now exists t. }
          apply (find_none _ _ Ef) in Hin. discriminate Hin.
  Qed.
End Layer3c.

(** ---- the table-level theorem under the guard ---- *)
Lemma existsb_false {A} (f : A -> bool) l : (forall x, In x l -> f x = false) -> existsb f l = false.
Proof. induction l as [|x l IH]; intros H; cbn; [reflexivity|]. rewrite (H x (or_introl eq_refl)). apply IH. intros y Hy. apply H. now right. Qed.

Lemma id_layout_not_removed cd n N l i : id_layout cd n N -> l < N -> i < n -> in_removed cd l i = false.
Proof.
  intros (Hn & HN & (_ & _ & Hc) & Hb & Ho & _) Hl Hi.
  rewrite <- HN in Hl. destruct (Hc l Hl) as [_ Hc']. rewrite <- Hn in Hi. destruct (Hc' i Hi) as [_ Hr].
  rewrite Hr. unfold has_col. rewrite Hn in Hi. rewrite HN in Hl. rewrite (Ho l i Hl Hi). cbn. now rewrite andb_false_r.
Qed.

Lemma union_removed_none cd n N : id_layout cd n N -> forall i, nth i (union_removed cd) false = false.
Proof.
  intros Hid i. pose proof Hid as (Hn & HN & _). unfold union_removed. rewrite Hn.
  destruct (Nat.lt_ge_cases i n) as [Hi|Hi].
  - rewrite nth_map_seq by assumption. apply existsb_false. intros l Hl. apply in_seq in Hl.
    apply (id_layout_not_removed cd n N); [assumption|lia|assumption].
  - apply nth_overflow. now rewrite map_length, seq_length.
Qed.

Theorem merge_guard cols pk base others policy remmode blocks :
  guard cols pk base others -> policy < 2 ->
  exists o, run_merge base others policy remmode blocks = Ok o /\
    mo_cols o = cols /\ cd_names (mo_cd o) = cols /\
    forall r, In r (mo_rows o) <->
              exists k, table_keys pk base others k /\ final_row cols base others policy k = Some r.
Proof.
  intros Hg Hpol. pose proof Hg as (Hnd & Hpk & Hrest & Hne & Hwb & Hwo).
  unfold run_merge.
  assert (Hstart : start_ok others = true).
  { unfold start_ok. destruct others as [|o t]; [reflexivity|].
    inversion Hwo as [|? ? Ho Hwt]; subst. destruct Ho as (_ & Hpo & _). rewrite Hpo.
    clear -Hwt. induction t as [|x t IH]; cbn; [reflexivity|].
    inversion Hwt as [|? ? Hx Hwt']; subst. destruct Hx as (_ & Hpx & _).
    rewrite Hpx, names_eqb_refl. cbn. now apply IH. }
  rewrite Hstart. cbn [negb].
  destruct (compare_columns (header_of base) (map header_of others)) as [cd| |] eqn:Hcd.
  2:{ unfold compare_columns in Hcd. destruct (map header_of others); discriminate. }
  2:{ unfold compare_columns in Hcd. destruct (map header_of others) eqn:E; [|discriminate].
      apply map_eq_nil in E. contradiction. }
  cbn [rbind].
  pose proof (l3_id_layout cols pk base others cd Hg Hcd) as Hid.
  set (rm := match (if Nat.eqb remmode 1 then Some (union_removed cd) else None) with Some l => l | None => [] end).
  assert (Hrm : forall i, nth i rm false = false).
  { subst rm. destruct (Nat.eqb remmode 1).
    - exact (union_removed_none cd _ _ Hid).
    - intros i. now destruct i. }
  unfold result_rows. fold rm.
  assert (Hnp : remove_panics rm (collected_rows base (merge_records cd base others) policy) = false).
  { unfold remove_panics. rewrite (true_positions_none rm Hrm). apply existsb_false. reflexivity. }
  rewrite Hnp, andb_false_r. cbn [rbind].
  eexists. split; [reflexivity|]. cbn [mo_cols mo_cd mo_rows].
  pose proof (gl_names _ _ _ _ _ (l3_guard_headers cols pk base others Hg) Hcd) as Hnames.
  split; [rewrite (remove_cols_none rm (cd_names cd) Hrm); exact Hnames|]. split; [exact Hnames|].
  intros r.
  rewrite (map_ext _ (fun x => x)) by (intros x; now apply remove_cols_none). rewrite map_id.
  rewrite sorted_rows_in.
  - now apply (l3_collected cols pk base others cd Hg Hcd).
  - intros a b Ha Hb E.
    apply (l3_collected cols pk base others cd Hg Hcd policy a Hpol) in Ha as (ka & Hka & Hfa).
    apply (l3_collected cols pk base others cd Hg Hcd policy b Hpol) in Hb as (kb & Hkb & Hfb).
    destruct (l3_final_key cols pk base others Hg policy ka a Hka Hfa) as [Ea _].
    destruct (l3_final_key cols pk base others Hg policy kb b Hkb Hfb) as [Eb _].
    rewrite (l3_pk_idx cols pk base others Hg base Hwb) in E.
    unfold kf in Ea, Eb. rewrite Ea, Eb in E. subst kb. congruence.
Qed.

(** ---- the specification does not depend on the order of the branches ---- *)
Lemma perm_filter {A} (f : A -> bool) l l' : Permutation l l' -> Permutation (filter f l) (filter f l').
Proof.
  induction 1 as [|x l l' _ IH|x y l|l l' l'' _ IH1 _ IH2]; cbn.
  - constructor.
  - destruct (f x); [now constructor|assumption].
  - destruct (f x), (f y); try apply Permutation_refl. constructor.
  - eapply perm_trans; eassumption.
Qed.

Lemma spec_row_perm n b os os' : Permutation os os' -> spec_row n b os = spec_row n b os'.
Proof.
  intros HP. unfold spec_row.
  pose proof (perm_filter is_some _ _ HP) as Hpres.
  pose proof (perm_filter (fun o => negb (sum_eqb o b)) _ _ Hpres) as Hch.
  rewrite <- (Permutation_length Hpres), <- (Permutation_length HP).
  assert (Hcells : forall i, Permutation (cell_states b os i) (cell_states b os' i)).
  { intros i. unfold cell_states. now apply Permutation_flat_map. }
  assert (Hconf : forall i, conflictb (cell_base b i) (cell_states b os i) = conflictb (cell_base b i) (cell_states b os' i)).
  { intros i. apply conflictb_same. intros s _. split; intros H.
    - now apply (Permutation_in _ (Hcells i)).
    - now apply (Permutation_in _ (Permutation_sym (Hcells i))). }
  assert (Hex : existsb (fun i => conflictb (cell_base b i) (cell_states b os i)) (seq 0 n)
                = existsb (fun i => conflictb (cell_base b i) (cell_states b os' i)) (seq 0 n)).
  { apply existsb_ext'. exact Hconf. }
  assert (Hcw : (if existsb (fun i => conflictb (cell_base b i) (cell_states b os i)) (seq 0 n) then OConflict
                 else ORow (map (fun i => render (spec_value (cell_base b i) (cell_states b os i))) (seq 0 n)))
                = (if existsb (fun i => conflictb (cell_base b i) (cell_states b os' i)) (seq 0 n) then OConflict
                   else ORow (map (fun i => render (spec_value (cell_base b i) (cell_states b os' i))) (seq 0 n)))).
  { rewrite <- Hex. destruct (existsb _ _) eqn:E; [reflexivity|]. f_equal. apply map_ext_in. intros i Hi. f_equal.
    apply spec_value_same.
    - intros s _. split; intros H; [now apply (Permutation_in _ (Hcells i))|now apply (Permutation_in _ (Permutation_sym (Hcells i)))].
    - destruct (conflictb (cell_base b i) (cell_states b os i)) eqn:Ec; [|reflexivity].
      assert (existsb (fun i => conflictb (cell_base b i) (cell_states b os i)) (seq 0 n) = true); [|congruence].
      apply existsb_exists. now exists i. }
  rewrite Hcw.
  destruct (filter (fun o => negb (sum_eqb o b)) (filter is_some os)) as [|c cr] eqn:E1;
    destruct (filter (fun o => negb (sum_eqb o b)) (filter is_some os')) as [|c' cr'] eqn:E2; try reflexivity.
  - apply Permutation_nil in Hch. discriminate Hch.
  - apply Permutation_sym, Permutation_nil in Hch. discriminate Hch.
Qed.

(** ---- corollaries for tables ---- *)
Lemma map_nth_seq_id (r : row) n : length r = n -> map (fun i => nth i r []) (seq 0 n) = r.
Proof.
  intros <-. apply nth_ext with (d := []) (d' := []); [now rewrite map_length, seq_length|].
  intros i Hi. rewrite map_length, seq_length in Hi. now rewrite nth_map_seq.
Qed.

Lemma conflictb_two bst s1 s2 :
  conflictb bst [s1; s2] = changed bst s1 && changed bst s2 && negb (cst_eqb s1 s2).
Proof.
  unfold conflictb. cbn [existsb]. rewrite !cst_eqb_refl, (cst_eqb_sym s2 s1). cbn [negb].
  destruct (changed bst s1), (changed bst s2), (cst_eqb s1 s2); reflexivity.
Qed.

Lemma conflictb_one bst s : conflictb bst [s] = false.
Proof. unfold conflictb. cbn [existsb]. rewrite cst_eqb_refl. cbn. now rewrite andb_false_r. Qed.

(** ---- two branches: closed form of the specification ---- *)
Definition merge_cell (bv xv yv : bytes) : option bytes :=
  if beqb xv bv then Some yv else if beqb yv bv then Some xv else if beqb xv yv then Some xv else None.

Definition opt_val (c : option bytes) : bytes := match c with Some v => v | None => [] end.

Definition cells2 (n : nat) (b : option row) (xr yr : row) : list (option bytes) :=
  map (fun i => match b with
                | Some br => merge_cell (nth i br []) (nth i xr []) (nth i yr [])
                | None => if beqb (nth i xr []) (nth i yr []) then Some (nth i xr []) else None
                end) (seq 0 n).

Definition spec2 (n : nat) (b x y : option row) : row_outcome :=
  match b, x, y with
  | Some br, Some xr, Some yr =>
      if keqb xr br && keqb yr br then OStay br
      else if forallb is_some (cells2 n b xr yr) then ORow (map opt_val (cells2 n b xr yr)) else OConflict
  | Some br, None, Some yr => if keqb yr br then OGone else OConflict
  | Some br, Some xr, None => if keqb xr br then OGone else OConflict
  | Some br, None, None => OGone
  | None, Some xr, None => ORow (map (fun i => nth i xr []) (seq 0 n))
  | None, None, Some yr => ORow (map (fun i => nth i yr []) (seq 0 n))
  | None, Some xr, Some yr =>
      if forallb is_some (cells2 n b xr yr) then ORow (map opt_val (cells2 n b xr yr)) else OConflict
  | None, None, None => ORow (map (fun _ => []) (seq 0 n))
  end.

Lemma changed_val_val bv v : changed (SVal bv) (SVal v) = negb (beqb v bv).
Proof. reflexivity. Qed.

Lemma beqb_sym a b : beqb a b = beqb b a.
Proof.
  destruct (beqb a b) eqn:E.
  - apply beqb_eq in E; subst. now rewrite beqb_refl.
  - destruct (beqb b a) eqn:E'; [|reflexivity]. apply beqb_eq in E'; subst. now rewrite beqb_refl in E.
Qed.

Lemma cell2_base bv xv yv :
  conflictb (SVal bv) [SVal xv; SVal yv] = negb (is_some (merge_cell bv xv yv)) /\
  (conflictb (SVal bv) [SVal xv; SVal yv] = false ->
   render (spec_value (SVal bv) [SVal xv; SVal yv]) = opt_val (merge_cell bv xv yv)).
Proof.
  rewrite conflictb_two, !changed_val_val. unfold spec_value, merge_cell. cbn [find cst_eqb].
  rewrite !changed_val_val.
  destruct (beqb xv bv) eqn:E1; cbn [negb andb is_some opt_val].
  - split; [reflexivity|]. intros _. destruct (beqb yv bv) eqn:E2; cbn [negb render]; [|reflexivity].
    apply beqb_eq in E2. now subst.
  - destruct (beqb yv bv) eqn:E2; cbn [negb andb is_some opt_val render]; [split; reflexivity|].
    destruct (beqb xv yv); cbn; split; try reflexivity. discriminate.
Qed.

Lemma cell2_absent xv yv :
  conflictb SAbsent [SVal xv; SVal yv] = negb (beqb xv yv) /\
  render (spec_value SAbsent [SVal xv; SVal yv]) = xv.
Proof. rewrite conflictb_two. split; reflexivity. Qed.

Lemma existsb_forallb_cells n (f : nat -> bool) (g : nat -> option bytes) :
  (forall i, i < n -> f i = negb (is_some (g i))) ->
  existsb f (seq 0 n) = negb (forallb is_some (map g (seq 0 n))).
Proof.
  intros H. generalize (fun i (Hi : In i (seq 0 n)) => H i (proj2 (proj1 (in_seq _ _ _) Hi))).
  clear H. generalize (seq 0 n) as l. induction l as [|i l IH]; intros H; cbn; [reflexivity|].
  rewrite (H i (or_introl eq_refl)), IH by (intros j Hj; apply H; now right).
  destruct (is_some (g i)); reflexivity.
Qed.

Lemma spec_row_two n b x y : spec_row n b [x; y] = spec2 n b x y.
Proof.
  unfold spec_row, spec2.
  destruct b as [br|], x as [xr|], y as [yr|]; cbn [filter is_some sum_eqb negb length Nat.eqb andb];
    try (destruct (keqb xr br) eqn:Ex); try (destruct (keqb yr br) eqn:Ey); cbn [filter negb length Nat.eqb andb is_some]; try reflexivity.
  all: cbn [cell_states cell_base flat_map app is_some].
  (* base present, both branches present, at least one differs: cell-wise *)
  1-3: rewrite (existsb_forallb_cells n _ (fun i => merge_cell (nth i br []) (nth i xr []) (nth i yr [])))
        by (intros i _; apply (proj1 (cell2_base _ _ _)));
       fold (cells2 n (Some br) xr yr);
       destruct (forallb is_some (cells2 n (Some br) xr yr)) eqn:Ef; cbn [negb]; [|reflexivity];
       f_equal; unfold cells2; rewrite map_map; apply map_ext_in; intros i Hi;
       apply (proj2 (cell2_base _ _ _)); rewrite (proj1 (cell2_base _ _ _));
       apply negb_false_iff;
       rewrite forallb_forall in Ef; apply Ef; unfold cells2; apply in_map_iff; exists i; split; [reflexivity|assumption].
  (* base absent, both present *)
  - rewrite (existsb_forallb_cells n _ (fun i => if beqb (nth i xr []) (nth i yr []) then Some (nth i xr []) else None)).
    2:{ intros i _. rewrite (proj1 (cell2_absent _ _)). now destruct (beqb _ _). }
    fold (cells2 n None xr yr).
    destruct (forallb is_some (cells2 n None xr yr)) eqn:Ef; cbn [negb]; [|reflexivity].
    f_equal. unfold cells2. rewrite map_map. apply map_ext_in. intros i Hi.
    rewrite (proj2 (cell2_absent _ _)).
    rewrite forallb_forall in Ef.
    assert (H : is_some (if beqb (nth i xr []) (nth i yr []) then Some (nth i xr []) else None) = true).
    { apply Ef. unfold cells2. apply in_map_iff. exists i. split; [reflexivity|assumption]. }
    destruct (beqb (nth i xr []) (nth i yr [])); [reflexivity|discriminate H].
  (* base absent, one branch *)
  - rewrite (existsb_false _ (seq 0 n)) by (intros i _; apply conflictb_one). reflexivity.
  - rewrite (existsb_false _ (seq 0 n)) by (intros i _; apply conflictb_one). reflexivity.
  - rewrite (existsb_false _ (seq 0 n)) by (intros i _; reflexivity). reflexivity.
Qed.

(** ---- the laws ---- *)
Lemma merge_cell_right_base bv xv : merge_cell bv xv bv = Some xv.
Proof.
  unfold merge_cell. destruct (beqb xv bv) eqn:E; [apply beqb_eq in E; now subst|]. now rewrite beqb_refl.
Qed.

Lemma merge_cell_same bv xv : merge_cell bv xv xv = Some xv.
Proof. unfold merge_cell. destruct (beqb xv bv); [reflexivity|]. now rewrite beqb_refl. Qed.

Lemma cells2_all n b xr yr (f : nat -> bytes) :
  (forall i, i < n -> nth i (cells2 n b xr yr) None = Some (f i)) ->
  forallb is_some (cells2 n b xr yr) = true /\ map opt_val (cells2 n b xr yr) = map f (seq 0 n).
Proof.
  intros H.
  assert (E : cells2 n b xr yr = map (fun i => Some (f i)) (seq 0 n)).
  { apply nth_ext with (d := None) (d' := None); [unfold cells2; now rewrite !map_length|].
    intros i Hi. unfold cells2 in Hi. rewrite map_length, seq_length in Hi.
    rewrite H by assumption. now rewrite nth_map_seq. }
  rewrite E. split.
  - apply forallb_forall. intros c Hc. apply in_map_iff in Hc as (i & <- & _). reflexivity.
  - now rewrite map_map.
Qed.

Lemma cells2_nth n b xr yr i : i < n ->
  nth i (cells2 n b xr yr) None =
  match b with
  | Some br => merge_cell (nth i br []) (nth i xr []) (nth i yr [])
  | None => if beqb (nth i xr []) (nth i yr []) then Some (nth i xr []) else None
  end.
Proof. intros Hi. unfold cells2. now rewrite nth_map_seq. Qed.

(** merge(base; X, base): the outcome is X's row *)
Lemma spec2_identity n b x :
  (forall r, x = Some r -> length r = n) -> (b = None -> x <> None) ->
  is_conflict (spec2 n b x b) = false /\ outcome_row (spec2 n b x b) = x.
Proof.
  intros Hlx Hpres. unfold spec2. destruct b as [br|], x as [xr|].
  - rewrite keqb_refl, andb_true_r. destruct (keqb xr br) eqn:E.
    + apply keqb_eq in E. subst. now split.
    + destruct (cells2_all n (Some br) xr br (fun i => nth i xr [])) as [H1 H2].
      { intros i Hi. rewrite cells2_nth by assumption. apply merge_cell_right_base. }
      rewrite H1, H2. cbn. split; [reflexivity|]. f_equal. apply map_nth_seq_id. now apply Hlx.
  - rewrite keqb_refl. now split.
  - cbn. split; [reflexivity|]. f_equal. apply map_nth_seq_id. now apply Hlx.
  - exfalso. now apply Hpres.
Qed.

(** merge(base; X, X): the outcome is X's row *)
Lemma spec2_idem n b x :
  (forall r, x = Some r -> length r = n) -> (b = None -> x <> None) ->
  is_conflict (spec2 n b x x) = false /\ outcome_row (spec2 n b x x) = x.
Proof.
  intros Hlx Hpres. unfold spec2. destruct b as [br|], x as [xr|].
  - destruct (keqb xr br) eqn:E; cbn [andb].
    + apply keqb_eq in E. subst. now split.
    + destruct (cells2_all n (Some br) xr xr (fun i => nth i xr [])) as [H1 H2].
      { intros i Hi. rewrite cells2_nth by assumption. apply merge_cell_same. }
      rewrite H1, H2. cbn. split; [reflexivity|]. f_equal. apply map_nth_seq_id. now apply Hlx.
  - now split.
  - destruct (cells2_all n None xr xr (fun i => nth i xr [])) as [H1 H2].
    { intros i Hi. rewrite cells2_nth by assumption. now rewrite beqb_refl. }
    rewrite H1, H2. cbn. split; [reflexivity|]. f_equal. apply map_nth_seq_id. now apply Hlx.
  - exfalso. now apply Hpres.
Qed.

Lemma spec2_disjoint n b x y :
  (forall r, b = Some r -> length r = n) -> (forall r, x = Some r -> length r = n) -> (forall r, y = Some r -> length r = n) ->
  (b = None -> x <> None \/ y <> None) ->
  disjoint_at n b x y ->
  is_conflict (spec2 n b x y) = false /\ outcome_row (spec2 n b x y) = combined n b x y.
Proof.
  intros Hlb Hlx Hly Hpres Hd. unfold spec2, combined, disjoint_at in *.
  destruct b as [br|], x as [xr|], y as [yr|]; try (now destruct Hd).
  - destruct (keqb xr br && keqb yr br) eqn:E.
    + apply andb_true_iff in E as [E1 E2]. apply keqb_eq in E1, E2. subst. cbn. split; [reflexivity|].
      f_equal. symmetry. erewrite map_ext_in; [apply map_nth_seq_id; now apply Hlb|].
      intros i _. cbn. now rewrite beqb_refl.
    + destruct (cells2_all n (Some br) xr yr (fun i => if beqb (nth i xr []) (nth i br []) then nth i yr [] else nth i xr [])) as [H1 H2].
      { intros i Hi. rewrite cells2_nth by assumption. unfold merge_cell.
        destruct (beqb (nth i xr []) (nth i br [])) eqn:Ex; [reflexivity|].
        destruct (Hd i Hi) as [H|H]; [apply beqb_neq in Ex; congruence|]. rewrite H, beqb_refl. reflexivity. }
      rewrite H1, H2. now split.
  - subst xr. rewrite keqb_refl. now split.
  - subst yr. rewrite keqb_refl. now split.
  - cbn. split; [reflexivity|]. f_equal. apply map_nth_seq_id. now apply Hlx.
  - cbn. split; [reflexivity|]. f_equal. apply map_nth_seq_id. now apply Hly.
  - exfalso. destruct (Hpres eq_refl) as [H|H]; now apply H.
Qed.

(** untouched rows, any number of branches *)
Lemma spec_row_untouched n r os : (forall o, In o os -> o = Some r) -> spec_row n (Some r) os = OStay r.
Proof.
  intros H. unfold spec_row.
  assert (Hp : filter is_some os = os).
  { apply filter_id. intros o Ho. now rewrite (H o Ho). }
  rewrite Hp.
  assert (Hc : filter (fun o => negb (sum_eqb o (Some r))) os = []).
  { assert (G : forall l, (forall o, In o l -> o = Some r) -> filter (fun o => negb (sum_eqb o (Some r))) l = []).
    { induction l as [|o l IH]; intros Hl; cbn; [reflexivity|].
      rewrite (Hl o (or_introl eq_refl)). cbn. rewrite keqb_refl. cbn. apply IH. intros o' Ho'. apply Hl. now right. }
    now apply G. }
  rewrite Hc. now rewrite Nat.eqb_refl.
Qed.

(** untouched columns: if no branch removed the row and every branch left cell i alone, the
    merged row (whatever it is) still has the base cell there *)
Lemma spec_row_untouched_cell n br os i r :
  i < n -> length br = n -> (forall o, In o os -> exists ro, o = Some ro /\ nth i ro [] = nth i br []) ->
  outcome_row (spec_row n (Some br) os) = Some r -> nth i r [] = nth i br [].
Proof.
  intros Hi Hlen Hall Ho.
  destruct (spec_row n (Some br) os) as [r0| | |r0] eqn:Es; cbn in Ho; try discriminate; injection Ho as <-.
  - apply spec_row_stay in Es. now subst.
  - apply spec_row_row in Es as [-> _]. rewrite nth_map_seq by assumption.
    assert (Hst : forall s, In s (cell_states (Some br) os i) -> s = SVal (nth i br [])).
    { intros s Hs. unfold cell_states in Hs. apply in_flat_map in Hs as (o & Ho & Hs).
      destruct (Hall o Ho) as (ro & -> & E). destruct Hs as [<-|[]]. now rewrite E. }
    unfold spec_value. cbn [cell_base].
    destruct (find _ _) as [s|] eqn:Ef; [|reflexivity].
    apply find_some in Ef as [Hin Hc]. rewrite (Hst s Hin) in Hc. unfold changed in Hc. rewrite cst_eqb_refl in Hc. discriminate Hc.
Qed.

(** ---- table-level laws ---- *)
Lemma final_row_no_conflict cols base others policy k :
  is_conflict (spec_row (length cols) (lookup base k) (map (fun o => lookup o k) others)) = false ->
  final_row cols base others policy k =
  outcome_row (spec_row (length cols) (lookup base k) (map (fun o => lookup o k) others)).
Proof. unfold final_row. now destruct (spec_row _ _ _). Qed.

Lemma final_row_cases cols base others policy k r :
  final_row cols base others policy k = Some r ->
  outcome_row (spec_row (length cols) (lookup base k) (map (fun o => lookup o k) others)) = Some r \/
  lookup base k = Some r.
Proof.
  unfold final_row. destruct (spec_row _ _ _); cbn; auto; try discriminate.
  destruct (Nat.eqb policy 0); [auto|discriminate].
Qed.

Lemma law2 cols pk base X Y policy remmode blocks (f : list bytes -> option row) :
  guard cols pk base [X; Y] -> policy < 2 ->
  (forall k, table_keys pk base [X; Y] k ->
     is_conflict (spec2 (length cols) (lookup base k) (lookup X k) (lookup Y k)) = false /\
     outcome_row (spec2 (length cols) (lookup base k) (lookup X k) (lookup Y k)) = f k) ->
  exists o, run_merge base [X; Y] policy remmode blocks = Ok o /\ mo_cols o = cols /\
    forall r, In r (mo_rows o) <-> exists k, table_keys pk base [X; Y] k /\ f k = Some r.
Proof.
  intros Hg Hpol Hf.
  destruct (merge_guard cols pk base [X; Y] policy remmode blocks Hg Hpol) as (o & Hrun & Hcols & _ & Hrows).
  exists o. split; [assumption|]. split; [assumption|].
  intros r. rewrite Hrows. split; intros (k & Hk & H); exists k; (split; [assumption|]).
  - destruct (Hf k Hk) as [Hc Ho]. rewrite final_row_no_conflict in H; cbn [map] in *; rewrite spec_row_two in *; congruence.
  - destruct (Hf k Hk) as [Hc Ho]. rewrite final_row_no_conflict; cbn [map]; rewrite spec_row_two; congruence.
Qed.

Section Laws.
  Variables (cols pk : list name) (base X Y : table).
  Hypothesis Hg : guard cols pk base [X; Y].
  Let n := length cols.
  Let p := length pk.

  Lemma laws_len t r k : t = base \/ In t [X; Y] -> lookup t k = Some r -> length r = n.
  Proof.
    intros Ht Hl. pose proof (l3_wf_any cols pk base [X; Y] Hg t Ht) as Hw.
    apply (l3_lookup _ _ _ _ Hg) in Hl as [Hin _]; [|assumption].
    destruct Hw as (_ & _ & Hlen & _). now apply Hlen.
  Qed.

  Lemma laws_rows_of t r : t = base \/ In t [X; Y] ->
    (In r (t_rows t) <-> exists k, table_keys pk base [X; Y] k /\ lookup t k = Some r).
  Proof.
    intros Ht. pose proof (l3_wf_any cols pk base [X; Y] Hg t Ht) as Hw. split.
    - intros Hin. exists (kf p r). split; [exists t; split; [assumption|]; now exists r|].
      apply (l3_lookup _ _ _ _ Hg); [assumption|now split].
    - intros (k & _ & Hl). now apply (l3_lookup _ _ _ _ Hg) in Hl as [Hin _].
  Qed.

  Lemma laws_present k : table_keys pk base [X; Y] k ->
    lookup base k = None -> lookup X k <> None \/ lookup Y k <> None.
  Proof.
    intros (t & Ht & r & Hr & Hk) Hb.
    assert (Hl : lookup t k = Some r) by (apply (l3_lookup _ _ _ _ Hg); [now apply (l3_wf_any cols pk base [X; Y] Hg)|now split]).
    destruct Ht as [->|[<-|[<-|[]]]]; [congruence|left; congruence|right; congruence].
  Qed.
End Laws.

(** merge(base; X, base) = X *)
Theorem law_identity cols pk base X policy remmode blocks :
  guard cols pk base [X; base] -> policy < 2 ->
  exists o, run_merge base [X; base] policy remmode blocks = Ok o /\ mo_cols o = cols /\
    forall r, In r (mo_rows o) <-> In r (t_rows X).
Proof.
  intros Hg Hpol.
  destruct (law2 cols pk base X base policy remmode blocks (lookup X) Hg Hpol) as (o & Hrun & Hcols & Hrows).
  - intros k Hk. apply spec2_identity.
    + intros r Hr. apply (laws_len cols pk base X base Hg X r k); [right; now left|assumption].
    + intros Hb. destruct (laws_present cols pk base X base Hg k Hk Hb) as [H|H]; [assumption|congruence].
  - exists o. split; [assumption|]. split; [assumption|]. intros r. rewrite Hrows.
    symmetry. apply (laws_rows_of cols pk base X base Hg). right. now left.
Qed.

(** merge(base; base, X) = X *)
Theorem law_identity_left cols pk base X policy remmode blocks :
  guard cols pk base [base; X] -> policy < 2 ->
  exists o, run_merge base [base; X] policy remmode blocks = Ok o /\ mo_cols o = cols /\
    forall r, In r (mo_rows o) <-> In r (t_rows X).
Proof.
  intros Hg Hpol.
  destruct (law2 cols pk base base X policy remmode blocks (lookup X) Hg Hpol) as (o & Hrun & Hcols & Hrows).
  - intros k Hk. rewrite <- spec_row_two. rewrite (spec_row_perm _ _ _ [lookup X k; lookup base k]) by constructor.
    rewrite spec_row_two. apply spec2_identity.
    + intros r Hr. apply (laws_len cols pk base base X Hg X r k); [right; right; now left|assumption].
    + intros Hb. destruct (laws_present cols pk base base X Hg k Hk Hb) as [H|H]; [congruence|assumption].
  - exists o. split; [assumption|]. split; [assumption|]. intros r. rewrite Hrows.
    symmetry. apply (laws_rows_of cols pk base base X Hg). right. right. now left.
Qed.

(** merge(base; X, X) = X *)
Theorem law_idem cols pk base X policy remmode blocks :
  guard cols pk base [X; X] -> policy < 2 ->
  exists o, run_merge base [X; X] policy remmode blocks = Ok o /\ mo_cols o = cols /\
    forall r, In r (mo_rows o) <-> In r (t_rows X).
Proof.
  intros Hg Hpol.
  destruct (law2 cols pk base X X policy remmode blocks (lookup X) Hg Hpol) as (o & Hrun & Hcols & Hrows).
  - intros k Hk. apply spec2_idem.
    + intros r Hr. apply (laws_len cols pk base X X Hg X r k); [right; now left|assumption].
    + intros Hb. destruct (laws_present cols pk base X X Hg k Hk Hb) as [H|H]; assumption.
  - exists o. split; [assumption|]. split; [assumption|]. intros r. rewrite Hrows.
    symmetry. apply (laws_rows_of cols pk base X X Hg). right. now left.
Qed.

(** disjoint edits combine without conflict, whatever the caller's conflict policy: the result
    holds, for every key, the combination of both branches' changes *)
Theorem law_disjoint cols pk base X Y policy remmode blocks :
  guard cols pk base [X; Y] -> policy < 2 ->
  (forall k, disjoint_at (length cols) (lookup base k) (lookup X k) (lookup Y k)) ->
  exists o, run_merge base [X; Y] policy remmode blocks = Ok o /\ mo_cols o = cols /\
    Forall (fun kr => r_resolved (k_res kr) = true) (mo_recs o) /\
    forall r, In r (mo_rows o) <->
      exists k, table_keys pk base [X; Y] k /\
                combined (length cols) (lookup base k) (lookup X k) (lookup Y k) = Some r.
Proof.
  intros Hg Hpol Hd.
  assert (Hspec : forall k, table_keys pk base [X; Y] k ->
     is_conflict (spec2 (length cols) (lookup base k) (lookup X k) (lookup Y k)) = false /\
     outcome_row (spec2 (length cols) (lookup base k) (lookup X k) (lookup Y k)) =
       combined (length cols) (lookup base k) (lookup X k) (lookup Y k)).
  { intros k Hk. apply spec2_disjoint.
    - intros r Hr. apply (laws_len cols pk base X Y Hg base r k); [now left|assumption].
    - intros r Hr. apply (laws_len cols pk base X Y Hg X r k); [right; now left|assumption].
    - intros r Hr. apply (laws_len cols pk base X Y Hg Y r k); [right; right; now left|assumption].
    - now apply (laws_present cols pk base X Y Hg).
    - apply Hd. }
  destruct (law2 cols pk base X Y policy remmode blocks _ Hg Hpol Hspec) as (o & Hrun & Hcols & Hrows).
  exists o. split; [assumption|]. split; [assumption|]. split; [|assumption].
  (* no record is unresolved *)
  unfold run_merge in Hrun.
  destruct (negb (start_ok [X; Y])); [discriminate|].
  destruct (compare_columns (header_of base) (map header_of [X; Y])) as [cd| |] eqn:Hcd; try discriminate.
  cbn [rbind] in Hrun. destruct (result_rows _ _ _ _ _); try discriminate. cbn [rbind] in Hrun.
  injection Hrun as <-. cbn [mo_recs]. apply Forall_forall. intros kr Hkr.
  apply (l3_recs cols pk base [X; Y] cd Hg Hcd) in Hkr as (k & Hk & Hnc & ->). cbn [k_res].
  pose proof (l3_spec cols pk base [X; Y] cd Hg Hcd k Hk) as Hs. cbn [map] in Hs. rewrite spec_row_two in Hs.
  destruct (Hspec k Hk) as [Hc _].
  destruct (spec2 (length cols) (lookup base k) (lookup X k) (lookup Y k)); try discriminate.
  - congruence. - destruct Hs as [_ ->]. reflexivity. - now destruct Hs as (_ & H & _).
Qed.

(** rows no branch touched are in the result, any number of branches, any conflict policy *)
Theorem law_untouched_rows cols pk base others policy remmode blocks r :
  guard cols pk base others -> policy < 2 ->
  In r (t_rows base) -> (forall o, In o others -> In r (t_rows o)) ->
  exists o, run_merge base others policy remmode blocks = Ok o /\ mo_cols o = cols /\ In r (mo_rows o).
Proof.
  intros Hg Hpol Hr Hall.
  destruct (merge_guard cols pk base others policy remmode blocks Hg Hpol) as (o & Hrun & Hcols & _ & Hrows).
  exists o. split; [assumption|]. split; [assumption|]. apply Hrows.
  exists (kf (length pk) r). split; [exists base; split; [now left|]; now exists r|].
  unfold final_row.
  assert (Hl : lookup base (kf (length pk) r) = Some r).
  { apply (l3_lookup _ _ _ _ Hg); [apply (l3_wf_base _ _ _ _ Hg)|now split]. }
  rewrite Hl. rewrite (spec_row_untouched (length cols) r); [reflexivity|].
  intros x Hx. apply in_map_iff in Hx as (t & <- & Ht).
  apply (l3_lookup _ _ _ _ Hg); [now apply (l3_wf_other _ _ _ _ Hg)|]. split; [now apply Hall|reflexivity].
Qed.

(** a cell no branch touched (and whose row no branch removed) keeps its base value in whatever row
    the result holds for that key *)
Theorem law_untouched_cells cols pk base others policy remmode blocks br i :
  guard cols pk base others -> policy < 2 ->
  In br (t_rows base) -> i < length cols ->
  (forall o, In o others -> exists ro, lookup o (kf (length pk) br) = Some ro /\ nth i ro [] = nth i br []) ->
  exists o, run_merge base others policy remmode blocks = Ok o /\
    forall r, In r (mo_rows o) -> kf (length pk) r = kf (length pk) br -> nth i r [] = nth i br [].
Proof.
  intros Hg Hpol Hbr Hi Hall.
  destruct (merge_guard cols pk base others policy remmode blocks Hg Hpol) as (o & Hrun & Hcols & _ & Hrows).
  exists o. split; [assumption|]. intros r Hr Hkr.
  apply Hrows in Hr as (k & Hk & Hf).
  destruct (l3_final_key cols pk base others Hg policy k r Hk Hf) as [Hkf _].
  assert (Ek : k = kf (length pk) br) by congruence. clear Hkf Hkr. subst k.
  assert (Hl : lookup base (kf (length pk) br) = Some br).
  { apply (l3_lookup _ _ _ _ Hg); [apply (l3_wf_base _ _ _ _ Hg)|now split]. }
  assert (Hlen : length br = length cols).
  { destruct (l3_wf_base _ _ _ _ Hg) as (_ & _ & H & _). now apply H. }
  destruct (final_row_cases _ _ _ _ _ _ Hf) as [H|H]; [|congruence].
  rewrite Hl in H.
  apply (spec_row_untouched_cell (length cols) br (map (fun o0 => lookup o0 (kf (length pk) br)) others) i r Hi Hlen); [|exact H].
  intros x Hx. apply in_map_iff in Hx as (t & <- & Ht). destruct (Hall t Ht) as (ro & H1 & H2). now exists ro.
Qed.

(** the outcome does not depend on the order of the branches (any number of branches) *)
Theorem law_order cols pk base others others' policy remmode blocks :
  guard cols pk base others -> Permutation others others' -> policy < 2 ->
  exists o o', run_merge base others policy remmode blocks = Ok o /\
               run_merge base others' policy remmode blocks = Ok o' /\
               mo_cols o = mo_cols o' /\ forall r, In r (mo_rows o) <-> In r (mo_rows o').
Proof.
  intros Hg HP Hpol.
  assert (Hg' : guard cols pk base others').
  { destruct Hg as (H1 & H2 & H3 & H4 & H5 & H6).
    split; [assumption|]. split; [assumption|]. split; [assumption|]. split.
    - intros E. subst others'. apply Permutation_sym, Permutation_nil in HP. contradiction.
    - split; [assumption|]. now apply (Permutation_Forall HP). }
  destruct (merge_guard cols pk base others policy remmode blocks Hg Hpol) as (o & Hrun & Hcols & _ & Hrows).
  destruct (merge_guard cols pk base others' policy remmode blocks Hg' Hpol) as (o' & Hrun' & Hcols' & _ & Hrows').
  exists o, o'. split; [assumption|]. split; [assumption|]. split; [congruence|].
  intros r. rewrite Hrows, Hrows'.
  assert (Hkeys : forall k, table_keys pk base others k <-> table_keys pk base others' k).
  { intros k. split; intros (t & Ht & Hr); exists t; (split; [|assumption]); destruct Ht as [->|Ht]; [now left|right| now left|right].
    - now apply (Permutation_in _ HP). - now apply (Permutation_in _ (Permutation_sym HP)). }
  assert (Hfin : forall k, final_row cols base others policy k = final_row cols base others' policy k).
  { intros k. unfold final_row. rewrite (spec_row_perm _ _ _ (map (fun o0 => lookup o0 k) others')); [reflexivity|].
    now apply Permutation_map. }
  split; intros (k & Hk & Hf); exists k; (split; [now apply Hkeys|]); [now rewrite <- Hfin|now rewrite Hfin].
Qed.

(** ---- the result is strictly ascending by key ---- *)
From Coq Require Import Sorting.Sorted.

Lemma klt_irrefl a : klt a a = false.
Proof. unfold klt. now rewrite kcmp_refl. Qed.

Lemma klt_trans a b c : klt a b = true -> klt b c = true -> klt a c = true.
Proof.
  unfold klt. destruct (kcmp a b) eqn:E1; try discriminate. destruct (kcmp b c) eqn:E2; try discriminate.
  intros _ _. now rewrite (kcmp_lt_trans _ _ _ E1 E2).
Qed.

Lemma klt_total a b : klt a b = false -> klt b a = false -> a = b.
Proof.
  unfold klt. rewrite (kcmp_antisym a b). destruct (kcmp a b) eqn:E; cbn; try discriminate.
  intros _ _. now apply kcmp_eq.
Qed.

Lemma klt_asym a b : klt a b = true -> klt b a = false.
Proof. unfold klt. rewrite (kcmp_antisym a b). destruct (kcmp a b); cbn; congruence. Qed.

Lemma kle_trans a b c : klt b a = false -> klt c b = false -> klt c a = false.
Proof.
  intros H1 H2. destruct (klt c a) eqn:E; [|reflexivity]. exfalso.
  destruct (klt b c) eqn:E3.
  - rewrite (klt_trans _ _ _ E3 E) in H1. discriminate H1.
  - pose proof (klt_total _ _ E3 H2) as ->. congruence.
Qed.

Section SortByKey.
  Context {A : Type} (f : A -> list bytes).
  Let lt (a b : A) := klt (f a) (f b).
  Let le (a b : A) := klt (f b) (f a) = false.

  Lemma insert_by_sorted x l : StronglySorted le l -> StronglySorted le (insert_by lt x l).
  Proof.
    induction 1 as [|y l Hs IH Hall]; cbn; [repeat constructor|].
    unfold lt at 1. destruct (klt (f y) (f x)) eqn:E.
    - constructor; [assumption|]. apply Forall_forall. intros z Hz. apply insert_by_in in Hz as [->|Hz].
      + unfold le. now apply klt_asym.
      + rewrite Forall_forall in Hall. now apply Hall.
    - constructor; [now constructor|]. constructor; [exact E|].
      apply Forall_forall. intros z Hz. rewrite Forall_forall in Hall. specialize (Hall z Hz).
      unfold le in *. eapply kle_trans; eassumption.
  Qed.

  Lemma isort_sorted l : StronglySorted le (isort lt l).
  Proof. induction l as [|x l IH]; cbn; [constructor|]. now apply insert_by_sorted. Qed.

  Lemma dedupe_runs_strict l : forall prev,
    StronglySorted le l -> (forall q, prev = Some q -> Forall (le q) l) ->
    StronglySorted (fun a b => lt a b = true) (dedupe_runs (fun a b => keqb (f a) (f b)) prev l) /\
    (forall q, prev = Some q -> Forall (fun y => lt q y = true) (dedupe_runs (fun a b => keqb (f a) (f b)) prev l)).
  Proof.
    induction l as [|x l IH]; intros prev Hs Hq; cbn; [split; [constructor|intros; constructor]|].
    inversion Hs as [|? ? Hs' Hall]; subst.
    assert (Hstep : StronglySorted (fun a b => lt a b = true) (x :: dedupe_runs (fun a b => keqb (f a) (f b)) (Some x) l) /\
                    forall q, lt q x = true -> Forall (fun y => lt q y = true) (x :: dedupe_runs (fun a b => keqb (f a) (f b)) (Some x) l)).
    { destruct (IH (Some x) Hs') as [H1 H2]; [intros q Eq; injection Eq as <-; exact Hall|].
      specialize (H2 x eq_refl). split; [now constructor|].
      intros q Hqx. constructor; [assumption|]. apply Forall_forall. intros y Hy.
      rewrite Forall_forall in H2. unfold lt in *. eapply klt_trans; [exact Hqx|now apply H2]. }
    destruct prev as [q|].
    - specialize (Hq q eq_refl). inversion Hq as [|? ? Hqx Hql]; subst.
      destruct (keqb (f q) (f x)) eqn:E.
      + apply IH; [assumption|]. intros q' Eq. injection Eq as <-. assumption.
      + assert (Hlt : lt q x = true).
        { unfold lt, le in *. destruct (klt (f q) (f x)) eqn:E'; [reflexivity|].
          pose proof (klt_total _ _ E' Hqx) as Heq. rewrite Heq, keqb_refl in E. discriminate E. }
        destruct Hstep as [H1 H2]. split; [assumption|]. intros q' Eq. injection Eq as <-. now apply H2.
    - destruct Hstep as [H1 _]. split; [assumption|]. intros q Eq. discriminate Eq.
  Qed.

  Lemma sort_dedupe_strict l :
    StronglySorted (fun a b => lt a b = true) (dedupe_runs (fun a b => keqb (f a) (f b)) None (isort lt l)).
  Proof. apply dedupe_runs_strict; [apply isort_sorted|intros q Eq; discriminate Eq]. Qed.
End SortByKey.

(** the result rows of a guarded merge are strictly ascending by key (hence without duplicates) *)
Theorem merge_guard_sorted cols pk base others policy remmode blocks o :
  guard cols pk base others -> policy < 2 ->
  run_merge base others policy remmode blocks = Ok o ->
  StronglySorted (fun a b => klt (kf (length pk) a) (kf (length pk) b) = true) (mo_rows o).
Proof.
  intros Hg Hpol Hrun. pose proof Hg as (Hnd & Hpk & Hrest & Hne & Hwb & Hwo).
  unfold run_merge in Hrun.
  destruct (negb (start_ok others)); [discriminate|].
  destruct (compare_columns (header_of base) (map header_of others)) as [cd| |] eqn:Hcd; try discriminate.
  cbn [rbind] in Hrun.
  pose proof (l3_id_layout cols pk base others cd Hg Hcd) as Hid.
  set (rm := match (if Nat.eqb remmode 1 then Some (union_removed cd) else None) with Some l => l | None => [] end) in *.
  assert (Hrm : forall i, nth i rm false = false).
  { subst rm. destruct (Nat.eqb remmode 1).
    - exact (union_removed_none cd _ _ Hid).
    - intros i. now destruct i. }
  unfold result_rows in Hrun. fold rm in Hrun.
  destruct (blocks && remove_panics rm _); [discriminate|]. cbn [rbind] in Hrun. injection Hrun as <-. cbn [mo_rows].
  rewrite (map_ext _ (fun x => x)) by (intros x; now apply remove_cols_none). rewrite map_id.
  unfold sorted_rows. rewrite (l3_pk_idx cols pk base others Hg base Hwb).
  pose proof (l3_p_pos cols pk base others Hg) as Hp.
  assert (Elt : forall a b, row_lt (seq 0 (length pk)) a b = klt (kf (length pk) a) (kf (length pk) b)).
  { intros a b. unfold row_lt. destruct (length pk) as [|p']; [lia|]. reflexivity. }
  assert (Eis : isort (row_lt (seq 0 (length pk))) (collected_rows base (merge_records cd base others) policy)
                = isort (fun a b => klt (kf (length pk) a) (kf (length pk) b)) (collected_rows base (merge_records cd base others) policy)).
  { generalize (collected_rows base (merge_records cd base others) policy) as l.
    induction l as [|x l IH]; cbn; [reflexivity|]. fold (isort (row_lt (seq 0 (length pk))) l).
    fold (isort (fun a b => klt (kf (length pk) a) (kf (length pk) b)) l). rewrite IH.
    generalize (isort (fun a b => klt (kf (length pk) a) (kf (length pk) b)) l) as s.
    induction s as [|y s IHs]; cbn; [reflexivity|]. now rewrite Elt, IHs. }
  rewrite Eis. exact (sort_dedupe_strict (kf (length pk)) _).
Qed.

(** ---- command level: `wrgl merge` without --no-gui never concludes a merge that has an
    unresolved record ---- *)
Lemma run_merge_inv base others policy remmode blocks o :
  run_merge base others policy remmode blocks = Ok o ->
  start_ok others = true /\
  compare_columns (header_of base) (map header_of others) = Ok (mo_cd o) /\
  mo_recs o = merge_records (mo_cd o) base others.
Proof.
  unfold run_merge. destruct (start_ok others); cbn [negb]; [|discriminate].
  destruct (compare_columns (header_of base) (map header_of others)) as [cd| |]; try discriminate.
  cbn [rbind]. destruct (result_rows _ _ _ _ _); try discriminate. cbn [rbind].
  intros H; injection H as <-. now repeat split.
Qed.

Lemma run_merge_rows_path base others policy remmode o blocks :
  run_merge base others policy remmode blocks = Ok o ->
  forall policy' remmode', exists o', run_merge base others policy' remmode' false = Ok o' /\
    mo_cd o' = mo_cd o /\ mo_recs o' = mo_recs o.
Proof.
  intros H policy' remmode'. apply run_merge_inv in H as (Hs & Hc & Hr).
  unfold run_merge. rewrite Hs, Hc. cbn [negb rbind]. unfold result_rows. cbn [andb rbind].
  eexists. split; [reflexivity|]. cbn [mo_cd mo_recs]. now split.
Qed.

Lemma cmd_committed_resolved base others blocks o :
  cmd_merge base others blocks = CmdCommitted o -> all_resolved (mo_recs o) = true.
Proof.
  unfold cmd_merge. destruct (run_merge base others 0 1 false) as [o0| |] eqn:E0; try discriminate.
  destruct (all_resolved (mo_recs o0)) eqn:Ea; [|discriminate].
  destruct (run_merge base others 0 1 blocks) as [o1| |] eqn:E1; try discriminate.
  intros H; injection H as <-.
  apply run_merge_inv in E0 as (_ & Hc0 & Hr0). apply run_merge_inv in E1 as (_ & Hc1 & Hr1).
  rewrite Hc0 in Hc1. injection Hc1 as Hcd. rewrite Hr1, <- Hcd, <- Hr0. exact Ea.
Qed.

Lemma cmd_unresolved_refused base others policy remmode blocks blocks' o0 :
  run_merge base others policy remmode blocks = Ok o0 -> all_resolved (mo_recs o0) = false ->
  cmd_merge base others blocks' = CmdRefused.
Proof.
  intros H Ha. destruct (run_merge_rows_path _ _ _ _ _ _ H 0 1) as (o' & Ho' & _ & Hr).
  unfold cmd_merge. rewrite Ho', Hr, Ha. reflexivity.
Qed.

Lemma all_resolved_false recs : all_resolved recs = false <-> exists kr, In kr recs /\ r_resolved (k_res kr) = false.
Proof.
  unfold all_resolved. split.
  - intros H. induction recs as [|kr l IH]; cbn in H; [discriminate|].
    destruct (r_resolved (k_res kr)) eqn:E; [|exists kr; split; [now left|assumption]].
    destruct (IH H) as (x & Hx & Hr). exists x. split; [now right|assumption].
  - intros (kr & Hin & Hr). destruct (forallb _ recs) eqn:E; [|reflexivity].
    rewrite forallb_forall in E. rewrite (E kr Hin) in Hr. discriminate Hr.
Qed.

(** under the guard the command refuses exactly when the specification finds a conflict, and
    otherwise commits the specified table *)
Theorem cmd_guard cols pk base others blocks :
  guard cols pk base others ->
  ((exists k, table_keys pk base others k /\
              is_conflict (spec_row (length cols) (lookup base k) (map (fun o => lookup o k) others)) = true) ->
   cmd_merge base others blocks = CmdRefused) /\
  ((forall k, table_keys pk base others k ->
              is_conflict (spec_row (length cols) (lookup base k) (map (fun o => lookup o k) others)) = false) ->
   exists o, cmd_merge base others blocks = CmdCommitted o /\ mo_cols o = cols /\
     forall r, In r (mo_rows o) <->
       exists k, table_keys pk base others k /\
                 outcome_row (spec_row (length cols) (lookup base k) (map (fun o => lookup o k) others)) = Some r).
Proof.
  intros Hg.
  destruct (merge_guard cols pk base others 0 1 false Hg) as (o0 & Hrun0 & _ & _ & _); [lia|].
  destruct (run_merge_inv _ _ _ _ _ _ Hrun0) as (_ & Hcd & Hrecs).
  assert (Hunres : all_resolved (mo_recs o0) = false <->
                   exists k, table_keys pk base others k /\
                     is_conflict (spec_row (length cols) (lookup base k) (map (fun o => lookup o k) others)) = true).
  { rewrite all_resolved_false, Hrecs. split.
    - intros (kr & Hin & Hr). apply (l3_recs cols pk base others (mo_cd o0) Hg Hcd) in Hin as (k & Hk & Hnc & ->).
      exists k. split; [assumption|]. cbn [k_res] in Hr.
      pose proof (l3_spec cols pk base others (mo_cd o0) Hg Hcd k Hk) as Hs.
      destruct (spec_row (length cols) (lookup base k) (map (fun o => lookup o k) others)); [congruence| | reflexivity|].
      + destruct Hs as [_ Hs]. rewrite Hs in Hr. discriminate Hr.
      + destruct Hs as (_ & Hs & _). congruence.
    - intros (k & Hk & Hc).
      pose proof (l3_spec cols pk base others (mo_cd o0) Hg Hcd k Hk) as Hs.
      destruct (spec_row (length cols) (lookup base k) (map (fun o => lookup o k) others)); try discriminate Hc.
      destruct Hs as [Hnc Hr].
      exists {| k_key := k; k_m := mk_mrec base others k; k_res := resolve (mo_cd o0) (mk_mrec base others k) |}.
      split; [apply (l3_recs cols pk base others (mo_cd o0) Hg Hcd); exists k; now repeat split|exact Hr]. }
  split.
  - intros Hex. apply (cmd_unresolved_refused base others 0 1 false blocks o0 Hrun0). now apply Hunres.
  - intros Hall.
    assert (Ha : all_resolved (mo_recs o0) = true).
    { destruct (all_resolved (mo_recs o0)) eqn:E; [reflexivity|].
      destruct (proj1 Hunres eq_refl) as (k & Hk & Hc). rewrite (Hall k Hk) in Hc. discriminate Hc. }
    destruct (merge_guard cols pk base others 0 1 blocks Hg) as (o & Hrun & Hcols & _ & Hrows); [lia|].
    exists o. unfold cmd_merge. rewrite Hrun0, Ha, Hrun. split; [reflexivity|]. split; [assumption|].
    intros r. rewrite Hrows. split; intros (k & Hk & H); exists k; (split; [assumption|]).
    + now rewrite final_row_no_conflict in H by (now apply Hall).
    + now rewrite final_row_no_conflict by (now apply Hall).
Qed.
