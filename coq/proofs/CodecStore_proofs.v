(** Proofs for model/CodecStore.v: objects are stored under prefix ++ hash, saving the
    same content twice leaves one key, Get after Save returns the object, stored values
    agree with their keys, the six prefixes never mix.  Axiom-free; the hash and the
    compression are Section variables, the inverse law of the compression a hypothesis. *)
From W.lib Require Import Tree Bytes.
From W.model Require Import CodecBase CodecStrList CodecObjline CodecCommit CodecTable
     CodecProfile CodecStore.
From W.proofs Require Import CodecBase_proofs CodecStrList_proofs CodecObjline_proofs
     CodecCommit_proofs CodecTable_proofs CodecProfile_proofs.
From Coq Require Import Arith Lia ZifyNat ZifyN ZifyBool List NArith Bool.
Import ListNotations.
Local Open Scope N_scope.

(* ------------------------------------------------------------------ *)
(** * the association list *)

Lemma beq_false_neq (a b : bytes) : beq a b = false -> a <> b.
Proof. intros H ->. now rewrite beq_refl in H. Qed.

Lemma beq_neq_false (a b : bytes) : a <> b -> beq a b = false.
Proof. intros H. destruct (beq a b) eqn:E; [|reflexivity]. now apply beq_eq in E. Qed.

Lemma sget_sset_same k v s : sget k (sset k v s) = Some v.
Proof.
  induction s as [|[k' v'] s IH]; cbn [sset sget].
  - now rewrite beq_refl.
  - destruct (beq k' k) eqn:E; cbn [sget]; [now rewrite beq_refl|now rewrite E].
Qed.

Lemma sget_sset_other k k' v s : k' <> k -> sget k' (sset k v s) = sget k' s.
Proof.
  intros Hne. induction s as [|[k0 v0] s IH]; cbn [sset sget].
  - rewrite beq_neq_false by congruence. reflexivity.
  - destruct (beq k0 k) eqn:E; cbn [sget].
    + apply beq_eq in E. subst k0. rewrite !beq_neq_false by congruence. reflexivity.
    + now rewrite IH.
Qed.

Lemma sset_idem k v s : sset k v (sset k v s) = sset k v s.
Proof.
  induction s as [|[k0 v0] s IH]; cbn [sset].
  - now rewrite beq_refl.
  - destruct (beq k0 k) eqn:E; cbn [sset]; [now rewrite beq_refl|now rewrite E, IH].
Qed.

Lemma skeys_sset_in k v s : In k (skeys s) -> skeys (sset k v s) = skeys s.
Proof.
  induction s as [|[k0 v0] s IH]; cbn [sset skeys map fst]; [contradiction|].
  intros [->|Hin].
  - now rewrite beq_refl.
  - destruct (beq k0 k) eqn:E; cbn [map fst].
    + apply beq_eq in E. now subst.
    + f_equal. now apply IH.
Qed.

Lemma skeys_sset_notin k v s : ~ In k (skeys s) -> skeys (sset k v s) = skeys s ++ [k].
Proof.
  induction s as [|[k0 v0] s IH]; cbn [sset skeys map fst]; [reflexivity|].
  intros Hn. rewrite beq_neq_false by (intros ->; apply Hn; now left).
  cbn [map fst app]. f_equal. apply IH. intros H. apply Hn. now right.
Qed.

Lemma skeys_sset_nodup k v s : NoDup (skeys s) -> NoDup (skeys (sset k v s)) /\ In k (skeys (sset k v s)).
Proof.
  intros Hnd. destruct (in_dec (list_eq_dec N.eq_dec) k (skeys s)) as [Hin|Hn].
  - rewrite skeys_sset_in by assumption. auto.
  - rewrite skeys_sset_notin by assumption. split.
    + rewrite <- (rev_involutive (skeys s ++ [k])). apply NoDup_rev.
      rewrite rev_app_distr. cbn. constructor; [rewrite <- in_rev; exact Hn|now apply NoDup_rev].
    + apply in_or_app. right. now left.
Qed.

(* every entry of the updated store is the new one or an old one *)
Lemma In_sset k v s kv : In kv (sset k v s) -> kv = (k, v) \/ In kv s.
Proof.
  induction s as [|[k0 v0] s IH]; cbn [sset In].
  - intros [<-|[]]. now left.
  - destruct (beq k0 k) eqn:E; cbn [In].
    + intros [<-|Hin]; [now left|right; now right].
    + intros [<-|Hin]; [right; now left|].
      destruct (IH Hin) as [->|Hin']; [now left|right; now right].
Qed.

Lemma Forall_sset (P : bytes * bytes -> Prop) k v s :
  P (k, v) -> Forall P s -> Forall P (sset k v s).
Proof.
  intros Hkv Hs. apply Forall_forall. intros kv Hin.
  destruct (In_sset _ _ _ _ Hin) as [->|Hin']; [assumption|].
  rewrite Forall_forall in Hs. now apply Hs.
Qed.

(* ------------------------------------------------------------------ *)
(** * prefixes *)

Lemma is_prefix_self p x : is_prefix p (p ++ x) = true.
Proof. induction p as [|a p IH]; cbn; [reflexivity|]. now rewrite N.eqb_refl, IH. Qed.

Lemma is_prefix_app q : forall p x,
  is_prefix q (p ++ x) = true -> is_prefix q p = true \/ is_prefix p q = true.
Proof.
  induction q as [|a q IH]; intros p x H; [now left|].
  destruct p as [|b p]; [now right|].
  cbn [app is_prefix] in *. apply andb_true_iff in H as [H1 H2].
  apply N.eqb_eq in H1. subst b. rewrite N.eqb_refl. cbn [andb]. now apply IH in H2.
Qed.

Lemma prefixes_check :
  forallb (fun p => forallb (fun q => beq p q || negb (is_prefix p q)) prefixes) prefixes = true.
Proof. vm_compute. reflexivity. Qed.

Theorem prefixes_disjoint p q x :
  In p prefixes -> In q prefixes -> p <> q -> is_prefix q (p ++ x) = false.
Proof.
  intros Hp Hq Hne. pose proof prefixes_check as C. rewrite forallb_forall in C.
  assert (A : is_prefix p q = false).
  { specialize (C p Hp). rewrite forallb_forall in C. specialize (C q Hq).
    apply orb_true_iff in C as [C|C]; [apply beq_eq in C; contradiction|].
    now apply negb_true_iff in C. }
  assert (B : is_prefix q p = false).
  { specialize (C q Hq). rewrite forallb_forall in C. specialize (C p Hp).
    apply orb_true_iff in C as [C|C]; [apply beq_eq in C; congruence|].
    now apply negb_true_iff in C. }
  destruct (is_prefix q (p ++ x)) eqn:E; [|reflexivity].
  apply is_prefix_app in E as [E|E]; congruence.
Qed.

Lemma prefix_clash p q a b :
  In p prefixes -> In q prefixes -> p <> q -> p ++ a <> q ++ b.
Proof.
  intros Hp Hq Hne E. pose proof (prefixes_disjoint p q a Hp Hq Hne) as D.
  rewrite E, is_prefix_self in D. discriminate.
Qed.

Ltac in_prefixes := unfold prefixes; cbn [In]; tauto.
Ltac clash :=
  match goal with
  | E : ?p ++ _ = ?q ++ _ |- _ =>
      exfalso; apply (prefix_clash p q _ _ ltac:(in_prefixes) ltac:(in_prefixes) ltac:(discriminate) E)
  end.

(* ------------------------------------------------------------------ *)
(** * Save / Get *)

Section StoreProofs.
  Variable H : bytes -> bytes.
  Variable compress : bytes -> bytes.
  Variable decompress : bytes -> option bytes.
  Hypothesis decompress_compress : forall c, decompress (compress c) = Some c.

  (** every Save writes exactly one key, prefix ++ hash (for the table index and the
      table profile: prefix ++ the supplied sum), and touches no other key *)
  Theorem save_key_is_hash s c :
    (let '(s', sum) := save_block H compress s c in
     sum = H c /\ sget (L_blk ++ H c) s' = Some (compress c) /\
     forall k, k <> L_blk ++ H c -> sget k s' = sget k s) /\
    (let '(s', sum) := save_blockindex H compress s c in
     sum = H c /\ sget (L_blkidx ++ H c) s' = Some (compress c) /\
     forall k, k <> L_blkidx ++ H c -> sget k s' = sget k s) /\
    (let '(s', sum) := save_table H s c in
     sum = H c /\ sget (L_tbl ++ H c) s' = Some c /\
     forall k, k <> L_tbl ++ H c -> sget k s' = sget k s) /\
    (let '(s', sum) := save_commit H s c in
     sum = H c /\ sget (L_com ++ H c) s' = Some c /\
     forall k, k <> L_com ++ H c -> sget k s' = sget k s) /\
    (forall sum, let s' := save_tableindex s sum c in
     sget (L_tblidx ++ sum) s' = Some c /\ forall k, k <> L_tblidx ++ sum -> sget k s' = sget k s) /\
    (forall sum, let s' := save_tableprofile s sum c in
     sget (L_tblsum ++ sum) s' = Some c /\ forall k, k <> L_tblsum ++ sum -> sget k s' = sget k s).
  Proof.
    unfold save_block, save_blockindex, save_table, save_commit, save_tableindex, save_tableprofile.
    repeat split; intros; try apply sget_sset_same; try (apply sget_sset_other; assumption).
  Qed.

  (** identical content saved twice: the store does not change the second time,
      and keys stay unique *)
  Theorem save_twice s o : apply_sop H compress (apply_sop H compress s o) o = apply_sop H compress s o.
  Proof. destruct o; cbn; apply sset_idem. Qed.

  Theorem save_keys_nodup s o : NoDup (skeys s) -> NoDup (skeys (apply_sop H compress s o)).
  Proof. intros Hn. destruct o; cbn; now apply skeys_sset_nodup. Qed.

  (** Get after Save returns the object that was encoded *)
  Theorem get_after_save_commit s c b : wf_commit c -> encode_commit c = Some b ->
    get_commit (fst (save_commit H s b)) (snd (save_commit H s b)) = Some c.
  Proof.
    intros Hw He. destruct (commit_roundtrip c Hw) as (b' & Eb & Db). rewrite He in Eb. inv Eb.
    unfold get_commit, save_commit. cbn [fst snd]. rewrite sget_sset_same. cbn [obind].
    unfold decode_commit. now rewrite Db.
  Qed.

  Theorem get_after_save_table s t b : wf_table t -> encode_table t = Some b ->
    get_table (fst (save_table H s b)) (snd (save_table H s b)) = Some t.
  Proof.
    intros Hw He. destruct (table_roundtrip t Hw) as (b' & Eb & Db). rewrite He in Eb. inv Eb.
    unfold get_table, save_table. cbn [fst snd]. rewrite sget_sset_same. cbn [obind].
    specialize (Db []). rewrite app_nil_r in Db. now rewrite Db.
  Qed.

  Theorem get_after_save_block s rows b : wf_block rows -> encode_block rows = Some b ->
    get_block decompress (fst (save_block H compress s b)) (snd (save_block H compress s b)) = Some rows.
  Proof.
    intros Hw He. destruct (block_roundtrip rows Hw) as (b' & Eb & Db). rewrite He in Eb. inv Eb.
    unfold get_block, save_block. cbn [fst snd]. rewrite sget_sset_same. cbn [obind].
    rewrite decompress_compress. cbn [obind].
    specialize (Db false []). rewrite app_nil_r in Db. unfold decode_block. now rewrite Db.
  Qed.

  Theorem get_after_save_blockindex s x b : wf_blockindex x -> encode_blockindex x = Some b ->
    get_blockindex decompress (fst (save_blockindex H compress s b)) (snd (save_blockindex H compress s b)) = Some x.
  Proof.
    intros Hw He. destruct (blockindex_roundtrip x Hw) as (b' & Eb & Db). rewrite He in Eb. inv Eb.
    unfold get_blockindex, save_blockindex. cbn [fst snd]. rewrite sget_sset_same. cbn [obind].
    rewrite decompress_compress. cbn [obind].
    specialize (Db []). rewrite app_nil_r in Db. now rewrite Db.
  Qed.

  Theorem get_after_save_tableindex s sum rows b : wf_block rows -> encode_block rows = Some b ->
    get_tableindex (save_tableindex s sum b) sum = Some rows.
  Proof.
    intros Hw He. destruct (block_roundtrip rows Hw) as (b' & Eb & Db). rewrite He in Eb. inv Eb.
    unfold get_tableindex, save_tableindex. rewrite sget_sset_same. cbn [obind].
    specialize (Db false []). rewrite app_nil_r in Db. unfold decode_block. now rewrite Db.
  Qed.

  Theorem get_after_save_tableprofile s sum p b : wf_profile p -> encode_profile p = Some b ->
    get_tableprofile (save_tableprofile s sum b) sum = Some p.
  Proof.
    intros Hw He. destruct (profile_roundtrip p Hw) as (b' & Eb & Db). rewrite He in Eb. inv Eb.
    unfold get_tableprofile, save_tableprofile. rewrite sget_sset_same. cbn [obind].
    specialize (Db []). rewrite app_nil_r in Db. now rewrite Db.
  Qed.

  (** a stored object never disagrees with its identifier, after any sequence of saves *)
  Lemma entry_ok_block c : entry_ok H decompress (L_blk ++ H c, compress c).
  Proof.
    unfold entry_ok. repeat split; intros sum E; try clash.
    apply app_inv_head in E. subst. eauto.
  Qed.
  Lemma entry_ok_blockindex c : entry_ok H decompress (L_blkidx ++ H c, compress c).
  Proof.
    unfold entry_ok. repeat split; intros sum E; try clash.
    apply app_inv_head in E. subst. eauto.
  Qed.
  Lemma entry_ok_table c : entry_ok H decompress (L_tbl ++ H c, c).
  Proof.
    unfold entry_ok. repeat split; intros sum E; try clash.
    apply app_inv_head in E. now subst.
  Qed.
  Lemma entry_ok_commit c : entry_ok H decompress (L_com ++ H c, c).
  Proof.
    unfold entry_ok. repeat split; intros sum E; try clash.
    apply app_inv_head in E. now subst.
  Qed.
  Lemma entry_ok_tableindex sum c : entry_ok H decompress (L_tblidx ++ sum, c).
  Proof. unfold entry_ok. repeat split; intros sum' E; clash. Qed.
  Lemma entry_ok_tableprofile sum c : entry_ok H decompress (L_tblsum ++ sum, c).
  Proof. unfold entry_ok. repeat split; intros sum' E; clash. Qed.

  Theorem store_ok_step s o : store_ok H decompress s -> store_ok H decompress (apply_sop H compress s o).
  Proof.
    intros [Hn Hf]. split; [now apply save_keys_nodup|].
    destruct o; cbn [apply_sop save_block save_blockindex save_table save_commit
                      save_tableindex save_tableprofile fst];
      apply Forall_sset; try assumption.
    - apply entry_ok_block.
    - apply entry_ok_blockindex.
    - apply entry_ok_table.
    - apply entry_ok_commit.
    - apply entry_ok_tableindex.
    - apply entry_ok_tableprofile.
  Qed.

  Theorem store_ok_sops ops : forall s, store_ok H decompress s -> store_ok H decompress (apply_sops H compress s ops).
  Proof.
    induction ops as [|o ops IH]; intros s Hs; [exact Hs|].
    cbn [apply_sops fold_left]. apply IH. now apply store_ok_step.
  Qed.

  Theorem store_ok_from_empty ops : store_ok H decompress (apply_sops H compress [] ops).
  Proof. apply store_ok_sops. split; constructor. Qed.
  (** no save ever loses or replaces an object saved earlier: with an injective hash, every
      block / block index / table / commit operation of a sequence is still readable, with the
      value it wrote, after the whole sequence *)
  Hypothesis H_inj : forall a b, H a = H b -> a = b.

  Lemma apply_sop_sset s o :
    apply_sop H compress s o = sset (sop_key H o) (sop_val compress o) s.
  Proof. destruct o; reflexivity. Qed.

  Lemma same_key_same_val o o' : sop_hashed o = true ->
    sop_key H o' = sop_key H o -> sop_val compress o' = sop_val compress o.
  Proof.
    intros Hh E. destruct o; try discriminate; destruct o'; cbn [sop_key sop_val] in *;
      try clash; apply app_inv_head in E; apply H_inj in E; now subst.
  Qed.

  Lemma persist_step s o o' : sop_hashed o = true ->
    sget (sop_key H o) s = Some (sop_val compress o) ->
    sget (sop_key H o) (apply_sop H compress s o') = Some (sop_val compress o).
  Proof.
    intros Hh Hs. rewrite apply_sop_sset.
    destruct (list_eq_dec N.eq_dec (sop_key H o') (sop_key H o)) as [E|E].
    - rewrite <- E at 1. rewrite sget_sset_same. f_equal. now apply same_key_same_val.
    - rewrite sget_sset_other by congruence. exact Hs.
  Qed.

  Lemma persist_all ops : forall s o, sop_hashed o = true ->
    sget (sop_key H o) s = Some (sop_val compress o) ->
    sget (sop_key H o) (apply_sops H compress s ops) = Some (sop_val compress o).
  Proof.
    induction ops as [|o' ops IH]; intros s o Hh Hs; [exact Hs|].
    cbn [apply_sops fold_left]. apply IH; [assumption|]. now apply persist_step.
  Qed.

  Theorem saved_objects_persist ops : forall s o, In o ops -> sop_hashed o = true ->
    sget (sop_key H o) (apply_sops H compress s ops) = Some (sop_val compress o).
  Proof.
    induction ops as [|o' ops IH]; intros s o Hin Hh; [contradiction|].
    cbn [apply_sops fold_left]. destruct Hin as [->|Hin].
    - apply persist_all; [assumption|]. rewrite apply_sop_sset. apply sget_sset_same.
    - now apply IH.
  Qed.
End StoreProofs.
