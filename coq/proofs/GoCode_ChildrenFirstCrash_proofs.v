(** (i) prune.childrenFirst vs [children_first] of model/Crash.v (C13), whose counters are
    naturals with a saturating predecessor: equal to the Go integers because the Kahn
    invariant of proofs/CrashKahn_proofs.v keeps every decremented counter positive. *)
From Coq Require Import List ZArith NArith Bool String Lia Arith.
From W.lib Require Import Tree Bytes GoLang.
From W.gen Require Import ExtractedCode.
From W.model Require Import CrashRepo Crash.
From W.proofs Require Import CrashRepo_proofs CrashKahn_proofs.
From W.proofs Require GoCode_ChildrenFirst_proofs.
From W.proofs Require Import GoCode_ChildrenFirstModels_proofs.
Import ListNotations.
Local Open Scope Z_scope.

Section C.
  Variable l : list cid.
  Hypothesis Hnd : NoDup l.

  Definition rawC (c : cid) : option (list cid) := Some (c_parents c).
  Notation gcfp := (cfp cid cid_eqb rawC l).

  Lemma cfp_eq c : gcfp c = kparents l c.
  Proof. reflexivity. Qed.

  Definition Rn (pend : cid -> nat) (pg : cid -> Z) : Prop := forall k, pg k = Z.of_nat (pend k).

  Lemma pend0_R : Rn (pending0 l) (g_pend0 cid cid_eqb rawC l).
  Proof. intros k. reflexivity. Qed.

  Lemma dec_R ps : forall pend pg q, Rn pend pg ->
    (forall x, (countb x ps <= pend x)%nat) ->
    Rn (fst (dec_parents ps pend q)) (fst (g_dec cid cid_eqb ps (pg, q))) /\
    snd (dec_parents ps pend q) = snd (g_dec cid cid_eqb ps (pg, q)).
  Proof.
    induction ps as [|p ps IH]; intros pend pg q HR Hpre; cbn [dec_parents g_dec fst snd]; [auto|].
    assert (Hp : (1 + countb p ps <= pend p)%nat).
    { specialize (Hpre p). rewrite countb_cons, cid_eqb_refl in Hpre. lia. }
    assert (Ev : pg p - 1 = Z.of_nat (pred (pend p))) by (rewrite (HR p); lia).
    rewrite Ev.
    assert (Ez : (Z.of_nat (pred (pend p)) =? 0) = Nat.eqb (pred (pend p)) 0).
    { destruct (Z.eqb_spec (Z.of_nat (pred (pend p))) 0), (Nat.eqb_spec (pred (pend p)) 0); try reflexivity; lia. }
    rewrite Ez. apply IH.
    - intros k. unfold g_upd, upd_pend. destruct (cid_eqb k p); [reflexivity|apply HR].
    - intros x. destruct (cid_eqb x p) eqn:E.
      + apply cid_eqb_eq in E. subst x. rewrite upd_pend_eq. lia.
      + pose proof E as E'. apply cid_eqb_neq in E'. rewrite upd_pend_neq by exact E'.
        specialize (Hpre x). rewrite countb_cons, E in Hpre. lia.
  Qed.

  Lemma KI_pre c q pend res : KI l (c :: q) pend res -> forall x, (countb x (kparents l c) <= pend x)%nat.
  Proof.
    intros [K1 K2 K4 K6 K3] x.
    assert (Hc : pend c = 0%nat /\ In c l) by (apply K2; left; reflexivity).
    destruct Hc as [_ Hcl].
    assert (Hcres : ~ In c res).
    { cbn in K4. inversion K4 as [|? ? Hn _]; subst. intros H; apply Hn. apply in_or_app; auto. }
    rewrite K1, (edges_snoc l Hnd res c x Hcl Hcres). lia.
  Qed.

  Lemma loop_R f : forall pend pg q res, Rn pend pg -> KI l q pend res ->
    (f + length res = S (length l))%nat ->
    g_loop cid cid_eqb rawC l f pg q res = Some (kahn_loop l f q pend res).
  Proof.
    induction f as [|f IH]; intros pend pg q res HR HK Hf.
    - pose proof (KI_res_bound l _ _ _ HK). lia.
    - cbn [g_loop kahn_loop]. destruct q as [|c q']; [reflexivity|].
      pose proof (KI_step l Hnd c q' pend res HK) as HK'.
      destruct (dec_R (kparents l c) pend pg q' HR (KI_pre _ _ _ _ HK)) as [D1 D2].
      change (cfp cid cid_eqb rawC l c) with (kparents l c).
      destruct (dec_parents (kparents l c) pend q') as [pend' q''] eqn:E. cbn [fst snd] in *.
      rewrite <- D2. apply IH; [exact D1|exact HK'|]. rewrite app_length. cbn. lia.
  Qed.

  Lemma children_first_g : g_cf cid cid_eqb rawC l = Some (children_first l).
  Proof.
    unfold g_cf, children_first.
    erewrite (filter_ext (fun c => g_pend0 cid cid_eqb rawC l c =? 0) (fun c => Nat.eqb (pending0 l c) 0)).
    - apply loop_R; [exact pend0_R|apply (KI_init l Hnd)|cbn; lia].
    - intros c. rewrite (pend0_R c).
      destruct (Z.eqb_spec (Z.of_nat (pending0 l c)) 0), (Nat.eqb_spec (pending0 l c) 0); try reflexivity; lia.
  Qed.

  Theorem go_childrenFirst_crash (enc : cid -> bytes) (par : bytes -> option (list bytes)) :
    (forall a b, enc a = enc b -> a = b) ->
    (forall c, In c l -> par (enc c) = Some (map enc (c_parents c))) ->
    2 * Z.of_nat (length (flat_map (kparents l) l)) < 2 ^ 62 ->
    exists fuel, run_func fuel (with_oracle go_prog (GoCode_ChildrenFirst_proofs.cf_oracle par))
                          go_childrenFirst [VNil; v_strs (map enc l)]
                 = FOk [v_strs (map enc (children_first l))] [].
  Proof.
    intros Hinj Hpar HT.
    destruct (children_first_spec l Hnd) as (Hin & Hnd' & _).
    apply (code_of_g cid cid_eqb cid_eqb_eq enc Hinj rawC par l Hnd).
    - intros c Hc. rewrite (Hpar c Hc). reflexivity.
    - exact children_first_g.
    - exact Hnd'.
    - intros x Hx. now apply Hin.
    - exact HT.
  Qed.
End C.
