(** C16 - the worker pool: control invariant (mutual exclusion, no panic, counters),
    progress (no deadlock), termination measure. *)
From W.lib Require Import Tree.
From W.model Require Import Pool PoolSpec.
From W.proofs Require Import PoolBase_proofs.
From Coq Require Import Arith Lia ZifyNat ZifyN ZifyBool Sorting.Permutation.
Local Open Scope nat_scope.

Definition is_done (wk : worker) : bool := match w_st wk with WDone => true | _ => false end.
Definition is_exited (wk : worker) : bool := match w_st wk with WDone | WExit => true | _ => false end.
Definition is_werr (wk : worker) : bool := match w_st wk with WErr _ => true | _ => false end.
Definition count {A} (f : A -> bool) (l : list A) : nat := List.length (filter f l).
Definition undone (l : list worker) : nat := count (fun wk => negb (is_done wk)) l.
Definition prog : list mact := inner_prog ++ outer_prog.
Definition ph (s : st) : nat := List.length (mainpc s).

Lemma count_app {A} (f : A -> bool) l1 l2 : count f (l1 ++ l2) = count f l1 + count f l2.
Proof. unfold count. now rewrite filter_app, app_length. Qed.
Lemma count_cons {A} (f : A -> bool) x l : count f (x :: l) = (if f x then 1 else 0) + count f l.
Proof. unfold count. simpl. destruct (f x); simpl; lia. Qed.
Lemma count_le {A} (f : A -> bool) l : count f l <= List.length l.
Proof. induction l; simpl; auto. rewrite count_cons. destruct (f a); simpl; lia. Qed.
Lemma count_repeat_false {A} (f : A -> bool) x n : f x = false -> count f (repeat x n) = 0.
Proof. intros H. induction n; simpl; auto. rewrite count_cons, H. auto. Qed.
Lemma count_repeat_true {A} (f : A -> bool) x n : f x = true -> count f (repeat x n) = n.
Proof. intros H. induction n; simpl; auto. rewrite count_cons, H. simpl. lia. Qed.

Lemma count_set_nth {A} (f : A -> bool) k x y l :
  nth_error l k = Some y ->
  count f (set_nth k x l) + (if f y then 1 else 0) = count f l + (if f x then 1 else 0).
Proof.
  intros H. destruct (set_nth_split k x y l H) as (l1 & l2 & -> & _ & ->).
  rewrite !count_app, !count_cons. lia.
Qed.

Lemma count_zero_all {A} (f : A -> bool) l k x :
  count f l = 0 -> nth_error l k = Some x -> f x = false.
Proof.
  intros H Hn. destruct (f x) eqn:E; auto.
  apply nth_error_split in Hn as (l1 & l2 & -> & _).
  rewrite count_app, count_cons, E in H. lia.
Qed.

Lemma count_lt {A} (f : A -> bool) l k x :
  nth_error l k = Some x -> f x = false -> count f l < List.length l.
Proof.
  intros Hn E. apply nth_error_split in Hn as (l1 & l2 & -> & _).
  rewrite count_app, count_cons, E, app_length. simpl.
  pose proof (count_le f l1). pose proof (count_le f l2). lia.
Qed.

Lemma count_pos {A} (f : A -> bool) l k x :
  nth_error l k = Some x -> f x = true -> 1 <= count f l.
Proof.
  intros Hn E. apply nth_error_split in Hn as (l1 & l2 & -> & _).
  rewrite count_app, count_cons, E. lia.
Qed.

Lemma forall_set_nth (P : nat -> worker -> Prop) k0 wk' l :
  P k0 wk' ->
  (forall k wk, k <> k0 -> nth_error l k = Some wk -> P k wk) ->
  forall k wk, nth_error (set_nth k0 wk' l) k = Some wk -> P k wk.
Proof.
  intros H0 Hr k wk Hn. destruct (Nat.eq_dec k k0) as [->|Hne].
  - assert (k0 < List.length l) by (rewrite <- (set_nth_length k0 wk'); eapply nth_error_lt; eauto).
    rewrite set_nth_same in Hn by auto. now inversion Hn; subst.
  - rewrite set_nth_other in Hn by auto. eauto.
Qed.

Lemma is_suffix_cons_r {A} (a : A) p l : is_suffix p l -> is_suffix p (a :: l).
Proof. intros [pre ->]. now exists (a :: pre). Qed.
Ltac solve_suffix :=
  unfold prog, inner_prog, outer_prog; simpl;
  repeat first [apply is_suffix_refl | apply is_suffix_cons_r].

Ltac suffix_cases H :=
  repeat (apply is_suffix_cons_inv in H; destruct H as [H|H]); [.. | apply is_suffix_nil_inv in H].

(* every (head, tail) position of the two admissible bodies *)
Lemma body_positions (b : list act) a pc :
  b = bodyA \/ b = bodyB -> is_suffix (a :: pc) b ->
  (a = ASaveBlk /\ exists r, pc = ASaveIdx :: ALock :: r /\ pc_in_cs pc = false) \/
  (a = ASaveIdx /\ exists r, pc = ALock :: r) \/
  (a = ALock /\ exists f g, f <> g /\ pc = [ARead f; AWrite f; ARead g; AWrite g; AUnlock]) \/
  (exists f g, f <> g /\ a = ARead f /\ pc = [AWrite f; ARead g; AWrite g; AUnlock]) \/
  (exists f g, f <> g /\ a = AWrite f /\ pc = [ARead g; AWrite g; AUnlock]) \/
  (exists g, a = ARead g /\ pc = [AWrite g; AUnlock]) \/
  (exists g, a = AWrite g /\ pc = [AUnlock]) \/
  (a = AUnlock /\ pc = []).
Proof.
  intros [-> | ->] H; unfold bodyA, bodyB, gen_body, accs_locked in H; simpl in H; suffix_cases H;
    try discriminate; inversion H; subst; clear H.
  all: try (left; split; [reflexivity|]; eexists; split; reflexivity).
  all: try (right; left; split; [reflexivity|]; eexists; reflexivity).
  all: try (right; right; left; split; [reflexivity|]; (exists FRc, FAb + exists FAb, FRc); split; [discriminate|reflexivity]).
  all: try (right; right; right; left; (exists FRc, FAb + exists FAb, FRc); split; [discriminate|split; reflexivity]).
  all: try (right; right; right; right; left; (exists FRc, FAb + exists FAb, FRc); split; [discriminate|split; reflexivity]).
  all: try (right; right; right; right; right; left; eexists; split; reflexivity).
  all: try (right; right; right; right; right; right; left; eexists; split; reflexivity).
  all: try (right; right; right; right; right; right; right; split; reflexivity).
Qed.

Section Pool.
  Variable c : cfg.
  Hypothesis Hbody : c_body c = bodyA \/ c_body c = bodyB.
  Hypothesis Hinner : c_inner c = inner_prog.
  Hypothesis Houter : c_outer c = outer_prog.
  Hypothesis Hsel : c_select c = true.
  Hypothesis Hw : 1 <= c_w c.
  Hypothesis Hecap : c_w c <= c_ecap c.
  Hypothesis Hccap : 1 <= c_ccap c.

  Definition wf_w (wk : worker) : Prop :=
    match w_st wk with WBody pc _ => is_suffix pc (c_body c) /\ pc <> [] | _ => True end.

  (* between the read and the write of a field the value read is the current one *)
  Definition mid_ok_v (r : N) (a : list blk) (wk : worker) : Prop :=
    in_cs wk = true ->
    match w_st wk with
    | WBody (AWrite FRc :: _) _ => w_trc wk = r
    | WBody (AWrite FAb :: _) _ => w_tab wk = a
    | _ => True
    end.
  Definition mid_ok (s : st) (wk : worker) : Prop := mid_ok_v (rc s) (ab s) wk.

  Record InvC (s : st) : Prop := {
    ic_np : panicked s = false;
    ic_main : is_suffix (mainpc s) prog;
    ic_wf : forall k wk, nth_error (ws s) k = Some wk -> wf_w wk;
    ic_cs : forall k wk, nth_error (ws s) k = Some wk -> in_cs wk = true -> mutex s = Some k;
    ic_mx : forall h, mutex s = Some h -> exists wk, nth_error (ws s) h = Some wk /\ in_cs wk = true;
    ic_mid : forall k wk, nth_error (ws s) k = Some wk -> mid_ok s wk;
    ic_wg : wg s = undone (ws s);
    ic_ws : (ph s = 9 -> ws s = []) /\ (ph s <= 8 -> List.length (ws s) = c_w c);
    ic_wait : ph s <= 7 -> wg s = 0;
    ic_flags : eclosed s = (ph s <=? 6) /\ cancelled s = (ph s <=? 3) /\ sclosed s = (ph s <=? 1);
    ic_ebuf : List.length (ebuf s) <= count is_exited (ws s);
    ic_prod : (closed s = true -> pend s = []) /\ List.length (sbuf s) <= 1 /\
              (sbuf s <> [] -> pend s = []) /\ ppolled s = false;
    ic_drained : ph s <= 2 -> closed s = true /\ buf s = [] }.

  Lemma InvC_init items : InvC (init c items).
  Proof.
    unfold init. rewrite Hinner, Houter. unfold inner_prog, outer_prog.
    constructor; unfold ph; simpl; auto; try (intros [|?] ? ?; discriminate); try discriminate; try lia.
    - apply is_suffix_refl.
    - split; auto; lia.
    - split; [discriminate|split; [lia|split; [congruence|auto]]].
  Qed.

  Lemma all_done_of_wg0 s k wk :
    InvC s -> wg s = 0 -> nth_error (ws s) k = Some wk -> w_st wk = WDone.
  Proof.
    intros I H0 Hn. rewrite (ic_wg s I) in H0.
    pose proof (count_zero_all _ _ _ _ H0 Hn) as E. unfold is_done in E.
    destruct (w_st wk); auto; discriminate.
  Qed.

  (* ---------------------------------------------------------------- main *)
  Ltac main_cases I Hm :=
    pose proof (ic_main _ I) as Hm; unfold prog, inner_prog, outer_prog in Hm; simpl in Hm; suffix_cases Hm.

  Ltac main_fin :=
    constructor; simpl; unfold ph; simpl; rewrite ?Houter; unfold outer_prog; simpl;
    match goal with Im : mainpc _ = _ |- _ => rewrite ?Im end; simpl; auto; try lia;
    try solve_suffix;
    try (split; [discriminate|]; intros _; match goal with Iws2 : _ -> List.length _ = _ |- _ => apply Iws2; lia end);
    try (intros _; match goal with Iwait : _ -> wg _ = 0 |- _ => apply Iwait; lia end);
    try (intros _; match goal with Idr : _ -> closed _ = true /\ _ |- _ => apply Idr; lia end).

  Lemma InvC_main s s' l : InvC s -> step_main c s = Some (s', l) -> InvC s'.
  Proof.
    intros I H.
    destruct I as [Inp Im Iwf Ics Imx Imid Iwg [Iws1 Iws2] Iwait (Ie & Ica & Isc) Ieb (Ip1 & Ip2 & Ip3 & Ip4) Idr].
    unfold prog, inner_prog, outer_prog in Im; simpl in Im. unfold step_main in H.
    unfold ph in *.
    suffix_cases Im; rewrite Im in *; simpl in *.
    - (* MAdd *)
      inversion H; subst; clear H. pose proof (Iws1 eq_refl) as Ews. rewrite Ews in *.
      constructor; simpl; unfold ph; simpl; rewrite ?Ews; simpl; auto; try lia.
      + solve_suffix.
      + intros k wk Hn. apply nth_error_repeat in Hn. subst. exact I.
      + intros k wk Hn. apply nth_error_repeat in Hn. subst. discriminate.
      + intros h Hh. destruct (Imx h Hh) as (wk & Hn & _). destruct h; discriminate.
      + intros k wk Hn. apply nth_error_repeat in Hn. subst. intros ?; discriminate.
      + unfold undone in *. rewrite count_repeat_true by reflexivity. simpl in Iwg. unfold count in Iwg; simpl in Iwg. lia.
      + split; [discriminate|]. intros _. now rewrite repeat_length.
      + rewrite count_repeat_false by reflexivity. unfold count in Ieb; simpl in Ieb. lia.
    - (* MWait *)
      destruct (wg s) eqn:Ewg; [|discriminate]. inversion H; subst; clear H. main_fin.
    - (* MClose *)
      rewrite Ie in H. simpl in H. inversion H; subst; clear H. main_fin.
    - (* MRecvErr *)
      rewrite Ie in H. simpl in H.
      destruct (ebuf s) eqn:Eeb; inversion H; subst; clear H; main_fin; rewrite Eeb; auto.
    - (* MSort *)
      inversion H; subst; clear H. main_fin.
    - (* MCancel *)
      inversion H; subst; clear H. main_fin.
    - (* MDrain *)
      destruct (buf s) as [|b r] eqn:Eb.
      + destruct (closed s) eqn:Ec; [|discriminate]. inversion H; subst; clear H. main_fin.
      + inversion H; subst; clear H. main_fin.
    - (* MCloseS *)
      rewrite Isc in H. simpl in H. inversion H; subst; clear H. main_fin.
    - (* MRecvS *)
      rewrite Isc in H. simpl in H.
      destruct (sbuf s) eqn:Esb; inversion H; subst; clear H; main_fin; rewrite ?Esb; auto.
    - (* done *) discriminate.
  Qed.

  (* ---------------------------------------------------------------- producer *)
  Lemma InvC_prod s s' l : InvC s -> step_prod c s = Some (s', l) -> InvC s'.
  Proof.
    intros I H.
    destruct I as [Inp Im Iwf Ics Imx Imid Iwg [Iws1 Iws2] Iwait (Ie & Ica & Isc) Ieb (Ip1 & Ip2 & Ip3 & Ip4) Idr].
    unfold step_prod in H. rewrite Hsel in H. simpl in H.
    destruct (pend s) as [|[b|] p] eqn:Ep.
    - destruct (closed s) eqn:Ec; [discriminate|]. inversion H; subst; clear H.
      constructor; simpl; auto.
      intros Hp. destruct (Idr Hp); congruence.
    - destruct (List.length (buf s) <? c_ccap c) eqn:El; [|discriminate]. inversion H; subst; clear H.
      constructor; simpl; auto.
      + repeat split; auto; intros Hx; [specialize (Ip1 Hx)|specialize (Ip3 Hx)]; discriminate.
      + intros Hp. destruct (Idr Hp) as [Hc _]. specialize (Ip1 Hc). discriminate.
    - assert (Hsc : sclosed s = false).
      { destruct (sclosed s) eqn:E; auto. symmetry in Isc. apply Nat.leb_le in Isc.
        assert (Hp : ph s <= 2) by lia. destruct (Idr Hp) as [Hc _]. specialize (Ip1 Hc). discriminate. }
      rewrite Hsc in H. destruct (List.length (sbuf s) <? 1) eqn:El; [|discriminate].
      inversion H; subst; clear H. apply Nat.ltb_lt in El.
      constructor; simpl; auto.
      + rewrite app_length. simpl. repeat split; auto. lia.
  Qed.

  Lemma InvC_prod_cancel s s' l : InvC s -> step_prod_cancel c s = Some (s', l) -> InvC s'.
  Proof.
    intros I H.
    destruct I as [Inp Im Iwf Ics Imx Imid Iwg [Iws1 Iws2] Iwait (Ie & Ica & Isc) Ieb (Ip1 & Ip2 & Ip3 & Ip4) Idr].
    unfold step_prod_cancel in H.
    destruct (pend s) as [|[b|] p] eqn:Ep; try discriminate.
    destruct (c_select c && cancelled s); [|discriminate]. inversion H; subst; clear H.
    constructor; simpl; auto.
  Qed.

  (* ---------------------------------------------------------------- workers *)
  (* a worker step changes the worker and some of buf/store/rc/ab/mutex/wg/ebuf *)
  Definition upd_sh (s : st) b st0 r a m g e : st :=
    mk_st (pend s) (ppolled s) b (closed s) (cancelled s) (sbuf s) (sclosed s) st0 r a m g e
          (eclosed s) (ws s) (mainpc s) (result s) (panicked s).

  Lemma worker_ph s k wk :
    InvC s -> nth_error (ws s) k = Some wk -> is_done wk = false -> 8 <= ph s.
  Proof.
    intros I Hk Hd. destruct (le_lt_dec 8 (ph s)); auto. exfalso.
    assert (H0 : wg s = 0) by (apply (ic_wait s I); lia).
    pose proof (all_done_of_wg0 s k wk I H0 Hk) as E. unfold is_done in Hd. rewrite E in Hd. discriminate.
  Qed.

  Lemma InvC_wupd s k wk wk' b st0 r a m g e :
    InvC s -> nth_error (ws s) k = Some wk ->
    wf_w wk' ->
    ((m = mutex s /\ in_cs wk' = in_cs wk) \/ (mutex s = None /\ m = Some k /\ in_cs wk' = true) \/
     (in_cs wk = true /\ m = None /\ in_cs wk' = false)) ->
    mid_ok_v r a wk' ->
    ((r = rc s /\ a = ab s) \/ in_cs wk = true) ->
    is_done wk = false -> g + (if is_done wk' then 1 else 0) = wg s ->
    List.length e + (if is_exited wk then 1 else 0) <= List.length (ebuf s) + (if is_exited wk' then 1 else 0) ->
    InvC (set_worker (upd_sh s b st0 r a m g e) k wk').
  Proof.
    intros I Hk Hwf Hm Hmid Hra Hd Hg He.
    pose proof (worker_ph s k wk I Hk Hd) as Hph.
    pose proof (nth_error_lt _ _ _ Hk) as Hlt.
    destruct I as [Inp Im Iwf Ics Imx Imid Iwg [Iws1 Iws2] Iwait (Ie & Ica & Isc) Ieb (Ip1 & Ip2 & Ip3 & Ip4) Idr].
    unfold ph in *.
    constructor; simpl; unfold ph; simpl; auto; try lia.
    - apply forall_set_nth; auto. intros; eauto.
    - apply (forall_set_nth (fun j wj => in_cs wj = true -> m = Some j)).
      + intros Hc. destruct Hm as [(-> & E)|[(_ & -> & _)|(_ & _ & E)]]; auto; try congruence.
        rewrite E in Hc. eauto.
      + intros j wj Hne Hj Hc. pose proof (Ics j wj Hj Hc) as Hmj.
        destruct Hm as [(-> & E)|[(E & _ & _)|(E & _ & _)]]; auto; try congruence.
        pose proof (Ics k wk Hk E). congruence.
    - intros h Hh. destruct Hm as [(-> & E)|[(_ & -> & E)|(_ & -> & _)]]; try discriminate.
      + destruct (Imx h Hh) as (wh & Hn & Hc). destruct (Nat.eq_dec h k) as [->|Hne].
        * exists wk'. rewrite set_nth_same by auto. split; auto. rewrite E. congruence.
        * exists wh. rewrite set_nth_other by auto. auto.
      + inversion Hh; subst. exists wk'. rewrite set_nth_same by auto. auto.
    - apply (forall_set_nth (fun j wj => mid_ok_v r a wj)); auto.
      intros j wj Hne Hj. specialize (Imid j wj Hj). destruct Hra as [(-> & ->)|Hc]; auto.
      intros Hcj. exfalso. pose proof (Ics j wj Hj Hcj). pose proof (Ics k wk Hk Hc). congruence.
    - unfold undone in *. pose proof (count_set_nth (fun wk => negb (is_done wk)) k wk' wk (ws s) Hk) as Hc.
      cbv beta in Hc. rewrite Hd in Hc. simpl in Hc. destruct (is_done wk'); simpl in *; lia.
    - rewrite set_nth_length. split; auto. intros; lia.
    - pose proof (count_set_nth is_exited k wk' wk (ws s) Hk) as Hc. lia.
  Qed.

End Pool.
