(** C16 - the worker pool: control invariant (mutual exclusion, no panic, counters),
    progress (no deadlock), termination measure. *)
From W.lib Require Import Tree.
From W.model Require Import Pool PoolSpec.
From W.proofs Require Import PoolBase_proofs.
From Coq Require Import Arith Lia ZifyNat ZifyN ZifyBool Sorting.Permutation.
Local Open Scope nat_scope.
Set Default Proof Using "All".

Definition is_done (wk : worker) : bool := match w_st wk with WDone => true | _ => false end.
Definition is_exited (wk : worker) : bool := match w_st wk with WDone | WExit => true | _ => false end.
Definition is_werr (wk : worker) : bool := match w_st wk with WErr _ => true | _ => false end.
Definition count {A} (f : A -> bool) (l : list A) : nat := List.length (filter f l).
Definition undone (l : list worker) : nat := count (fun wk => negb (is_done wk)) l.
Definition prog : list mact := inner_prog ++ outer_prog.
Definition ph (s : st) : nat := List.length (mainpc s).

Lemma count_app {A} (f : A -> bool) l1 l2 : count f (l1 ++ l2) = count f l1 + count f l2.
Proof. unfold count. now rewrite filter_app, app_length. Qed.
Lemma count_cons {A} (f : A -> bool) x l : count f (x :: l) = (if f x then 1 else 0) + count f l.
Proof. unfold count. simpl. destruct (f x); simpl; lia. Qed.
Lemma count_le {A} (f : A -> bool) l : count f l <= List.length l.
Proof. induction l; simpl; auto. rewrite count_cons. destruct (f a); simpl; lia. Qed.
Lemma count_repeat_false {A} (f : A -> bool) x n : f x = false -> count f (repeat x n) = 0.
Proof. intros H. induction n; simpl; auto. rewrite count_cons, H. auto. Qed.
Lemma count_repeat_true {A} (f : A -> bool) x n : f x = true -> count f (repeat x n) = n.
Proof. intros H. induction n; simpl; auto. rewrite count_cons, H. simpl. lia. Qed.

Lemma count_set_nth {A} (f : A -> bool) k x y l :
  nth_error l k = Some y ->
  count f (set_nth k x l) + (if f y then 1 else 0) = count f l + (if f x then 1 else 0).
Proof.
  intros H. destruct (set_nth_split k x y l H) as (l1 & l2 & -> & _ & ->).
  rewrite !count_app, !count_cons. lia.
Qed.

Lemma count_zero_all {A} (f : A -> bool) l k x :
  count f l = 0 -> nth_error l k = Some x -> f x = false.
Proof.
  intros H Hn. destruct (f x) eqn:E; auto.
  apply nth_error_split in Hn as (l1 & l2 & -> & _).
  rewrite count_app, count_cons, E in H. lia.
Qed.

Lemma count_lt {A} (f : A -> bool) l k x :
  nth_error l k = Some x -> f x = false -> count f l < List.length l.
Proof.
  intros Hn E. apply nth_error_split in Hn as (l1 & l2 & -> & _).
  rewrite count_app, count_cons, E, app_length. simpl.
  pose proof (count_le f l1). pose proof (count_le f l2). lia.
Qed.

Lemma count_pos {A} (f : A -> bool) l k x :
  nth_error l k = Some x -> f x = true -> 1 <= count f l.
Proof.
  intros Hn E. apply nth_error_split in Hn as (l1 & l2 & -> & _).
  rewrite count_app, count_cons, E. lia.
Qed.

Lemma forall_set_nth (P : nat -> worker -> Prop) k0 wk' l :
  P k0 wk' ->
  (forall k wk, k <> k0 -> nth_error l k = Some wk -> P k wk) ->
  forall k wk, nth_error (set_nth k0 wk' l) k = Some wk -> P k wk.
Proof.
  intros H0 Hr k wk Hn. destruct (Nat.eq_dec k k0) as [->|Hne].
  - assert (k0 < List.length l) by (rewrite <- (set_nth_length k0 wk'); eapply nth_error_lt; eauto).
    rewrite set_nth_same in Hn by auto. now inversion Hn; subst.
  - rewrite set_nth_other in Hn by auto. eauto.
Qed.

Lemma is_suffix_cons_r {A} (a : A) p l : is_suffix p l -> is_suffix p (a :: l).
Proof. intros [pre ->]. now exists (a :: pre). Qed.
Ltac solve_suffix :=
  unfold prog, inner_prog, outer_prog; simpl;
  repeat first [apply is_suffix_refl | apply is_suffix_cons_r].

Ltac suffix_cases H :=
  repeat (apply is_suffix_cons_inv in H; destruct H as [H|H]); [.. | apply is_suffix_nil_inv in H].

(* every (head, tail) position of the two admissible bodies *)
Definition cs_acts (f g : field) : list act := [ARead f; AWrite f; ARead g; AWrite g; AUnlock].

Lemma body_positions (b : list act) a pc :
  b = bodyA \/ b = bodyB -> is_suffix (a :: pc) b ->
  (a = ASaveBlk /\ exists f g, f <> g /\ pc = ASaveIdx :: ALock :: cs_acts f g) \/
  (a = ASaveIdx /\ exists f g, f <> g /\ pc = ALock :: cs_acts f g) \/
  (a = ALock /\ exists f g, f <> g /\ pc = cs_acts f g) \/
  (exists f g, f <> g /\ a = ARead f /\ pc = [AWrite f; ARead g; AWrite g; AUnlock]) \/
  (exists f g, f <> g /\ a = AWrite f /\ pc = [ARead g; AWrite g; AUnlock]) \/
  (exists g, a = ARead g /\ pc = [AWrite g; AUnlock]) \/
  (exists g, a = AWrite g /\ pc = [AUnlock]) \/
  (a = AUnlock /\ pc = []).
Proof.
  intros [-> | ->] H; unfold bodyA, bodyB, gen_body, accs_locked in H; simpl in H; suffix_cases H;
    try discriminate; inversion H; subst; clear H; unfold cs_acts.
  all: try (left; split; [reflexivity|]; (exists FRc, FAb + exists FAb, FRc); split; [discriminate|reflexivity]).
  all: try (right; left; split; [reflexivity|]; (exists FRc, FAb + exists FAb, FRc); split; [discriminate|reflexivity]).
  all: try (right; right; left; split; [reflexivity|]; (exists FRc, FAb + exists FAb, FRc); split; [discriminate|reflexivity]).
  all: try (right; right; right; left; (exists FRc, FAb + exists FAb, FRc); split; [discriminate|split; reflexivity]).
  all: try (right; right; right; right; left; (exists FRc, FAb + exists FAb, FRc); split; [discriminate|split; reflexivity]).
  all: try (right; right; right; right; right; left; eexists; split; reflexivity).
  all: try (right; right; right; right; right; right; left; eexists; split; reflexivity).
  all: try (right; right; right; right; right; right; right; split; reflexivity).
Qed.

Section Pool.
  Variable c : cfg.
  Hypothesis Hok : cfg_ok c.
  Let Hbody := ok_body c Hok.
  Let Hinner := ok_inner c Hok.
  Let Houter := ok_outer c Hok.
  Let Hsel := ok_sel c Hok.
  Let Hw := ok_w c Hok.
  Let Hecap := ok_ecap c Hok.
  Let Hccap := ok_ccap c Hok.

  Definition wf_w (wk : worker) : Prop :=
    match w_st wk with WBody pc _ => is_suffix pc (c_body c) /\ pc <> [] | _ => True end.

  (* between the read and the write of a field the value read is the current one *)
  Definition mid_ok_v (r : N) (a : list blk) (wk : worker) : Prop :=
    in_cs wk = true ->
    match w_st wk with
    | WBody (AWrite FRc :: _) _ => w_trc wk = r
    | WBody (AWrite FAb :: _) _ => w_tab wk = a
    | _ => True
    end.
  Definition mid_ok (s : st) (wk : worker) : Prop := mid_ok_v (rc s) (ab s) wk.

  Record InvC (s : st) : Prop := {
    ic_np : panicked s = false;
    ic_main : is_suffix (mainpc s) prog;
    ic_wf : forall k wk, nth_error (ws s) k = Some wk -> wf_w wk;
    ic_cs : forall k wk, nth_error (ws s) k = Some wk -> in_cs wk = true -> mutex s = Some k;
    ic_mx : forall h, mutex s = Some h -> exists wk, nth_error (ws s) h = Some wk /\ in_cs wk = true;
    ic_mid : forall k wk, nth_error (ws s) k = Some wk -> mid_ok s wk;
    ic_wg : wg s = undone (ws s);
    ic_ws : (ph s = 9 -> ws s = []) /\ (ph s <= 8 -> List.length (ws s) = c_w c);
    ic_wait : ph s <= 7 -> wg s = 0;
    ic_flags : eclosed s = (ph s <=? 6) /\ cancelled s = (ph s <=? 3) /\ sclosed s = (ph s <=? 1);
    ic_ebuf : List.length (ebuf s) <= count is_exited (ws s);
    ic_prod : (closed s = true -> pend s = []) /\ List.length (sbuf s) <= 1 /\
              (sbuf s <> [] -> pend s = []) /\ ppolled s = false;
    ic_drained : ph s <= 2 -> closed s = true /\ buf s = [] }.

  Lemma InvC_init items : InvC (init c items).
  Proof.
    unfold init. rewrite Hinner, Houter. unfold inner_prog, outer_prog.
    constructor; unfold ph; simpl; auto; try (intros [|?] ? ?; discriminate); try discriminate; try lia.
    - apply is_suffix_refl.
    - split; auto; lia.
    - split; [discriminate|split; [lia|split; [congruence|auto]]].
  Qed.

  Lemma all_done_of_wg0 s k wk :
    InvC s -> wg s = 0 -> nth_error (ws s) k = Some wk -> w_st wk = WDone.
  Proof.
    intros I H0 Hn. rewrite (ic_wg s I) in H0.
    pose proof (count_zero_all _ _ _ _ H0 Hn) as E. unfold is_done in E.
    destruct (w_st wk); auto; discriminate.
  Qed.

  (* ---------------------------------------------------------------- main *)
  Ltac main_cases I Hm :=
    pose proof (ic_main _ I) as Hm; unfold prog, inner_prog, outer_prog in Hm; simpl in Hm; suffix_cases Hm.

  Ltac main_fin :=
    constructor; simpl; unfold ph; simpl; rewrite ?Houter; unfold outer_prog; simpl;
    match goal with Im : mainpc _ = _ |- _ => rewrite ?Im end; simpl; auto; try lia;
    try solve_suffix;
    try (split; [discriminate|]; intros _; match goal with Iws2 : _ -> List.length _ = _ |- _ => apply Iws2; lia end);
    try (intros _; match goal with Iwait : _ -> wg _ = 0 |- _ => apply Iwait; lia end);
    try (intros _; match goal with Idr : _ -> closed _ = true /\ _ |- _ => apply Idr; lia end).

  Lemma InvC_main s s' l : InvC s -> step_main c s = Some (s', l) -> InvC s'.
  Proof.
    intros I H.
    destruct I as [Inp Im Iwf Ics Imx Imid Iwg [Iws1 Iws2] Iwait (Ie & Ica & Isc) Ieb (Ip1 & Ip2 & Ip3 & Ip4) Idr].
    unfold prog, inner_prog, outer_prog in Im; simpl in Im. unfold step_main in H.
    unfold ph in *.
    suffix_cases Im; rewrite Im in *; simpl in *.
    - (* MAdd *)
      inversion H; subst; clear H. pose proof (Iws1 eq_refl) as Ews. rewrite Ews in *.
      constructor; simpl; unfold ph; simpl; rewrite ?Ews; simpl; auto; try lia.
      + solve_suffix.
      + intros k wk Hn. apply nth_error_repeat in Hn. subst. exact I.
      + intros k wk Hn. apply nth_error_repeat in Hn. subst. discriminate.
      + intros h Hh. destruct (Imx h Hh) as (wk & Hn & _). destruct h; discriminate.
      + intros k wk Hn. apply nth_error_repeat in Hn. subst. intros ?; discriminate.
      + unfold undone in *. rewrite count_repeat_true by reflexivity. simpl in Iwg. unfold count in Iwg; simpl in Iwg. lia.
      + split; [discriminate|]. intros _. now rewrite repeat_length.
      + rewrite count_repeat_false by reflexivity. unfold count in Ieb; simpl in Ieb. lia.
    - (* MWait *)
      destruct (wg s) eqn:Ewg; [|discriminate]. inversion H; subst; clear H. main_fin.
    - (* MClose *)
      rewrite Ie in H. simpl in H. inversion H; subst; clear H. main_fin.
    - (* MRecvErr *)
      rewrite Ie in H. simpl in H.
      destruct (ebuf s) eqn:Eeb; inversion H; subst; clear H; main_fin; rewrite Eeb; auto.
    - (* MSort *)
      inversion H; subst; clear H. main_fin.
    - (* MCancel *)
      inversion H; subst; clear H. main_fin.
    - (* MDrain *)
      destruct (buf s) as [|b r] eqn:Eb.
      + destruct (closed s) eqn:Ec; [|discriminate]. inversion H; subst; clear H. main_fin.
      + inversion H; subst; clear H. main_fin.
    - (* MCloseS *)
      rewrite Isc in H. simpl in H. inversion H; subst; clear H. main_fin.
    - (* MRecvS *)
      rewrite Isc in H. simpl in H.
      destruct (sbuf s) eqn:Esb; inversion H; subst; clear H; main_fin; rewrite ?Esb; auto.
    - (* done *) discriminate.
  Qed.

  (* ---------------------------------------------------------------- producer *)
  Lemma InvC_prod s s' l : InvC s -> step_prod c s = Some (s', l) -> InvC s'.
  Proof.
    intros I H.
    destruct I as [Inp Im Iwf Ics Imx Imid Iwg [Iws1 Iws2] Iwait (Ie & Ica & Isc) Ieb (Ip1 & Ip2 & Ip3 & Ip4) Idr].
    unfold step_prod in H. rewrite Hsel in H. simpl in H.
    destruct (pend s) as [|[b|] p] eqn:Ep.
    - destruct (closed s) eqn:Ec; [discriminate|]. inversion H; subst; clear H.
      constructor; simpl; auto.
      intros Hp. destruct (Idr Hp); congruence.
    - destruct (List.length (buf s) <? c_ccap c) eqn:El; [|discriminate]. inversion H; subst; clear H.
      constructor; simpl; auto.
      + repeat split; auto; intros Hx; [specialize (Ip1 Hx)|specialize (Ip3 Hx)]; discriminate.
      + intros Hp. destruct (Idr Hp) as [Hc _]. specialize (Ip1 Hc). discriminate.
    - assert (Hsc : sclosed s = false).
      { destruct (sclosed s) eqn:E; auto. symmetry in Isc. apply Nat.leb_le in Isc.
        assert (Hp : ph s <= 2) by lia. destruct (Idr Hp) as [Hc _]. specialize (Ip1 Hc). discriminate. }
      rewrite Hsc in H. destruct (List.length (sbuf s) <? 1) eqn:El; [|discriminate].
      inversion H; subst; clear H. apply Nat.ltb_lt in El.
      constructor; simpl; auto.
      + rewrite app_length. simpl. repeat split; auto. lia.
  Qed.

  Lemma InvC_prod_cancel s s' l : InvC s -> step_prod_cancel c s = Some (s', l) -> InvC s'.
  Proof.
    intros I H.
    destruct I as [Inp Im Iwf Ics Imx Imid Iwg [Iws1 Iws2] Iwait (Ie & Ica & Isc) Ieb (Ip1 & Ip2 & Ip3 & Ip4) Idr].
    unfold step_prod_cancel in H.
    destruct (pend s) as [|[b|] p] eqn:Ep; try discriminate.
    destruct (c_select c && cancelled s); [|discriminate]. inversion H; subst; clear H.
    constructor; simpl; auto.
  Qed.

  (* ---------------------------------------------------------------- workers *)
  (* a worker step changes the worker and some of buf/store/rc/ab/mutex/wg/ebuf *)
  Definition upd_sh (s : st) b st0 r a m g e : st :=
    mk_st (pend s) (ppolled s) b (closed s) (cancelled s) (sbuf s) (sclosed s) st0 r a m g e
          (eclosed s) (ws s) (mainpc s) (result s) (panicked s).

  Lemma worker_ph s k wk :
    InvC s -> nth_error (ws s) k = Some wk -> is_done wk = false -> 8 <= ph s.
  Proof.
    intros I Hk Hd. destruct (le_lt_dec 8 (ph s)); auto. exfalso.
    assert (H0 : wg s = 0) by (apply (ic_wait s I); lia).
    pose proof (all_done_of_wg0 s k wk I H0 Hk) as E. unfold is_done in Hd. rewrite E in Hd. discriminate.
  Qed.

  Lemma InvC_wupd s k wk wk' b st0 r a m g e :
    InvC s -> nth_error (ws s) k = Some wk ->
    wf_w wk' ->
    ((m = mutex s /\ in_cs wk' = in_cs wk) \/ (mutex s = None /\ m = Some k /\ in_cs wk' = true) \/
     (in_cs wk = true /\ m = None /\ in_cs wk' = false)) ->
    mid_ok_v r a wk' ->
    ((r = rc s /\ a = ab s) \/ in_cs wk = true) ->
    is_done wk = false -> g + (if is_done wk' then 1 else 0) = wg s ->
    List.length e + (if is_exited wk then 1 else 0) <= List.length (ebuf s) + (if is_exited wk' then 1 else 0) ->
    InvC (set_worker (upd_sh s b st0 r a m g e) k wk').
  Proof.
    intros I Hk Hwf Hm Hmid Hra Hd Hg He.
    pose proof (worker_ph s k wk I Hk Hd) as Hph.
    pose proof (nth_error_lt _ _ _ Hk) as Hlt.
    destruct I as [Inp Im Iwf Ics Imx Imid Iwg [Iws1 Iws2] Iwait (Ie & Ica & Isc) Ieb (Ip1 & Ip2 & Ip3 & Ip4) Idr].
    unfold ph in *.
    constructor; simpl; unfold ph; simpl.
    - assumption.
    - assumption.
    - apply forall_set_nth; auto. intros; eauto.
    - apply (forall_set_nth (fun j wj => in_cs wj = true -> m = Some j)).
      + intros Hc. destruct Hm as [(-> & E)|[(_ & -> & _)|(_ & _ & E)]]; auto; try congruence.
        rewrite E in Hc. eauto.
      + intros j wj Hne Hj Hc. pose proof (Ics j wj Hj Hc) as Hmj.
        destruct Hm as [(-> & E)|[(E & _ & _)|(E & _ & _)]]; auto; try congruence.
        pose proof (Ics k wk Hk E). congruence.
    - intros h Hh. destruct Hm as [(-> & E)|[(_ & -> & E)|(_ & -> & _)]]; try discriminate.
      + destruct (Imx h Hh) as (wh & Hn & Hc). destruct (Nat.eq_dec h k) as [->|Hne].
        * exists wk'. rewrite set_nth_same by auto. split; auto. rewrite E. congruence.
        * exists wh. rewrite set_nth_other by auto. auto.
      + inversion Hh; subst. exists wk'. rewrite set_nth_same by auto. auto.
    - apply (forall_set_nth (fun j wj => mid_ok_v r a wj)); auto.
      intros j wj Hne Hj. specialize (Imid j wj Hj). destruct Hra as [(-> & ->)|Hc]; auto.
      intros Hcj. exfalso. pose proof (Ics j wj Hj Hcj). pose proof (Ics k wk Hk Hc). congruence.
    - unfold undone in *. pose proof (count_set_nth (fun wk => negb (is_done wk)) k wk' wk (ws s) Hk) as Hc.
      cbv beta in Hc. rewrite Hd in Hc. simpl in Hc. clear - Hc Hg Iwg. destruct (is_done wk'); simpl in *; lia.
    - rewrite set_nth_length. split; auto. intros E9. rewrite (Iws1 E9) in Hlt. simpl in Hlt. clear - Hlt. lia.
    - intros. clear - H Hph. lia.
    - auto.
    - pose proof (count_set_nth is_exited k wk' wk (ws s) Hk) as Hc. clear - Hc He Ieb. lia.
    - auto.
    - intros. clear - H Hph. lia.
  Qed.

  Lemma body_nonempty : exists a r, c_body c = a :: r /\ pc_in_cs (c_body c) = false.
  Proof. destruct Hbody as [E | E]; rewrite E; do 2 eexists; split; reflexivity. Qed.

  Lemma next_st_in_cs pc cur trc tab :
    in_cs (mk_worker (next_st pc cur) trc tab) = pc_in_cs pc.
  Proof. destruct pc; reflexivity. Qed.

  Lemma next_st_wf a pc cur trc tab :
    is_suffix (a :: pc) (c_body c) -> wf_w (mk_worker (next_st pc cur) trc tab).
  Proof.
    intros H. destruct pc; unfold wf_w; simpl; auto. split; [|discriminate].
    eapply is_suffix_tail; eauto.
  Qed.

  Ltac wfin :=
    simpl; auto; try lia;
    try solve [ unfold wf_w; simpl; auto
              | unfold mid_ok_v, in_cs; simpl; auto; try (intros ?; discriminate)
              | match goal with Hnwf : forall _ _, _ -> wf_w _ |- _ => now apply Hnwf end
              | rewrite app_length; simpl; lia ].

  Lemma InvC_worker k s s' l : InvC s -> step_worker c k s = Some (s', l) -> InvC s'.
  Proof.
    intros I H. unfold step_worker in H.
    destruct (nth_error (ws s) k) as [wk|] eqn:Hk; [|discriminate].
    pose proof (ic_wf s I k wk Hk) as Hwf. unfold wf_w in Hwf.
    destruct wk as [stt trc tab]; simpl in *.
    destruct stt as [|pc cur|cur| |].
    - (* WLoop *)
      destruct (buf s) as [|b r] eqn:Eb.
      + destruct (closed s); [|discriminate]. inversion H; subst; clear H.
        apply (InvC_wupd s k _ _ (buf s) (store s) (rc s) (ab s) (mutex s) (wg s) (ebuf s) I Hk);
          wfin.
      + inversion H; subst; clear H.
        destruct body_nonempty as (a0 & r0 & Eb0 & Ecs).
        rewrite Eb0. simpl next_st.
        assert (Hwf0 : wf_w (mk_worker (WBody (a0 :: r0) b) trc tab)).
        { unfold wf_w; simpl. rewrite Eb0. split; [apply is_suffix_refl|discriminate]. }
        assert (Hcs0 : in_cs (mk_worker (WBody (a0 :: r0) b) trc tab) = false) by (rewrite Eb0 in Ecs; exact Ecs).
        apply (InvC_wupd s k _ _ r (store s) (rc s) (ab s) (mutex s) (wg s) (ebuf s) I Hk); auto; try (intros ?; congruence); simpl; try lia.
    - (* WBody *)
      destruct pc as [|a pc]; [discriminate|]. destruct Hwf as [Hsuf _].
      pose proof (next_st_wf a pc cur) as Hnwf.
      pose proof (ic_cs s I k _ Hk) as Hcs. pose proof (ic_mid s I k _ Hk) as Hmid.
      unfold in_cs, mid_ok, mid_ok_v, in_cs in *; simpl in *.
      destruct (body_positions _ a pc Hbody Hsuf) as
        [(-> & f & g & Hfg & ->)|[(-> & f & g & Hfg & ->)|[(-> & f & g & Hfg & ->)|[(f & g & Hfg & -> & ->)|
         [(f & g & Hfg & -> & ->)|[(g & -> & ->)|[(g & -> & ->)|(-> & ->)]]]]]]].
      + (* SaveBlk *)
        destruct (b_fail cur); inversion H; subst; clear H;
        (apply (InvC_wupd s k _ _ (buf s) _ (rc s) (ab s) (mutex s) (wg s) (ebuf s) I Hk);
          wfin).
      + (* SaveIdx *)
        destruct (b_fail cur); inversion H; subst; clear H;
        (apply (InvC_wupd s k _ _ (buf s) _ (rc s) (ab s) (mutex s) (wg s) (ebuf s) I Hk);
          wfin).
      + (* Lock *)
        destruct (mutex s) eqn:Em; [discriminate|]. inversion H; subst; clear H.
        apply (InvC_wupd s k _ _ (buf s) (store s) (rc s) (ab s) (Some k) (wg s) (ebuf s) I Hk);
          wfin.
      + (* Read f, first *)
        destruct f; inversion H; subst; clear H;
        (apply (InvC_wupd s k _ _ (buf s) (store s) (rc s) (ab s) (mutex s) (wg s) (ebuf s) I Hk);
          wfin).
      + (* Write f, first *)
        destruct f; inversion H; subst; clear H;
        (apply (InvC_wupd s k _ _ (buf s) (store s) _ _ (mutex s) (wg s) (ebuf s) I Hk);
          wfin).
      + (* Read g, second *)
        destruct g; inversion H; subst; clear H;
        (apply (InvC_wupd s k _ _ (buf s) (store s) (rc s) (ab s) (mutex s) (wg s) (ebuf s) I Hk);
          wfin).
      + (* Write g, second *)
        destruct g; inversion H; subst; clear H;
        (apply (InvC_wupd s k _ _ (buf s) (store s) _ _ (mutex s) (wg s) (ebuf s) I Hk);
          wfin).
      + (* Unlock *)
        rewrite (Hcs eq_refl) in H. inversion H; subst; clear H.
        apply (InvC_wupd s k _ _ (buf s) (store s) (rc s) (ab s) None (wg s) (ebuf s) I Hk);
          wfin.
    - (* WErr *)
      assert (Hph : 8 <= ph s) by (eapply worker_ph; eauto).
      destruct (ic_flags s I) as (Ie & _). rewrite Ie in H.
      replace (ph s <=? 6) with false in H by (symmetry; apply Nat.leb_gt; lia).
      destruct (List.length (ebuf s) <? c_ecap c); [|discriminate]. inversion H; subst; clear H.
      apply (InvC_wupd s k _ _ (buf s) (store s) (rc s) (ab s) (mutex s) (wg s) _ I Hk);
        wfin.
    - (* WExit *)
      assert (Hg : 1 <= wg s).
      { rewrite (ic_wg s I). unfold undone. eapply count_pos; eauto. }
      destruct (wg s) as [|n] eqn:Eg; [lia|]. inversion H; subst; clear H.
      apply (InvC_wupd s k _ _ (buf s) (store s) (rc s) (ab s) (mutex s) n (ebuf s) I Hk);
        wfin.
    - discriminate.
  Qed.

  Theorem InvC_step t s s' l : InvC s -> step c t s = Some (s', l) -> InvC s'.
  Proof.
    intros I H. unfold step in H. rewrite (ic_np s I) in H.
    destruct t as [|[|[|k]]].
    - eapply InvC_main; eauto.
    - eapply InvC_prod; eauto.
    - eapply InvC_prod_cancel; eauto.
    - eapply InvC_worker; eauto.
  Qed.

  Lemma InvC_execs items tr s : execs c (init c items) tr s -> InvC s.
  Proof.
    intros E. eapply (execs_inv c InvC); eauto.
    - intros. eapply InvC_step; eauto.
    - apply InvC_init.
  Qed.

  (* ---------------------------------------------------------------- progress *)
  Lemma step_main_enabled s s' l : InvC s -> step_main c s = Some (s', l) -> enabled c s.
  Proof. intros I H. exists 0, s', l. unfold step. now rewrite (ic_np s I). Qed.
  Lemma step_prod_enabled s s' l : InvC s -> step_prod c s = Some (s', l) -> enabled c s.
  Proof. intros I H. exists 1, s', l. unfold step. now rewrite (ic_np s I). Qed.
  Lemma step_worker_enabled k s s' l : InvC s -> step_worker c k s = Some (s', l) -> enabled c s.
  Proof. intros I H. exists (S (S (S k))), s', l. unfold step. now rewrite (ic_np s I). Qed.

  Lemma prod_enabled s :
    InvC s -> closed s = false -> buf s = [] -> 2 <= ph s -> exists s' l, step_prod c s = Some (s', l).
  Proof.
    intros I Hc Hb Hp. unfold step_prod. rewrite Hsel, Hb, Hc. simpl.
    destruct (ic_prod s I) as (_ & Hs1 & Hs2 & _). destruct (ic_flags s I) as (_ & _ & Hsc).
    destruct (pend s) as [|[b|] p] eqn:Ep.
    - eauto.
    - replace (0 <? c_ccap c) with true by (symmetry; apply Nat.ltb_lt; lia). eauto.
    - rewrite Hsc. replace (ph s <=? 1) with false by (symmetry; apply Nat.leb_gt; lia).
      destruct (sbuf s) as [|x r]; simpl; eauto. specialize (Hs2 ltac:(discriminate)). discriminate.
  Qed.

  Lemma count_pos_ex {A} (f : A -> bool) l : count f l <> 0 -> exists k x, nth_error l k = Some x /\ f x = true.
  Proof.
    induction l as [|y l IH]; intros H; [now destruct H|].
    rewrite count_cons in H. destruct (f y) eqn:E.
    - exists 0, y. auto.
    - destruct (IH H) as (k & x & Hk & Hx). exists (S k), x. auto.
  Qed.

  Lemma workers_progress s : InvC s -> ph s = 8 -> wg s <> 0 -> enabled c s.
  Proof.
    intros I Hp Hg.
    destruct (mutex s) as [h|] eqn:Em.
    - (* the holder can run *)
      destruct (ic_mx s I h Em) as (wk & Hk & Hcs).
      pose proof (ic_wf s I h wk Hk) as Hwf. unfold wf_w, in_cs in *.
      destruct wk as [stt trc tab]; simpl in *. destruct stt as [|pc cur|? | |]; try discriminate.
      destruct pc as [|a pc]; [discriminate|]. destruct Hwf as [Hsuf _].
      destruct (body_positions _ a pc Hbody Hsuf) as
        [(-> & f & g & Hfg & ->)|[(-> & f & g & Hfg & ->)|[(-> & f & g & Hfg & ->)|[(f & g & Hfg & -> & ->)|
         [(f & g & Hfg & -> & ->)|[(g & -> & ->)|[(g & -> & ->)|(-> & ->)]]]]]]]; simpl in Hcs; try discriminate;
      try (destruct f); try (destruct g);
      (eapply (step_worker_enabled h); [exact I|]; unfold step_worker; rewrite Hk; simpl; rewrite ?Em; reflexivity).
    - rewrite (ic_wg s I) in Hg. destruct (count_pos_ex _ _ Hg) as (k & wk & Hk & Hu).
      pose proof (ic_wf s I k wk Hk) as Hwf. unfold wf_w in *.
      destruct wk as [stt trc tab]; simpl in *. unfold is_done in Hu; simpl in Hu.
      destruct stt as [|pc cur|cur| |]; try discriminate.
      + (* WLoop *)
        destruct (buf s) as [|b r] eqn:Eb.
        * destruct (closed s) eqn:Ec.
          -- eapply (step_worker_enabled k); [exact I|]. unfold step_worker. rewrite Hk, Eb, Ec. reflexivity.
          -- destruct (prod_enabled s I Ec Eb ltac:(lia)) as (s' & l & H). eapply step_prod_enabled; eauto.
        * eapply (step_worker_enabled k); [exact I|]. unfold step_worker. rewrite Hk, Eb. reflexivity.
      + destruct pc as [|a pc]; [destruct Hwf; congruence|].
        destruct a as [| | | |[]|[]]; try (destruct (b_fail cur) eqn:Ef);
          (eapply (step_worker_enabled k); [exact I|]; unfold step_worker; rewrite Hk; simpl; rewrite ?Em, ?Ef; reflexivity).
      + destruct (ic_flags s I) as (Ie & _).
        assert (Hl : List.length (ebuf s) < c_ecap c).
        { pose proof (ic_ebuf s I). pose proof (count_lt is_exited _ _ _ Hk eq_refl).
          destruct (ic_ws s I) as [_ Hws]. rewrite Hws in * by lia. lia. }
        eapply (step_worker_enabled k); [exact I|]. unfold step_worker. rewrite Hk. simpl.
        rewrite Ie, Hp. simpl. apply Nat.ltb_lt in Hl. rewrite Hl. reflexivity.
      + destruct (wg s) eqn:Eg;
          (eapply (step_worker_enabled k); [exact I|]; unfold step_worker; rewrite Hk; simpl; rewrite Eg; reflexivity).
  Qed.

  Lemma main_enabled s : InvC s -> step_main c s <> None -> enabled c s.
  Proof.
    intros I H. destruct (step_main c s) as [[s' l]|] eqn:E; [|congruence].
    eapply step_main_enabled; eauto.
  Qed.

  (** no deadlock: until the caller has returned, some thread can take a step *)
  Theorem progress s : InvC s -> main_done s = false -> enabled c s.
  Proof.
    intros I Hd.
    pose proof (ic_main s I) as Im. unfold prog, inner_prog, outer_prog in Im; simpl in Im.
    destruct (ic_flags s I) as (Ie & Ica & Isc). unfold ph in *.
    suffix_cases Im.
    - apply main_enabled; auto. unfold step_main. rewrite Im. discriminate.
    - destruct (wg s) eqn:Eg.
      + apply main_enabled; auto. unfold step_main. rewrite Im, Eg. discriminate.
      + apply workers_progress; auto. unfold ph. now rewrite Im. congruence.
    - apply main_enabled; auto. unfold step_main. rewrite Im. destruct (eclosed s); discriminate.
    - apply main_enabled; auto. unfold step_main. rewrite Im, Ie, Im. simpl. destruct (ebuf s); discriminate.
    - apply main_enabled; auto. unfold step_main. rewrite Im. discriminate.
    - apply main_enabled; auto. unfold step_main. rewrite Im. discriminate.
    - destruct (buf s) as [|b r] eqn:Eb.
      + destruct (closed s) eqn:Ec.
        * apply main_enabled; auto. unfold step_main. rewrite Im, Eb, Ec. discriminate.
        * destruct (prod_enabled s I Ec Eb) as (s' & l & H). { unfold ph. rewrite Im. simpl. lia. }
          eapply step_prod_enabled; eauto.
      + apply main_enabled; auto. unfold step_main. rewrite Im, Eb. discriminate.
    - apply main_enabled; auto. unfold step_main. rewrite Im. destruct (sclosed s); discriminate.
    - apply main_enabled; auto. unfold step_main. rewrite Im, Isc, Im. simpl. destruct (sbuf s); discriminate.
    - unfold main_done in Hd. rewrite Im in Hd. discriminate.
  Qed.

End Pool.

(* ---------------------------------------------------------------- termination measure *)
Section Measure.
  Variable c : cfg.
  Hypothesis Houter2 : Forall (fun a => m_cost c a = 2) (c_outer c).

  Definition wsum (l : list worker) : nat := fold_right (fun wk a => w_cost wk + a) 0 l.
  Definition msum (l : list mact) : nat := fold_right (fun a n => m_cost c a + n) 0 l.

  Lemma wsum_app l1 l2 : wsum (l1 ++ l2) = wsum l1 + wsum l2.
  Proof. induction l1; simpl; auto. unfold wsum in *. simpl. rewrite IHl1. lia. Qed.
  Lemma wsum_set_nth k x y l : nth_error l k = Some y -> wsum (set_nth k x l) + w_cost y = wsum l + w_cost x.
  Proof.
    intros H. destruct (set_nth_split k x y l H) as (l1 & l2 & -> & _ & ->).
    rewrite !wsum_app. unfold wsum; simpl. lia.
  Qed.
  Lemma wsum_repeat n : wsum (repeat worker0 n) = 3 * n.
  Proof. induction n; simpl; auto. unfold wsum in *; simpl. rewrite IHn. lia. Qed.
  Lemma msum_two l : Forall (fun a => m_cost c a = 2) l -> msum l = 2 * List.length l.
  Proof.
    induction 1 as [|a l Ha _ IH]; simpl; auto. unfold msum in *; simpl. rewrite Ha, IH. lia.
  Qed.
  Lemma msum_outer : msum (c_outer c) = 2 * List.length (c_outer c).
  Proof. apply msum_two, Houter2. Qed.
  Lemma m_cost_ge a : 2 <= m_cost c a.
  Proof. destruct a; simpl; lia. Qed.

  Lemma next_st_cost pc cur trc tab : w_cost (mk_worker (next_st pc cur) trc tab) = 3 + List.length pc.
  Proof. destruct pc; reflexivity. Qed.

  (** every step strictly decreases the measure: no execution is infinite *)
  Theorem measure_decreases t s s' l : step c t s = Some (s', l) -> measure c s' < measure c s.
  Proof.
    unfold step. destruct (panicked s) eqn:Ep; [discriminate|].
    destruct t as [|[|[|k]]]; intros H.
    - (* main *)
      unfold step_main in H. destruct (mainpc s) as [|a pc] eqn:Em; [discriminate|].
      unfold measure. rewrite Em, Ep.
      destruct a; simpl in H.
      + inversion H; subst; clear H. simpl. rewrite Ep. fold (wsum (ws s ++ repeat worker0 (c_w c))).
        rewrite wsum_app, wsum_repeat. fold (wsum (ws s)). fold (msum pc). lia.
      + destruct (wg s); [|discriminate]. inversion H; subst; clear H. simpl. rewrite Ep. fold (msum pc). lia.
      + destruct (eclosed s); inversion H; subst; clear H; simpl; rewrite ?Ep, ?Em; simpl; fold (msum pc); lia.
      + assert (Hs : (mainpc s' = c_outer c \/ mainpc s' = pc) /\ pend s' = pend s /\ closed s' = closed s /\
                     ppolled s' = ppolled s /\ buf s' = buf s /\ ws s' = ws s /\ panicked s' = false).
        { destruct (ebuf s); [destruct (eclosed s); [|discriminate]|]; inversion H; subst; simpl; rewrite Ep; auto 10. }
        destruct Hs as (Hm & -> & -> & -> & -> & -> & ->). simpl. fold (msum pc). fold (msum (mainpc s')).
        destruct Hm as [-> | ->]; [rewrite msum_outer|]; lia.
      + inversion H; subst; clear H. simpl. rewrite Ep. fold (msum pc). lia.
      + inversion H; subst; clear H. simpl. rewrite Ep. fold (msum pc). lia.
      + destruct (buf s) as [|b r] eqn:Eb.
        * destruct (closed s) eqn:Ec; [|discriminate]. inversion H; subst; clear H. simpl.
          rewrite Ep, Eb, Ec. simpl. fold (msum pc). lia.
        * inversion H; subst; clear H. simpl. rewrite Ep, Em. simpl. fold (msum pc). lia.
      + destruct (sclosed s); inversion H; subst; clear H; simpl; rewrite ?Ep, ?Em; simpl; fold (msum pc); lia.
      + assert (Hs : mainpc s' = pc /\ pend s' = pend s /\ closed s' = closed s /\
                     ppolled s' = ppolled s /\ buf s' = buf s /\ ws s' = ws s /\ panicked s' = false).
        { destruct (sbuf s); [destruct (sclosed s); [|discriminate]|]; inversion H; subst; simpl; rewrite Ep; auto 10. }
        destruct Hs as (-> & -> & -> & -> & -> & -> & ->). simpl. fold (msum pc). lia.
    - (* producer *)
      unfold step_prod in H. unfold measure. rewrite Ep.
      destruct (pend s) as [|[b|] p] eqn:Epd.
      + destruct (closed s) eqn:Ec; [discriminate|]. inversion H; subst; clear H. simpl. rewrite Ep. lia.
      + destruct (c_select c || ppolled s) eqn:Esel.
        * destruct (List.length (buf s) <? c_ccap c); [|discriminate]. inversion H; subst; clear H.
          simpl. rewrite Ep, app_length. simpl. destruct (ppolled s); lia.
        * apply orb_false_iff in Esel as [_ Epp]. rewrite Epp.
          destruct (cancelled s); inversion H; subst; clear H; simpl; rewrite ?Ep, ?Epp, ?Epd; simpl; lia.
      + destruct (sclosed s).
        * inversion H; subst; clear H. simpl. rewrite Epd. simpl. lia.
        * destruct (List.length (sbuf s) <? 1); [|discriminate]. inversion H; subst; clear H. simpl. rewrite Ep. lia.
    - (* producer, ctx.Done *)
      unfold step_prod_cancel in H. unfold measure. rewrite Ep.
      destruct (pend s) as [|[b|] p] eqn:Epd; try discriminate.
      destruct (c_select c && cancelled s); [|discriminate]. inversion H; subst; clear H. simpl. rewrite Ep. lia.
    - (* worker *)
      unfold step_worker in H.
      destruct (nth_error (ws s) k) as [wk|] eqn:Hk; [|discriminate].
      assert (Hpanic : measure c (set_panic s) < measure c s).
      { unfold measure. simpl. rewrite Ep. lia. }
      assert (Hgen : forall s0 wk',
                  pend s0 = pend s -> closed s0 = closed s -> ppolled s0 = ppolled s ->
                  ws s0 = ws s -> mainpc s0 = mainpc s -> panicked s0 = false ->
                  List.length (buf s0) * (List.length (c_body c) + 2) + w_cost wk' <
                  List.length (buf s) * (List.length (c_body c) + 2) + w_cost wk ->
                  measure c (set_worker s0 k wk') < measure c s).
      { intros s0 wk' E1 E2 E3 E5 E6 E7 Hc. unfold measure. simpl. rewrite E1, E2, E3, E5, E6, E7, Ep.
        pose proof (wsum_set_nth k wk' _ _ Hk) as Hw. unfold wsum in Hw.
        remember (fold_right (fun wk a => w_cost wk + a) 0 (set_nth k wk' (ws s))) as X1.
        remember (fold_right (fun wk a => w_cost wk + a) 0 (ws s)) as X2.
        remember (fold_right (fun i a => item_cost (List.length (c_body c)) i + a) 0 (pend s)) as X3.
        remember (fold_right (fun a n => m_cost c a + n) 0 (mainpc s)) as X4.
        clear - Hw Hc. lia. }
      destruct wk as [stt trc tab]; simpl in H.
      destruct stt as [|pc cur|cur| |].
      + destruct (buf s) as [|b r] eqn:Eb.
        * destruct (closed s) eqn:Ec; [|discriminate]. inversion H; subst; clear H.
          apply Hgen; simpl; auto. rewrite Eb. unfold w_cost; simpl. lia.
        * inversion H; subst; clear H.
          apply Hgen; simpl; auto. rewrite next_st_cost. unfold w_cost; simpl. lia.
      + destruct pc as [|a pc]; [discriminate|].
        destruct a as [| | | |[]|[]]; simpl in H;
          try (destruct (b_fail cur)); try (destruct (mutex s)); try discriminate;
          inversion H; subst; clear H; auto;
          (apply Hgen; simpl; auto; rewrite ?next_st_cost; unfold w_cost; simpl; lia).
      + destruct (eclosed s).
        * inversion H; subst; clear H. auto.
        * destruct (List.length (ebuf s) <? c_ecap c); [|discriminate]. inversion H; subst; clear H.
          apply Hgen; simpl; auto. unfold w_cost; simpl. lia.
      + destruct (wg s).
        * inversion H; subst; clear H. auto.
        * inversion H; subst; clear H. apply Hgen; simpl; auto. unfold w_cost; simpl. lia.
      + discriminate.
  Qed.

  Lemma execs_length s tr s' : execs c s tr s' -> List.length tr + measure c s' <= measure c s.
  Proof.
    induction 1; simpl; auto. rewrite app_length. simpl.
    pose proof (measure_decreases _ _ _ _ H0). lia.
  Qed.
End Measure.
