(** (i) prune.childrenFirst vs [children_first] of model/Prune.v (C12). *)
From Coq Require Import List ZArith NArith Bool String Lia Arith.
From W.lib Require Import Tree Bytes GoLang.
From W.gen Require Import ExtractedCode.
From W.model Require Import PruneRepo Prune.
From W.proofs Require Import Prune_proofs PruneOrder_proofs.
From W.proofs Require GoCode_ChildrenFirst_proofs.
From W.proofs Require Import GoCode_ChildrenFirstModels_proofs.
Import ListNotations.
Local Open Scope Z_scope.

Lemma Neqb_spec a b : N.eqb a b = true <-> a = b.
Proof. apply N.eqb_eq. Qed.

Section P.
  Variable cm : list (N * commit).
  Variable cs : list N.
  Hypothesis cs_nodup : NoDup cs.

  Definition rawP (c : N) : option (list N) := option_map c_parents (get cm c).
  Notation gcfp := (cfp N N.eqb rawP cs).

  Lemma cfp_eq c : gcfp c = cf_parents cm cs c.
  Proof. unfold cfp, cf_parents, rawP. destruct (get cm c); reflexivity. Qed.

  Lemma cnt_count x l : cnt N N.eqb x l = count_occ N.eq_dec l x.
  Proof.
    unfold cnt. induction l as [|y l IH]; [reflexivity|]. cbn [filter count_occ].
    destruct (N.eq_dec y x) as [->|Hne].
    - rewrite N.eqb_refl. cbn [length]. now rewrite IH.
    - replace (x =? y)%N with false by (symmetry; apply N.eqb_neq; congruence). exact IH.
  Qed.

  Definition Rz (pend : list (N * Z)) (pg : N -> Z) : Prop := forall k, Prune.getz pend k = pg k.

  Lemma pend0_R : Rz (cf_count cm cs) (g_pend0 N N.eqb rawP cs).
  Proof.
    intros x. rewrite (cf_count_spec cm cs). unfold g_pend0. rewrite cnt_count.
    f_equal. f_equal. apply flat_map_ext. intros c. symmetry. apply cfp_eq.
  Qed.

  Lemma dec_R ps : forall pend pg q, Rz pend pg ->
    Rz (fst (Prune.cf_dec ps pend q)) (fst (g_dec N N.eqb ps (pg, q))) /\
    snd (Prune.cf_dec ps pend q) = snd (g_dec N N.eqb ps (pg, q)).
  Proof.
    induction ps as [|p ps IH]; intros pend pg q HR; cbn [Prune.cf_dec g_dec fst snd]; [auto|].
    rewrite (HR p). apply IH.
    intros k. rewrite get_setz. unfold g_upd. rewrite (N.eqb_sym k p), (HR k). reflexivity.
  Qed.

  Lemma loop_R f : forall pend pg q res, Rz pend pg ->
    Prune.cf_loop f cm cs pend q res = g_loop N N.eqb rawP cs f pg q res.
  Proof.
    induction f as [|f IH]; intros pend pg q res HR; cbn [Prune.cf_loop g_loop]; [reflexivity|].
    destruct q as [|s q']; [reflexivity|].
    rewrite cfp_eq.
    destruct (dec_R (cf_parents cm cs s) pend pg q' HR) as [D1 D2].
    destruct (Prune.cf_dec (cf_parents cm cs s) pend q') as [pend' q''] eqn:E. cbn [fst snd] in *.
    rewrite D2. apply IH. exact D1.
  Qed.

  Lemma children_first_g : children_first cm cs = g_cf N N.eqb rawP cs.
  Proof.
    unfold children_first, g_cf. rewrite (loop_R _ _ _ _ _ pend0_R). f_equal.
    apply filter_ext. intros c. now rewrite (pend0_R c).
  Qed.

  (** the translated Go code computes the model, for every injective encoding of the commit
      ids as byte strings and every store whose GetCommit agrees with the model's commit map *)
  Theorem go_childrenFirst_prune (enc : N -> bytes) (par : bytes -> option (list bytes)) out :
    (forall a b, enc a = enc b -> a = b) ->
    (forall c, In c cs -> par (enc c) = option_map (fun co => map enc (c_parents co)) (get cm c)) ->
    children_first cm cs = Some out ->
    2 * Z.of_nat (length (flat_map (cf_parents cm cs) cs)) < 2 ^ 62 ->
    exists fuel, run_func fuel (with_oracle go_prog (GoCode_ChildrenFirst_proofs.cf_oracle par))
                          go_childrenFirst [VNil; v_strs (map enc cs)]
                 = FOk [v_strs (map enc out)] [].
  Proof.
    intros Hinj Hpar Hout HT.
    destruct (children_first_spec cm cs cs_nodup) as (out' & E & Hnd & Hincl & _).
    rewrite Hout in E. inversion E; subst out'.
    apply (code_of_g N N.eqb Neqb_spec enc Hinj rawP par cs cs_nodup).
    - intros c Hc. rewrite (Hpar c Hc). unfold rawP. destruct (get cm c); reflexivity.
    - rewrite <- children_first_g. exact Hout.
    - exact Hnd.
    - exact Hincl.
    - erewrite flat_map_ext; [exact HT|]. intros c. apply cfp_eq.
  Qed.
End P.
