(** Lemmas about model/Ancestor.v: IsAncestorOf and SeekCommonAncestor, for ANY
    placement [ins] / initial ordering [srt] that are permutations. *)
From W.lib Require Import GoSort.
From W.model Require Import Graph Queue Ancestor.
From W.proofs Require Import Graph_proofs Queue_proofs.
From Coq Require Import List NArith ZArith Bool Arith Lia Permutation.
Import ListNotations.

(* ====================================================================== *)
(** * subsequences *)
Inductive subseq {A : Type} : list A -> list A -> Prop :=
| sub_nil : subseq [] []
| sub_keep : forall x l1 l2, subseq l1 l2 -> subseq (x :: l1) (x :: l2)
| sub_skip : forall x l1 l2, subseq l1 l2 -> subseq l1 (x :: l2).

Lemma subseq_refl : forall (A : Type) (l : list A), subseq l l.
Proof. induction l; constructor; auto. Qed.

Lemma subseq_trans : forall (A : Type) (l1 l2 l3 : list A),
  subseq l1 l2 -> subseq l2 l3 -> subseq l1 l3.
Proof.
  intros A l1 l2 l3 H12 H23. revert l1 H12.
  induction H23 as [|x l2 l3 H IH|x l2 l3 H IH]; intros l1 H12.
  - exact H12.
  - inversion H12; subst.
    + apply sub_keep. now apply IH.
    + apply sub_skip. now apply IH.
  - apply sub_skip. now apply IH.
Qed.

Lemma subseq_filter : forall (A : Type) (f : A -> bool) (l : list A), subseq (filter f l) l.
Proof.
  induction l as [|a l IH]; simpl; [constructor|]. destruct (f a); now constructor.
Qed.

Lemma subseq_app : forall (A : Type) (a1 a2 b1 b2 : list A),
  subseq a1 a2 -> subseq b1 b2 -> subseq (a1 ++ b1) (a2 ++ b2).
Proof.
  intros A a1 a2 b1 b2 Ha Hb. induction Ha; simpl; try now constructor. exact Hb.
Qed.

Lemma subseq_In : forall (A : Type) (l1 l2 : list A) x, subseq l1 l2 -> In x l1 -> In x l2.
Proof.
  intros A l1 l2 x H. induction H; simpl; intros Hin; auto.
  destruct Hin; auto.
Qed.

Lemma subseq_Forall : forall (A : Type) (P : A -> Prop) (l1 l2 : list A),
  subseq l1 l2 -> Forall P l2 -> Forall P l1.
Proof.
  intros A P l1 l2 H Hf. rewrite Forall_forall in *. intros x Hx. apply Hf.
  eapply subseq_In; eauto.
Qed.

Lemma subseq_FOP : forall (A : Type) (R : A -> A -> Prop) (l1 l2 : list A),
  subseq l1 l2 -> ForallOrdPairs R l2 -> ForallOrdPairs R l1.
Proof.
  intros A R l1 l2 H. induction H as [|x l1 l2 H IH|x l1 l2 H IH]; intros Hf.
  - constructor.
  - inversion Hf; subst. constructor; [|now apply IH]. eapply subseq_Forall; eauto.
  - inversion Hf; subst. now apply IH.
Qed.

Lemma subseq_length : forall (A : Type) (l1 l2 : list A), subseq l1 l2 -> length l1 <= length l2.
Proof. intros A l1 l2 H. induction H; simpl; lia. Qed.

Lemma subseq_sum : forall (A : Type) (f : A -> nat) (l1 l2 : list A),
  subseq l1 l2 -> list_sum (map f l1) <= list_sum (map f l2).
Proof. intros A f l1 l2 H. induction H; simpl; lia. Qed.

Lemma filter_all_or : forall (A : Type) (f : A -> bool) (l : list A),
  filter f l = l \/ exists w, In w l /\ f w = false.
Proof.
  induction l as [|a l IH]; simpl; [now left|]. destruct (f a) eqn:E.
  - destruct IH as [IH|[w [Hw Hf]]]; [left; now rewrite IH | right; exists w; auto].
  - right. exists a. auto.
Qed.

Lemma FOP_impl2 : forall (A : Type) (R1 R2 R3 : A -> A -> Prop) (l : list A),
  (forall x y, R1 x y -> R2 x y -> R3 x y) ->
  ForallOrdPairs R1 l -> ForallOrdPairs R2 l -> ForallOrdPairs R3 l.
Proof.
  intros A R1 R2 R3 l H H1. induction H1 as [|a l Ha Hl IH]; intros H2; [constructor|].
  inversion H2; subst. constructor; [|now apply IH].
  rewrite Forall_forall in *. intros y Hy. apply H; auto.
Qed.

Lemma exists_last_or_nil : forall (A : Type) (l : list A),
  l = [] \/ exists l' a, l = l' ++ [a].
Proof.
  intros A l. destruct l as [|x l]; [now left|right].
  destruct (@exists_last A (x :: l)) as [l' [a H]]; [discriminate|]. now exists l', a.
Qed.

Lemma Forall2_len : forall (A B : Type) (R : A -> B -> Prop) l1 l2,
  Forall2 R l1 l2 -> length l1 = length l2.
Proof. intros A B R l1 l2 H. induction H; simpl; auto. Qed.

Ltac norm_app := repeat (first [rewrite <- app_assoc | progress (simpl app)]).

(* ====================================================================== *)
(** * the deletion loops: [elim_inner] is a filter around the current element *)
Section ElimFacts.
  Variable A : Type.
  Variable fires : A -> A -> bool.
  Variable d : A.

  Notation remove_nth := (remove_nth A).
  Notation elim_inner := (elim_inner A fires d).
  Notation elim_outer := (elim_outer A fires d).
  Notation elim := (elim A fires d).

  Definition keepf (e : A) : list A -> list A := filter (fun w => negb (fires e w)).

  Lemma nth_at : forall (l1 : list A) a l2 n, n = length l1 -> nth n (l1 ++ a :: l2) d = a.
  Proof. intros; subst. apply nth_middle. Qed.

  Lemma remove_at : forall (l1 : list A) a l2 n, n = length l1 -> remove_nth n (l1 ++ a :: l2) = l1 ++ l2.
  Proof.
    intros l1 a l2 n ->. unfold Ancestor.remove_nth. induction l1 as [|b l1 IH]; simpl; [reflexivity|].
    now f_equal.
  Qed.

  Lemma keepf_app : forall e l1 l2, keepf e (l1 ++ l2) = keepf e l1 ++ keepf e l2.
  Proof. intros. unfold keepf. apply filter_app. Qed.

  Lemma keepf_snoc : forall e l w,
    keepf e (l ++ [w]) = if fires e w then keepf e l else keepf e l ++ [w].
  Proof.
    intros. rewrite keepf_app. unfold keepf. simpl. destruct (fires e w); simpl; [apply app_nil_r | reflexivity].
  Qed.

  Lemma inner_S : forall j i st,
    elim_inner (S j) i st =
      if Nat.eqb i j then elim_inner j i st
      else if fires (nth i st d) (nth j st d)
           then elim_inner j (if Nat.ltb j i then pred i else i) (remove_nth j st)
           else elim_inner j i st.
  Proof. reflexivity. Qed.

  Lemma outer_S : forall f i st,
    elim_outer (S f) (S i) st = let '(i', st') := elim_inner (length st) i st in elim_outer f i' st'.
  Proof. reflexivity. Qed.

  (* the current element sits at or above the scan position *)
  Lemma inner_ge : forall pre s1 e s2,
    elim_inner (length pre) (length pre + length s1) (pre ++ s1 ++ e :: s2)
    = (length (keepf e pre) + length s1, keepf e pre ++ s1 ++ e :: s2).
  Proof.
    induction pre as [|w pre IH] using rev_ind; intros s1 e s2; [reflexivity|].
    rewrite app_length. simpl length. rewrite Nat.add_1_r.
    change (S (length pre) + length s1) with (S (length pre + length s1)). rewrite inner_S.
    assert (Hne : Nat.eqb (S (length pre + length s1)) (length pre) = false) by (apply Nat.eqb_neq; lia).
    rewrite Hne.
    assert (Hi : nth (S (length pre + length s1)) ((pre ++ [w]) ++ s1 ++ e :: s2) d = e).
    { replace ((pre ++ [w]) ++ s1 ++ e :: s2) with ((pre ++ w :: s1) ++ e :: s2)
        by (norm_app; reflexivity).
      apply nth_at. rewrite app_length. simpl. lia. }
    assert (Hj : nth (length pre) ((pre ++ [w]) ++ s1 ++ e :: s2) d = w).
    { rewrite <- app_assoc. simpl. now apply nth_at. }
    rewrite Hi, Hj. rewrite keepf_snoc.
    destruct (fires e w) eqn:Ef.
    - assert (Hlt : Nat.ltb (length pre) (S (length pre + length s1)) = true) by (apply Nat.ltb_lt; lia).
      rewrite Hlt. simpl pred.
      replace (remove_nth (length pre) ((pre ++ [w]) ++ s1 ++ e :: s2)) with (pre ++ s1 ++ e :: s2).
      + now rewrite IH.
      + rewrite <- app_assoc. simpl. symmetry. now apply remove_at.
    - replace ((pre ++ [w]) ++ s1 ++ e :: s2) with (pre ++ (w :: s1) ++ e :: s2)
        by (norm_app; reflexivity).
      replace (S (length pre + length s1)) with (length pre + length (w :: s1)) by (simpl; lia).
      rewrite IH. rewrite app_length. simpl. f_equal; [lia|]. rewrite <- !app_assoc. reflexivity.
  Qed.

  (* the current element sits below the scan position *)
  Lemma inner_lt : forall p2 p1 e suf,
    elim_inner (length p1 + S (length p2)) (length p1) (p1 ++ e :: p2 ++ suf)
    = (length (keepf e p1), keepf e p1 ++ e :: keepf e p2 ++ suf).
  Proof.
    induction p2 as [|w p2 IH] using rev_ind; intros p1 e suf.
    - simpl length. rewrite Nat.add_1_r. rewrite inner_S. rewrite Nat.eqb_refl.
      generalize (inner_ge p1 [] e suf). simpl. rewrite !Nat.add_0_r. auto.
    - rewrite app_length. simpl length.
      replace (length p1 + S (length p2 + 1)) with (S (length p1 + S (length p2))) by lia.
      rewrite inner_S.
      assert (Hne : Nat.eqb (length p1) (length p1 + S (length p2)) = false) by (apply Nat.eqb_neq; lia).
      rewrite Hne.
      assert (Hi : nth (length p1) (p1 ++ e :: (p2 ++ [w]) ++ suf) d = e) by now apply nth_at.
      assert (Hj : nth (length p1 + S (length p2)) (p1 ++ e :: (p2 ++ [w]) ++ suf) d = w).
      { replace (p1 ++ e :: (p2 ++ [w]) ++ suf) with ((p1 ++ e :: p2) ++ w :: suf)
          by (norm_app; reflexivity).
        apply nth_at. rewrite app_length. simpl. lia. }
      rewrite Hi, Hj. rewrite keepf_snoc.
      destruct (fires e w) eqn:Ef.
      + assert (Hlt : Nat.ltb (length p1 + S (length p2)) (length p1) = false) by (apply Nat.ltb_ge; lia).
        rewrite Hlt.
        replace (remove_nth (length p1 + S (length p2)) (p1 ++ e :: (p2 ++ [w]) ++ suf))
          with (p1 ++ e :: p2 ++ suf).
        * now rewrite IH.
        * replace (p1 ++ e :: (p2 ++ [w]) ++ suf) with ((p1 ++ e :: p2) ++ w :: suf)
            by (norm_app; reflexivity).
          rewrite remove_at; [rewrite <- app_assoc; reflexivity | rewrite app_length; simpl; lia].
      + replace (p1 ++ e :: (p2 ++ [w]) ++ suf) with (p1 ++ e :: p2 ++ (w :: suf))
          by (norm_app; reflexivity).
        rewrite IH. rewrite <- !app_assoc. reflexivity.
  Qed.

  (* one turn of the outer loop *)
  Lemma outer_step : forall f t e done,
    elim_outer (S f) (S (length t)) (t ++ e :: done)
    = elim_outer f (length (keepf e t)) (keepf e t ++ e :: keepf e done).
  Proof.
    intros f t e done. rewrite outer_S.
    generalize (inner_lt done t e []). rewrite !app_nil_r, app_length. simpl length.
    intros ->. reflexivity.
  Qed.

  Definition nofire2 (x y : A) : Prop := fires x y = false /\ fires y x = false.

  Lemma keepf_nofire : forall e l w, In w (keepf e l) -> fires e w = false.
  Proof.
    intros e l w H. unfold keepf in H. apply filter_In in H. destruct H as [_ H].
    now apply negb_true_iff in H.
  Qed.

  Lemma keepf_In : forall e l w, In w (keepf e l) -> In w l.
  Proof. intros e l w H. unfold keepf in H. apply filter_In in H. tauto. Qed.

  Lemma outer_spec : forall fuel todo done,
    length todo <= fuel ->
    let st' := elim_outer fuel (length todo) (todo ++ done) in
    subseq st' (todo ++ done) /\
    (ForallOrdPairs nofire2 done ->
     (forall x y, In x done -> In y todo -> fires x y = false) ->
     ForallOrdPairs nofire2 st') /\
    (st' = todo ++ done \/ exists e w, In e st' /\ In w (todo ++ done) /\ fires e w = true) /\
    (todo ++ done <> [] -> st' <> []).
  Proof.
    induction fuel as [|fuel IH]; intros todo done Hlen.
    - destruct todo; [|simpl in Hlen; lia]. simpl. repeat split; auto using subseq_refl.
    - destruct (exists_last_or_nil _ todo) as [->|[t [e ->]]].
      + simpl. repeat split; auto using subseq_refl.
      + rewrite app_length in *. simpl length in *. rewrite Nat.add_1_r in *.
        rewrite <- app_assoc. simpl app. rewrite outer_step.
        assert (Hk : length (keepf e t) <= fuel).
        { assert (H := subseq_length _ _ _ (subseq_filter A (fun w => negb (fires e w)) t)).
          unfold keepf. lia. }
        specialize (IH (keepf e t) (e :: keepf e done) Hk). cbv zeta in IH.
        destruct IH as [IH1 [IH2 [IH3 IH4]]].
        assert (Hsub : subseq (keepf e t ++ e :: keepf e done) (t ++ e :: done)).
        { apply subseq_app; [apply subseq_filter|]. apply sub_keep. apply subseq_filter. }
        cbv zeta. split; [|split; [|split]].
        * eapply subseq_trans; eauto.
        * intros Hd Hdt. apply IH2.
          -- constructor.
             ++ rewrite Forall_forall. intros y Hy. split; [eapply keepf_nofire; eauto|].
                apply Hdt; [eapply keepf_In; eauto|]. apply in_or_app. right. now left.
             ++ eapply subseq_FOP; [apply subseq_filter | exact Hd].
          -- intros x y [<-|Hx] Hy; [eapply keepf_nofire; eauto|].
             apply Hdt; [eapply keepf_In; eauto|]. apply in_or_app. left. eapply keepf_In; eauto.
        * destruct IH3 as [IH3|[e0 [w0 [He0 [Hw0 Hf]]]]].
          -- destruct (filter_all_or A (fun w => negb (fires e w)) t) as [Ht|[w [Hw Hf]]].
             ++ destruct (filter_all_or A (fun w => negb (fires e w)) done) as [Hd|[w [Hw Hf]]].
                ** left. rewrite IH3. unfold keepf. now rewrite Ht, Hd.
                ** right. exists e, w. rewrite IH3. split; [apply in_or_app; right; now left|].
                   split; [apply in_or_app; right; now right|]. now apply negb_false_iff in Hf.
             ++ right. exists e, w. rewrite IH3. split; [apply in_or_app; right; now left|].
                split; [apply in_or_app; now left|]. now apply negb_false_iff in Hf.
          -- right. exists e0, w0. split; [exact He0|]. split; [|exact Hf].
             eapply subseq_In; eauto.
        * intros _. apply IH4. destruct (keepf e t); discriminate.
  Qed.

  Theorem elim_spec : forall st,
    let st' := elim st in
    subseq st' st /\ ForallOrdPairs nofire2 st' /\
    (st' = st \/ exists e w, In e st' /\ In w st /\ fires e w = true) /\
    (st <> [] -> st' <> []).
  Proof.
    intros st. unfold Ancestor.elim.
    generalize (outer_spec (length st) st [] (le_n _)). rewrite !app_nil_r. cbv zeta.
    intros [H1 [H2 [H3 H4]]]. repeat split; auto.
    apply H2; [constructor | intros x y []].
  Qed.

  Lemma elim_two : forall a b,
    elim [a; b] = if fires b a then [b] else if fires a b then [a] else [a; b].
  Proof.
    intros a b. unfold Ancestor.elim. simpl. destruct (fires b a); simpl; [reflexivity|].
    destruct (fires a b); reflexivity.
  Qed.

  Lemma elim_one : forall a, elim [a] = [a].
  Proof. reflexivity. Qed.
End ElimFacts.

(* ====================================================================== *)
(** * IsAncestorOf and SeekCommonAncestor for any placement *)
Section Generic.
  Variable g : graph.
  Variable ins : id -> list id -> list id.
  Variable srt : list id -> list id.
  Hypothesis Hins : forall c q, Permutation (ins c q) (c :: q).
  Hypothesis Hsrt : forall l, Permutation (srt l) l.

  Notation pop_insert_parents := (pop_insert_parents g ins).
  Notation new_queue := (new_queue g srt).
  Notation is_ancestor_of := (is_ancestor_of g ins srt).
  Notation q_inv := (q_inv g).
  Notation q_meas := (q_meas g).

  Notation complete := (complete g).
  Notation base_input := (base_input g).

  Lemma anc_loop_spec : forall b a fuel q,
    q_inv [b] q -> complete [b] -> q_meas q < fuel -> ~ popped_of q a ->
    exists r, anc_loop g ins fuel q a = Ok r /\ (r = true <-> reach g [b] a).
  Proof.
    intros b a. induction fuel as [|fuel IH]; intros q Hinv Hpres Hf Hna; [lia|].
    simpl. destruct (pop_step g ins Hins [b] q Hinv Hpres) as [[He Hi]|[x [q' [He [Hinv' [Hx [Hm [_ Hpop]]]]]]]];
      rewrite He.
    - exists false. split; [reflexivity|]. split; [discriminate|]. intros Hr. exfalso.
      apply Hna. apply (eof_complete g [b] q Hinv Hi) in Hr. split; [exact Hr|]. rewrite Hi. tauto.
    - destruct (N.eqb x a) eqn:E.
      + apply N.eqb_eq in E. subst. exists true. split; [reflexivity|]. split; [|reflexivity].
        intros _. destruct Hinv as [_ [_ [I3 [I4 _]]]]. apply I4. now apply I3.
      + apply N.eqb_neq in E. apply IH; auto; [lia|]. intros Hp. apply Hpop in Hp.
        destruct Hp as [Hp|Hp]; [now apply Hna | now apply E].
  Qed.

  Theorem is_ancestor_spec : forall a b,
    complete [b] -> exists r, is_ancestor_of a b = Ok r /\ (r = true <-> reach g [b] a).
  Proof.
    intros a b Hpres. unfold Ancestor.is_ancestor_of.
    destruct (new_queue_ok g srt [b]) as [q Hq].
    { intros r Hr. apply Hpres. now apply reach_root. }
    rewrite Hq. destruct (new_queue_inv g srt Hsrt [b] q Hq) as [Hinv [Hm [_ Hnp]]].
    apply (anc_loop_spec b a); auto. unfold walk_fuel. lia.
  Qed.

  Lemma anc_true_spec : forall c d, complete [d] -> (anc_true g ins srt c d = true <-> reach g [d] c).
  Proof.
    intros c d Hp. unfold anc_true. destruct (is_ancestor_spec c d Hp) as [r [-> Hr]].
    destruct r; [tauto|]. split; [discriminate|]. intros H. apply Hr in H. discriminate.
  Qed.

  (* ------------------------------------------------------------------ *)
  (** the pre-check over positions *)
  Lemma In_indexed_gen : forall (cs : list id) s i c,
    In (i, c) (combine (seq s (length cs)) cs) <-> s <= i /\ nth_error cs (i - s) = Some c.
  Proof.
    induction cs as [|x cs IH]; intros s i c; simpl.
    - split; [tauto|]. intros [_ H]. destruct (i - s); discriminate.
    - rewrite IH. split.
      + intros [H|[H1 H2]].
        * inversion H; subst. split; [lia|]. now rewrite Nat.sub_diag.
        * split; [lia|]. replace (i - s) with (S (i - S s)) by lia. exact H2.
      + intros [H1 H2]. destruct (i - s) as [|k] eqn:E.
        * left. inversion H2. f_equal. lia.
        * right. split; [lia|]. replace (i - S s) with k by lia. exact H2.
  Qed.

  Lemma In_indexed : forall cs i c, In (i, c) (indexed cs) <-> nth_error cs i = Some c.
  Proof.
    intros cs i c. unfold indexed. rewrite In_indexed_gen, Nat.sub_0_r. split; [tauto|].
    intros H. split; [lia | exact H].
  Qed.

  Lemma is_base_at_spec : forall cs i c,
    (forall d', In d' cs -> complete [d']) -> nth_error cs i = Some c ->
    (is_base_at g ins srt (indexed cs) (i, c) = true <-> base_input cs i c).
  Proof.
    intros cs i c Hp Hi. unfold is_base_at. rewrite forallb_forall. split.
    - intros H. split; [exact Hi|]. intros j d' Hj Hne.
      assert (Hin : In (j, d') (indexed cs)) by now apply In_indexed.
      specialize (H _ Hin). simpl in H. apply orb_true_iff in H. destruct H as [H|H].
      + apply Nat.eqb_eq in H. congruence.
      + apply anc_true_spec in H; auto. apply Hp. eapply nth_error_In; eauto.
    - intros [_ H] [j d'] Hin. simpl. apply In_indexed in Hin.
      destruct (Nat.eqb i j) eqn:E; [reflexivity|]. apply Nat.eqb_neq in E. simpl.
      apply anc_true_spec; [apply Hp; eapply nth_error_In; eauto|]. apply (H j); auto.
  Qed.

  Lemma pre_check_some : forall cs c,
    (forall d', In d' cs -> complete [d']) ->
    pre_check g ins srt cs = Some c -> exists i, base_input cs i c.
  Proof.
    intros cs c Hp H. unfold pre_check in H. destruct (Nat.ltb 1 (length cs)); [|discriminate].
    destruct (find _ _) as [[i c']|] eqn:E; [|discriminate]. simpl in H. inversion H; subst c'.
    apply find_some in E. destruct E as [Hin Hb]. exists i.
    apply In_indexed in Hin. apply (is_base_at_spec cs i c Hp Hin). exact Hb.
  Qed.

  Lemma pre_check_none : forall cs,
    (forall d', In d' cs -> complete [d']) -> 1 < length cs ->
    pre_check g ins srt cs = None -> forall i c, ~ base_input cs i c.
  Proof.
    intros cs Hp Hlen H i c Hb. unfold pre_check in H.
    apply Nat.ltb_lt in Hlen. rewrite Hlen in H.
    destruct (find _ _) as [[i' c']|] eqn:E; [discriminate|].
    assert (Hin : In (i, c) (indexed cs)) by (apply In_indexed; apply Hb).
    apply (find_none _ _ E) in Hin.
    rewrite (proj2 (is_base_at_spec cs i c Hp (proj1 Hb)) Hb) in Hin. discriminate.
  Qed.

  (* ------------------------------------------------------------------ *)
  (** walkers *)
  Definition w_inv (c : id) (w : walker) : Prop :=
    q_inv [c] (w_q w) /\ forall x, w_base w = Some x -> In x (q_seen (w_q w)).

  Definition w_popped (w : walker) (x : id) : Prop := popped_of (w_q w) x.

  Lemma w_inv_reach : forall c w x, w_inv c w -> w_base w = Some x -> reach g [c] x.
  Proof.
    intros c w x [[_ [_ [_ [I4 _]]]] Hb] Hx. apply I4. now apply Hb.
  Qed.

  Lemma fires_reach : forall c e w x,
    w_inv c w -> w_fires e w = true -> w_base e = Some x -> reach g [c] x.
  Proof.
    intros c e w x [[_ [_ [_ [I4 _]]]] _] Hf Hx. unfold w_fires in Hf. rewrite Hx in Hf.
    unfold seen in Hf. apply mem_In in Hf. now apply I4.
  Qed.

  Lemma fires_base : forall e w, w_fires e w = true -> exists x, w_base e = Some x.
  Proof.
    intros e w H. unfold w_fires in H. destruct (w_base e) as [x|]; [now exists x | discriminate].
  Qed.

  (** one PopInsertParents of one walker *)
  Definition w_step (w w' : walker) : Prop :=
    (pop_insert_parents (w_q w) = PEof /\ q_items (w_q w) = [] /\ w' = mk_w None (w_q w)) \/
    (exists x q', pop_insert_parents (w_q w) = POk x q' /\ w' = mk_w (Some x) q').

  Lemma pop_all_spec : forall st st2 eofs,
    pop_all g ins st = Ok (st2, eofs) ->
    Forall2 w_step st st2 /\ eofs <= length st2 /\
    (eofs = length st2 -> Forall (fun w => q_items (w_q w) = []) st).
  Proof.
    induction st as [|w st IH]; intros st2 eofs H; simpl in H.
    - inversion H; subst. repeat split; auto.
    - destruct (pop_insert_parents (w_q w)) as [|x q'|] eqn:Ep; [| |discriminate].
      + destruct (pop_all g ins st) as [[r' e]| |] eqn:Er; try discriminate.
        inversion H; subst. destruct (IH _ _ eq_refl) as [H1 [H2 H3]]. simpl. repeat split.
        * constructor; [|exact H1]. left. repeat split; auto.
          unfold Queue.pop_insert_parents in Ep. destruct (q_items (w_q w)); [reflexivity|].
          destruct (insert_all g ins _ _); discriminate.
        * lia.
        * intros He. constructor; [|apply H3; lia].
          unfold Queue.pop_insert_parents in Ep. destruct (q_items (w_q w)); [reflexivity|].
          destruct (insert_all g ins _ _); discriminate.
      + destruct (pop_all g ins st) as [[r' e]| |] eqn:Er; try discriminate.
        inversion H; subst. destruct (IH _ _ eq_refl) as [H1 [H2 H3]]. simpl. repeat split.
        * constructor; [|exact H1]. right. now exists x, q'.
        * lia.
        * intros He. lia.
  Qed.

  Lemma w_step_inv : forall c w w', w_inv c w -> complete [c] -> w_step w w' ->
    w_inv c w' /\
    (forall y, w_popped w' y -> w_popped w y \/ w_base w' = Some y) /\
    q_meas (w_q w') <= q_meas (w_q w) /\
    (q_items (w_q w) <> [] -> q_meas (w_q w') < q_meas (w_q w)).
  Proof.
    intros c w w' [Hq Hb] Hp Hs.
    destruct (pop_step g ins Hins [c] (w_q w) Hq Hp) as [[He Hi]|[x [q' [He [Hinv' [Hx [Hm [Hincl Hpop]]]]]]]];
      destruct Hs as [[He' [Hi' ->]]|[x' [q'' [He' ->]]]]; try congruence.
    - unfold w_popped, w_inv. simpl. split; [split; [exact Hq | discriminate]|].
      split; [intros y Hy; now left|]. split; [lia|]. intros Hne. now elim Hne.
    - rewrite He in He'. inversion He'; subst x' q''. unfold w_popped, w_inv. simpl.
      split; [split|split; [|split]].
      + exact Hinv'.
      + intros y Hy. inversion Hy; subst y. assert (Hpx : popped_of q' x) by (apply Hpop; now right).
        apply Hpx.
      + intros y Hy. apply Hpop in Hy. destruct Hy as [Hy| ->]; [now left | now right].
      + lia.
      + intros _. lia.
  Qed.

  Lemma pop_all_ok : forall cs st,
    Forall (fun w => exists c, In c cs /\ w_inv c w) st ->
    (forall c, In c cs -> complete [c]) ->
    exists st2 eofs, pop_all g ins st = Ok (st2, eofs).
  Proof.
    intros cs. induction st as [|w st IH]; intros Hf Hp; simpl.
    - eexists _, _; reflexivity.
    - inversion Hf as [|w' st' [c [Hc [Hq Hb]]] Hf']; subst.
      destruct (IH Hf' Hp) as [st2 [eofs E]]. rewrite E.
      destruct (pop_step g ins Hins [c] (w_q w) Hq (Hp c Hc)) as [[He Hi]|[x [q' [He _]]]]; rewrite He;
        eexists _, _; reflexivity.
  Qed.

  (** pairwise facts about the sets of popped commits *)
  Definition k_pre (w1 w2 : walker) : Prop := forall x, w_popped w1 x -> w_popped w2 x -> False.
  Definition k_mid (w1 w2 : walker) : Prop :=
    forall x, w_popped w1 x -> w_popped w2 x -> w_base w1 = Some x \/ w_base w2 = Some x.

  Lemma k_mid_nofire : forall w1 w2, k_mid w1 w2 -> nofire2 walker w_fires w1 w2 -> k_pre w1 w2.
  Proof.
    intros w1 w2 Hk [Hf1 Hf2] x H1 H2. destruct (Hk x H1 H2) as [Hb|Hb].
    - unfold w_fires in Hf1. rewrite Hb in Hf1. unfold seen in Hf1. apply mem_false in Hf1.
      apply Hf1. apply H2.
    - unfold w_fires in Hf2. rewrite Hb in Hf2. unfold seen in Hf2. apply mem_false in Hf2.
      apply Hf2. apply H1.
  Qed.

  Lemma k_pre_step_one : forall cs w w' st st2,
    (forall y, w_popped w' y -> w_popped w y \/ w_base w' = Some y) ->
    Forall (fun w => exists c, In c cs /\ w_inv c w) st ->
    (forall c, In c cs -> complete [c]) ->
    Forall2 w_step st st2 -> Forall (k_pre w) st -> Forall (k_mid w') st2.
  Proof.
    intros cs w w' st st2 Hpw Hf Hp H2. induction H2 as [|v v' st st2 Hsv H2 IH]; intros Hk; [constructor|].
    inversion Hf as [|? ? [c' [Hc' Hv]] Hf']; subst. inversion Hk as [|? ? Hkv Hk']; subst.
    constructor; [|now apply IH].
    destruct (w_step_inv c' v v' Hv (Hp c' Hc') Hsv) as [_ [Hpv _]].
    intros x H1 H2'. destruct (Hpw x H1) as [H1'|H1']; [|now left].
    destruct (Hpv x H2') as [H2''|H2'']; [|now right]. exfalso. eapply Hkv; eauto.
  Qed.

  Lemma k_pre_step_list : forall cs st st2,
    Forall (fun w => exists c, In c cs /\ w_inv c w) st ->
    (forall c, In c cs -> complete [c]) ->
    Forall2 w_step st st2 -> ForallOrdPairs k_pre st -> ForallOrdPairs k_mid st2.
  Proof.
    intros cs st st2 Hf Hp H2. induction H2 as [|w w' st st2 Hs H2 IH]; intros Hk; [constructor|].
    inversion Hf as [|? ? [c [Hc Hw]] Hf']; subst. inversion Hk as [|? ? Hka Hkl]; subst.
    constructor; [|now apply IH].
    destruct (w_step_inv c w w' Hw (Hp c Hc) Hs) as [_ [Hpw _]].
    eapply k_pre_step_one; eauto.
  Qed.

  (* ------------------------------------------------------------------ *)
  (** the main loop *)
  Definition w_ok (cs : list id) (w : walker) : Prop := exists c, In c cs /\ w_inv c w.
  Definition m_sum (st : list walker) : nat := list_sum (map (fun w => q_meas (w_q w)) st).

  Lemma seek_loop_S : forall f st,
    seek_loop g ins (S f) st =
      let st1 := elim walker w_fires w_dummy st in
      if Nat.eqb (length st1) 1
      then match w_base (hd w_dummy st1) with Some x => SFound x | None => SNil end
      else match pop_all g ins st1 with
           | Err => SErr
           | Fuel => SFuel
           | Ok (st2, eofs) => if Nat.eqb eofs (length st2) then SNotFound else seek_loop g ins f st2
           end.
  Proof. reflexivity. Qed.

  Lemma w_steps_ok : forall cs st st2,
    Forall (w_ok cs) st -> (forall c, In c cs -> complete [c]) ->
    Forall2 w_step st st2 -> Forall (w_ok cs) st2.
  Proof.
    intros cs st st2 Hf Hp H2. induction H2 as [|w w' st st2 Hs H2 IH]; [constructor|].
    inversion Hf as [|? ? [c [Hc Hw]] Hf']; subst. constructor; [|now apply IH].
    exists c. split; [exact Hc|]. now destruct (w_step_inv c w w' Hw (Hp c Hc) Hs).
  Qed.

  Lemma pop_all_meas : forall cs st st2 eofs,
    Forall (w_ok cs) st -> (forall c, In c cs -> complete [c]) ->
    pop_all g ins st = Ok (st2, eofs) -> m_sum st2 + length st2 <= m_sum st + eofs.
  Proof.
    intros cs. induction st as [|w st IH]; intros st2 eofs Hf Hp H; simpl in H.
    - inversion H; subst. simpl. lia.
    - inversion Hf as [|? ? [c [Hc [Hq Hb]]] Hf']; subst.
      destruct (pop_step g ins Hins [c] (w_q w) Hq (Hp c Hc)) as [[He Hi]|[x [q' [He [_ [_ [Hm _]]]]]]];
        rewrite He in H; destruct (pop_all g ins st) as [[r' e]| |] eqn:Er; try discriminate;
        inversion H; subst; specialize (IH _ _ Hf' Hp eq_refl); unfold m_sum in *; simpl; lia.
  Qed.

  Lemma nopop_k_mid : forall st,
    Forall (fun w => forall x, ~ w_popped w x) st -> ForallOrdPairs k_mid st.
  Proof.
    induction st as [|w st IH]; intros H; [constructor|]. inversion H; subst.
    constructor; [|now apply IH]. rewrite Forall_forall. intros v Hv x Hx. exfalso. eapply H2; eauto.
  Qed.

  Lemma seek_loop_spec : forall cs,
    (forall c, In c cs -> complete [c]) ->
    forall fuel st,
    Forall (w_ok cs) st -> ForallOrdPairs k_mid st ->
    (2 <= length st \/ exists w x, st = [w] /\ w_base w = Some x) ->
    m_sum st < fuel ->
    (exists x c, seek_loop g ins fuel st = SFound x /\ In c cs /\ reach g [c] x) \/
    (seek_loop g ins fuel st = SNotFound /\ forall z, ~ common_ancestor g cs z).
  Proof.
    intros cs Hp. induction fuel as [|fuel IH]; intros st Hok Hk Hlen Hm; [lia|].
    rewrite seek_loop_S. cbv zeta.
    destruct (elim_spec walker w_fires w_dummy st) as [Hsub [Hnf [Hfired Hne]]].
    set (st1 := elim walker w_fires w_dummy st) in *.
    assert (Hok1 : Forall (w_ok cs) st1) by (eapply subseq_Forall; eauto).
    assert (Hk1 : ForallOrdPairs k_pre st1).
    { eapply (FOP_impl2 _ k_mid (nofire2 walker w_fires)); [|eapply subseq_FOP; eauto | exact Hnf].
      intros; now apply k_mid_nofire. }
    assert (Hne1 : st1 <> []).
    { apply Hne. destruct Hlen as [Hl|[w [x [-> _]]]]; [|discriminate]. destruct st; [simpl in Hl; lia | discriminate]. }
    destruct (Nat.eqb (length st1) 1) eqn:El.
    - apply Nat.eqb_eq in El. left.
      destruct st1 as [|s [|? ?]] eqn:Es; try (simpl in El; lia). simpl hd.
      assert (Hbase : exists x, w_base s = Some x).
      { destruct Hfired as [Heq|[e [w [He [Hw Hf]]]]].
        - destruct Hlen as [Hl|[w [x [Hst Hx]]]]; [rewrite <- Heq in Hl; simpl in Hl; lia|].
          rewrite Hst in Heq. inversion Heq; subst. now exists x.
        - destruct He as [<-|[]]. eapply fires_base; eauto. }
      destruct Hbase as [x Hx]. rewrite Hx. inversion Hok1 as [|? ? [c [Hc Hw]] _]; subst.
      exists x, c. split; [reflexivity|]. split; [exact Hc|]. eapply w_inv_reach; eauto.
    - apply Nat.eqb_neq in El.
      destruct (pop_all_ok cs st1 Hok1 Hp) as [st2 [eofs E]]. rewrite E.
      destruct (pop_all_spec _ _ _ E) as [Hst [Hle Heof]].
      assert (Hlen2 : length st1 = length st2) by (eapply Forall2_len; eauto).
      assert (Hl1 : 2 <= length st1) by (destruct st1 as [|? [|? ?]]; simpl in *; try congruence; lia).
      destruct (Nat.eqb eofs (length st2)) eqn:Ee.
      + apply Nat.eqb_eq in Ee. right. split; [reflexivity|]. intros z Hz.
        specialize (Heof Ee). destruct st1 as [|w1 [|w2 r]]; try (simpl in Hl1; lia).
        inversion Hk1 as [|? ? Hk12 _]; subst. inversion Hk12 as [|? ? Hk' _]; subst.
        inversion Heof as [|? ? Hi1 Heof']; subst. inversion Heof' as [|? ? Hi2 _]; subst.
        inversion Hok1 as [|? ? [c1 [Hc1 [Hq1 _]]] Hok']; subst.
        inversion Hok' as [|? ? [c2 [Hc2 [Hq2 _]]] _]; subst.
        apply (Hk' z).
        * split; [|rewrite Hi1; tauto]. apply (eof_complete g [c1] _ Hq1 Hi1). now apply Hz.
        * split; [|rewrite Hi2; tauto]. apply (eof_complete g [c2] _ Hq2 Hi2). now apply Hz.
      + apply Nat.eqb_neq in Ee. apply IH.
        * eapply w_steps_ok; eauto.
        * eapply k_pre_step_list; eauto.
        * left. lia.
        * assert (H1 := pop_all_meas cs _ _ _ Hok1 Hp E).
          assert (H2 : m_sum st1 <= m_sum st) by (apply subseq_sum; exact Hsub).
          lia.
  Qed.

  (** two inputs: the survivor's position is seen by the other queue *)
  Lemma seek_loop2_common : forall a b,
    complete [a] -> complete [b] ->
    forall fuel w0 w1 x, w_inv a w0 -> w_inv b w1 ->
    seek_loop g ins fuel [w0; w1] = SFound x -> reach g [a] x /\ reach g [b] x.
  Proof.
    intros a b Ha Hb. induction fuel as [|fuel IH]; intros w0 w1 x H0 H1 H; [discriminate|].
    rewrite seek_loop_S in H. cbv zeta in H. rewrite elim_two in H.
    destruct (w_fires w1 w0) eqn:F10.
    - simpl in H. destruct (w_base w1) as [y|] eqn:Eb; [|discriminate]. inversion H; subst y.
      split; [eapply fires_reach; eauto | eapply w_inv_reach; eauto].
    - destruct (w_fires w0 w1) eqn:F01.
      + simpl in H. destruct (w_base w0) as [y|] eqn:Eb; [|discriminate]. inversion H; subst y.
        split; [eapply w_inv_reach; eauto | eapply fires_reach; eauto].
      + simpl length in H. simpl Nat.eqb in H.
        destruct (pop_all g ins [w0; w1]) as [[st2 eofs]| |] eqn:E; try discriminate.
        destruct (pop_all_spec _ _ _ E) as [Hst _].
        inversion Hst as [|? w0' ? r Hs0 Hst']; subst. inversion Hst' as [|? w1' ? r' Hs1 Hst'']; subst.
        inversion Hst''; subst.
        destruct (Nat.eqb eofs (length [w0'; w1'])); [discriminate|].
        apply (IH w0' w1' x); auto.
        * now destruct (w_step_inv a w0 w0' H0 Ha Hs0).
        * now destruct (w_step_inv b w1 w1' H1 Hb Hs1).
  Qed.

  Lemma init_walkers_spec : forall cs,
    (forall c, In c cs -> complete [c]) ->
    exists st, init_walkers g srt cs = Ok st /\
      Forall2 (fun c w => w_inv c w /\ (forall x, ~ w_popped w x) /\
                          q_meas (w_q w) = length g /\ w_base w = Some c) cs st.
  Proof.
    induction cs as [|c cs IH]; intros Hp; simpl.
    - exists []. split; [reflexivity | constructor].
    - destruct (new_queue_ok g srt [c]) as [q Hq].
      { intros r [<-|[]]. apply (Hp c); [now left | apply reach_self]. }
      rewrite Hq. destruct IH as [st [E H2]]; [intros d' Hd; apply Hp; now right|]. rewrite E.
      eexists. split; [reflexivity|]. constructor; [|exact H2].
      destruct (new_queue_inv g srt Hsrt [c] q Hq) as [Hinv [Hm [Hs Hnp]]]. simpl.
      repeat split; auto.
      + apply Hinv.
      + apply Hinv.
      + apply Hinv.
      + apply Hinv.
      + apply Hinv.
      + apply Hinv.
      + apply Hinv.
      + intros x Hx. inversion Hx; subst. apply Hs. now left.
  Qed.

  Notation seek := (seek_common_ancestor g ins srt).

  (** every number of inputs: the answer is "found" or "not found", never an error,
      nil or out of fuel; a found commit is an ancestor-or-self of at least one input;
      "not found" is reported only when no common ancestor exists *)
  Theorem seek_total : forall cs,
    cs <> [] -> (forall c, In c cs -> complete [c]) ->
    (exists x c, seek cs = SFound x /\ In c cs /\ reach g [c] x) \/
    (seek cs = SNotFound /\ forall z, ~ common_ancestor g cs z).
  Proof.
    intros cs Hne Hp. unfold seek_common_ancestor.
    destruct (pre_check g ins srt cs) as [c|] eqn:Epc.
    - destruct (pre_check_some cs c Hp Epc) as [i [Hi _]]. left. exists c, c.
      split; [reflexivity|]. split; [eapply nth_error_In; eauto | apply reach_self].
    - destruct (init_walkers_spec cs Hp) as [st [E H2]]. rewrite E.
      apply (seek_loop_spec cs Hp).
      + clear E Hne Epc. induction H2 as [|c w cs' st' [Hw _] H2 IH]; [constructor|].
        constructor.
        * exists c. split; [now left | exact Hw].
        * assert (Hp' : forall c0, In c0 cs' -> complete [c0]) by (intros c0 Hc0; apply Hp; now right).
          specialize (IH Hp'). rewrite Forall_forall in *. intros v Hv.
          destruct (IH v Hv) as [c0 [Hc0 Hv']]. exists c0. split; [now right | exact Hv'].
      + apply nopop_k_mid. clear E Hne Epc. induction H2 as [|c w cs' st' [_ [Hn _]] H2 IH]; constructor; auto.
        apply IH. intros c0 Hc0. apply Hp. now right.
      + destruct H2 as [|c w cs' st' [_ [_ [_ Hb]]] H2]; [now elim Hne|].
        destruct H2 as [|c2 w2 cs'' st'' _ H2]; [right; now exists w, c | left; simpl; lia].
      + assert (Hms : m_sum st = length cs * length g).
        { clear E Hne Epc. induction H2 as [|c w cs' st' [_ [_ [Hm _]]] H2 IH]; [reflexivity|].
          unfold m_sum in *. simpl. rewrite Hm, IH; [lia|]. intros c0 Hc0. apply Hp. now right. }
        unfold seek_fuel. lia.
  Qed.

  (** every number (> 1) of inputs: when some input is an ancestor-or-self of all the
      others, such an input is returned *)
  Theorem seek_is_input : forall cs i c,
    1 < length cs -> (forall c, In c cs -> complete [c]) ->
    base_input cs i c ->
    exists i' c', seek cs = SFound c' /\ base_input cs i' c'.
  Proof.
    intros cs i c Hlen Hp Hb. unfold seek_common_ancestor.
    destruct (pre_check g ins srt cs) as [c'|] eqn:Epc.
    - destruct (pre_check_some cs c' Hp Epc) as [i' Hi']. now exists i', c'.
    - exfalso. eapply pre_check_none; eauto.
  Qed.

  (** two inputs: a found commit is an ancestor-or-self of both *)
  Theorem seek2_common : forall a b x,
    complete [a] -> complete [b] ->
    seek [a; b] = SFound x -> reach g [a] x /\ reach g [b] x.
  Proof.
    intros a b x Ha Hb H.
    assert (Hp : forall c, In c [a; b] -> complete [c]) by (intros c [<-|[<-|[]]]; auto).
    unfold seek_common_ancestor in H.
    destruct (pre_check g ins srt [a; b]) as [c|] eqn:Epc.
    - inversion H; subst c. destruct (pre_check_some _ _ Hp Epc) as [i [Hi Hall]].
      destruct i as [|[|i]]; simpl in Hi.
      + inversion Hi; subst. split; [apply reach_self|]. apply (Hall 1); [reflexivity | lia].
      + inversion Hi; subst. split; [|apply reach_self]. apply (Hall 0); [reflexivity | lia].
      + destruct i; discriminate.
    - destruct (init_walkers_spec [a; b] Hp) as [st [E H2]]. rewrite E in H.
      inversion H2 as [|? w0 ? r [Hw0 _] H2']; subst. inversion H2' as [|? w1 ? r' [Hw1 _] H2'']; subst.
      inversion H2''; subst. eapply seek_loop2_common; eauto.
  Qed.
End Generic.

(* ====================================================================== *)
(** * witnesses on the instance the Go code runs (refuted clauses for >= 3 inputs) *)
Local Open Scope N_scope.

(* r0, r1 unrelated roots; m = merge(r1, r0); t = child of m *)
Definition wit_g4 : graph :=
  [(0, (10%Z, [])); (1, (11%Z, [])); (2, (12%Z, [1; 0])); (3, (13%Z, [2]))].
(* no merge commit at all: 0 <- 1 <- 3 <- 4 and 0 <- 2 *)
Definition wit_g5 : graph :=
  [(0, (10%Z, [])); (1, (11%Z, [0])); (2, (12%Z, [0])); (3, (13%Z, [1])); (4, (14%Z, [3]))].
(* wit_g5 plus a third branch 0 <- 5 *)
Definition wit_g6 : graph :=
  [(0, (10%Z, [])); (1, (11%Z, [0])); (2, (12%Z, [0])); (3, (13%Z, [1])); (4, (14%Z, [3]));
   (5, (15%Z, [0]))].

Lemma wit_no_common : forall g cs,
  (forall z, In z (reach_list g [hd 0 cs]) -> common_ancestorb g cs z = false) ->
  cs <> [] -> forall z, ~ common_ancestor g cs z.
Proof.
  intros g cs H Hne z Hz. destruct cs as [|c cs]; [now apply Hne|]. simpl hd in H.
  assert (Hin : In z (reach_list g [c])) by (apply reach_list_spec; apply Hz; now left).
  specialize (H z Hin). apply common_ancestorb_spec in Hz. congruence.
Qed.

(** three inputs, no common ancestor exists, yet a commit is returned *)
Lemma seek3_unrelated_witness :
  closed wit_g4 /\ acyclic wit_g4 /\ complete wit_g4 [0; 1; 3] /\
  (forall z, ~ common_ancestor wit_g4 [0; 1; 3] z) /\
  t_seek wit_g4 [0; 1; 3] = SFound 0.
Proof.
  assert (Hc : closed wit_g4) by (apply closedb_closed; vm_compute; reflexivity).
  split; [exact Hc|]. split; [apply acyclicb_acyclic; vm_compute; reflexivity|].
  split; [|split; [|vm_compute; reflexivity]].
  - apply closed_complete; [exact Hc|]. intros r [<-|[<-|[<-|[]]]]; vm_compute; discriminate.
  - apply wit_no_common; [|discriminate]. vm_compute. intros z [<-|[]]. reflexivity.
Qed.

(** three inputs, a common ancestor (0) exists, the result (1) is not an ancestor of input 2 *)
Lemma seek3_wrong_witness :
  closed wit_g5 /\ acyclic wit_g5 /\ complete wit_g5 [2; 1; 4] /\
  common_ancestor wit_g5 [2; 1; 4] 0 /\
  t_seek wit_g5 [2; 1; 4] = SFound 1 /\ ~ reach wit_g5 [2] 1.
Proof.
  assert (Hc : closed wit_g5) by (apply closedb_closed; vm_compute; reflexivity).
  split; [exact Hc|]. split; [apply acyclicb_acyclic; vm_compute; reflexivity|].
  split; [|split; [|split; [vm_compute; reflexivity|]]].
  - apply closed_complete; [exact Hc|]. intros r [<-|[<-|[<-|[]]]]; vm_compute; discriminate.
  - apply common_ancestorb_spec. vm_compute. reflexivity.
  - apply reachb_false. vm_compute. reflexivity.
Qed.

(** four distinct inputs, a common ancestor (0) exists, the result (1) is not an ancestor of 5 and 2 *)
Lemma seek4_wrong_witness :
  closed wit_g6 /\ acyclic wit_g6 /\ complete wit_g6 [5; 2; 1; 4] /\
  common_ancestor wit_g6 [5; 2; 1; 4] 0 /\
  t_seek wit_g6 [5; 2; 1; 4] = SFound 1 /\ ~ reach wit_g6 [5] 1.
Proof.
  assert (Hc : closed wit_g6) by (apply closedb_closed; vm_compute; reflexivity).
  split; [exact Hc|]. split; [apply acyclicb_acyclic; vm_compute; reflexivity|].
  split; [|split; [|split; [vm_compute; reflexivity|]]].
  - apply closed_complete; [exact Hc|]. intros r [<-|[<-|[<-|[<-|[]]]]]; vm_compute; discriminate.
  - apply common_ancestorb_spec. vm_compute. reflexivity.
  - apply reachb_false. vm_compute. reflexivity.
Qed.

(** the full-strength "common" clause for three and four inputs is false on the Go instance *)
Lemma seek3_common_refuted :
  ~ (forall g a b c x, closed g -> acyclic g -> complete g [a; b; c] ->
       t_seek g [a; b; c] = SFound x -> common_ancestor g [a; b; c] x).
Proof.
  intros H. destruct seek3_wrong_witness as [Hc [Ha [Hp [_ [Hs Hn]]]]].
  apply Hn. apply (H _ _ _ _ _ Hc Ha Hp Hs). now left.
Qed.

Lemma seek4_common_refuted :
  ~ (forall g a b c d x, closed g -> acyclic g -> complete g [a; b; c; d] ->
       t_seek g [a; b; c; d] = SFound x -> common_ancestor g [a; b; c; d] x).
Proof.
  intros H. destruct seek4_wrong_witness as [Hc [Ha [Hp [_ [Hs Hn]]]]].
  apply Hn. apply (H _ _ _ _ _ _ Hc Ha Hp Hs). now left.
Qed.

(** non-vacuity: the hypotheses of the positive theorems hold on a non-trivial history
    (the witness of the repaired defect: P <- A <- M, B = merge(M, P)) and the results
    are the expected ones *)
Definition ex_ff : graph :=
  [(0, (10%Z, [])); (1, (11%Z, [0])); (2, (12%Z, [1])); (3, (13%Z, [2; 0]))].
Lemma ex_ff_facts :
  closed ex_ff /\ complete ex_ff [1; 3] /\ base_input ex_ff [1; 3] 0 1 /\
  t_seek ex_ff [1; 3] = SFound 1 /\ t_seek ex_ff [3; 1] = SFound 1 /\
  t_is_ancestor_of ex_ff 1 3 = Ok true /\ t_is_ancestor_of ex_ff 3 1 = Ok false /\
  t_walk ex_ff [3] = (0%nat, [3; 2; 1; 0]).
Proof.
  assert (Hc : closed ex_ff) by (apply closedb_closed; vm_compute; reflexivity).
  split; [exact Hc|]. split; [|split; [|vm_compute; repeat split; reflexivity]].
  - apply closed_complete; [exact Hc|]. intros r [<-|[<-|[]]]; vm_compute; discriminate.
  - split; [reflexivity|]. intros j d Hj Hne. destruct j as [|[|j]]; simpl in Hj.
    + now elim Hne.
    + inversion Hj; subst. apply reachb_spec. vm_compute. reflexivity.
    + destruct j; discriminate.
Qed.

(** two inputs: the complete merge-base statement *)
Lemma seek2_correct : forall g ins srt,
  (forall c q, Permutation (ins c q) (c :: q)) -> (forall l, Permutation (srt l) l) ->
  forall a b, complete g [a] -> complete g [b] ->
  (exists x, seek_common_ancestor g ins srt [a; b] = SFound x /\ common_ancestor g [a; b] x) \/
  (seek_common_ancestor g ins srt [a; b] = SNotFound /\ forall z, ~ common_ancestor g [a; b] z).
Proof.
  intros g ins srt Hins Hsrt a b Ha Hb.
  assert (Hp : forall c, In c [a; b] -> complete g [c]) by (intros c [<-|[<-|[]]]; auto).
  destruct (seek_total g ins srt Hins Hsrt [a; b]) as [[x [c [Hs _]]]|H]; [discriminate | exact Hp | | now right].
  left. exists x. split; [exact Hs|].
  destruct (seek2_common g ins srt Hins Hsrt a b x Ha Hb Hs) as [H1 H2].
  intros c' [<-|[<-|[]]]; auto.
Qed.

(** in an acyclic history the input that is an ancestor of all the others is unique as a commit *)
Lemma base_input_unique : forall g cs i c i' c',
  acyclic g -> base_input g cs i c -> base_input g cs i' c' -> c = c'.
Proof.
  intros g cs i c i' c' Ha [Hi Hall] [Hi' Hall'].
  destruct (Nat.eq_dec i i') as [->|Hne]; [congruence|].
  apply (acyclic_antisym g c c' Ha).
  - apply (Hall' i c Hi). exact Hne.
  - apply (Hall i' c' Hi'). auto.
Qed.

Lemma ex_queue_facts :
  exists q, t_new_queue ex_ff [3] = Ok q /\
    t_pop_until ex_ff q 1 = Ok (Some 1, mk_cq [0] [1; 0; 2; 3], [3; 2; 1]) /\
    t_pop_until ex_ff q 7 = Ok (None, mk_cq [] [1; 0; 2; 3], [3; 2; 1; 0]) /\
    t_remove_ancestors ex_ff (mk_cq [3; 2; 1] [1; 2; 3]) [2] = Ok (mk_cq [3] [1; 2; 3]).
Proof. eexists. split; [vm_compute; reflexivity|]. vm_compute. repeat split; reflexivity. Qed.

(* ====================================================================== *)
(** * the merge command's base selection = one all-at-once search; a pairwise fold is not *)

(* criss-cross: independent roots Y = 0 (older) and X = 1 (newer); C1 = 2 = merge(X, Y),
   C2 = 3 = merge(Y, X); C3 = 4 = child of Y only *)
Definition wit_cc : graph :=
  [(0, (100%Z, [])); (1, (200%Z, [])); (2, (300%Z, [1; 0])); (3, (310%Z, [0; 1])); (4, (400%Z, [0]))].

Lemma fold_witness :
  closed wit_cc /\ acyclic wit_cc /\ complete wit_cc [2; 3; 4] /\
  common_ancestor wit_cc [2; 3; 4] 0 /\
  t_merge_base wit_cc [2; 3; 4] = SFound 0 /\ t_seek_fold wit_cc [2; 3; 4] = SNotFound /\
  base_input wit_cc [2; 3; 0] 2 0 /\
  t_merge_base wit_cc [2; 3; 0] = SFound 0 /\ t_seek_fold wit_cc [2; 3; 0] = SNotFound.
Proof.
  assert (Hc : closed wit_cc) by (apply closedb_closed; vm_compute; reflexivity).
  split; [exact Hc|]. split; [apply acyclicb_acyclic; vm_compute; reflexivity|].
  split; [|split; [|split; [vm_compute; reflexivity|split; [vm_compute; reflexivity|split;
    [|split; vm_compute; reflexivity]]]]].
  - apply closed_complete; [exact Hc|]. intros r [<-|[<-|[<-|[]]]]; vm_compute; discriminate.
  - apply common_ancestorb_spec. vm_compute. reflexivity.
  - split; [reflexivity|]. intros j d Hj Hne. destruct j as [|[|[|j]]]; simpl in Hj.
    + inversion Hj; subst. apply reachb_spec. vm_compute. reflexivity.
    + inversion Hj; subst. apply reachb_spec. vm_compute. reflexivity.
    + now elim Hne.
    + destruct j; discriminate.
Qed.

Lemma fold_not_all_at_once_refuted :
  ~ (forall g cs, closed g -> acyclic g -> complete g cs -> t_seek_fold g cs = t_merge_base g cs).
Proof.
  intros H. destruct fold_witness as [Hc [Ha [Hp [_ [Hm [Hf _]]]]]].
  specialize (H _ _ Hc Ha Hp). rewrite Hm, Hf in H. discriminate.
Qed.

Lemma fold2_same : forall g ins srt a b,
  seek_fold g ins srt [a; b] = seek_common_ancestor g ins srt [a; b].
Proof.
  intros. unfold seek_fold. simpl. destruct (seek_common_ancestor g ins srt [a; b]); reflexivity.
Qed.
