(** Lemmas about model/Graph.v: reachability, its executable enumeration, closedness
    and acyclicity checkers. *)
From W.model Require Import Graph.
From Coq Require Import List NArith ZArith Bool Arith Lia Permutation.
Import ListNotations.

Lemma mem_In : forall x l, mem x l = true <-> In x l.
Proof.
  intros x l. unfold mem. rewrite existsb_exists. split.
  - intros [y [Hy He]]. apply N.eqb_eq in He. subst. exact Hy.
  - intros H. exists x. split; [exact H | apply N.eqb_refl].
Qed.

Lemma mem_false : forall x l, mem x l = false <-> ~ In x l.
Proof.
  intros x l. rewrite <- mem_In. destruct (mem x l); split; congruence.
Qed.

Lemma lookup_In : forall g x c, lookup g x = Some c -> In (x, c) g.
Proof.
  induction g as [|[y c'] g IH]; simpl; intros x c H; [discriminate|].
  destruct (N.eqb x y) eqn:E.
  - apply N.eqb_eq in E. inversion H. subst. now left.
  - right. now apply IH.
Qed.

Lemma lookup_nodes : forall g x c, lookup g x = Some c -> In x (nodes g).
Proof.
  intros g x c H. apply lookup_In in H. unfold nodes.
  change x with (fst (x, c)). now apply in_map.
Qed.

Lemma parents_of_lookup : forall g x t ps, lookup g x = Some (t, ps) -> parents_of g x = ps.
Proof. intros g x t ps H. unfold parents_of. now rewrite H. Qed.

Lemma parents_of_all : forall g x p, In p (parents_of g x) -> In p (all_parents g).
Proof.
  intros g x p H. unfold parents_of in H. destruct (lookup g x) as [[t ps]|] eqn:E; [|contradiction].
  apply lookup_In in E. unfold all_parents. apply in_flat_map. exists (x, (t, ps)). now split.
Qed.

Lemma reach_parents_of : forall g roots x y,
  reach g roots x -> In y (parents_of g x) -> reach g roots y.
Proof.
  intros g roots x y Hx Hy. unfold parents_of in Hy.
  destruct (lookup g x) as [[t ps]|] eqn:E; [|contradiction].
  eapply reach_step; eauto.
Qed.

(** [reach] is the least set containing the roots and closed under parent links *)
Lemma reach_least : forall g roots (S : id -> Prop),
  (forall r, In r roots -> S r) ->
  (forall x y, S x -> In y (parents_of g x) -> S y) ->
  forall x, reach g roots x -> S x.
Proof.
  intros g roots S Hr Hs x H. induction H as [x Hx | x y t ps Hx IH Hl Hy].
  - now apply Hr.
  - apply (Hs x y IH). now rewrite (parents_of_lookup _ _ _ _ Hl).
Qed.

Lemma reach_mono : forall g r1 r2 x,
  (forall r, In r r1 -> reach g r2 r) -> reach g r1 x -> reach g r2 x.
Proof.
  intros g r1 r2 x H Hx. induction Hx as [x Hx | x y t ps Hx IH Hl Hy].
  - now apply H.
  - eapply reach_step; eauto.
Qed.

Lemma reach_trans : forall g roots x y,
  reach g roots x -> reach g [x] y -> reach g roots y.
Proof.
  intros g roots x y Hx Hy. eapply reach_mono; [|exact Hy].
  intros r [<-|[]]. exact Hx.
Qed.

Lemma reach_self : forall g x, reach g [x] x.
Proof. intros. apply reach_root. now left. Qed.

Lemma reach_incl_roots : forall g r1 r2 x, incl r1 r2 -> reach g r1 x -> reach g r2 x.
Proof.
  intros g r1 r2 x H. apply reach_mono. intros r Hr. apply reach_root. now apply H.
Qed.

(** a reachable commit other than a root is present or was named as a parent *)
Lemma reach_single_in : forall g roots x,
  reach g roots x -> exists r, In r roots /\ reach g [r] x.
Proof.
  intros g roots x H. induction H as [x Hx | x y t ps Hx [r [Hr IH]] Hl Hy].
  - exists x. split; [exact Hx | apply reach_self].
  - exists r. split; [exact Hr|]. eapply reach_step; eauto.
Qed.

(** on a closed graph everything reachable from present roots is present *)
Lemma reach_closed_present : forall g roots x,
  closed g -> (forall r, In r roots -> lookup g r <> None) ->
  reach g roots x -> lookup g x <> None.
Proof.
  intros g roots x Hc Hr H. induction H as [x Hx | x y t ps Hx IH Hl Hy].
  - now apply Hr.
  - eapply Hc; eauto.
Qed.

Lemma NoDup_snoc : forall (A : Type) (l : list A) (a : A),
  NoDup l -> ~ In a l -> NoDup (l ++ [a]).
Proof.
  intros A l a Hl Ha. apply NoDup_rev in Hl. rewrite <- (rev_involutive (l ++ [a])).
  apply NoDup_rev. rewrite rev_app_distr. simpl. constructor; [|exact Hl].
  now rewrite <- in_rev.
Qed.

(* ---------------------------------------------------------------------- *)
(** push_new conses the same fresh ids on the queue and on the seen list *)
Lemma push_new_spec : forall ps q seen,
  exists nw, push_new ps q seen = (nw ++ q, nw ++ seen) /\ NoDup nw /\
    (forall x, In x nw -> In x ps /\ ~ In x seen) /\
    (forall x, In x ps -> In x seen \/ In x nw).
Proof.
  induction ps as [|p ps IH]; intros q seen; simpl.
  - exists []. repeat split; simpl; try tauto. constructor.
  - destruct (mem p seen) eqn:E.
    + destruct (IH q seen) as [nw [H1 [H2 [H3 H4]]]]. exists nw. repeat split; auto.
      * right. now apply H3.
      * now apply H3.
      * intros x [<-|Hx]; [left; now apply mem_In | now apply H4].
    + apply mem_false in E.
      destruct (IH (p :: q) (p :: seen)) as [nw [H1 [H2 [H3 H4]]]].
      exists (nw ++ [p]). rewrite <- !app_assoc. simpl. split; [exact H1|]. split; [|split].
      * apply NoDup_snoc; auto. intros Hp. apply H3 in Hp. apply (proj2 Hp). now left.
      * intros x Hx. apply in_app_or in Hx. destruct Hx as [Hx|[<-|[]]].
        -- destruct (H3 x Hx) as [Ha Hb]. split; [now right|]. intros Hs. apply Hb. now right.
        -- split; [now left | exact E].
      * intros x [<-|Hx].
        -- right. apply in_or_app. right. now left.
        -- destruct (H4 x Hx) as [[<-|Hs]|Hn].
           ++ right. apply in_or_app. right. now left.
           ++ now left.
           ++ right. apply in_or_app. now left.
Qed.

Lemma NoDup_app_intro : forall (A : Type) (l1 l2 : list A),
  NoDup l1 -> NoDup l2 -> (forall x, In x l1 -> ~ In x l2) -> NoDup (l1 ++ l2).
Proof.
  induction l1 as [|a l1 IH]; simpl; intros l2 H1 H2 H; [exact H2|].
  inversion H1 as [|a' l' Ha Hl]; subst. constructor.
  - intros Hin. apply in_app_or in Hin. destruct Hin as [Hin|Hin]; [now apply Ha|].
    apply (H a); [now left | exact Hin].
  - apply IH; auto.
Qed.

Lemma NoDup_app_l : forall (A : Type) (l1 l2 : list A), NoDup (l1 ++ l2) -> NoDup l1.
Proof.
  induction l1 as [|a l1 IH]; simpl; intros l2 H; [constructor|].
  inversion H as [|a' l' Ha Hl]; subst. constructor.
  - intros Hin. apply Ha. apply in_or_app. now left.
  - eapply IH; eauto.
Qed.

Lemma NoDup_app_r : forall (A : Type) (l1 l2 : list A), NoDup (l1 ++ l2) -> NoDup l2.
Proof.
  induction l1 as [|a l1 IH]; simpl; intros l2 H; [exact H|].
  inversion H; subst. now apply IH.
Qed.

Lemma NoDup_app_disj : forall (A : Type) (l1 l2 : list A) x,
  NoDup (l1 ++ l2) -> In x l1 -> In x l2 -> False.
Proof.
  induction l1 as [|a l1 IH]; simpl; intros l2 x H H1 H2; [contradiction|].
  inversion H as [|a' l' Ha Hl]; subst. destruct H1 as [<-|H1].
  - apply Ha. apply in_or_app. now right.
  - eapply IH; eauto.
Qed.

(** invariant of the enumeration loop (DESIGN 10a worklist) *)
Definition rl_inv (g : graph) (roots q seen popped : list id) : Prop :=
  NoDup (q ++ popped) /\
  (forall x, In x seen <-> In x q \/ In x popped) /\
  (forall x, In x seen -> reach g roots x) /\
  (forall r, In r roots -> In r seen) /\
  (forall x p, In x popped -> In p (parents_of g x) -> In p seen) /\
  incl seen (roots ++ all_parents g).

Lemma rl_inv_step : forall g roots x r seen popped nw,
  rl_inv g roots (x :: r) seen popped ->
  NoDup nw ->
  (forall y, In y nw -> In y (parents_of g x) /\ ~ In y seen) ->
  (forall y, In y (parents_of g x) -> In y seen \/ In y nw) ->
  rl_inv g roots (nw ++ r) (nw ++ seen) (x :: popped).
Proof.
  intros g roots x r seen popped nw [I1 [I2 [I3 [I4 [I5 I6]]]]] Hn Hnw Hps.
  assert (Hxs : In x seen) by (apply I2; left; now left).
  repeat split.
  - apply (Permutation_NoDup (l := nw ++ (x :: r) ++ popped)).
    + rewrite <- app_assoc. apply Permutation_app_head. simpl.
      apply Permutation_middle.
    + apply NoDup_app_intro; auto. intros y Hy Hin. apply (proj2 (Hnw y Hy)).
      apply I2. now apply in_app_or in Hin.
  - intros Hin. apply in_app_or in Hin. destruct Hin as [Hin|Hin].
    + left. apply in_or_app. now left.
    + apply I2 in Hin. destruct Hin as [[<-|Hin]|Hin].
      * right. now left.
      * left. apply in_or_app. now right.
      * right. now right.
  - intros [Hin|[<-|Hin]].
    + apply in_app_or in Hin. apply in_or_app. destruct Hin as [Hin|Hin]; [now left|].
      right. apply I2. left. now right.
    + apply in_or_app. now right.
    + apply in_or_app. right. apply I2. now right.
  - intros y Hin. apply in_app_or in Hin. destruct Hin as [Hin|Hin]; [|now apply I3].
    apply (reach_parents_of g roots x y); [now apply I3 | now apply Hnw].
  - intros y Hy. apply in_or_app. right. now apply I4.
  - intros y p [<-|Hy] Hp.
    + apply in_or_app. destruct (Hps p Hp); [now right | now left].
    + apply in_or_app. right. eapply I5; eauto.
  - intros y Hin. apply in_app_or in Hin. destruct Hin as [Hin|Hin]; [|now apply I6].
    apply in_or_app. right. eapply parents_of_all. apply (proj1 (Hnw y Hin)).
Qed.

Lemma rl_loop_spec : forall fuel g roots q seen popped,
  rl_inv g roots q seen popped ->
  length (roots ++ all_parents g) < fuel + length popped ->
  let res := rl_loop fuel g q seen popped in
  NoDup res /\ forall x, In x res <-> reach g roots x.
Proof.
  induction fuel as [|fuel IH]; intros g roots q seen popped Hinv Hf.
  - exfalso. destruct Hinv as [I1 [I2 [I3 [I4 [I5 I6]]]]].
    assert (Hle : length (q ++ popped) <= length (roots ++ all_parents g)).
    { apply NoDup_incl_length; [exact I1|]. intros y Hy. apply I6. apply I2. now apply in_app_or in Hy. }
    rewrite app_length in Hle. simpl in Hf. lia.
  - simpl. destruct q as [|x r].
    + destruct Hinv as [I1 [I2 [I3 [I4 [I5 I6]]]]]. simpl in I1. split; [exact I1|].
      intros y. split.
      * intros Hy. apply I3. apply I2. now right.
      * apply (reach_least g roots (fun y => In y popped)).
        -- intros r0 Hr. apply I4 in Hr. apply I2 in Hr. now destruct Hr.
        -- intros a b Ha Hb. assert (Hs := I5 a b Ha Hb). apply I2 in Hs. now destruct Hs.
    + destruct (push_new_spec (parents_of g x) r seen) as [nw [Hp [Hn [Hnw Hps]]]].
      rewrite Hp. apply IH.
      * now apply rl_inv_step.
      * simpl. lia.
Qed.

Theorem reach_list_spec : forall g roots,
  NoDup (reach_list g roots) /\ forall x, In x (reach_list g roots) <-> reach g roots x.
Proof.
  intros g roots. unfold reach_list.
  destruct (push_new_spec roots [] []) as [nw [Hp [Hn [Hnw Hps]]]].
  rewrite Hp, !app_nil_r.
  assert (Hinv : rl_inv g roots nw nw []).
  { repeat split.
    - now rewrite app_nil_r.
    - intros H. now left.
    - intros [H|[]]. exact H.
    - intros x Hx. apply reach_root. now apply Hnw.
    - intros r Hr. destruct (Hps r Hr) as [[]|H]. exact H.
    - intros x p [].
    - intros x Hx. apply in_or_app. left. now apply Hnw. }
  destruct (rl_loop_spec (rl_fuel g roots) g roots nw nw [] Hinv) as [H1 H2].
  - unfold rl_fuel. rewrite app_length. simpl. lia.
  - split; [now apply NoDup_rev|]. intros x. rewrite <- in_rev. apply H2.
Qed.

Theorem reachb_spec : forall g roots x, reachb g roots x = true <-> reach g roots x.
Proof.
  intros g roots x. unfold reachb. rewrite mem_In. apply reach_list_spec.
Qed.

Lemma reachb_false : forall g roots x, reachb g roots x = false <-> ~ reach g roots x.
Proof.
  intros g roots x. rewrite <- reachb_spec. destruct (reachb g roots x); split; congruence.
Qed.

Lemma closedb_closed : forall g, closedb g = true -> closed g.
Proof.
  intros g H x t ps Hl p Hp. unfold closedb in H. rewrite forallb_forall in H.
  apply lookup_In in Hl. specialize (H _ Hl). simpl in H. rewrite forallb_forall in H.
  specialize (H p Hp). unfold has in H. destruct (lookup g p); congruence.
Qed.

Lemma acyclicb_acyclic : forall g, acyclicb g = true -> acyclic g.
Proof.
  intros g H x t ps p Hl Hp. unfold acyclicb in H. rewrite forallb_forall in H.
  apply lookup_In in Hl. specialize (H _ Hl). simpl in H. rewrite forallb_forall in H.
  specialize (H p Hp). apply negb_true_iff in H. now apply reachb_false in H.
Qed.

Lemma common_ancestorb_spec : forall g cs x,
  common_ancestorb g cs x = true <-> common_ancestor g cs x.
Proof.
  intros g cs x. unfold common_ancestorb, common_ancestor. rewrite forallb_forall.
  split; intros H c Hc; apply reachb_spec; now apply H.
Qed.

(** in an acyclic graph two commits that are ancestors of each other are equal *)
Lemma acyclic_antisym : forall g x y,
  acyclic g -> reach g [x] y -> reach g [y] x -> x = y.
Proof.
  intros g x y Ha Hxy Hyx.
  destruct (N.eq_dec x y) as [E|E]; [exact E|exfalso].
  (* y is reached from x through at least one step: take the last one *)
  assert (Hlast : forall r z, reach g [r] z -> z = r \/
            exists w t ps, reach g [r] w /\ lookup g w = Some (t, ps) /\ In z ps).
  { intros r z Hz. induction Hz as [z [<-|[]] | w z t ps Hw IH Hl Hz].
    - now left.
    - right. exists w, t, ps. auto. }
  destruct (Hlast x y Hxy) as [->|[w [t [ps [Hw [Hl Hin]]]]]]; [now apply E|].
  apply (Ha w t ps y Hl Hin). eapply reach_trans; eauto.
Qed.

Lemma closed_complete : forall g roots,
  closed g -> (forall r, In r roots -> lookup g r <> None) -> complete g roots.
Proof. intros g roots Hc Hr x Hx. eapply reach_closed_present; eauto. Qed.

Lemma complete_single : forall g roots c, complete g roots -> In c roots -> complete g [c].
Proof.
  intros g roots c H Hc x Hx. apply H. eapply reach_incl_roots; [|exact Hx].
  intros y [<-|[]]. exact Hc.
Qed.
