(** (vi) objects.BlockIndex.Get (sort.Search with a closure, inlined by the translator as the
    standard library's halving loop): translated body (gen/ExtractedCode.v) = [get_hashed] of
    model/DiffHashed.v, where Rows[j] = 16-byte big-endian key hash ++ 16-byte row sum. *)
From Coq Require Import List ZArith NArith Bool String Lia Arith.
From W.lib Require Import Tree Bytes GoSort GoLang.
From W.proofs Require Import GoLang_proofs.
From W.gen Require Import ExtractedCode.
From W.model Require Import Diff DiffHashed.
Import ListNotations.
Local Open Scope Z_scope.

(** * big-endian numbers of one width compare like the numbers *)
Lemma bcmp_app_eq_len (x y : bytes) p q : length x = length y ->
  bcmp (x ++ [p]) (y ++ [q]) = match bcmp x y with Datatypes.Eq => N.compare p q | c => c end.
Proof.
  revert y; induction x as [|a x IH]; intros [|b y] H; cbn in H; try discriminate.
  - cbn. destruct (N.compare p q); reflexivity.
  - cbn [app bcmp]. destruct (N.compare a b); try reflexivity. apply IH. lia.
Qed.

Lemma bcmp_be w : forall a b, (a < 256 ^ N.of_nat w)%N -> (b < 256 ^ N.of_nat w)%N ->
  bcmp (be w a) (be w b) = N.compare a b.
Proof.
  induction w as [|w IH]; intros a b Ha Hb.
  - cbn in *. assert (a = 0%N) by lia. assert (b = 0%N) by lia. subst. reflexivity.
  - cbn [be]. rewrite bcmp_app_eq_len by (now rewrite !be_length).
    rewrite Nat2N.inj_succ, N.pow_succ_r' in Ha, Hb.
    rewrite IH by (apply N.div_lt_upper_bound; lia).
    pose proof (N.div_mod a 256 ltac:(lia)) as Da. pose proof (N.div_mod b 256 ltac:(lia)) as Db.
    pose proof (N.mod_lt a 256 ltac:(lia)) as Ma. pose proof (N.mod_lt b 256 ltac:(lia)) as Mb.
    clear IH Ha Hb.
    set (qa := (a / 256)%N) in *. set (qb := (b / 256)%N) in *.
    set (ra := (a mod 256)%N) in *. set (rb := (b mod 256)%N) in *. clearbody qa qb ra rb.
    destruct (N.compare_spec qa qb) as [E|L|L].
    + destruct (N.compare_spec ra rb) as [E2|L2|L2]; symmetry.
      * apply N.compare_eq_iff. lia.
      * apply N.compare_lt_iff. lia.
      * apply N.compare_gt_iff. lia.
    + symmetry. apply N.compare_lt_iff. lia.
    + symmetry. apply N.compare_gt_iff. lia.
Qed.

(** * sort.Search: the fuel of [search_loop] is irrelevant once it exceeds the interval *)
Lemma search_loop_fuel (f : nat -> bool) : forall fuel fuel' i j,
  (j - i < fuel)%nat -> (j - i < fuel')%nat -> search_loop fuel f i j = search_loop fuel' f i j.
Proof.
  induction fuel as [|fuel IH]; intros fuel' i j H H'; [lia|].
  destruct fuel' as [|fuel']; [lia|]. cbn [search_loop].
  destruct (Nat.ltb_spec i j) as [L|L]; [|reflexivity].
  assert (Hh : (i <= (i + j) / 2 < j)%nat).
  { split; [apply Nat.div_le_lower_bound; lia|apply Nat.div_lt_upper_bound; lia]. }
  destruct (f ((i + j) / 2)%nat); apply IH; lia.
Qed.

(** * BlockIndex.Get *)
Section Get.
  Variable h : key -> N.

  Definition row_val (r : row) : value := VStr (be 16 (h (fst r)) ++ be 16 (snd r)).
  Definition so_bytes (so : list nat) : bytes := map N.of_nat so.

  Definition enc_get (o : option (nat * rowid)) : fres :=
    match o with
    | Some (j, r) => FOk [v_nat j; VStr (be 16 r)] []
    | None => FOk [VInt 0; VNil] []
    end.

  Lemma go_BlockIndex_Len_spec (so : list nat) (b : block) :
    exists fuel, run_func fuel go_prog go_BlockIndex_Len [VStr (so_bytes so); VList (map row_val b)]
                 = FOk [v_nat (length b)] [].
  Proof.
    start_func go_BlockIndex_Len. stepsn. rewrite map_length. reflexivity.
  Qed.

  Lemma nth_so so i : (i < length so)%nat -> nth i (so_bytes so) 0%N = N.of_nat (nth i so O).
  Proof. intros H. unfold so_bytes. rewrite (nth_indep _ 0%N (N.of_nat O)) by (now rewrite map_length). apply map_nth. Qed.

  Lemma nth_rows (b : block) j : (j < length b)%nat -> nth j (map row_val b) VUnset = row_val (nth j b row0).
  Proof. intros H. rewrite (nth_indep _ VUnset (row_val row0)) by (now rewrite map_length). apply map_nth. Qed.

  Lemma firstn16 (x y : N) : firstn 16 (be 16 x ++ be 16 y) = be 16 x.
  Proof. apply firstn_app_len. apply be_length. Qed.
  Lemma skipn16 (x y : N) : skipn 16 (be 16 x ++ be 16 y) = be 16 y.
  Proof. apply skipn_app_len. apply be_length. Qed.

  Lemma bleb_be16 x y : (x < 2 ^ 128)%N -> (y < 2 ^ 128)%N -> bleb (be 16 x) (be 16 y) = N.leb x y.
  Proof.
    intros Hx Hy. unfold bleb. rewrite bcmp_be by (change (256 ^ N.of_nat 16)%N with (2 ^ 128)%N; assumption).
    unfold N.leb. destruct (x ?= y)%N; reflexivity.
  Qed.
  Lemma beqb_be16 x y : (x < 2 ^ 128)%N -> (y < 2 ^ 128)%N -> beqb (be 16 x) (be 16 y) = N.eqb x y.
  Proof.
    intros Hx Hy. unfold beqb. rewrite bcmp_be by (change (256 ^ N.of_nat 16)%N with (2 ^ 128)%N; assumption).
    destruct (N.compare_spec x y) as [->|L|L].
    - now rewrite N.eqb_refl.
    - symmetry. apply N.eqb_neq. lia.
    - symmetry. apply N.eqb_neq. lia.
  Qed.

  Lemma length_so_bytes so : length (so_bytes so) = length so.
  Proof. apply map_length. Qed.
  Lemma length_rows (b : block) : length (map row_val b) = length b.
  Proof. apply map_length. Qed.

  Ltac norm_extra ::=
    first [ rewrite length_so_bytes | rewrite length_rows
          | rewrite nth_so by side | rewrite nth_rows by side | rewrite nat_N_Z
          | progress change (Z.to_nat 16) with 16%nat | progress unfold row_val ].

  Ltac tidy16 := change (16 - 0)%nat with 16%nat; change (Z.to_nat 16) with 16%nat;
                 rewrite ?skipn_O, ?firstn16, ?skipn16.

  Lemma go_BlockIndex_Get_model (so : list nat) (b : block) (k : key) :
    (length b <= 256)%nat -> length so = length b ->
    Forall (fun o => (o < length b)%nat) so ->
    Forall (fun r => (h (fst r) < 2 ^ 128)%N /\ (snd r < 2 ^ 128)%N) b ->
    (h k < 2 ^ 128)%N ->
    exists fuel, run_func fuel go_prog go_BlockIndex_Get
                          [VStr (so_bytes so); VList (map row_val b); VStr (be 16 (h k))]
                 = enc_get (get_hashed h so b k).
  Proof.
    intros Hn Hso WFso WFb Hk.
    assert (Hrow : forall j, (j < length b)%nat ->
              (h (fst (nth j b row0)) < 2 ^ 128)%N /\ (snd (nth j b row0) < 2 ^ 128)%N).
    { intros j Hj. rewrite Forall_forall in WFb. apply WFb. now apply nth_In. }
    assert (Hoff : forall i, (i < length b)%nat -> (nth i so O < length b)%nat).
    { intros i Hi. rewrite Forall_forall in WFso. apply WFso. apply nth_In. lia. }
    start_func go_BlockIndex_Get.
    stepn. stepn. step_call (go_BlockIndex_Len_spec so b). stepsn.
    step_call (go_BlockIndex_Len_spec so b). unfold v_nat. stepsn.
    (* the inlined sort.Search *)
    set (P := fun i => N.leb (h k) (hkey h b so i)).
    eapply (wp_for_inv _ _ _ _ _ _
                (fun e => exists i j v8 v9 v10, (i <= j <= length b)%nat /\
                   e = [VStr (so_bytes so); VList (map row_val b); VStr (be 16 (h k));
                        VInt (Z.of_nat (length b)); VInt (Z.of_nat (length b)); VInt (Z.of_nat (length b));
                        VInt (Z.of_nat i); VInt (Z.of_nat j); v8; v9; v10; VUnset; VUnset; VUnset] /\
                   search (length b) P = search_loop (S (j - i)) P i j)
                (fun e => match nth 6 e VUnset, nth 7 e VUnset with
                          | VInt i, VInt j => Z.to_nat (j - i)
                          | _, _ => O
                          end)).
      { exists O, (length b), VUnset, VUnset, VUnset. split; [lia|]. split; [reflexivity|].
        unfold search. apply search_loop_fuel; lia. }
      intros e (i & j & v8 & v9 & v10 & Hij & -> & Hinv).
      eexists; split; [evn; reflexivity|].
      cbn [search_loop] in Hinv.
      destruct (Z.ltb_spec (Z.of_nat i) (Z.of_nat j)) as [Hlt|Hge].
      2:{ replace (i <? j)%nat with false in Hinv by (symmetry; apply Nat.ltb_ge; lia).
          assert (i = j) by lia. subst j.
          unfold get_hashed. fold P. rewrite Hinv.
          stepsn.
          destruct (Nat.leb_spec (length b) i) as [Hout|Hin].
          - replace (Z.of_nat (length b) <=? Z.of_nat i) with true by (symmetry; apply Z.leb_le; lia).
            stepsn. reflexivity.
          - replace (Z.of_nat (length b) <=? Z.of_nat i) with false by (symmetry; apply Z.leb_gt; lia).
            pose proof (Hoff i Hin) as Hoi. destruct (Hrow _ Hoi) as [Hh1 Hh2].
            stepsn. tidy16.
            destruct (nth (nth i so O) b row0) as [k' r] eqn:Erow. cbn [fst snd] in *.
            rewrite beqb_be16 by assumption.
            destruct (N.eqb (h k') (h k)).
            + stepsn. tidy16. unfold byte_val. rewrite ?nat_N_Z. reflexivity.
            + stepsn. reflexivity. }
      replace (i <? j)%nat with true in Hinv by (symmetry; apply Nat.ltb_lt; lia).
      set (m := ((i + j) / 2)%nat) in *.
      assert (Hm : (i <= m < j)%nat).
      { unfold m. split; [apply Nat.div_le_lower_bound; lia|apply Nat.div_lt_upper_bound; lia]. }
      assert (Em : Z.shiftr (Z.of_nat i + Z.of_nat j) 1 = Z.of_nat m).
      { rewrite Z.shiftr_div_pow2 by lia. unfold m. rewrite Nat2Z.inj_div, Nat2Z.inj_add. reflexivity. }
      assert (Hmb : (m < length b)%nat) by lia.
      pose proof (Hoff m Hmb) as Hom. destruct (Hrow _ Hom) as [Hh1 Hh2].
      stepn. stepn. unwrap. rewrite Em.
      stepsn. tidy16. rewrite bleb_be16 by assumption.
      fold (hkey h b so m). fold (P m).
      destruct (P m) eqn:EP; cbn [negb].
      + (* j = h *)
        stepsn. split; [|lia].
        exists i, m, (VInt (Z.of_nat m)), (VInt (Z.of_nat m)), (VStr (be 16 (h (fst (nth (nth m so O) b row0))))).
        split; [lia|]. split; [reflexivity|].
        rewrite Hinv. apply search_loop_fuel; lia.
      + (* i = h + 1 *)
        stepsn. split; [|lia].
        exists (S m), j, (VInt (Z.of_nat m)), (VInt (Z.of_nat m)), (VStr (be 16 (h (fst (nth (nth m so O) b row0))))).
        split; [lia|]. split; [repeat f_equal; lia|].
        rewrite Hinv. apply search_loop_fuel; lia.
  Qed.
End Get.
