(** Specs of block / table / block index / commit / profile decoders (model/DecObjects.v). *)
From Coq Require Import String.
From Coq Require Import List Lia Arith ZArith ZifyNat ZifyN ZifyBool.
From W.lib Require Import Tree Bytes GoSlice Reader.
From W.model Require Import DecPrim DecLists DecObjects.
From W.proofs Require Import DecSpec_proofs DecPrim_proofs DecLists_proofs.
Local Open Scope N_scope.

(** ReadField when every allocated byte of the label/newline handling is paid by the bytes
    it consumes (c >= 16): the field costs what its body costs *)
Lemma spec_read_field_c {A} F c (Jf0 : Z) Kf K (label : bytes) (f : prog A) (Rf : A -> nat -> Prop) :
  16 <= c ->
  spec F c (fun _ => Jf0) Kf f Rf ->
  (lab_cost label <= K)%Z -> (Kf <= K)%Z -> (Jf0 + 6 <= K)%Z ->
  spec F c (fun _ => Jf0) K (read_field label f)
       (fun a n => exists nf, Rf a nf /\ n = (length label + 1 + nf + 1)%nat).
Proof.
  intros Hc Hf H1 H2 H3.
  assert (Hz : (lab_cost label - zc c (length label + 1) <= 0)%Z).
  { unfold lab_cost, zc, parser_buf_charge. destruct (length label + 1)%nat eqn:E; nia. }
  eapply spec_conseq.
  - apply (spec_read_field F c (fun _ => Jf0) Kf K label f Rf Hf); [lia|lia|intros; lia].
  - intros a n HR. split; [|exact HR]. unfold fld_J. unfold zc in *. nia.
  - lia.
Qed.

Ltac labcost :=
  match goal with
  | |- context [lab_cost ?l] =>
      let v := eval vm_compute in (lab_cost l) in change (lab_cost l) with v
  end.

(** ** ReadBlockFrom *)
Definition K_block (cp : N) : Z := (40 * Z.of_N cp + 800000)%Z.

Lemma spec_block_read F cp :
  spec F 16 (fun _ => 262100)%Z (K_block cp) (block_read (Capped cp) F) (fun _ n => (4 <= n)%nat).
Proof.
  unfold block_read, K_block.
  eapply (spec_bind _ _ _ 0%Z); [apply spec_alloc|lia|]. intros ?u n0 ->; cbn beta.
  eapply (spec_bind _ _ _ 0%Z); [apply spec_rd_exact; lia|lia|].
  intros nb n1 (-> & Hl & Hw). unfold zc.
  destruct (be_u32_ok nb Hl Hw) as (n & -> & Hnb). cbn [lift bind].
  eapply (spec_bind _ _ _ 0%Z); [apply spec_alloc|unfold sz_slice; cbn [prealloc]; lia|]. intros ?u n2 ->; cbn beta.
  eapply (spec_bind _ _ _ 0%Z); [apply spec_alloc|unfold sz_slice; cbn [prealloc]; lia|]. intros ?u n3 ->; cbn beta.
  eapply (spec_bind _ _ _ (16 * Z.of_N cp + 524400 + 262144 - 2 * Z.of_N strlist_cap0)%Z).
  - apply (spec_for_n_pot F 16 24 (16 * Z.of_N cp + 524400)%Z (fun st => 2 * Z.of_N (snd st))%Z 262144%Z
             (fun _ st => cap_ok (snd st))); try lia.
    + intros i [blk cap] Hi HP. cbn [snd] in *.
      eapply (spec_bind _ _ _ (16 * Z.of_N cp + 524304)%Z); [apply spec_strlist_read; auto|unfold cap_ok in HP; lia|].
      intros [line cap'] k (Hk & Hcap'). cbn [snd] in *.
      eapply (spec_bind _ _ _ 0%Z); [apply spec_alloc|unfold cap_ok in *; lia|]. intros ?u k2 ->; cbn beta.
      apply spec_ret; cbn [snd]; unfold sz_slice; [lia|]. split; [lia|auto].
    + unfold cap_ok, strlist_cap0. cbn [snd]. lia.
  - unfold strlist_cap0, sz_slice. cbn [prealloc]. lia.
  - intros [blk cap'] k Hcap. cbn [snd] in *. unfold cap_ok, strlist_cap0, sz_slice in *. cbn [prealloc].
    cbn beta in *; apply spec_ret; cbn beta; [lia|lia].
Qed.

(** ** Table.ReadFrom *)
Lemma spec_table_block F K : (16 <= K)%Z ->
  spec F 16 (fun _ => -240)%Z K table_block (fun _ n => n = 16%nat).
Proof.
  intros HK. unfold table_block.
  eapply (spec_bind _ _ _ 0%Z); [apply spec_alloc|lia|]. intros ?u n0 ->; cbn beta.
  eapply spec_conseq; [apply (spec_rd_exact F 16 (K - 16)%Z); lia| |lia].
  intros a0 n (-> & _ & _). unfold zc. split; lia.
Qed.

Lemma spec_table_sums F bc :
  spec F 16 (fun _ => - 48 * Z.of_N bc)%Z 16%Z (table_sums F bc)
       (fun l _ => N.of_nat (length l) = bc).
Proof.
  unfold table_sums.
  eapply spec_conseq.
  - apply (spec_for_n F 16 48 16%Z (fun i l => N.of_nat (length l) = i)); try lia.
    + intros i l Hi Hl.
      eapply (spec_bind _ _ _ 0%Z); [apply spec_attempt; apply (spec_table_block F 16); lia|lia|].
      intros [e|b] k HR; cbn beta iota.
      * destruct e; try sfail. congruence.
      * subst k. eapply (spec_bind _ _ _ 0%Z); [apply spec_alloc|lia|]. intros ?u k2 ->; cbn beta.
        cbn beta in *; apply spec_ret; cbn beta; unfold sz_slice; [lia|]. split; [lia|].
        rewrite app_length. cbn. lia.
    + reflexivity.
  - intros a n Hl. split; [lia|exact Hl].
  - lia.
Qed.

Definition K_table (cp : N) : Z := (64 * Z.of_N cp + 800000)%Z.

Lemma spec_table_meta F cp :
  spec F 16 (fun _ => 262100)%Z (16 * Z.of_N cp + 800000)%Z (table_meta (Capped cp) F) (fun _ _ => True).
Proof.
  unfold table_meta.
  eapply (spec_bind _ _ _ (16 * Z.of_N cp + 600000)%Z).
  { apply (spec_read_field_c F 16 262084%Z (K_strlist cp)); [lia|apply spec_strlist_read1| | |];
      unfold K_strlist; try labcost; lia. }
  { lia. }
  intros cols n1 _.
  eapply (spec_bind _ _ _ (4 * Z.of_N cp + 100)%Z).
  { apply (spec_read_field_c F 16 (-60)%Z (4 * Z.of_N cp + 4)%Z); [lia| | | |].
    - eapply (spec_bind _ _ _ 0%Z); [apply spec_alloc|lia|]. intros ?u k ->; cbn beta.
      eapply spec_conseq; [apply spec_uintlist_read| |lia]. intros a n H. split; [lia|exact H].
    - labcost; lia.
    - lia.
    - lia. }
  { lia. }
  intros pk n2 _.
  eapply (spec_bind _ _ _ 100%Z).
  { apply (spec_read_field_c F 16 (-52)%Z 12%Z); [lia| | | |].
    - eapply spec_conseq; [apply (spec_read_u32 F 16 12%Z); lia| |lia]. intros a n H. unfold zc. split; [lia|exact H].
    - labcost; lia.
    - lia.
    - lia. }
  { lia. }
  intros rows n3 _. cbn beta in *; apply spec_ret; cbn beta; [lia|exact I].
Qed.

Lemma spec_table_read F cp :
  spec F 16 (fun _ => 262100)%Z (K_table cp) (table_read (Capped cp) F)
       (fun t _ => length (tb_blocks t) = length (tb_indices t)).
Proof.
  unfold table_read, K_table.
  eapply (spec_bind _ _ _ 0%Z); [apply spec_attempt; apply spec_table_meta|lia|].
  intros [e|[[cols pk] rows]] n1 HR; cbn beta iota.
  - destruct e; try sfail. congruence.
  - set (bc := blocks_count rows).
    eapply (spec_bind _ _ _ 0%Z); [apply spec_alloc|unfold sz_slice; cbn [prealloc]; lia|]. intros ?u n2 ->; cbn beta.
    eapply (spec_bind _ _ _ 16%Z); [apply spec_table_sums|unfold sz_slice; cbn [prealloc]; lia|].
    intros blocks n3 Hb.
    eapply (spec_bind _ _ _ 16%Z); [apply spec_table_sums|unfold sz_slice; cbn [prealloc]; lia|].
    intros idxs n4 Hi.
    cbn beta in *; apply spec_ret; cbn beta; [unfold sz_slice; cbn [prealloc]; lia|]. cbn. lia.
Qed.

(** ** BlockIndex.ReadFrom *)
Lemma spec_blockindex_read F :
  spec F 16 (fun _ => 6500)%Z 6500%Z (blockindex_read F) (fun _ n => (1 <= n)%nat).
Proof.
  unfold blockindex_read.
  eapply (spec_bind _ _ _ 0%Z); [apply spec_alloc|lia|]. intros ?u n0 ->; cbn beta.
  eapply (spec_bind _ _ _ 0%Z); [apply spec_rd_exact; lia|lia|].
  intros lb n1 (-> & Hl & Hw). unfold zc.
  destruct (idx_ok lb 0) as (l & -> & Hin); [lia|]. cbn [lift bind].
  assert (Hlb : l < 256). { unfold wf_bytes in Hw. rewrite Forall_forall in Hw. apply Hw. exact Hin. }
  eapply (spec_bind _ _ _ 0%Z); [apply spec_alloc|unfold sz_slice; lia|]. intros ?u n2 ->; cbn beta.
  eapply (spec_bind _ _ _ 0%Z); [apply spec_rd_exact; lia|unfold sz_slice; lia|].
  intros off n3 (-> & _ & _). unfold zc.
  eapply (spec_bind _ _ _ 32%Z).
  - apply (spec_for_n F 16 0 32%Z (fun _ _ => True)); try lia.
    + intros i rows Hi _.
      eapply (spec_bind _ _ _ 0%Z); [apply spec_alloc|lia|]. intros ?u k ->; cbn beta.
      eapply (spec_bind _ _ _ 0%Z); [apply spec_rd_exact; lia|lia|].
      intros r k2 (-> & _ & _). unfold zc.
      cbn beta in *; apply spec_ret; cbn beta; [lia|]. split; [lia|exact I].
  - unfold sz_slice. lia.
  - intros rows n4 _. apply spec_ret; unfold sz_slice; [lia|lia].
Qed.

(** ** Commit.ReadFrom *)
Section CommitSpec.
  Variable parse_int : bytes -> option Z.
  Variable parse_tz : bytes -> option Z.

  Lemma spec_commit_parent F ps :
    spec F 16 (fun x => match x with inl _ => 0 | inr _ => 50 end)%Z 100%Z (commit_parent ps)
         (fun x n => match x with inl _ => (1 <= n)%nat /\ True | inr _ => True end).
  Proof.
    unfold commit_parent.
    eapply (spec_bind _ _ _ 0%Z); [apply spec_alloc|lia|]. intros ?u n0 ->; cbn beta.
    eapply (spec_bind _ _ _ 0%Z).
    { apply spec_attempt. apply (spec_read_field_c F 16 (-256)%Z 0%Z 30%Z); [lia| | | |].
      - eapply spec_conseq; [apply (spec_rd_exact F 16 0%Z); lia| |lia].
        intros a n H. unfold zc. split; [lia|exact H].
      - labcost; lia.
      - lia.
      - lia. }
    { lia. }
    intros [e|b] n1 HR; cbn beta iota.
    - destruct e; try sfail; [|congruence]. cbn beta in *; apply spec_ret; cbn beta; [lia|exact I].
    - destruct HR as (nf & (-> & _ & _) & ->).
      eapply (spec_bind _ _ _ 0%Z); [apply spec_alloc|lia|]. intros ?u n2 ->; cbn beta.
      apply spec_ret; unfold sz_slice; [lia|]. split; [lia|exact I].
  Qed.

  Lemma spec_commit_read F :
    spec F 16 (fun _ => 100)%Z (K_string + 200)%Z (commit_read parse_int parse_tz F) (fun _ _ => True).
  Proof.
    unfold commit_read, K_string.
    assert (Hstr : spec F 16 (fun _ => 0)%Z K_string read_string (fun _ _ => True)).
    { eapply spec_conseq; [apply (spec_read_string F 16 K_string); lia| |lia].
      intros s n (-> & _ & Hs). split; [|exact I]. unfold str_J, zc, parser_buf_charge.
      destruct (length s); lia. }
    eapply (spec_bind _ _ _ 0%Z); [apply spec_alloc|lia|]. intros ?u n0 ->; cbn beta.
    eapply (spec_bind _ _ _ 50%Z).
    { apply (spec_read_field_c F 16 (-256)%Z 0%Z 50%Z); [lia| | | |].
      - eapply spec_conseq; [apply (spec_rd_exact F 16 0%Z); lia| |lia].
        intros a n H. unfold zc. split; [lia|exact H].
      - labcost; lia.
      - lia.
      - lia. }
    { lia. }
    intros tbl n1 _.
    eapply (spec_bind _ _ _ (K_string + 50)%Z).
    { apply (spec_read_field_c F 16 0%Z K_string); [lia|exact Hstr|unfold K_string; labcost; lia|lia|unfold K_string; lia]. }
    { unfold K_string. lia. }
    intros an n2 _.
    eapply (spec_bind _ _ _ (K_string + 50)%Z).
    { apply (spec_read_field_c F 16 0%Z K_string); [lia|exact Hstr|unfold K_string; labcost; lia|lia|unfold K_string; lia]. }
    { unfold K_string. lia. }
    intros ae n3 _.
    eapply (spec_bind _ _ _ 100%Z).
    { apply (spec_read_field_c F 16 (-220)%Z 36%Z); [lia| | | |].
      - eapply spec_conseq; [apply (spec_read_time F 16 36%Z); lia| |lia].
        intros a n H. unfold zc. split; [lia|exact H].
      - labcost; lia.
      - lia.
      - lia. }
    { unfold K_string. lia. }
    intros tm n4 _.
    eapply (spec_bind _ _ _ (K_string + 50)%Z).
    { apply (spec_read_field_c F 16 0%Z K_string); [lia|exact Hstr|unfold K_string; labcost; lia|lia|unfold K_string; lia]. }
    { unfold K_string. lia. }
    intros msg n5 _.
    eapply (spec_bind _ _ _ 100%Z).
    { apply (spec_loop_u F 16 (fun _ => 50)%Z 100%Z (fun _ => True) commit_parent (fun _ _ => True)); [lia|auto| |exact I].
      intros st _. eapply spec_conseq; [apply spec_commit_parent| |lia].
      intros [x|x] n H; split; try lia; auto. }
    { unfold K_string. lia. }
    intros parents n6 _.
    cbn beta in *; apply spec_ret; cbn beta; [unfold K_string; lia|exact I].
  Qed.
End CommitSpec.

(** ** TableProfile.ReadFrom *)
Lemma spec_next_bytes_pe F c K n : (Z.of_N (parser_buf_charge n) <= K)%Z ->
  spec F c (fun _ => Z.of_N (parser_buf_charge n) - zc c n)%Z K (next_bytes_pe n)
       (fun b n1 => n1 = n /\ length b = n /\ wf_bytes b).
Proof.
  intros HK. unfold next_bytes_pe.
  eapply (spec_bind _ _ _ K); [apply spec_next_bytes|lia|].
  intros [b e] n1 (Hl & Hw & Hc). unfold nb_J, zc. cbn [fst snd] in *.
  destruct Hc as [[-> Hn]|[[-> [Hn Hn0]]|[-> Hn]]]; [|sfail|sfail].
  cbn beta in *; apply spec_ret; cbn beta; [lia|]. repeat split; auto; lia.
Qed.

Definition K_vc (cp : N) : Z := (24 * Z.of_N cp + 131200)%Z.

Lemma spec_value_counts_read F cp :
  spec F 16 (fun _ => -52)%Z (K_vc cp) (value_counts_read (Capped cp) F) (fun _ n => (4 <= n)%nat).
Proof.
  unfold value_counts_read, K_vc.
  eapply (spec_bind _ _ _ 12%Z); [apply spec_next_bytes_pe; cbn; lia|lia|].
  intros b n1 (-> & Hl & Hw). unfold zc. cbn [parser_buf_charge].
  destruct (be_u32_ok b Hl Hw) as (n & -> & Hnb). cbn [lift bind].
  eapply (spec_bind _ _ _ 0%Z); [apply spec_alloc|cbn [prealloc]; lia|]. intros ?u n2 ->; cbn beta.
  eapply spec_conseq.
  - apply (spec_for_n F 16 24 131100%Z (fun _ _ => True)); try lia.
    intros i a Hi _.
    eapply (spec_bind _ _ _ 12%Z); [apply spec_next_bytes_pe; cbn; lia|lia|].
    intros b1 k1 (-> & Hl1 & Hw1). unfold zc. cbn [parser_buf_charge].
    destruct (be_u32_ok b1 Hl1 Hw1) as (cnt & -> & _). cbn [lift bind].
    eapply (spec_bind _ _ _ 8%Z); [apply spec_next_bytes_pe; cbn; lia|lia|].
    intros b2 k2 (-> & Hl2 & Hw2). unfold zc. cbn [parser_buf_charge].
    destruct (be_u16_ok b2 Hl2 Hw2) as (l & -> & Hlb). cbn [lift bind].
    assert (Hch : (Z.of_N (parser_buf_charge (N.to_nat l)) <= 2 * Z.of_N l + 4)%Z).
    { unfold parser_buf_charge. destruct (N.to_nat l) eqn:E; lia. }
    eapply (spec_bind _ _ _ (2 * Z.of_N l + 4)%Z); [apply spec_next_bytes_pe; lia|lia|].
    intros v k3 (-> & Hl3 & Hw3). unfold zc.
    eapply (spec_bind _ _ _ 0%Z); [apply spec_alloc|lia|]. intros ?u k4 ->; cbn beta.
    cbn beta in *; apply spec_ret; cbn beta; [lia|]. split; [lia|exact I].
  - intros a k _. cbn [prealloc]. split; [lia|lia].
  - cbn [prealloc]. lia.
Qed.

Definition K_pf (cp : N) : Z := (24 * Z.of_N cp + 200000)%Z.

Lemma spec_read_float_field F cur :
  spec F 16 (fun _ => -100)%Z 28%Z (read_float_field cur) (fun _ n => n = 8%nat).
Proof.
  unfold read_float_field.
  eapply (spec_bind _ _ _ 0%Z); [apply spec_alloc|lia|]. intros ?u n0 ->; cbn beta.
  eapply (spec_bind _ _ _ 20%Z); [apply (spec_read_f64 F 16 20%Z); lia|destruct cur; lia|].
  intros f n1 (-> & _). unfold zc.
  cbn beta in *; apply spec_ret; cbn beta; [destruct cur; lia|lia].
Qed.

Lemma spec_read_pfield F cp f col :
  spec F 16 (fun _ => 0)%Z (K_pf cp) (read_pfield (Capped cp) F f col) (fun _ n => (2 <= n)%nat).
Proof.
  destruct col as [name na mn mx mean med std pct minl maxl avgl top].
  unfold read_pfield, K_pf.
  assert (Hflt : forall cur (g : option N -> colprof),
    spec F 16 (fun _ => 0)%Z (24 * Z.of_N cp + 200000)%Z
         (v <- read_float_field cur ;; Ret (g v))%prog (fun _ n => (2 <= n)%nat)).
  { intros cur g. eapply (spec_bind _ _ _ 28%Z); [apply spec_read_float_field|lia|].
    intros v n ->. cbn beta in *; apply spec_ret; cbn beta; [lia|lia]. }
  assert (Hu16 : forall (g : N -> colprof),
    spec F 16 (fun _ => 0)%Z (24 * Z.of_N cp + 200000)%Z
         (u <- read_u16 ;; Ret (g u))%prog (fun _ n => (2 <= n)%nat)).
  { intros g. eapply (spec_bind _ _ _ 8%Z); [apply (spec_read_u16 F 16 8%Z); lia|lia|].
    intros v n (-> & _). unfold zc. cbn beta in *; apply spec_ret; cbn beta; [lia|lia]. }
  destruct f; try apply Hflt; try apply Hu16.
  - (* name *)
    eapply (spec_bind _ _ _ K_string); [apply (spec_read_string F 16 K_string); lia|unfold K_string; lia|].
    intros s n (-> & _ & Hs). unfold str_J, zc, parser_buf_charge.
    cbn beta in *; apply spec_ret; cbn beta; [destruct (length s); lia|lia].
  - (* naCount *)
    eapply (spec_bind _ _ _ 12%Z); [apply (spec_read_u32 F 16 12%Z); lia|lia|].
    intros v n (-> & _). unfold zc. cbn beta in *; apply spec_ret; cbn beta; [lia|lia].
  - (* percentiles *)
    eapply (spec_bind _ _ _ 0%Z); [apply spec_alloc|lia|]. intros ?u n0 ->; cbn beta.
    eapply (spec_bind _ _ _ (8 * Z.of_N cp)%Z); [apply spec_floatlist_read|lia|].
    intros l n Hn. cbn beta in *; apply spec_ret; cbn beta; [lia|lia].
  - (* topValues *)
    eapply (spec_bind _ _ _ (K_vc cp)); [apply spec_value_counts_read|unfold K_vc; lia|].
    intros l n Hn. cbn beta in *; apply spec_ret; cbn beta; [lia|lia].
Qed.

Lemma spec_profile_col_step F cp fields nfields col :
  nfields <= N.of_nat (length fields) ->
  spec F 16 (fun _ => 0)%Z (K_pf cp) (profile_col_step (Capped cp) F fields nfields col)
       (fun x n => match x with inl _ => (1 <= n)%nat /\ True | inr _ => (2 <= n)%nat end).
Proof.
  intros Hnf. unfold profile_col_step, K_pf.
  eapply (spec_bind _ _ _ 8%Z); [apply (spec_read_u16 F 16 8%Z); lia|lia|].
  intros j n (-> & Hj). unfold zc.
  destruct (j =? 0) eqn:Ej; [cbn beta in *; apply spec_ret; cbn beta; [lia|lia]|]. apply N.eqb_neq in Ej.
  destruct (nfields <? j) eqn:Enf; [sfail|]. apply N.ltb_ge in Enf.
  destruct (idx_ok fields (N.to_nat j - 1)) as (fld & -> & _); [lia|]. cbn [lift bind].
  destruct (pfield_of_name fld) as [f|]; [|sfail].
  eapply (spec_bind _ _ _ (24 * Z.of_N cp + 200000)%Z); [apply spec_read_pfield|unfold K_pf; lia|].
  intros col' n Hn. cbn beta in *; apply spec_ret; cbn beta; [lia|]. split; [lia|exact I].
Qed.

Definition K_pcols (cp : N) : Z := (32 * Z.of_N cp + 200200)%Z.

Lemma spec_profile_columns F cp fields count :
  spec F 96 (fun _ => 0)%Z (K_pcols cp) (profile_columns (Capped cp) F fields count) (fun _ _ => True).
Proof.
  unfold profile_columns, K_pcols.
  eapply (spec_bind _ _ _ 0%Z); [apply spec_alloc|lia|]. intros ?u n0 ->; cbn beta.
  eapply spec_conseq.
  - apply (spec_for_n F 96 8 (K_pf cp + 136)%Z (fun _ _ => True)); try (unfold K_pf; lia).
    intros i cols Hi _.
    eapply (spec_bind _ _ _ 0%Z); [apply spec_alloc|unfold K_pf; lia|]. intros ?u n1 ->; cbn beta.
    eapply (spec_bind _ _ _ (K_pf cp)).
    { apply (spec_mono_c_gain F 16 96 2); [lia|intros a n H; exact H|].
      apply (spec_loop_u F 16 (fun _ => 0)%Z (K_pf cp) (fun _ => True)
               (profile_col_step (Capped cp) F fields (N.of_nat (length fields) mod 65536))
               (fun _ n => (2 <= n)%nat)); [unfold K_pf; lia|intros; lia| |exact I].
      intros st _. eapply spec_conseq; [apply spec_profile_col_step| |lia].
      - apply N.mod_le. lia.
      - intros [x|x] n H; split; try lia; auto. }
    { unfold sz_colprof. lia. }
    intros col n Hn. cbn beta in *; apply spec_ret; cbn beta; [unfold sz_colprof; lia|]. split; [lia|exact I].
  - intros a n _. cbn [prealloc]. split; [lia|exact I].
  - cbn [prealloc]. unfold K_pf. lia.
Qed.

Definition K_profile (cp : N) : Z := (48 * Z.of_N cp + 800000)%Z.

Lemma spec_profile_read F cp :
  spec F 96 (fun _ => 262100)%Z (K_profile cp) (profile_read (Capped cp) F) (fun _ _ => True).
Proof.
  unfold profile_read, K_profile.
  assert (Hu32 : spec F 96 (fun _ => 0)%Z 12%Z read_u32 (fun _ _ => True)).
  { eapply spec_conseq; [apply (spec_read_u32 F 96 12%Z); lia| |lia]. intros a n H. unfold zc. split; [lia|exact I]. }
  eapply (spec_bind _ _ _ 100%Z).
  { apply (spec_read_field_c F 96 0%Z 12%Z); [lia|exact Hu32|labcost; lia|lia|lia]. }
  { lia. }
  intros version n1 _.
  eapply (spec_bind _ _ _ (16 * Z.of_N cp + 600000)%Z).
  { apply (spec_read_field_c F 96 262084%Z (K_strlist cp)); [lia| | | |].
    - apply (spec_mono_c F 16 96); [lia|apply spec_strlist_read1].
    - labcost; lia.
    - unfold K_strlist; lia.
    - lia. }
  { lia. }
  intros fields n2 _.
  eapply (spec_bind _ _ _ 100%Z).
  { apply (spec_read_field_c F 96 0%Z 12%Z); [lia|exact Hu32|labcost; lia|lia|lia]. }
  { lia. }
  intros rows n3 _.
  eapply (spec_bind _ _ _ 100%Z).
  { apply (spec_read_field_c F 96 0%Z 12%Z); [lia|exact Hu32|labcost; lia|lia|lia]. }
  { lia. }
  intros count n4 _.
  eapply (spec_bind _ _ _ (K_pcols cp + 100)%Z).
  { apply (spec_read_field_c F 96 0%Z (K_pcols cp)); [lia|apply spec_profile_columns|labcost; unfold K_pcols; lia|lia|unfold K_pcols; lia]. }
  { unfold K_pcols. lia. }
  intros cols n5 _. cbn beta in *; apply spec_ret; cbn beta; [lia|exact I].
Qed.
