(** C07 - proofs, part 2: the sender state machine, its object stream, and the
    transfer loop = receive of the stream, for every size limit. *)
From W.lib Require Import Tree.
From W.model Require Import Transfer TransferSpec.
From W.proofs Require Import Transfer_proofs.
From Coq Require Import List NArith Bool Lia Arith.
Import ListNotations.
Local Open Scope N_scope.

Section Send.
Variable src : repo.

(** * The queue contents produced for one commit, and for a list of commits *)

Definition commit_q (tbs ct cb : list N) (p : N * commit) : list qobj * list N * list N :=
  let t := c_table (snd p) in
  if memN t tbs && negb (memN t ct) then
    let '(o, cb') := enqueue_table src t [] cb in (o ++ [QCommit (fst p) (snd p)], t :: ct, cb')
  else ([QCommit (fst p) (snd p)], ct, cb).

Fixpoint all_q (tbs ct cb : list N) (cs : list (N * commit)) : list qobj :=
  match cs with
  | [] => []
  | p :: r => let '(o, ct', cb') := commit_q tbs ct cb p in o ++ all_q tbs ct' cb' r
  end.

Fixpoint emit_all (qs : list qobj) : option (list obj) :=
  match qs with
  | [] => Some []
  | q :: r => match emit src q, emit_all r with
              | Some o, Some l => Some (o :: l)
              | _, _ => None
              end
  end.

Lemma enqueue_blocks_app bl objs cb :
  enqueue_blocks bl objs cb = (objs ++ fst (enqueue_blocks bl [] cb), snd (enqueue_blocks bl [] cb)).
Proof.
  revert objs cb; induction bl as [|b bl IH]; intros objs cb; simpl.
  - rewrite app_nil_r; auto.
  - destruct (memN b cb); auto.
    rewrite (IH (objs ++ [QBlock b])), (IH [QBlock b]). simpl. rewrite <- app_assoc. auto.
Qed.

Lemma enqueue_table_app t objs cb :
  enqueue_table src t objs cb = (objs ++ fst (enqueue_table src t [] cb), snd (enqueue_table src t [] cb)).
Proof.
  unfold enqueue_table. destruct (lookup t (tables src)) as [tc|]; simpl.
  - rewrite (enqueue_blocks_app _ objs). destruct (enqueue_blocks (tbl_blocks tc) [] cb) as [o cb']; simpl.
    rewrite <- app_assoc. auto.
  - rewrite app_nil_r; auto.
Qed.

Lemma enqueue_next_q s p r :
  s_commits s = p :: r ->
  enqueue_next src s =
  let '(o, ct', cb') := commit_q (s_tbs s) (s_ct s) (s_cb s) p in
  mkSender r (s_tbs s) (s_objs s ++ o) ct' cb'.
Proof.
  intros E. unfold enqueue_next, commit_q. rewrite E. destruct p as [c cc]; simpl.
  destruct (memN (c_table cc) (s_tbs s) && negb (memN (c_table cc) (s_ct s))); auto.
  rewrite (enqueue_table_app _ (s_objs s)).
  destruct (enqueue_table src (c_table cc) [] (s_cb s)) as [o cb']; simpl.
  rewrite <- app_assoc. auto.
Qed.

(** * enqueue_blocks *)

Lemma enqueue_blocks_spec bl cb :
  let r := enqueue_blocks bl [] cb in
  (forall q, In q (fst r) -> exists b, q = QBlock b /\ In b bl /\ ~ In b cb) /\
  (forall b, In b bl -> In b cb \/ In (QBlock b) (fst r)) /\
  (forall b, In b (snd r) <-> In b cb \/ In b bl) /\
  (length (fst r) <= length bl)%nat.
Proof.
  revert cb; induction bl as [|b bl IH]; intros cb; simpl.
  - repeat split; try tauto. lia.
  - destruct (memN b cb) eqn:Eb.
    + apply memN_In in Eb. destruct (IH cb) as (A & B & C & D). repeat split.
      * intros q Hq. destruct (A q Hq) as (b' & ? & ? & ?). exists b'; auto.
      * intros b' [E|H]; subst; auto.
      * intros H. apply C in H. tauto.
      * intros [H|[H|H]]; subst; apply C; auto.
      * lia.
    + apply memN_false in Eb. rewrite enqueue_blocks_app. simpl.
      destruct (IH (b :: cb)) as (A & B & C & D). repeat split.
      * intros q [Hq|Hq]; [subst; exists b; auto|].
        destruct (A q Hq) as (b' & ? & ? & Hn). exists b'. repeat split; auto. intros X; apply Hn; right; auto.
      * intros b' [E|H]; [subst; auto|]. destruct (B b' H) as [[E|H1]|H1]; subst; auto.
      * intros H. apply C in H. simpl in H. tauto.
      * intros H. apply C. simpl. tauto.
      * lia.
Qed.

(** * Measure and the drain / write loops *)

Definition sinv (s : sender) : Prop := s_objs s = [] -> s_commits s = [].

Definition cmeasure (cs : list (N * commit)) : nat :=
  fold_right (fun p acc => (2 + nblocks src (c_table (snd p)) + acc)%nat) 0%nat cs.

Lemma measure_unfold s : sender_measure src s = (length (s_objs s) + cmeasure (s_commits s))%nat.
Proof. reflexivity. Qed.

Lemma commit_q_length tbs ct cb p :
  (length (fst (fst (commit_q tbs ct cb p))) <= 2 + nblocks src (c_table (snd p)))%nat.
Proof.
  unfold commit_q. destruct (memN _ tbs && _); simpl; [|lia].
  unfold enqueue_table, nblocks, src_tbl_blocks.
  destruct (lookup (c_table (snd p)) (tables src)) as [tc|]; simpl; [|lia].
  pose proof (enqueue_blocks_spec (tbl_blocks tc) cb) as (_ & _ & _ & L).
  destruct (enqueue_blocks (tbl_blocks tc) [] cb) as [o cb']; simpl in *.
  rewrite !app_length. simpl. lia.
Qed.

Lemma measure_enqueue_next s : (sender_measure src (enqueue_next src s) <= sender_measure src s)%nat.
Proof.
  destruct (s_commits s) as [|p r] eqn:E.
  - unfold enqueue_next. rewrite E. lia.
  - rewrite (enqueue_next_q _ _ _ E). pose proof (commit_q_length (s_tbs s) (s_ct s) (s_cb s) p) as L.
    destruct (commit_q (s_tbs s) (s_ct s) (s_cb s) p) as [[o ct'] cb']. simpl in L.
    rewrite !measure_unfold. simpl. rewrite E. rewrite app_length. simpl. lia.
Qed.

(* the sender state after popping the head of a non-empty queue *)
Definition pop (s : sender) (rest : list qobj) : sender :=
  let s1 := mkSender (s_commits s) (s_tbs s) rest (s_ct s) (s_cb s) in
  match rest with [] => enqueue_next src s1 | _ => s1 end.

Lemma pop_measure s q rest : s_objs s = q :: rest -> (S (sender_measure src (pop s rest)) <= sender_measure src s)%nat.
Proof.
  intros E. unfold pop. destruct rest.
  - eapply Nat.le_trans; [apply le_n_S, measure_enqueue_next|]. rewrite !measure_unfold, E. simpl. lia.
  - rewrite !measure_unfold, E. simpl. lia.
Qed.

Lemma commit_q_nonempty tbs ct cb p : fst (fst (commit_q tbs ct cb p)) <> [].
Proof.
  unfold commit_q. destruct (memN _ tbs && _); simpl; [|discriminate].
  destruct (enqueue_table src _ [] cb) as [o cb']; simpl. destruct o; discriminate.
Qed.

Lemma pop_sinv s rest : sinv (pop s rest).
Proof.
  unfold pop, sinv. destruct rest; simpl; [|discriminate].
  destruct (s_commits s) as [|p r] eqn:E.
  - unfold enqueue_next; simpl. auto.
  - rewrite (enqueue_next_q _ p r); simpl; auto.
    pose proof (commit_q_nonempty (s_tbs s) (s_ct s) (s_cb s) p) as NE.
    destruct (commit_q (s_tbs s) (s_ct s) (s_cb s) p) as [[o ct'] cb']. simpl in *. intros; contradiction.
Qed.

Definition pending (s : sender) : list qobj :=
  s_objs s ++ all_q (s_tbs s) (s_ct s) (s_cb s) (s_commits s).

Lemma pop_pending s q rest : s_objs s = q :: rest -> pending s = q :: pending (pop s rest).
Proof.
  intros E. unfold pending, pop. rewrite E. destruct rest; simpl; auto.
  destruct (s_commits s) as [|p r] eqn:Ec.
  - unfold enqueue_next; simpl. auto.
  - rewrite (enqueue_next_q _ p r); simpl; auto.
    destruct (commit_q (s_tbs s) (s_ct s) (s_cb s) p) as [[o ct'] cb']. simpl. auto.
Qed.

Lemma drain_spec f s : sinv s -> (sender_measure src s <= f)%nat -> drain f src s = emit_all (pending s).
Proof.
  revert s; induction f as [|f IH]; intros s Hs Hm.
  - destruct (s_objs s) as [|q rest] eqn:E.
    + unfold pending. rewrite E, (Hs E). simpl. rewrite E. auto.
    + rewrite measure_unfold, E in Hm. simpl in Hm. lia.
  - destruct (s_objs s) as [|q rest] eqn:E.
    + unfold pending. rewrite E, (Hs E). simpl. rewrite E. auto.
    + rewrite (pop_pending _ _ _ E). simpl. rewrite E.
      destruct (emit src q) as [o|]; auto.
      fold (pop s rest). rewrite IH; auto using pop_sinv.
      pose proof (pop_measure _ _ _ E). lia.
Qed.

Lemma drain_nil f s : drain f src s = Some [] -> s_objs s = [].
Proof.
  destruct f; simpl; destruct (s_objs s); auto; try discriminate.
  destruct (emit src q); try discriminate. destruct (drain _ _ _); discriminate.
Qed.

Section Loop.
Variable size : obj -> N.
Variable max : N.

Lemma drain_unfold f s :
  drain f src s =
  match s_objs s with
  | [] => Some []
  | q :: rest =>
    match f with
    | O => None
    | S f' => match emit src q with
              | None => None
              | Some o => match drain f' src (pop s rest) with Some l => Some (o :: l) | None => None end
              end
    end
  end.
Proof. destruct f; reflexivity. Qed.

Lemma write_loop_unfold f s sz :
  write_loop size f src max s sz =
  match s_objs s with
  | [] => WOk s [] (s_done s)
  | q :: rest =>
    match f with
    | O => WFuel
    | S f' => match emit src q with
              | None => WErr
              | Some o =>
                if max <=? sz + size o then WOk (pop s rest) [o] (s_done (pop s rest))
                else match write_loop size f' src max (pop s rest) (sz + size o) with
                     | WOk s3 pack done => WOk s3 (o :: pack) done
                     | r => r
                     end
              end
    end
  end.
Proof. destruct f; reflexivity. Qed.

Lemma write_loop_drain f : forall s sz objs,
  sinv s ->
  drain f src s = Some objs ->
  exists s' pack rest,
    write_loop size f src max s sz = WOk s' pack (s_done s') /\
    objs = pack ++ rest /\
    drain (f - length pack) src s' = Some rest /\
    sinv s' /\
    (s_objs s <> [] -> pack <> []) /\
    (sender_measure src s' + length pack <= sender_measure src s)%nat.
Proof.
  induction f as [|f IH]; intros s sz objs Hs Hd; rewrite drain_unfold in Hd; rewrite write_loop_unfold.
  - destruct (s_objs s) eqn:E; [|discriminate]. inversion Hd; subst.
    exists s, [], []. repeat split; auto.
    + rewrite drain_unfold, E; auto.
    + simpl; lia.
  - destruct (s_objs s) as [|q rest] eqn:E.
    + inversion Hd; subst. exists s, [], []. repeat split; auto.
      * rewrite drain_unfold, E; auto.
      * simpl; lia.
    + destruct (emit src q) as [o|]; [|discriminate].
      destruct (drain f src (pop s rest)) as [l|] eqn:Ed; [|discriminate]. inversion Hd; subst objs.
      pose proof (pop_measure _ _ _ E) as Hm.
      destruct (max <=? sz + size o).
      * exists (pop s rest), [o], l. replace (S f - length [o])%nat with f by (simpl; lia).
        repeat split; auto using pop_sinv; try discriminate. simpl; lia.
      * destruct (IH (pop s rest) (sz + size o) l (pop_sinv _ _) Ed) as (s' & pack & rest' & A & B & C & D & _ & G).
        rewrite A. exists s', (o :: pack), rest'. subst l.
        replace (S f - length (o :: pack))%nat with (f - length pack)%nat by (simpl; lia).
        repeat split; auto; try discriminate. simpl; lia.
Qed.

Lemma s_done_true s : sinv s -> s_objs s = [] -> s_done s = true.
Proof. intros H E. unfold s_done. rewrite E, (H E). auto. Qed.

Lemma s_done_objs s : s_done s = true -> s_objs s = [].
Proof. unfold s_done. destruct (s_objs s); auto; discriminate. Qed.

Variable bshape : N -> N.

Lemma tstate_tcons p r : tstate (tcons p r) = tstate r.
Proof. destruct r; auto. Qed.

Lemma transfer_loop_spec fuel : forall s d objs,
  sinv s ->
  drain (sender_measure src s) src s = Some objs ->
  (sender_measure src s < fuel)%nat ->
  let r := transfer_loop bshape size fuel src max s d in
  tstate r = Some (recv_all bshape d objs) /\
  (forall d', recv_all bshape d objs = ROk d' -> packs_of objs (tpacks r)).
Proof.
  induction fuel as [|fuel IH]; intros s d objs Hs Hd Hf; [lia|].
  simpl. unfold write_objects.
  destruct (write_loop_drain _ s 0 objs Hs Hd) as (s' & pack & rest & A & B & C & D & E & G).
  rewrite A. subst objs. rewrite recv_all_app.
  destruct (recv_all bshape d pack) as [d1|d1] eqn:Er; [|simpl; split; auto; discriminate].
  assert (Hd' : drain (sender_measure src s') src s' = Some rest).
  { rewrite drain_spec in C |- *; auto; lia. }
  destruct (s_done s') eqn:Edone.
  - (* last packfile *)
    assert (rest = []).
    { apply s_done_objs in Edone. rewrite drain_spec in Hd'; auto. unfold pending in Hd'.
      unfold s_done in *. destruct (s_objs s') eqn:Eo; [|discriminate].
      rewrite (D Eo) in Hd'. simpl in Hd'. congruence. }
    subst rest. simpl. split; auto. intros d' _. rewrite app_nil_r. unfold packs_of. simpl. rewrite app_nil_r.
    split; auto. split; [intros; subst; auto|]. intros; constructor; auto.
  - (* more to come *)
    assert (Hne : s_objs s <> []).
    { intros Eo. destruct (write_loop_drain _ s 0 (pack ++ rest) Hs Hd) as (s2 & p2 & r2 & A2 & _).
      rewrite A in A2. inversion A2; subst s2 p2.
      assert (pack = [] /\ s' = s) as [? ?].
      { clear - A Eo. destruct (sender_measure src s); simpl in A; rewrite Eo in A; inversion A; auto. }
      subst. rewrite (s_done_true _ Hs Eo) in Edone. discriminate. }
    specialize (E Hne).
    assert (Hlt : (sender_measure src s' < fuel)%nat).
    { destruct pack; [congruence|]. simpl in G. lia. }
    assert (Hrest : rest <> []).
    { intros Er0. subst rest. apply drain_nil in Hd'. rewrite (s_done_true _ D Hd') in Edone. discriminate. }
    specialize (IH s' d1 rest D Hd' Hlt). simpl in IH. destruct IH as [I1 I2].
    rewrite tstate_tcons. split; auto.
    intros d' Hok. specialize (I2 d' Hok). destruct I2 as (P1 & P2 & P3).
    assert (Hshape : tpacks (tcons pack (transfer_loop bshape size fuel src max s' d1)) =
                     pack :: tpacks (transfer_loop bshape size fuel src max s' d1)).
    { destruct (transfer_loop bshape size fuel src max s' d1); simpl in *; auto; try discriminate. }
    rewrite Hshape. unfold packs_of. simpl. rewrite P1. split; auto. split.
    + intros X. apply app_eq_nil in X. tauto.
    + intros _. constructor; auto.
Qed.

End Loop.

(** * The stream and the transfer, from a fresh sender *)

Lemma new_sender_spec to_send tbs commons s :
  new_sender src to_send tbs commons = Some s ->
  exists ct, common_tables src commons = Some ct /\ sinv s /\
             pending s = all_q tbs ct (common_blocks src ct) to_send.
Proof.
  unfold new_sender. destruct (common_tables src commons) as [ct|]; [|discriminate].
  intros H; inversion H; subst. exists ct. split; auto.
  set (s0 := mkSender to_send tbs [] ct (common_blocks src ct)).
  destruct to_send as [|p r].
  - unfold enqueue_next; simpl. split; [intros _; auto|]. reflexivity.
  - rewrite (enqueue_next_q s0 p r); auto. simpl.
    pose proof (commit_q_nonempty tbs ct (common_blocks src ct) p) as NE.
    unfold pending. simpl.
    destruct (commit_q tbs ct (common_blocks src ct) p) as [[o ct'] cb']. simpl in *.
    split; auto. intros X; contradiction.
Qed.

Theorem stream_spec to_send tbs commons :
  stream src to_send tbs commons =
  match common_tables src commons with
  | None => None
  | Some ct => emit_all (all_q tbs ct (common_blocks src ct) to_send)
  end.
Proof.
  unfold stream. destruct (new_sender src to_send tbs commons) as [s|] eqn:E.
  - destruct (new_sender_spec _ _ _ _ E) as (ct & E1 & Hs & Hp). rewrite E1, <- Hp.
    apply drain_spec; auto.
  - unfold new_sender in E. destruct (common_tables src commons); [discriminate|auto].
Qed.

Theorem transfer_spec bshape size to_send tbs commons max dst objs :
  stream src to_send tbs commons = Some objs ->
  let r := transfer bshape size src to_send tbs commons max dst in
  tstate r = Some (recv_all bshape dst objs) /\
  (forall d', recv_all bshape dst objs = ROk d' -> packs_of objs (tpacks r)).
Proof.
  unfold stream, transfer. destruct (new_sender src to_send tbs commons) as [s|] eqn:E; [|discriminate].
  intros Hd. destruct (new_sender_spec _ _ _ _ E) as (ct & _ & Hs & _).
  apply transfer_loop_spec; auto.
Qed.

End Send.
