(** C13 - lemmas about the repository state machine of model/CrashRepo.v:
    decidable equalities, the effect of one atomic write on every component, the
    single-write preservation lemmas (one per invariant and write kind), the [safe_seq]
    framework that lifts them to every prefix of a write list, and the soundness of the
    boolean checkers. *)
From Coq Require Import List NArith Bool Lia Permutation.
From W.model Require Import CrashRepo.
Import ListNotations.
Local Open Scope N_scope.

(* ------------------------------------------------------------------ equalities *)

Lemma list_eqb_eq {A} (e : A -> A -> bool) :
  (forall a b, e a b = true <-> a = b) -> forall l1 l2, list_eqb e l1 l2 = true <-> l1 = l2.
Proof.
  intros He l1; induction l1 as [|x l1 IH]; intros [|y l2]; cbn; try (split; congruence).
  rewrite andb_true_iff, He, IH. split; [intros [-> ->]; reflexivity | intros H; inversion H; auto].
Qed.

Lemma pair_eqb_eq a b : pair_eqb a b = true <-> a = b.
Proof.
  destruct a, b; unfold pair_eqb; cbn. rewrite andb_true_iff, !N.eqb_eq.
  split; [intros [-> ->]; reflexivity | intros H; inversion H; auto].
Qed.

Lemma table_eqb_eq a b : table_eqb a b = true <-> a = b.
Proof.
  destruct a as [m1 r1], b as [m2 r2]; unfold table_eqb; cbn.
  rewrite andb_true_iff, N.eqb_eq, (list_eqb_eq pair_eqb pair_eqb_eq).
  split; [intros [-> ->]; reflexivity | intros H; inversion H; auto].
Qed.

Lemma table_eqb_refl t : table_eqb t t = true.
Proof. apply table_eqb_eq; reflexivity. Qed.

Fixpoint cid_ind' (P : cid -> Prop)
    (H : forall t ps n, Forall P ps -> P (Cid t ps n)) (c : cid) : P c :=
  match c with
  | Cid t ps n =>
      H t ps n ((fix go (l : list cid) : Forall P l :=
                   match l with
                   | [] => Forall_nil P
                   | x :: l' => Forall_cons x (cid_ind' P H x) (go l')
                   end) ps)
  end.

Lemma cid_eqb_unfold t1 p1 n1 t2 p2 n2 :
  cid_eqb (Cid t1 p1 n1) (Cid t2 p2 n2) = table_eqb t1 t2 && N.eqb n1 n2 && list_eqb cid_eqb p1 p2.
Proof.
  cbn [cid_eqb]. f_equal. revert p2; induction p1 as [|x p1 IH]; intros [|y p2]; cbn; try reflexivity.
  rewrite IH; reflexivity.
Qed.

Lemma cid_eqb_eq a b : cid_eqb a b = true <-> a = b.
Proof.
  revert b; induction a as [t1 p1 n1 IH] using cid_ind'; intros [t2 p2 n2].
  rewrite cid_eqb_unfold, !andb_true_iff, table_eqb_eq, N.eqb_eq.
  assert (Hl : forall p2, list_eqb cid_eqb p1 p2 = true <-> p1 = p2).
  { clear -IH. induction IH as [|x l Hx _ IHl]; intros [|y p2]; cbn; try (split; congruence).
    rewrite andb_true_iff, Hx, IHl. split; [intros [-> ->]; reflexivity | intros H; inversion H; auto]. }
  rewrite Hl. split; [intros [[-> ->] ->]; reflexivity | intros H; inversion H; auto].
Qed.

Lemma cid_eqb_refl c : cid_eqb c c = true.
Proof. apply cid_eqb_eq; reflexivity. Qed.

Lemma cid_eqb_neq a b : cid_eqb a b = false <-> a <> b.
Proof.
  split; intros H.
  - intros ->. rewrite cid_eqb_refl in H; discriminate.
  - destruct (cid_eqb a b) eqn:E; auto. apply cid_eqb_eq in E; contradiction.
Qed.

Fixpoint shape_ind' (P : shape -> Prop)
    (H : forall t ps, Forall P ps -> P (Shape t ps)) (c : shape) : P c :=
  match c with
  | Shape t ps =>
      H t ps ((fix go (l : list shape) : Forall P l :=
                 match l with
                 | [] => Forall_nil P
                 | x :: l' => Forall_cons x (shape_ind' P H x) (go l')
                 end) ps)
  end.

Lemma shape_eqb_unfold t1 p1 t2 p2 :
  shape_eqb (Shape t1 p1) (Shape t2 p2) = table_eqb t1 t2 && list_eqb shape_eqb p1 p2.
Proof.
  cbn [shape_eqb]. f_equal. revert p2; induction p1 as [|x p1 IH]; intros [|y p2]; cbn; try reflexivity.
  rewrite IH; reflexivity.
Qed.

Lemma shape_eqb_eq a b : shape_eqb a b = true <-> a = b.
Proof.
  revert b; induction a as [t1 p1 IH] using shape_ind'; intros [t2 p2].
  rewrite shape_eqb_unfold, !andb_true_iff, table_eqb_eq.
  assert (Hl : forall p2, list_eqb shape_eqb p1 p2 = true <-> p1 = p2).
  { clear -IH. induction IH as [|x l Hx _ IHl]; intros [|y p2]; cbn; try (split; congruence).
    rewrite andb_true_iff, Hx, IHl. split; [intros [-> ->]; reflexivity | intros H; inversion H; auto]. }
  rewrite Hl. split; [intros [-> ->]; reflexivity | intros H; inversion H; auto].
Qed.

(* ------------------------------------------------------------------ list sets *)

Section Sets.
  Context {A : Type} (e : A -> A -> bool) (He : forall a b, e a b = true <-> a = b).

  Lemma memb_In x l : memb e x l = true <-> In x l.
  Proof.
    unfold memb. rewrite existsb_exists. split.
    - intros [y [Hy Hxy]]. apply He in Hxy. subst; auto.
    - intros H. exists x. split; auto. apply He; reflexivity.
  Qed.

  Lemma memb_false x l : memb e x l = false <-> ~ In x l.
  Proof.
    rewrite <- memb_In. destruct (memb e x l); split; intros H; try congruence;
      try (exfalso; apply H; reflexivity).
  Qed.

  Lemma In_addb x y l : In x (addb e y l) <-> x = y \/ In x l.
  Proof.
    unfold addb. destruct (memb e y l) eqn:E.
    - apply memb_In in E. split; [auto | intros [-> | H]; auto].
    - rewrite in_app_iff. cbn. split; [intros [H | [H | []]]; auto | intros [-> | H]; auto].
  Qed.

  Lemma In_delb x y l : In x (delb e y l) <-> In x l /\ x <> y.
  Proof.
    unfold delb. rewrite filter_In. split; intros [H1 H2]; split; auto.
    - intros ->. assert (e y y = true) by (apply He; reflexivity). rewrite H in H2; discriminate.
    - destruct (e y x) eqn:E; auto. apply He in E. subst; contradiction.
  Qed.

  Lemma inclb_incl l1 l2 : inclb e l1 l2 = true <-> (forall x, In x l1 -> In x l2).
  Proof.
    unfold inclb. rewrite forallb_forall. split; intros H x Hx; [apply memb_In | apply memb_In]; auto.
  Qed.

End Sets.

Lemma NoDup_snoc {A} (y : A) l : NoDup l -> ~ In y l -> NoDup (l ++ [y]).
Proof.
  induction l as [|x l IH]; cbn; intros H Hy.
  - constructor; [intros [] | constructor].
  - inversion H; subst. constructor.
    + rewrite in_app_iff. cbn. intros [H' | [H' | []]]; [contradiction | subst; apply Hy; left; reflexivity].
    + apply IH; auto.
Qed.

Lemma NoDup_addb {A} (e : A -> A -> bool) (He : forall a b, e a b = true <-> a = b) y l :
  NoDup l -> NoDup (addb e y l).
Proof.
  intros H. unfold addb. destruct (memb e y l) eqn:E; auto.
  apply (memb_false e He) in E. apply NoDup_snoc; auto.
Qed.

Lemma NoDup_filter' {A} (f : A -> bool) l : NoDup l -> NoDup (filter f l).
Proof. apply NoDup_filter. Qed.

Definition In_blocks_add := In_addb N.eqb N.eqb_eq.
Definition In_tables_add := In_addb table_eqb table_eqb_eq.
Definition In_commits_add := In_addb cid_eqb cid_eqb_eq.
Definition In_blocks_del := In_delb N.eqb N.eqb_eq.
Definition In_tables_del := In_delb table_eqb table_eqb_eq.
Definition In_commits_del := In_delb cid_eqb cid_eqb_eq.

(* ------------------------------------------------------------------ refs *)

Lemma In_del_key {V} (r : N) (l : list (N * V)) x v : In (x, v) (del_key r l) <-> In (x, v) l /\ x <> r.
Proof.
  unfold del_key. rewrite filter_In. cbn. rewrite negb_true_iff, N.eqb_neq. tauto.
Qed.

Lemma head_of_In r s c : head_of r s = Some c -> exists f, In (r, (c, f)) (refs s).
Proof.
  unfold head_of, get_ref. destruct (find _ (refs s)) as [[r' [c' f]]|] eqn:E; try discriminate.
  intros H; inversion H; subst. apply find_some in E. destruct E as [Hin Hr]. cbn in Hr.
  apply N.eqb_eq in Hr. subst. exists f; auto.
Qed.

Lemma get_ref_In r s v : get_ref r s = Some v -> In (r, v) (refs s).
Proof.
  unfold get_ref. destruct (find _ (refs s)) as [[r' v']|] eqn:E; try discriminate.
  intros H; inversion H; subst. apply find_some in E. destruct E as [Hin Hr]. cbn in Hr.
  apply N.eqb_eq in Hr. subst. auto.
Qed.

(* ------------------------------------------------------------------ classification of writes *)

(** writes that only add objects / set refs *)
Definition is_put (w : write) : Prop :=
  match w with
  | PutBlock _ | PutBlkIdx _ | PutTblIdx _ | PutProf _ | PutTable _ | PutCommit _ | SetRefLog _ _ _ => True
  | _ => False
  end.
(** writes that touch neither refs nor logs *)
Definition is_obj (w : write) : Prop :=
  match w with SetRefLog _ _ _ | DelRef _ => False | _ => True end.
(** object deletions *)
Definition is_del (w : write) : Prop :=
  match w with
  | DelBlock _ | DelBlkIdx _ | DelTable _ | DelTblIdx _ | DelProf _ | DelCommit _ => True
  | _ => False
  end.

Lemma apply_obj_refs w s : is_obj w -> refs (apply w s) = refs s.
Proof. destruct s, w; cbn; intros H; try reflexivity; contradiction. Qed.

Lemma apply_all_obj_refs ws s : Forall is_obj ws -> refs (apply_all ws s) = refs s.
Proof.
  revert s; induction ws as [|w ws IH]; intros s H; cbn; auto.
  inversion H; subst. unfold apply_all in *. cbn. rewrite IH; auto. apply apply_obj_refs; auto.
Qed.

Lemma apply_all_app ws1 ws2 s : apply_all (ws1 ++ ws2) s = apply_all ws2 (apply_all ws1 s).
Proof. unfold apply_all. apply fold_left_app. Qed.

Lemma apply_all_cons w ws s : apply_all (w :: ws) s = apply_all ws (apply w s).
Proof. reflexivity. Qed.

(* ---- membership after one write *)

Lemma In_commits_apply w s x :
  In x (commits (apply w s)) <->
  match w with
  | PutCommit c => x = c \/ In x (commits s)
  | DelCommit c => In x (commits s) /\ x <> c
  | _ => In x (commits s)
  end.
Proof. destruct s, w; cbn; try tauto; [apply In_commits_add | apply In_commits_del]. Qed.

Lemma In_tables_apply w s x :
  In x (tables (apply w s)) <->
  match w with
  | PutTable t => x = t \/ In x (tables s)
  | DelTable t => In x (tables s) /\ x <> t
  | _ => In x (tables s)
  end.
Proof. destruct s, w; cbn; try tauto; [apply In_tables_add | apply In_tables_del]. Qed.

Lemma In_tblidx_apply w s x :
  In x (tblidx (apply w s)) <->
  match w with
  | PutTblIdx t => x = t \/ In x (tblidx s)
  | DelTblIdx t => In x (tblidx s) /\ x <> t
  | _ => In x (tblidx s)
  end.
Proof. destruct s, w; cbn; try tauto; [apply In_tables_add | apply In_tables_del]. Qed.

Lemma In_prof_apply w s x :
  In x (prof (apply w s)) <->
  match w with
  | PutProf t => x = t \/ In x (prof s)
  | DelProf t => In x (prof s) /\ x <> t
  | _ => In x (prof s)
  end.
Proof. destruct s, w; cbn; try tauto; [apply In_tables_add | apply In_tables_del]. Qed.

Lemma In_blocks_apply w s x :
  In x (blocks (apply w s)) <->
  match w with
  | PutBlock b => x = b \/ In x (blocks s)
  | DelBlock b => In x (blocks s) /\ x <> b
  | _ => In x (blocks s)
  end.
Proof. destruct s, w; cbn; try tauto; [apply In_blocks_add | apply In_blocks_del]. Qed.

Lemma In_blkidx_apply w s x :
  In x (blkidx (apply w s)) <->
  match w with
  | PutBlkIdx b => x = b \/ In x (blkidx s)
  | DelBlkIdx b => In x (blkidx s) /\ x <> b
  | _ => In x (blkidx s)
  end.
Proof. destruct s, w; cbn; try tauto; [apply In_blocks_add | apply In_blocks_del]. Qed.

Lemma In_refs_apply w s r v :
  In (r, v) (refs (apply w s)) <->
  match w with
  | SetRefLog r' c f => (r = r' /\ v = (c, f)) \/ (In (r, v) (refs s) /\ r <> r')
  | DelRef r' => In (r, v) (refs s) /\ r <> r'
  | _ => In (r, v) (refs s)
  end.
Proof.
  destruct s, w; cbn; try tauto.
  - rewrite In_del_key. split.
    + intros [H | H]; [inversion H; auto | auto].
    + intros [[-> ->] | H]; auto.
  - apply In_del_key.
Qed.

(* ---- monotonicity of put-only sequences *)

Lemma put_mono w s : is_put w ->
  (forall x, In x (commits s) -> In x (commits (apply w s))) /\
  (forall x, In x (tables s) -> In x (tables (apply w s))) /\
  (forall x, In x (tblidx s) -> In x (tblidx (apply w s))) /\
  (forall x, In x (prof s) -> In x (prof (apply w s))) /\
  (forall x, In x (blocks s) -> In x (blocks (apply w s))) /\
  (forall x, In x (blkidx s) -> In x (blkidx (apply w s))).
Proof.
  intros Hp. repeat split; intros x Hx;
    [apply In_commits_apply | apply In_tables_apply | apply In_tblidx_apply
     | apply In_prof_apply | apply In_blocks_apply | apply In_blkidx_apply];
    destruct w; cbn in Hp; try contradiction; auto.
Qed.

Definition objs_le (s s' : state) : Prop :=
  (forall x, In x (commits s) -> In x (commits s')) /\
  (forall x, In x (tables s) -> In x (tables s')) /\
  (forall x, In x (tblidx s) -> In x (tblidx s')) /\
  (forall x, In x (prof s) -> In x (prof s')) /\
  (forall x, In x (blocks s) -> In x (blocks s')) /\
  (forall x, In x (blkidx s) -> In x (blkidx s')).

Lemma objs_le_refl s : objs_le s s.
Proof. unfold objs_le; repeat split; auto. Qed.

Lemma objs_le_trans a b c : objs_le a b -> objs_le b c -> objs_le a c.
Proof. unfold objs_le; intros (A1&A2&A3&A4&A5&A6) (B1&B2&B3&B4&B5&B6); repeat split; auto. Qed.

Lemma puts_mono ws s : Forall is_put ws -> objs_le s (apply_all ws s).
Proof.
  revert s; induction ws as [|w ws IH]; intros s H.
  - apply objs_le_refl.
  - inversion H; subst. rewrite apply_all_cons.
    apply (objs_le_trans s (apply w s)); [unfold objs_le; apply put_mono; assumption | apply IH; assumption].
Qed.

(** what a put-only sequence has established *)
Lemma puts_establish ws s : Forall is_put ws ->
  (forall b, In (PutBlock b) ws -> In b (blocks (apply_all ws s))) /\
  (forall i, In (PutBlkIdx i) ws -> In i (blkidx (apply_all ws s))) /\
  (forall t, In (PutTblIdx t) ws -> In t (tblidx (apply_all ws s))) /\
  (forall t, In (PutProf t) ws -> In t (prof (apply_all ws s))) /\
  (forall t, In (PutTable t) ws -> In t (tables (apply_all ws s))) /\
  (forall c, In (PutCommit c) ws -> In c (commits (apply_all ws s))).
Proof.
  revert s; induction ws as [|w ws IH]; intros s H.
  - repeat split; intros ? [].
  - inversion H as [|? ? Hw Hws]; subst. rewrite apply_all_cons.
    destruct (IH (apply w s) Hws) as (I1&I2&I3&I4&I5&I6).
    destruct (puts_mono ws (apply w s) Hws) as (M1&M2&M3&M4&M5&M6).
    repeat split; intros x [Hx | Hx]; auto; subst w.
    + apply M5. apply In_blocks_apply. auto.
    + apply M6. apply In_blkidx_apply. auto.
    + apply M3. apply In_tblidx_apply. auto.
    + apply M4. apply In_prof_apply. auto.
    + apply M2. apply In_tables_apply. auto.
    + apply M1. apply In_commits_apply. auto.
Qed.

(* ------------------------------------------------------------------ well-formed key listing *)

Lemma apply_WF w s : WF s -> WF (apply w s).
Proof.
  unfold WF. destruct s, w; cbn; auto.
  - apply NoDup_addb. apply cid_eqb_eq.
  - apply NoDup_filter.
Qed.

Lemma apply_all_WF ws s : WF s -> WF (apply_all ws s).
Proof.
  revert s; induction ws as [|w ws IH]; intros s H; auto.
  rewrite apply_all_cons. apply IH. apply apply_WF; auto.
Qed.

(* ------------------------------------------------------------------ single-write preservation *)

(** the side condition under which one write keeps [Closed] *)
Definition safeC (w : write) (s : state) : Prop :=
  match w with
  | PutCommit c => forall p, In p (c_parents c) -> In p (commits s)
  | DelCommit c => forall c', In c' (commits s) -> c' <> c -> ~ In c (c_parents c')
  | _ => True
  end.

(** the side condition under which one write keeps RefsResolve, TableUsable and HeadsFull.
    [PutTable]: the skel_ok condition "derived indices before the object that advertises
    them"; [SetRefLog]: "commit (and for heads its table) before the ref". *)
Definition safe3 (w : write) (s : state) : Prop :=
  match w with
  | PutTable t =>
      (forall b, In b (t_blocks t) -> In b (blocks s)) /\
      (forall i, In i (t_blkidx t) -> In i (blkidx s)) /\
      In t (tblidx s)
  | SetRefLog r c f => In c (commits s) /\ (f = true -> In (c_table c) (tables s))
  | DelBlock b => forall t, In t (tables s) -> ~ In b (t_blocks t)
  | DelBlkIdx i => forall t, In t (tables s) -> ~ In i (t_blkidx t)
  | DelTblIdx t => ~ In t (tables s)
  | DelTable t => forall r c, In (r, (c, true)) (refs s) -> c_table c <> t
  | DelCommit c => forall r c' f, In (r, (c', f)) (refs s) -> c' <> c
  | _ => True
  end.

Definition safe (w : write) (s : state) : Prop := safeC w s /\ safe3 w s.

Lemma apply_Closed w s : Closed s -> safeC w s -> Closed (apply w s).
Proof.
  unfold Closed. intros Hc Hs c Hin p Hp.
  apply In_commits_apply in Hin. apply In_commits_apply.
  destruct w; cbn in Hs; eauto.
  - right. destruct Hin as [-> | Hin]; [apply Hs; auto | eapply Hc; eauto].
  - destruct Hin as [Hin Hne]. split; [eapply Hc; eauto|].
    intros ->. eapply Hs; eauto.
Qed.

Lemma apply_RefsResolve w s : RefsResolve s -> safe3 w s -> RefsResolve (apply w s).
Proof.
  unfold RefsResolve. intros Hr Hs r c f Hin.
  apply In_refs_apply in Hin. apply In_commits_apply.
  destruct w; cbn in *; eauto.
  - destruct Hin as [[-> Hv] | [Hin _]]; [inversion Hv; subst; tauto | eauto].
  - destruct Hin; eauto.
Qed.

Ltac tu_split :=
  repeat split;
  [ intros b' Hb'; apply In_blocks_apply; cbn
  | intros b' Hb'; apply In_blkidx_apply; cbn
  | apply In_tblidx_apply; cbn ].

Lemma apply_TableUsable w s : TableUsable s -> safe3 w s -> TableUsable (apply w s).
Proof.
  unfold TableUsable. intros Ht Hs t Hin.
  apply In_tables_apply in Hin.
  assert (Hold : In t (tables s) ->
     (forall b, In b (t_blocks t) -> In b (blocks s)) /\
     (forall i, In i (t_blkidx t) -> In i (blkidx s)) /\ In t (tblidx s)) by auto.
  destruct w; cbn in Hs, Hin;
    try (destruct (Hold Hin) as (H1&H2&H3); tu_split; auto; fail).
  - (* PutTable *)
    destruct Hin as [-> | Hin]; [destruct Hs as (H1&H2&H3) | destruct (Hold Hin) as (H1&H2&H3)];
      tu_split; auto.
  - (* DelBlock *)
    destruct (Hold Hin) as (H1&H2&H3). tu_split; auto.
    split; auto. intros ->. eapply Hs; eauto.
  - (* DelBlkIdx *)
    destruct (Hold Hin) as (H1&H2&H3). tu_split; auto.
    split; auto. intros ->. eapply Hs; eauto.
  - (* DelTable *)
    destruct Hin as [Hin Hne]. destruct (Hold Hin) as (H1&H2&H3). tu_split; auto.
  - (* DelTblIdx *)
    destruct (Hold Hin) as (H1&H2&H3). tu_split; auto.
    split; auto. intros ->. contradiction.
Qed.

Lemma apply_HeadsFull w s : HeadsFull s -> safe3 w s -> HeadsFull (apply w s).
Proof.
  unfold HeadsFull. intros Hh Hs r c Hin.
  apply In_refs_apply in Hin. apply In_tables_apply.
  destruct w; cbn in *; eauto.
  - destruct Hin as [[-> Hv] | [Hin _]]; [inversion Hv; subst; tauto | eauto].
  - destruct Hin; eauto.
Qed.

Lemma apply_Inv3 w s : Inv3 s -> safe3 w s -> Inv3 (apply w s).
Proof.
  intros (H1&H2&H3) Hs. split; [|split];
    [apply apply_RefsResolve | apply apply_TableUsable | apply apply_HeadsFull]; auto.
Qed.

Lemma apply_Inv w s : Inv s -> safe w s -> Inv (apply w s).
Proof.
  intros [Hc H3] [Hs1 Hs3]. split; [apply apply_Closed | apply apply_Inv3]; auto.
Qed.

(* ------------------------------------------------------------------ sequences *)

Fixpoint safe_seq (s : state) (ws : list write) : Prop :=
  match ws with
  | [] => True
  | w :: ws' => safe w s /\ safe_seq (apply w s) ws'
  end.

Fixpoint safe3_seq (s : state) (ws : list write) : Prop :=
  match ws with
  | [] => True
  | w :: ws' => safe3 w s /\ safe3_seq (apply w s) ws'
  end.

Lemma crash_nil_l n s : crash n [] s = s.
Proof. unfold crash. rewrite firstn_nil. reflexivity. Qed.

Lemma crash_0 ws s : crash 0 ws s = s.
Proof. reflexivity. Qed.

Lemma crash_S n w ws s : crash (S n) (w :: ws) s = crash n ws (apply w s).
Proof. reflexivity. Qed.

Lemma crash_all ws s n : (length ws <= n)%nat -> crash n ws s = apply_all ws s.
Proof. intros H. unfold crash. rewrite firstn_all2; auto. Qed.

Lemma safe_seq_prefix ws : forall s, Inv s -> safe_seq s ws -> forall n, Inv (crash n ws s).
Proof.
  induction ws as [|w ws IH]; intros s Hi Hs n.
  - rewrite crash_nil_l; auto.
  - destruct n; [rewrite crash_0; auto|]. rewrite crash_S. destruct Hs as [Hw Hs].
    apply IH; auto. apply apply_Inv; auto.
Qed.

Lemma safe3_seq_prefix ws : forall s, Inv3 s -> safe3_seq s ws -> forall n, Inv3 (crash n ws s).
Proof.
  induction ws as [|w ws IH]; intros s Hi Hs n.
  - rewrite crash_nil_l; auto.
  - destruct n; [rewrite crash_0; auto|]. rewrite crash_S. destruct Hs as [Hw Hs].
    apply IH; auto. apply apply_Inv3; auto.
Qed.

Lemma safe_seq_app ws1 ws2 s :
  safe_seq s ws1 -> safe_seq (apply_all ws1 s) ws2 -> safe_seq s (ws1 ++ ws2).
Proof.
  revert s; induction ws1 as [|w ws1 IH]; intros s H1 H2; cbn in *; auto.
  destruct H1 as [Hw H1]. split; auto.
Qed.

Lemma safe3_seq_app ws1 ws2 s :
  safe3_seq s ws1 -> safe3_seq (apply_all ws1 s) ws2 -> safe3_seq s (ws1 ++ ws2).
Proof.
  revert s; induction ws1 as [|w ws1 IH]; intros s H1 H2; cbn in *; auto.
  destruct H1 as [Hw H1]. split; auto.
Qed.

Lemma safe_seq_safe3 ws s : safe_seq s ws -> safe3_seq s ws.
Proof.
  revert s; induction ws as [|w ws IH]; intros s H; cbn in *; auto.
  destruct H as [[_ H3] H]. auto.
Qed.

Lemma safe_seq_end ws s : Inv s -> safe_seq s ws -> Inv (apply_all ws s).
Proof.
  intros Hi Hs. rewrite <- (crash_all ws s (length ws)); auto. apply safe_seq_prefix; auto.
Qed.

(** writes that are safe in every state *)
Definition always_safe (w : write) : Prop :=
  match w with
  | PutBlock _ | PutBlkIdx _ | PutTblIdx _ | PutProf _ | DelRef _ | DelProf _ => True
  | _ => False
  end.

Lemma always_safe_safe w s : always_safe w -> safe w s.
Proof. destruct w; cbn; intros H; try contradiction; split; exact I. Qed.

Lemma always_safe_seq ws s : Forall always_safe ws -> safe_seq s ws.
Proof.
  revert s; induction ws as [|w ws IH]; intros s H; cbn; auto.
  inversion H; subst. split; auto. apply always_safe_safe; auto.
Qed.

(* ------------------------------------------------------------------ checkers *)

Lemma closed_b_spec s : closed_b s = true <-> Closed s.
Proof.
  unfold closed_b, Closed. rewrite forallb_forall. split.
  - intros H c Hc p Hp. specialize (H c Hc). rewrite (inclb_incl cid_eqb cid_eqb_eq) in H. auto.
  - intros H c Hc. apply (inclb_incl cid_eqb cid_eqb_eq). eauto.
Qed.

Lemma refs_resolve_b_spec s : refs_resolve_b s = true <-> RefsResolve s.
Proof.
  unfold refs_resolve_b, RefsResolve. rewrite forallb_forall. split.
  - intros H r c f Hin. specialize (H _ Hin). cbn in H. apply (memb_In cid_eqb cid_eqb_eq) in H; auto.
  - intros H [r [c f]] Hin. cbn. apply (memb_In cid_eqb cid_eqb_eq). eauto.
Qed.

Lemma table_usable_b_spec s : table_usable_b s = true <-> TableUsable s.
Proof.
  unfold table_usable_b, TableUsable. rewrite forallb_forall. split.
  - intros H t Ht. specialize (H t Ht). rewrite !andb_true_iff in H. destruct H as [[H1 H2] H3].
    rewrite (inclb_incl N.eqb N.eqb_eq) in H1, H2. apply (memb_In table_eqb table_eqb_eq) in H3. auto.
  - intros H t Ht. destruct (H t Ht) as (H1&H2&H3). rewrite !andb_true_iff. repeat split.
    + apply (inclb_incl N.eqb N.eqb_eq); auto.
    + apply (inclb_incl N.eqb N.eqb_eq); auto.
    + apply (memb_In table_eqb table_eqb_eq); auto.
Qed.

Lemma heads_full_b_spec s : heads_full_b s = true <-> HeadsFull s.
Proof.
  unfold heads_full_b, HeadsFull. rewrite forallb_forall. split.
  - intros H r c Hin. specialize (H _ Hin). cbn in H. apply (memb_In table_eqb table_eqb_eq) in H; auto.
  - intros H [r [c f]] Hin. cbn. destruct f; cbn; auto. apply (memb_In table_eqb table_eqb_eq). eauto.
Qed.

Lemma inv3_b_spec s : inv3_b s = true <-> Inv3 s.
Proof.
  unfold inv3_b, Inv3. rewrite !andb_true_iff, refs_resolve_b_spec, table_usable_b_spec, heads_full_b_spec. tauto.
Qed.

Lemma inv_b_spec s : inv_b s = true <-> Inv s.
Proof. unfold inv_b, Inv. rewrite andb_true_iff, closed_b_spec, inv3_b_spec. tauto. Qed.

Lemma reach_closed_b_spec s : reach_closed_b s = true <-> ReachClosed s.
Proof.
  unfold reach_closed_b, ReachClosed. rewrite forallb_forall. split.
  - intros H r c f Hin a Ha. specialize (H _ Hin).
    apply (inclb_incl cid_eqb cid_eqb_eq) with (x := a) in H; auto.
  - intros H [r [c f]] Hin. cbn. apply (inclb_incl cid_eqb cid_eqb_eq). eauto.
Qed.

Lemma profiled_b_spec s : profiled_b s = true <-> Profiled s.
Proof. unfold profiled_b, Profiled. apply (inclb_incl table_eqb table_eqb_eq). Qed.

Lemma opt_shape_eqb_eq a b : opt_shape_eqb a b = true <-> a = b.
Proof.
  destruct a, b; cbn; try (split; congruence).
  rewrite shape_eqb_eq. split; congruence.
Qed.

Lemma ref_shape_none s r : ~ In r (map fst (refs s)) -> ref_shape s r = None.
Proof.
  intros H. unfold ref_shape, get_ref.
  destruct (find _ (refs s)) as [[r' v]|] eqn:E; auto.
  apply find_some in E. destruct E as [Hin Hr]. cbn in Hr. apply N.eqb_eq in Hr. subst.
  exfalso. apply H. apply in_map_iff. exists (r, v). auto.
Qed.

Lemma obs_eqb_spec s1 s2 : obs_eqb s1 s2 = true <-> obs_eq s1 s2.
Proof.
  unfold obs_eqb, obs_eq. rewrite forallb_forall. split.
  - intros H r.
    destruct (in_dec N.eq_dec r (map fst (refs s1) ++ map fst (refs s2))) as [Hin | Hnin].
    + apply opt_shape_eqb_eq. auto.
    + rewrite in_app_iff in Hnin. rewrite !ref_shape_none; tauto.
  - intros H r _. apply opt_shape_eqb_eq. auto.
Qed.

(* ------------------------------------------------------------------ ancestors *)

Lemma ancestors_self c : In c (ancestors c).
Proof. destruct c; cbn; auto. Qed.

Lemma ancestors_parent c p : In p (c_parents c) -> forall a, In a (ancestors p) -> In a (ancestors c).
Proof.
  destruct c as [t ps n]; cbn. intros Hp a Ha. right. apply in_flat_map. eauto.
Qed.

Lemma ancestors_trans c : forall a, In a (ancestors c) -> forall b, In b (ancestors a) -> In b (ancestors c).
Proof.
  induction c as [t ps n IH] using cid_ind'. intros a Ha b Hb. cbn in Ha. destruct Ha as [<- | Ha]; auto.
  apply in_flat_map in Ha. destruct Ha as [p [Hp Ha]].
  rewrite Forall_forall in IH. cbn. right. apply in_flat_map. exists p. split; auto. eapply IH; eauto.
Qed.

Lemma ancestors_parents_closed c a p : In a (ancestors c) -> In p (c_parents a) -> In p (ancestors c).
Proof.
  intros Ha Hp. eapply ancestors_trans; eauto. eapply ancestors_parent; eauto. apply ancestors_self.
Qed.

Lemma Closed_ancestors s c : Closed s -> In c (commits s) -> forall a, In a (ancestors c) -> In a (commits s).
Proof.
  intros Hc. induction c as [t ps n IH] using cid_ind'. intros Hin a Ha. cbn in Ha.
  destruct Ha as [<- | Ha]; auto. apply in_flat_map in Ha. destruct Ha as [p [Hp Ha]].
  rewrite Forall_forall in IH. apply (IH p Hp); auto. apply (Hc _ Hin). exact Hp.
Qed.

Lemma Inv_ReachClosed s : Inv s -> ReachClosed s.
Proof.
  intros [Hc [Hr _]] r c f Hin a Ha. eapply Closed_ancestors; eauto.
Qed.

Fixpoint csize (c : cid) : nat :=
  match c with Cid _ ps _ => S (list_sum (map csize ps)) end.

Lemma list_sum_In (f : cid -> nat) ps p : In p ps -> (f p <= list_sum (map f ps))%nat.
Proof.
  induction ps as [|x ps IH]; simpl; intros H; [contradiction|].
  destruct H as [-> | H]; [lia | specialize (IH H); lia].
Qed.

Lemma csize_parent c p : In p (c_parents c) -> (csize p < csize c)%nat.
Proof.
  destruct c as [t ps n]. cbn [c_parents]. intros H.
  change (csize (Cid t ps n)) with (S (list_sum (map csize ps))).
  pose proof (list_sum_In csize ps p H). lia.
Qed.

Lemma not_own_parent c : ~ In c (c_parents c).
Proof. intros H. apply csize_parent in H. lia. Qed.
