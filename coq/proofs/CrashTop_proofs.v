(** C13 - the statements of props/C13.v assembled: prefix consistency of every operation,
    histories, profiles, and the [_refuted] witnesses for the forbidden write orders. *)
From Coq Require Import List NArith Bool String Lia Permutation Arith.
From W.model Require Import CrashRepo Crash.
From W.proofs Require Import CrashRepo_proofs Crash_proofs CrashKahn_proofs CrashPrune_proofs CrashFetch_proofs.
Import ListNotations.
Local Open Scope N_scope.
Local Notation length := List.length.

Lemma op_pre_ok s o : o <> OPrune -> op_pre s o -> op_ok s o.
Proof. destruct o; cbn; auto; intros; try congruence. Qed.

Section Top.
  Variable sk : skels.
  Variable dv : deriver.
  Hypothesis Hok : skels_ok sk = true.

  Let P := skels_ok_parts sk Hok.
  Let Hprune := proj1 (proj2 (proj2 (proj2 (proj2 (proj2 (proj2 P)))))).
  Let Hptables := proj1 (proj2 (proj2 (proj2 (proj2 (proj2 (proj2 (proj2 P))))))).
  Let Horder := proj1 (proj2 (proj2 (proj2 (proj2 (proj2 (proj2 (proj2 (proj2 P)))))))).

  Theorem prefix_consistent sched s o n :
    valid_sched sched -> Inv s -> WF s -> op_pre s o ->
    Inv (crash n (fst (op_writes sk dv sched s o)) s) /\ WF (crash n (fst (op_writes sk dv sched s o)) s).
  Proof.
    intros Hv Hi Hw Hp. split; [|apply apply_all_WF; auto].
    destruct o; try (apply (nonprune_prefix_consistent sk dv Hok); auto; apply op_pre_ok; auto; discriminate).
    cbn [op_writes fst]. apply prune_prefix_consistent; auto.
  Qed.

  (** a write error injected at position n leaves the same state as a crash there *)
  Corollary final_consistent sched s o :
    valid_sched sched -> Inv s -> WF s -> op_pre s o -> Inv (run_op sk dv sched s o).
  Proof.
    intros Hv Hi Hw Hp. unfold run_op.
    rewrite <- (crash_all _ s (length (fst (op_writes sk dv sched s o)))); auto.
    apply prefix_consistent; auto.
  Qed.

  Lemma empty_inv : Inv empty_state /\ WF empty_state.
  Proof. split; [apply inv_b_spec; reflexivity | constructor]. Qed.

  Theorem reach_inv s : reach sk dv s -> Inv s /\ WF s.
  Proof.
    induction 1 as [|s o sched n Hr [Hi Hw] Hv Hp]; [apply empty_inv|].
    apply prefix_consistent; auto.
  Qed.

  (* ---------------------------------------------------------------- prune re-run, packaged *)

  Theorem prune_rerun s n : Inv s -> WF s ->
    let ws1 := prune_writes sk s in
    let cs := crash n ws1 s in
    let f1 := apply_all ws1 s in
    let f2 := apply_all (prune_writes sk cs) cs in
    Inv f2 /\ refs f2 = refs f1 /\
    (forall x, In x (commits f2) <-> In x (commits f1)) /\
    (forall x, In x (tables f2) <-> In x (tables f1)) /\
    (forall x, In x (blocks f2) <-> In x (blocks f1)) /\
    (forall x, In x (blkidx f2) <-> In x (blkidx f1)) /\
    (forall x, In x (tblidx f1) -> In x (tblidx f2)) /\
    (forall x, In x (prof f1) -> In x (prof f2)).
  Proof.
    intros Hi Hw ws1 cs f1 f2.
    assert (Hics : Inv cs /\ WF cs).
    { apply (prefix_consistent sequential s OPrune n sequential_valid Hi Hw I). }
    destruct Hics as [Hics Hwcs].
    split; [apply (final_consistent sequential cs OPrune sequential_valid Hics Hwcs I)|].
    unfold f1, f2, cs, ws1, crash.
    split; [apply prune_rerun_refs; auto|].
    split; [intros; apply prune_rerun_commits; auto|].
    split; [intros; apply prune_rerun_tables; auto|].
    split; [intros; apply prune_rerun_blocks; auto|].
    split; [intros; apply prune_rerun_blkidx; auto|].
    split; [intros x; apply prune_rerun_tblidx; auto | intros x; apply prune_rerun_prof; auto].
  Qed.

  (** a second prune after a completed one writes nothing more than the first would *)

  (* ---------------------------------------------------------------- profiles *)

  Definition safeP (w : write) (s : state) : Prop :=
    match w with
    | PutTable t => In t (prof s)
    | DelProf t => ~ In t (tables s)
    | _ => True
    end.

  Lemma apply_Profiled w s : Profiled s -> safeP w s -> Profiled (apply w s).
  Proof.
    unfold Profiled. intros Hp Hs t Hin. apply In_tables_apply in Hin. apply In_prof_apply.
    destruct w; cbn in *; auto.
    - destruct Hin as [-> | Hin]; auto.
    - destruct Hin; auto.
    - split; auto. intros ->. contradiction.
  Qed.

  Fixpoint safeP_seq (s : state) (ws : list write) : Prop :=
    match ws with [] => True | w :: ws' => safeP w s /\ safeP_seq (apply w s) ws' end.

  Lemma safeP_seq_prefix ws : forall s, Profiled s -> safeP_seq s ws -> forall n, Profiled (crash n ws s).
  Proof.
    induction ws as [|w ws IH]; intros s Hi Hs n.
    - rewrite crash_nil_l; auto.
    - destruct n; [rewrite crash_0; auto|]. rewrite crash_S. destruct Hs as [Hw Hs].
      apply IH; auto. apply apply_Profiled; auto.
  Qed.

  Lemma safeP_seq_app ws1 ws2 s : safeP_seq s ws1 -> safeP_seq (apply_all ws1 s) ws2 -> safeP_seq s (ws1 ++ ws2).
  Proof.
    revert s; induction ws1 as [|w ws1 IH]; intros s H1 H2; cbn in *; auto.
    destruct H1 as [Hw H1]. split; auto.
  Qed.

  Lemma idx_puts_safeP pre s : Forall idx_put pre -> safeP_seq s pre.
  Proof.
    revert s; induction pre as [|w pre IH]; intros s H; cbn; auto. inversion H; subst.
    split; auto. destruct w; cbn in *; auto; contradiction.
  Qed.

  Lemma pre_table_safeP pre t s : Forall idx_put pre -> In (PutProf t) pre -> safeP_seq s (pre ++ [PutTable t]).
  Proof.
    intros Hp Hin. apply safeP_seq_app; [apply idx_puts_safeP; auto|]. cbn. split; auto.
    destruct (puts_establish pre s (idx_puts_is_put _ Hp)) as (_&_&_&E4&_). auto.
  Qed.

  (** commit (ingest from the sorter writes the profile before the table) keeps "every table
      present has its profile" at every prefix *)
  Theorem commit_profiled sched s r t nonce n : valid_sched sched -> Profiled s ->
    Profiled (crash n (commit_writes sk sched s r t nonce) s).
  Proof.
    intros Hv Hp. apply safeP_seq_prefix; auto.
    pose proof P as (Hingest & Hblock & _ & _ & _ & _ & _ & _ & _ & Hcommit & _).
    rewrite (commit_writes_eq sk sched Hcommit).
    destruct (ingest_shape sk sched Hv Hingest Hblock t true) as [pre (E&Hpre&_&_&_&Hprof)]. rewrite E.
    apply safeP_seq_app; [apply pre_table_safeP; auto|]. cbn. auto.
  Qed.

  Lemma recv_obj_safeP s o : safeP_seq s (fst (recv_obj sk dv s o)).
  Proof.
    pose proof P as (_ & _ & Hrtable & Hindex & Hrcommit & _).
    destruct o as [b | t | c]; cbn [recv_obj].
    - cbn. auto.
    - destruct (recv_table_spec sk Hrtable Hindex dv s t) as [[_ Hf] | [_ [pre (E&Hp&_&_&_&Hprof)]]].
      + apply idx_puts_safeP; auto.
      + rewrite E. apply pre_table_safeP; auto.
    - rewrite (recv_commit_writes_eq sk Hrcommit).
      destruct (inclb cid_eqb (c_parents c) (commits s)); cbn; auto.
  Qed.

  Lemma receive_safeP objs : forall s, safeP_seq s (fst (receive sk dv s objs)).
  Proof.
    induction objs as [|o objs IH]; intros s; cbn [receive]; [exact I|].
    pose proof (recv_obj_safeP s o) as H. destruct (recv_obj sk dv s o) as [ws ok]; cbn in *.
    destruct ok; auto. specialize (IH (apply_all ws s)).
    destruct (receive sk dv (apply_all ws s) objs) as [ws' ok']; cbn in *. apply safeP_seq_app; auto.
  Qed.

  Lemma save_refs_safeP upd : forall s, safeP_seq s (fst (save_refs s upd)).
  Proof.
    induction upd as [|[[r0 c] force] upd IH]; intros s; cbn [save_refs]; [exact I|].
    destruct (head_of r0 s) as [old|].
    - destruct (cid_eqb old c); [apply IH|]. destruct (negb (stored c s)); [exact I|].
      destruct (is_anc old c || force).
      + specialize (IH (apply (SetRefLog r0 c false) s)).
        destruct (save_refs (apply (SetRefLog r0 c false) s) upd) as [ws ok]. cbn in *. auto.
      + specialize (IH s). destruct (save_refs s upd) as [ws ok]. cbn in *. auto.
    - specialize (IH (apply (SetRefLog r0 c false) s)).
      destruct (save_refs (apply (SetRefLog r0 c false) s) upd) as [ws ok]. cbn in *. auto.
  Qed.

  Theorem fetch_profiled s objs upd n : Profiled s ->
    Profiled (crash n (fst (fetch_writes sk dv s objs upd)) s).
  Proof.
    intros Hp. apply safeP_seq_prefix; auto.
    pose proof P as (_ & _ & _ & _ & _ & Hfetch & _).
    rewrite (fetch_writes_eq sk dv Hfetch).
    assert (Hr : safeP_seq s (fst (fetch_objects sk dv s objs upd))).
    { unfold fetch_objects. destruct (forallb (fun u => stored (snd (fst u)) s) upd); [exact I|].
      pose proof (receive_safeP objs s) as Hr. destruct (receive sk dv s objs) as [wr okr]. exact Hr. }
    destruct (fetch_objects sk dv s objs upd) as [wo oko]; cbn in *.
    destruct oko; [|exact Hr].
    pose proof (save_refs_safeP upd (apply_all wo s)) as Hs.
    destruct (save_refs (apply_all wo s) upd) as [wsr oks]; cbn in *. apply safeP_seq_app; auto.
  Qed.

End Top.

(* ------------------------------------------------------------------ non-vacuity and witnesses *)

Example base_skels_ok : skels_ok base_skels = true.
Proof. vm_compute. reflexivity. Qed.

Definition dv0 : deriver := fun _ b => b.
Definition tA : table := mkTable 0 [(1, 1); (2, 2)].
Definition tB : table := mkTable 0 [(1, 1); (3, 3)].
Definition cR : cid := Cid tA [] 1.
Definition cX : cid := Cid tB [] 7.
Definition cY : cid := Cid tB [cX] 8.

(** main -> R (table A); orphan chain X <- Y with table B (blocks 1,3) received earlier and
    their remote ref deleted since *)
Definition s_orphans : state :=
  fold_left (fun s o => run_op base_skels dv0 sequential s o)
    [OCommit 0 tA 1; OFetch [PBlock 1; PBlock 3; PTable tB; PCommit cX; PCommit cY] [(10, cY, false)]; ODelHead 10]
    empty_state.

Example s_orphans_reach : reach base_skels dv0 s_orphans.
Proof.
  unfold s_orphans. cbn [fold_left].
  repeat match goal with
  | |- reach _ _ (run_op ?sk ?dv ?sc ?s ?o) =>
      unfold run_op at 1;
      rewrite <- (crash_all (fst (op_writes sk dv sc s o)) s (List.length (fst (op_writes sk dv sc s o)))) by auto;
      apply reach_step; [| apply sequential_valid | exact I]
  end.
  apply reach_init.
Qed.

Example s_orphans_inv : Inv s_orphans /\ WF s_orphans.
Proof. apply (reach_inv base_skels dv0 base_skels_ok). apply s_orphans_reach. Qed.

(** non-vacuity: the sweep of [s_orphans] is a non-trivial write list (9 writes: table triple,
    block, block index... and the two commits, child first) *)
Example prune_nontrivial :
  map (fun w => match w with DelCommit c => c_nonce c | _ => 0 end) (prune_writes base_skels s_orphans)
  = [0; 0; 0; 0; 0; 8; 7].
Proof. vm_compute. reflexivity. Qed.

(** table object before its index (the tree before 2b449a8), commit: a crash after the third
    write leaves a table that is present without its table index *)
Theorem table_first_commit_refuted :
  exists s o n, Inv s /\ WF s /\ op_pre s o /\
    ~ Inv (crash n (fst (op_writes (with_table_first base_skels) dv0 sequential s o)) s).
Proof.
  exists empty_state, (OCommit 0 (mkTable 0 [(1, 1)]) 1), 3%nat.
  split; [apply inv_b_spec; reflexivity|]. split; [constructor|]. split; [exact I|].
  intros H. apply inv_b_spec in H. vm_compute in H. discriminate.
Qed.

(** the same for ObjectReceiver.saveTable *)
Theorem table_first_receive_refuted :
  exists s o n, Inv s /\ WF s /\ op_pre s o /\
    ~ Inv (crash n (fst (op_writes (with_table_first base_skels) dv0 sequential s o)) s).
Proof.
  exists empty_state,
    (OFetch [PBlock 1; PTable (mkTable 0 [(1, 1)]); PCommit (Cid (mkTable 0 [(1, 1)]) [] 1)]
            [(10, Cid (mkTable 0 [(1, 1)]) [] 1, false)]), 2%nat.
  split; [apply inv_b_spec; reflexivity|]. split; [constructor|]. split; [exact I|].
  intros H. apply inv_b_spec in H. vm_compute in H. discriminate.
Qed.

(** commits deleted in key order (before b7554dd): a crash after the first commit deletion
    leaves Y stored while its parent X is gone *)
Theorem prune_hash_order_closed_refuted :
  exists s n, Inv s /\ WF s /\
    ~ Closed (crash n (prune_writes (with_hash_order base_skels) s) s).
Proof.
  exists s_orphans, 6%nat. destruct s_orphans_inv as [Hi Hw]. split; auto. split; auto.
  intros H. apply closed_b_spec in H. vm_compute in H. discriminate.
Qed.

(** ... while the weaker invariants survive any order (instance of prune_prefix_weak) *)

(** commits deleted FIRST: after a crash behind the last commit deletion the re-run finds no
    removable commit, returns early and never sweeps the orphan table *)
Theorem prune_commits_first_rerun_refuted :
  exists s n t, Inv s /\ WF s /\
    let sk := with_commits_first base_skels in
    let cs := crash n (prune_writes sk s) s in
    In t (tables (apply_all (prune_writes sk cs) cs)) /\ ~ In t (tables (apply_all (prune_writes sk s) s)).
Proof.
  exists s_orphans, 2%nat, tB. destruct s_orphans_inv as [Hi Hw]. split; auto. split; auto. cbn zeta. split.
  - apply (memb_In table_eqb table_eqb_eq). vm_compute. reflexivity.
  - apply (memb_false table_eqb table_eqb_eq). vm_compute. reflexivity.
Qed.

(** the early return: an orphan table left by an interrupted commit (crash after SaveTable,
    before SaveCommit) is never swept while no commit is removable - leftover garbage, not an
    inconsistency *)
Definition s_orphan_table : state :=
  crash 7 (fst (op_writes base_skels dv0 sequential (run_op base_skels dv0 sequential empty_state (OCommit 0 tA 1))
                 (OCommit 0 tB 2)))
        (run_op base_skels dv0 sequential empty_state (OCommit 0 tA 1)).

Theorem prune_orphan_table_not_swept :
  Inv s_orphan_table /\ In tB (tables s_orphan_table) /\
  (forall c, In c (commits s_orphan_table) -> c_table c <> tB) /\
  prune_writes base_skels s_orphan_table = [].
Proof.
  split; [apply inv_b_spec; vm_compute; reflexivity|].
  split; [apply (memb_In table_eqb table_eqb_eq); vm_compute; reflexivity|].
  split; [|vm_compute; reflexivity].
  intros c Hc E.
  assert (H : forallb (fun c => negb (table_eqb (c_table c) tB)) (commits s_orphan_table) = true)
    by (vm_compute; reflexivity).
  rewrite forallb_forall in H. specialize (H c Hc). rewrite E, table_eqb_refl in H. discriminate.
Qed.

(** a crash between DeleteTable and DeleteTableIndex: the re-run never enumerates the index
    again (pruneTables lists table keys), so the index and profile stay as garbage *)
Theorem prune_rerun_leaves_index_garbage :
  exists s n t, Inv s /\ WF s /\
    let cs := crash n (prune_writes base_skels s) s in
    In t (tblidx (apply_all (prune_writes base_skels cs) cs)) /\
    ~ In t (tblidx (apply_all (prune_writes base_skels s) s)) /\
    ~ In t (tables (apply_all (prune_writes base_skels cs) cs)).
Proof.
  exists s_orphans, 1%nat, tB. destruct s_orphans_inv as [Hi Hw]. split; auto. split; auto. cbn zeta.
  split; [|split].
  - apply (memb_In table_eqb table_eqb_eq). vm_compute. reflexivity.
  - apply (memb_false table_eqb table_eqb_eq). vm_compute. reflexivity.
  - apply (memb_false table_eqb table_eqb_eq). vm_compute. reflexivity.
Qed.

(** merge writes the profile AFTER the table (commitMergeResult calls ProfileTable on the
    stored table): a crash in between leaves a present table without profile *)
Theorem merge_profile_after_table :
  exists s o n, Inv s /\ Profiled s /\
    ~ Profiled (crash n (fst (op_writes base_skels dv0 sequential s o)) s).
Proof.
  exists (run_op base_skels dv0 sequential s_orphans (OCommit 1 tB 3)),
         (OMergeCommit 0 [Cid tB [] 3] (mkTable 0 [(1, 1); (2, 2); (3, 3)]) 4), 8%nat.
  split; [apply inv_b_spec; vm_compute; reflexivity|].
  split; [apply profiled_b_spec; vm_compute; reflexivity|].
  intros H. apply profiled_b_spec in H. vm_compute in H. discriminate.
Qed.

(** non-vacuity of the re-run theorems: a 2-block commit on top of an existing branch, cut at
    every one of its 9 writes and re-run with a new nonce, meets the hypotheses *)
Example commit_rerun_instance :
  let s := run_op base_skels dv0 sequential empty_state (OCommit 0 tA 1) in
  List.length (fst (op_writes base_skels dv0 sequential s (OCommit 0 tB 2))) = 9%nat /\
  forallb (fun n =>
      let cs := crash n (fst (op_writes base_skels dv0 sequential s (OCommit 0 tB 2))) s in
      inv_b cs && obs_eqb (run_op base_skels dv0 sequential cs (OCommit 0 tB 3))
                          (run_op base_skels dv0 sequential s (OCommit 0 tB 2)))
    (seq 0 9) = true.
Proof. vm_compute. split; reflexivity. Qed.
