(** (vii) index.addToFanoutTable: translated body (gen/ExtractedCode.v) = [add_to_fanout] of
    model/HashSet.v, for EVERY iteration order of the Go map (the order is the oracle's). *)
From Coq Require Import List ZArith NArith Bool String Lia Arith.
From W.lib Require Import Tree Bytes GoLang.
From W.proofs Require Import GoLang_proofs.
From W.gen Require Import ExtractedCode.
From W.model Require Import HashSet.
Import ListNotations.
Local Open Scope Z_scope.

(** * the model, pointwise *)
Definition cntle (xs : list nat) (k : nat) : nat := length (filter (fun x => (x <=? k)%nat) xs).

Lemma bump_from_length x : forall fan, length (bump_from x fan) = length fan.
Proof. revert x. intros x fan; revert x; induction fan as [|a fan IH]; intros x; [reflexivity|]. destruct x; cbn; now rewrite IH. Qed.

Lemma bump_from_nth : forall fan x k, (k < length fan)%nat ->
  nth k (bump_from x fan) O = (nth k fan O + (if (x <=? k)%nat then 1 else 0))%nat.
Proof.
  induction fan as [|a fan IH]; intros x k Hk; [cbn in Hk; lia|].
  destruct x as [|x]; destruct k as [|k]; cbn [bump_from nth Nat.leb]; cbn [length] in Hk.
  - lia.
  - rewrite IH by lia. cbn. lia.
  - lia.
  - rewrite IH by lia. reflexivity.
Qed.

Definition fan_spec (fan : list nat) (xs : list nat) : list nat := fold_left (fun f x => bump_from x f) xs fan.

Lemma fan_spec_length xs : forall fan, length (fan_spec fan xs) = length fan.
Proof. induction xs as [|x xs IH]; intros fan; cbn; [reflexivity|]. unfold fan_spec in IH. now rewrite IH, bump_from_length. Qed.

Lemma fan_spec_nth xs : forall fan k, (k < length fan)%nat ->
  nth k (fan_spec fan xs) O = (nth k fan O + cntle xs k)%nat.
Proof.
  induction xs as [|x xs IH]; intros fan k Hk; cbn [fan_spec fold_left].
  - unfold cntle. cbn. lia.
  - fold (fan_spec (bump_from x fan) xs). rewrite IH by (now rewrite bump_from_length).
    rewrite bump_from_nth by exact Hk. unfold cntle. cbn [filter].
    destruct (x <=? k)%nat; cbn [length]; lia.
Qed.

Lemma add_to_fanout_spec fan bs : add_to_fanout fan bs = fan_spec fan (map fb bs).
Proof.
  unfold add_to_fanout, fan_spec. revert fan. induction bs as [|b bs IH]; intros fan; cbn; [reflexivity|apply IH].
Qed.

(** * association-list facts *)
Definition kx (x : nat) : bytes := [N.of_nat x].
Definition mget (m : list (bytes * value)) (x : nat) : value :=
  match map_find (kx x) m with Some v => v | None => VInt 0 end.

Lemma beqb_kx x y : beqb (kx x) (kx y) = Nat.eqb x y.
Proof.
  unfold beqb, kx. cbn [bcmp]. destruct (N.compare_spec (N.of_nat x) (N.of_nat y)) as [E|L|L].
  - apply Nat2N.inj in E. subst. now rewrite Nat.eqb_refl.
  - symmetry. apply Nat.eqb_neq. lia.
  - symmetry. apply Nat.eqb_neq. lia.
Qed.

Lemma beqb_true a b : beqb a b = true -> a = b.
Proof. unfold beqb. destruct (bcmp a b) eqn:E; try discriminate. intros _. now apply bcmp_eq. Qed.
Lemma beqb_same a : beqb a a = true.
Proof. unfold beqb. now rewrite bcmp_refl. Qed.

Lemma map_keys_In m : forall k, In k (map_keys m) <-> exists v, map_find k m = Some v.
Proof.
  induction m as [|[k0 v0] m IH]; intros k; cbn [map_keys map_find].
  - split; [intros []|intros [v H]; discriminate].
  - destruct (beqb k0 k) eqn:E.
    + apply beqb_true in E. subst. split; [eauto|intros _; now left].
    + split.
      * intros [H|H]; [subst; rewrite beqb_same in E; discriminate|].
        apply filter_In in H. apply IH, H.
      * intros H. right. apply filter_In. split; [now apply IH|]. now rewrite E.
Qed.

Lemma nodupb_NoDup l : nodupb l = true -> NoDup l.
Proof.
  induction l as [|k l IH]; cbn; intros H; [constructor|].
  apply andb_prop in H. destruct H as [H1 H2]. constructor; [|auto].
  intros Hin. apply negb_true_iff in H1.
  assert (existsb (beqb k) l = true) by (apply existsb_exists; exists k; split; [exact Hin|apply beqb_same]).
  congruence.
Qed.

Lemma perm_ok_spec l1 l2 : perm_ok l1 l2 = true ->
  NoDup l1 /\ (forall k, In k l1 <-> In k l2).
Proof.
  unfold perm_ok. intros H. apply andb_prop in H. destruct H as [H H3]. apply andb_prop in H. destruct H as [H1 H2].
  apply Nat.eqb_eq in H1. apply nodupb_NoDup in H3. split; [exact H3|].
  assert (I12 : incl l1 l2).
  { intros k Hk. rewrite forallb_forall in H2. specialize (H2 k Hk). apply existsb_exists in H2.
    destruct H2 as (k' & Hk' & E). apply beqb_true in E. now subst. }
  intros k. split; [apply I12|]. apply (NoDup_length_incl H3); [lia|exact I12].
Qed.

(** * the translated code *)
Definition cnt (x : nat) (l : list nat) : nat := length (filter (Nat.eqb x) l).
Definition fb_of (h : bytes) : nat := N.to_nat (nth 0 h 0%N).

Lemma cnt_snoc x l y : cnt x (l ++ [y]) = (cnt x l + (if Nat.eqb x y then 1 else 0))%nat.
Proof. unfold cnt. rewrite filter_app, app_length. cbn [filter]. destruct (Nat.eqb x y); reflexivity. Qed.

Lemma cnt_le x l : (cnt x l <= length l)%nat.
Proof.
  unfold cnt. induction l as [|a l IH]; cbn [filter length]; [lia|].
  destruct (Nat.eqb x a); cbn [length]; lia.
Qed.

(** the oracle may pick any order *)
Definition order_ok (orc : string -> list value -> option (list value)) : Prop :=
  forall keys, exists keys',
    orc "map.order"%string [VList (map VStr keys)] = Some [VList (map VStr keys')] /\
    perm_ok keys' keys = true.

Lemma strs_of_map l : strs_of (map VStr l) = Some l.
Proof. induction l as [|a l IH]; cbn; [reflexivity|now rewrite IH]. Qed.

Lemma nth_upd_list : forall (F : list nat) k v i, (k < length F)%nat ->
  nth i (firstn k F ++ v :: skipn (S k) F) O = if Nat.eqb i k then v else nth i F O.
Proof.
  induction F as [|a F IH]; intros k v i Hk; [cbn in Hk; lia|].
  destruct k as [|k]; destruct i as [|i]; cbn [firstn skipn app nth Nat.eqb]; try reflexivity.
  cbn [length] in Hk. apply IH. lia.
Qed.

Lemma mget_c (mm : list (bytes * value)) (h : bytes) :
  match map_find [nth 0 h 0%N] mm with Some v => v | None => VInt 0 end = mget mm (fb_of h).
Proof. unfold mget, kx, fb_of. now rewrite N2Nat.id. Qed.

Ltac norm_extra ::=
  first [ rewrite N2Z.id | rewrite mget_c
        | match goal with H : mget ?m ?x = _ |- context [mget ?m ?x] => rewrite H end ].

Lemma filter_disjoint_len (p : nat -> bool) x (xs : list nat) :
  (forall y, p y = true -> Nat.eqb x y = false) ->
  (length (filter p xs) + cnt x xs <= length xs)%nat.
Proof.
  intros H. unfold cnt. induction xs as [|a xs IH]; cbn [filter length]; [lia|].
  destruct (p a) eqn:Pa; destruct (Nat.eqb x a) eqn:Ea; cbn [length]; try lia.
  rewrite (H a Pa) in Ea. discriminate.
Qed.

Definition in_done (done : list bytes) (y : nat) : bool := existsb (fun key => beqb key (kx y)) done.
Definition partial (xs : list nat) (done : list bytes) (k : nat) : nat :=
  length (filter (fun y => (y <=? k)%nat && in_done done y) xs).

Lemma partial_snoc xs done x k : in_done done x = false ->
  partial xs (done ++ [kx x]) k = (partial xs done k + (if (x <=? k)%nat then cnt x xs else 0))%nat.
Proof.
  intros Hx. unfold partial, cnt. induction xs as [|a xs IH]; cbn [filter length]; [destruct (x <=? k)%nat; reflexivity|].
  unfold in_done at 1. rewrite existsb_app. cbn [existsb]. rewrite orb_false_r, beqb_kx.
  fold (in_done done a).
  destruct (Nat.eqb_spec x a) as [->|Hne].
  - rewrite Hx. cbn [orb]. destruct (a <=? k)%nat; cbn [andb length]; rewrite IH; lia.
  - rewrite orb_false_r. destruct ((a <=? k)%nat && in_done done a); cbn [length]; rewrite IH;
      destruct (x <=? k)%nat; lia.
Qed.

Section Code.
  Variable orc : string -> list value -> option (list value).
  Hypothesis Horc : order_ok orc.
  Notation P := (with_oracle go_prog orc).

  Lemma go_addToFanoutTable_spec (fan : list nat) (hs : list bytes) :
    length fan = 256%nat ->
    Forall (fun h => (1 <= length h)%nat /\ (fb_of h < 256)%nat) hs ->
    (forall k, (k < 256)%nat -> Z.of_nat (nth k fan O) + Z.of_nat (length hs) < 2 ^ 32) ->
    exists fuel, run_func fuel P go_addToFanoutTable [v_nats fan; v_strs hs]
                 = FOk [] [v_nats (fan_spec fan (map fb_of hs))].
  Proof.
    intros Hfan WF Hsmall. set (xs := map fb_of hs).
    assert (Hxs : forall n, (n < length hs)%nat -> nth n xs O = fb_of (nth n hs [])).
    { intros n Hn. unfold xs. change O with (fb_of []). apply map_nth. }
    assert (Hlen : length xs = length hs) by apply map_length.
    assert (Hx256 : forall y, In y xs -> (y < 256)%nat).
    { intros y Hy. unfold xs in Hy. apply in_map_iff in Hy. destruct Hy as (h & <- & Hh).
      rewrite Forall_forall in WF. apply WF, Hh. }
    start_func go_addToFanoutTable. unfold v_nats, v_strs.
    stepn. stepn.
    (* m[b[0]]++ *)
    eapply (wp_seq_inv _ _ _ _
              (fun e1 => exists mm vb,
                 e1 = [VList (map v_nat fan); VList (map VStr hs); VMap mm; vb; VUnset; VUnset; VUnset] /\
                 (forall x, mget mm x = VInt (Z.of_nat (cnt x xs))) /\
                 (forall key, In key (map_keys mm) -> exists x, key = kx x /\ In x xs))).
    { stepn.
      eapply (wp_items_inv _ _ _ _ _ _
                (fun n e => exists mm vb,
                   e = [VList (map v_nat fan); VList (map VStr hs); VMap mm; vb; VUnset; VUnset; VUnset] /\
                   (forall x, mget mm x = VInt (Z.of_nat (cnt x (firstn n xs)))) /\
                   (forall key, In key (map_keys mm) -> exists x, key = kx x /\ In x (firstn n xs)))).
      - exists [], VUnset. split; [reflexivity|]. split; [intros x; reflexivity|intros key []].
      - intros n e x (mm & vb & -> & Hm & Hk) Hx.
        apply (nth_error_map_inv VStr hs n x []) in Hx. destruct Hx as [Hn ->].
        set (h := nth n hs []).
        assert (Hh : (1 <= length h)%nat /\ (fb_of h < 256)%nat).
        { rewrite Forall_forall in WF. apply WF. now apply nth_In. }
        pose proof (Hm (fb_of h)) as Hmh.
        pose proof (cnt_le (fb_of h) (firstn n xs)) as Hc. rewrite firstn_length in Hc.
        pose proof (Hsmall O ltac:(lia)) as Hs0.
        ev. stepsn.
        exists (([nth 0 h 0%N], VInt (Z.of_nat (cnt (fb_of h) (firstn n xs)) + 1)) :: mm), (VStr h).
        split; [reflexivity|].
        assert (Ekx : [nth 0 h 0%N] = kx (fb_of h)) by (unfold kx, fb_of; now rewrite N2Nat.id).
        rewrite (firstn_S_nth xs n O) by lia. rewrite (Hxs n Hn). fold h. split.
        + intros y. unfold mget. cbn [map_find]. rewrite Ekx, beqb_kx, cnt_snoc, (Nat.eqb_sym y).
          destruct (Nat.eqb_spec (fb_of h) y) as [<-|Hne].
          * f_equal. lia.
          * fold (mget mm y). rewrite Hm. f_equal. lia.
        + intros key Hkey. cbn [map_keys] in Hkey. destruct Hkey as [<-|Hkey].
          * exists (fb_of h). split; [exact Ekx|]. apply in_or_app. right. now left.
          * apply filter_In in Hkey. destruct (Hk key (proj1 Hkey)) as (y & -> & Hy).
            exists y. split; [reflexivity|]. apply in_or_app. now left.
      - intros e (mm & vb & -> & Hm & Hk). rewrite length_map_VStr in *.
        rewrite <- Hlen, firstn_all in *. exists mm, vb. auto. }
    intros e1 (mm & vb & -> & Hm & Hk).
    (* for b, u := range m, in the oracle's order *)
    destruct (Horc (map_keys mm)) as (keys & Ho & Hp).
    destruct (perm_ok_spec _ _ Hp) as [Hnd Hkeys].
    eapply wp_range_map; [ev; reflexivity|cbn [p_oracle with_oracle]; exact Ho|apply strs_of_map|exact Hp|].
    eapply (wp_mitems_inv _ _ _ _ _ _ _ _
              (fun done e => exists F vb' vu vk,
                 e = [VList (map v_nat F); VList (map VStr hs); VMap mm; vb; vb'; vu; vk] /\
                 length F = 256%nat /\
                 forall k, (k < 256)%nat -> nth k F O = (nth k fan O + partial xs done k)%nat)).
    - exists fan, VUnset, VUnset, VUnset. split; [reflexivity|]. split; [exact Hfan|].
      intros k _. unfold partial, in_done. cbn [existsb]. rewrite (filter_ext _ (fun _ => false)).
      + clear. induction xs; cbn; auto.
      + intros a. apply andb_false_r.
    - intros done key e (F & vb' & vu & vk & -> & HF & HFk) (rest & Ekeys).
      assert (Hin : In key keys) by (rewrite Ekeys; apply in_or_app; right; now left).
      destruct (Hk key (proj1 (Hkeys key) Hin)) as (x & -> & Hxin).
      pose proof (Hx256 x Hxin) as Hx.
      assert (Hnot : in_done done x = false).
      { destruct (in_done done x) eqn:E; [|reflexivity]. exfalso.
        unfold in_done in E. apply existsb_exists in E. destruct E as (k' & Hk' & E'). apply beqb_true in E'. subst k'.
        rewrite Ekeys in Hnd. apply NoDup_remove_2 in Hnd. apply Hnd. apply in_or_app. now left. }
      assert (Hu : map_lookup mm (kx x) = VInt (Z.of_nat (cnt x xs))).
      { unfold map_lookup. specialize (Hm x). unfold mget in Hm.
        destruct (proj1 (map_keys_In mm (kx x)) (proj1 (Hkeys _) Hin)) as (v & Ev).
        rewrite Ev in *. exact Hm. }
      rewrite Hu. unfold kx at 1. cbn [key_value nth set_opt]. rewrite nat_N_Z.
      ev. stepn. stepn.
      pose proof (filter_disjoint_len (fun y => (y <=? 255)%nat && in_done done y) x xs) as Hdis.
      set (U := cnt x xs) in *.
      eapply (wp_for_inv _ _ _ _ _ _
                (fun e => exists j Fj, (x <= j <= 255)%nat /\
                   e = [VList (map v_nat Fj); VList (map VStr hs); VMap mm; vb; VInt (Z.of_nat x);
                        VInt (Z.of_nat U); VInt (Z.of_nat j)] /\
                   length Fj = 256%nat /\
                   forall i, (i < 256)%nat ->
                     nth i Fj O = (nth i F O + (if (x <=? i)%nat && (i <? j)%nat then U else 0))%nat)
                (fun e => match nth 6 e VUnset with VInt j => Z.to_nat (256 - j) | _ => O end)).
      { exists x, F. split; [lia|]. split; [reflexivity|]. split; [exact HF|].
        intros i Hi. destruct (x <=? i)%nat eqn:E1; destruct (i <? x)%nat eqn:E2; cbn [andb]; try lia.
        apply Nat.leb_le in E1. apply Nat.ltb_lt in E2. lia. }
      intros e (j & Fj & Hj & -> & HFj & HFji).
      eexists; split; [ev; reflexivity|]. cbv iota.
      assert (Hbound : Z.of_nat (nth j Fj O) + Z.of_nat U < 2 ^ 32).
      { rewrite (HFji j) by lia. replace ((x <=? j)%nat && (j <? j)%nat) with false
          by (rewrite Nat.ltb_irrefl; now rewrite andb_false_r).
        rewrite (HFk j) by lia. pose proof (Hsmall j ltac:(lia)).
        assert (partial xs done j + U <= length xs)%nat.
        { unfold partial, U. apply filter_disjoint_len. intros y Hy. apply andb_prop in Hy.
          destruct (Nat.eqb_spec x y) as [<-|]; [|reflexivity]. rewrite Hnot in Hy. destruct Hy; discriminate. }
        lia. }
      stepn. stepn.
      set (Fj' := firstn j Fj ++ (nth j Fj O + U)%nat :: skipn (S j) Fj).
      assert (EL : firstn j (map v_nat Fj) ++ VInt (Z.of_nat (nth j Fj O) + Z.of_nat U) :: skipn (S j) (map v_nat Fj)
                   = map v_nat Fj').
      { unfold Fj'. rewrite map_app, firstn_map. cbn [map]. rewrite skipn_map. unfold v_nat.
        rewrite Nat2Z.inj_add. reflexivity. }
      rewrite EL.
      assert (HFj' : length Fj' = 256%nat).
      { unfold Fj'. rewrite app_length, firstn_length. cbn [length]. rewrite skipn_length. lia. }
      assert (HFj'i : forall i, (i < 256)%nat ->
                nth i Fj' O = (nth i F O + (if (x <=? i)%nat && (i <? S j)%nat then U else 0))%nat).
      { intros i Hi. unfold Fj'. rewrite nth_upd_list by lia.
        destruct (Nat.eqb_spec i j) as [->|Hne].
        - rewrite (HFji j) by lia.
          replace ((x <=? j)%nat && (j <? j)%nat) with false by (rewrite Nat.ltb_irrefl; now rewrite andb_false_r).
          replace ((x <=? j)%nat && (j <? S j)%nat) with true; [lia|].
          symmetry. apply andb_true_intro. split; [apply Nat.leb_le; lia|apply Nat.ltb_lt; lia].
        - rewrite (HFji i Hi). f_equal.
          destruct (x <=? i)%nat; cbn [andb]; [|reflexivity].
          destruct (Nat.ltb_spec i j), (Nat.ltb_spec i (S j)); try reflexivity; lia. }
      stepn.
      destruct (Nat.eq_dec j 255) as [->|Hj255].
      + (* k == 255: break, the range body is finished *)
        change (Z.of_nat 255 =? 255) with true. stepsn.
        exists Fj', (VInt (Z.of_nat x)), (VInt (Z.of_nat U)), (VInt (Z.of_nat 255)).
        split; [reflexivity|]. split; [exact HFj'|].
        intros k Hk256. rewrite (HFj'i k Hk256), (HFk k Hk256), (partial_snoc xs done x k Hnot).
        replace (k <? 256)%nat with true by (symmetry; apply Nat.ltb_lt; lia). rewrite andb_true_r.
        fold U. lia.
      + replace (Z.of_nat j =? 255) with false by (symmetry; apply Z.eqb_neq; lia).
        stepsn. split; [|lia].
        exists (S j), Fj'. split; [lia|]. split; [repeat f_equal; lia|]. split; [exact HFj'|exact HFj'i].
    - intros e (F & vb' & vu & vk & -> & HF & HFk).
      ev. do 4 f_equal.
      apply (nth_ext _ _ O O).
      + now rewrite fan_spec_length, HF.
      + intros k Hk256. rewrite HF in Hk256. rewrite (HFk k Hk256), fan_spec_nth by lia.
        f_equal. unfold partial, cntle. f_equal. apply filter_ext_in. intros y Hy.
        replace (in_done keys y) with true; [apply andb_true_r|].
        symmetry. unfold in_done. apply existsb_exists. exists (kx y). split; [|apply beqb_same].
        apply Hkeys. apply map_keys_In.
        specialize (Hm y). unfold mget in Hm. destruct (map_find (kx y) mm) as [v|]; [eauto|].
        exfalso. assert (0 < cnt y xs)%nat.
        { unfold cnt. clear -Hy. induction xs as [|a l IH]; [destruct Hy|]. cbn [filter].
          destruct (Nat.eqb_spec y a); cbn [length]; [lia|]. destruct Hy; [congruence|auto]. }
        inversion Hm. lia.
  Qed.
End Code.

(** * hashes as 128-bit numbers (model/HashSet.v) *)
Lemma be_first w : forall n, nth 0 (be (S w) n) 0%N = ((n / 256 ^ N.of_nat w) mod 256)%N.
Proof.
  induction w as [|w IH]; intros n.
  - cbn. now rewrite N.div_1_r.
  - change (be (S (S w)) n) with (be (S w) (n / 256) ++ [n mod 256])%N.
    rewrite app_nth1 by (rewrite be_length; lia). rewrite IH.
    rewrite N.div_div by (try lia; apply N.pow_nonzero; lia).
    rewrite Nat2N.inj_succ, N.pow_succ_r'. reflexivity.
Qed.

Lemma fb_of_be16 h : (h < 2 ^ 128)%N -> fb_of (be 16 h) = fb h.
Proof.
  intros Hh. unfold fb_of, fb. rewrite (be_first 15 h). f_equal.
  change (256 ^ N.of_nat 15)%N with (2 ^ 120)%N. apply N.mod_small.
  apply N.div_lt_upper_bound; [lia|]. change (2 ^ 120 * 256)%N with (2 ^ 128)%N. exact Hh.
Qed.

Theorem go_addToFanoutTable_model (orc : string -> list value -> option (list value))
        (fan : list nat) (bs : list hash) :
  order_ok orc ->
  length fan = 256%nat -> Forall (fun h => (h < 2 ^ 128)%N) bs ->
  (forall k, (k < 256)%nat -> Z.of_nat (nth k fan O) + Z.of_nat (length bs) < 2 ^ 32) ->
  exists fuel, run_func fuel (with_oracle go_prog orc) go_addToFanoutTable
                        [v_nats fan; v_strs (map (be 16) bs)]
               = FOk [] [v_nats (add_to_fanout fan bs)].
Proof.
  intros Horc Hfan WF Hsmall.
  rewrite add_to_fanout_spec.
  assert (E : map fb bs = map fb_of (map (be 16) bs)).
  { rewrite map_map. apply map_ext_in. intros h Hh. symmetry. apply fb_of_be16.
    rewrite Forall_forall in WF. now apply WF. }
  rewrite E. apply go_addToFanoutTable_spec; auto.
  - rewrite Forall_forall. intros x Hx. apply in_map_iff in Hx. destruct Hx as (h & <- & Hh).
    rewrite be_length. split; [lia|]. rewrite fb_of_be16 by (rewrite Forall_forall in WF; now apply WF).
    unfold fb. rewrite Forall_forall in WF. specialize (WF h Hh).
    assert (h / 2 ^ 120 < 256)%N; [|lia].
    apply N.div_lt_upper_bound; [lia|]. change (2 ^ 120 * 256)%N with (2 ^ 128)%N. exact WF.
  - intros k Hk. rewrite map_length. now apply Hsmall.
Qed.
