(** Bridge B3 (C01/C03 -> C07): proofs.  The repository built from the objects written by
    any sequence of ingests (possibly cut by a crash) meets the source preconditions of the
    transfer theorems; C07_exact instantiated on such a source.
    Uses: C03_ingest_wf, C03_sorter_any_rows_wf, C01_lossless (table written last),
    C07_exact, C07_order, and the definition of [ingest_blocks] (which objects it writes). *)
From W.lib Require Import Tree Bytes.
From W.model Require Import Sorter SorterSpec Ingest IngestSpec BridgeIngestTransfer.
From W.model Require Transfer TransferSpec.
From W.proofs Require Import Sorter_proofs Ingest_proofs.
From W.proofs Require Transfer_proofs.
From W.props Require C01 C03 C07.
From Coq Require Import Arith Lia ZifyNat ZifyN ZifyBool Sorting.Permutation.
Local Open Scope N_scope.

(** * Generic list facts *)

Lemma in_combine_map {A B} (f : A -> B) (l : list A) a b :
  In (a, b) (combine l (map f l)) -> In a l /\ b = f a.
Proof.
  induction l as [|x l IH]; cbn; [tauto|].
  intros [E|Hin]; [inversion E; subst; auto|]. destruct (IH Hin); auto.
Qed.

Lemma combine_map_self {A B} (f : A -> B) (l : list A) :
  combine l (map f l) = map (fun a => (a, f a)) l.
Proof. induction l as [|x l IH]; cbn; [reflexivity|now rewrite IH]. Qed.

Lemma lookup_map_some {A V} (f : A -> N) (g : A -> V) (l : list A) k v :
  Transfer.lookup k (map (fun x => (f x, g x)) l) = Some v ->
  exists x, In x l /\ f x = k /\ g x = v.
Proof.
  induction l as [|a l IH]; cbn; [discriminate|].
  destruct (N.eqb_spec k (f a)) as [->|Hne].
  - intros E; inversion E; subst. exists a; auto.
  - intros E. destruct (IH E) as (x & Hx & E1 & E2). exists x; auto.
Qed.

Lemma has_map_in {A V} (f : A -> N) (g : A -> V) (l : list A) x :
  In x l -> Transfer.has (f x) (map (fun x => (f x, g x)) l) = true.
Proof.
  intros Hin. apply (Transfer_proofs.In_has (f x) (g x)).
  apply (in_map (fun x => (f x, g x))) in Hin. exact Hin.
Qed.

(** * The objects of a write list *)

Lemma in_w_blocks w b : In b (w_blocks w) <-> In (WBlock b) w.
Proof.
  unfold w_blocks. rewrite in_flat_map. split.
  - intros (o & Ho & Hb). destruct o; cbn in Hb; try tauto. destruct Hb as [<-|[]]. exact Ho.
  - intros Hin. exists (WBlock b). split; [exact Hin|now left].
Qed.
Lemma in_w_idxs w i : In i (w_idxs w) <-> In (WBlockIdx i) w.
Proof.
  unfold w_idxs. rewrite in_flat_map. split.
  - intros (o & Ho & Hb). destruct o; cbn in Hb; try tauto. destruct Hb as [<-|[]]. exact Ho.
  - intros Hin. exists (WBlockIdx i). split; [exact Hin|now left].
Qed.
Lemma in_w_tables w T : In T (w_tables w) <-> In (WTable T) w.
Proof.
  unfold w_tables. rewrite in_flat_map. split.
  - intros (o & Ho & Hb). destruct o; cbn in Hb; try tauto. destruct Hb as [<-|[]]. exact Ho.
  - intros Hin. exists (WTable T). split; [exact Hin|now left].
Qed.
Lemma in_w_tblidx w T : In T (w_tblidx w) <-> exists tidx, In (WTableIdx T tidx) w.
Proof.
  unfold w_tblidx. rewrite in_flat_map. split.
  - intros (o & Ho & Hb). destruct o; cbn in Hb; try tauto. destruct Hb as [<-|[]]. eauto.
  - intros (tidx & Hin). exists (WTableIdx T tidx). split; [exact Hin|now left].
Qed.

(** * Shape of a block *)

Lemma shape_of_uniform (blk : list row) n :
  blk <> [] -> (forall r, In r blk -> length r = n) -> shape_of blk = N.of_nat n + 2.
Proof.
  destruct blk as [|r rest]; [congruence|]. intros _ Hall. cbn [shape_of].
  assert (E : forallb (fun r' => Nat.eqb (length r') (length r)) rest = true).
  { apply forallb_forall. intros r' Hr'. apply Nat.eqb_eq.
    rewrite (Hall r' (or_intror Hr')), (Hall r (or_introl eq_refl)). reflexivity. }
  rewrite E, (Hall r (or_introl eq_refl)). reflexivity.
Qed.

(** * Ingest side: which objects an ingest writes *)

Section IngestWrites.
  Variable H : list bytes -> N.

  (** an ingest result together with its writes is complete: the table index and the table
      object are written, and so is every block and every block index the table lists *)
  Definition complete (T : table) (tidx : list key) (w : list wobj) : Prop :=
    In (WTableIdx T tidx) w /\ In (WTable T) w /\
    (forall blk, In blk (t_blocks T) -> In (WBlock blk) w) /\
    (forall i, In i (t_blockidx T) -> In (WBlockIdx i) w).

  Lemma ingest_blocks_complete arrive columns pk bs T tidx w :
    ingest_blocks H arrive columns pk bs = (T, tidx, w) -> complete T tidx w.
  Proof.
    unfold ingest_blocks. intros E. inversion E as [[ET Etidx Ew]]. clear E.
    set (arrived := arrive (map (save_block H pk) bs)) in *.
    set (T0 := mk_table _ _ _ _ _).
    assert (Hin : forall a, In a (sort_blocks arrived) ->
              In (WBlock (ab_rows a)) (concat (map (fun a => [WBlock (ab_rows a); WBlockIdx (ab_idx a)]) arrived)) /\
              In (WBlockIdx (ab_idx a)) (concat (map (fun a => [WBlock (ab_rows a); WBlockIdx (ab_idx a)]) arrived))).
    { intros a Ha. apply (Permutation_in _ (sort_blocks_perm arrived)) in Ha.
      split; apply in_concat; exists [WBlock (ab_rows a); WBlockIdx (ab_idx a)];
        (split; [apply in_map_iff; exists a; auto|cbn; auto]). }
    repeat split.
    - apply in_or_app. right. cbn. auto.
    - apply in_or_app. right. cbn. auto.
    - intros blk Hb. cbn [T0 t_blocks] in Hb. apply in_map_iff in Hb. destruct Hb as (a & <- & Ha).
      apply in_or_app. left. apply (Hin a Ha).
    - intros i Hi. cbn [T0 t_blockidx] in Hi. apply in_map_iff in Hi. destruct Hi as (a & <- & Ha).
      apply in_or_app. left. apply (Hin a Ha).
  Qed.

  Lemma ingest_from_sorter_complete sort_rows arrive columns pk s T tidx w :
    ingest_from_sorter H sort_rows arrive columns pk s = (IOk T tidx, w) -> complete T tidx w.
  Proof.
    unfold ingest_from_sorter.
    destruct (sorted_blocks sort_rows pk (length columns) [] s) as [bs|]; [|discriminate].
    destruct (has_dup pk && negb match bs with [] => true | _ => false end); [discriminate|].
    destruct (ingest_blocks H arrive columns pk bs) as [[T' tidx'] w'] eqn:Eb.
    intros E. inversion E; subst. eapply ingest_blocks_complete; eauto.
  Qed.

  Lemma ingest_table_complete sort_rows arrive run_size columns pknames rows T tidx w :
    ingest_table H sort_rows arrive run_size columns pknames rows = (IOk T tidx, w) -> complete T tidx w.
  Proof.
    unfold ingest_table.
    destruct (key_indices columns pknames) as [pk|]; [|discriminate].
    destruct (add_rows sort_rows run_size pk new_sorter rows) as [s|]; [|discriminate].
    apply ingest_from_sorter_complete.
  Qed.

  (** a job that meets the premises of its C03 theorem: sound table, complete writes, table last *)
  Lemma job_ok_result j :
    job_ok j -> exists T tidx,
      job_result H j = (IOk T tidx, job_writes H j) /\
      WF_table H T tidx /\ table_written_last (job_writes H j) T /\ complete T tidx (job_writes H j).
  Proof.
    destruct j as [sort_rows arrive run_size columns pknames rows | sort_rows arrive columns pk s];
      unfold job_writes; cbn [job_ok job_result].
    - intros (Hso & Harr & Hincl & Hnd & Hwf & Hc).
      destruct (C03.C03_ingest_wf H sort_rows arrive run_size columns pknames rows Hso Harr Hincl Hnd Hwf Hc)
        as (T & tidx & w & E & HWF).
      destruct (C01.C01_lossless H sort_rows arrive run_size columns pknames rows Hso Harr Hincl Hnd Hwf Hc)
        as (pk' & T' & tidx' & w' & _ & E' & Hlast & _).
      rewrite E in E'. inversion E'; subst T' tidx' w'. clear E'.
      exists T, tidx. rewrite E. cbn [snd].
      split; [reflexivity|]. split; [exact HWF|]. split; [exact Hlast|].
      eapply ingest_table_complete; exact E.
    - intros (Harr & Hwpk & Hnd & rows & Hwf & Hperm & Hsorted).
      destruct (C03.C03_sorter_any_rows_wf H sort_rows arrive columns pk s rows Harr Hwpk Hnd Hwf Hperm Hsorted)
        as (T & tidx & w & E & HWF & Hlast).
      exists T, tidx. rewrite E. cbn [snd].
      split; [reflexivity|]. split; [exact HWF|]. split; [exact Hlast|].
      eapply ingest_from_sorter_complete; exact E.
  Qed.

  (** [writes_sound] is kept by concatenation *)
  Lemma writes_sound_app a b : writes_sound H a -> writes_sound H b -> writes_sound H (a ++ b).
  Proof.
    intros Ha Hb T HT. apply in_app_or in HT. destruct HT as [HT|HT].
    - destruct (Ha T HT) as ((tidx & HWF & Hti) & Hbl & Hix).
      split; [exists tidx; split; [exact HWF|apply in_or_app; auto]|].
      split; intros x Hx; apply in_or_app; left; auto.
    - destruct (Hb T HT) as ((tidx & HWF & Hti) & Hbl & Hix).
      split; [exists tidx; split; [exact HWF|apply in_or_app; auto]|].
      split; intros x Hx; apply in_or_app; right; auto.
  Qed.

  Lemma writes_sound_no_table w :
    (forall T, ~ In (WTable T) w) -> writes_sound H w.
  Proof. intros Hno T HT. destruct (Hno T HT). Qed.

  (** every crash prefix of the writes of one sound job *)
  Lemma job_prefix_sound j p :
    job_ok j -> crash_prefix p (job_writes H j) -> writes_sound H p.
  Proof.
    intros Hok (q & Eq).
    destruct (job_ok_result j Hok) as (T & tidx & _ & HWF & Hlast & Hti & HT & Hbl & Hix).
    destruct Hlast as (w0 & tidx' & Ew & Hw0).
    destruct (rev q) as [|x q'] eqn:Erq.
    - (* nothing lost *)
      assert (q = []) by (apply (f_equal (@rev _)) in Erq; rewrite rev_involutive in Erq; exact Erq).
      subst q. rewrite app_nil_r in Eq. subst p.
      intros T' HT'. assert (T' = T).
      { rewrite Ew in HT'. apply in_app_or in HT'. destruct HT' as [HT'|HT'].
        - rewrite Forall_forall in Hw0. destruct (Hw0 _ HT').
        - cbn in HT'. destruct HT' as [HT'|[HT'|[]]]; [discriminate|now inversion HT']. }
      subst T'. split; [exists tidx; auto|]. split; auto.
    - (* the table object is among the lost writes *)
      apply writes_sound_no_table. intros T' HT'.
      assert (Eq2 : q = rev q' ++ [x]).
      { apply (f_equal (@rev _)) in Erq. rewrite rev_involutive in Erq. exact Erq. }
      rewrite Eq2, Ew in Eq.
      replace (w0 ++ [WTableIdx T tidx'; WTable T]) with ((w0 ++ [WTableIdx T tidx']) ++ [WTable T]) in Eq
        by (rewrite <- app_assoc; reflexivity).
      rewrite app_assoc in Eq. apply app_inj_tail in Eq. destruct Eq as [Eq _].
      assert (Hin : In (WTable T') (w0 ++ [WTableIdx T tidx'])) by (rewrite Eq; apply in_or_app; auto).
      apply in_app_or in Hin. destruct Hin as [Hin|Hin].
      + rewrite Forall_forall in Hw0. exact (Hw0 _ Hin).
      + cbn in Hin. destruct Hin as [Hin|[]]. discriminate.
  Qed.

  (** every crash prefix of the writes of any sequence of sound jobs *)
  Theorem ingest_writes_sound js :
    Forall job_ok js -> forall p, crash_prefix p (all_writes H js) -> writes_sound H p.
  Proof.
    induction 1 as [|j js Hj Hjs IH]; intros p (q & Eq).
    - cbn in Eq. symmetry in Eq. apply app_eq_nil in Eq. destruct Eq as [-> _].
      apply writes_sound_no_table. intros T [].
    - unfold all_writes in Eq. cbn [map concat] in Eq. fold (all_writes H js) in Eq.
      apply app_eq_app in Eq. destruct Eq as (l & [[E1 E2]|[E1 E2]]).
      + apply (job_prefix_sound j); [exact Hj|]. exists l. exact E1.
      + rewrite E1. apply writes_sound_app.
        * apply (job_prefix_sound j); [exact Hj|]. exists []. now rewrite app_nil_r.
        * apply IH. exists q. exact E2.
  Qed.

  (** the table of a sound job is in the complete write list *)
  Lemma job_table_written js j T :
    Forall job_ok js -> In j js -> job_table H j = Some T -> In (WTable T) (all_writes H js).
  Proof.
    intros Hall Hj ET. rewrite Forall_forall in Hall.
    destruct (job_ok_result j (Hall j Hj)) as (T' & tidx & E & _ & _ & _ & HT & _).
    unfold job_table in ET. rewrite E in ET. cbn in ET. inversion ET; subst T'.
    unfold all_writes. apply in_concat. exists (job_writes H j). split; [|exact HT].
    apply in_map. exact Hj.
  Qed.

  Lemma job_ok_table j : job_ok j -> exists T, job_table H j = Some T.
  Proof.
    intros Hok. destruct (job_ok_result j Hok) as (T & tidx & E & _).
    exists T. unfold job_table. now rewrite E.
  Qed.
End IngestWrites.

(** * Transfer side: the repository of a sound write list *)

Section Repo.
  Variable H : list bytes -> N.
  Variable Hb : list row -> N.
  Variable Hz : list row -> N.
  Variable Hi : blkidx -> N.
  Variable Ht : list bytes * list nat * N * list N * list N -> N.
  Variable Hr : list bytes -> N -> N.
  Variable bshape : N -> N.

  Notation abs_table := (abs_table H Hb Hi Hr).
  Notation tid := (tid Hb Hi Ht).
  Notation repo_of_writes := (repo_of_writes H Hb Hz Hi Ht Hr).

  (** the transfer-model image of a sound table, in closed form: the recorded block-index
      names are the re-indexing names *)
  Lemma abs_table_wf T tidx :
    WF_table H T tidx ->
    abs_table T =
      Transfer.mkTable (N.of_nat (length (t_columns T))) (pkN (t_pk T))
        (map (fun b => (b, Transfer.reindex (pkN (t_pk T)) b)) (map Hb (t_blocks T)))
        (Hr (t_columns T) (t_rowscount T)).
  Proof.
    intros (_ & _ & _ & _ & Eidx & _). unfold BridgeIngestTransfer.abs_table. f_equal.
    rewrite Eidx, combine_map_self, !map_map. apply map_ext. intros blk. cbn [fst snd].
    unfold abs_xid. now rewrite N.eqb_refl.
  Qed.

  Lemma tbl_blocks_abs T tidx :
    WF_table H T tidx -> Transfer.tbl_blocks (abs_table T) = map Hb (t_blocks T).
  Proof.
    intros HWF. rewrite (abs_table_wf T tidx HWF). unfold Transfer.tbl_blocks. cbn [Transfer.t_blocks].
    rewrite map_map. cbn [fst]. now rewrite map_id.
  Qed.

  (** C03's soundness implies C07's: key columns in range, every block non-empty with rows
      as wide as the header, recorded index names = re-indexing *)
  Lemma table_sound_abs T tidx :
    WF_table H T tidx ->
    (forall blk, In blk (t_blocks T) -> bshape (Hb blk) = shape_of blk) ->
    TransferSpec.table_sound bshape (abs_table T).
  Proof.
    intros HWF Hsh. rewrite (abs_table_wf T tidx HWF).
    destruct HWF as (_ & Hsz & _ & _ & _ & _ & _ & Hwpk & Hwr & _).
    split; cbn [Transfer.t_pk Transfer.t_cols Transfer.t_blocks].
    - intros k Hk. unfold pkN in Hk. apply in_map_iff in Hk. destruct Hk as (i & <- & Hi').
      unfold wf_pk in Hwpk. rewrite Forall_forall in Hwpk. specialize (Hwpk i Hi'). lia.
    - intros b x Hbx. apply in_map_iff in Hbx. destruct Hbx as (b' & E & Hb').
      inversion E; subst b' x. clear E. split; [|reflexivity].
      apply in_map_iff in Hb'. destruct Hb' as (blk & <- & Hblk).
      unfold Transfer.fits. rewrite (Hsh blk Hblk). apply N.eqb_eq.
      apply shape_of_uniform.
      + rewrite Forall_forall in Hsz. specialize (Hsz blk Hblk). destruct blk; cbn in Hsz; [lia|discriminate].
      + intros r Hr'. unfold wf_rows in Hwr. rewrite Forall_forall in Hwr. apply Hwr.
        unfold rows_of. apply in_concat. exists blk. auto.
  Qed.

  Lemma lookup_abs_tables w t tc :
    Transfer.lookup t (abs_tables H Hb Hi Ht Hr w) = Some tc ->
    exists T, In (WTable T) w /\ tid T = t /\ abs_table T = tc.
  Proof.
    unfold abs_tables. intros E.
    destruct (lookup_map_some (fun T => tid T) (fun T => abs_table T) _ _ _ E) as (T & HT & E1 & E2).
    exists T. split; [|auto]. apply in_w_tables. now apply in_rev.
  Qed.

  Lemma has_block_written w blk :
    In (WBlock blk) w -> Transfer.has (Hb blk) (abs_blocks Hb Hz w) = true.
  Proof.
    intros Hin. unfold abs_blocks. apply (has_map_in Hb Hz).
    apply -> in_rev. now apply in_w_blocks.
  Qed.

  Lemma lookup_abs_blocks w b z :
    Transfer.lookup b (abs_blocks Hb Hz w) = Some z ->
    exists blk, In (WBlock blk) w /\ Hb blk = b /\ Hz blk = z.
  Proof.
    unfold abs_blocks. intros E.
    destruct (lookup_map_some Hb Hz _ _ _ E) as (blk & Hblk & E1 & E2).
    exists blk. split; [|auto]. apply in_w_blocks. now apply in_rev.
  Qed.

  (** SrcWF: what ObjectSender needs of its repository *)
  Theorem src_wf_of_writes cs pf w :
    writes_sound H w -> shape_consistent Hb bshape w ->
    TransferSpec.SrcWF bshape (repo_of_writes cs pf w).
  Proof.
    intros Hs Hsh t tc Hl. cbn [repo_of_writes BridgeIngestTransfer.repo_of_writes Transfer.tables] in Hl.
    destruct (lookup_abs_tables w t tc Hl) as (T & HT & _ & <-).
    destruct (Hs T HT) as ((tidx & HWF & _) & Hbl & _).
    split.
    - apply (table_sound_abs T tidx HWF). intros blk Hblk. apply Hsh. auto.
    - intros b Hb'. rewrite (tbl_blocks_abs T tidx HWF) in Hb'.
      apply in_map_iff in Hb'. destruct Hb' as (blk & <- & Hblk).
      unfold Transfer.has_block. cbn [BridgeIngestTransfer.repo_of_writes Transfer.blocks].
      apply has_block_written. auto.
  Qed.

  (** TablesWF: every stored table usable (blocks, block indices, table index, profile) *)
  Theorem tables_wf_of_writes cs pf w :
    writes_sound H w -> shape_consistent Hb bshape w -> profiles_cover Hb Hi Ht pf w ->
    TransferSpec.TablesWF bshape (repo_of_writes cs pf w).
  Proof.
    intros Hs Hsh Hpf t tc Hl. cbn [BridgeIngestTransfer.repo_of_writes Transfer.tables] in Hl.
    destruct (lookup_abs_tables w t tc Hl) as (T & HT & <- & <-).
    destruct (Hs T HT) as ((tidx & HWF & Hti) & Hbl & Hix).
    split; [|split; [|split]].
    - apply (table_sound_abs T tidx HWF). intros blk Hblk. apply Hsh. auto.
    - intros b x Hbx. rewrite (abs_table_wf T tidx HWF) in Hbx. cbn [Transfer.t_blocks] in Hbx.
      apply in_map_iff in Hbx. destruct Hbx as (b' & E & Hb'). inversion E; subst b' x. clear E.
      apply in_map_iff in Hb'. destruct Hb' as (blk & <- & Hblk).
      split.
      + unfold Transfer.has_block. cbn [BridgeIngestTransfer.repo_of_writes Transfer.blocks].
        apply has_block_written. auto.
      + cbn [BridgeIngestTransfer.repo_of_writes Transfer.blkidx]. unfold abs_blkidx.
        apply in_flat_map. exists T. split; [now apply in_w_tables|].
        apply in_flat_map. exists blk. split; [apply in_w_blocks; auto|].
        assert (Hmem : Transfer.memN (Hi (index_block H (t_pk T) blk)) (map Hi (w_idxs w)) = true).
        { apply Transfer_proofs.memN_In. apply in_map. apply in_w_idxs. apply Hix.
          destruct HWF as (_ & _ & _ & _ & Eidx & _). rewrite Eidx. now apply in_map. }
        rewrite Hmem. now left.
    - cbn [BridgeIngestTransfer.repo_of_writes Transfer.tblidx]. unfold abs_tblidx.
      apply in_map. apply -> in_rev. apply in_w_tblidx. eauto.
    - cbn [BridgeIngestTransfer.repo_of_writes Transfer.prof]. auto.
  Qed.

  (** the same ids name the same tables and blocks in two ingest-built stores *)
  Lemma abs_table_eq w1 w2 A B :
    writes_sound H w1 -> writes_sound H w2 -> tables_inj Hb Hi Ht w1 w2 ->
    In (WTable A) w1 -> In (WTable B) w2 -> tid A = tid B -> abs_table A = abs_table B.
  Proof.
    intros Hs1 Hs2 Hinj HA HB E.
    destruct (Hs1 A HA) as ((x1 & WF1 & _) & _). destruct (Hs2 B HB) as ((x2 & WF2 & _) & _).
    destruct (Hinj A B HA HB E) as (E1 & E2 & E3 & E4).
    rewrite (abs_table_wf A x1 WF1), (abs_table_wf B x2 WF2), E1, E2, E3, E4. reflexivity.
  Qed.

  Theorem agree_tables_of_writes w1 w2 :
    writes_sound H w1 -> writes_sound H w2 -> tables_inj Hb Hi Ht w1 w2 ->
    TransferSpec.agree (abs_tables H Hb Hi Ht Hr w1) (abs_tables H Hb Hi Ht Hr w2).
  Proof.
    intros Hs1 Hs2 Hinj t x y L1 L2.
    destruct (lookup_abs_tables w1 t x L1) as (A & HA & EA & <-).
    destruct (lookup_abs_tables w2 t y L2) as (B & HB & EB & <-).
    apply (abs_table_eq w1 w2 A B Hs1 Hs2 Hinj HA HB). now rewrite EA, EB.
  Qed.

  Theorem agree_blocks_of_writes w1 w2 :
    blocks_inj Hb w1 w2 -> TransferSpec.agree (abs_blocks Hb Hz w1) (abs_blocks Hb Hz w2).
  Proof.
    intros Hinj b x y L1 L2.
    destruct (lookup_abs_blocks w1 b x L1) as (b1 & H1 & E1 & <-).
    destruct (lookup_abs_blocks w2 b y L2) as (b2 & H2 & E2 & <-).
    rewrite (Hinj b1 b2 H1 H2) by congruence. reflexivity.
  Qed.

  (** an ingested table is found under its id, as its transfer-model image *)
  Lemma lookup_ingested_table w T :
    writes_sound H w -> tables_inj Hb Hi Ht w w -> In (WTable T) w ->
    Transfer.lookup (tid T) (abs_tables H Hb Hi Ht Hr w) = Some (abs_table T).
  Proof.
    intros Hs Hinj HT.
    assert (Hhas : Transfer.has (tid T) (abs_tables H Hb Hi Ht Hr w) = true).
    { unfold abs_tables. apply (has_map_in (fun T => tid T) (fun T => abs_table T)).
      apply -> in_rev. now apply in_w_tables. }
    apply Transfer_proofs.has_true in Hhas. destruct Hhas as (tc & L). rewrite L. f_equal.
    destruct (lookup_abs_tables w _ tc L) as (T' & HT' & E & <-).
    eapply abs_table_eq; eauto.
  Qed.

  Lemma lookup_ingested_block w blk :
    blocks_inj Hb w w -> In (WBlock blk) w ->
    Transfer.lookup (Hb blk) (abs_blocks Hb Hz w) = Some (Hz blk).
  Proof.
    intros Hinj Hin. pose proof (has_block_written w blk Hin) as Hhas.
    apply Transfer_proofs.has_true in Hhas. destruct Hhas as (z & L). rewrite L. f_equal.
    destruct (lookup_abs_blocks w _ z L) as (b' & Hb' & E & <-).
    now rewrite (Hinj b' blk Hb' Hin E).
  Qed.
End Repo.

(** * Composition *)

Section Compose.
  Variable H : list bytes -> N.
  Variable Hb : list row -> N.
  Variable Hz : list row -> N.
  Variable Hi : blkidx -> N.
  Variable Ht : list bytes * list nat * N * list N * list N -> N.
  Variable Hr : list bytes -> N -> N.
  Variable bshape : N -> N.

  Notation repo_of_writes := (repo_of_writes H Hb Hz Hi Ht Hr).
  Notation abs_table := (abs_table H Hb Hi Hr).
  Notation tid := (tid Hb Hi Ht).

  (** C03 -> SrcWF, for the store left by any sequence of ingests, complete or crashed *)
  Theorem ingest_src_wf js p cs pf :
    Forall (job_ok) js -> crash_prefix p (all_writes H js) ->
    shape_consistent Hb bshape p ->
    TransferSpec.SrcWF bshape (repo_of_writes cs pf p).
  Proof.
    intros Hjs Hp Hsh. apply src_wf_of_writes; [|exact Hsh].
    eapply ingest_writes_sound; eauto.
  Qed.

  (** C03 -> TablesWF, given the profiles *)
  Theorem ingest_tables_wf js p cs pf :
    Forall (job_ok) js -> crash_prefix p (all_writes H js) ->
    shape_consistent Hb bshape p -> profiles_cover Hb Hi Ht pf p ->
    TransferSpec.TablesWF bshape (repo_of_writes cs pf p).
  Proof.
    intros Hjs Hp Hsh Hpf. apply tables_wf_of_writes; [|exact Hsh|exact Hpf].
    eapply ingest_writes_sound; eauto.
  Qed.

  (** the precondition of the C07 theorems with the source's table premise discharged *)
  Theorem ingest_exact_pre js p cs pf dst to_send tbs commons :
    Forall (job_ok) js -> crash_prefix p (all_writes H js) ->
    shape_consistent Hb bshape p ->
    (forall c cc, In (c, cc) to_send -> Transfer.lookup c cs = Some cc) ->
    (forall c, In c commons -> Transfer.has c cs = true) ->
    TransferSpec.parent_first dst to_send ->
    TransferSpec.Closed dst -> TransferSpec.TablesWF bshape dst ->
    TransferSpec.compat (repo_of_writes cs pf p) dst ->
    TransferSpec.exact_pre bshape (repo_of_writes cs pf p) dst to_send tbs commons.
  Proof.
    intros Hjs Hp Hsh Hsent Hcom Hpf Hcl Hwf Hcompat.
    split; auto. eapply ingest_src_wf; eauto.
  Qed.

  Theorem compose_ingest_transfer js p cs pf dst to_send tbs commons size max :
    Forall (job_ok) js -> crash_prefix p (all_writes H js) ->
    shape_consistent Hb bshape p ->
    (forall c cc, In (c, cc) to_send -> Transfer.lookup c cs = Some cc) ->
    (forall c, In c commons -> Transfer.has c cs = true) ->
    TransferSpec.parent_first dst to_send ->
    TransferSpec.Closed dst -> TransferSpec.TablesWF bshape dst ->
    TransferSpec.compat (repo_of_writes cs pf p) dst ->
    TransferSpec.commons_full (repo_of_writes cs pf p) dst commons ->
    let src := repo_of_writes cs pf p in
    exists objs d' packs,
      Transfer.stream src to_send tbs commons = Some objs /\
      Transfer.transfer bshape size src to_send tbs commons max dst = Transfer.TDone d' packs /\
      TransferSpec.packs_of objs packs /\
      TransferSpec.exact_post bshape src dst to_send tbs d'.
  Proof.
    intros Hjs Hp Hsh Hsent Hcom Hpf Hcl Hwf Hcompat Hfull src.
    apply C07.C07_exact; [|exact Hfull].
    eapply ingest_exact_pre; eauto.
  Qed.

  Theorem compose_ingest_transfer_order js p cs pf dst to_send tbs commons size max :
    Forall (job_ok) js -> crash_prefix p (all_writes H js) ->
    shape_consistent Hb bshape p ->
    (forall c cc, In (c, cc) to_send -> Transfer.lookup c cs = Some cc) ->
    (forall c, In c commons -> Transfer.has c cs = true) ->
    TransferSpec.parent_first dst to_send ->
    TransferSpec.Closed dst -> TransferSpec.TablesWF bshape dst ->
    TransferSpec.compat (repo_of_writes cs pf p) dst ->
    TransferSpec.commons_full (repo_of_writes cs pf p) dst commons ->
    let src := repo_of_writes cs pf p in
    exists d' packs,
      Transfer.transfer bshape size src to_send tbs commons max dst = Transfer.TDone d' packs /\
      TransferSpec.blocks_before_tables (TransferSpec.initial_common_blocks src commons) (concat packs) /\
      TransferSpec.table_before_commits (concat packs) /\
      TransferSpec.commits_in_order to_send (concat packs) /\
      TransferSpec.parents_before_children dst (concat packs).
  Proof.
    intros Hjs Hp Hsh Hsent Hcom Hpf Hcl Hwf Hcompat Hfull src.
    apply C07.C07_order; [|exact Hfull].
    eapply ingest_exact_pre; eauto.
  Qed.

  (** both repositories built by ingests: the destination's table premise and the table /
      block parts of "same id, same content" are discharged too; what remains is about
      the commit objects only *)
  Theorem ingest_exact_pre_both js p cs pf js' p' cs' pf' to_send tbs commons :
    Forall (job_ok) js -> crash_prefix p (all_writes H js) ->
    Forall (job_ok) js' -> crash_prefix p' (all_writes H js') ->
    shape_consistent Hb bshape p -> shape_consistent Hb bshape p' ->
    profiles_cover Hb Hi Ht pf' p' ->
    blocks_inj Hb p p' -> tables_inj Hb Hi Ht p p' ->
    (forall c cc, In (c, cc) to_send -> Transfer.lookup c cs = Some cc) ->
    (forall c, In c commons -> Transfer.has c cs = true) ->
    TransferSpec.parent_first (repo_of_writes cs' pf' p') to_send ->
    TransferSpec.Closed (repo_of_writes cs' pf' p') ->
    TransferSpec.agree cs cs' ->
    TransferSpec.exact_pre bshape (repo_of_writes cs pf p) (repo_of_writes cs' pf' p') to_send tbs commons.
  Proof.
    intros Hjs Hp Hjs' Hp' Hsh Hsh' Hprof Hbinj Htinj Hsent Hcom Hpf Hcl Hagree.
    pose proof (ingest_writes_sound H js Hjs p Hp) as Hs.
    pose proof (ingest_writes_sound H js' Hjs' p' Hp') as Hs'.
    apply ingest_exact_pre with (js := js); auto.
    - apply ingest_tables_wf with (js := js'); auto.
    - split; [exact Hagree|]. split.
      + apply agree_tables_of_writes; auto.
      + apply agree_blocks_of_writes; auto.
  Qed.

  Theorem compose_ingest_transfer_both js p cs pf js' p' cs' pf' to_send tbs commons size max :
    Forall (job_ok) js -> crash_prefix p (all_writes H js) ->
    Forall (job_ok) js' -> crash_prefix p' (all_writes H js') ->
    shape_consistent Hb bshape p -> shape_consistent Hb bshape p' ->
    profiles_cover Hb Hi Ht pf' p' ->
    blocks_inj Hb p p' -> tables_inj Hb Hi Ht p p' ->
    (forall c cc, In (c, cc) to_send -> Transfer.lookup c cs = Some cc) ->
    (forall c, In c commons -> Transfer.has c cs = true) ->
    TransferSpec.parent_first (repo_of_writes cs' pf' p') to_send ->
    TransferSpec.Closed (repo_of_writes cs' pf' p') ->
    TransferSpec.agree cs cs' ->
    TransferSpec.commons_full (repo_of_writes cs pf p) (repo_of_writes cs' pf' p') commons ->
    let src := repo_of_writes cs pf p in
    let dst := repo_of_writes cs' pf' p' in
    exists objs d' packs,
      Transfer.stream src to_send tbs commons = Some objs /\
      Transfer.transfer bshape size src to_send tbs commons max dst = Transfer.TDone d' packs /\
      TransferSpec.packs_of objs packs /\
      TransferSpec.exact_post bshape src dst to_send tbs d'.
  Proof.
    intros Hjs Hp Hjs' Hp' Hsh Hsh' Hprof Hbinj Htinj Hsent Hcom Hpf Hcl Hagree Hfull src dst.
    apply C07.C07_exact; [|exact Hfull].
    apply ingest_exact_pre_both with (js := js) (js' := js'); auto.
  Qed.

  (** end to end, in the words of the ingest model: a table produced by one of the ingests
      and carried by a sent commit is, after the transfer, stored at the destination under
      its id as the same table object, every one of its blocks is stored under its block id
      with the source's (compressed) bytes, and it is usable there (TablesWF: indices and
      profile rebuilt) *)
  Theorem compose_ingested_table_arrives js cs pf dst to_send tbs commons size max j T c cc :
    Forall (job_ok) js ->
    shape_consistent Hb bshape (all_writes H js) ->
    blocks_inj Hb (all_writes H js) (all_writes H js) ->
    tables_inj Hb Hi Ht (all_writes H js) (all_writes H js) ->
    (forall c cc, In (c, cc) to_send -> Transfer.lookup c cs = Some cc) ->
    (forall c, In c commons -> Transfer.has c cs = true) ->
    TransferSpec.parent_first dst to_send ->
    TransferSpec.Closed dst -> TransferSpec.TablesWF bshape dst ->
    TransferSpec.compat (repo_of_writes cs pf (all_writes H js)) dst ->
    TransferSpec.commons_full (repo_of_writes cs pf (all_writes H js)) dst commons ->
    In j js -> job_table H j = Some T ->
    In (c, cc) to_send -> Transfer.c_table cc = tid T -> Transfer.memN (tid T) tbs = true ->
    exists d' packs,
      Transfer.transfer bshape size (repo_of_writes cs pf (all_writes H js)) to_send tbs commons max dst
        = Transfer.TDone d' packs /\
      Transfer.lookup c (Transfer.commits d') = Some cc /\
      Transfer.lookup (tid T) (Transfer.tables d') = Some (abs_table T) /\
      (forall blk, In blk (t_blocks T) ->
         Transfer.lookup (Hb blk) (Transfer.blocks d') = Some (Hz blk)) /\
      TransferSpec.table_ok bshape d' (tid T) (abs_table T).
  Proof.
    intros Hjs Hsh Hbinj Htinj Hsent Hcom Hpf Hcl Hwf Hcompat Hfull Hj ET Hc Ect Htbs.
    set (w := all_writes H js) in *.
    assert (Hpre : crash_prefix w (all_writes H js)) by (exists []; now rewrite app_nil_r).
    pose proof (ingest_writes_sound H js Hjs w Hpre) as Hs.
    pose proof (job_table_written H js j T Hjs Hj ET) as HT. fold w in HT.
    destruct (compose_ingest_transfer js w cs pf dst to_send tbs commons size max
                Hjs Hpre Hsh Hsent Hcom Hpf Hcl Hwf Hcompat Hfull)
      as (objs & d' & packs & _ & Etr & _ & Post).
    exists d', packs. split; [exact Etr|].
    assert (Hsent_t : TransferSpec.sent_table (repo_of_writes cs pf w) to_send tbs (tid T) (abs_table T)).
    { exists c, cc. repeat split; auto.
      cbn [BridgeIngestTransfer.repo_of_writes Transfer.tables]. now apply lookup_ingested_table. }
    split; [exact (TransferSpec.post_commits _ _ _ _ _ _ Post c cc Hc)|].
    pose proof (TransferSpec.post_tables _ _ _ _ _ _ Post _ _ Hsent_t) as Lt.
    split; [exact Lt|]. split.
    - intros blk Hblk. destruct (Hs T HT) as ((tidx & HWF & _) & Hbl & _).
      assert (Hin : In (Hb blk) (Transfer.tbl_blocks (abs_table T))).
      { rewrite (tbl_blocks_abs H Hb Hi Hr T tidx HWF). now apply in_map. }
      destruct (TransferSpec.post_blocks _ _ _ _ _ _ Post _ _ _ Hsent_t Hin) as (_ & E).
      rewrite E. cbn [BridgeIngestTransfer.repo_of_writes Transfer.blocks].
      apply lookup_ingested_block; auto.
    - exact (TransferSpec.post_wf _ _ _ _ _ _ Post _ _ Lt).
  Qed.
End Compose.

(** * Boolean checkers for the restricted hash hypotheses (used by the examples) *)

Section Checkers.
  Variable Hb : list row -> N.
  Variable Hi : blkidx -> N.
  Variable Ht : list bytes * list nat * N * list N * list N -> N.

  Definition block_eqb (a b : list row) : bool := list_eqb row_eqb a b.

  Lemma list_eqb_eq {A} (eq : A -> A -> bool) :
    (forall a b, eq a b = true -> a = b) -> forall l1 l2, list_eqb eq l1 l2 = true -> l1 = l2.
  Proof.
    intros Heq. induction l1 as [|a l1 IH]; intros [|b l2] E; cbn in E; try discriminate; auto.
    apply andb_prop in E. destruct E as [E1 E2]. f_equal; auto.
  Qed.

  Lemma block_eqb_eq a b : block_eqb a b = true -> a = b.
  Proof. apply list_eqb_eq. apply row_eqb_eq. Qed.

  Lemma beqb_eq a b : beqb a b = true -> a = b.
  Proof. unfold beqb. destruct (bcmp a b) eqn:E; try discriminate. intros _. now apply bcmp_eq. Qed.

  Definition shape_consistentb (bshape : N -> N) (w : list wobj) : bool :=
    forallb (fun blk => bshape (Hb blk) =? shape_of blk) (w_blocks w).

  Lemma shape_consistentb_ok bshape w :
    shape_consistentb bshape w = true -> shape_consistent Hb bshape w.
  Proof.
    unfold shape_consistentb. rewrite forallb_forall. intros Hall blk Hin.
    apply N.eqb_eq. apply Hall. now apply in_w_blocks.
  Qed.

  (** the shape hypothesis follows from (restricted) injectivity of the block hash *)
  Lemma shape_consistent_for w : blocks_inj Hb w w -> shape_consistent Hb (bshape_for Hb w) w.
  Proof.
    intros Hinj blk Hin. unfold bshape_for.
    destruct (find (fun b => Hb b =? Hb blk) (w_blocks w)) as [b|] eqn:Ef.
    - apply find_some in Ef. destruct Ef as [Hb' E]. apply N.eqb_eq in E.
      apply in_w_blocks in Hb'. now rewrite (Hinj b blk Hb' Hin E).
    - apply in_w_blocks in Hin. pose proof (find_none _ _ Ef blk Hin) as E. cbn in E.
      rewrite N.eqb_refl in E. discriminate.
  Qed.

  Definition blocks_injb (w1 w2 : list wobj) : bool :=
    forallb (fun a => forallb (fun b => implb (Hb a =? Hb b) (block_eqb a b)) (w_blocks w2)) (w_blocks w1).

  Lemma blocks_injb_ok w1 w2 : blocks_injb w1 w2 = true -> blocks_inj Hb w1 w2.
  Proof.
    unfold blocks_injb. rewrite forallb_forall. intros Hall a b Ha Hb' E.
    apply in_w_blocks in Ha. apply in_w_blocks in Hb'.
    specialize (Hall a Ha). rewrite forallb_forall in Hall. specialize (Hall b Hb').
    apply N.eqb_eq in E. rewrite E in Hall. cbn in Hall. now apply block_eqb_eq.
  Qed.

  Definition tables_injb (w1 w2 : list wobj) : bool :=
    forallb (fun A => forallb (fun B =>
      implb (tid Hb Hi Ht A =? tid Hb Hi Ht B)
            (list_eqb beqb (t_columns A) (t_columns B) &&
             list_eqb Nat.eqb (t_pk A) (t_pk B) &&
             (t_rowscount A =? t_rowscount B) &&
             list_eqb N.eqb (map Hb (t_blocks A)) (map Hb (t_blocks B))))
      (w_tables w2)) (w_tables w1).

  Lemma tables_injb_ok w1 w2 : tables_injb w1 w2 = true -> tables_inj Hb Hi Ht w1 w2.
  Proof.
    unfold tables_injb. rewrite forallb_forall. intros Hall A B HA HB E.
    apply in_w_tables in HA. apply in_w_tables in HB.
    specialize (Hall A HA). rewrite forallb_forall in Hall. specialize (Hall B HB).
    apply N.eqb_eq in E. rewrite E in Hall. cbn [implb] in Hall.
    apply andb_prop in Hall. destruct Hall as [Hall E4].
    apply andb_prop in Hall. destruct Hall as [Hall E3].
    apply andb_prop in Hall. destruct Hall as [E1 E2].
    repeat split.
    - apply (list_eqb_eq beqb beqb_eq); exact E1.
    - apply (list_eqb_eq Nat.eqb); [intros a b; apply Nat.eqb_eq|exact E2].
    - now apply N.eqb_eq.
    - apply (list_eqb_eq N.eqb); [intros a b; apply N.eqb_eq|exact E4].
  Qed.
End Checkers.

Section Checkers2.
  Variable Hb : list row -> N.
  Variable Hi : blkidx -> N.
  Variable Ht : list bytes * list nat * N * list N * list N -> N.

  Definition profiles_coverb (pf : list N) (w : list wobj) : bool :=
    forallb (fun T => Transfer.memN (tid Hb Hi Ht T) pf) (w_tables w).

  Lemma profiles_coverb_ok pf w : profiles_coverb pf w = true -> profiles_cover Hb Hi Ht pf w.
  Proof.
    unfold profiles_coverb. rewrite forallb_forall. intros Hall T HT.
    apply Transfer_proofs.memN_In. apply Hall. now apply in_w_tables.
  Qed.
End Checkers2.

(** * A concrete instance (non-vacuity of the composition theorems)

    Two ingests into the source: a CSV of 300 rows given in descending key order (run size
    64, blocks arriving reversed: a two-block table), and a merge-style ingest from a sorter
    holding two sorted runs with a duplicate row.  The "hashes" are cheap polynomial hashes
    (NOT injective in general; the restricted hypotheses are checked on the stored objects).
    A second repository ingests the same CSV in ascending order with another run size and
    arrival order and obtains the same table id (C02). *)
Module B3Example.
  Definition mix (x acc : N) : N := (x + 1 + 257 * acc) mod 1000003.
  Definition hbytes (b : bytes) : N := fold_right mix 7 b.
  Definition hrow (r : list bytes) : N := fold_right mix 11 (map hbytes r).
  Definition Hc : list bytes -> N := hrow.
  Definition Hb (b : list row) : N := fold_right mix 13 (map hrow b).
  Definition Hz (b : list row) : N := 2000000 + Hb b.
  Definition Hi (i : blkidx) : N := fold_right mix 17 (map (fun p => mix (fst p) (snd p)) (bi_rows i)).
  Definition Ht (x : list bytes * list nat * N * list N * list N) : N :=
    let '(c, pk, n, bl, il) := x in
    fold_right mix 19 [hrow c; fold_right mix 23 (map N.of_nat pk); n; fold_right mix 29 bl; fold_right mix 31 il].
  Definition Hr (c : list bytes) (n : N) : N := mix (hrow c) n.

  Definition cols : list bytes := [[97]; [98]].
  Definition big_rows : list row :=
    map (fun i => [[N.of_nat i / 256; N.of_nat i mod 256]; [7]]) (rev (seq 0 300)).
  Definition j1 := JCsv isort_rows (@rev asyncblock) 64 cols [[97]] big_rows.
  Definition j1' := JCsv isort_rows (fun l => l) 4096 cols [[97]] (rev big_rows).
  Definition s2 : sorter := mk_sorter [[[[1]; [5]]; [[3]; [1]]]] [[[2]; [9]]; [[1]; [5]]] 0 [] [] 0.
  Definition j2 := JSorter isort_rows (fun l => l) cols [0%nat] s2.
  Definition js := [j1; j2].
  Definition js' := [j1'].
  Definition w := all_writes Hc js.
  Definition w' := all_writes Hc js'.
  Definition tid_of (j : job) : N :=
    match job_table Hc j with Some T => tid Hb Hi Ht T | None => 0 end.
  Definition t1 := tid_of j1.
  Definition t2 := tid_of j2.
  Definition C0 := Transfer.mkCommit t1 [].
  Definition C1 := Transfer.mkCommit t2 [0].
  Definition cs := [(0, C0); (1, C1)].
  Definition cs' := [(0, C0)].
  Definition src := repo_of_writes Hc Hb Hz Hi Ht Hr cs [] w.
  Definition dst' := repo_of_writes Hc Hb Hz Hi Ht Hr cs' [t1] w'.
  Definition bsh := bshape_for Hb (w ++ w').
  (* a crash during the second ingest: its block and block index are written, its table
     index and table object are not *)
  Definition wcrash := job_writes Hc j1 ++ firstn 2 (job_writes Hc j2).
  Definition src_crash := repo_of_writes Hc Hb Hz Hi Ht Hr cs' [] wcrash.
  Definition kind (o : Transfer.obj) : N :=
    match o with Transfer.OCommit _ _ => 1 | Transfer.OTable _ _ => 2 | Transfer.OBlock _ _ => 3 | Transfer.OBad => 0 end.

  Lemma wf_big l : wf_rows 2 (map (fun i => [[N.of_nat i / 256; N.of_nat i mod 256]; [7]]) l).
  Proof. apply Forall_forall. intros r Hr'. apply in_map_iff in Hr'. destruct Hr' as (i & <- & _). reflexivity. Qed.
  Lemma lim_big l : cells_in_limit (map (fun i => [[N.of_nat i / 256; N.of_nat i mod 256]; [7]]) l).
  Proof.
    apply Forall_forall. intros r Hr'. apply in_map_iff in Hr'. destruct Hr' as (i & <- & _).
    repeat constructor; unfold blen, max_str_len; cbn [length]; lia.
  Qed.

  Lemma j1_ok : job_ok j1.
  Proof.
    unfold j1. cbn [job_ok]. split; [apply isort_ok|].
    split; [intros l; apply Permutation_sym, Permutation_rev|].
    split; [intros x [<-|[]]; left; reflexivity|].
    split; [repeat constructor; intros []|].
    split; [apply wf_big|apply lim_big].
  Qed.
  Lemma j1'_ok : job_ok j1'.
  Proof.
    unfold j1'. cbn [job_ok]. split; [apply isort_ok|].
    split; [intros l; apply Permutation_refl|].
    split; [intros x [<-|[]]; left; reflexivity|].
    split; [repeat constructor; intros []|].
    unfold big_rows. rewrite <- map_rev. split; [apply wf_big|apply lim_big].
  Qed.
  Lemma j2_ok : job_ok j2.
  Proof.
    unfold j2. cbn [job_ok]. split; [intros l; apply Permutation_refl|].
    split; [repeat constructor|]. split; [repeat constructor; intros []|].
    exists (concat (runs_of isort_rows [0%nat] s2)).
    split; [vm_compute; repeat constructor|]. split; [apply Permutation_refl|].
    vm_compute. repeat constructor.
  Qed.
  Lemma js_ok : Forall job_ok js.
  Proof. constructor; [apply j1_ok|]. constructor; [apply j2_ok|]. constructor. Qed.
  Lemma js'_ok : Forall job_ok js'.
  Proof. constructor; [apply j1'_ok|]. constructor. Qed.

  Lemma whole l : crash_prefix l l.
  Proof. exists []. now rewrite app_nil_r. Qed.

  Lemma wcrash_prefix : crash_prefix wcrash (all_writes Hc js).
  Proof.
    exists (skipn 2 (job_writes Hc j2)). unfold wcrash, js, all_writes. cbn [map concat].
    rewrite app_nil_r, <- app_assoc, firstn_skipn. reflexivity.
  Qed.

  Lemma whole_w : crash_prefix w (all_writes Hc js).
  Proof. exists []. unfold w. now rewrite app_nil_r. Qed.
  Lemma whole_w' : crash_prefix w' (all_writes Hc js').
  Proof. exists []. unfold w'. now rewrite app_nil_r. Qed.
  Lemma shape_aw : shape_consistent Hb bsh (all_writes Hc js).
  Proof. apply shape_consistentb_ok. vm_compute. reflexivity. Qed.
  Lemma binj_aw : blocks_inj Hb (all_writes Hc js) (all_writes Hc js).
  Proof. apply blocks_injb_ok. vm_compute. reflexivity. Qed.
  Lemma tinj_aw : tables_inj Hb Hi Ht (all_writes Hc js) (all_writes Hc js).
  Proof. apply tables_injb_ok. vm_compute. reflexivity. Qed.
  Lemma c0_sent : In (0, C0) cs /\ Transfer.c_table C0 = t1.
  Proof. split; [left; reflexivity|]. unfold C0. cbn [Transfer.c_table]. reflexivity. Qed.

  Lemma wcrash_proper : wcrash <> all_writes Hc js.
  Proof. intros E. apply (f_equal (@length _)) in E. vm_compute in E. discriminate. Qed.
  Lemma memt1 : Transfer.memN t1 [t1; t2] = true.
  Proof. vm_compute. reflexivity. Qed.

  Lemma shape_w : shape_consistent Hb bsh w.
  Proof. apply shape_consistentb_ok. vm_compute. reflexivity. Qed.
  Lemma shape_w' : shape_consistent Hb bsh w'.
  Proof. apply shape_consistentb_ok. vm_compute. reflexivity. Qed.
  Lemma shape_wcrash : shape_consistent Hb bsh wcrash.
  Proof. apply shape_consistentb_ok. vm_compute. reflexivity. Qed.
  Lemma binj_ww : blocks_inj Hb w w.
  Proof. apply blocks_injb_ok. vm_compute. reflexivity. Qed.
  Lemma tinj_ww : tables_inj Hb Hi Ht w w.
  Proof. apply tables_injb_ok. vm_compute. reflexivity. Qed.
  Lemma binj_ww' : blocks_inj Hb w w'.
  Proof. apply blocks_injb_ok. vm_compute. reflexivity. Qed.
  Lemma tinj_ww' : tables_inj Hb Hi Ht w w'.
  Proof. apply tables_injb_ok. vm_compute. reflexivity. Qed.
  Lemma prof_w' : profiles_cover Hb Hi Ht [t1] w'.
  Proof. apply profiles_coverb_ok. vm_compute. reflexivity. Qed.

  Lemma sent_all : forall c cc, In (c, cc) cs -> Transfer.lookup c cs = Some cc.
  Proof. intros c cc [E|[E|[]]]; inversion E; subst; reflexivity. Qed.
  Lemma sent_1 : forall c cc, In (c, cc) [(1, C1)] -> Transfer.lookup c cs = Some cc.
  Proof. intros c cc [E|[]]; inversion E; subst; reflexivity. Qed.
  Lemma sent_0 : forall c cc, In (c, cc) cs' -> Transfer.lookup c cs' = Some cc.
  Proof. intros c cc [E|[]]; inversion E; subst; reflexivity. Qed.
  Lemma no_commons : forall c, In c [] -> Transfer.has c cs = true.
  Proof. intros c []. Qed.
  Lemma no_commons' : forall c, In c [] -> Transfer.has c cs' = true.
  Proof. intros c []. Qed.
  Lemma commons_0 : forall c, In c [0] -> Transfer.has c cs = true.
  Proof. intros c [<-|[]]. reflexivity. Qed.

  Lemma pf_all : TransferSpec.parent_first Transfer.empty_repo cs.
  Proof.
    intros pre c cc post E p Hp. destruct pre as [|a [|b [|x pre]]]; cbn [app] in E; inversion E; subst.
    - destruct Hp.
    - destruct Hp as [<-|[]]. left. cbn. auto.
  Qed.
  Lemma pf_0 : TransferSpec.parent_first Transfer.empty_repo cs'.
  Proof.
    intros pre c cc post E p Hp. destruct pre as [|a [|x pre]]; cbn [app] in E; inversion E; subst.
    destruct Hp.
  Qed.
  Lemma pf_1 : TransferSpec.parent_first dst' [(1, C1)].
  Proof.
    intros pre c cc post E p Hp. destruct pre as [|a [|x pre]]; cbn [app] in E; inversion E; subst.
    destruct Hp as [<-|[]]. right. reflexivity.
  Qed.

  Lemma closed_empty : TransferSpec.Closed Transfer.empty_repo.
  Proof. intros c cc L; discriminate. Qed.
  Lemma wf_empty : TransferSpec.TablesWF bsh Transfer.empty_repo.
  Proof. intros t tc L; discriminate. Qed.
  Lemma compat_empty s : TransferSpec.compat s Transfer.empty_repo.
  Proof. repeat split; intros k x y _ L; discriminate. Qed.
  Lemma full_none s d : TransferSpec.commons_full s d [].
  Proof. intros t (c & cc & [] & _). Qed.

  Lemma closed_dst' : TransferSpec.Closed dst'.
  Proof.
    intros c cc L p Hp. unfold dst', repo_of_writes in L. cbn [Transfer.commits cs' Transfer.lookup] in L.
    destruct (c =? 0); [|discriminate]. inversion L; subst. destruct Hp.
  Qed.
  Lemma agree_cs : TransferSpec.agree cs cs'.
  Proof.
    intros k x y L1 L2. unfold cs, cs' in *. cbn [Transfer.lookup] in L1, L2.
    destruct (k =? 0); [congruence|discriminate].
  Qed.
  Lemma full_0 : TransferSpec.commons_full src dst' [0].
  Proof.
    intros t (c & cc & [<-|[]] & L & <-).
    unfold src, repo_of_writes in L. cbn [Transfer.commits cs Transfer.lookup] in L.
    inversion L; subst. vm_compute. reflexivity.
  Qed.

  (** the two ingests of the same CSV give the same table id (C02), and the ids are distinct
      from the merge table's *)
  Lemma ids : t1 = tid_of j1' /\ t1 <> t2.
  Proof. split; [vm_compute; reflexivity|vm_compute; discriminate]. Qed.

  (** run 1: everything to an empty destination, one object per packfile *)
  Lemma run_all :
    exists d' packs,
      Transfer.transfer bsh (fun _ => 2) src cs [t1; t2] [] 1 Transfer.empty_repo = Transfer.TDone d' packs /\
      map (map kind) packs = [[3]; [3]; [2]; [1]; [3]; [2]; [1]] /\
      map fst (Transfer.tables d') = [t2; t1] /\ length (Transfer.blkidx d') = 3%nat /\
      Transfer.prof d' = [t2; t1].
  Proof. eexists. eexists. split; [vm_compute; reflexivity|]. vm_compute. auto. Qed.

  (** run 2: the second commit to a repository that ingested the first CSV itself *)
  Lemma run_both :
    exists d' packs,
      Transfer.transfer bsh (fun _ => 2) src [(1, C1)] [t1; t2] [0] 5 dst' = Transfer.TDone d' packs /\
      map (map kind) packs = [[3; 2; 1]] /\
      map fst (Transfer.tables d') = [t2; t1] /\ length (Transfer.blocks d') = 3%nat.
  Proof. eexists. eexists. split; [vm_compute; reflexivity|]. vm_compute. auto. Qed.

  (** run 3: source crashed during the second ingest; the first commit is sent *)
  Lemma run_crash :
    Transfer.has_table src_crash t2 = false /\ length (Transfer.blocks src_crash) = 3%nat /\
    exists d' packs,
      Transfer.transfer bsh (fun _ => 2) src_crash cs' [t1] [] 1 Transfer.empty_repo = Transfer.TDone d' packs /\
      map (map kind) packs = [[3]; [3]; [2]; [1]].
  Proof.
    split; [vm_compute; reflexivity|]. split; [vm_compute; reflexivity|].
    eexists. eexists. split; vm_compute; reflexivity.
  Qed.

  (** the conclusion is not trivially true: a store holding the merge table's object
      without its block does not satisfy SrcWF *)
  Definition T2 : table :=
    match job_table Hc j2 with Some T => T | None => mk_table [] [] 0 [] [] end.
  Lemma not_trivial :
    job_table Hc j2 = Some T2 /\
    ~ TransferSpec.SrcWF bsh (repo_of_writes Hc Hb Hz Hi Ht Hr [] [] [WTable T2]).
  Proof.
    split; [vm_compute; reflexivity|]. intros HS.
    destruct (HS (tid Hb Hi Ht T2) (abs_table Hc Hb Hi Hr T2)) as [_ Hblk].
    - vm_compute. reflexivity.
    - assert (Hhas : Transfer.has_block (repo_of_writes Hc Hb Hz Hi Ht Hr [] [] [WTable T2])
                                        (Hb (hd [] (t_blocks T2))) = true).
      { apply Hblk. vm_compute. left. reflexivity. }
      vm_compute in Hhas. discriminate.
  Qed.

  Lemma j1_table : In j1 js /\ exists T, job_table Hc j1 = Some T /\ t1 = tid Hb Hi Ht T /\ length (t_blocks T) = 2%nat.
  Proof. split; [left; reflexivity|]. eexists. split; [vm_compute; reflexivity|]. vm_compute. auto. Qed.
End B3Example.
