(** Proofs about model/TrackerRace.v: the access discipline of the progress counters is
    sufficient and (for a source with a write) necessary for data-race freedom. *)
From Coq Require Import List Arith String Relations Lia Bool.
From W.model Require Import TrackerRace.
Import ListNotations.
Local Open Scope string_scope.

Lemma hb_lt : forall tr i j, hb tr i j -> i < j.
Proof.
  intros tr i j H. induction H as [i j [Hlt _] | i k j _ IH1 _ IH2]; lia.
Qed.

(* a path from i to i+1 is a single step *)
Lemma hb_adjacent : forall tr i j, hb tr i j -> j = S i -> hb1 tr i j.
Proof.
  intros tr i j H. induction H as [i j H1 | i k j H1 _ H2 _]; intros Hj.
  - exact H1.
  - apply hb_lt in H1. apply hb_lt in H2. lia.
Qed.

Lemma forallb_In : forall (A : Type) (f : A -> bool) (l : list A) (x : A),
  forallb f l = true -> In x l -> f x = true.
Proof. intros A f l x H Hin. rewrite forallb_forall in H. apply H. exact Hin. Qed.

(** sufficiency: under the discipline no execution built from the source's accesses has a
    data race *)
Theorem discipline_no_race : forall (src : list acc) (tr : list ev),
  discipline_ok src = true -> from_source src tr -> ~ race tr.
Proof.
  intros src tr Hd Hsrc [i [j [a [b [Hlt [Hi [Hj [Hc Hn]]]]]]]].
  unfold discipline_ok in Hd.
  apply andb_true_iff in Hd. destruct Hd as [Hd _].
  apply andb_true_iff in Hd. destruct Hd as [Hd _].
  assert (Ha : In (e_acc a) src) by (apply Hsrc; eapply nth_error_In; exact Hi).
  assert (Hb : In (e_acc b) src) by (apply Hsrc; eapply nth_error_In; exact Hj).
  apply orb_true_iff in Hd. destruct Hd as [Hat | Hlk].
  - (* all atomic: no pair conflicts *)
    unfold conflict in Hc.
    rewrite (forallb_In _ _ _ _ Hat Ha), (forallb_In _ _ _ _ Hat Hb) in Hc.
    cbn in Hc. rewrite andb_false_r in Hc. discriminate.
  - (* all under the mutex: ordered by the lock *)
    apply Hn. apply t_step. split; [exact Hlt|].
    exists a, b. split; [exact Hi|]. split; [exact Hj|]. right.
    split; [exact (forallb_In _ _ _ _ Hlk Ha) | exact (forallb_In _ _ _ _ Hlk Hb)].
Qed.

Theorem counters_no_race : forall (l : list string) (src : list acc) (tr : list ev),
  counters_ok l = true -> parse_accs l = Some src -> from_source src tr -> ~ race tr.
Proof.
  intros l src tr Hok Hp. unfold counters_ok in Hok. rewrite Hp in Hok.
  apply discipline_no_race. exact Hok.
Qed.

(** necessity: a write and an access that neither are both atomic nor both hold the mutex
    race in the two-event execution "worker writes, ticker accesses" *)
Theorem undisciplined_race : forall (src : list acc) (w r : acc),
  In w src -> In r src -> writes w = true ->
  is_atomic w && is_atomic r = false -> is_locked w && is_locked r = false ->
  from_source src (witness w r) /\ race (witness w r).
Proof.
  intros src w r Hw Hr Hwr Hat Hlk. split.
  - intros e [He | [He | []]]; subst e; assumption.
  - exists 0, 1, (mk_ev 0 0 w), (mk_ev 1 0 r).
    split; [lia|]. split; [reflexivity|]. split; [reflexivity|]. split.
    + unfold conflict. cbn. rewrite Hwr, Hat. reflexivity.
    + intros H. apply hb_adjacent in H; [|reflexivity].
      destruct H as [_ [a [b [Ha [Hb [Hg | [Hl1 Hl2]]]]]]];
        cbn in Ha, Hb; inversion Ha; inversion Hb; subst a b; cbn in *.
      * discriminate.
      * rewrite Hl1, Hl2 in Hlk. discriminate.
Qed.

(** the pre-repair source: plain accesses *)
Definition plain_src : list string := ["R:plain"; "RW:plain"; "W:plain"].
Definition atomic_src : list string := ["R:atomic"; "RW:atomic"; "W:atomic"].

Theorem plain_counters_refuted :
  counters_ok plain_src = false /\
  exists src tr, parse_accs plain_src = Some src /\ from_source src tr /\ race tr.
Proof.
  split; [reflexivity|].
  exists [mk_acc AR Plain; mk_acc ARW Plain; mk_acc AW Plain], (witness (mk_acc AW Plain) (mk_acc AR Plain)).
  split; [reflexivity|].
  apply undisciplined_race; cbn; auto.
Qed.

Example atomic_counters_ok : counters_ok atomic_src = true.
Proof. reflexivity. Qed.

(* non-vacuity: a four-event execution of the repaired source meets from_source *)
Example atomic_exec_from_source :
  exists src, parse_accs atomic_src = Some src /\
    from_source src [mk_ev 0 0 (mk_acc AW Atomic); mk_ev 1 0 (mk_acc AR Atomic);
                     mk_ev 0 0 (mk_acc ARW Atomic); mk_ev 1 1 (mk_acc AR Atomic)].
Proof.
  eexists. split; [reflexivity|].
  intros e He. cbn in He.
  repeat (destruct He as [He | He]; [subst e; cbn; tauto|]). destruct He.
Qed.
