(** C08 - proofs, part 1: the per-want walk, the wants loop, the finder invariant
    (parent-first order, cover, soundness, depth-limited table selection). *)
From Coq Require Import List NArith Bool Arith Lia Permutation.
From W.lib Require Import Tree.
From W.model Require Import ClosedSets ClosedSetsSpec.
Import ListNotations.

(* ------------------------------------------------------------------ *)
(** * basics *)
(* ------------------------------------------------------------------ *)

Lemma mem_In : forall x l, mem x l = true <-> In x l.
Proof.
  intros x l. unfold mem. rewrite existsb_exists. split.
  - intros [y [Hy He]]. apply N.eqb_eq in He. subst; auto.
  - intros H. exists x. split; auto. apply N.eqb_refl.
Qed.

Lemma mem_false : forall x l, mem x l = false <-> ~ In x l.
Proof.
  intros x l. rewrite <- mem_In. destruct (mem x l); split; intros H; auto; try discriminate.
  exfalso; apply H; reflexivity.
Qed.

Lemma assoc_In : forall l c cm, assoc l c = Some cm -> In c (map fst l).
Proof.
  induction l as [|[k v] r IH]; simpl; intros c cm H; [discriminate|].
  destruct (N.eqb k c) eqn:E.
  - apply N.eqb_eq in E. auto.
  - right. eapply IH; eauto.
Qed.

Lemma get_commit_dom : forall g c cm, get_commit g c = Some cm -> In c (map fst (s_commits g)).
Proof. intros g c cm H. eapply assoc_In; eauto. Qed.

Lemma parents_of_get : forall g c cm, get_commit g c = Some cm -> parents_of g c = c_parents cm.
Proof. intros g c cm H. unfold parents_of. rewrite H. reflexivity. Qed.

Lemma parents_of_missing : forall g c, get_commit g c = None -> parents_of g c = [].
Proof. intros g c H. unfold parents_of. rewrite H. reflexivity. Qed.

Lemma parent_exists : forall g c p, parent_of g c p -> get_commit g c <> None.
Proof.
  intros g c p H E. unfold parent_of in H. rewrite parents_of_missing in H; auto.
Qed.

Lemma add_set_In : forall x y l, In y (add_set x l) <-> y = x \/ In y l.
Proof.
  intros x y l. unfold add_set. destruct (mem x l) eqn:E.
  - apply mem_In in E. split; auto. intros [->|H]; auto.
  - rewrite in_app_iff. simpl. split; intros H; intuition.
Qed.

Lemma add_all_In : forall xs y l, In y (add_all xs l) <-> In y xs \/ In y l.
Proof.
  unfold add_all. induction xs as [|x xs IH]; simpl; intros y l.
  - intuition.
  - rewrite IH, add_set_In. intuition.
Qed.

Lemma anc_snoc : forall g a b p, anc g a b -> parent_of g b p -> anc g a p.
Proof.
  intros g a b p H. induction H as [c|c q a' Hp Ha IH]; intros Hb.
  - eapply anc_step; eauto. apply anc_refl.
  - eapply anc_step; eauto.
Qed.

Lemma anc_trans : forall g a b c, anc g a b -> anc g b c -> anc g a c.
Proof.
  intros g a b c H. induction H; intros H2; auto. eapply anc_step; eauto.
Qed.

Lemma path_anc : forall g c k x, path g c k x -> anc g c x.
Proof.
  intros g c k x H. induction H. apply anc_refl. eapply anc_snoc; eauto.
Qed.

Lemma app_decomp : forall (A : Type) (L cl m1 m2 : list A) (c : A),
  L ++ cl = m1 ++ c :: m2 ->
  (exists l2, L = m1 ++ c :: l2 /\ m2 = l2 ++ cl) \/
  (exists l1, m1 = L ++ l1 /\ cl = l1 ++ c :: m2).
Proof.
  intros A. induction L as [|a L IH]; simpl; intros cl m1 m2 c H.
  - right. exists m1. auto.
  - destruct m1 as [|b m1]; simpl in H.
    + inversion H; subst. left. exists L. auto.
    + inversion H; subst. destruct (IH _ _ _ _ H2) as [[l2 [E1 E2]]|[l1 [E1 E2]]].
      * left. exists l2. subst. auto.
      * right. exists l1. subst. auto.
Qed.

(* ------------------------------------------------------------------ *)
(** * visits *)
(* ------------------------------------------------------------------ *)

Lemma visf_start : forall g stop s d k x, visf g stop s d k x ->
  stop s = false /\ get_commit g s <> None.
Proof. intros g stop s d k x H. induction H; auto. Qed.

Lemma visf_end : forall g stop s d k x, visf g stop s d k x ->
  stop x = false /\ get_commit g x <> None.
Proof. intros g stop s d k x H. destruct H; auto. Qed.

(** inversion at the head of the path *)
Lemma visf_head : forall g stop s d k x, visf g stop s d k x ->
  (k = d /\ x = s) \/ exists p, parent_of g s p /\ visf g stop p (S d) k x.
Proof.
  intros g stop s d k x H. induction H as [Hs He|k c p Hv IH Hp Hsp Hep].
  - left; auto.
  - right. destruct IH as [[-> ->]|[p0 [Hp0 Hv0]]].
    + exists p. split; auto. apply visf_0; auto.
    + exists p0. split; auto. eapply visf_S; eauto.
Qed.

Lemma vis_path : forall g stop w k x, vis g stop w k x -> path g w k x.
Proof.
  unfold vis. intros g stop w k x H. induction H. apply path_0. eapply path_S; eauto.
Qed.

Lemma vis_anc : forall g stop w k x, vis g stop w k x -> anc g w x.
Proof. intros. eapply path_anc. eapply vis_path; eauto. Qed.

Lemma pend_vis : forall g stop w s d, pend g stop w s d -> stop s = false ->
  get_commit g s <> None -> vis g stop w d s.
Proof.
  intros g stop w s d [[-> ->]|[c [d' [-> [Hv Hp]]]]] Hs He.
  - apply visf_0; auto.
  - eapply visf_S; eauto.
Qed.

(** visits only depend on the stop predicate pointwise *)
Lemma visf_ext : forall g stop1 stop2 s d k x,
  (forall c, stop1 c = stop2 c) -> visf g stop1 s d k x -> visf g stop2 s d k x.
Proof.
  intros g stop1 stop2 s d k x E H. induction H.
  - apply visf_0; auto; rewrite <- E; auto.
  - eapply visf_S; eauto; rewrite <- E; auto.
Qed.

(* ------------------------------------------------------------------ *)
(** * one step of the walk *)
(* ------------------------------------------------------------------ *)

Inductive wstep_res :=
| SNext (q : list (cid * nat)) (sums cl : list cid) (tl : list N)
| SDefer
| SErr.

Definition wstep (g : store) (depth : nat) (seen commons : list cid) (defer : bool)
           (s : cid) (d : nat) (q' : list (cid * nat)) (sums cl : list cid) (tl : list N) : wstep_res :=
  if mem s seen then SNext q' (s :: sums) cl tl
  else if mem s commons then SNext q' (s :: sums) cl tl
  else match get_commit g s with
       | None => SErr
       | Some c =>
           if defer && Nat.eqb (length (c_parents c)) 0 then SDefer
           else SNext (q' ++ map (fun p => (p, S d)) (c_parents c)) (s :: sums) (s :: cl)
                      (if depth_ok depth d then c_table c :: tl else tl)
       end.

Lemma walk_unfold : forall g depth seen commons defer f s d q' sums cl tl,
  walk g depth seen commons defer (S f) ((s, d) :: q') sums cl tl =
  match wstep g depth seen commons defer s d q' sums cl tl with
  | SNext q1 s1 c1 t1 => walk g depth seen commons defer f q1 s1 c1 t1
  | SDefer => WDeferred
  | SErr => WErr
  end.
Proof.
  intros. unfold wstep. simpl.
  destruct (mem s seen); auto. destruct (mem s commons); auto.
  destruct (get_commit g s); auto.
  destruct (defer && Nat.eqb (length (c_parents c)) 0); auto.
Qed.

Lemma wstep_next : forall g depth seen commons defer s d q' sums cl tl q1 s1 c1 t1,
  wstep g depth seen commons defer s d q' sums cl tl = SNext q1 s1 c1 t1 ->
  (stopb seen commons s = true /\ q1 = q' /\ s1 = s :: sums /\ c1 = cl /\ t1 = tl) \/
  (stopb seen commons s = false /\ exists c, get_commit g s = Some c /\
     (defer && Nat.eqb (length (c_parents c)) 0 = false) /\
     q1 = q' ++ map (fun p => (p, S d)) (c_parents c) /\ s1 = s :: sums /\ c1 = s :: cl /\
     t1 = (if depth_ok depth d then c_table c :: tl else tl)).
Proof.
  intros g depth seen commons defer s d q' sums cl tl q1 s1 c1 t1. unfold wstep, stopb.
  destruct (mem s seen) eqn:E1.
  - intros H; inversion H; subst. left. auto.
  - destruct (mem s commons) eqn:E2.
    + intros H; inversion H; subst. left. auto.
    + destruct (get_commit g s) as [c|]; [|discriminate].
      destruct (defer && Nat.eqb (length (c_parents c)) 0) eqn:E3; [discriminate|].
      intros H; inversion H; subst. right. split; auto. exists c. repeat split; auto.
Qed.

(** generic invariant rule for a completed walk *)
Lemma walk_inv : forall (P : list (cid * nat) -> list cid -> list cid -> list N -> Prop)
                        g depth seen commons defer,
  (forall s d q' sums cl tl q1 s1 c1 t1,
      P ((s, d) :: q') sums cl tl ->
      wstep g depth seen commons defer s d q' sums cl tl = SNext q1 s1 c1 t1 ->
      P q1 s1 c1 t1) ->
  forall fuel q sums cl tl sums' cl' tl',
    P q sums cl tl ->
    walk g depth seen commons defer fuel q sums cl tl = WDone sums' cl' tl' ->
    P [] sums' cl' tl'.
Proof.
  intros P g depth seen commons defer Hstep. induction fuel as [|f IH];
    intros q sums cl tl sums' cl' tl' HP Hw.
  - destruct q as [|[s d] q']; simpl in Hw; [|discriminate]. inversion Hw; subst; auto.
  - destruct q as [|[s d] q'].
    + simpl in Hw. inversion Hw; subst; auto.
    + rewrite walk_unfold in Hw.
      destruct (wstep g depth seen commons defer s d q' sums cl tl) eqn:E; try discriminate.
      eapply IH; [|exact Hw]. eapply Hstep; eauto.
Qed.

(** with defer = false no want is ever deferred *)
Lemma walk_no_defer : forall g depth seen commons fuel q sums cl tl,
  walk g depth seen commons false fuel q sums cl tl <> WDeferred.
Proof.
  intros g depth seen commons. induction fuel as [|f IH]; intros q sums cl tl.
  - destruct q as [|[s d] q']; simpl; discriminate.
  - destruct q as [|[s d] q']; [simpl; discriminate|].
    rewrite walk_unfold. unfold wstep.
    destruct (mem s seen); [apply IH|]. destruct (mem s commons); [apply IH|].
    destruct (get_commit g s); [|discriminate]. simpl. apply IH.
Qed.

(* ------------------------------------------------------------------ *)
(** * what one completed walk produced *)
(* ------------------------------------------------------------------ *)

Section Walk.
  Variable g : store.
  Variable depth : nat.
  Variables seen commons : list cid.
  Variable defer : bool.
  Variable w : cid.
  Let stop := stopb seen commons.

  (** soundness direction *)
  Definition inv_sound (q : list (cid * nat)) (sums cl : list cid) (tl : list N) : Prop :=
    (forall s d, In (s, d) q -> pend g stop w s d) /\
    (forall x, In x cl -> exists k, vis g stop w k x) /\
    (forall t, In t tl -> exists k x cm, vis g stop w k x /\ get_commit g x = Some cm /\
                                         c_table cm = t /\ depth_ok depth k = true) /\
    (forall x, In x cl -> In x sums) /\
    (forall x, In x sums -> stop x = true \/ In x cl) /\
    (In w (map fst q) \/ In w sums).

  Lemma inv_sound_step : forall s d q' sums cl tl q1 s1 c1 t1,
    inv_sound ((s, d) :: q') sums cl tl ->
    wstep g depth seen commons defer s d q' sums cl tl = SNext q1 s1 c1 t1 ->
    inv_sound q1 s1 c1 t1.
  Proof.
    intros s d q' sums cl tl q1 s1 c1 t1 [HQ [HC [HT [HS1 [HS2 HW]]]]] Hst.
    apply wstep_next in Hst.
    destruct Hst as [[Hstop [-> [-> [-> ->]]]]|[Hstop [c [Hg [_ [-> [-> [-> ->]]]]]]]].
    - repeat split.
      + intros s0 d0 Hin. apply HQ. right; auto.
      + auto.
      + auto.
      + intros x Hx. right. auto.
      + intros x [<-|Hx]; auto.
      + simpl in HW. destruct HW as [[<-|HW]|HW]; simpl; auto.
    - assert (Hv : vis g stop w d s).
      { apply pend_vis; auto. apply HQ. left; auto. rewrite Hg; discriminate. }
      repeat split.
      + intros s0 d0 Hin. apply in_app_or in Hin. destruct Hin as [Hin|Hin].
        * apply HQ. right; auto.
        * apply in_map_iff in Hin. destruct Hin as [p [E Hp]]. inversion E; subst.
          right. exists s, d. repeat split; auto.
          unfold parent_of. rewrite (parents_of_get _ _ _ Hg). auto.
      + intros x [<-|Hx]; eauto.
      + intros t Ht. destruct (depth_ok depth d) eqn:Ed; auto.
        destruct Ht as [<-|Ht]; auto. exists d, s, c. auto.
      + intros x [<-|Hx]; simpl; auto.
      + intros x [<-|Hx]; simpl; auto. destruct (HS2 x Hx); auto.
      + simpl in HW. rewrite map_app, in_app_iff. simpl.
        destruct HW as [[<-|HW]|HW]; auto.
  Qed.

  (** completeness direction *)
  Definition inv_complete (q : list (cid * nat)) (cl : list cid) (tl : list N) : Prop :=
    forall k x, vis g stop w k x ->
      (In x cl /\ forall cm, get_commit g x = Some cm -> depth_ok depth k = true ->
                             In (c_table cm) tl) \/
      exists s d, In (s, d) q /\ visf g stop s d k x.

  Lemma inv_complete_step : forall s d q' sums cl tl q1 s1 c1 t1,
    inv_complete ((s, d) :: q') cl tl ->
    wstep g depth seen commons defer s d q' sums cl tl = SNext q1 s1 c1 t1 ->
    inv_complete q1 c1 t1.
  Proof.
    intros s d q' sums cl tl q1 s1 c1 t1 HI Hst k x Hv.
    apply wstep_next in Hst.
    destruct Hst as [[Hstop [-> [-> [-> ->]]]]|[Hstop [c [Hg [_ [-> [-> [-> ->]]]]]]]].
    - destruct (HI k x Hv) as [H|[s0 [d0 [[E|Hin] Hf]]]]; auto.
      + inversion E; subst. apply visf_start in Hf. destruct Hf as [Hf _].
        fold stop in Hstop. congruence.
      + right. eauto.
    - destruct (HI k x Hv) as [[Hx Ht]|[s0 [d0 [[E|Hin] Hf]]]].
      + left. split; [right; auto|]. intros cm Hc Hd. specialize (Ht cm Hc Hd).
        destruct (depth_ok depth d); simpl; auto.
      + inversion E; subst. apply visf_head in Hf.
        destruct Hf as [[-> ->]|[p [Hp Hf]]].
        * left. split; [left; auto|]. intros cm Hc Hd. rewrite Hg in Hc. inversion Hc; subst.
          rewrite Hd. left; auto.
        * right. exists p, (S d0). split; auto. apply in_or_app. right.
          apply in_map_iff. exists p. split; auto.
          unfold parent_of in Hp. rewrite (parents_of_get _ _ _ Hg) in Hp. auto.
      + right. exists s0, d0. split; auto. apply in_or_app. auto.
  Qed.

  (** parent-first inside the list being built *)
  Definition inv_order (q : list (cid * nat)) (cl : list cid) : Prop :=
    forall l1 c l2, cl = l1 ++ c :: l2 ->
      forall p, parent_of g c p -> stop p = true \/ In p l1 \/ In p (map fst q).

  Lemma inv_order_step : forall s d q' sums cl tl q1 s1 c1 t1,
    inv_order ((s, d) :: q') cl ->
    wstep g depth seen commons defer s d q' sums cl tl = SNext q1 s1 c1 t1 ->
    inv_order q1 c1.
  Proof.
    intros s d q' sums cl tl q1 s1 c1 t1 HI Hst l1 c0 l2 E p Hp.
    apply wstep_next in Hst.
    destruct Hst as [[Hstop [-> [-> [-> ->]]]]|[Hstop [c [Hg [_ [-> [-> [-> ->]]]]]]]].
    - destruct (HI l1 c0 l2 E p Hp) as [H|[H|H]]; auto.
      simpl in H. destruct H as [<-|H]; auto.
    - destruct l1 as [|a l1']; simpl in E; inversion E; subst.
      + right. right. rewrite map_app, in_app_iff. right.
        rewrite map_map. simpl. rewrite map_id.
        unfold parent_of in Hp. rewrite (parents_of_get _ _ _ Hg) in Hp. auto.
      + destruct (HI l1' c0 l2 eq_refl p Hp) as [H|[H|H]]; auto.
        * right. left. right. auto.
        * simpl in H. destruct H as [<-|H].
          -- right. left. left. auto.
          -- right. right. rewrite map_app, in_app_iff. auto.
  Qed.

  Lemma walk_want_facts : forall sums cl tl,
    walk_want g depth seen commons defer w = WDone sums cl tl ->
    (forall x, In x cl <-> exists k, vis g stop w k x) /\
    (forall t, In t tl <-> exists k x cm, vis g stop w k x /\ get_commit g x = Some cm /\
                                         c_table cm = t /\ depth_ok depth k = true) /\
    (forall l1 c l2, cl = l1 ++ c :: l2 -> forall p, parent_of g c p -> stop p = true \/ In p l1) /\
    In w sums /\
    (forall x, In x sums -> stop x = true \/ In x cl) /\
    (forall x, In x cl -> In x sums).
  Proof.
    intros sums cl tl Hw. unfold walk_want in Hw.
    assert (H1 : inv_sound [] sums cl tl).
    { eapply (walk_inv inv_sound); [|  |exact Hw].
      - intros; eapply inv_sound_step; eauto.
      - split; [|split; [|split; [|split; [|split]]]].
        + intros s d [E|[]]. inversion E; subst. left; auto.
        + intros ? [].
        + intros ? [].
        + intros ? [].
        + intros ? [].
        + left. left. reflexivity. }
    assert (H2 : inv_complete [] cl tl).
    { apply (walk_inv (fun q _ cl tl => inv_complete q cl tl) g depth seen commons defer) with
        (fuel := walk_fuel g seen commons w) (q := [(w, 0)]) (sums := []) (cl := []) (tl := [])
        (sums' := sums); auto.
      - intros; eapply inv_complete_step; eauto.
      - intros k x Hv. right. exists w, 0. split; [left; auto|exact Hv]. }
    assert (H3 : inv_order [] cl).
    { apply (walk_inv (fun q _ cl _ => inv_order q cl) g depth seen commons defer) with
        (fuel := walk_fuel g seen commons w) (q := [(w, 0)]) (sums := []) (cl := []) (tl := [])
        (sums' := sums) (tl' := tl); auto.
      - intros; eapply inv_order_step; eauto.
      - intros l1 c l2 E. destruct l1; discriminate. }
    destruct H1 as [_ [HC [HT [HS1 [HS2 HW]]]]].
    repeat split.
    - apply HC.
    - intros [k Hv]. destruct (H2 k x Hv) as [[H _]|[s [d [[] _]]]]. auto.
    - apply HT.
    - intros [k [x [cm [Hv [Hg [<- Hd]]]]]]. destruct (H2 k x Hv) as [[_ H]|[s [d [[] _]]]]. auto.
    - intros l1 c l2 E p Hp. destruct (H3 l1 c l2 E p Hp) as [H|[H|[]]]; auto.
    - destruct HW as [[]|HW]; auto.
    - apply HS2.
    - apply HS1.
  Qed.
End Walk.

(* ------------------------------------------------------------------ *)
(** * the wants loop *)
(* ------------------------------------------------------------------ *)

Lemma order_ok_mono : forall g K K' L, incl K K' -> order_ok g K L -> order_ok g K' L.
Proof.
  intros g K K' L Hi Ho l1 c l2 E p Hp. destruct (Ho l1 c l2 E p Hp); auto.
Qed.

Lemma order_ok_app : forall g K L cl,
  order_ok g K L ->
  (forall l1 c l2, cl = l1 ++ c :: l2 -> forall p, parent_of g c p ->
                   In p K \/ In p L \/ In p l1) ->
  order_ok g K (L ++ cl).
Proof.
  intros g K L cl Ho Hc m1 c m2 E p Hp.
  apply app_decomp in E. destruct E as [[l2 [E1 E2]]|[l1 [E1 E2]]].
  - apply (Ho m1 c l2 E1 p Hp).
  - subst m1. destruct (Hc l1 c m2 E2 p Hp) as [H|[H|H]]; auto.
    + right. apply in_or_app; auto.
    + right. apply in_or_app; auto.
Qed.

(** closure: from a parent-first list every ancestor of a listed commit is covered *)
Lemma order_ok_closed : forall g K L x a,
  order_ok g K L -> In x L -> anc g x a -> covered g K L a.
Proof.
  intros g K L x a Ho Hx Ha. revert Hx. induction Ha as [c|c p a Hp Ha IH]; intros Hx.
  - left; auto.
  - apply in_split in Hx. destruct Hx as [l1 [l2 E]].
    destruct (Ho l1 c l2 E p Hp) as [H|H].
    + right. exists p. auto.
    + apply IH. subst L. apply in_or_app. auto.
Qed.

Lemma concat_snoc : forall (A : Type) (ls : list (list A)) (l : list A),
  concat (ls ++ [l]) = concat ls ++ l.
Proof. intros. rewrite concat_app. simpl. rewrite app_nil_r. reflexivity. Qed.

Definition tbl_sound (g : store) (depth : nat) (ws : list cid) (t : N) : Prop :=
  exists w k x cm, In w ws /\ path g w k x /\ get_commit g x = Some cm /\ c_table cm = t /\
                   depth_ok depth k = true.

Lemma enqueue_loop_spec : forall g depth commons defer order seen cls tls dfr cls' tls' dfr',
  enqueue_loop g depth commons defer order seen cls tls dfr = Ok (cls', tls', dfr') ->
  (forall x, In x seen -> In x commons \/ In x (concat cls)) ->
  order_ok g commons (concat cls) ->
  order_ok g commons (concat cls') /\
  (forall w, In w order -> In w dfr' \/ In w commons \/ In w (concat cls')) /\
  (forall x, In x (concat cls') -> In x (concat cls) \/ exists w, In w order /\ anc g w x) /\
  (forall x, In x dfr' -> In x dfr \/ In x order) /\
  incl (concat cls) (concat cls') /\ incl dfr dfr' /\
  (forall t, In t (concat tls') -> In t (concat tls) \/ tbl_sound g depth order t) /\
  (defer = false -> dfr' = dfr).
Proof.
  intros g depth commons defer. induction order as [|w r IH];
    intros seen cls tls dfr cls' tls' dfr' H HS HO; simpl in H.
  - inversion H; subst. repeat split; auto; try (intros ? []; fail); try apply incl_refl.
  - destruct (walk_want g depth seen commons defer w) as [sums cl tl| | |] eqn:Ew; try discriminate.
    + destruct (walk_want_facts _ _ _ _ _ _ _ _ _ Ew) as [F1 [F2 [F3 [F4 [F5 F6]]]]].
      assert (Hstop : forall p, stopb seen commons p = true -> In p commons \/ In p (concat cls)).
      { intros p Hp. unfold stopb in Hp. apply orb_true_iff in Hp. destruct Hp as [Hp|Hp].
        - apply mem_In in Hp. auto.
        - apply mem_In in Hp. auto. }
      apply IH in H.
      * destruct H as [A1 [A2 [A3 [A4 [A5 [A6 [A7 A8]]]]]]].
        rewrite concat_snoc in *.
        repeat split; auto.
        -- intros w0 [<-|Hw0]; auto.
           destruct (F5 _ F4) as [Hs|Hc].
           ++ destruct (Hstop _ Hs) as [Hk|Hl]; auto.
              right. right. apply A5. apply in_or_app; auto.
           ++ right. right. apply A5. apply in_or_app; auto.
        -- intros x Hx. destruct (A3 x Hx) as [Hin|[w0 [Hw0 Ha]]].
           ++ apply in_app_or in Hin. destruct Hin as [Hin|Hin]; auto.
              right. exists w. split; [left; auto|].
              apply F1 in Hin. destruct Hin as [k Hv]. eapply vis_anc; eauto.
           ++ right. exists w0. split; [right; auto|auto].
        -- intros x Hx. destruct (A4 x Hx); auto. right. right. auto.
        -- intros x Hx. apply A5. apply in_or_app; auto.
        -- intros t Ht. destruct (A7 t Ht) as [Hin|[w0 [k [x [cm [Hw0 Hr]]]]]].
           ++ try rewrite concat_snoc in Hin. apply in_app_or in Hin. destruct Hin as [Hin|Hin]; auto.
              right. apply F2 in Hin. destruct Hin as [k [x [cm [Hv [Hg [Ht' Hd]]]]]].
              exists w, k, x, cm. repeat split; auto. left; auto. eapply vis_path; eauto.
           ++ right. exists w0, k, x, cm. split; [right; auto|auto].
      * intros x Hx. apply in_app_or in Hx. rewrite concat_snoc. destruct Hx as [Hx|Hx].
        -- destruct (F5 x Hx) as [Hs|Hc].
           ++ destruct (Hstop _ Hs); auto. right. apply in_or_app; auto.
           ++ right. apply in_or_app; auto.
        -- destruct (HS x Hx); auto. right. apply in_or_app; auto.
      * rewrite concat_snoc. apply order_ok_app; auto.
        intros l1 c l2 E p Hp. destruct (F3 l1 c l2 E p Hp) as [Hs|Hl]; auto.
        destruct (Hstop _ Hs); auto.
    + apply IH in H; auto.
      destruct H as [A1 [A2 [A3 [A4 [A5 [A6 [A7 A8]]]]]]].
      repeat split; auto.
      * intros w0 [<-|Hw0]; auto. left. apply A6. apply in_or_app. right. left. auto.
      * intros x Hx. destruct (A3 x Hx) as [Hin|[w0 [Hw0 Ha]]]; auto.
        right. exists w0. split; [right; auto|auto].
      * intros x Hx. destruct (A4 x Hx) as [Hin|Hin]; auto.
        -- apply in_app_or in Hin. destruct Hin as [Hin|[<-|[]]]; auto. right. left. auto.
        -- right. right. auto.
      * intros x Hx. apply A6. apply in_or_app; auto.
      * intros t Ht. destruct (A7 t Ht) as [Hin|[w0 [k [x [cm [Hw0 Hr]]]]]]; auto.
        right. exists w0, k, x, cm. split; [right; auto|auto].
      * intros ->. exfalso. unfold walk_want in Ew. eapply walk_no_defer; eauto.
Qed.

(* ------------------------------------------------------------------ *)
(** * the finder invariant *)
(* ------------------------------------------------------------------ *)

(** [A] = accepted wants *)
Definition finv (g : store) (A : list cid) (f : finder) : Prop :=
  order_ok g (f_commons f) (concat (f_clists f)) /\
  (forall w, In w A -> In w (f_wants f) \/ In w (f_commons f) \/ In w (concat (f_clists f))) /\
  (forall x, In x (concat (f_clists f)) -> exists w, In w A /\ anc g w x) /\
  (forall w, In w (f_wants f) -> In w A) /\
  (forall t, In t (concat (f_tlists f)) -> tbl_sound g (f_depth f) A t).

Lemma finv_new : forall g depth, finv g [] (new_finder depth).
Proof.
  intros g depth. unfold finv, new_finder; simpl. repeat split; try (intros ? []; fail).
  intros l1 c l2 E. destruct l1; discriminate.
Qed.

Lemma tbl_sound_incl : forall g depth ws ws' t,
  incl ws ws' -> tbl_sound g depth ws t -> tbl_sound g depth ws' t.
Proof.
  intros g depth ws ws' t Hi [w [k [x [cm [Hw Hr]]]]]. exists w, k, x, cm. split; auto.
Qed.

Section FinderInv.
  Variable ord : nat -> list cid -> list cid.
  Hypothesis Hord : order_fun ord.

  Lemma ord_In : forall i l x, In x (ord i l) <-> In x l.
  Proof.
    intros i l x. split; intros H.
    - eapply Permutation_in; [apply Hord|exact H].
    - eapply Permutation_in; [apply Permutation_sym, Hord|exact H].
  Qed.

  Lemma enqueue_finv : forall g A f defer f',
    finv g A f -> enqueue ord g f defer = Ok f' ->
    finv g A f' /\ f_commons f' = f_commons f /\ f_depth f' = f_depth f /\
    f_accepted f' = f_accepted f /\ (defer = false -> f_wants f' = []) /\
    incl (concat (f_clists f)) (concat (f_clists f')).
  Proof.
    intros g A f defer f' [I1 [I2 [I3 [I4 I5]]]] H. unfold enqueue in H.
    destruct (enqueue_loop g (f_depth f) (f_commons f) defer (ord (f_calls f) (f_wants f)) []
                           (f_clists f) (f_tlists f) []) as [[[cls tls] dfr]| |] eqn:E; try discriminate.
    inversion H; subst; clear H. simpl.
    apply enqueue_loop_spec in E; auto; [|intros ? []].
    destruct E as [A1 [A2 [A3 [A4 [A5 [A6 [A7 A8]]]]]]].
    repeat split; simpl; auto.
    - intros w Hw. destruct (I2 w Hw) as [H|[H|H]]; auto.
      apply A2. apply ord_In. auto.
    - intros x Hx. destruct (A3 x Hx) as [H|[w [Hw Ha]]]; auto.
      exists w. split; auto. apply I4. eapply ord_In; eauto.
    - intros w Hw. destruct (A4 w Hw) as [[]|H]. apply I4. eapply ord_In; eauto.
    - intros t Ht. destruct (A7 t Ht) as [H|H]; auto.
      eapply tbl_sound_incl; [|exact H]. intros w Hw. apply I4. eapply ord_In; eauto.
  Qed.

  Lemma flush_finv : forall g A f f',
    finv g A f -> flush_wants ord g f = Ok f' ->
    finv g A f' /\ f_commons f' = f_commons f /\ f_depth f' = f_depth f /\
    f_accepted f' = f_accepted f /\ f_wants f' = [].
  Proof.
    intros g A f f' HI H. unfold flush_wants in H. destruct (f_wants f) eqn:E.
    - inversion H; subst. repeat split; auto; apply HI.
    - destruct (enqueue_finv g A f false f' HI H) as [H1 [H2 [H3 [H4 [H5 _]]]]].
      repeat split; auto; apply H1.
  Qed.
End FinderInv.
