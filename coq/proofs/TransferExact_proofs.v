(** C07 - proofs, part 3: what the sender's stream contains and in which order; the
    receiver accepts it; exactness, frame, and the shallow-common characterisation. *)
From W.lib Require Import Tree.
From W.model Require Import Transfer TransferSpec.
From W.proofs Require Import Transfer_proofs TransferSend_proofs.
From Coq Require Import List NArith Bool Lia Arith.
Import ListNotations.
Local Open Scope N_scope.

(** * List helpers *)

Lemma split_app {A} (o tail q1 q2 : list A) (x : A) :
  o ++ tail = q1 ++ x :: q2 ->
  (exists l, o = q1 ++ x :: l /\ q2 = l ++ tail) \/ (exists k, q1 = o ++ k /\ tail = k ++ x :: q2).
Proof.
  intros H. apply app_eq_app in H. destruct H as [l [[H1 H2]|[H1 H2]]].
  - destruct l as [|y l].
    + right. exists []. rewrite app_nil_r in H1. simpl in H2. subst. rewrite app_nil_r. auto.
    + simpl in H2. inversion H2; subst. left. exists l. auto.
  - right. exists l. auto.
Qed.

Lemma F2_in_l {A B} (R : A -> B -> Prop) l l' a : Forall2 R l l' -> In a l -> exists b, In b l' /\ R a b.
Proof.
  induction 1; simpl; [tauto|]. intros [E|H1]; subst; eauto.
  destruct (IHForall2 H1) as [b [? ?]]; eauto.
Qed.
Lemma F2_in_r {A B} (R : A -> B -> Prop) l l' b : Forall2 R l l' -> In b l' -> exists a, In a l /\ R a b.
Proof.
  induction 1; simpl; [tauto|]. intros [E|H1]; subst; eauto.
  destruct (IHForall2 H1) as [a [? ?]]; eauto.
Qed.
Lemma F2_split {A B} (R : A -> B -> Prop) qs l1 o l2 :
  Forall2 R qs (l1 ++ o :: l2) ->
  exists q1 q q2, qs = q1 ++ q :: q2 /\ Forall2 R q1 l1 /\ R q o /\ Forall2 R q2 l2.
Proof.
  intros H. apply Forall2_app_inv_r in H. destruct H as (q1 & q' & H1 & H2 & E).
  inversion H2; subst. eauto 10.
Qed.

Section Exact.
Variable src : repo.
Variable tbs : list N.

Notation all_q := (all_q src tbs).
Notation commit_q := (commit_q src tbs).
Notation emit_all := (emit_all src).

(** * emit *)

Definition emits (q : qobj) (o : obj) : Prop := emit src q = Some o.

Lemma emit_all_F2 qs objs : emit_all qs = Some objs <-> Forall2 emits qs objs.
Proof.
  revert objs; induction qs as [|q qs IH]; intros objs; simpl.
  - split; intros H; [inversion H; constructor|inversion H; auto].
  - split.
    + destruct (emit src q) as [o|] eqn:E; [|discriminate].
      destruct (emit_all qs) as [l|]; [|discriminate]. intros H; inversion H; subst.
      constructor; auto. apply IH; auto.
    + intros H. inversion H; subst. unfold emits in H2. rewrite H2.
      apply IH in H4. rewrite H4. auto.
Qed.

Lemma emit_all_app l1 l2 :
  emit_all (l1 ++ l2) = match emit_all l1, emit_all l2 with Some a, Some b => Some (a ++ b) | _, _ => None end.
Proof.
  induction l1 as [|q l1 IH]; simpl.
  - destruct (emit_all l2); auto.
  - destruct (emit src q); auto. rewrite IH. destruct (emit_all l1), (emit_all l2); auto.
Qed.

Lemma emits_table q t tc : emits q (OTable t tc) -> q = QTable t tc.
Proof. unfold emits. destruct q; simpl; try (intros H; inversion H; auto; fail). destruct (lookup b (blocks src)); discriminate. Qed.
Lemma emits_commit q c cc : emits q (OCommit c cc) -> q = QCommit c cc.
Proof. unfold emits. destruct q; simpl; try (intros H; inversion H; auto; fail). destruct (lookup b (blocks src)); discriminate. Qed.
Lemma emits_block q b z : emits q (OBlock b z) -> q = QBlock b /\ lookup b (blocks src) = Some z.
Proof.
  unfold emits. destruct q; simpl; try discriminate.
  destruct (lookup b0 (blocks src)) eqn:E; [|discriminate]. intros H; inversion H; subst; auto.
Qed.
Lemma emits_qblock b o : emits (QBlock b) o -> exists z, o = OBlock b z /\ lookup b (blocks src) = Some z.
Proof. unfold emits; simpl. destruct (lookup b (blocks src)); [|discriminate]. intros H; inversion H; eauto. Qed.
Lemma emits_bad q : ~ emits q OBad.
Proof. unfold emits. destruct q; simpl; try discriminate. destruct (lookup b (blocks src)); discriminate. Qed.

Lemma emit_all_total qs :
  (forall b, In (QBlock b) qs -> has_block src b = true) -> exists objs, emit_all qs = Some objs.
Proof.
  induction qs as [|q qs IH]; intros H; simpl; eauto.
  destruct IH as [l El]; [intros; apply H; simpl; auto|]. rewrite El.
  destruct q; simpl; eauto.
  assert (X : has_block src b = true) by (apply H; simpl; auto).
  unfold has_block in X. apply has_true in X. destruct X as [z X]. rewrite X. eauto.
Qed.

(** * Structure of what is queued for one commit *)

Definition all_blocks (qs : list qobj) : Prop := forall q, In q qs -> exists b, q = QBlock b.

Lemma commit_q_cases ct cb c cc :
  let t := c_table cc in
  (commit_q ct cb (c, cc) = ([QCommit c cc], ct, cb) /\ (memN t tbs = false \/ In t ct)) \/
  (memN t tbs = true /\ ~ In t ct /\ lookup t (tables src) = None /\
   commit_q ct cb (c, cc) = ([QCommit c cc], t :: ct, cb)) \/
  (memN t tbs = true /\ ~ In t ct /\ exists tc, lookup t (tables src) = Some tc /\
   commit_q ct cb (c, cc) =
   (fst (enqueue_blocks (tbl_blocks tc) [] cb) ++ [QTable t tc; QCommit c cc], t :: ct,
    snd (enqueue_blocks (tbl_blocks tc) [] cb))).
Proof.
  simpl. unfold TransferSend_proofs.commit_q; simpl.
  destruct (memN (c_table cc) tbs) eqn:E1; simpl; [|left; auto].
  destruct (memN (c_table cc) ct) eqn:E2; simpl; [left; split; auto; right; apply memN_In; auto|].
  apply memN_false in E2. right. unfold enqueue_table.
  destruct (lookup (c_table cc) (tables src)) as [tc|] eqn:E3.
  - right. repeat split; auto. exists tc. split; auto.
    destruct (enqueue_blocks (tbl_blocks tc) [] cb) as [o cb']; simpl. rewrite <- app_assoc. auto.
  - left. repeat split; auto.
Qed.

Lemma eb_all_blocks bl cb : all_blocks (fst (enqueue_blocks bl [] cb)).
Proof.
  intros q Hq. destruct (enqueue_blocks_spec bl cb) as (A & _). destruct (A q Hq) as (b & ? & _); eauto.
Qed.

(** * Membership in the queue of a commit list *)

Definition qcommits (qs : list qobj) : list (N * commit) :=
  flat_map (fun q => match q with QCommit c cc => [(c, cc)] | _ => [] end) qs.

Lemma qcommits_blocks qs : all_blocks qs -> qcommits qs = [].
Proof.
  induction qs as [|q qs IH]; intros H; simpl; auto.
  destruct (H q) as [b E]; simpl; auto. subst. simpl. apply IH. intros q' Hq'; apply H; simpl; auto.
Qed.

Lemma all_q_commits ct cb cs : qcommits (all_q ct cb cs) = cs.
Proof.
  revert ct cb; induction cs as [|[c cc] r IH]; intros ct cb; simpl; auto.
  destruct (commit_q_cases ct cb c cc) as [[E _]|[(_ & _ & _ & E)|(_ & _ & tc & _ & E)]]; rewrite E;
    unfold qcommits in *; rewrite flat_map_app; try (simpl; rewrite IH; auto; fail).
  rewrite flat_map_app. fold (qcommits (fst (enqueue_blocks (tbl_blocks tc) [] cb))).
  rewrite qcommits_blocks by apply eb_all_blocks. simpl. rewrite IH. auto.
Qed.

Lemma in_qcommits qs c cc : In (c, cc) (qcommits qs) <-> In (QCommit c cc) qs.
Proof.
  unfold qcommits. rewrite in_flat_map. split.
  - intros [q [H1 H2]]. destruct q; simpl in H2; try tauto. destruct H2 as [H2|[]]. inversion H2; subst; auto.
  - intros H. exists (QCommit c cc); simpl; auto.
Qed.

Lemma all_q_commit_in ct cb cs c cc : In (QCommit c cc) (all_q ct cb cs) <-> In (c, cc) cs.
Proof. rewrite <- in_qcommits, all_q_commits. tauto. Qed.

Lemma all_q_table_in ct cb cs t tc :
  In (QTable t tc) (all_q ct cb cs) ->
  ~ In t ct /\ memN t tbs = true /\ lookup t (tables src) = Some tc /\
  exists c cc, In (c, cc) cs /\ c_table cc = t.
Proof.
  revert ct cb; induction cs as [|[c cc] r IH]; intros ct cb; simpl; [tauto|].
  destruct (commit_q_cases ct cb c cc) as [[E _]|[(M & NI & _ & E)|(M & NI & tc0 & L & E)]]; rewrite E; clear E;
    rewrite in_app_iff; intros [H|H].
  - simpl in H. destruct H as [H|[]]; discriminate.
  - destruct (IH _ _ H) as (A & B & C & c' & cc' & D1 & D2). repeat split; auto. exists c', cc'; auto.
  - simpl in H. destruct H as [H|[]]; discriminate.
  - destruct (IH _ _ H) as (A & B & C & c' & cc' & D1 & D2). repeat split; auto.
    + intros X; apply A; right; auto.
    + exists c', cc'; auto.
  - apply in_app_iff in H. destruct H as [H|H].
    + destruct (eb_all_blocks _ _ _ H) as [b Eb]; discriminate.
    + simpl in H. destruct H as [H|[H|[]]]; [|discriminate]. inversion H; subst.
      repeat split; auto. exists c, cc; auto.
  - destruct (IH _ _ H) as (A & B & C & c' & cc' & D1 & D2). repeat split; auto.
    + intros X; apply A; right; auto.
    + exists c', cc'; auto.
Qed.

Lemma all_q_table_sent ct cb cs c cc tc :
  In (c, cc) cs -> memN (c_table cc) tbs = true -> lookup (c_table cc) (tables src) = Some tc ->
  In (QTable (c_table cc) tc) (all_q ct cb cs) \/ In (c_table cc) ct.
Proof.
  revert ct cb; induction cs as [|[c0 cc0] r IH]; intros ct cb; simpl; [tauto|].
  intros Hin M L.
  destruct (commit_q_cases ct cb c0 cc0) as [[E X]|[(M0 & NI & L0 & E)|(M0 & NI & tc0 & L0 & E)]]; rewrite E; clear E.
  - destruct Hin as [Hin|Hin].
    + inversion Hin; subst. destruct X as [X|X]; [congruence|auto].
    + destruct (IH ct cb Hin M L); auto. left. apply in_app_iff; auto.
  - destruct Hin as [Hin|Hin].
    + inversion Hin; subst. congruence.
    + destruct (IH (c_table cc0 :: ct) cb Hin M L) as [H|[H|H]]; auto.
      * left. apply in_app_iff; auto.
      * rewrite H in L0. congruence.
  - assert (Hhere : c_table cc = c_table cc0 -> In (QTable (c_table cc) tc) ((fst (enqueue_blocks (tbl_blocks tc0) [] cb) ++ [QTable (c_table cc0) tc0; QCommit c0 cc0]) ++ all_q (c_table cc0 :: ct) (snd (enqueue_blocks (tbl_blocks tc0) [] cb)) r)).
    { intros Et. rewrite Et in *. rewrite L in L0. inversion L0; subst. apply in_app_iff. left. apply in_app_iff. right. simpl; auto. }
    destruct Hin as [Hin|Hin].
    + inversion Hin; subst. auto.
    + destruct (IH (c_table cc0 :: ct) (snd (enqueue_blocks (tbl_blocks tc0) [] cb)) Hin M L) as [H|[H|H]]; auto.
      left. apply in_app_iff; auto.
Qed.

Lemma all_q_block_in ct cb cs b :
  In (QBlock b) (all_q ct cb cs) ->
  ~ In b cb /\ exists t tc, In (QTable t tc) (all_q ct cb cs) /\ In b (tbl_blocks tc).
Proof.
  revert ct cb; induction cs as [|[c cc] r IH]; intros ct cb; simpl; [tauto|].
  destruct (commit_q_cases ct cb c cc) as [[E _]|[(M & NI & _ & E)|(M & NI & tc0 & L & E)]]; rewrite E; clear E;
    rewrite in_app_iff; intros [H|H].
  - simpl in H. destruct H as [H|[]]; discriminate.
  - destruct (IH _ _ H) as (A & t & tc & B & C). split; auto. exists t, tc. split; auto. apply in_app_iff; auto.
  - simpl in H. destruct H as [H|[]]; discriminate.
  - destruct (IH _ _ H) as (A & t & tc & B & C). split; auto. exists t, tc. split; auto. apply in_app_iff; auto.
  - apply in_app_iff in H. destruct H as [H|H].
    + destruct (enqueue_blocks_spec (tbl_blocks tc0) cb) as (A & _). destruct (A _ H) as (b' & Eb & Hb & Hn).
      inversion Eb; subst b'. split; auto. exists (c_table cc), tc0. split; auto.
      apply in_app_iff. left. apply in_app_iff. right. simpl; auto.
    + simpl in H. destruct H as [H|[H|[]]]; discriminate.
  - destruct (IH _ _ H) as (A & t & tc & B & C).
    destruct (enqueue_blocks_spec (tbl_blocks tc0) cb) as (_ & _ & S & _).
    split; [intros X; apply A; apply S; auto|]. exists t, tc. split; auto. apply in_app_iff; auto.
Qed.

(** * Order inside the queue *)

Lemma all_q_blocks_before_table ct cb cs q1 t tc q2 :
  all_q ct cb cs = q1 ++ QTable t tc :: q2 ->
  forall b, In b (tbl_blocks tc) -> In (QBlock b) q1 \/ In b cb.
Proof.
  revert ct cb q1; induction cs as [|[c cc] r IH]; intros ct cb q1; simpl.
  - intros H. destruct q1; discriminate.
  - destruct (commit_q_cases ct cb c cc) as [[E _]|[(M & NI & _ & E)|(M & NI & tc0 & L & E)]]; rewrite E; clear E;
      intros H b Hb; apply split_app in H; destruct H as [[l [H1 H2]]|[k [H1 H2]]].
    + destruct q1; [discriminate|]. inversion H1. destruct q1; discriminate.
    + destruct (IH _ _ _ H2 b Hb); auto. left. subst q1. apply in_app_iff; auto.
    + destruct q1; [discriminate|]. inversion H1. destruct q1; discriminate.
    + destruct (IH _ _ _ H2 b Hb); auto. left. subst q1. apply in_app_iff; auto.
    + (* the table of this commit *)
      apply split_app in H1. destruct H1 as [[l' [A1 A2]]|[k' [A1 A2]]].
      * exfalso. assert (X : In (QTable t tc) (fst (enqueue_blocks (tbl_blocks tc0) [] cb))) by (rewrite A1; apply in_app_iff; simpl; auto).
        destruct (eb_all_blocks _ _ _ X); discriminate.
      * assert (Et : t = c_table cc /\ tc = tc0).
        { destruct k' as [|x [|y k'']]; simpl in A2; [inversion A2; auto | inversion A2 | inversion A2; destruct k''; discriminate]. }
        destruct Et; subst t tc.
        destruct (enqueue_blocks_spec (tbl_blocks tc0) cb) as (_ & B & _). destruct (B b Hb); auto.
        left. subst q1. apply in_app_iff; auto.
    + destruct (IH _ _ _ H2 b Hb) as [X|X].
      * left. subst q1. apply in_app_iff; auto.
      * destruct (enqueue_blocks_spec (tbl_blocks tc0) cb) as (_ & B & S & _). apply S in X. destruct X as [X|X]; auto.
        destruct (B b X); auto. left. subst q1. apply in_app_iff. left. apply in_app_iff. auto.
Qed.

Lemma all_q_table_before_commit ct cb cs q1 c cc q2 :
  all_q ct cb cs = q1 ++ QCommit c cc :: q2 -> forall tc, ~ In (QTable (c_table cc) tc) q2.
Proof.
  revert ct cb q1; induction cs as [|[c0 cc0] r IH]; intros ct cb q1; simpl.
  - intros H. destruct q1; discriminate.
  - assert (Tail : forall ct' cb', (memN (c_table cc0) tbs = true -> In (c_table cc0) ct') ->
                   forall tc, ~ In (QTable (c_table cc0) tc) (all_q ct' cb' r)).
    { intros ct' cb' Hc tc Hin. destruct (all_q_table_in _ _ _ _ _ Hin) as (A & B & _). auto. }
    destruct (commit_q_cases ct cb c0 cc0) as [[E X]|[(M & NI & _ & E)|(M & NI & tc0 & L & E)]]; rewrite E; clear E;
      intros H tc; apply split_app in H; destruct H as [[l [H1 H2]]|[k [H1 H2]]]; eauto.
    + destruct q1; simpl in H1; inversion H1; subst; [|destruct q1; discriminate].
      simpl. apply Tail. intros Y. destruct X; congruence.
    + destruct q1; simpl in H1; inversion H1; subst; [|destruct q1; discriminate].
      simpl. apply Tail. simpl; auto.
    + (* inside the objects of this commit: only its last element is a commit *)
      assert (Hl : l = [] /\ c = c0 /\ cc = cc0).
      { replace (fst (enqueue_blocks (tbl_blocks tc0) [] cb) ++ [QTable (c_table cc0) tc0; QCommit c0 cc0])
          with ((fst (enqueue_blocks (tbl_blocks tc0) [] cb) ++ [QTable (c_table cc0) tc0]) ++ [QCommit c0 cc0]) in H1
          by (rewrite <- app_assoc; auto).
        apply split_app in H1. destruct H1 as [[l' [A1 A2]]|[k' [A1 A2]]].
        - exfalso. assert (X : In (QCommit c cc) (fst (enqueue_blocks (tbl_blocks tc0) [] cb) ++ [QTable (c_table cc0) tc0])) by (rewrite A1; apply in_app_iff; simpl; auto).
          apply in_app_iff in X. destruct X as [X|[X|[]]]; [|discriminate]. destruct (eb_all_blocks _ _ _ X); discriminate.
        - destruct k'; simpl in A2; inversion A2; subst; auto. destruct k'; discriminate. }
      destruct Hl as (? & ? & ?); subst l c cc. subst q2. simpl. apply Tail. simpl; auto.
Qed.

(** * From the queue to the stream of objects *)

Lemma F2_commits qs objs :
  Forall2 emits qs objs ->
  flat_map (fun o => match o with OCommit c cc => [(c, cc)] | _ => [] end) objs = qcommits qs.
Proof.
  induction 1 as [|q o qs objs H HF IH]; simpl; auto. rewrite IH.
  destruct q; unfold emits in H; simpl in H.
  - destruct (lookup b (blocks src)); inversion H; auto.
  - inversion H; auto.
  - inversion H; auto.
Qed.

Section Stream.
Variables (ct cb : list N) (cs : list (N * commit)) (objs : list obj).
Hypothesis Hem : emit_all (all_q ct cb cs) = Some objs.

Let HF : Forall2 emits (all_q ct cb cs) objs.
Proof. apply emit_all_F2; auto. Qed.

Lemma stream_commit_in c cc : In (OCommit c cc) objs <-> In (c, cc) cs.
Proof.
  rewrite <- (all_q_commit_in ct cb). split; intros H.
  - destruct (F2_in_r _ _ _ _ HF H) as (q & Hq & Eq). apply emits_commit in Eq; subst; auto.
  - destruct (F2_in_l _ _ _ _ HF H) as (o & Ho & Eo). unfold emits in Eo; simpl in Eo. inversion Eo; subst; auto.
Qed.

Lemma stream_table_in t tc : In (OTable t tc) objs <-> In (QTable t tc) (all_q ct cb cs).
Proof.
  split; intros H.
  - destruct (F2_in_r _ _ _ _ HF H) as (q & Hq & Eq). apply emits_table in Eq; subst; auto.
  - destruct (F2_in_l _ _ _ _ HF H) as (o & Ho & Eo). unfold emits in Eo; simpl in Eo. inversion Eo; subst; auto.
Qed.

Lemma stream_block_in b : (exists z, In (OBlock b z) objs) <-> In (QBlock b) (all_q ct cb cs).
Proof.
  split.
  - intros [z H]. destruct (F2_in_r _ _ _ _ HF H) as (q & Hq & Eq). apply emits_block in Eq. destruct Eq; subst; auto.
  - intros H. destruct (F2_in_l _ _ _ _ HF H) as (o & Ho & Eo). apply emits_qblock in Eo. destruct Eo as (z & ? & _); subst; eauto.
Qed.

Lemma stream_block_value b z : In (OBlock b z) objs -> lookup b (blocks src) = Some z.
Proof. intros H. destruct (F2_in_r _ _ _ _ HF H) as (q & Hq & Eq). apply emits_block in Eq. tauto. Qed.

Lemma stream_no_bad : ~ In OBad objs.
Proof. intros H. destruct (F2_in_r _ _ _ _ HF H) as (q & Hq & Eq). eapply emits_bad; eauto. Qed.

Lemma stream_commits_in_order : commits_in_order cs objs.
Proof.
  unfold commits_in_order. rewrite (F2_commits _ _ HF). apply all_q_commits.
Qed.

Lemma stream_blocks_before_tables : blocks_before_tables cb objs.
Proof.
  intros l1 t tc l2 E b Hb. rewrite E in HF. apply F2_split in HF.
  destruct HF as (q1 & q & q2 & Eq & F1 & Rq & F2). apply emits_table in Rq; subst q.
  destruct (all_q_blocks_before_table _ _ _ _ _ _ _ Eq b Hb) as [X|X]; auto.
  left. destruct (F2_in_l _ _ _ _ F1 X) as (o & Ho & Eo). apply emits_qblock in Eo. destruct Eo as (z & ? & _); subst; eauto.
Qed.

Lemma stream_table_before_commits : table_before_commits objs.
Proof.
  intros l1 c cc l2 E tc Hin. rewrite E in HF. apply F2_split in HF.
  destruct HF as (q1 & q & q2 & Eq & F1 & Rq & F2). apply emits_commit in Rq; subst q.
  destruct (F2_in_r _ _ _ _ F2 Hin) as (q & Hq & Eq'). apply emits_table in Eq'; subst q.
  eapply all_q_table_before_commit; eauto.
Qed.

End Stream.

Definition from_src (objs : list obj) : Prop :=
  (forall c cc, In (OCommit c cc) objs -> lookup c (commits src) = Some cc) /\
  (forall t tc, In (OTable t tc) objs -> lookup t (tables src) = Some tc) /\
  (forall b z, In (OBlock b z) objs -> lookup b (blocks src) = Some z).

Lemma stream_from_src ct cb cs objs :
  (forall c cc, In (c, cc) cs -> lookup c (commits src) = Some cc) ->
  emit_all (all_q ct cb cs) = Some objs -> from_src objs.
Proof.
  intros Hc Hem. repeat split.
  - intros c cc H. apply Hc. eapply stream_commit_in; eauto.
  - intros t tc H. eapply stream_table_in in H; eauto. apply all_q_table_in in H. tauto.
  - intros b z H. eapply stream_block_value; eauto.
Qed.

(** * The receiver accepts *)

Variable bshape : N -> N.
Notation recv_all := (recv_all bshape).
Notation recv_obj := (recv_obj bshape).

Lemma recv_commit_succeeds d c cc :
  (forall p, In p (c_parents cc) -> has_commit d p = true) -> recv_commit d c cc = ROk (put_commit d c cc).
Proof.
  intros H. unfold recv_commit. replace (forallb (has_commit d) (c_parents cc)) with true; auto.
  symmetry. apply forallb_forall; auto.
Qed.

Lemma index_blocks_succeeds d cols pk bl :
  (forall b x, In (b, x) bl -> has_block d b = true /\ fits bshape cols b = true /\ x = reindex pk b) ->
  exists d1, index_blocks bshape d cols pk bl = ROk d1.
Proof.
  revert d; induction bl as [|[b x] bl IH]; intros d H; simpl; eauto.
  destruct (H b x) as (A & B & C); simpl; auto. rewrite A, B. simpl.
  replace (xid_eqb (reindex pk b) x) with true by (symmetry; apply xid_eqb_eq; auto).
  apply IH. intros b' x' Hin. destruct (H b' x') as (A' & B' & C'); simpl; auto.
Qed.

Lemma recv_table_succeeds d t tc :
  table_sound bshape tc -> (forall b, In b (tbl_blocks tc) -> has_block d b = true) ->
  exists d', recv_table bshape d t tc = ROk d'.
Proof.
  intros [Hpk Hs] Hb. unfold recv_table.
  replace (forallb (fun k => k <? t_cols tc) (t_pk tc)) with true
    by (symmetry; apply forallb_forall; intros k Hk; apply N.ltb_lt; auto).
  simpl.
  destruct (index_blocks_succeeds d (t_cols tc) (t_pk tc) (t_blocks tc)) as [d1 E].
  { intros b x Hin. destruct (Hs _ _ Hin). repeat split; auto. apply Hb. unfold tbl_blocks. apply in_map_iff. exists (b, x); auto. }
  rewrite E.
  pose proof (index_blocks_frame bshape d (t_cols tc) (t_pk tc) (t_blocks tc)) as F. rewrite E in F. simpl in F.
  destruct F as (_ & _ & F3 & _).
  replace (forallb (has_block (put_tblidx d1 t)) (tbl_blocks tc)) with true; simpl; eauto.
  symmetry. apply forallb_forall. intros b Hin. unfold has_block in *; simpl. rewrite F3. auto.
Qed.

Lemma recv_all_blocks d objs :
  (forall o, In o objs -> exists b z, o = OBlock b z) -> exists d', recv_all d objs = ROk d'.
Proof.
  revert d; induction objs as [|o objs IH]; intros d H; simpl; eauto.
  destruct (H o) as (b & z & E); simpl; auto. subst. simpl. apply IH. intros; apply H; simpl; auto.
Qed.

Lemma parent_first_head d c cc r p : parent_first d ((c, cc) :: r) -> In p (c_parents cc) -> has_commit d p = true.
Proof.
  intros H Hp. destruct (H [] c cc r eq_refl p Hp) as [[]|]; auto.
Qed.

Lemma parent_first_tail d d1 c cc r :
  parent_first d ((c, cc) :: r) -> ext d d1 -> has_commit d1 c = true -> parent_first d1 r.
Proof.
  intros H X Hc pre c' cc' post E p Hp.
  destruct (H ((c, cc) :: pre) c' cc' post) with (p := p) as [Y|Y]; auto.
  - simpl. rewrite E. auto.
  - simpl in Y. destruct Y as [Y|Y]; subst; auto.
  - right. destruct X; auto.
Qed.

Definition needed_ok (ct cb : list N) (cs : list (N * commit)) (d : repo) : Prop :=
  forall b, In b cb -> (exists t tc, In (QTable t tc) (all_q ct cb cs) /\ In b (tbl_blocks tc)) -> has_block d b = true.

Lemma accept cs : forall ct cb d,
  SrcWF bshape src ->
  parent_first d cs ->
  needed_ok ct cb cs d ->
  exists objs d', emit_all (all_q ct cb cs) = Some objs /\ recv_all d objs = ROk d'.
Proof.
  induction cs as [|[c cc] r IH]; intros ct cb d HS HP HN; simpl.
  - exists [], d. auto.
  - assert (CommitStep : forall d0, ext d d0 ->
              recv_commit d0 c cc = ROk (put_commit d0 c cc) /\ parent_first (put_commit d0 c cc) r).
    { intros d0 X. split.
      - apply recv_commit_succeeds. intros p Hp. destruct X. eauto using parent_first_head.
      - eapply parent_first_tail; eauto.
        + eapply ext_trans; eauto using ext_put_commit.
        + unfold has_commit; simpl. rewrite has_cons, N.eqb_refl. auto. }
    unfold needed_ok in HN. simpl in HN.
    destruct (commit_q_cases ct cb c cc) as [[E _]|[(M & NI & _ & E)|(M & NI & tc & L & E)]]; rewrite E in *; clear E.
    + destruct (CommitStep d (ext_refl d)) as [C1 C2].
      destruct (IH ct cb (put_commit d c cc) HS C2) as (objs & d' & E1 & E2).
      { intros b Hb (t & tc & H1 & H2). unfold has_block; simpl. apply HN; auto. exists t, tc. split; auto. apply in_app_iff; auto. }
      exists (OCommit c cc :: objs), d'. simpl. rewrite E1. simpl. rewrite C1. auto.
    + destruct (CommitStep d (ext_refl d)) as [C1 C2].
      destruct (IH (c_table cc :: ct) cb (put_commit d c cc) HS C2) as (objs & d' & E1 & E2).
      { intros b Hb (t & tc & H1 & H2). unfold has_block; simpl. apply HN; auto. exists t, tc. split; auto. apply in_app_iff; auto. }
      exists (OCommit c cc :: objs), d'. simpl. rewrite E1. simpl. rewrite C1. auto.
    + set (eb := enqueue_blocks (tbl_blocks tc) [] cb) in *.
      destruct (enqueue_blocks_spec (tbl_blocks tc) cb) as (A & B & S & _). fold eb in A, B, S.
      destruct (HS _ _ L) as [Hsound Hsrcb].
      (* the new blocks *)
      destruct (emit_all_total (fst eb)) as [oA EA].
      { intros b Hb. destruct (A _ Hb) as (b' & Eb & Hb' & _). inversion Eb; subst. auto. }
      assert (FA : Forall2 emits (fst eb) oA) by (apply emit_all_F2; auto).
      destruct (recv_all_blocks d oA) as [dA RA].
      { intros o Ho. destruct (F2_in_r _ _ _ _ FA Ho) as (q & Hq & Eq). destruct (A _ Hq) as (b & ? & _); subst.
        apply emits_qblock in Eq. destruct Eq as (z & ? & _); eauto. }
      pose proof (recv_all_ext bshape d oA) as XA. rewrite RA in XA. simpl in XA.
      assert (HbA : forall b, In b (tbl_blocks tc) -> has_block dA b = true).
      { intros b Hb. destruct (B b Hb) as [Hc|Hq].
        - destruct XA. apply ext_b. apply HN; auto. exists (c_table cc), tc. split; auto.
          apply in_app_iff. left. apply in_app_iff. right. simpl; auto.
        - destruct (F2_in_l _ _ _ _ FA Hq) as (o & Ho & Eo). apply emits_qblock in Eo. destruct Eo as (z & ? & _); subst.
          eapply ok_has_block; eauto. }
      (* the table *)
      destruct (recv_table_succeeds dA (c_table cc) tc Hsound HbA) as [dT RT].
      pose proof (recv_obj_ext bshape dA (OTable (c_table cc) tc)) as XT. simpl in XT. rewrite RT in XT. simpl in XT.
      (* the commit *)
      destruct (CommitStep dT (ext_trans _ _ _ XA XT)) as [C1 C2].
      destruct (IH (c_table cc :: ct) (snd eb) (put_commit dT c cc) HS C2) as (objs & d' & E1 & E2).
      { intros b Hb (t & tc' & H1 & H2). unfold has_block; simpl. apply S in Hb. destruct Hb as [Hb|Hb].
        - destruct XT, XA. apply ext_b, ext_b0. apply HN; auto. exists t, tc'. split; auto. apply in_app_iff; auto.
        - destruct XT. apply ext_b. auto. }
      exists (oA ++ [OTable (c_table cc) tc; OCommit c cc] ++ objs), d'.
      rewrite <- app_assoc. rewrite emit_all_app, EA. simpl. rewrite E1. split; auto.
      rewrite recv_all_app, RA. simpl. rewrite RT. rewrite C1. auto.
Qed.

(** * compat is preserved when everything received comes from the source *)

Lemma compat_recv d objs d' :
  compat src d -> from_src objs -> recv_all d objs = ROk d' -> compat src d'.
Proof.
  intros (C1 & C2 & C3) (F1 & F2 & F3) Hok. repeat split; intros k x y Hx Hy.
  - destruct (ok_lookup_commit bshape _ _ _ Hok _ _ Hy); eauto. apply F1 in H. congruence.
  - destruct (ok_lookup_table bshape _ _ _ Hok _ _ Hy); eauto. apply F2 in H. congruence.
  - destruct (ok_lookup_block bshape _ _ _ Hok _ _ Hy); eauto. apply F3 in H. congruence.
Qed.

(** * Common tables / blocks of a fresh sender *)

Lemma common_tables_spec commons :
  (forall c, In c commons -> has_commit src c = true) ->
  exists ct, common_tables src commons = Some ct /\ forall t, In t ct <-> common_table src commons t.
Proof.
  induction commons as [|c r IH]; intros H; simpl.
  - exists []. split; auto. intros t; split; [intros []|intros (c & cc & [] & _)].
  - destruct IH as (ct & E & S); [intros; apply H; simpl; auto|].
    assert (X : has_commit src c = true) by (apply H; simpl; auto). apply has_true in X. destruct X as [cc X].
    rewrite X, E. exists (c_table cc :: ct). split; auto. intros t. simpl. rewrite S. split.
    + intros [Et|(c' & cc' & A & B & C)].
      * exists c, cc. simpl; auto.
      * exists c', cc'. simpl; auto.
    + intros (c' & cc' & [A|A] & B & C).
      * subst c'. left. congruence.
      * right. exists c', cc'. auto.
Qed.

Lemma common_blocks_spec ct b :
  In b (common_blocks src ct) <-> exists t tc, In t ct /\ lookup t (tables src) = Some tc /\ In b (tbl_blocks tc).
Proof.
  unfold common_blocks. rewrite in_flat_map. unfold src_tbl_blocks. split.
  - intros (t & Ht & Hb). destruct (lookup t (tables src)) as [tc|] eqn:E; [|destruct Hb]. eauto.
  - intros (t & tc & Ht & E & Hb). exists t. rewrite E. auto.
Qed.

End Exact.

(** * The final theorems *)

Section Final.
Variable bshape : N -> N.

Lemma pre_stream src dst to_send tbs commons :
  exact_pre_any bshape src dst to_send tbs commons ->
  exists ct objs,
    common_tables src commons = Some ct /\
    (forall t, In t ct <-> common_table src commons t) /\
    emit_all src (all_q src tbs ct (common_blocks src ct) to_send) = Some objs /\
    stream src to_send tbs commons = Some objs.
Proof.
  intros P. destruct (common_tables_spec src commons (apre_commons_in_src _ _ _ _ _ _ P)) as (ct & E & S).
  destruct (emit_all_total src (all_q src tbs ct (common_blocks src ct) to_send)) as [objs Eo].
  { intros b Hb. apply all_q_block_in in Hb. destruct Hb as (_ & t & tc & Ht & Hin).
    apply all_q_table_in in Ht. destruct Ht as (_ & _ & L & _).
    destruct (apre_src_wf bshape _ _ _ _ _ P _ _ L) as [_ X]. auto. }
  exists ct, objs. repeat split; auto; try apply S. rewrite stream_spec, E. auto.
Qed.

(** the receiver accepts the stream iff every block that the sender withholds as common
    but that a transmitted table uses is at the destination *)
Theorem accept_iff_any src dst to_send tbs commons objs :
  exact_pre_any bshape src dst to_send tbs commons ->
  stream src to_send tbs commons = Some objs ->
  ((exists d', recv_all bshape dst objs = ROk d') <->
   (forall b, needed_common_block src commons objs b -> has_block dst b = true)).
Proof.
  intros P Hs. destruct (pre_stream _ _ _ _ _ P) as (ct & objs' & E & S & Em & Hs'). rewrite Hs in Hs'. inversion Hs'; subst objs'.
  assert (Ecb : initial_common_blocks src commons = common_blocks src ct) by (unfold initial_common_blocks; rewrite E; auto).
  split.
  - intros [d' Hok] b [Hb (t & tc & Ht & Hin)]. rewrite Ecb in Hb.
    apply in_split in Ht. destruct Ht as (l1 & l2 & El).
    destruct (ok_table_blocks_present bshape _ _ _ Hok _ _ _ _ El b Hin) as [X|[z X]]; auto.
    exfalso. assert (Y : In (QBlock b) (all_q src tbs ct (common_blocks src ct) to_send)).
    { eapply stream_block_in; eauto. exists z. rewrite El. apply in_app_iff; auto. }
    apply all_q_block_in in Y. tauto.
  - intros H. destruct (accept src tbs bshape to_send ct (common_blocks src ct) dst) as (o2 & d' & E1 & E2).
    + apply (apre_src_wf _ _ _ _ _ _ P).
    + apply (apre_parent_first _ _ _ _ _ _ P).
    + intros b Hb (t & tc & Ht & Hin). apply H. split; [rewrite Ecb; auto|]. exists t, tc. split; auto.
      eapply stream_table_in; eauto.
    + rewrite Em in E1. inversion E1; subst. eauto.
Qed.

Lemma full_needed src dst to_send tbs commons :
  exact_pre_any bshape src dst to_send tbs commons -> commons_full src dst commons ->
  forall b, In b (initial_common_blocks src commons) -> has_block dst b = true.
Proof.
  intros P F b Hb. destruct (pre_stream _ _ _ _ _ P) as (ct & _ & E & S & _).
  unfold initial_common_blocks in Hb. rewrite E in Hb. apply common_blocks_spec in Hb.
  destruct Hb as (t & tc & Ht & L & Hin). apply S in Ht. pose proof (F _ Ht) as X.
  apply has_true in X. destruct X as [tc' X].
  destruct (apre_compat _ _ _ _ _ _ P) as (_ & C2 & _). rewrite (C2 _ _ _ L X) in *.
  destruct (apre_commons_usable _ _ _ _ _ _ P _ _ Ht X) as (_ & B & _).
  unfold tbl_blocks in Hin. apply in_map_iff in Hin. destruct Hin as [[b' x] [Eb Hin]]. simpl in Eb; subst.
  destruct (B _ _ Hin); auto.
Qed.

Theorem exact_stream_any src dst to_send tbs commons :
  exact_pre_any bshape src dst to_send tbs commons -> commons_full src dst commons ->
  exists objs d',
    stream src to_send tbs commons = Some objs /\
    recv_all bshape dst objs = ROk d' /\
    exact_post_any bshape src dst to_send tbs d' /\
    blocks_before_tables (initial_common_blocks src commons) objs /\
    table_before_commits objs /\ commits_in_order to_send objs /\ parents_before_children dst objs.
Proof.
  intros P F. destruct (pre_stream _ _ _ _ _ P) as (ct & objs & E & S & Em & Hs).
  assert (Ecb : initial_common_blocks src commons = common_blocks src ct) by (unfold initial_common_blocks; rewrite E; auto).
  destruct (proj2 (accept_iff_any _ _ _ _ _ _ P Hs)) as [d' Hok].
  { intros b [Hb _]. eapply full_needed; eauto. }
  exists objs, d'. split; auto. split; auto.
  pose proof (stream_from_src src tbs _ _ _ _ (apre_sent_in_src _ _ _ _ _ _ P) Em) as FS.
  pose proof (compat_recv src bshape _ _ _ (apre_compat _ _ _ _ _ _ P) FS Hok) as Cd'.
  pose proof (closed_recv_all bshape dst objs (apre_dst_closed _ _ _ _ _ _ P)) as Cl. rewrite Hok in Cl; simpl in Cl.
  pose proof (recv_all_ext bshape dst objs) as X. rewrite Hok in X; simpl in X.
  destruct Cd' as (Cc & Ct & Cb).
  (* a sent table is at the destination afterwards, with the source's content *)
  assert (PT : forall t tc, sent_table src to_send tbs t tc -> lookup t (tables d') = Some tc).
  { intros t tc (c & cc & Hin & Et & M & L). subst t.
    assert (Hh : has_table d' (c_table cc) = true).
    { destruct (all_q_table_sent src tbs ct (common_blocks src ct) _ _ _ _ Hin M L) as [Q|Q].
      - eapply ok_has_table; eauto. right. exists tc. eapply stream_table_in; eauto.
      - destruct X. apply ext_t. apply F. apply S; auto. }
    apply has_true in Hh. destruct Hh as [y Hy]. rewrite (Ct _ _ _ L Hy). auto. }
  (* ... and usable: rebuilt by this receive, or the usable table of a common commit *)
  assert (Wf : forall t tc, sent_table src to_send tbs t tc -> table_ok bshape d' t tc).
  { intros t tc (c & cc & Hin & Et & M & L). subst t.
    destruct (all_q_table_sent src tbs ct (common_blocks src ct) _ _ _ _ Hin M L) as [Q|Q].
    - assert (Q' : In (OTable (c_table cc) tc) objs) by (eapply stream_table_in; eauto).
      apply in_split in Q'. destruct Q' as (l1 & l2 & El).
      eapply received_usable; eauto.
    - apply S in Q. pose proof (F _ Q) as Hh. apply has_true in Hh. destruct Hh as [y Hy].
      destruct (apre_compat _ _ _ _ _ _ P) as (_ & C2 & _). rewrite <- (C2 _ _ _ L Hy) in Hy.
      eapply table_ok_ext; eauto. eapply (apre_commons_usable _ _ _ _ _ _ P); eauto. }
  assert (ST : forall t tc, In (OTable t tc) objs -> sent_table src to_send tbs t tc).
  { intros t tc H. eapply stream_table_in in H; eauto. apply all_q_table_in in H.
    destruct H as (_ & M & L & c & cc & Hin & Et). exists c, cc. auto. }
  split; [split|].
  - (* post_commits *)
    intros c cc Hin. assert (Hh : has_commit d' c = true).
    { eapply ok_has_commit; eauto. right. exists cc. eapply stream_commit_in; eauto. }
    apply has_true in Hh. destruct Hh as [y Hy].
    rewrite (Cc _ _ _ (apre_sent_in_src _ _ _ _ _ _ P _ _ Hin) Hy). auto.
  - exact PT.
  - (* post_blocks *)
    intros t tc b Hs' Hb.
    destruct (Wf _ _ Hs') as (_ & B & _).
    unfold tbl_blocks in Hb. apply in_map_iff in Hb. destruct Hb as [[b' x] [Eb Hin]]. simpl in Eb; subst.
    destruct (B _ _ Hin) as [Hh _]. split; auto.
    destruct Hs' as (c & cc & _ & _ & _ & L).
    destruct (apre_src_wf _ _ _ _ _ _ P _ _ L) as [_ Hsb].
    assert (Hs2 : has_block src b = true) by (apply Hsb; unfold tbl_blocks; apply in_map_iff; exists (b, x); auto).
    apply has_true in Hh. destruct Hh as [y Hy]. apply has_true in Hs2. destruct Hs2 as [x' Hx].
    rewrite Hy, Hx. f_equal. symmetry. eapply Cb; eauto.
  - repeat split; auto.
  - exact Cl.
  - exact Wf.
  - intros W. pose proof (tableswf_recv_all bshape dst objs W) as W'. rewrite Hok in W'. exact W'.
  - (* frame_commits *)
    intros c. rewrite (ok_has_commit bshape _ _ _ Hok). split; intros [H|H]; auto; right.
    + destruct H as [cc H]. eapply stream_commit_in in H; eauto. apply in_map_iff. exists (c, cc); auto.
    + apply in_map_iff in H. destruct H as [[c' cc] [Ec H]]. simpl in Ec; subst. exists cc. eapply stream_commit_in; eauto.
  - (* frame_tables *)
    intros t. split.
    + intros H. apply (ok_has_table bshape _ _ _ Hok) in H. destruct H as [H|[tc H]]; auto. right. exists tc; auto.
    + intros [H|[tc H]]; [destruct X; auto|]. apply has_true. exists tc; auto.
  - (* frame_blocks *)
    intros b. split.
    + intros H. apply (ok_has_block bshape _ _ _ Hok) in H. destruct H as [H|H]; auto. right.
      eapply stream_block_in in H; eauto. apply all_q_block_in in H. destruct H as (_ & t & tc & Ht & Hb).
      exists t, tc. split; auto. apply ST. eapply stream_table_in; eauto.
    + intros [H|(t & tc & Hs' & Hb)]; [destruct X; auto|].
      destruct (Wf _ _ Hs') as (_ & B & _).
      unfold tbl_blocks in Hb. apply in_map_iff in Hb. destruct Hb as [[b' x] [Eb Hin]]. simpl in Eb; subst.
      destruct (B _ _ Hin); auto.
  - (* frame_blkidx *)
    intros x. split.
    + intros H. apply (ok_blkidx bshape _ _ _ Hok) in H. destruct H as [H|(t & tc & Ht & Hx)]; auto. right. exists t, tc; auto.
    + intros [H|(t & tc & Hs' & Hx)]; [destruct X; auto|].
      destruct (Wf _ _ Hs') as (_ & B & _).
      apply in_map_iff in Hx. destruct Hx as [[b x'] [Ex Hin]]. simpl in Ex; subst. destruct (B _ _ Hin); auto.
  - (* frame_tblidx *)
    intros t. split.
    + intros H. apply (ok_tblidx bshape _ _ _ Hok) in H. destruct H as [H|[tc H]]; auto. right. exists tc; auto.
    + intros [H|[tc Hs']]; [destruct X; auto|]. destruct (Wf _ _ Hs') as (_ & _ & B & _); auto.
  - (* frame_prof *)
    intros t. split.
    + intros H. apply (ok_prof bshape _ _ _ Hok) in H. destruct H as [H|[tc H]]; auto. right. exists tc; auto.
    + intros [H|[tc Hs']]; [destruct X; auto|]. destruct (Wf _ _ Hs') as (_ & _ & _ & B); auto.
  - (* keep_commits *)
    intros c H. pose proof H as H'. destruct X. apply ext_c in H'. apply has_true in H. apply has_true in H'.
    destruct H as [x Hx], H' as [y Hy]. rewrite Hx, Hy. f_equal.
    destruct (ok_lookup_commit bshape _ _ _ Hok _ _ Hy) as [Q|Q]; [congruence|].
    destruct FS as (F1 & _). apply F1 in Q. destruct (apre_compat _ _ _ _ _ _ P) as (C1 & _). eauto.
  - intros c H. pose proof H as H'. destruct X. apply ext_t in H'. apply has_true in H. apply has_true in H'.
    destruct H as [x Hx], H' as [y Hy]. rewrite Hx, Hy. f_equal.
    destruct (ok_lookup_table bshape _ _ _ Hok _ _ Hy) as [Q|Q]; [congruence|].
    destruct FS as (_ & F1 & _). apply F1 in Q. destruct (apre_compat _ _ _ _ _ _ P) as (_ & C1 & _). eauto.
  - intros c H. pose proof H as H'. destruct X. apply ext_b in H'. apply has_true in H. apply has_true in H'.
    destruct H as [x Hx], H' as [y Hy]. rewrite Hx, Hy. f_equal.
    destruct (ok_lookup_block bshape _ _ _ Hok _ _ Hy) as [Q|Q]; [congruence|].
    destruct FS as (_ & _ & F1). apply F1 in Q. destruct (apre_compat _ _ _ _ _ _ P) as (_ & _ & C1). eauto.
  - (* order *)
    rewrite Ecb. repeat split.
    + eapply stream_blocks_before_tables; eauto.
    + eapply stream_table_before_commits; eauto.
    + eapply stream_commits_in_order; eauto.
    + intros l1 c cc l2 El p Hp.
      pose proof (stream_commits_in_order src tbs _ _ _ _ Em) as O. unfold commits_in_order in O.
      rewrite El, flat_map_app in O. simpl in O.
      destruct (apre_parent_first _ _ _ _ _ _ P _ _ _ _ (eq_sym O) p Hp) as [Y|Y]; auto.
      left. apply in_map_iff in Y. destruct Y as [[p' pc] [Ep Y]]. simpl in Ep; subst. exists pc.
      apply in_flat_map in Y. destruct Y as (o & Ho & Y). destruct o; simpl in Y; try tauto.
      destruct Y as [Y|[]]. inversion Y; subst; auto.
Qed.

End Final.

(** * Results in terms of the transfer loop, for every size function and limit *)

Section Results.
Variable bshape : N -> N.
Variable size : obj -> N.

Lemma tstate_done r d : tstate r = Some (ROk d) -> exists ps, r = TDone d ps.
Proof. destruct r; simpl; intros H; inversion H; eauto. Qed.
Lemma tstate_err r d : tstate r = Some (RErr d) -> exists ps, r = TRecvErr d ps.
Proof. destruct r; simpl; intros H; inversion H; eauto. Qed.

Theorem exact_transfer_any src dst to_send tbs commons max :
  exact_pre_any bshape src dst to_send tbs commons -> commons_full src dst commons ->
  exists objs d' packs,
    stream src to_send tbs commons = Some objs /\
    transfer bshape size src to_send tbs commons max dst = TDone d' packs /\
    packs_of objs packs /\
    exact_post_any bshape src dst to_send tbs d'.
Proof.
  intros P F. destruct (exact_stream_any bshape _ _ _ _ _ P F) as (objs & d' & Hs & Hok & Post & _).
  destruct (transfer_spec src bshape size to_send tbs commons max dst objs Hs) as [T1 T2].
  rewrite Hok in T1. apply tstate_done in T1. destruct T1 as [ps T1].
  exists objs, d', ps. split; [auto|]. split; [auto|]. split; [|exact Post].
  specialize (T2 d' Hok). rewrite T1 in T2. exact T2.
Qed.

Theorem order_transfer_any src dst to_send tbs commons max :
  exact_pre_any bshape src dst to_send tbs commons -> commons_full src dst commons ->
  exists d' packs,
    transfer bshape size src to_send tbs commons max dst = TDone d' packs /\
    blocks_before_tables (initial_common_blocks src commons) (concat packs) /\
    table_before_commits (concat packs) /\
    commits_in_order to_send (concat packs) /\
    parents_before_children dst (concat packs).
Proof.
  intros P F. destruct (exact_stream_any bshape _ _ _ _ _ P F) as (objs & d' & Hs & Hok & _ & O1 & O2 & O3 & O4).
  destruct (transfer_spec src bshape size to_send tbs commons max dst objs Hs) as [T1 T2].
  rewrite Hok in T1. apply tstate_done in T1. destruct T1 as [ps T1].
  specialize (T2 d' Hok). rewrite T1 in T2. simpl in T2. destruct T2 as (T2 & _).
  exists d', ps. rewrite T2. auto.
Qed.

(** the destination state and whether the receiver rejected do not depend on how the
    stream is cut, whenever the sender itself does not fail (no precondition on the stores) *)
Theorem split_independent src dst to_send tbs commons objs :
  stream src to_send tbs commons = Some objs ->
  forall max, tstate (transfer bshape size src to_send tbs commons max dst) = Some (recv_all bshape dst objs).
Proof.
  intros Hs max. apply (transfer_spec src bshape size to_send tbs commons max dst objs Hs).
Qed.

End Results.

Theorem split_independent2 bshape size1 size2 src dst to_send tbs commons objs max1 max2 :
  stream src to_send tbs commons = Some objs ->
  tstate (transfer bshape size1 src to_send tbs commons max1 dst) =
  tstate (transfer bshape size2 src to_send tbs commons max2 dst).
Proof.
  intros Hs. rewrite (split_independent bshape size1 _ _ _ _ _ _ Hs), (split_independent bshape size2 _ _ _ _ _ _ Hs). auto.
Qed.

(** * Declared-common commits that are not full at the destination (shallow) *)

Section Shallow.
Variable bshape : N -> N.
Variable size : obj -> N.

(* loud case: a transmitted table uses a block the sender withholds as common and the
   destination lacks: the receiver rejects, and the state it stops in is clean *)
Theorem shallow_reject_any src dst to_send tbs commons objs max :
  exact_pre_any bshape src dst to_send tbs commons ->
  stream src to_send tbs commons = Some objs ->
  TablesWF bshape dst ->
  (exists b, needed_common_block src commons objs b /\ has_block dst b = false) ->
  exists d_err packs,
    transfer bshape size src to_send tbs commons max dst = TRecvErr d_err packs /\
    recv_all bshape dst objs = RErr d_err /\
    Closed d_err /\ TablesWF bshape d_err /\ ext dst d_err.
Proof.
  intros P Hs HW (b & Hn & Hb).
  destruct (recv_all bshape dst objs) as [d'|d_err] eqn:E.
  - exfalso. assert (X : exists d', recv_all bshape dst objs = ROk d') by eauto.
    destruct (accept_iff_any bshape _ _ _ _ _ _ P Hs) as [A1 _]. rewrite (A1 X b Hn) in Hb. discriminate.
  - pose proof (split_independent bshape size _ dst _ _ _ _ Hs max) as T. rewrite E in T.
    apply tstate_err in T. destruct T as [ps T]. exists d_err, ps. split; [auto|]. split; [auto|]. split; [|split].
    + pose proof (closed_recv_all bshape dst objs (apre_dst_closed _ _ _ _ _ _ P)) as C. rewrite E in C. auto.
    + pose proof (tableswf_recv_all bshape dst objs HW) as C. rewrite E in C. auto.
    + pose proof (recv_all_ext bshape dst objs) as C. rewrite E in C. auto.
Qed.

Theorem shallow_accept_any src dst to_send tbs commons objs max :
  exact_pre_any bshape src dst to_send tbs commons ->
  stream src to_send tbs commons = Some objs ->
  TablesWF bshape dst ->
  (forall b, needed_common_block src commons objs b -> has_block dst b = true) ->
  exists d' packs,
    transfer bshape size src to_send tbs commons max dst = TDone d' packs /\
    recv_all bshape dst objs = ROk d' /\
    Closed d' /\ TablesWF bshape d' /\ ext dst d'.
Proof.
  intros P Hs HW H. destruct (accept_iff_any bshape _ _ _ _ _ _ P Hs) as [_ A2]. destruct (A2 H) as [d' E].
  pose proof (split_independent bshape size _ dst _ _ _ _ Hs max) as T. rewrite E in T.
  apply tstate_done in T. destruct T as [ps T]. exists d', ps. split; [auto|]. split; [auto|]. split; [|split].
  - pose proof (closed_recv_all bshape dst objs (apre_dst_closed _ _ _ _ _ _ P)) as C. rewrite E in C. auto.
  - pose proof (tableswf_recv_all bshape dst objs HW) as C. rewrite E in C. auto.
  - pose proof (recv_all_ext bshape dst objs) as C. rewrite E in C. auto.
Qed.

(* silent case: the table of a declared-common commit is never transmitted; if the
   destination lacks it, it still lacks it after a successful transfer, even when a sent
   commit carries that very table and it is in tablesToSend *)
Theorem shallow_silent_any src dst to_send tbs commons objs d' t :
  exact_pre_any bshape src dst to_send tbs commons ->
  stream src to_send tbs commons = Some objs ->
  recv_all bshape dst objs = ROk d' ->
  common_table src commons t -> has_table dst t = false -> has_table d' t = false.
Proof.
  intros P Hs Hok Hc Hd. destruct (pre_stream bshape _ _ _ _ _ P) as (ct & objs' & E & S & Em & Hs').
  rewrite Hs in Hs'. inversion Hs'; subst objs'.
  destruct (has_table d' t) eqn:Ht; auto. exfalso.
  apply (ok_has_table bshape _ _ _ Hok) in Ht. destruct Ht as [Ht|[tc Ht]]; [congruence|].
  eapply stream_table_in in Ht; eauto. apply all_q_table_in in Ht. destruct Ht as (NI & _). apply NI, S; auto.
Qed.

End Shallow.

(** * "closed modulo the declared common commits" gives [parent_first] *)

Lemma anc_present src dst a b :
  Closed dst -> compat src dst -> anc src a b -> has_commit dst b = true -> has_commit dst a = true.
Proof.
  intros HC (C1 & _) H. induction H as [a|a b cc p L Hp Ha IH]; auto.
  intros Hb. apply IH. apply has_true in Hb. destruct Hb as [cc' Hb].
  rewrite (C1 _ _ _ L Hb) in *. eapply HC; eauto.
Qed.

Theorem parent_first_from_commons src dst commons to_send :
  Closed dst -> compat src dst ->
  (forall c0, In c0 commons -> has_commit dst c0 = true) ->
  parent_first_commons src commons to_send -> parent_first dst to_send.
Proof.
  intros HC Cp Hc H pre c cc post E p Hp.
  destruct (H pre c cc post E p Hp) as [X|(c0 & Hin & Ha)]; auto.
  right. eapply anc_present; eauto.
Qed.

(** * The same for a destination all of whose tables are usable (the original statements) *)

Lemma pre_any_of_pre bshape src dst to_send tbs commons :
  exact_pre bshape src dst to_send tbs commons -> exact_pre_any bshape src dst to_send tbs commons.
Proof.
  intros [A B C D E F G]. split; auto.
Qed.

Lemma post_of_post_any bshape src dst to_send tbs d' :
  TablesWF bshape dst -> exact_post_any bshape src dst to_send tbs d' -> exact_post bshape src dst to_send tbs d'.
Proof.
  intros W P. destruct P. split; auto.
Qed.

Theorem accept_iff bshape src dst to_send tbs commons objs :
  exact_pre bshape src dst to_send tbs commons ->
  stream src to_send tbs commons = Some objs ->
  ((exists d', recv_all bshape dst objs = ROk d') <->
   (forall b, needed_common_block src commons objs b -> has_block dst b = true)).
Proof. intros P. apply accept_iff_any. apply pre_any_of_pre; auto. Qed.

Theorem exact_transfer bshape size src dst to_send tbs commons max :
  exact_pre bshape src dst to_send tbs commons -> commons_full src dst commons ->
  exists objs d' packs,
    stream src to_send tbs commons = Some objs /\
    transfer bshape size src to_send tbs commons max dst = TDone d' packs /\
    packs_of objs packs /\
    exact_post bshape src dst to_send tbs d'.
Proof.
  intros P F. destruct (exact_transfer_any bshape size _ _ _ _ _ max (pre_any_of_pre _ _ _ _ _ _ P) F)
    as (objs & d' & packs & A & B & C & D).
  exists objs, d', packs. split; [auto|]. split; [auto|]. split; [auto|].
  apply post_of_post_any; auto. apply (pre_dst_wf _ _ _ _ _ _ P).
Qed.

Theorem order_transfer bshape size src dst to_send tbs commons max :
  exact_pre bshape src dst to_send tbs commons -> commons_full src dst commons ->
  exists d' packs,
    transfer bshape size src to_send tbs commons max dst = TDone d' packs /\
    blocks_before_tables (initial_common_blocks src commons) (concat packs) /\
    table_before_commits (concat packs) /\
    commits_in_order to_send (concat packs) /\
    parents_before_children dst (concat packs).
Proof. intros P. apply order_transfer_any. apply pre_any_of_pre; auto. Qed.

Theorem shallow_reject bshape size src dst to_send tbs commons objs max :
  exact_pre bshape src dst to_send tbs commons ->
  stream src to_send tbs commons = Some objs ->
  (exists b, needed_common_block src commons objs b /\ has_block dst b = false) ->
  exists d_err packs,
    transfer bshape size src to_send tbs commons max dst = TRecvErr d_err packs /\
    recv_all bshape dst objs = RErr d_err /\
    Closed d_err /\ TablesWF bshape d_err /\ ext dst d_err.
Proof.
  intros P Hs. apply shallow_reject_any; auto using pre_any_of_pre. apply (pre_dst_wf _ _ _ _ _ _ P).
Qed.

Theorem shallow_silent bshape src dst to_send tbs commons objs d' t :
  exact_pre bshape src dst to_send tbs commons ->
  stream src to_send tbs commons = Some objs ->
  recv_all bshape dst objs = ROk d' ->
  common_table src commons t -> has_table dst t = false -> has_table d' t = false.
Proof. intros P. apply shallow_silent_any. apply pre_any_of_pre; auto. Qed.

(** * Non-vacuity: two commits whose tables share their first block, size limit 1 *)

Module Example.
Definition sh (_ : N) : N := 5.
Definition T10 := mkTable 3 [0] [(1, ([0], 1)); (2, ([0], 2))] 0.
Definition T11 := mkTable 3 [0] [(1, ([0], 1)); (3, ([0], 3))] 0.
Definition C0 := mkCommit 10 [].
Definition C1 := mkCommit 11 [0].
Definition src := mkRepo [(0, C0); (1, C1)] [(10, T10); (11, T11)] [(1, 101); (2, 102); (3, 103)] [] [] [].
Definition to_send := [(0, C0); (1, C1)].

Lemma pre : exact_pre sh src empty_repo to_send [10; 11] [].
Proof.
  split.
  - intros t tc H. simpl in H.
    destruct (t =? 10); [|destruct (t =? 11); [|discriminate]]; inversion H; subst; clear H; (split; [split|]).
    + intros k [Hk|[]]; subst; reflexivity.
    + intros b x [H|[H|[]]]; inversion H; subst; split; reflexivity.
    + intros b [H|[H|[]]]; subst; reflexivity.
    + intros k [Hk|[]]; subst; reflexivity.
    + intros b x [H|[H|[]]]; inversion H; subst; split; reflexivity.
    + intros b [H|[H|[]]]; subst; reflexivity.
  - intros c cc [H|[H|[]]]; inversion H; subst; reflexivity.
  - intros c [].
  - intros pre c cc post E p Hp. destruct pre as [|a [|b [|x pre]]]; simpl in E; inversion E; subst.
    + destruct Hp.
    + destruct Hp as [Hp|[]]; subst. left; simpl; auto.
  - intros c cc H; discriminate.
  - intros t tc H; discriminate.
  - repeat split; intros k x y _ H; discriminate.
Qed.

Lemma full : commons_full src empty_repo [].
Proof. intros t (c & cc & [] & _). Qed.

Lemma runs :
  exists d', transfer sh (fun _ => 2) src to_send [10; 11] [] 1 empty_repo =
             TDone d' [[OBlock 1 101]; [OBlock 2 102]; [OTable 10 T10]; [OCommit 0 C0];
                       [OBlock 3 103]; [OTable 11 T11]; [OCommit 1 C1]].
Proof. eexists. vm_compute. reflexivity. Qed.

(* the same transfer into a destination that already holds the table object of T10 alone
   (no blocks, no block indices, no table index, no profile) and a table index for T11
   without the table: not TablesWF, still within the preconditions *)
Definition dst_partial := mkRepo [] [(10, T10)] [] [] [11] [].

Lemma pre_partial : exact_pre_any sh src dst_partial to_send [10; 11] [].
Proof.
  destruct pre as [A B C D E F G]. split; auto.
  - intros t tc (c & cc & [] & _).
  - repeat split; intros k x y H1 H2; simpl in *; try discriminate.
    destruct (k =? 10); [congruence|discriminate].
Qed.

Lemma not_wf_partial : ~ TablesWF sh dst_partial.
Proof.
  intros W. destruct (W 10 T10 eq_refl) as (_ & _ & H & _). simpl in H. destruct H as [H|[]]. discriminate.
Qed.

Lemma full_partial : commons_full src dst_partial [].
Proof. intros t (c & cc & [] & _). Qed.
End Example.
