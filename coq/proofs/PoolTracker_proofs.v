(** C16 - progress tracker: Stop never blocks with close(done); the handshake form hangs. *)
From W.lib Require Import Tree.
From W.model Require Import PoolTracker.
From Coq Require Import Arith Lia.

(** close form (the code as it is) and the select form: whatever happened before, the
    consumer can always take its next step until it has returned from Stop() *)
Lemma consumer_never_blocked f sched k :
  f <> Handshake ->
  let s := trun f sched (tinit k) in
  consumer_done s = false -> consumer_enabled f s.
Proof.
  intros Hf s Hd. unfold consumer_enabled, consumer_done in *.
  assert (Hinv : forall sched s0, tc s0 <> CStopSend -> tc (trun f sched s0) <> CStopSend).
  { clear - Hf. induction sched as [|a r IH]; intros s0 H0; simpl; auto.
    destruct (tstep f a s0) as [s1|] eqn:E; auto. apply IH.
    destruct a; simpl in E.
    - destruct (stopped s0 || tick s0); inversion E; subst; auto.
    - destruct (tg s0); try discriminate. destruct (tick s0); inversion E; subst; auto.
    - destruct (tg s0); try discriminate. destruct (tc s0); inversion E; subst; simpl; discriminate.
    - destruct (tc s0) as [[|k]| | |]; inversion E; subst; simpl; discriminate.
    - destruct (tc s0); try discriminate. destruct f; try congruence; inversion E; subst; simpl; discriminate.
    - destruct f; try congruence; destruct (tg s0); try discriminate; destruct (tdone s0); inversion E; subst; auto. }
  specialize (Hinv sched (tinit k) ltac:(discriminate)). fold s in Hinv.
  destruct (tc s) as [[|k']| | |] eqn:Ec; try discriminate; try congruence.
  - eexists. left. simpl. rewrite Ec. reflexivity.
  - eexists. left. simpl. rewrite Ec. reflexivity.
  - destruct f; try congruence; eexists; right; simpl; rewrite Ec; reflexivity.
Qed.

(** number of consumer steps left: the consumer's own steps always decrease it *)
Definition cmeasure (s : tst) : nat :=
  match tc s with CLoop k => k + 3 | CStop => 2 | CStopSend => 1 | CDone => 0 end.
Lemma consumer_step_decreases f a s s' :
  (a = TData \/ a = TStop) -> tstep f a s = Some s' -> cmeasure s' < cmeasure s.
Proof.
  intros [-> | ->] H; simpl in H; unfold cmeasure.
  - destruct (tc s) as [[|k]| | |]; inversion H; subst; simpl; lia.
  - destruct (tc s); try discriminate. destruct f; inversion H; subst; simpl; lia.
Qed.

(** handshake form: one data item, a tick taken by the goroutine after the consumer's last
    read: Stop() blocks for ever (nothing at all can move) *)
Definition sched_handshake : list tact := [TTick; TData; TTake; TData; TStop].
Lemma handshake_refuted :
  let s := trun Handshake sched_handshake (tinit 1) in
  consumer_done s = false /\ forall a, tstep Handshake a s = None.
Proof. split; [reflexivity|]. intros []; reflexivity. Qed.

(** close form: Stop() returns, but the same timing leaves the goroutine parked in
    `t.c <- Event{}` for ever (a leaked goroutine) ... *)
Lemma close_leaks :
  let s := trun Close sched_handshake (tinit 1) in
  consumer_done s = true /\ goroutine_done s = false /\ forall a, tstep Close a s = None.
Proof. split; [reflexivity|]. split; [reflexivity|]. intros []; reflexivity. Qed.

(** ... which selecting on done in the send avoids: once the consumer has returned the
    goroutine can always finish *)
Lemma close_select_no_leak sched k :
  let s := trun CloseSelect sched (tinit k) in
  consumer_done s = true -> goroutine_done s = false -> exists s', tstep CloseSelect TDoneRecv s = Some s'.
Proof.
  intros s Hc Hg.
  assert (Hinv : forall sched s0, (consumer_done s0 = true -> tdone s0 = true) ->
                   (consumer_done (trun CloseSelect sched s0) = true -> tdone (trun CloseSelect sched s0) = true)).
  { clear. induction sched as [|a r IH]; intros s0 H0; simpl; auto.
    destruct (tstep CloseSelect a s0) as [s1|] eqn:E; auto. apply IH.
    unfold consumer_done in *. destruct a; simpl in E.
    - destruct (stopped s0 || tick s0); inversion E; subst; auto.
    - destruct (tg s0); try discriminate. destruct (tick s0); inversion E; subst; auto.
    - destruct (tg s0); try discriminate. destruct (tc s0); inversion E; subst; simpl; auto.
    - destruct (tc s0) as [[|k]| | |]; inversion E; subst; simpl; discriminate.
    - destruct (tc s0); try discriminate. inversion E; subst; auto.
    - destruct (tg s0); try discriminate; destruct (tdone s0); inversion E; subst; auto. }
  specialize (Hinv sched (tinit k) ltac:(discriminate) Hc). fold s in Hinv.
  unfold goroutine_done in Hg. simpl. rewrite Hinv. destruct (tg s); try discriminate; eauto.
Qed.

(* ---------------------------------------------------------------- progress bars of a command *)
(** the bar is completed on every path: the command returns the ingest's outcome, bars on or off *)
Lemma command_returns bars_on o :
  command_result bars_on true o = Some (match o with IOk => 0%N | IErr _ => 1%N end).
Proof. unfold command_result, bar_done. simpl. now rewrite orb_true_r. Qed.

(** completed only by the inserter (success path): a worker error after >= 1 saved block hangs the command *)
Lemma command_hangs_without_defer saved :
  saved <> 0 -> command_result true false (IErr saved) = None.
Proof.
  intros H. unfold command_result, bar_started, bar_done. simpl.
  destruct (Nat.eqb saved 0) eqn:E; [apply Nat.eqb_eq in E; congruence|reflexivity].
Qed.
