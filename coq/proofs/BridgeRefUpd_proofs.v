(** Bridge B7b (C15 -> C10): proofs for model/BridgeRefUpd.v.
    (1) [WS]: on model/RefUpdate.v alone - the trace of an operation / a history lists EVERY write made
        to the two abstract ref stores, in order, each with the true old value ([wsteps]);
    (2) one such write performed on the map specification / on the SQL model keeps [URel];
    (3) histories; the reflog read from the SQL store = the local moves of the trace. *)
From Coq Require Import List NArith Bool Arith Lia.
From W.lib Require Import Tree Bytes.
From W.model Require RefUpdate.
From W.proofs Require RefUpdate_proofs.
Import ListNotations.
Local Open Scope N_scope.

(** * 1. The trace is the complete write log of the abstract stores *)
Module WS.
  Import RefUpdate RefUpdate_proofs.

  Inductive wstep : rstore * rstore -> trans -> rstore * rstore -> Prop :=
  | w_lset : forall l r n c act f,
      wstep (l, r) (mk_trans Local n (rget l n) (Some c) f) (rset_log l n c act, r)
  | w_rset : forall l r n c act f,
      wstep (l, r) (mk_trans Remote n (rget r n) (Some c) f) (l, rset_log r n c act)
  | w_rdel : forall l r n f,
      wstep (l, r) (mk_trans Remote n (rget r n) None f) (l, rdel r n).

  Inductive wsteps : rstore * rstore -> list trans -> rstore * rstore -> Prop :=
  | ws_nil : forall p, wsteps p [] p
  | ws_cons : forall p t p' tr p'', wstep p t p' -> wsteps p' tr p'' -> wsteps p (t :: tr) p''.

  Lemma wsteps_app : forall p tr1 p' tr2 p'',
    wsteps p tr1 p' -> wsteps p' tr2 p'' -> wsteps p (tr1 ++ tr2) p''.
  Proof.
    intros p tr1 p' tr2 p'' H1 H2. induction H1 as [p|p t q tr q' Hs _ IH]; [exact H2|].
    simpl. econstructor; [exact Hs|]. now apply IH.
  Qed.

  Lemma wsteps_one : forall p t p', wstep p t p' -> wsteps p [t] p'.
  Proof. intros p t p' Hs. econstructor; [exact Hs|constructor]. Qed.

  (* ---- fetch *)
  Lemma fetch_item_ws : forall ia gforce s tr nrej it r, exists new,
    snd (fst (fetch_item ia gforce (s, tr, nrej) it)) = tr ++ new /\
    wsteps (s, r) new (fst (fst (fetch_item ia gforce (s, tr, nrej) it)), r).
  Proof.
    intros ia gforce s tr nrej it r. unfold fetch_item.
    destruct (updates _); simpl.
    - eexists. split; [reflexivity|]. apply wsteps_one. apply w_lset.
    - exists []. split; [now rewrite app_nil_r|constructor].
  Qed.

  Lemma fetch_fold_ws : forall ia gforce r items s tr nrej, exists new,
    snd (fst (fold_left (fetch_item ia gforce) items (s, tr, nrej))) = tr ++ new /\
    wsteps (s, r) new (fst (fst (fold_left (fetch_item ia gforce) items (s, tr, nrej))), r).
  Proof.
    intros ia gforce r items. induction items as [|it items IH]; intros s tr nrej; cbn [fold_left fst snd].
    - exists []. split; [now rewrite app_nil_r|constructor].
    - destruct (fetch_item_ws ia gforce s tr nrej it r) as [new1 [E1 W1]].
      destruct (fetch_item ia gforce (s, tr, nrej) it) as [[s1 tr1] n1]. simpl in E1, W1. subst tr1.
      destruct (IH s1 (tr ++ new1) n1) as [new2 [E2 W2]].
      exists (new1 ++ new2). split; [now rewrite E2, app_assoc|]. eapply wsteps_app; eauto.
  Qed.

  Definition res_ws (st : state) (r : result) : Prop :=
    wsteps (lrefs st, rrefs st) (r_trace r) (lrefs (r_state r), rrefs (r_state r)).

  Lemma res_ws_same : forall st out nrej, res_ws st (mk_result st [] out nrej).
  Proof. intros. unfold res_ws. simpl. constructor. Qed.

  Lemma fetch_step_h_ws : forall ia st specs gforce recv, res_ws st (fetch_step_h ia st specs gforce recv).
  Proof.
    intros ia st specs gforce recv. unfold fetch_step_h.
    destruct (resolve_fetch specs (listing (rrefs st))) as [items tags].
    destruct (recv (map fi_new items)) as [have'|]; [|apply res_ws_same].
    set (extra := flat_map _ tags). unfold fetch_loop.
    destruct (fetch_fold_ws ia gforce (rrefs st) (sort_items (items ++ extra)) (lrefs st) [] O)
      as [new [E W]].
    destruct (fold_left (fetch_item ia gforce) (sort_items (items ++ extra)) (lrefs st, [], O))
      as [[s' tr] nrej]. simpl in E, W. subst tr. unfold res_ws. simpl. exact W.
  Qed.

  (* ---- push *)
  Lemma server_apply_ws : forall ia dn dd s tr nrej u l, exists new,
    snd (fst (server_apply ia dn dd (s, tr, nrej) u)) = tr ++ new /\
    wsteps (l, s) new (l, fst (fst (server_apply ia dn dd (s, tr, nrej) u))).
  Proof.
    intros ia dn dd s tr nrej u l. unfold server_apply.
    destruct (negb (oeqb (rget s (u_dst u)) (u_old u))); simpl.
    { exists []. split; [now rewrite app_nil_r|constructor]. }
    destruct (u_new u) as [c|].
    - destruct (match rget s (u_dst u) with Some o => dn && negb (ia o c) | None => false end); simpl.
      + exists []. split; [now rewrite app_nil_r|constructor].
      + eexists. split; [reflexivity|]. apply wsteps_one. apply w_rset.
    - destruct dd; simpl.
      + exists []. split; [now rewrite app_nil_r|constructor].
      + eexists. split; [reflexivity|]. apply wsteps_one. apply w_rdel.
  Qed.

  Lemma server_fold_ws : forall ia dn dd l us s tr nrej, exists new,
    snd (fst (fold_left (server_apply ia dn dd) us (s, tr, nrej))) = tr ++ new /\
    wsteps (l, s) new (l, fst (fst (fold_left (server_apply ia dn dd) us (s, tr, nrej)))).
  Proof.
    intros ia dn dd l us. induction us as [|u us IH]; intros s tr nrej; cbn [fold_left fst snd].
    - exists []. split; [now rewrite app_nil_r|constructor].
    - destruct (server_apply_ws ia dn dd s tr nrej u l) as [new1 [E1 W1]].
      destruct (server_apply ia dn dd (s, tr, nrej) u) as [[s1 tr1] n1]. simpl in E1, W1. subst tr1.
      destruct (IH s1 (tr ++ new1) n1) as [new2 [E2 W2]].
      exists (new1 ++ new2). split; [now rewrite E2, app_assoc|]. eapply wsteps_app; eauto.
  Qed.

  Lemma push_step_ws : forall g ia st items gf dn dd, res_ws st (push_step g ia st items gf dn dd).
  Proof.
    intros g ia st items gf dn dd. unfold push_step.
    destruct (identify_updates ia gf (lrefs st) (listing (rrefs st)) items) as [[us nrej]|]; [|apply res_ws_same].
    destruct (server_fold_ws ia dn dd (lrefs st) (sort_upds us) (rrefs st) [] nrej) as [new [E W]].
    destruct (fold_left (server_apply ia dn dd) (sort_upds us) (rrefs st, [], nrej)) as [[s' tr] nrej'].
    simpl in E, W. subst tr. unfold res_ws. simpl. exact W.
  Qed.

  (* ---- merge *)
  Lemma merge_core_ws : forall g sk s branch cs mode m r,
    wsteps (s, r) (snd (fst (fst (merge_core g sk s branch cs mode m))))
           (fst (fst (fst (merge_core g sk s branch cs mode m))), r).
  Proof.
    intros g sk s branch cs mode m r. unfold merge_core.
    assert (G : forall base,
      wsteps (s, r)
        (snd (fst (fst
          (let na := non_ancestral base cs in
           let old := rget s branch in
           match merge_decision mode (length na) with
           | MIdentical => (s, [], 0, O)
           | MFastForward =>
             match na with
             | x :: _ => (rset_log s branch x ACT_MERGE, [mk_trans Local branch old (Some x) false], 0, O)
             | [] => (s, [], 0, O)
             end
           | MCommitAll =>
             if ceq_list (parents g m) cs
             then (rset_log s branch m ACT_MERGE, [mk_trans Local branch old (Some m) false], 0, O)
             else (s, [], 3, O)
           | MCommitNonAnc =>
             if ceq_list (parents g m) na
             then (rset_log s branch m ACT_MERGE, [mk_trans Local branch old (Some m) false], 0, O)
             else (s, [], 3, O)
           | MRejectNonFF => (s, [], 1, S O)
           end))))
        (fst (fst (fst
          (let na := non_ancestral base cs in
           let old := rget s branch in
           match merge_decision mode (length na) with
           | MIdentical => (s, [], 0, O)
           | MFastForward =>
             match na with
             | x :: _ => (rset_log s branch x ACT_MERGE, [mk_trans Local branch old (Some x) false], 0, O)
             | [] => (s, [], 0, O)
             end
           | MCommitAll =>
             if ceq_list (parents g m) cs
             then (rset_log s branch m ACT_MERGE, [mk_trans Local branch old (Some m) false], 0, O)
             else (s, [], 3, O)
           | MCommitNonAnc =>
             if ceq_list (parents g m) na
             then (rset_log s branch m ACT_MERGE, [mk_trans Local branch old (Some m) false], 0, O)
             else (s, [], 3, O)
           | MRejectNonFF => (s, [], 1, S O)
           end))), r)).
    { intros base. cbv zeta. set (na := non_ancestral base cs).
      destruct (merge_decision mode (length na)).
      - constructor.
      - destruct na; [constructor|]. apply wsteps_one. apply w_lset.
      - destruct (ceq_list (parents g m) cs); [|constructor]. apply wsteps_one. apply w_lset.
      - destruct (ceq_list (parents g m) na); [|constructor]. apply wsteps_one. apply w_lset.
      - constructor. }
    destruct (sk cs) as [c| |]; [apply (G (SInput c))|apply (G SOther)|constructor].
  Qed.

  Lemma merge_step_ws : forall g sk st branch others mode m, res_ws st (merge_step g sk st branch others mode m).
  Proof.
    intros g sk st branch others mode m. unfold merge_step.
    destruct (rget (lrefs st) (s_heads ++ branch)) as [b|]; [|apply res_ws_same].
    destruct (resolve_all (lrefs st) others) as [cs|]; [|apply res_ws_same].
    pose proof (merge_core_ws g sk (lrefs st) (s_heads ++ branch) (b :: cs) mode m (rrefs st)) as W.
    destruct (merge_core g sk (lrefs st) (s_heads ++ branch) (b :: cs) mode m) as [[[s' tr] out] nrej].
    unfold res_ws. simpl in *. exact W.
  Qed.

  (* ---- pull *)
  Lemma fetch_step_ws : forall g ia st specs gf, res_ws st (fetch_step g ia st specs gf).
  Proof. intros. apply fetch_step_h_ws. Qed.

  Lemma pull_step_ws : forall g ia sk st branch specs gf mode m,
    res_ws st (pull_step g ia sk st branch specs gf mode m).
  Proof.
    intros g ia sk st branch specs gf mode m. unfold pull_step, pull_step_gen.
    pose proof (fetch_step_ws g ia st specs gf) as Wf.
    set (rf := fetch_step g ia st specs gf) in *.
    destruct (negb (r_outcome rf =? 0)); [exact Wf|].
    set (st1 := r_state rf) in *. set (bn := s_heads ++ branch).
    set (newbranch := negb (is_some (rget (lrefs st) bn)) && negb (is_some (rget (lrefs st1) bn))).
    set (old := if newbranch then None else rget (lrefs st1) bn).
    set (heads := flat_map _ specs).
    destruct newbranch.
    - destruct heads as [|[hn hc] [|h2 heads]]; try (unfold res_ws in *; simpl; exact Wf).
      destruct (resolve_commitish (lrefs st1) hn) as [c|]; [|unfold res_ws in *; simpl; exact Wf].
      unfold res_ws in *. simpl. eapply wsteps_app; [exact Wf|]. apply wsteps_one. apply w_lset.
    - destruct heads as [|h heads]; [exact Wf|].
      destruct old as [b|]; [|unfold res_ws in *; simpl; exact Wf].
      destruct (resolve_all (lrefs st1) (map fst (h :: heads))) as [cs|]; [|unfold res_ws in *; simpl; exact Wf].
      pose proof (merge_core_ws g sk (lrefs st1) bn (b :: cs) mode m (rrefs st1)) as W.
      destruct (merge_core g sk (lrefs st1) bn (b :: cs) mode m) as [[[s' tr] out] nrej].
      unfold res_ws in *. simpl in *. eapply wsteps_app; [exact Wf|exact W].
  Qed.

  Lemma step_ws : forall g ia sk st o, res_ws st (step g ia sk st o).
  Proof.
    intros g ia sk st o. destruct o; simpl.
    - apply fetch_step_ws.
    - apply push_step_ws.
    - apply merge_step_ws.
    - apply pull_step_ws.
  Qed.

  Lemma run_ops_ws : forall g ia sk ops st,
    wsteps (lrefs st, rrefs st) (snd (run_ops g ia sk st ops))
           (lrefs (fst (run_ops g ia sk st ops)), rrefs (fst (run_ops g ia sk st ops))).
  Proof.
    intros g ia sk ops. induction ops as [|o ops IH]; intros st; simpl; [constructor|].
    pose proof (step_ws g ia sk st o) as W1. specialize (IH (r_state (step g ia sk st o))).
    destruct (run_ops g ia sk (r_state (step g ia sk st o)) ops) as [st' tr]. simpl in *.
    eapply wsteps_app; [exact W1|exact IH].
  Qed.

  (* ---- the abstract store as a map *)
  Lemma rget_notin : forall s n, ~ In n (map fst s) -> rget s n = None.
  Proof.
    induction s as [|[m [v lg]] s IH]; intros n Hn; simpl; [reflexivity|].
    destruct (beqb m n) eqn:E.
    - apply beqb_eq in E. subst. exfalso. apply Hn. now left.
    - apply IH. intros Hi. apply Hn. now right.
  Qed.

  Lemma rlogs_notin : forall s n, ~ In n (map fst s) -> rlogs s n = [].
  Proof.
    induction s as [|[m [v lg]] s IH]; intros n Hn; simpl; [reflexivity|].
    destruct (beqb m n) eqn:E.
    - apply beqb_eq in E. subst. exfalso. apply Hn. now left.
    - apply IH. intros Hi. apply Hn. now right.
  Qed.

  Lemma rdel_same : forall s n, NoDup (map fst s) -> rget (rdel s n) n = None /\ rlogs (rdel s n) n = [].
  Proof.
    induction s as [|[m e] s IH]; intros n Hnd; simpl; [now split|].
    inversion Hnd as [|? ? Hm Hnd']; subst. destruct (beqb m n) eqn:E.
    - apply beqb_eq in E. subst. split; [now apply rget_notin|now apply rlogs_notin].
    - destruct e as [v lg]. simpl. rewrite E. now apply IH.
  Qed.

  Lemma rdel_other : forall s n m, m <> n -> rget (rdel s n) m = rget s m /\ rlogs (rdel s n) m = rlogs s m.
  Proof.
    induction s as [|[k [v lg]] s IH]; intros n m Hne; simpl; [now split|].
    destruct (beqb k n) eqn:E.
    - apply beqb_eq in E. subst k. rewrite (beqb_neq n m) by congruence. now split.
    - simpl. destruct (beqb k m); [now split|]. now apply IH.
  Qed.

  Lemma rset_log_names : forall s n c act x, In x (map fst (rset_log s n c act)) -> x = n \/ In x (map fst s).
  Proof.
    induction s as [|[m [v lg]] s IH]; intros n c act x Hx; simpl in *.
    - destruct Hx as [<-|[]]. now left.
    - destruct (beqb m n); simpl in Hx.
      + right. exact Hx.
      + destruct Hx as [<-|Hx]; [right; now left|]. apply IH in Hx. destruct Hx; auto.
  Qed.

  Lemma rset_log_nodup : forall s n c act, NoDup (map fst s) -> NoDup (map fst (rset_log s n c act)).
  Proof.
    induction s as [|[m [v lg]] s IH]; intros n c act Hnd; simpl.
    - constructor; [intros []|constructor].
    - inversion Hnd as [|? ? Hm Hnd']; subst. destruct (beqb m n) eqn:E; simpl.
      + constructor; assumption.
      + constructor; [|now apply IH]. intros Hi. apply rset_log_names in Hi.
        destruct Hi as [->|Hi]; [|contradiction]. rewrite beqb_refl in E. discriminate.
  Qed.

  Lemma rdel_names : forall s n x, In x (map fst (rdel s n)) -> In x (map fst s).
  Proof.
    induction s as [|[m e] s IH]; intros n x Hx; simpl in *; [exact Hx|].
    destruct (beqb m n); simpl in *; [now right|]. destruct Hx as [<-|Hx]; [now left|right; eauto].
  Qed.

  Lemma rdel_nodup : forall s n, NoDup (map fst s) -> NoDup (map fst (rdel s n)).
  Proof.
    induction s as [|[m e] s IH]; intros n Hnd; simpl; [constructor|].
    inversion Hnd as [|? ? Hm Hnd']; subst. destruct (beqb m n); simpl; [exact Hnd'|].
    constructor; [|now apply IH]. intros Hi. apply rdel_names in Hi. contradiction.
  Qed.

  Lemma wsteps_nodup : forall p tr p', wsteps p tr p' ->
    NoDup (map fst (fst p)) -> NoDup (map fst (snd p)) ->
    NoDup (map fst (fst p')) /\ NoDup (map fst (snd p')).
  Proof.
    intros p tr p' W. induction W as [p|p t q tr q' Hs _ IH]; intros H1 H2; [now split|].
    destruct Hs; simpl in *; apply IH; simpl; auto using rset_log_nodup, rdel_nodup.
  Qed.
End WS.

(** * 2. One write on the map specification / on the SQL model *)
From W.model Require Import RefStore Like RefSql BridgeRefUpd.
From W.proofs Require Import RefLike_proofs RefStore_proofs RefSql_proofs.

Section Sql.
  Variable cv : RefUpdate.commit -> value.
  Variable mt : RefUpdate.trans -> meta.
  Notation entok := (ent_ok cv).
  Notation lops := (ops_of_trace cv mt RefUpdate.Local).
  Notation rops := (ops_of_trace cv mt RefUpdate.Remote).

  (** [URel] on the specification's state *)
  Definition URelS (s : RefUpdate.rstore) (a : sstate) : Prop :=
    forall n, m_get n (refs a) = option_map cv (RefUpdate.rget s n) /\
              Forall2 entok (logs a n) (RefUpdate.rlogs s n).

  Lemma URel_of : forall s a d, R a d -> URelS s a -> URel cv s d.
  Proof.
    intros s a d HR HU n. destruct (HU n) as [Hg Hl]. split; [now rewrite (R_cget _ _ _ HR)|].
    exists (logs a n). split; [apply (R_clog _ _ _ HR)|exact Hl].
  Qed.

  Lemma URelS_of : forall s a d, R a d -> URel cv s d -> URelS s a.
  Proof.
    intros s a d HR HU n. destruct (HU n) as [Hg [l [El Hl]]]. rewrite (R_cget _ _ _ HR) in Hg.
    rewrite (R_clog _ _ _ HR) in El. injection El as <-. now split.
  Qed.

  Lemma set_sim : forall s a n c act m, URelS s a ->
    URelS (RefUpdate.rset_log s n c act) (fst (sstep_op a (OSaveRef n (cv c) m))) /\
    snd (sstep_op a (OSaveRef n (cv c) m)) = ROk.
  Proof.
    intros s a n c act m HU. cbn [sstep_op sstep fst snd]. split; [|reflexivity].
    intros n'. cbn [refs logs]. rewrite m_get_set, fupd_eq. destruct (HU n') as [Hg Hl].
    destruct (beqb n n') eqn:E.
    - apply beqb_true in E. subst n'.
      rewrite RefUpdate_proofs.rset_log_get_same, RefUpdate_proofs.rset_log_logs_same.
      split; [reflexivity|]. constructor; [|exact Hl]. split; cbn; [exact Hg|reflexivity].
    - apply beqb_false in E.
      rewrite RefUpdate_proofs.rset_log_get_other, RefUpdate_proofs.rset_log_logs_other by congruence.
      now split.
  Qed.

  Lemma del_sim : forall s a n, NoDup (map fst s) -> URelS s a ->
    URelS (RefUpdate.rdel s n) (fst (sstep_op a (OP (PDelete n)))) /\
    snd (sstep_op a (OP (PDelete n))) = ROk.
  Proof.
    intros s a n Hnd HU. cbn [sstep_op sstep fst snd]. split; [|reflexivity].
    intros n'. cbn [refs logs]. rewrite m_get_del, fupd_eq. destruct (HU n') as [Hg Hl].
    destruct (beqb n n') eqn:E.
    - apply beqb_true in E. subst n'. destruct (WS.rdel_same s n Hnd) as [-> ->]. split; [reflexivity|constructor].
    - apply beqb_false in E. destruct (WS.rdel_other s n n') as [-> ->]; [congruence|]. now split.
  Qed.

  (** * 3. Histories *)
  Definition all_ok (l : list res) : Prop := Forall (fun r => r = ROk) l.

  Lemma ops_cons : forall sd t tr,
    ops_of_trace cv mt sd (t :: tr) =
    if on_side sd t then op_of_trans cv mt t :: ops_of_trace cv mt sd tr else ops_of_trace cv mt sd tr.
  Proof. intros sd t tr. unfold ops_of_trace. cbn [filter]. now destruct (on_side sd t). Qed.

  Lemma srun_cons : forall a o ops, srun a (o :: ops) = snd (sstep_op a o) :: srun (fst (sstep_op a o)) ops.
  Proof. intros a o ops. cbn [srun]. now destruct (sstep_op a o). Qed.

  Lemma wsteps_sim : forall p tr p', WS.wsteps p tr p' -> forall al ar,
    NoDup (map fst (fst p)) -> NoDup (map fst (snd p)) ->
    URelS (fst p) al -> URelS (snd p) ar ->
    URelS (fst p') (sreach al (lops tr)) /\ URelS (snd p') (sreach ar (rops tr)) /\
    all_ok (srun al (lops tr)) /\ all_ok (srun ar (rops tr)).
  Proof.
    intros p tr p' W. induction W as [p|p t q tr q' Hs _ IH]; intros al ar N1 N2 U1 U2.
    - unfold ops_of_trace. cbn [filter map sreach srun].
      split; [exact U1|]. split; [exact U2|]. split; constructor.
    - rewrite !ops_cons. destruct Hs as [l r n c act f|l r n c act f|l r n f]; cbn [on_side RefUpdate.t_side fst snd] in *.
      + destruct (set_sim l al n c act (mt (RefUpdate.mk_trans RefUpdate.Local n (RefUpdate.rget l n) (Some c) f)) U1)
          as [U1' Er].
        cbn [sreach]. rewrite srun_cons. unfold op_of_trans at 1 3. cbn [RefUpdate.t_new RefUpdate.t_name].
        destruct (IH _ ar (WS.rset_log_nodup l n c act N1) N2 U1' U2) as [A [B [C D]]].
        split; [exact A|]. split; [exact B|]. split; [|exact D]. constructor; [exact Er|exact C].
      + destruct (set_sim r ar n c act (mt (RefUpdate.mk_trans RefUpdate.Remote n (RefUpdate.rget r n) (Some c) f)) U2)
          as [U2' Er].
        cbn [sreach]. rewrite srun_cons. unfold op_of_trans at 1 3. cbn [RefUpdate.t_new RefUpdate.t_name].
        destruct (IH al _ N1 (WS.rset_log_nodup r n c act N2) U1 U2') as [A [B [C D]]].
        split; [exact A|]. split; [exact B|]. split; [exact C|]. constructor; [exact Er|exact D].
      + destruct (del_sim r ar n N2 U2) as [U2' Er].
        cbn [sreach]. rewrite srun_cons. unfold op_of_trans at 1 3. cbn [RefUpdate.t_new RefUpdate.t_name].
        destruct (IH al _ N1 (WS.rdel_nodup r n N2) U1 U2') as [A [B [C D]]].
        split; [exact A|]. split; [exact B|]. split; [exact C|]. constructor; [exact Er|exact D].
  Qed.

  (** the abstract reflog = the local moves of the trace *)
  Definition apair (e : RefUpdate.logent) : option RefUpdate.commit * RefUpdate.commit :=
    (RefUpdate.l_old e, RefUpdate.l_new e).
  Definition amove (t : RefUpdate.trans) : list (option RefUpdate.commit * RefUpdate.commit) :=
    match RefUpdate.t_new t with Some c => [(RefUpdate.t_old t, c)] | None => [] end.
  Definition encpair (x : option RefUpdate.commit * RefUpdate.commit) : option value * value :=
    (option_map cv (fst x), cv (snd x)).

  Lemma wsteps_moves : forall p tr p', WS.wsteps p tr p' -> forall n,
    map apair (RefUpdate.rlogs (fst p') n) =
    rev (flat_map amove (filter (local_on n) tr)) ++ map apair (RefUpdate.rlogs (fst p) n).
  Proof.
    intros p tr p' W n. induction W as [p|p t q tr q' Hs _ IH]; [reflexivity|].
    rewrite IH. clear IH. cbn [filter].
    destruct Hs as [l r n0 c act f|l r n0 c act f|l r n0 f]; cbn [fst snd].
    - assert (Hl : local_on n (RefUpdate.mk_trans RefUpdate.Local n0 (RefUpdate.rget l n0) (Some c) f) = beqb n0 n)
        by reflexivity.
      rewrite Hl. destruct (beqb n0 n) eqn:E.
      + apply RefUpdate_proofs.beqb_eq in E. subst n0.
        rewrite RefUpdate_proofs.rset_log_logs_same.
        cbn [flat_map amove RefUpdate.t_new RefUpdate.t_old app map apair RefUpdate.l_old RefUpdate.l_new rev].
        now rewrite <- app_assoc.
      + rewrite RefUpdate_proofs.rset_log_logs_other; [reflexivity|].
        intros ->. rewrite RefUpdate_proofs.beqb_refl in E. discriminate.
    - assert (Hl : local_on n (RefUpdate.mk_trans RefUpdate.Remote n0 (RefUpdate.rget r n0) (Some c) f) = false)
        by reflexivity.
      now rewrite Hl.
    - assert (Hl : local_on n (RefUpdate.mk_trans RefUpdate.Remote n0 (RefUpdate.rget r n0) None f) = false)
        by reflexivity.
      now rewrite Hl.
  Qed.

  Lemma entok_pairs : forall l tl, Forall2 entok l tl ->
    map (fun le => (le_old le, le_new le)) l = map encpair (map apair tl).
  Proof.
    intros l tl HF. induction HF as [|le e l tl [Ho Hn] _ IH]; [reflexivity|].
    cbn [map apair encpair fst snd]. now rewrite Ho, Hn, IH.
  Qed.

  Lemma encpair_moves : forall l, map encpair (flat_map amove l) = flat_map (move_of cv) l.
  Proof.
    induction l as [|t l IH]; [reflexivity|]. cbn [flat_map]. rewrite map_app, IH. f_equal.
    unfold amove, move_of. now destruct (RefUpdate.t_new t).
  Qed.

  Lemma URel_moves : forall s d n, URel cv s d ->
    sql_moves d n = map encpair (map apair (RefUpdate.rlogs s n)).
  Proof.
    intros s d n HU. destruct (HU n) as [_ [l [El Hl]]]. unfold sql_moves. rewrite El. cbn [fst].
    now apply entok_pairs.
  Qed.

  Section History.
    Variable fk : filter_kind.
    Hypothesis fk_ok : filter_ok fk = true.
    Variable g : RefUpdate.graph.
    Variable ia : RefUpdate.commit -> RefUpdate.commit -> bool.
    Variable sk : list RefUpdate.commit -> RefUpdate.seekres.
    Variable st : RefUpdate.state.
    Variable ops : list RefUpdate.op.
    Variables hl hr : list op.
    Hypothesis Nl : names_nodup (RefUpdate.lrefs st).
    Hypothesis Nr : names_nodup (RefUpdate.rrefs st).
    Hypothesis Ul : URel cv (RefUpdate.lrefs st) (creach fk cinit hl).
    Hypothesis Ur : URel cv (RefUpdate.rrefs st) (creach fk cinit hr).

    Let st' := fst (RefUpdate.run_ops g ia sk st ops).
    Let tr := snd (RefUpdate.run_ops g ia sk st ops).
    Let dl0 := creach fk cinit hl.
    Let dr0 := creach fk cinit hr.

    Theorem history_sql :
      URel cv (RefUpdate.lrefs st') (creach fk dl0 (lops tr)) /\
      URel cv (RefUpdate.rrefs st') (creach fk dr0 (rops tr)) /\
      all_ok (crun fk dl0 (lops tr)) /\ all_ok (crun fk dr0 (rops tr)).
    Proof.
      pose proof (reach_R fk fk_ok hl) as Rl. pose proof (reach_R fk fk_ok hr) as Rr.
      fold dl0 in Rl. fold dr0 in Rr.
      pose proof (URelS_of _ _ _ Rl Ul) as Sl. pose proof (URelS_of _ _ _ Rr Ur) as Sr.
      pose proof (WS.run_ops_ws g ia sk ops st) as W. fold st' tr in W.
      destruct (wsteps_sim _ _ _ W _ _ Nl Nr Sl Sr) as [A [B [C D]]]. cbn [fst snd] in A, B.
      destruct (run_sim fk fk_ok (lops tr) _ _ Rl) as [El Rl'].
      destruct (run_sim fk fk_ok (rops tr) _ _ Rr) as [Er Rr'].
      split; [eapply URel_of; eauto|]. split; [eapply URel_of; eauto|].
      split; [now rewrite El|now rewrite Er].
    Qed.

    (** the reflog entries the SQL store holds after the history = the local moves of the abstract
        history on that ref, newest first, on top of what it held before *)
    Theorem history_sql_moves : forall n,
      sql_moves (creach fk dl0 (lops tr)) n =
      rev (flat_map (move_of cv) (filter (local_on n) tr)) ++ sql_moves dl0 n.
    Proof.
      intros n. destruct history_sql as [A _].
      pose proof (WS.run_ops_ws g ia sk ops st) as W. fold st' tr in W.
      rewrite (URel_moves _ _ n A). change (sql_moves dl0 n) with (sql_moves (creach fk cinit hl) n).
      rewrite (URel_moves _ _ n Ul).
      pose proof (wsteps_moves _ _ _ W n) as Hm. cbn [fst] in Hm. rewrite Hm.
      now rewrite map_app, map_rev, encpair_moves.
    Qed.

    (** C10_log_true on the SQL store: every local update of the history is found, with its true old
        value, in the reflog that LogReader returns for its ref *)
    Theorem history_sql_logged : forall t c,
      In t tr -> RefUpdate.t_side t = RefUpdate.Local -> RefUpdate.t_new t = Some c ->
      In (option_map cv (RefUpdate.t_old t), cv c) (sql_moves (creach fk dl0 (lops tr)) (RefUpdate.t_name t)).
    Proof.
      intros t c Hin Hs Hn. rewrite history_sql_moves. apply in_or_app. left. apply in_rev.
      rewrite rev_involutive. apply in_flat_map. exists t. split.
      - apply filter_In. split; [exact Hin|]. unfold local_on, on_side. rewrite Hs. cbn. apply beqb_refl.
      - unfold move_of. rewrite Hn. now left.
    Qed.
  End History.
End Sql.

(** * 4. Initial stores, non-vacuity *)
Section Built.
  Variable cv : RefUpdate.commit -> value.
  Variable m0 : meta.

  (** RefUpdate.d_refs builds a store by one SaveRef (action 0) per listed ref; the same calls on the SQL
      store give a related database *)
  Definition built (l : list (name * RefUpdate.commit)) : RefUpdate.rstore :=
    fold_left (fun s e => RefUpdate.rset_log s (fst e) (snd e) RefUpdate.ACT_SETUP) l [].
  Definition built_ops (l : list (name * RefUpdate.commit)) : list op :=
    map (fun e => OSaveRef (fst e) (cv (snd e)) m0) l.

  Lemma built_gen : forall l s a, URelS cv s a -> NoDup (map fst s) ->
    URelS cv (fold_left (fun s e => RefUpdate.rset_log s (fst e) (snd e) RefUpdate.ACT_SETUP) l s)
          (sreach a (built_ops l)) /\
    NoDup (map fst (fold_left (fun s e => RefUpdate.rset_log s (fst e) (snd e) RefUpdate.ACT_SETUP) l s)).
  Proof.
    induction l as [|e l IH]; intros s a HU Hn; [now split|].
    cbn [fold_left built_ops map sreach]. apply IH.
    - apply (set_sim cv s a (fst e) (snd e) RefUpdate.ACT_SETUP m0 HU).
    - now apply WS.rset_log_nodup.
  Qed.

  Lemma built_rel : forall fk, filter_ok fk = true -> forall l,
    URel cv (built l) (creach fk cinit (built_ops l)) /\ names_nodup (built l).
  Proof.
    intros fk fk_ok l.
    destruct (built_gen l [] sinit) as [HU Hn].
    - intros n. split; [reflexivity|constructor].
    - constructor.
    - split; [|exact Hn]. eapply URel_of; [apply (reach_R fk fk_ok)|exact HU].
  Qed.
End Built.

(** C10's example history (fetch with a rejected and an accepted ref, push, merge commit, pull, push) with
    the ref writes made on two SQL stores: the reflog LogReader returns for heads/m after the history is
    the two local moves of the trace on heads/m (2 -> 1000 the merge, 1000 -> 1000 the pull), newest first,
    on top of the setup entry *)
Definition ex_cv (c : RefUpdate.commit) : value := [c].
Definition ex_mt (t : RefUpdate.trans) : meta := mk_meta [] [] [] [] None.
Definition ex_m0 : meta := mk_meta [] [] [] [] None.
Definition ex_l : list (name * RefUpdate.commit) :=
  [(RefUpdate_proofs.n_main, 2); (RefUpdate_proofs.n_om, 3)].
Definition ex_r : list (name * RefUpdate.commit) := [(RefUpdate_proofs.n_main, 3)].

Example ex_state_built :
  RefUpdate_proofs.ex_state = RefUpdate.mk_state (built ex_l) (built ex_r) [0; 1; 2; 3].
Proof. reflexivity. Qed.

Definition ex_trace : list RefUpdate.trans :=
  snd (RefUpdate.run_ops RefUpdate_proofs.ex_graph (RefUpdate.is_ancestor RefUpdate_proofs.ex_graph)
         (RefUpdate.seek_spec RefUpdate_proofs.ex_graph) RefUpdate_proofs.ex_state RefUpdate_proofs.ex_ops).

Example ex_sql_moves :
  sql_moves (creach FInstr (creach FInstr cinit (built_ops ex_cv ex_m0 ex_l))
                    (ops_of_trace ex_cv ex_mt RefUpdate.Local ex_trace)) RefUpdate_proofs.n_main
  = [(Some [1000], [1000]); (Some [2], [1000]); (None, [2])] /\
  rev (flat_map (move_of ex_cv) (filter (local_on RefUpdate_proofs.n_main) ex_trace))
  = [(Some [1000], [1000]); (Some [2], [1000])] /\
  length (ops_of_trace ex_cv ex_mt RefUpdate.Local ex_trace) = 2%nat /\
  length (ops_of_trace ex_cv ex_mt RefUpdate.Remote ex_trace) = 1%nat.
Proof. vm_compute. repeat split. Qed.

(** ... as the theorem says (its hypotheses discharged for this instance) *)
Example ex_history_sql_moves : forall n,
  sql_moves (creach FInstr (creach FInstr cinit (built_ops ex_cv ex_m0 ex_l))
                    (ops_of_trace ex_cv ex_mt RefUpdate.Local ex_trace)) n =
  rev (flat_map (move_of ex_cv) (filter (local_on n) ex_trace)) ++
  sql_moves (creach FInstr cinit (built_ops ex_cv ex_m0 ex_l)) n.
Proof.
  intros n.
  destruct (built_rel ex_cv ex_m0 FInstr eq_refl ex_l) as [Ul Nl].
  destruct (built_rel ex_cv ex_m0 FInstr eq_refl ex_r) as [Ur Nr].
  exact (history_sql_moves ex_cv ex_mt FInstr eq_refl RefUpdate_proofs.ex_graph
           (RefUpdate.is_ancestor RefUpdate_proofs.ex_graph) (RefUpdate.seek_spec RefUpdate_proofs.ex_graph)
           RefUpdate_proofs.ex_state RefUpdate_proofs.ex_ops
           (built_ops ex_cv ex_m0 ex_l) (built_ops ex_cv ex_m0 ex_r) Nl Nr Ul Ur n).
Qed.

(** * 5. With C10: every entry the history appends to a local reflog of the SQL store is a legal move *)
Theorem history_sql_forward : forall (cv : RefUpdate.commit -> value) (mt : RefUpdate.trans -> meta) fk,
  filter_ok fk = true ->
  forall g ia sk, RefUpdate_proofs.IsAncSound g ia -> RefUpdate_proofs.SeekSound g sk ->
  forall st ops hl hr,
  names_nodup (RefUpdate.lrefs st) -> names_nodup (RefUpdate.rrefs st) ->
  URel cv (RefUpdate.lrefs st) (creach fk cinit hl) -> URel cv (RefUpdate.rrefs st) (creach fk cinit hr) ->
  let tr := snd (RefUpdate.run_ops g ia sk st ops) in
  forall n, exists trn, trn = filter (local_on n) tr /\
    Forall (RefUpdate_proofs.trans_ok g) trn /\
    sql_moves (creach fk (creach fk cinit hl) (ops_of_trace cv mt RefUpdate.Local tr)) n =
    rev (flat_map (move_of cv) trn) ++ sql_moves (creach fk cinit hl) n.
Proof.
  intros cv mt fk fk_ok g ia sk Hia Hsk st ops hl hr Nl Nr Ul Ur tr n.
  exists (filter (local_on n) tr). split; [reflexivity|]. split.
  - pose proof (RefUpdate_proofs.forward_only_history g ia sk Hia Hsk st ops) as HF. fold tr in HF.
    apply Forall_forall. intros t Ht. apply filter_In in Ht. destruct Ht as [Ht _].
    rewrite Forall_forall in HF. now apply HF.
  - exact (history_sql_moves cv mt fk fk_ok g ia sk st ops hl hr Nl Nr Ul Ur n).
Qed.

(** ... and with B2 (C11's IsAncestorOf / SeekCommonAncestor over a closed store): no ancestry premise left *)
From W.model Require BridgeAncestor.
From W.proofs Require BridgeAncestor_proofs.

Theorem history_sql_forward_all : forall (cv : RefUpdate.commit -> value) (mt : RefUpdate.trans -> meta) fk,
  filter_ok fk = true ->
  forall tm g, BridgeAncestor.store_closed g ->
  forall st ops hl hr,
  names_nodup (RefUpdate.lrefs st) -> names_nodup (RefUpdate.rrefs st) ->
  URel cv (RefUpdate.lrefs st) (creach fk cinit hl) -> URel cv (RefUpdate.rrefs st) (creach fk cinit hr) ->
  let tr := snd (RefUpdate.run_ops g (BridgeAncestor.b_is_ancestor tm g) (BridgeAncestor.b_seek tm g) st ops) in
  forall n, exists trn, trn = filter (local_on n) tr /\
    Forall (RefUpdate_proofs.trans_ok g) trn /\
    sql_moves (creach fk (creach fk cinit hl) (ops_of_trace cv mt RefUpdate.Local tr)) n =
    rev (flat_map (move_of cv) trn) ++ sql_moves (creach fk cinit hl) n.
Proof.
  intros cv mt fk fk_ok tm g Hcl st ops hl hr Nl Nr Ul Ur tr n.
  exists (filter (local_on n) tr). split; [reflexivity|]. split.
  - pose proof (BridgeAncestor_proofs.compose_forward_only_all tm g Hcl st ops) as HF. fold tr in HF.
    apply Forall_forall. intros t Ht. apply filter_In in Ht. destruct Ht as [Ht _].
    rewrite Forall_forall in HF. now apply HF.
  - exact (history_sql_moves cv mt fk fk_ok g _ _ st ops hl hr Nl Nr Ul Ur n).
Qed.
