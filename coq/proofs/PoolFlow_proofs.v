(** C16 - the differ/merger dataflow: grouping the per-layer diff events by key gives the
    same records for every interleaving of the layers' event streams. *)
From W.lib Require Import Tree.
From W.model Require Import Pool PoolFlow.
From W.proofs Require Import PoolBase_proofs.
From Coq Require Import Arith Lia ZifyNat ZifyN ZifyBool Sorting.Permutation.
Local Open Scope nat_scope.

(* ---------------------------------------------------------------- per-key view of the map *)
Definition fresh (n : nat) (e : dev) : mrec := mk_mrec (d_pk e) (d_old e) (d_oldoff e) (repeat (None, 0%N) n).
Definition stepk (n : nat) (o : option mrec) (ie : nat * dev) : option mrec :=
  match o with
  | None => Some (set_other (fst ie) (snd ie) (fresh n (snd ie)))
  | Some r => Some (set_other (fst ie) (snd ie) r)
  end.
Definition keyis (k : N) (ie : nat * dev) : bool := (d_pk (snd ie) =? k)%N.

Lemma lookup_app k m1 m2 :
  lookup k (m1 ++ m2) = match lookup k m1 with Some r => Some r | None => lookup k m2 end.
Proof.
  unfold lookup. induction m1 as [|r m1 IH]; simpl; auto. destruct (m_pk r =? k)%N; auto.
Qed.

Lemma lookup_update k k0 f m :
  (forall r, m_pk (f r) = m_pk r) ->
  lookup k (update k0 f m) = if (k0 =? k)%N then option_map f (lookup k m) else lookup k m.
Proof.
  intros Hf. unfold lookup, update. induction m as [|r m IH]; simpl.
  - now destruct (k0 =? k)%N.
  - destruct (m_pk r =? k0)%N eqn:E0.
    + apply N.eqb_eq in E0. rewrite Hf. destruct (m_pk r =? k)%N eqn:E1.
      * apply N.eqb_eq in E1. assert (Ek : (k0 =? k)%N = true) by (apply N.eqb_eq; congruence).
        now rewrite Ek.
      * rewrite IH. reflexivity.
    + destruct (m_pk r =? k)%N eqn:E1.
      * apply N.eqb_eq in E1. assert (Ek : (k0 =? k)%N = false) by (apply N.eqb_neq; apply N.eqb_neq in E0; congruence).
        now rewrite Ek.
      * apply IH.
Qed.

Lemma lookup_pk k m r : lookup k m = Some r -> m_pk r = k.
Proof.
  unfold lookup. intros H. apply find_some in H as [_ H]. now apply N.eqb_eq in H.
Qed.

Lemma lookup_mstep n k m ie :
  lookup k (mstep n m ie) = if keyis k ie then stepk n (lookup k m) ie else lookup k m.
Proof.
  destruct ie as [i e]. unfold mstep, keyis. simpl.
  destruct (lookup (d_pk e) m) as [r0|] eqn:E0.
  - rewrite lookup_update by reflexivity.
    destruct (d_pk e =? k)%N eqn:Ek; auto. apply N.eqb_eq in Ek. subst k. rewrite E0. reflexivity.
  - rewrite lookup_app. destruct (d_pk e =? k)%N eqn:Ek.
    + apply N.eqb_eq in Ek. subst k. rewrite E0. unfold lookup; simpl. now rewrite N.eqb_refl.
    + destruct (lookup k m); auto. unfold lookup; simpl. now rewrite Ek.
Qed.

Lemma lookup_fold n k s m :
  lookup k (fold_left (mstep n) s m) = fold_left (stepk n) (filter (keyis k) s) (lookup k m).
Proof.
  revert m; induction s as [|ie s IH]; intros m; simpl; auto.
  rewrite IH, lookup_mstep. destruct (keyis k ie); reflexivity.
Qed.

(* ---------------------------------------------------------------- the Others slots *)
Definition slot := (option N * N)%type.
Definition dflt : slot := (None, 0%N).
Definition setf (o : list slot) (ie : nat * dev) : list slot :=
  set_nth (fst ie) (d_sum (snd ie), d_off (snd ie)) o.
Definition proj {A} (j : nat) (s : list (nat * A)) : list A :=
  map snd (filter (fun ie => Nat.eqb (fst ie) j) s).

Lemma fold_stepk_some n s r :
  fold_left (stepk n) s (Some r) =
  Some (mk_mrec (m_pk r) (m_base r) (m_baseoff r) (fold_left setf s (m_others r))).
Proof.
  revert r; induction s as [|ie s IH]; intros r; simpl.
  - now destruct r.
  - rewrite IH. reflexivity.
Qed.

Lemma nth_set_nth (o : list slot) i j v :
  nth j (set_nth i v o) dflt = if Nat.eqb i j && (j <? List.length o) then v else nth j o dflt.
Proof.
  revert i j; induction o as [|x o IH]; intros i j.
  - destruct i, j; simpl; auto; rewrite andb_false_r; auto.
  - destruct i, j; simpl; auto. rewrite IH. reflexivity.
Qed.

Definition last_opt {A} (l : list A) : option A := match rev l with [] => None | x :: _ => Some x end.
Lemma last_opt_cons {A} (x : A) l : last_opt (x :: l) = match last_opt l with Some y => Some y | None => Some x end.
Proof.
  unfold last_opt. simpl. destruct (rev l) eqn:E; simpl; auto.
Qed.

Lemma nth_fold_setf s : forall o j,
  nth j (fold_left setf s o) dflt =
  match last_opt (proj j s) with
  | Some e => if j <? List.length o then (d_sum e, d_off e) else nth j o dflt
  | None => nth j o dflt
  end.
Proof.
  induction s as [|[i e] s IH]; intros o j; simpl; auto.
  rewrite IH. unfold setf. simpl fst. simpl snd. rewrite set_nth_length.
  unfold proj. simpl. destruct (Nat.eqb i j) eqn:Eij; simpl.
  - fold (proj j s). rewrite last_opt_cons. rewrite nth_set_nth, Eij. simpl.
    destruct (last_opt (proj j s)); auto.
    destruct (j <? List.length o) eqn:El; auto.
  - fold (proj j s). rewrite nth_set_nth, Eij. simpl. reflexivity.
Qed.

Lemma fold_setf_length s o : List.length (fold_left setf s o) = List.length o.
Proof. revert o; induction s as [|ie s IH]; intros o; simpl; auto. rewrite IH. apply set_nth_length. Qed.

Lemma fold_setf_proj s1 s2 o :
  (forall j, proj j s1 = proj j s2) -> fold_left setf s1 o = fold_left setf s2 o.
Proof.
  intros H. apply nth_ext with (d := dflt) (d' := dflt).
  - now rewrite !fold_setf_length.
  - intros j _. rewrite !nth_fold_setf, H. reflexivity.
Qed.

(* ---------------------------------------------------------------- interleavings *)
Lemma nth_set_nth_list {A} (ls : list (list A)) i j tl :
  nth j (set_nth i tl ls) [] = if Nat.eqb i j && (j <? List.length ls) then tl else nth j ls [].
Proof.
  revert i j; induction ls as [|x ls IH]; intros i j.
  - destruct i, j; simpl; auto; rewrite andb_false_r; auto.
  - destruct i, j; simpl; auto. rewrite IH. reflexivity.
Qed.

Lemma interleave_proj {A} (ls : list (list A)) s j : interleave ls s -> proj j s = nth j ls [].
Proof.
  induction 1 as [ls Hn|ls i x tl s Hi _ IH].
  - unfold proj; simpl. revert j. induction Hn as [|l ls -> _ IH]; intros [|j]; simpl; auto.
  - unfold proj in *. simpl. rewrite nth_set_nth_list in IH.
    assert (Hlt : i < List.length ls) by (eapply nth_error_lt; eauto).
    destruct (Nat.eqb i j) eqn:Eij; simpl.
    + apply Nat.eqb_eq in Eij. subst j. rewrite IH.
      replace (i <? List.length ls) with true by (symmetry; apply Nat.ltb_lt; auto). simpl.
      erewrite nth_error_nth; eauto.
    + rewrite IH. reflexivity.
Qed.

Lemma filter_set_nth {A} (p : A -> bool) i tl (ls : list (list A)) :
  map (filter p) (set_nth i tl ls) = set_nth i (filter p tl) (map (filter p) ls).
Proof. revert i; induction ls as [|l ls IH]; intros [|i]; simpl; auto. now rewrite IH. Qed.

Lemma interleave_filter {A} (p : A -> bool) (ls : list (list A)) s :
  interleave ls s -> interleave (map (filter p) ls) (filter (fun ie => p (snd ie)) s).
Proof.
  induction 1 as [ls Hn|ls i x tl s Hi _ IH].
  - constructor. apply Forall_map. eapply Forall_impl; [|exact Hn]. now intros l ->.
  - simpl. rewrite filter_set_nth in IH. destruct (p x) eqn:Ep.
    + econstructor; eauto. rewrite nth_error_map, Hi. simpl. now rewrite Ep.
    + assert (E : set_nth i (filter p tl) (map (filter p) ls) = map (filter p) ls).
      { clear - Hi Ep. revert i Hi. induction ls as [|l ls IH]; intros [|i] Hi; simpl in *; try discriminate.
        - inversion Hi; subst. simpl. now rewrite Ep.
        - f_equal. now apply IH. }
      now rewrite E in IH.
Qed.

Lemma interleave_nil_iff {A} (ls : list (list A)) s :
  interleave ls s -> (s = [] <-> Forall (fun l => l = []) ls).
Proof.
  intros H. split.
  - intros ->. now inversion H.
  - intros Hn. inversion H as [|? i x tl s' Hi]; subst; auto.
    apply nth_error_In in Hi. rewrite Forall_forall in Hn. specialize (Hn _ Hi). discriminate.
Qed.

Lemma interleave_in {A} (ls : list (list A)) s i x :
  interleave ls s -> In (i, x) s -> exists l, In l ls /\ In x l.
Proof.
  induction 1 as [ls Hn|ls i0 x0 tl s Hi _ IH]; intros Hin; [destruct Hin|].
  destruct Hin as [E|Hin].
  - inversion E; subst. exists (x :: tl). split; [eapply nth_error_In; eauto|now left].
  - destruct (IH Hin) as (l & Hl & Hx).
    clear - Hl Hx Hi. revert i0 Hi Hl. induction ls as [|l0 ls IHl]; intros [|i0] Hi Hl; simpl in *; try discriminate.
    + inversion Hi; subst. destruct Hl as [<-|Hl]; [exists (x0 :: tl); split; auto; now right|eauto].
    + destruct Hl as [<-|Hl]; [eauto|]. destruct (IHl _ Hi Hl) as (l' & ? & ?). eauto.
Qed.

(* the single-threaded order is one of the interleavings *)
Lemma interleave_map_pair {A} (pre : list (list A)) (l : list A) (post : list (list A)) s :
  Forall (fun l => l = []) pre ->
  interleave (pre ++ [] :: post) s ->
  interleave (pre ++ l :: post) (map (pair (List.length pre)) l ++ s).
Proof.
  intros Hpre. revert s. induction l as [|x l IH]; intros s Hs; simpl; auto.
  econstructor.
  - rewrite nth_error_app2 by lia. rewrite Nat.sub_diag. reflexivity.
  - replace (set_nth (List.length pre) l (pre ++ (x :: l) :: post)) with (pre ++ l :: post); auto.
    clear. induction pre; simpl; auto. now f_equal.
Qed.

Lemma interleave_tag_from {A} (pre : list (list A)) (ls : list (list A)) :
  Forall (fun l => l = []) pre ->
  interleave (pre ++ ls) (tag_from (List.length pre) ls).
Proof.
  revert pre; induction ls as [|l ls IH]; intros pre Hpre; simpl.
  - constructor. now rewrite app_nil_r.
  - apply interleave_map_pair; auto.
    specialize (IH (pre ++ [[]])). rewrite app_length in IH. simpl in IH.
    rewrite Nat.add_1_r in IH. rewrite <- app_assoc in IH. simpl in IH. apply IH.
    apply Forall_app. split; auto.
Qed.

Lemma sequential_interleave {A} (ls : list (list A)) : interleave ls (sequential ls).
Proof. apply (interleave_tag_from [] ls). constructor. Qed.

(* ---------------------------------------------------------------- schedule independence *)
Section Flow.
  Variable ls : list (list dev).
  Hypothesis Hold : old_agree ls.
  Let n := List.length ls.

  Lemma group_lookup_eq s1 s2 k :
    interleave ls s1 -> interleave ls s2 -> lookup k (group n s1) = lookup k (group n s2).
  Proof.
    intros H1 H2. unfold group. rewrite !lookup_fold. simpl.
    set (p := fun e : dev => (d_pk e =? k)%N).
    assert (F1 : interleave (map (filter p) ls) (filter (keyis k) s1)) by (apply (interleave_filter p); auto).
    assert (F2 : interleave (map (filter p) ls) (filter (keyis k) s2)) by (apply (interleave_filter p); auto).
    assert (Hproj : forall j, proj j (filter (keyis k) s1) = proj j (filter (keyis k) s2))
      by (intros j; now rewrite (interleave_proj _ _ j F1), (interleave_proj _ _ j F2)).
    destruct (filter (keyis k) s1) as [|[i1 e1] r1] eqn:E1;
    destruct (filter (keyis k) s2) as [|[i2 e2] r2] eqn:E2; auto.
    - exfalso. pose proof (proj1 (interleave_nil_iff _ _ F1) eq_refl) as Hn.
      apply (interleave_nil_iff _ _ F2) in Hn. discriminate.
    - exfalso. pose proof (proj1 (interleave_nil_iff _ _ F2) eq_refl) as Hn.
      apply (interleave_nil_iff _ _ F1) in Hn. discriminate.
    - simpl. rewrite !fold_stepk_some. simpl.
      assert (K1 : d_pk e1 = k).
      { assert (Hin : In (i1, e1) (filter (keyis k) s1)) by (rewrite E1; now left).
        apply filter_In in Hin as [_ Hk]. now apply N.eqb_eq in Hk. }
      assert (K2 : d_pk e2 = k).
      { assert (Hin : In (i2, e2) (filter (keyis k) s2)) by (rewrite E2; now left).
        apply filter_In in Hin as [_ Hk]. now apply N.eqb_eq in Hk. }
      destruct (interleave_in _ _ i1 e1 F1 ltac:(now left)) as (l1 & Hl1 & He1).
      destruct (interleave_in _ _ i2 e2 F2 ltac:(now left)) as (l2 & Hl2 & He2).
      apply in_map_iff in Hl1 as (l1' & <- & Hl1). apply in_map_iff in Hl2 as (l2' & <- & Hl2).
      apply filter_In in He1 as [He1 _]. apply filter_In in He2 as [He2 _].
      destruct (Hold l1' l2' e1 e2 Hl1 Hl2 He1 He2 ltac:(congruence)) as [Ho Hoo].
      rewrite K1, K2, Ho, Hoo. do 2 f_equal.
      change (set_nth i1 (d_sum e1, d_off e1) (repeat (None, 0%N) n)) with (setf (repeat dflt n) (i1, e1)).
      change (set_nth i2 (d_sum e2, d_off e2) (repeat (None, 0%N) n)) with (setf (repeat dflt n) (i2, e2)).
      change (fold_left setf r1 (setf (repeat dflt n) (i1, e1))) with (fold_left setf ((i1, e1) :: r1) (repeat dflt n)).
      change (fold_left setf r2 (setf (repeat dflt n) (i2, e2))) with (fold_left setf ((i2, e2) :: r2) (repeat dflt n)).
      apply fold_setf_proj. exact Hproj.
  Qed.

  (* the map never holds two records for one key *)
  Lemma mstep_keys n0 m ie : NoDup (map m_pk m) -> NoDup (map m_pk (mstep n0 m ie)).
  Proof.
    destruct ie as [i e]. unfold mstep. intros Hn.
    destruct (lookup (d_pk e) m) eqn:E.
    - unfold update. rewrite map_map.
      replace (map (fun x => m_pk (if (m_pk x =? d_pk e)%N then set_other i e x else x)) m) with (map m_pk m); auto.
      apply map_ext. intros r. now destruct (m_pk r =? d_pk e)%N.
    - rewrite map_app. simpl.
      eapply Permutation_NoDup; [apply Permutation_cons_append|].
      constructor; auto. intros Hx. apply in_map_iff in Hx as (r & Hr & Hin).
      unfold lookup in E. eapply find_none in E; eauto. simpl in E. apply N.eqb_neq in E. congruence.
  Qed.

  Lemma group_keys n0 s : NoDup (map m_pk (group n0 s)).
  Proof.
    unfold group. assert (H : NoDup (map m_pk (@nil mrec))) by constructor.
    revert H. generalize (@nil mrec). induction s as [|ie s IH]; intros m Hm; simpl; auto.
    apply IH. now apply mstep_keys.
  Qed.

  Lemma lookup_in m r : NoDup (map m_pk m) -> In r m -> lookup (m_pk r) m = Some r.
  Proof.
    unfold lookup. induction m as [|x m IH]; intros Hn Hin; [destruct Hin|].
    simpl in *. inversion Hn; subst. destruct Hin as [->|Hin].
    - now rewrite N.eqb_refl.
    - destruct (m_pk x =? m_pk r)%N eqn:E; auto.
      apply N.eqb_eq in E. exfalso. apply H1. rewrite E. now apply in_map.
  Qed.

  Lemma lookup_some_in k m r : lookup k m = Some r -> In r m.
  Proof. unfold lookup. intros H. now apply find_some in H. Qed.

  Lemma nodup_keys_nodup m : NoDup (map m_pk m) -> NoDup m.
  Proof.
    induction m as [|x m IH]; intros H; [constructor|]. simpl in H. inversion H; subst.
    constructor; auto. intros Hin. apply H2. now apply in_map.
  Qed.

  (** the records built by mergeTables are the same set for every interleaving *)
  Theorem group_perm s1 s2 :
    interleave ls s1 -> interleave ls s2 -> Permutation (group n s1) (group n s2).
  Proof.
    intros H1 H2. apply NoDup_Permutation.
    - apply nodup_keys_nodup, group_keys.
    - apply nodup_keys_nodup, group_keys.
    - intros r. split; intros Hin.
      + apply (lookup_in _ _ (group_keys n s1)) in Hin.
        rewrite (group_lookup_eq s1 s2 _ H1 H2) in Hin. eapply lookup_some_in; eauto.
      + apply (lookup_in _ _ (group_keys n s2)) in Hin.
        rewrite <- (group_lookup_eq s1 s2 _ H1 H2) in Hin. eapply lookup_some_in; eauto.
  Qed.

  Lemma filter_perm {A} (f : A -> bool) l1 l2 : Permutation l1 l2 -> Permutation (filter f l1) (filter f l2).
  Proof.
    induction 1; simpl; auto.
    - destruct (f x); auto.
    - destruct (f x), (f y); auto. apply perm_swap.
    - etransitivity; eauto.
  Qed.

  (** hence so are the records handed to the resolver / emitted on the merge channel *)
  Theorem emitted_perm s1 s2 :
    interleave ls s1 -> interleave ls s2 -> Permutation (emitted (group n s1)) (emitted (group n s2)).
  Proof. intros. apply filter_perm. now apply group_perm. Qed.
End Flow.

(* ---------------------------------------------------------------- the differ's events *)
Definition old_of (base : table) (k : N) : option N * N :=
  match find_row k 0 base with Some (o, v) => (Some v, o) | None => (None, 0%N) end.

Lemma find_row_shift k off t :
  find_row k off t = option_map (fun p => ((fst p + off)%N, snd p)) (find_row k 0 t).
Proof.
  revert off; induction t as [|[k' v] t IH]; intros off; simpl; auto.
  destruct (k' =? k)%N; simpl; auto.
  rewrite (IH (off + 1)%N), (IH 1%N). destruct (find_row k 0 t) as [[o v']|]; simpl; auto.
  f_equal. f_equal. lia.
Qed.

Lemma diff1_old base other off e : In e (diff1 base off other) -> (d_old e, d_oldoff e) = old_of base (d_pk e).
Proof.
  revert off; induction other as [|[k v] t IH]; intros off Hin; [destruct Hin|].
  simpl in Hin. destruct Hin as [<-|Hin]; eauto.
  unfold old_of. destruct (find_row k 0 base) as [[bo bv]|] eqn:E; simpl; rewrite E; reflexivity.
Qed.

Lemma diff2_old other base0 : forall pre base,
  base0 = pre ++ base -> NoDup (map fst base0) ->
  forall e, In e (diff2 other (N.of_nat (List.length pre)) base) -> (d_old e, d_oldoff e) = old_of base0 (d_pk e).
Proof.
  intros pre base; revert pre; induction base as [|[k v] t IH]; intros pre E Hn e Hin; [destruct Hin|].
  simpl in Hin.
  assert (Hrest : forall e, In e (diff2 other (N.of_nat (List.length pre) + 1) t) ->
                    (d_old e, d_oldoff e) = old_of base0 (d_pk e)).
  { intros e0 H0. apply (IH (pre ++ [(k, v)])); auto.
    - now rewrite <- app_assoc.
    - rewrite app_length. simpl. replace (N.of_nat (List.length pre + 1)) with (N.of_nat (List.length pre) + 1)%N by lia. auto. }
  assert (Hhere : old_of base0 k = (Some v, N.of_nat (List.length pre))).
  { subst base0. unfold old_of. clear - Hn.
    assert (G : forall off, find_row k off (pre ++ (k, v) :: t) = Some ((N.of_nat (List.length pre) + off)%N, v)).
    { induction pre as [|[k' v'] pre IHp]; intros off; cbn [app find_row List.length].
      - rewrite N.eqb_refl. f_equal; f_equal; lia.
      - cbn [map app fst] in Hn. inversion Hn; subst. destruct (k' =? k)%N eqn:Ek.
        + apply N.eqb_eq in Ek. subst. exfalso. apply H1. rewrite map_app. apply in_or_app. right. now left.
        + rewrite IHp by auto. f_equal; f_equal; lia. }
    rewrite G. f_equal; f_equal; lia. }
  destruct (find_row k 0 other); auto.
  destruct Hin as [<-|Hin]; auto; simpl; now rewrite Hhere.
Qed.

Lemma diff_events_old base other e :
  NoDup (map fst base) -> In e (diff_events base other) -> (d_old e, d_oldoff e) = old_of base (d_pk e).
Proof.
  intros Hn Hin. unfold diff_events in Hin. apply in_app_or in Hin as [Hin|Hin].
  - eapply diff1_old; eauto.
  - apply (diff2_old other base [] base eq_refl Hn). exact Hin.
Qed.

(** the streams of the abstract differ satisfy the agreement assumption *)
Lemma diff_events_agree base layers :
  NoDup (map fst base) -> old_agree (map (diff_events base) layers).
Proof.
  intros Hn l1 l2 e1 e2 H1 H2 He1 He2 Hk.
  apply in_map_iff in H1 as (o1 & <- & _). apply in_map_iff in H2 as (o2 & <- & _).
  pose proof (diff_events_old _ _ _ Hn He1) as E1. pose proof (diff_events_old _ _ _ Hn He2) as E2.
  rewrite Hk in E1. rewrite <- E2 in E1. now inversion E1.
Qed.
