(** Bridge B2 (C11 -> C10), proofs: C10's premises [IsAncSound] / [SeekSound] discharged from C11's
    theorems for the transliterated ref.IsAncestorOf / ref.SeekCommonAncestor run on
    [to_graph tm g] (model/BridgeAncestor.v).  Statements: props/ComposeB2.v. *)
From Coq Require Import List NArith ZArith Bool Arith Lia Permutation.
From W.lib Require Import Tree Bytes.
From W.model Require Import RefUpdate.
From W.model Require Graph Queue Ancestor.
From W.model Require Import BridgeAncestor.
From W.proofs Require Import RefUpdate_proofs.
From W.proofs Require Graph_proofs Queue_proofs Ancestor_proofs.
Import ListNotations.
Local Open Scope N_scope.

(* ------------------------------------------------ the two graph representations agree *)

Lemma lookup_to_graph tm g x :
  (Graph.lookup (to_graph tm g) x = Some (tm x, parents g x) /\ stored g x) \/
  (Graph.lookup (to_graph tm g) x = None /\ ~ stored g x /\ parents g x = []).
Proof.
  unfold stored. induction g as [|[y ps] g IH]; simpl.
  - right. repeat split; auto.
  - rewrite (N.eqb_sym y x). destruct (N.eqb x y) eqn:E.
    + apply N.eqb_eq in E. subst y. left. split; [reflexivity|left; reflexivity].
    + apply N.eqb_neq in E. destruct IH as [[H1 H2]|[H1 [H2 H3]]].
      * left. split; [exact H1|right; exact H2].
      * right. split; [exact H1|]. split; [|exact H3].
        intros [H|H]; [apply E; symmetry; exact H|apply H2; exact H].
Qed.

Lemma lookup_stored tm g x : Graph.lookup (to_graph tm g) x <> None <-> stored g x.
Proof.
  destruct (lookup_to_graph tm g x) as [[H1 H2]|[H1 [H2 _]]]; rewrite H1; split; intros H.
  - exact H2.
  - discriminate.
  - exfalso. apply H. reflexivity.
  - contradiction.
Qed.

Lemma lookup_some_parents tm g x t ps :
  Graph.lookup (to_graph tm g) x = Some (t, ps) -> ps = parents g x /\ stored g x.
Proof.
  intros H. destruct (lookup_to_graph tm g x) as [[H1 H2]|[H1 _]]; rewrite H1 in H; [|discriminate].
  inversion H; subst. split; [reflexivity|exact H2].
Qed.

Lemma parents_of_to_graph tm g x : Graph.parents_of (to_graph tm g) x = parents g x.
Proof.
  unfold Graph.parents_of.
  destruct (lookup_to_graph tm g x) as [[H1 _]|[H1 [_ H3]]]; rewrite H1; [reflexivity|symmetry; exact H3].
Qed.

(** the abstraction is exact on ancestry: C11's reachability from [b] = C10's ancestor-or-self of [b] *)
Lemma reach_anc tm g a b : Graph.reach (to_graph tm g) [b] a <-> anc g a b.
Proof.
  split.
  - intros H. induction H as [x Hx|x y t ps Hx IH Hl Hy].
    + destruct Hx as [<-|[]]. apply anc_refl.
    + apply lookup_some_parents in Hl. destruct Hl as [-> _].
      eapply anc_trans; [apply anc_parent; exact Hy|exact IH].
  - intros H. induction H as [a|a p b Hin Hap IH].
    + apply Graph_proofs.reach_self.
    + eapply Graph_proofs.reach_trans; [|exact IH].
      eapply Graph_proofs.reach_parents_of; [apply Graph_proofs.reach_self|].
      rewrite parents_of_to_graph. exact Hin.
Qed.

Lemma closed_to_graph tm g : store_closed g -> Graph.closed (to_graph tm g).
Proof.
  intros Hc x t ps Hl p Hp. apply lookup_some_parents in Hl. destruct Hl as [-> Hs].
  apply lookup_stored. eapply Hc; eassumption.
Qed.

Lemma closed_of_to_graph tm g : Graph.closed (to_graph tm g) -> store_closed g.
Proof.
  intros Hc c p Hs Hp. apply (lookup_stored tm).
  destruct (lookup_to_graph tm g c) as [[H1 _]|[_ [H2 _]]]; [|contradiction].
  eapply Hc; eassumption.
Qed.

Lemma store_closedb_sound g : store_closedb g = true -> store_closed g.
Proof.
  unfold store_closedb, store_closed, stored. intros H c p Hc Hp.
  rewrite forallb_forall in H. apply in_map_iff in Hc. destruct Hc as [[c' ps] [E Hin]].
  simpl in E. subst c'. specialize (H _ Hin). simpl in H. rewrite forallb_forall in H.
  apply cmem_In. apply H. exact Hp.
Qed.

Lemma complete_stored tm g c : store_closed g -> stored g c -> Graph.complete (to_graph tm g) [c].
Proof.
  intros Hc Hs. apply Graph_proofs.closed_complete; [apply closed_to_graph; exact Hc|].
  intros r [<-|[]]. apply lookup_stored. exact Hs.
Qed.

(* ------------------------------------------------ C11's functions on an absent commit *)

Section AnyPlacement.
  Variable G : Graph.graph.
  Variable ins : Graph.id -> list Graph.id -> list Graph.id.
  Variable srt : list Graph.id -> list Graph.id.
  Hypothesis Hins : forall c q, Permutation (ins c q) (c :: q).
  Hypothesis Hsrt : forall l, Permutation (srt l) l.
  Hypothesis Hclosed : Graph.closed G.

  Lemma new_queue_absent b : Graph.lookup G b = None -> Queue.new_queue G srt [b] = Queue.Err.
  Proof. intros H. unfold Queue.new_queue. simpl. rewrite H. reflexivity. Qed.

  Lemma anc_true_absent_target c d : Graph.lookup G d = None -> Ancestor.anc_true G ins srt c d = false.
  Proof.
    intros H. unfold Ancestor.anc_true, Ancestor.is_ancestor_of.
    rewrite (new_queue_absent d H). reflexivity.
  Qed.

  Lemma present_complete d : Graph.lookup G d <> None -> Graph.complete G [d].
  Proof.
    intros H. apply Graph_proofs.closed_complete; [exact Hclosed|]. intros r [<-|[]]. exact H.
  Qed.

  (** a "yes" of IsAncestorOf is a reachability fact (C11_is_ancestor_correct; an absent target
      makes NewCommitsQueue fail) *)
  Lemma anc_true_reach c d : Ancestor.anc_true G ins srt c d = true -> Graph.reach G [d] c.
  Proof.
    intros H. destruct (Graph.lookup G d) eqn:E.
    - apply (Ancestor_proofs.anc_true_spec G ins srt Hins Hsrt c d); [|exact H].
      apply present_complete. rewrite E. discriminate.
    - rewrite (anc_true_absent_target c d E) in H. discriminate.
  Qed.

  Lemma anc_true_present c d : Ancestor.anc_true G ins srt c d = true -> Graph.lookup G c <> None.
  Proof.
    intros H. destruct (Graph.lookup G d) eqn:E.
    - eapply Graph_proofs.reach_closed_present; [exact Hclosed| |apply anc_true_reach; exact H].
      intros r [<-|[]]. rewrite E. discriminate.
    - rewrite (anc_true_absent_target c d E) in H. discriminate.
  Qed.

  Lemma pre_check_absent cs a :
    In a cs -> Graph.lookup G a = None -> Ancestor.pre_check G ins srt cs = None.
  Proof.
    intros Ha Hl. unfold Ancestor.pre_check.
    destruct (Nat.ltb 1 (length cs)) eqn:Elen; [|reflexivity].
    destruct (find _ _) as [[i c']|] eqn:Ef; [exfalso|reflexivity].
    apply find_some in Ef. destruct Ef as [Hic Hb].
    unfold Ancestor.is_base_at in Hb. rewrite forallb_forall in Hb.
    apply Ancestor_proofs.In_indexed in Hic.
    apply In_nth_error in Ha. destruct Ha as [k Hk].
    pose proof (Hb (k, a) (proj2 (Ancestor_proofs.In_indexed cs k a) Hk)) as Hka. simpl in Hka.
    rewrite (anc_true_absent_target c' a Hl), orb_false_r in Hka. apply Nat.eqb_eq in Hka. subst k.
    rewrite Hic in Hk. inversion Hk; subst c'. clear Hk.
    (* the absent input is the candidate itself: it would have to be popped from another input *)
    assert (Hother : exists j d, nth_error cs j = Some d /\ j <> i).
    { apply Nat.ltb_lt in Elen. destruct cs as [|x [|y r]]; simpl in Elen; try lia.
      destruct i as [|i]; [exists 1%nat, y|exists 0%nat, x]; split; try reflexivity; lia. }
    destruct Hother as [j [d [Hj Hne]]].
    pose proof (Hb (j, d) (proj2 (Ancestor_proofs.In_indexed cs j d) Hj)) as Hjd. simpl in Hjd.
    apply orb_true_iff in Hjd. destruct Hjd as [Hjd|Hjd].
    - apply Nat.eqb_eq in Hjd. apply Hne. symmetry. exact Hjd.
    - apply anc_true_present in Hjd. apply Hjd. exact Hl.
  Qed.

  Lemma init_walkers_absent cs a :
    In a cs -> Graph.lookup G a = None -> forall st, Ancestor.init_walkers G srt cs <> Queue.Ok st.
  Proof.
    intros Ha Hl. induction cs as [|c r IH]; [contradiction|]. intros st. simpl.
    destruct Ha as [->|Ha].
    - rewrite (new_queue_absent a Hl). discriminate.
    - destruct (Queue.new_queue G srt [c]); try discriminate.
      destruct (Ancestor.init_walkers G srt r) as [ws| |] eqn:E; try discriminate.
      exfalso. apply (IH Ha ws). reflexivity.
  Qed.

  (** SeekCommonAncestor with an absent input never returns a commit *)
  Lemma seek_absent cs a x :
    In a cs -> Graph.lookup G a = None ->
    Ancestor.seek_common_ancestor G ins srt cs <> Ancestor.SFound x.
  Proof.
    intros Ha Hl. unfold Ancestor.seek_common_ancestor.
    rewrite (pre_check_absent cs a Ha Hl).
    destruct (Ancestor.init_walkers G srt cs) as [st| |] eqn:E; try discriminate.
    exfalso. apply (init_walkers_absent cs a Ha Hl st). exact E.
  Qed.

  (** at most two inputs: a returned commit is reachable from every input
      (C11_base2_common for two present inputs) *)
  Lemma seek_le2_common cs x :
    (length cs <= 2)%nat -> Ancestor.seek_common_ancestor G ins srt cs = Ancestor.SFound x ->
    In x cs -> forall y, In y cs -> Graph.reach G [y] x.
  Proof.
    intros Hlen Hs Hx y Hy.
    destruct cs as [|a [|b [|c r]]]; [contradiction| | |simpl in Hlen; lia].
    - destruct Hx as [<-|[]]. destruct Hy as [<-|[]]. apply Graph_proofs.reach_self.
    - assert (Pa : Graph.lookup G a <> None).
      { intros E. apply (seek_absent [a; b] a x); [left; reflexivity|exact E|exact Hs]. }
      assert (Pb : Graph.lookup G b <> None).
      { intros E. apply (seek_absent [a; b] b x); [right; left; reflexivity|exact E|exact Hs]. }
      destruct (Ancestor_proofs.seek2_common G ins srt Hins Hsrt a b x
                  (present_complete a Pa) (present_complete b Pb) Hs) as [Ra Rb].
      destruct Hy as [<-|[<-|[]]]; assumption.
  Qed.
End AnyPlacement.

(* ------------------------------------------------ the discharged premises *)

(** IsAncSound from C11_is_ancestor_correct + C11_go_placement *)
Theorem b_is_ancestor_sound tm g : store_closed g -> IsAncSound g (b_is_ancestor tm g).
Proof.
  intros Hc a b H. unfold b_is_ancestor in H. apply (reach_anc tm).
  eapply anc_true_reach; [apply Queue_proofs.ins_time_perm|apply Queue_proofs.srt_time_perm| |exact H].
  apply closed_to_graph. exact Hc.
Qed.

(** the ancestry test is also complete between stored commits (not needed by C10) *)
Theorem b_is_ancestor_complete tm g a b :
  store_closed g -> stored g b -> anc g a b -> b_is_ancestor tm g a b = true.
Proof.
  intros Hc Hb H. unfold b_is_ancestor.
  apply (Ancestor_proofs.anc_true_spec (to_graph tm g) _ _
           (Queue_proofs.ins_time_perm (to_graph tm g)) (Queue_proofs.srt_time_perm (to_graph tm g))).
  - apply complete_stored; assumption.
  - apply reach_anc. exact H.
Qed.

(** SeekSound for calls with at most two inputs from C11_base2_common + C11_go_placement *)
Theorem b_seek_sound2 tm g : store_closed g -> SeekSoundUpTo 2 g (b_seek tm g).
Proof.
  intros Hc cs c Hlen H. unfold b_seek, Ancestor.t_seek in H.
  destruct (Ancestor.seek_common_ancestor _ _ _ cs) as [x| | | |] eqn:Es; try discriminate.
  destruct (cmem x cs) eqn:Em; [|discriminate]. inversion H; subst x. clear H.
  apply cmem_In in Em. split; [exact Em|]. intros y Hy. apply (reach_anc tm).
  eapply seek_le2_common; [apply Queue_proofs.ins_time_perm|apply Queue_proofs.srt_time_perm|
                            apply closed_to_graph; exact Hc|exact Hlen|exact Es|exact Em|exact Hy].
Qed.

(** the guarded oracle satisfies C10's premise as stated *)
Theorem b_seek_guard_sound tm g : store_closed g -> SeekSound g (b_seek_guard tm g).
Proof.
  intros Hc cs c H. unfold b_seek_guard in H. destruct (Nat.leb (length cs) 2) eqn:E.
  - apply Nat.leb_le in E. exact (b_seek_sound2 tm g Hc cs c E H).
  - exact (seek_spec_sound g cs c H).
Qed.

(** any number (> 1) of stored inputs: when some input is an ancestor-or-self of all the others, the merge
    base is reported as an input that is an ancestor-or-self of every input (C11_base_is_input) *)
Theorem b_seek_base_input tm g cs i c :
  store_closed g -> (1 < length cs)%nat -> (forall x, In x cs -> stored g x) ->
  nth_error cs i = Some c -> (forall j d, nth_error cs j = Some d -> j <> i -> anc g c d) ->
  exists c', b_seek tm g cs = SInput c' /\ In c' cs /\ forall x, In x cs -> anc g c' x.
Proof.
  intros Hc Hlen Hst Hi Hall.
  assert (Hp : forall c0, In c0 cs -> Graph.complete (to_graph tm g) [c0]).
  { intros c0 H0. apply complete_stored; [exact Hc|apply Hst; exact H0]. }
  assert (Hb : Graph.base_input (to_graph tm g) cs i c).
  { split; [exact Hi|]. intros j d Hj Hne. apply reach_anc. eapply Hall; eassumption. }
  destruct (Ancestor_proofs.seek_is_input (to_graph tm g) _ _
              (Queue_proofs.ins_time_perm (to_graph tm g)) (Queue_proofs.srt_time_perm (to_graph tm g))
              cs i c Hlen Hp Hb) as [i' [c' [Hs [Hi' Hall']]]].
  assert (Hin : In c' cs) by (eapply nth_error_In; exact Hi').
  exists c'. split; [|split; [exact Hin|]].
  - unfold b_seek, Ancestor.t_seek. rewrite Hs.
    rewrite (proj2 (cmem_In c' cs) Hin). reflexivity.
  - intros x Hx. apply In_nth_error in Hx. destruct Hx as [j Hj].
    destruct (Nat.eq_dec j i') as [E|Hne].
    + subst j. assert (Ex : Some x = Some c') by (transitivity (nth_error cs i'); [symmetry; exact Hj|exact Hi']).
      inversion Ex. apply anc_refl.
    + apply (reach_anc tm). eapply Hall'; eassumption.
Qed.

(** full-arity SeekSound is FALSE for C11's merge base: C11_base3_wrong_witness read through the bridge *)
Definition wit5 : graph := [(0, []); (1, [0]); (2, [0]); (3, [1]); (4, [3])].
Definition wit5_tm (c : N) : Z := (Z.of_N c + 10)%Z.

Lemma wit5_to_graph : to_graph wit5_tm wit5 = Ancestor_proofs.wit_g5.
Proof. vm_compute. reflexivity. Qed.

Theorem b_seek_sound3_refuted :
  ~ (forall tm g, store_closed g -> SeekSoundUpTo 3 g (b_seek tm g)).
Proof.
  intros H.
  destruct Ancestor_proofs.seek3_wrong_witness as (_ & _ & _ & _ & Hs & Hn).
  assert (Hc : store_closed wit5) by (apply store_closedb_sound; vm_compute; reflexivity).
  assert (E : b_seek wit5_tm wit5 [2; 1; 4] = SInput 1).
  { unfold b_seek. rewrite wit5_to_graph, Hs. reflexivity. }
  destruct (H wit5_tm wit5 Hc [2; 1; 4] 1 (le_n 3) E) as [_ Hall].
  apply Hn. rewrite <- wit5_to_graph. apply reach_anc. apply Hall. left. reflexivity.
Qed.

Theorem b_seek_sound_refuted : ~ (forall tm g, store_closed g -> SeekSound g (b_seek tm g)).
Proof.
  intros H. apply b_seek_sound3_refuted. intros tm g Hc cs c _ E. exact (H tm g Hc cs c E).
Qed.

(* ------------------------------------------------ histories whose merges have at most two inputs *)

Lemma merge_core_ext g sk sk' s bn cs mode m :
  sk cs = sk' cs -> merge_core g sk s bn cs mode m = merge_core g sk' s bn cs mode m.
Proof. intros H. unfold merge_core. rewrite H. reflexivity. Qed.

Lemma resolve_all_length s ns : forall cs, resolve_all s ns = Some cs -> length cs = length ns.
Proof.
  induction ns as [|n ns IH]; intros cs H; simpl in H.
  - inversion H. reflexivity.
  - destruct (resolve_commitish s n); [|discriminate].
    destruct (resolve_all s ns) as [cs'|]; [|discriminate].
    inversion H; subst. simpl. f_equal. apply IH. reflexivity.
Qed.

Lemma flat_map_le1 {A B} (f : A -> list B) (l : list A) :
  (forall a, (length (f a) <= 1)%nat) -> (length (flat_map f l) <= length l)%nat.
Proof.
  intros H. induction l as [|a l IH]; simpl; [lia|].
  rewrite app_length. specialize (H a). lia.
Qed.

Section Agree.
  Variable g : graph.
  Variable ia : commit -> commit -> bool.
  Variables sk sk' : list commit -> seekres.
  Hypothesis Hag : forall cs, (length cs <= 2)%nat -> sk cs = sk' cs.

  Lemma merge_step_ext st branch others mode m :
    (length others <= 1)%nat ->
    merge_step g sk st branch others mode m = merge_step g sk' st branch others mode m.
  Proof.
    intros Hlen. unfold merge_step.
    destruct (rget (lrefs st) (s_heads ++ branch)) as [b|]; [|reflexivity].
    destruct (resolve_all (lrefs st) others) as [cs|] eqn:Er; [|reflexivity].
    apply resolve_all_length in Er.
    rewrite (merge_core_ext g sk sk'); [reflexivity|]. apply Hag. simpl. lia.
  Qed.

  Lemma pull_gen_ext fixed st branch specs gf mode m :
    (length specs <= 1)%nat ->
    pull_step_gen fixed g ia sk st branch specs gf mode m =
    pull_step_gen fixed g ia sk' st branch specs gf mode m.
  Proof.
    intros Hlen. unfold pull_step_gen.
    set (rf := fetch_step g ia st specs gf).
    destruct (negb (r_outcome rf =? 0)); [reflexivity|].
    set (st1 := r_state rf).
    set (bn := s_heads ++ branch).
    set (newbranch := if fixed then _ else _).
    set (old := if newbranch then None else rget (lrefs st1) bn).
    match goal with |- context [flat_map ?f specs] => set (hf := f) end.
    assert (Hh : (length (flat_map hf specs) <= 1)%nat).
    { eapply Nat.le_trans; [apply flat_map_le1|exact Hlen].
      intros sp. unfold hf. destruct (rget (lrefs st1) (rs_dst sp)); [|simpl; lia].
      destruct (oeqb _ _); simpl; lia. }
    set (heads := flat_map hf specs) in *.
    destruct newbranch; [reflexivity|].
    destruct heads as [|h hs] eqn:Eh; [reflexivity|].
    destruct old as [b|]; [|reflexivity].
    destruct (resolve_all (lrefs st1) (map fst (h :: hs))) as [cs|] eqn:Er; [|reflexivity].
    apply resolve_all_length in Er. rewrite map_length in Er.
    rewrite (merge_core_ext g sk sk'); [reflexivity|]. apply Hag. simpl in *. lia.
  Qed.

  Lemma step_ext st o : op_arity2b o = true -> step g ia sk st o = step g ia sk' st o.
  Proof.
    intros H. destruct o as [specs gf|items gf dn dd|b os mode m|b specs gf mode m]; simpl in *.
    - reflexivity.
    - reflexivity.
    - apply merge_step_ext. apply Nat.leb_le. exact H.
    - apply pull_gen_ext. apply Nat.leb_le. exact H.
  Qed.

  Lemma run_ops_ext ops : forall st,
    forallb op_arity2b ops = true -> run_ops g ia sk st ops = run_ops g ia sk' st ops.
  Proof.
    induction ops as [|o rest IH]; intros st H; simpl in *; [reflexivity|].
    apply andb_true_iff in H. destruct H as [Ho Hr].
    rewrite (step_ext st o Ho). rewrite (IH _ Hr). reflexivity.
  Qed.
End Agree.

Lemma b_seek_guard_agree tm g cs : (length cs <= 2)%nat -> b_seek tm g cs = b_seek_guard tm g cs.
Proof. intros H. unfold b_seek_guard. apply Nat.leb_le in H. rewrite H. reflexivity. Qed.

(* ------------------------------------------------ C10's theorems with the premises discharged *)

(** forward-only over every history of operations whose merges have at most two inputs, the ancestry
    test and the merge base being C11's transliterated functions with the Go placement *)
Theorem compose_forward_only tm g :
  store_closed g -> forall st ops, forallb op_arity2b ops = true ->
  Forall (trans_ok g) (snd (run_ops g (b_is_ancestor tm g) (b_seek tm g) st ops)).
Proof.
  intros Hc st ops Ha.
  rewrite (run_ops_ext g (b_is_ancestor tm g) (b_seek tm g) (b_seek_guard tm g) (b_seek_guard_agree tm g) ops st Ha).
  apply forward_only_history; [apply b_is_ancestor_sound|apply b_seek_guard_sound]; exact Hc.
Qed.

(** histories of any operations with the guarded merge base (premises of C10_forward_only discharged verbatim) *)
Theorem compose_forward_only_guard tm g :
  store_closed g -> forall st ops,
  Forall (trans_ok g) (snd (run_ops g (b_is_ancestor tm g) (b_seek_guard tm g) st ops)).
Proof.
  intros Hc st ops.
  apply forward_only_history; [apply b_is_ancestor_sound|apply b_seek_guard_sound]; exact Hc.
Qed.

Theorem compose_log_true tm g :
  store_closed g -> forall st ops, forallb op_arity2b ops = true ->
  let r := run_ops g (b_is_ancestor tm g) (b_seek tm g) st ops in
  (LogFaithful (lrefs st) -> LogFaithful (lrefs (fst r))) /\
  (LogFaithful (rrefs st) -> LogFaithful (rrefs (fst r))) /\
  Forall (logged (lrefs (fst r))) (snd r).
Proof.
  intros Hc st ops Ha. cbv zeta.
  rewrite (run_ops_ext g (b_is_ancestor tm g) (b_seek tm g) (b_seek_guard tm g) (b_seek_guard_agree tm g) ops st Ha).
  apply log_true_history; [apply b_is_ancestor_sound|apply b_seek_guard_sound]; exact Hc.
Qed.

Theorem compose_fetch_ok tm g st specs gforce :
  store_closed g -> res_ok g st (fetch_step g (b_is_ancestor tm g) st specs gforce).
Proof. intros Hc. apply fetch_step_ok. apply b_is_ancestor_sound. exact Hc. Qed.

Theorem compose_push_ok tm g st items gf dn dd :
  store_closed g -> res_ok g st (push_step g (b_is_ancestor tm g) st items gf dn dd).
Proof. intros Hc. apply push_step_ok. apply b_is_ancestor_sound. exact Hc. Qed.

Theorem compose_merge_ok tm g st branch others mode m :
  store_closed g -> (length others <= 1)%nat ->
  res_ok g st (merge_step g (b_seek tm g) st branch others mode m).
Proof.
  intros Hc Hlen.
  rewrite (merge_step_ext g (b_seek tm g) (b_seek_guard tm g) (b_seek_guard_agree tm g) st branch others mode m Hlen).
  apply merge_step_ok. apply b_seek_guard_sound. exact Hc.
Qed.

Theorem compose_pull_ok tm g st branch specs gf mode m :
  store_closed g -> (length specs <= 1)%nat ->
  res_ok g st (pull_step g (b_is_ancestor tm g) (b_seek tm g) st branch specs gf mode m).
Proof.
  intros Hc Hlen. unfold pull_step.
  rewrite (pull_gen_ext g (b_is_ancestor tm g) (b_seek tm g) (b_seek_guard tm g) (b_seek_guard_agree tm g)
             true st branch specs gf mode m Hlen).
  apply pull_step_ok; [apply b_is_ancestor_sound|apply b_seek_guard_sound]; exact Hc.
Qed.

(* ------------------------------------------------ non-vacuity *)

(** reversed commit times (children older than their parents): the composed theorems do not depend on them *)
Definition ex_tm_rev (c : N) : Z := (2000 - Z.of_N c)%Z.
Definition ex_tm_topo (c : N) : Z := Z.of_N c.

(** RefUpdate_proofs' five-operation history (fetch, rejected push, merge creating a merge commit, pull,
    push) meets the hypotheses; run with C11's functions it makes the same three moves as with the
    specification oracles, the first one a non-forced move 2 -> 1000 *)
Example ex_compose_history :
  store_closedb ex_graph = true /\ forallb op_arity2b ex_ops = true /\
  snd (run_ops ex_graph (b_is_ancestor ex_tm_rev ex_graph) (b_seek ex_tm_rev ex_graph) ex_state ex_ops) =
  snd (run_ops ex_graph (is_ancestor ex_graph) (seek_spec ex_graph) ex_state ex_ops) /\
  snd (run_ops ex_graph (b_is_ancestor ex_tm_topo ex_graph) (b_seek ex_tm_topo ex_graph) ex_state ex_ops) =
  snd (run_ops ex_graph (is_ancestor ex_graph) (seek_spec ex_graph) ex_state ex_ops) /\
  length (snd (run_ops ex_graph (b_is_ancestor ex_tm_rev ex_graph) (b_seek ex_tm_rev ex_graph) ex_state ex_ops)) = 3%nat /\
  hd_error (snd (run_ops ex_graph (b_is_ancestor ex_tm_rev ex_graph) (b_seek ex_tm_rev ex_graph) ex_state ex_ops)) =
  Some (mk_trans Local n_main (Some 2) (Some 1000) false).
Proof. vm_compute. repeat split; reflexivity. Qed.

(** the discharged premises are not vacuous: the bridged functions answer "yes" / "input" on ex_graph,
    "no" where the specification says no, and errors (absent commit 7) are not a "yes" *)
Example ex_compose_oracles :
  b_is_ancestor ex_tm_rev ex_graph 0 1000 = true /\ b_is_ancestor ex_tm_rev ex_graph 2 3 = false /\
  b_is_ancestor ex_tm_rev ex_graph 7 7 = false /\
  b_seek ex_tm_rev ex_graph [1; 1000] = SInput 1 /\ b_seek ex_tm_rev ex_graph [3; 1] = SInput 1 /\
  b_seek ex_tm_rev ex_graph [2; 3] = SOther /\ b_seek ex_tm_rev ex_graph [2; 7] = SNone /\
  b_seek ex_tm_rev ex_graph [1; 2; 3] = SInput 1 /\
  (* the C11 finding through the bridge: three inputs, an input that is not a common ancestor *)
  b_seek wit5_tm wit5 [2; 1; 4] = SInput 1 /\ is_ancestor wit5 1 2 = false.
Proof. vm_compute. repeat split; reflexivity. Qed.

Example ex_compose_single_ops :
  store_closedb ex_graph = true /\
  length (r_trace (merge_step ex_graph (b_seek ex_tm_rev ex_graph) ex_state [109] [n_om] MFF 1000)) = 1%nat /\
  length (r_trace (pull_step ex_graph (b_is_ancestor ex_tm_rev ex_graph) (b_seek ex_tm_rev ex_graph) ex_state
                     [109] [mk_spec false false n_main n_om] false MFF 1000)) = 1%nat /\
  r_nrej (fetch_step ex_graph (b_is_ancestor ex_tm_rev ex_graph) ex_state
            [mk_spec false false n_main (s_heads ++ [109])] false) = 1%nat /\
  r_nrej (push_step ex_graph (b_is_ancestor ex_tm_rev ex_graph) ex_state
            [mk_pitem false (Some n_main) n_main] false false false) = 1%nat.
Proof. vm_compute. repeat split; reflexivity. Qed.

(** outside the proved range: the three-input merge of C11's witness (base 1 reported although 1 is not an
    ancestor of the branch value 2) still makes a legal move - the wrongly dropped input is not the branch.
    The arity restriction of [compose_forward_only] is what C11's theorems can justify, not a refutation. *)
Definition wit5m : graph := wit5 ++ [(1000, [2; 4])].
Definition n_w1 : name := s_heads ++ [97].
Definition n_w4 : name := s_heads ++ [98].
Definition wit5_state : state :=
  mk_state (rset_log (rset_log (rset_log [] n_main 2 ACT_SETUP) n_w1 1 ACT_SETUP) n_w4 4 ACT_SETUP)
           [] [0; 1; 2; 3; 4].

Example ex_arity3_still_forward :
  store_closedb wit5m = true /\ b_seek wit5_tm wit5m [2; 1; 4] = SInput 1 /\ is_ancestor wit5m 1 2 = false /\
  r_trace (merge_step wit5m (b_seek wit5_tm wit5m) wit5_state [109] [n_w1; n_w4] MFF 1000) =
    [mk_trans Local n_main (Some 2) (Some 1000) false] /\
  is_ancestor wit5m 2 1000 = true.
Proof. vm_compute. repeat split; reflexivity. Qed.

(* ################################################################## *)
(** * Extension: every arity.  C10's forward-only needs less of the merge base than [SeekSound]; the weaker
      [SeekWeak] (model/BridgeAncestor.v) is proved of C11's SeekCommonAncestor for any number of inputs by a
      new invariant of its main loop, and C10's merge / pull / history theorems are re-proved under it. *)
Local Open Scope nat_scope.

(* ================================================================== *)
(** * the deletion loops of SeekCommonAncestor on tagged elements *)

Section ElimMap.
  Variables (A B : Type) (f : A -> B).
  Variable firesA : A -> A -> bool.
  Variable firesB : B -> B -> bool.
  Variable dA : A.
  Variable dB : B.
  Hypothesis Hf : forall a b, firesB (f a) (f b) = firesA a b.
  Hypothesis Hd : f dA = dB.

  Lemma remove_nth_map j st :
    Ancestor.remove_nth B j (map f st) = map f (Ancestor.remove_nth A j st).
  Proof. unfold Ancestor.remove_nth. rewrite map_app, firstn_map, skipn_map. reflexivity. Qed.

  Lemma nth_map_d i st : nth i (map f st) dB = f (nth i st dA).
  Proof. rewrite <- Hd. apply map_nth. Qed.

  Lemma elim_inner_map : forall jj i st,
    Ancestor.elim_inner B firesB dB jj i (map f st) =
    (fst (Ancestor.elim_inner A firesA dA jj i st),
     map f (snd (Ancestor.elim_inner A firesA dA jj i st))).
  Proof.
    induction jj as [|j IH]; intros i st; simpl; [reflexivity|].
    destruct (Nat.eqb i j); [apply IH|].
    rewrite !nth_map_d, Hf.
    destruct (firesA (nth i st dA) (nth j st dA)).
    - rewrite remove_nth_map. apply IH.
    - apply IH.
  Qed.

  Lemma elim_outer_map : forall fuel ii st,
    Ancestor.elim_outer B firesB dB fuel ii (map f st) =
    map f (Ancestor.elim_outer A firesA dA fuel ii st).
  Proof.
    induction fuel as [|fu IH]; intros ii st; simpl; [reflexivity|].
    destruct ii as [|i]; [reflexivity|].
    rewrite map_length, elim_inner_map.
    destruct (Ancestor.elim_inner A firesA dA (length st) i st) as [i' st']. simpl. apply IH.
  Qed.

  Lemma elim_map st :
    Ancestor.elim B firesB dB (map f st) = map f (Ancestor.elim A firesA dA st).
  Proof. unfold Ancestor.elim. rewrite map_length. apply elim_outer_map. Qed.
End ElimMap.

Lemma subseq_map {A B} (f : A -> B) (l1 l2 : list A) :
  Ancestor_proofs.subseq l1 l2 -> Ancestor_proofs.subseq (map f l1) (map f l2).
Proof. intros H. induction H; simpl; constructor; assumption. Qed.

Lemma subseq_NoDup {A} (l1 l2 : list A) :
  Ancestor_proofs.subseq l1 l2 -> NoDup l2 -> NoDup l1.
Proof.
  intros H. induction H as [|x l1 l2 H IH|x l1 l2 H IH]; intros Hn.
  - constructor.
  - inversion Hn; subst. constructor; [|apply IH; assumption].
    intros Hx. apply H2. eapply Ancestor_proofs.subseq_In; eassumption.
  - inversion Hn; subst. apply IH. assumption.
Qed.

Section ElimKey.
  Variables (A K : Type) (fires : A -> A -> bool) (d : A) (key : A -> K).
  Notation keepf := (Ancestor_proofs.keepf A fires).
  Notation elim_outer := (Ancestor.elim_outer A fires d).

  Lemma elim_outer_0 fuel st : elim_outer fuel 0 st = st.
  Proof. destruct fuel; reflexivity. Qed.

  Lemma keepf_keep e l w : In w l -> fires e w = false -> In w (keepf e l).
  Proof.
    intros H1 H2. unfold Ancestor_proofs.keepf. apply filter_In. split; [exact H1|].
    rewrite H2. reflexivity.
  Qed.

  Lemma keepf_nil_fires e l w : keepf e l = [] -> In w l -> fires e w = true.
  Proof.
    intros H Hw. destruct (fires e w) eqn:E; [reflexivity|].
    pose proof (keepf_keep e l w Hw E) as H'. rewrite H in H'. contradiction.
  Qed.

  Lemma keepf_len e l : length (keepf e l) <= length l.
  Proof.
    apply Ancestor_proofs.subseq_length. unfold Ancestor_proofs.keepf. apply Ancestor_proofs.subseq_filter.
  Qed.

  Lemma step_subseq e t done :
    Ancestor_proofs.subseq (keepf e t ++ e :: keepf e done) (t ++ e :: done).
  Proof.
    apply Ancestor_proofs.subseq_app; [apply Ancestor_proofs.subseq_filter|].
    apply Ancestor_proofs.sub_keep. apply Ancestor_proofs.subseq_filter.
  Qed.

  (** every element is represented in the result by an element with the same key, when an element only
      deletes elements of its own key *)
  Lemma outer_cover : forall fuel todo done,
    length todo <= fuel ->
    (forall a b, In a (todo ++ done) -> In b (todo ++ done) -> fires a b = true -> key a = key b) ->
    forall w, In w (todo ++ done) ->
    exists e, In e (elim_outer fuel (length todo) (todo ++ done)) /\ key e = key w.
  Proof.
    induction fuel as [|fuel IH]; intros todo done Hlen Hk w Hw.
    - destruct todo; [|simpl in Hlen; lia]. simpl. exists w. split; [exact Hw|reflexivity].
    - destruct (Ancestor_proofs.exists_last_or_nil _ todo) as [->|[t [e ->]]].
      + simpl. exists w. split; [exact Hw|reflexivity].
      + rewrite app_length in *. simpl length in *. rewrite Nat.add_1_r in *.
        rewrite <- app_assoc in *. simpl app in *. rewrite Ancestor_proofs.outer_step.
        assert (Hlen' : length (keepf e t) <= fuel) by (pose proof (keepf_len e t); lia).
        assert (Hk' : forall a b, In a (keepf e t ++ e :: keepf e done) ->
                                  In b (keepf e t ++ e :: keepf e done) -> fires a b = true -> key a = key b).
        { intros a b Ha Hb. apply Hk; (eapply Ancestor_proofs.subseq_In; [apply step_subseq|eassumption]). }
        assert (HeL : In e (t ++ e :: done)) by (apply in_or_app; right; left; reflexivity).
        assert (He : In e (keepf e t ++ e :: keepf e done)) by (apply in_or_app; right; left; reflexivity).
        destruct (fires e w) eqn:Ef.
        * destruct (IH (keepf e t) (e :: keepf e done) Hlen' Hk' e He) as [e' [He' Hke]].
          exists e'. split; [exact He'|]. rewrite Hke. apply Hk; assumption.
        * apply (IH (keepf e t) (e :: keepf e done) Hlen' Hk' w).
          apply in_app_or in Hw. destruct Hw as [Hw|[Hw|Hw]].
          -- apply in_or_app. left. apply keepf_keep; assumption.
          -- subst w. exact He.
          -- apply in_or_app. right. right. apply keepf_keep; assumption.
  Qed.

  (** when a single element is left out of at least two with distinct keys, it has deleted an element of
      another key (the last deletion is made by the survivor) *)
  Lemma outer_last : forall fuel todo done,
    length todo <= fuel -> NoDup (map key (todo ++ done)) ->
    forall s, elim_outer fuel (length todo) (todo ++ done) = [s] ->
    2 <= length (todo ++ done) ->
    exists w, In w (todo ++ done) /\ key w <> key s /\ fires s w = true.
  Proof.
    induction fuel as [|fuel IH]; intros todo done Hlen Hnd s Hs H2.
    - destruct todo; [|simpl in Hlen; lia]. simpl in *. rewrite Hs in H2. simpl in H2. lia.
    - destruct (Ancestor_proofs.exists_last_or_nil _ todo) as [->|[t [e ->]]].
      + simpl in *. rewrite Hs in H2. simpl in H2. lia.
      + rewrite app_length in *. simpl length in *. rewrite Nat.add_1_r in *.
        rewrite <- app_assoc in *. simpl app in *. rewrite Ancestor_proofs.outer_step in Hs.
        assert (Hlen' : length (keepf e t) <= fuel) by (pose proof (keepf_len e t); lia).
        pose proof (step_subseq e t done) as Hsub.
        assert (Hnd' : NoDup (map key (keepf e t ++ e :: keepf e done))).
        { eapply subseq_NoDup; [apply subseq_map; exact Hsub|exact Hnd]. }
        destruct (le_lt_dec 2 (length (keepf e t ++ e :: keepf e done))) as [Hge|Hlt].
        * destruct (IH (keepf e t) (e :: keepf e done) Hlen' Hnd' s Hs Hge) as [w [Hw [Hkw Hf]]].
          exists w. split; [|split; assumption]. eapply Ancestor_proofs.subseq_In; eassumption.
        * rewrite app_length in Hlt. simpl in Hlt.
          destruct (keepf e t) as [|? ?] eqn:Et; [|simpl in Hlt; lia].
          destruct (keepf e done) as [|? ?] eqn:Ed; [|simpl in Hlt; lia].
          simpl in Hs. rewrite elim_outer_0 in Hs. inversion Hs; subst s.
          assert (Hex : exists w, In w (t ++ done)).
          { destruct t as [|w t']; [|exists w; left; reflexivity].
            destruct done as [|w done']; [simpl in H2; lia|exists w; left; reflexivity]. }
          destruct Hex as [w Hw]. exists w. split; [|split].
          -- apply in_app_or in Hw. apply in_or_app. destruct Hw; [left|right; right]; assumption.
          -- rewrite map_app in Hnd. simpl in Hnd. apply NoDup_remove_2 in Hnd.
             intros E. apply Hnd. rewrite <- E, <- map_app. apply in_map. exact Hw.
          -- apply in_app_or in Hw. destruct Hw as [Hw|Hw];
               [exact (keepf_nil_fires e t w Et Hw)|exact (keepf_nil_fires e done w Ed Hw)].
  Qed.
End ElimKey.

(* ================================================================== *)
(** * SeekCommonAncestor, any number of inputs: the returned commit is reachable from an input other than
      itself, unless all inputs are that commit *)

Lemma map_fst_combine {A B} : forall (l1 : list A) (l2 : list B),
  length l1 = length l2 -> map fst (combine l1 l2) = l1.
Proof.
  induction l1 as [|a l1 IH]; intros [|b l2] H; simpl in *; try discriminate; [reflexivity|].
  f_equal. apply IH. lia.
Qed.

Lemma map_snd_combine {A B} : forall (l1 : list A) (l2 : list B),
  length l1 = length l2 -> map snd (combine l1 l2) = l2.
Proof.
  induction l1 as [|a l1 IH]; intros [|b l2] H; simpl in *; try discriminate; [reflexivity|].
  f_equal. apply IH. lia.
Qed.

Section SeekWeakSec.
  Variable G : Graph.graph.
  Variable ins : Graph.id -> list Graph.id -> list Graph.id.
  Variable srt : list Graph.id -> list Graph.id.
  Hypothesis Hins : forall c q, Permutation (ins c q) (c :: q).
  Hypothesis Hsrt : forall l, Permutation (srt l) l.
  Variable cs : list Graph.id.
  Hypothesis Hp : forall c, In c cs -> Graph.complete G [c].

  (** walkers tagged with the input they started from *)
  Definition tw : Type := (Graph.id * Ancestor.walker)%type.
  Definition tfires (a b : tw) : bool := Ancestor.w_fires (snd a) (snd b).
  Definition td : tw := (0%N, Ancestor.w_dummy).

  Definition t_ok (p : tw) : Prop := In (fst p) cs /\ Ancestor_proofs.w_inv G (fst p) (snd p).
  Definition t_fresh (p : tw) : Prop :=
    Ancestor.w_base (snd p) = Some (fst p) /\
    forall x, In x (Queue.q_seen (Ancestor.w_q (snd p))) <-> x = fst p.

  Definition sgoal (x : Graph.id) : Prop :=
    (forall y, In y cs -> y = x) \/ exists y, In y cs /\ y <> x /\ Graph.reach G [y] x.

  (** loop invariant: first round = the freshly built walkers of all inputs; later rounds = at least two
      walkers that started from pairwise different commits *)
  Definition Jinv (tst : list tw) : Prop :=
    Forall t_ok tst /\
    ((map fst tst = cs /\ Forall t_fresh tst) \/ (NoDup (map fst tst) /\ 2 <= length tst)).

  Lemma elim_t tst :
    Ancestor.elim Ancestor.walker Ancestor.w_fires Ancestor.w_dummy (map snd tst) =
    map snd (Ancestor.elim tw tfires td tst).
  Proof. apply elim_map; reflexivity. Qed.

  Lemma fresh_fires a b : t_fresh b -> tfires a b = true -> Ancestor.w_base (snd a) = Some (fst b).
  Proof.
    intros [_ Hs] Hf. unfold tfires, Ancestor.w_fires in Hf.
    destruct (Ancestor.w_base (snd a)) as [x|]; [|discriminate].
    unfold Queue.seen in Hf. apply Graph_proofs.mem_In in Hf. apply Hs in Hf. subst. reflexivity.
  Qed.

  Lemma fresh_nofire_nodup : forall l,
    Forall t_fresh l -> ForallOrdPairs (Ancestor_proofs.nofire2 tw tfires) l -> NoDup (map fst l).
  Proof.
    induction l as [|a l IH]; intros Hfr Hnf; simpl; [constructor|].
    inversion Hfr as [|? ? Ha Hl]; subst. inversion Hnf as [|? ? Hal Hll]; subst.
    constructor; [|apply IH; assumption].
    intros Hin. apply in_map_iff in Hin. destruct Hin as [b [Eb Hb]].
    rewrite Forall_forall in Hal, Hl. destruct (Hal b Hb) as [Hab _].
    destruct (Hl b Hb) as [_ Hsb]. destruct Ha as [Hba _].
    unfold tfires, Ancestor.w_fires in Hab. rewrite Hba in Hab.
    unfold Queue.seen in Hab. apply Graph_proofs.mem_false in Hab. apply Hab. apply Hsb. symmetry. exact Eb.
  Qed.

  Lemma ret_case tst p x :
    Jinv tst -> Ancestor.elim tw tfires td tst = [p] -> Ancestor.w_base (snd p) = Some x -> sgoal x.
  Proof.
    intros [Hok Hcase] He Hx.
    destruct (Ancestor_proofs.elim_spec tw tfires td tst) as [Hsub _].
    rewrite He in Hsub.
    assert (Hpin : In p tst) by (eapply Ancestor_proofs.subseq_In; [exact Hsub|left; reflexivity]).
    rewrite Forall_forall in Hok. destruct (Hok p Hpin) as [Hpcs Hpinv].
    destruct Hcase as [[Hcs Hfr]|[Hnd Hlen]].
    - left. intros y Hy. rewrite <- Hcs in Hy. apply in_map_iff in Hy. destruct Hy as [q [Eq Hq]].
      rewrite Forall_forall in Hfr.
      destruct (outer_cover tw Graph.id tfires td fst (length tst) tst [] (le_n _)) with (w := q)
        as [e [Hein Hke]].
      + rewrite app_nil_r. intros a b Ha Hb Hf. pose proof (fresh_fires a b (Hfr b Hb) Hf) as E.
        destruct (Hfr a Ha) as [Ea _]. rewrite Ea in E. inversion E. reflexivity.
      + rewrite app_nil_r. exact Hq.
      + rewrite app_nil_r in Hein. unfold Ancestor.elim in He. rewrite He in Hein.
        destruct Hein as [<-|[]]. destruct (Hfr p Hpin) as [Ep _]. rewrite Ep in Hx. inversion Hx; subst x.
        rewrite <- Eq. symmetry. exact Hke.
    - assert (Rp : Graph.reach G [fst p] x) by (eapply Ancestor_proofs.w_inv_reach; eassumption).
      destruct (outer_last tw Graph.id tfires td fst (length tst) tst [] (le_n _)) with (s := p)
        as [w [Hw [Hkw Hf]]].
      + rewrite app_nil_r. exact Hnd.
      + rewrite app_nil_r. exact He.
      + rewrite app_nil_r. exact Hlen.
      + rewrite app_nil_r in Hw. destruct (Hok w Hw) as [Hwcs Hwinv].
        assert (Rw : Graph.reach G [fst w] x) by (eapply Ancestor_proofs.fires_reach; eassumption).
        right. destruct (N.eq_dec (fst p) x) as [E|E].
        * exists (fst w). split; [exact Hwcs|]. split; [|exact Rw]. intros E'. apply Hkw. rewrite E', E. reflexivity.
        * exists (fst p). split; [exact Hpcs|]. split; [exact E|exact Rp].
  Qed.

  Lemma steps_ok_t : forall (tst1 : list tw) st2,
    Forall t_ok tst1 -> Forall2 (Ancestor_proofs.w_step G ins) (map snd tst1) st2 ->
    Forall t_ok (combine (map fst tst1) st2).
  Proof.
    induction tst1 as [|p tst1 IH]; intros st2 Hok H2; simpl in *.
    - constructor.
    - inversion H2 as [|? w' ? st2' Hs H2']; subst. inversion Hok as [|? ? [Hc Hw] Hok']; subst.
      simpl. constructor; [|apply IH; assumption].
      split; [exact Hc|]. simpl.
      exact (proj1 (Ancestor_proofs.w_step_inv G ins Hins (fst p) (snd p) w' Hw (Hp _ Hc) Hs)).
  Qed.

  Lemma seek_loop_weak : forall fuel tst x,
    Jinv tst -> Ancestor.seek_loop G ins fuel (map snd tst) = Ancestor.SFound x -> sgoal x.
  Proof.
    induction fuel as [|fuel IH]; intros tst x HJ H; [discriminate|].
    rewrite Ancestor_proofs.seek_loop_S in H. cbv zeta in H. rewrite elim_t in H.
    destruct (Ancestor_proofs.elim_spec tw tfires td tst) as [Hsub [Hnf _]].
    set (tst1 := Ancestor.elim tw tfires td tst) in *.
    rewrite map_length in H.
    match type of H with context [Nat.eqb ?a 1] => revert H; destruct (Nat.eqb a 1) eqn:El; intros H end.
    - apply Nat.eqb_eq in El. destruct tst1 as [|p [|? ?]] eqn:Es; try (simpl in El; lia).
      simpl in H. destruct (Ancestor.w_base (snd p)) as [y|] eqn:Eb; [|discriminate].
      inversion H; subst y. eapply ret_case; eassumption.
    - apply Nat.eqb_neq in El.
      revert H. destruct (Ancestor.pop_all G ins (map snd tst1)) as [[st2 eofs]| |] eqn:E; intros H; try discriminate.
      destruct (Ancestor_proofs.pop_all_spec G ins _ _ _ E) as [Hst [Hle _]].
      revert H. destruct (Nat.eqb eofs (length st2)) eqn:Ee; intros H; [discriminate|]. apply Nat.eqb_neq in Ee.
      assert (Hlen2 : length (map fst tst1) = length st2).
      { rewrite map_length. rewrite <- (map_length snd). eapply Ancestor_proofs.Forall2_len; exact Hst. }
      destruct HJ as [Hok Hcase].
      assert (Hok1 : Forall t_ok tst1) by (eapply Ancestor_proofs.subseq_Forall; eassumption).
      apply (IH (combine (map fst tst1) st2) x); [|rewrite map_snd_combine; assumption].
      split; [apply steps_ok_t; assumption|]. right. split.
      + rewrite map_fst_combine by exact Hlen2.
        destruct Hcase as [[_ Hfr]|[Hnd _]].
        * apply fresh_nofire_nodup; [eapply Ancestor_proofs.subseq_Forall; eassumption|exact Hnf].
        * eapply subseq_NoDup; [apply subseq_map; exact Hsub|exact Hnd].
      + unfold tw in *. rewrite combine_length, Hlen2, Nat.min_id. rewrite map_length in Hlen2. lia.
  Qed.

  Lemma init_walkers_fresh : forall l st,
    Ancestor.init_walkers G srt l = Queue.Ok st ->
    Forall2 (fun c w => Ancestor.w_base w = Some c /\ Queue.new_queue G srt [c] = Queue.Ok (Ancestor.w_q w)) l st.
  Proof.
    induction l as [|c l IH]; intros st H; simpl in H.
    - inversion H. constructor.
    - destruct (Queue.new_queue G srt [c]) as [q| |] eqn:Eq; try discriminate.
      destruct (Ancestor.init_walkers G srt l) as [ws| |] eqn:Ew; try discriminate.
      inversion H; subst. constructor; [split; [reflexivity|exact Eq]|apply IH; reflexivity].
  Qed.

  Lemma fresh_all : forall l st,
    incl l cs ->
    Forall2 (fun c w => Ancestor.w_base w = Some c /\ Queue.new_queue G srt [c] = Queue.Ok (Ancestor.w_q w)) l st ->
    Forall (fun p => t_ok p /\ t_fresh p) (combine l st).
  Proof.
    induction l as [|c l IH]; intros st Hincl Hfr.
    - inversion Hfr. constructor.
    - inversion Hfr as [|? w ? st' [Hb Hq] Hfr']; subst. simpl. constructor.
      + destruct (Queue_proofs.new_queue_inv G srt Hsrt [c] _ Hq) as [Hinv [_ [Hseen _]]].
        split; [split|split]; simpl.
        * apply Hincl. left. reflexivity.
        * split; [exact Hinv|]. intros z Hz. rewrite Hb in Hz. inversion Hz; subst z.
          apply Hseen. left. reflexivity.
        * exact Hb.
        * intros z. rewrite Hseen. simpl. split; [intros [Hz|[]]; symmetry; exact Hz|intros ->; left; reflexivity].
      + apply IH; [|exact Hfr']. intros z Hz. apply Hincl. right. exact Hz.
  Qed.

  Theorem seek_weak x :
    Ancestor.seek_common_ancestor G ins srt cs = Ancestor.SFound x -> sgoal x.
  Proof.
    intros H. unfold Ancestor.seek_common_ancestor in H.
    destruct (Ancestor.pre_check G ins srt cs) as [c|] eqn:Epc.
    - inversion H; subst c. destruct (Ancestor_proofs.pre_check_some G ins srt Hins Hsrt cs x Hp Epc) as [i [Hi Hall]].
      destruct (existsb (fun y => negb (N.eqb y x)) cs) eqn:Ex.
      + right. apply existsb_exists in Ex. destruct Ex as [y [Hy Hne]].
        apply negb_true_iff, N.eqb_neq in Hne.
        exists y. split; [exact Hy|]. split; [exact Hne|].
        apply In_nth_error in Hy. destruct Hy as [j Hj]. apply (Hall j y Hj).
        intros Eji. subst j. assert (Ex : Some y = Some x) by (transitivity (nth_error cs i); [symmetry; exact Hj|exact Hi]).
        inversion Ex. apply Hne. assumption.
      + left. intros y Hy. destruct (N.eqb y x) eqn:E; [apply N.eqb_eq; exact E|].
        assert (Ht : existsb (fun y => negb (N.eqb y x)) cs = true).
        { apply existsb_exists. exists y. split; [exact Hy|]. rewrite E. reflexivity. }
        rewrite Ht in Ex. discriminate.
    - destruct (Ancestor.init_walkers G srt cs) as [st| |] eqn:E; try discriminate.
      pose proof (init_walkers_fresh cs st E) as Hfr.
      assert (Hlen : length cs = length st) by (eapply Ancestor_proofs.Forall2_len; exact Hfr).
      apply (seek_loop_weak (Ancestor.seek_fuel G (length cs)) (combine cs st) x);
        [|rewrite map_snd_combine; assumption].
      assert (Hall : Forall (fun p => t_ok p /\ t_fresh p) (combine cs st))
        by (apply fresh_all; [intros z Hz; exact Hz|exact Hfr]).
      split.
      + eapply Forall_impl; [|exact Hall]. intros p Hpp. apply Hpp.
      + left. split; [apply map_fst_combine; exact Hlen|].
        eapply Forall_impl; [|exact Hall]. intros p Hpp. apply Hpp.
  Qed.
End SeekWeakSec.

(* ================================================================== *)
(** * the weak merge-base premise holds of C11's SeekCommonAncestor at every arity *)

Lemma filter_all_false {A} (f : A -> bool) (l : list A) :
  (forall y, In y l -> f y = false) -> filter f l = [].
Proof.
  induction l as [|a l IH]; intros H; simpl; [reflexivity|].
  rewrite (H a (or_introl eq_refl)). apply IH. intros y Hy. apply H. right. exact Hy.
Qed.

Theorem b_seek_weak tm g : store_closed g -> SeekWeak g (b_seek tm g).
Proof.
  intros Hc cs c H. unfold b_seek, Ancestor.t_seek in H.
  destruct (Ancestor.seek_common_ancestor _ _ _ cs) as [x| | | |] eqn:Es; try discriminate.
  destruct (cmem x cs) eqn:Em; [|discriminate]. inversion H; subst x. clear H.
  apply cmem_In in Em. split; [exact Em|].
  assert (Hcl : Graph.closed (to_graph tm g)) by (apply closed_to_graph; exact Hc).
  assert (Hp : forall y, In y cs -> Graph.complete (to_graph tm g) [y]).
  { intros y Hy. apply present_complete; [exact Hcl|]. intros E.
    exact (seek_absent (to_graph tm g) _ _ (Queue_proofs.ins_time_perm _) (Queue_proofs.srt_time_perm _)
             Hcl cs y c Hy E Es). }
  destruct (seek_weak (to_graph tm g) _ _ (Queue_proofs.ins_time_perm _) (Queue_proofs.srt_time_perm _)
              cs Hp c Es) as [Hall|[y [Hy [Hne Hr]]]].
  - left. simpl. apply filter_all_false. intros y Hy. rewrite (Hall y Hy), N.eqb_refl. reflexivity.
  - right. exists y. split.
    + simpl. apply filter_In. split; [exact Hy|]. apply negb_true_iff, N.eqb_neq. exact Hne.
    + apply (reach_anc tm). exact Hr.
Qed.

(** C10's premise implies the weak one: the theorems below generalise C10's *)
Lemma seek_sound_weak g sk : SeekSound g sk -> SeekWeak g sk.
Proof.
  intros Hs cs c E. destruct (Hs cs c E) as [Hin Hall]. split; [exact Hin|].
  destruct (non_ancestral (SInput c) cs) as [|x na] eqn:En; [left; reflexivity|right].
  exists x. split; [left; reflexivity|]. apply Hall.
  assert (Hx : In x (non_ancestral (SInput c) cs)) by (rewrite En; left; reflexivity).
  simpl in Hx. apply filter_In in Hx. tauto.
Qed.

(* ================================================================== *)
(** * C10's merge / pull / history theorems under the weak premise (structure of RefUpdate_proofs) *)

Section WeakOracles.
  Variable g : graph.
  Variable ia : commit -> commit -> bool.
  Variable sk : list commit -> seekres.
  Hypothesis ia_sound : IsAncSound g ia.
  Hypothesis sk_weak : SeekWeak g sk.

  (** the branch value stays among the merged inputs, or nothing remains, or the branch value is an
      ancestor-or-self of an input that remains *)
  Lemma weak_branch b rest c :
    sk (b :: rest) = SInput c ->
    In b (non_ancestral (SInput c) (b :: rest)) \/
    non_ancestral (SInput c) (b :: rest) = [] \/
    exists x, In x (non_ancestral (SInput c) (b :: rest)) /\ anc g b x.
  Proof.
    intros E. destruct (sk_weak _ _ E) as [_ Hw].
    destruct (negb (b =? c)%N) eqn:Eb.
    - left. unfold non_ancestral. apply filter_In. split; [left; reflexivity|exact Eb].
    - apply negb_false_iff, N.eqb_eq in Eb. subst c. right. exact Hw.
  Qed.

  Lemma merge_core_ok_weak s branch b rest mode m :
    rget s branch = Some b -> kind_of branch <> KTag ->
    core_ok g s (merge_core g sk s branch (b :: rest) mode m).
  Proof.
    intros Hb Hk. unfold merge_core.
    destruct (sk (b :: rest)) as [c| |] eqn:Esk; [| |apply core_ok_same].
    - pose proof (weak_branch b rest c Esk) as NA.
      set (na := non_ancestral (SInput c) (b :: rest)) in *.
      destruct (merge_decision mode (length na)) eqn:D.
      + apply core_ok_same.
      + apply merge_decision_ff in D. apply length1 in D. destruct D as [x Hx]. rewrite Hx.
        rewrite Hb. apply core_ok_set; [symmetry; exact Hb|exact Hk|].
        rewrite Hx in NA. destruct NA as [[H|[]]|[H|[y [[H|[]] Hy]]]].
        * subst. apply anc_refl.
        * discriminate.
        * subst. exact Hy.
      + destruct (ceq_list (parents g m) (b :: rest)) eqn:Ep; [|apply core_ok_same].
        apply ceq_list_eq in Ep. rewrite Hb. apply core_ok_set; [symmetry; exact Hb|exact Hk|].
        apply anc_parent. rewrite Ep. left. reflexivity.
      + destruct (ceq_list (parents g m) na) eqn:Ep; [|apply core_ok_same].
        apply ceq_list_eq in Ep. rewrite Hb. apply core_ok_set; [symmetry; exact Hb|exact Hk|].
        apply merge_decision_na in D.
        destruct NA as [H|[H|[y [Hy Hay]]]].
        * apply anc_parent. rewrite Ep. exact H.
        * rewrite H in D. simpl in D. lia.
        * eapply anc_trans; [exact Hay|]. apply anc_parent. rewrite Ep. exact Hy.
      + apply core_ok_same.
    - simpl non_ancestral.
      destruct (merge_decision mode (length (b :: rest))) eqn:D.
      + apply core_ok_same.
      + rewrite Hb. apply core_ok_set; [symmetry; exact Hb|exact Hk|apply anc_refl].
      + destruct (ceq_list (parents g m) (b :: rest)) eqn:Ep; [|apply core_ok_same].
        apply ceq_list_eq in Ep. rewrite Hb. apply core_ok_set; [symmetry; exact Hb|exact Hk|].
        apply anc_parent. rewrite Ep. left. reflexivity.
      + destruct (ceq_list (parents g m) (b :: rest)) eqn:Ep; [|apply core_ok_same].
        apply ceq_list_eq in Ep. rewrite Hb. apply core_ok_set; [symmetry; exact Hb|exact Hk|].
        apply anc_parent. rewrite Ep. left. reflexivity.
      + apply core_ok_same.
  Qed.

  Lemma merge_step_ok_weak st branch others mode m : res_ok g st (merge_step g sk st branch others mode m).
  Proof.
    unfold merge_step.
    destruct (rget (lrefs st) (s_heads ++ branch)) as [b|] eqn:Eb; [|apply res_ok_same].
    destruct (resolve_all (lrefs st) others) as [cs|]; [|apply res_ok_same].
    pose proof (merge_core_ok_weak (lrefs st) (s_heads ++ branch) b cs mode m Eb (kind_of_heads_not_tag branch)) as H.
    destruct (merge_core g sk (lrefs st) (s_heads ++ branch) (b :: cs) mode m) as [[[s' tr] out] nrej].
    simpl in H. destruct H as (H1 & H2 & H3 & H4).
    unfold res_ok. simpl. repeat split; auto.
  Qed.

  Lemma pull_step_ok_weak st branch specs gf mode m :
    res_ok g st (pull_step g ia sk st branch specs gf mode m).
  Proof.
    unfold pull_step, pull_step_gen.
    pose proof (fetch_step_ok g ia ia_sound st specs gf) as F.
    set (rf := fetch_step g ia st specs gf) in *.
    destruct (negb (r_outcome rf =? 0)%N); [exact F|].
    destruct F as (F1 & F2 & F3 & F4 & F5).
    set (st1 := r_state rf) in *.
    set (bn := s_heads ++ branch) in *.
    set (newbranch := negb (is_some (rget (lrefs st) bn)) && negb (is_some (rget (lrefs st1) bn))).
    destruct newbranch eqn:Enb.
    - assert (Hnone : rget (lrefs st1) bn = None).
      { unfold newbranch in Enb. apply andb_true_iff in Enb. destruct Enb as [_ E2].
        destruct (rget (lrefs st1) bn); [discriminate|reflexivity]. }
      match goal with |- context [flat_map ?f specs] => set (heads := flat_map f specs) end.
      assert (W : forall out, res_ok g st (mk_result st1 (r_trace rf) out (r_nrej rf))).
      { intros out. unfold res_ok. simpl. auto. }
      destruct heads as [|[hn hc] [|h2 hs]]; try apply W.
      destruct (resolve_commitish (lrefs st1) hn) as [c|]; [|apply W].
      unfold res_ok. simpl. split; [|split; [|split; [|split]]].
      + apply Forall_app. split; [exact F1|]. constructor; [|constructor].
        unfold trans_ok. simpl. rewrite Hnone. exact I.
      + apply Forall_app. split; [apply logged_mono; exact F2|].
        constructor; [apply logged_new; reflexivity|constructor].
      + intros Hf. apply rset_log_faithful. auto.
      + exact F4.
      + intros n e He. apply rset_log_logs_mono. auto.
    - match goal with |- context [flat_map ?f specs] => set (heads := flat_map f specs) end.
      assert (W : forall out, res_ok g st (mk_result st1 (r_trace rf) out (r_nrej rf))).
      { intros out. unfold res_ok. simpl. auto. }
      destruct heads as [|h hs] eqn:Eh; [unfold res_ok; auto|].
      destruct (rget (lrefs st1) bn) as [b|] eqn:Eb; [|apply W].
      destruct (resolve_all (lrefs st1) (map fst (h :: hs))) as [cs|]; [|apply W].
      pose proof (merge_core_ok_weak (lrefs st1) bn b cs mode m Eb (kind_of_heads_not_tag branch)) as H.
      destruct (merge_core g sk (lrefs st1) bn (b :: cs) mode m) as [[[s' tr] out] nrej].
      simpl in H. destruct H as (H1 & H2 & H3 & H4).
      unfold res_ok. simpl. split; [|split; [|split; [|split]]].
      + apply Forall_app. split; assumption.
      + apply Forall_app. split; [|exact H2]. eapply logged_grow; [exact H4|exact F2].
      + auto.
      + exact F4.
      + auto.
  Qed.

  Lemma step_ok_weak st o : res_ok g st (step g ia sk st o).
  Proof.
    destruct o; simpl.
    - apply fetch_step_ok. exact ia_sound.
    - apply push_step_ok. exact ia_sound.
    - apply merge_step_ok_weak.
    - apply pull_step_ok_weak.
  Qed.

  Lemma run_ops_ok_weak ops : forall st,
    let '(st', tr) := run_ops g ia sk st ops in
    Forall (trans_ok g) tr /\ Forall (logged (lrefs st')) tr /\
    (LogFaithful (lrefs st) -> LogFaithful (lrefs st')) /\
    (LogFaithful (rrefs st) -> LogFaithful (rrefs st')) /\
    (forall n e, In e (rlogs (lrefs st) n) -> In e (rlogs (lrefs st') n)).
  Proof.
    induction ops as [|o rest IH]; intros st; simpl.
    - repeat split; auto.
    - pose proof (step_ok_weak st o) as S.
      specialize (IH (r_state (step g ia sk st o))).
      destruct (run_ops g ia sk (r_state (step g ia sk st o)) rest) as [st' tr].
      destruct S as (S1 & S2 & S3 & S4 & S5). destruct IH as (I1 & I2 & I3 & I4 & I5).
      split; [|split; [|split; [|split]]].
      + apply Forall_app. split; assumption.
      + apply Forall_app. split; [|exact I2]. eapply logged_grow; [exact I5|exact S2].
      + auto.
      + auto.
      + auto.
  Qed.

  Theorem forward_only_history_weak st ops : Forall (trans_ok g) (snd (run_ops g ia sk st ops)).
  Proof.
    pose proof (run_ops_ok_weak ops st) as H.
    destruct (run_ops g ia sk st ops) as [st' tr]. simpl. tauto.
  Qed.

  Theorem log_true_history_weak st ops :
    (LogFaithful (lrefs st) -> LogFaithful (lrefs (fst (run_ops g ia sk st ops)))) /\
    (LogFaithful (rrefs st) -> LogFaithful (rrefs (fst (run_ops g ia sk st ops)))) /\
    Forall (logged (lrefs (fst (run_ops g ia sk st ops)))) (snd (run_ops g ia sk st ops)).
  Proof.
    pose proof (run_ops_ok_weak ops st) as H.
    destruct (run_ops g ia sk st ops) as [st' tr]. simpl. tauto.
  Qed.
End WeakOracles.

(* ================================================================== *)
(** * C10's theorems for ALL histories, run with C11's functions *)

Theorem compose_forward_only_all tm g :
  store_closed g -> forall st ops,
  Forall (trans_ok g) (snd (run_ops g (b_is_ancestor tm g) (b_seek tm g) st ops)).
Proof.
  intros Hc st ops.
  apply forward_only_history_weak; [apply b_is_ancestor_sound|apply b_seek_weak]; exact Hc.
Qed.

Theorem compose_log_true_all tm g :
  store_closed g -> forall st ops,
  let r := run_ops g (b_is_ancestor tm g) (b_seek tm g) st ops in
  (LogFaithful (lrefs st) -> LogFaithful (lrefs (fst r))) /\
  (LogFaithful (rrefs st) -> LogFaithful (rrefs (fst r))) /\
  Forall (logged (lrefs (fst r))) (snd r).
Proof.
  intros Hc st ops. cbv zeta.
  apply log_true_history_weak; [apply b_is_ancestor_sound|apply b_seek_weak]; exact Hc.
Qed.

Theorem compose_merge_ok_all tm g st branch others mode m :
  store_closed g -> res_ok g st (merge_step g (b_seek tm g) st branch others mode m).
Proof. intros Hc. apply merge_step_ok_weak. apply b_seek_weak. exact Hc. Qed.

Theorem compose_pull_ok_all tm g st branch specs gf mode m :
  store_closed g ->
  res_ok g st (pull_step g (b_is_ancestor tm g) (b_seek tm g) st branch specs gf mode m).
Proof.
  intros Hc. apply pull_step_ok_weak; [apply b_is_ancestor_sound|apply b_seek_weak]; exact Hc.
Qed.

(** non-vacuity: a history with a three-input merge (outside [op_arity2b]) on C11's witness graph, where the
    merge base is wrong as a common ancestor; the move it makes is legal *)
Definition ex_op3 : op := OMerge [109%N] [n_w1; n_w4] MFF 1000%N.

Example ex_compose_all :
  store_closedb wit5m = true /\ op_arity2b ex_op3 = false /\
  b_seek wit5_tm wit5m [2%N; 1%N; 4%N] = SInput 1%N /\ is_ancestor wit5m 1%N 2%N = false /\
  snd (run_ops wit5m (b_is_ancestor wit5_tm wit5m) (b_seek wit5_tm wit5m) wit5_state
         [ex_op3; OMerge [97%N] [n_main; n_w4] MFF 1001%N]) =
    [mk_trans Local n_main (Some 2%N) (Some 1000%N) false] /\
  is_ancestor wit5m 2%N 1000%N = true.
Proof. vm_compute. repeat split; reflexivity. Qed.
