(** (h) packfile.encodeObjTypeAndLen: translated body (gen/ExtractedCode.v) = [encode_len]
    (shift/mask form [encode_len_sm]) of model/CodecPackfile.v.  [buf.Buffer(n)] is modelled
    as "n bytes of arbitrary contents": the parameter is that arbitrary byte string. *)
From Coq Require Import List ZArith NArith Bool String Lia Arith.
From W.lib Require Import Tree Bytes GoLang.
From W.proofs Require Import GoLang_proofs CodecPackfile_proofs.
From W.gen Require Import ExtractedCode.
From W.model Require Import CodecPackfile.
Import ListNotations.
Local Open Scope Z_scope.

(** * N and Z bit operations *)
Lemma ZofN_lor a b : Z.lor (Z.of_N a) (Z.of_N b) = Z.of_N (N.lor a b).
Proof. destruct a, b; reflexivity. Qed.
Lemma ZofN_land a b : Z.land (Z.of_N a) (Z.of_N b) = Z.of_N (N.land a b).
Proof. destruct a, b; reflexivity. Qed.
Lemma ZofN_shiftr a n : Z.shiftr (Z.of_N a) (Z.of_N n) = Z.of_N (N.shiftr a n).
Proof.
  rewrite Z.shiftr_div_pow2 by lia. rewrite N.shiftr_div_pow2.
  rewrite N2Z.inj_div, N2Z.inj_pow. reflexivity.
Qed.
Lemma ZofN_shiftl a n : Z.shiftl (Z.of_N a) (Z.of_N n) = Z.of_N (N.shiftl a n).
Proof.
  rewrite Z.shiftl_mul_pow2 by lia. rewrite N.shiftl_mul_pow2.
  rewrite N2Z.inj_mul, N2Z.inj_pow. reflexivity.
Qed.
Lemma wrap_u8_N a : wrap (IU 8) (Z.of_N a) = Z.of_N (u8 a).
Proof. unfold wrap, u8. rewrite N2Z.inj_mod. reflexivity. Qed.

(** * the continuation bytes *)
Definition xbyte (u : N) (t : nat) : N := N.lor 128 (u8 (N.shiftr u (4 + 7 * N.of_nat t))).

Lemma cont_sm_raw u : forall k t0,
  cont_sm k u (4 + 7 * N.of_nat t0)
  = match k with
    | O => []
    | S k' => map (xbyte u) (seq t0 k') ++ [N.land (xbyte u (t0 + k')) 127]
    end.
Proof.
  induction k as [|k IH]; intros t0; [reflexivity|].
  cbn [cont_sm]. destruct k as [|k'].
  - cbn [seq map app]. unfold xbyte. now rewrite Nat.add_0_r.
  - replace (4 + 7 * N.of_nat t0 + 7)%N with (4 + 7 * N.of_nat (S t0))%N by lia.
    rewrite IH. cbn [seq map app]. unfold xbyte at 1.
    replace (S t0 + k')%nat with (t0 + S k')%nat by lia. reflexivity.
Qed.

(** numBytes as the Go code computes it (with its wraps) *)
Definition go_nb (bits : N) : Z :=
  let d := wrap (IS 64) (Z.of_N bits - 4) in
  let nb0 := wrap (IS 64) (wrap (IS 64) (Z.quot d 7) + 1) in
  let nb1 := if 0 <? Z.rem d 7 then wrap (IS 64) (nb0 + 1) else nb0 in
  if nb1 =? 1 then 2 else nb1.

Lemma go_nb_ok bits : (bits <= 64)%N ->
  go_nb bits = Z.of_nat (num_bytes bits) /\ (2 <= num_bytes bits <= 10)%nat.
Proof.
  intros Hb.
  assert (H : ((go_nb bits =? Z.of_nat (num_bytes bits)) &&
               ((2 <=? num_bytes bits)%nat && (num_bytes bits <=? 10)%nat)) = true).
  { assert (Hb' : (bits < N.of_nat 65)%N) by lia. revert bits Hb' Hb. intros bits Hb' _.
    revert bits Hb'. apply (below_spec 65). vm_compute. reflexivity. }
  apply andb_true_iff in H as [H1 H2]. apply andb_true_iff in H2 as [H2 H3].
  apply Z.eqb_eq in H1. apply Nat.leb_le in H2. apply Nat.leb_le in H3. auto.
Qed.

Lemma go_encodeObjTypeAndLen_model (g : bytes) (ty u : N) :
  (10 <= length g)%nat -> (u < 2 ^ 64)%N -> Z.of_N ty < 2 ^ 63 ->
  exists fuel, run_func fuel go_prog go_encodeObjTypeAndLen [VStr g; VInt (Z.of_N ty); VInt (Z.of_N u)]
               = FOk [VStr (encode_len ty u)] [].
Proof.
  intros Hg Hu Hty.
  pose proof (size_le_64 u Hu) as Hbits.
  destruct (go_nb_ok (N.size u) Hbits) as [Hnb Hnbr].
  start_func go_encodeObjTypeAndLen.
  straight.
  Show.
Abort.
