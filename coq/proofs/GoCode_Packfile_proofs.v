(** (h) packfile.encodeObjTypeAndLen: translated body (gen/ExtractedCode.v) = [encode_len]
    (shift/mask form [encode_len_sm]) of model/CodecPackfile.v.  [buf.Buffer(n)] is modelled
    as "n bytes of arbitrary contents": the parameter is that arbitrary byte string. *)
From Coq Require Import List ZArith NArith Bool String Lia Arith.
From W.lib Require Import Tree Bytes GoLang.
From W.proofs Require Import GoLang_proofs CodecPackfile_proofs.
From W.gen Require Import ExtractedCode.
From W.model Require Import CodecPackfile.
Import ListNotations.
Local Open Scope Z_scope.

(** * N and Z bit operations *)
Lemma ZofN_lor a b : Z.lor (Z.of_N a) (Z.of_N b) = Z.of_N (N.lor a b).
Proof. destruct a, b; reflexivity. Qed.
Lemma ZofN_land a b : Z.land (Z.of_N a) (Z.of_N b) = Z.of_N (N.land a b).
Proof. destruct a, b; reflexivity. Qed.
Lemma ZofN_shiftr a n : Z.shiftr (Z.of_N a) (Z.of_N n) = Z.of_N (N.shiftr a n).
Proof.
  rewrite Z.shiftr_div_pow2 by lia. rewrite N.shiftr_div_pow2.
  rewrite N2Z.inj_div, N2Z.inj_pow. reflexivity.
Qed.
Lemma ZofN_shiftl a n : Z.shiftl (Z.of_N a) (Z.of_N n) = Z.of_N (N.shiftl a n).
Proof.
  rewrite Z.shiftl_mul_pow2 by lia. rewrite N.shiftl_mul_pow2.
  rewrite N2Z.inj_mul, N2Z.inj_pow. reflexivity.
Qed.
Lemma wrap_u8_N a : wrap (IU 8) (Z.of_N a) = Z.of_N (u8 a).
Proof. unfold wrap, u8. rewrite N2Z.inj_mod. reflexivity. Qed.

Lemma lor128 a : Z.lor 128 (Z.of_N a) = Z.of_N (N.lor 128 a).
Proof. exact (ZofN_lor 128 a). Qed.
Lemma shl4 a : Z.shiftl (Z.of_N a) 4 = Z.of_N (N.shiftl a 4).
Proof. exact (ZofN_shiftl a 4). Qed.
Lemma land15 a : Z.land (Z.of_N a) 15 = Z.of_N (N.land a 15).
Proof. exact (ZofN_land a 15). Qed.
Lemma land127 a : Z.land (Z.of_N a) 127 = Z.of_N (N.land a 127).
Proof. exact (ZofN_land a 127). Qed.

Ltac to_N :=
  repeat first [ rewrite wrap_u8_N | rewrite shl4 | rewrite ZofN_shiftr | rewrite lor128
               | rewrite land15 | rewrite land127 | rewrite ZofN_lor | rewrite N2Z.id ].

Lemma skipn1_skipn {A} (l : list A) : forall i, skipn 1 (skipn i l) = skipn (S i) l.
Proof.
  induction l as [|a l IH]; intros i.
  - destruct i; reflexivity.
  - destruct i as [|i]; [reflexivity|]. cbn [skipn]. apply IH.
Qed.

(** writing position i of a buffer whose first i bytes [L] are already written *)
Lemma upd_written (L g : bytes) (x : N) i :
  length L = i -> (i < length g)%nat ->
  firstn i (L ++ skipn i g) ++ x :: skipn (S i) (L ++ skipn i g) = (L ++ [x]) ++ skipn (S i) g.
Proof.
  intros HL Hi.
  rewrite firstn_app, firstn_all2 by lia. rewrite HL, Nat.sub_diag. cbn [firstn]. rewrite app_nil_r.
  rewrite skipn_app, skipn_all2 by lia. rewrite HL. replace (S i - i)%nat with 1%nat by lia.
  rewrite skipn1_skipn. cbn [app]. rewrite <- app_assoc. reflexivity.
Qed.

(** * the continuation bytes *)
Definition xbyte (u : N) (t : nat) : N := N.lor 128 (u8 (N.shiftr u (4 + 7 * N.of_nat t))).

Lemma cont_sm_raw u : forall k t0,
  cont_sm k u (4 + 7 * N.of_nat t0)
  = match k with
    | O => []
    | S k' => map (xbyte u) (seq t0 k') ++ [N.land (xbyte u (t0 + k')) 127]
    end.
Proof.
  induction k as [|k IH]; intros t0; [reflexivity|].
  cbn [cont_sm]. destruct k as [|k'].
  - cbn [seq map app]. unfold xbyte. now rewrite Nat.add_0_r.
  - replace (4 + 7 * N.of_nat t0 + 7)%N with (4 + 7 * N.of_nat (S t0))%N by lia.
    rewrite IH. cbn [seq map app]. unfold xbyte at 1.
    replace (S t0 + k')%nat with (t0 + S k')%nat by lia. reflexivity.
Qed.

(** numBytes as the Go code computes it (with its wraps) *)
Definition go_nb0 (bits : N) : Z :=
  wrap (IS 64) (wrap (IS 64) (Z.quot (Z.of_N bits - 4) 7) + 1).
Definition go_nb1 (bits : N) : Z :=
  if 0 <? Z.rem (Z.of_N bits - 4) 7 then wrap (IS 64) (go_nb0 bits + 1) else go_nb0 bits.
Definition go_nb (bits : N) : Z := if go_nb1 bits =? 1 then 2 else go_nb1 bits.

Lemma go_nb_ok bits : (bits <= 64)%N ->
  go_nb bits = Z.of_nat (num_bytes bits) /\ (2 <= num_bytes bits <= 10)%nat.
Proof.
  intros Hb.
  assert (H : ((go_nb bits =? Z.of_nat (num_bytes bits)) &&
               ((2 <=? num_bytes bits)%nat && (num_bytes bits <=? 10)%nat)) = true).
  { assert (Hb' : (bits < N.of_nat 65)%N) by lia. revert bits Hb' Hb. intros bits Hb' _.
    revert bits Hb'. apply (below_spec 65). vm_compute. reflexivity. }
  apply andb_true_iff in H as [H1 H2]. apply andb_true_iff in H2 as [H2 H3].
  apply Z.eqb_eq in H1. apply Nat.leb_le in H2. apply Nat.leb_le in H3. auto.
Qed.

Lemma go_encodeObjTypeAndLen_model (g : bytes) (ty u : N) :
  (10 <= length g)%nat -> (u < 2 ^ 64)%N -> Z.of_N ty < 2 ^ 63 ->
  exists fuel, run_func fuel go_prog go_encodeObjTypeAndLen [VStr g; VInt (Z.of_N ty); VInt (Z.of_N u)]
               = FOk [VStr (encode_len ty u)] [].
Proof.
  intros Hg Hu Hty.
  pose proof (size_le_64 u Hu) as Hbits.
  destruct (go_nb_ok (N.size u) Hbits) as [Hnb Hnbr].
  start_func go_encodeObjTypeAndLen.
  straight. unfold GoLang.len64. rewrite !N2Z.id.
  set (bits := N.size u) in *. set (nb := num_bytes bits) in *.
  rewrite ?(wrap_s64 (Z.of_N bits - 4)) by lia. fold (go_nb0 bits).
  (* if (bits-4)%7 > 0 { numBytes += 1 } *)
  eapply (wp_seq_cut _ _ _ _
            [VStr g; VInt (Z.of_N ty); VInt (Z.of_N u); VInt (Z.of_N bits); VInt (go_nb1 bits); VUnset; VUnset]).
  { stepn. rewrite ?(wrap_s64 (Z.of_N bits - 4)) by lia. unfold go_nb1. split_if as Hc; stepsn; reflexivity. }
  (* if numBytes == 1 { numBytes = 2 } *)
  eapply (wp_seq_cut _ _ _ _
            [VStr g; VInt (Z.of_N ty); VInt (Z.of_N u); VInt (Z.of_N bits); VInt (Z.of_nat nb); VUnset; VUnset]).
  { stepn. rewrite <- Hnb. unfold go_nb. split_if as Hc; stepsn; reflexivity. }
  (* b := buf.Buffer(numBytes) *)
  straight. change (Z.to_nat 0) with O. rewrite Nat.sub_0_r. cbn [skipn].
  set (g' := firstn nb g). assert (Hg' : length g' = nb) by (apply firstn_length_le; lia). clearbody g'.
  stepn. stepn. to_N. fold (byte0_sm ty u).
  change (Z.to_nat 0) with O. cbn [firstn app].
  straight.
  (* for i := 1; i < numBytes; i++ *)
  stepn. stepn. stepn.
  eapply (wp_for_inv _ _ _ _ _ _
            (fun e => exists j,
               e = [VStr g; VInt (Z.of_N ty); VInt (Z.of_N u); VInt (Z.of_N (4 + 7 * N.of_nat j));
                    VInt (Z.of_nat nb);
                    VStr ((byte0_sm ty u :: map (xbyte u) (seq 0 j)) ++ skipn (S j) g');
                    VInt (Z.of_nat (S j))]
               /\ (S j <= nb)%nat)
            (fun e => match nth 6 e VUnset with
                      | VInt i => Z.to_nat (Z.of_nat nb - i)
                      | _ => O
                      end)).
  { exists O. split; [reflexivity|lia]. }
  intros e (j & -> & Hj).
  eexists; split; [evn; reflexivity|].
  remember (byte0_sm ty u :: map (xbyte u) (seq 0 j)) as L eqn:EL.
  assert (HL : length L = S j) by (subst L; cbn [length]; now rewrite map_length, seq_length).
  destruct (Z.ltb_spec (Z.of_nat (S j)) (Z.of_nat nb)) as [Hlt|Hge].
  - (* one more continuation byte *)
    stepn. stepn. to_N. fold (xbyte u j).
    rewrite upd_written by lia.
    stepn. stepn. unwrap.
    split; [|lia]. exists (S j). split; [|lia].
    subst L. rewrite seq_S, map_app. cbn [map app Nat.add].
    repeat f_equal; try lia.
  - (* b[numBytes-1] &= 127; return b *)
    assert (Ej : S j = nb) by lia.
    rewrite skipn_all2, app_nil_r by lia.
    stepn. stepn. stepn. to_N.
    replace (Z.to_nat (Z.of_nat nb - 1)) with j by lia.
    do 3 f_equal.
    unfold encode_len, encode_len_sm, CodecPackfile.len64. fold bits. fold nb.
    replace (nb - 1)%nat with j by lia.
    destruct j as [|k]; [lia|].
    change (cont_sm (S k) u 4) with (cont_sm (S k) u (4 + 7 * N.of_nat 0)). rewrite cont_sm_raw.
    subst L. rewrite seq_S, map_app. cbn [map app Nat.add].
    set (M := map (xbyte u) (seq 0 k)).
    assert (HM : length M = k) by (unfold M; now rewrite map_length, seq_length).
    cbn [firstn nth].
    change (skipn (S (S k)) (byte0_sm ty u :: M ++ [xbyte u k])) with (skipn (S k) (M ++ [xbyte u k])).
    rewrite firstn_app, firstn_all2 by lia. rewrite HM, Nat.sub_diag. cbn [firstn]. rewrite app_nil_r.
    rewrite app_nth2 by lia. rewrite HM, Nat.sub_diag. cbn [nth].
    rewrite skipn_all2 by (rewrite app_length; cbn [length]; lia).
    cbn [app]. reflexivity.
Qed.
