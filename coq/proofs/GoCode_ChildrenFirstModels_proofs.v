(** (i) prune.childrenFirst, pure part: [cf_M (wrap (IS 64))] = [cf_M id] (the counters stay
    small), [cf_M id] = a generic Kahn function [g_cf] over any key type with an injective
    encoding into byte strings, and [g_cf] = Prune.children_first = Crash.children_first. *)
From Coq Require Import List ZArith NArith Bool String Lia Arith Permutation.
From W.lib Require Import Tree Bytes GoLang.
From W.proofs Require Import GoLang_proofs GoCode_ChildrenFirst_proofs.
From W.gen Require Import ExtractedCode.
Import ListNotations.
Local Open Scope Z_scope.

(** [lia] after unfolding the type abbreviations (they occur both folded and unfolded as
    implicit arguments, which [lia] sees as different atoms) *)
Ltac nlia := unfold lmap, pmap in *; lia.

(** * association lists *)
Lemma getz_cons p z m k : getz ((p, z) :: m) k = if beqb p k then z else getz m k.
Proof. unfold getz. cbn [afind]. destruct (beqb p k); reflexivity. Qed.
Lemma getl_cons p l m k : getl ((p, l) :: m) k = if beqb p k then l else getl m k.
Proof. unfold getl. cbn [afind]. destruct (beqb p k); reflexivity. Qed.
Lemma beqb_true_iff a b : beqb a b = true <-> a = b.
Proof.
  unfold beqb. destruct (bcmp a b) eqn:E; split; intros H; try discriminate; try reflexivity.
  - now apply bcmp_eq.
  - subst. rewrite bcmp_refl in E. discriminate.
  - subst. rewrite bcmp_refl in E. discriminate.
Qed.
Lemma beqb_refl a : beqb a a = true.
Proof. now apply beqb_true_iff. Qed.

(** * no overflow: [cf_M (wrap (IS 64))] = [cf_M id] *)
Definition okp (pend : pmap) : Prop := forall k, Z.abs (getz pend k) <= Z.of_nat (length pend).
Notation w64 := (wrap (IS 64)).
Notation idz := (fun z : Z => z).

Lemma okp_nil : okp [].
Proof. intros k. cbn. nlia. Qed.

Lemma okp_cons pend p d : okp pend -> Z.abs d <= 1 -> okp ((p, getz pend p + d) :: pend).
Proof.
  intros H Hd k. rewrite getz_cons. cbn [length]. destruct (beqb p k) eqn:E.
  - specialize (H p). nlia.
  - specialize (H k). nlia.
Qed.

Lemma w64_small pend p d : okp pend -> Z.of_nat (length pend) < 2 ^ 62 -> Z.abs d <= 1 ->
  w64 (getz pend p + d) = getz pend p + d.
Proof. intros H L Hd. specialize (H p). apply wrap_s64. nlia. Qed.

Lemma lt62_le a b : (a <= b)%nat -> Z.of_nat b < 2 ^ 62 -> Z.of_nat a < 2 ^ 62.
Proof. nlia. Qed.

Section NoOverflow.
  Variable par : bytes -> option (list bytes).

  Lemma inner_len rm sum ps : forall st, (length (fst st) <= length (fst (cf_inner idz rm sum ps st)))%nat.
  Proof.
    induction ps as [|p ps IH]; intros st; cbn [cf_inner]; [apply le_n|].
    destruct (has rm p); [|apply IH]. etransitivity; [|apply IH]. cbn [fst length]. apply le_S, le_n.
  Qed.

  Lemma inner_w rm sum ps : forall st,
    okp (fst st) -> Z.of_nat (length (fst (cf_inner idz rm sum ps st))) < 2 ^ 62 ->
    cf_inner w64 rm sum ps st = cf_inner idz rm sum ps st /\ okp (fst (cf_inner idz rm sum ps st)).
  Proof.
    induction ps as [|p ps IH]; intros st Hok HL; cbn [cf_inner] in *; [auto|].
    destruct (has rm p); [|apply IH; auto].
    pose proof (inner_len rm sum ps ((p, getz (fst st) p + 1) :: fst st, (sum, getl (snd st) sum ++ [p]) :: snd st)) as Hl.
    cbn [fst length] in Hl.
    rewrite (w64_small (fst st) p 1 Hok) by nlia.
    apply IH; [|exact HL]. cbn [fst]. apply okp_cons; [exact Hok|nlia].
  Qed.

  Lemma build1_len rm st sum : (length (fst st) <= length (fst (cf_build1 idz par rm st sum)))%nat.
  Proof. unfold cf_build1. destruct (par sum); [apply inner_len|apply le_n]. Qed.

  Lemma build_fold_len rm sums : forall st,
    (length (fst st) <= length (fst (fold_left (cf_build1 idz par rm) sums st)))%nat.
  Proof.
    induction sums as [|s sums IH]; intros st; cbn [fold_left]; [apply le_n|].
    etransitivity; [apply (build1_len rm st s)|apply IH].
  Qed.

  Lemma build_fold_w rm sums : forall st,
    okp (fst st) -> Z.of_nat (length (fst (fold_left (cf_build1 idz par rm) sums st))) < 2 ^ 62 ->
    fold_left (cf_build1 w64 par rm) sums st = fold_left (cf_build1 idz par rm) sums st /\
    okp (fst (fold_left (cf_build1 idz par rm) sums st)).
  Proof.
    induction sums as [|s sums IH]; intros st Hok HL; cbn [fold_left] in *; [auto|].
    pose proof (build_fold_len rm sums (cf_build1 idz par rm st s)) as Hl.
    assert (E : cf_build1 w64 par rm st s = cf_build1 idz par rm st s /\ okp (fst (cf_build1 idz par rm st s))).
    { unfold cf_build1 at 1 2 3. unfold cf_build1 at 1 in Hl.
      destruct (par s) as [ps|]; [|auto]. apply inner_w; [exact Hok|]. eapply lt62_le; [exact Hl|exact HL]. }
    destruct E as [E1 E2]. rewrite E1. apply IH; auto.
  Qed.

  Lemma dec_len ps : forall st, (length (fst st) <= length (fst (cf_dec idz ps st)))%nat.
  Proof.
    induction ps as [|p ps IH]; intros st; cbn [cf_dec]; [apply le_n|].
    etransitivity; [|apply IH]. cbn [fst length]. apply le_S, le_n.
  Qed.

  Lemma dec_w ps : forall st,
    okp (fst st) -> Z.of_nat (length (fst (cf_dec idz ps st))) < 2 ^ 62 ->
    cf_dec w64 ps st = cf_dec idz ps st /\ okp (fst (cf_dec idz ps st)).
  Proof.
    induction ps as [|p ps IH]; intros st Hok HL; cbn [cf_dec] in *; [auto|].
    match type of HL with context [cf_dec _ ps ?st'] => pose proof (dec_len ps st') as Hl end.
    cbn [fst length] in Hl.
    change (getz (fst st) p - 1) with (getz (fst st) p + (-1)).
    rewrite (w64_small (fst st) p (-1) Hok) by nlia.
    apply IH; [|exact HL]. cbn [fst]. apply okp_cons; [exact Hok|nlia].
  Qed.

  Lemma loop_len fuel pars : forall pend q res r pendF,
    cf_loop idz fuel pars pend q res = Some (r, pendF) -> (length pend <= length pendF)%nat.
  Proof.
    induction fuel as [|f IH]; intros pend q res r pendF H; cbn [cf_loop] in H; [discriminate|].
    destruct q as [|s q'].
    - inversion H; subst. nlia.
    - apply IH in H. pose proof (dec_len (getl pars s) (pend, q')) as Hl. cbn [fst] in Hl. nlia.
  Qed.

  Lemma loop_w fuel pars : forall pend q res r pendF,
    okp pend -> cf_loop idz fuel pars pend q res = Some (r, pendF) ->
    Z.of_nat (length pendF) < 2 ^ 62 ->
    cf_loop w64 fuel pars pend q res = Some (r, pendF).
  Proof.
    induction fuel as [|f IH]; intros pend q res r pendF Hok H HL; cbn [cf_loop] in *; [discriminate|].
    destruct q as [|s q']; [exact H|].
    pose proof (loop_len _ _ _ _ _ _ _ H) as Hl.
    destruct (dec_w (getl pars s) (pend, q') Hok ltac:(nlia)) as [E1 E2].
    rewrite E1. apply IH; auto.
  Qed.

  Theorem cf_M_no_overflow fuel sums r pendF :
    cf_M idz par fuel sums = Some (r, pendF) -> Z.of_nat (length pendF) < 2 ^ 62 ->
    cf_M w64 par fuel sums = Some (r, pendF).
  Proof.
    unfold cf_M. intros H HL.
    pose proof (loop_len _ _ _ _ _ _ _ H) as Hl.
    destruct (build_fold_w (rm_of sums) sums ([], []) okp_nil) as [E1 E2].
    { unfold cf_build in Hl. nlia. }
    unfold cf_build in *. rewrite E1. apply loop_w; auto.
  Qed.
End NoOverflow.

Lemma map_VStr_snoc_gen {A B} (f : A -> B) l x : map f l ++ [f x] = map f (l ++ [x]).
Proof. now rewrite map_app. Qed.

(** * a generic Kahn function over any key type *)
Section G.
  Variable K : Type.
  Variable eqb : K -> K -> bool.
  Hypothesis eqb_spec : forall a b, eqb a b = true <-> a = b.
  Variable enc : K -> bytes.
  Hypothesis enc_inj : forall a b, enc a = enc b -> a = b.
  Variable raw : K -> option (list K).            (* the stored parents; None = GetCommit fails *)
  Variable par : bytes -> option (list bytes).
  Variable cs : list K.
  Hypothesis cs_nodup : NoDup cs.
  Hypothesis par_raw : forall c, In c cs -> par (enc c) = option_map (map enc) (raw c).

  Definition memk (x : K) (l : list K) : bool := existsb (eqb x) l.
  Definition cfp (c : K) : list K :=
    match raw c with Some ps => filter (fun p => memk p cs) ps | None => [] end.
  Definition cnt (x : K) (l : list K) : nat := length (filter (eqb x) l).
  Definition g_pend0 (x : K) : Z := Z.of_nat (cnt x (flat_map cfp cs)).
  Definition g_upd (pend : K -> Z) (p : K) (v : Z) : K -> Z := fun x => if eqb x p then v else pend x.
  Fixpoint g_dec (ps : list K) (st : (K -> Z) * list K) : (K -> Z) * list K :=
    match ps with
    | [] => st
    | p :: ps' =>
        let v := fst st p - 1 in
        g_dec ps' (g_upd (fst st) p v, if v =? 0 then snd st ++ [p] else snd st)
    end.
  Fixpoint g_loop (fuel : nat) (pend : K -> Z) (q res : list K) : option (list K) :=
    match fuel with
    | O => None
    | S f =>
        match q with
        | [] => Some res
        | s :: q' =>
            let st := g_dec (cfp s) (pend, q') in
            g_loop f (fst st) (snd st) (res ++ [s])
        end
    end.
  Definition g_cf : option (list K) :=
    g_loop (S (length cs)) g_pend0 (filter (fun c => g_pend0 c =? 0) cs) [].

  Lemma eqb_refl a : eqb a a = true.
  Proof. now apply eqb_spec. Qed.
  Lemma eqb_false a b : a <> b -> eqb a b = false.
  Proof. intros H. destruct (eqb a b) eqn:E; [apply eqb_spec in E; contradiction|reflexivity]. Qed.
  Lemma beqb_enc a b : beqb (enc a) (enc b) = eqb a b.
  Proof.
    destruct (eqb a b) eqn:E.
    - apply eqb_spec in E. subst. apply beqb_refl.
    - destruct (beqb (enc a) (enc b)) eqn:B; [|reflexivity].
      apply beqb_true_iff, enc_inj, eqb_spec in B. congruence.
  Qed.
  Lemma eqb_sym a b : eqb a b = eqb b a.
  Proof.
    destruct (eqb a b) eqn:E1, (eqb b a) eqn:E2; try reflexivity.
    - apply eqb_spec in E1. subst. rewrite eqb_refl in E2. discriminate.
    - apply eqb_spec in E2. subst. rewrite eqb_refl in E1. discriminate.
  Qed.
  Lemma memk_In x l : memk x l = true <-> In x l.
  Proof.
    unfold memk. rewrite existsb_exists. split.
    - intros (y & Hy & E). apply eqb_spec in E. now subst.
    - intros H. exists x. split; [exact H|apply eqb_refl].
  Qed.

  (** ** toRemove *)
  Lemma has_fold l : forall m k,
    has (fold_left (fun m s => (s, tt) :: m) l m) k = existsb (fun s => beqb s k) l || has m k.
  Proof.
    induction l as [|s l IH]; intros m k; cbn [fold_left existsb]; [reflexivity|].
    rewrite IH.
    assert (E : has ((s, tt) :: m) k = beqb s k || has m k)
      by (unfold has; cbn [afind]; destruct (beqb s k); reflexivity).
    rewrite E. destruct (existsb (fun s0 => beqb s0 k) l), (beqb s k), (has m k); reflexivity.
  Qed.

  Lemma existsb_enc p l : existsb (fun s => beqb s (enc p)) (map enc l) = existsb (eqb p) l.
  Proof.
    induction l as [|s l IH]; [reflexivity|]. cbn [map existsb].
    rewrite IH, beqb_enc, (eqb_sym s p). reflexivity.
  Qed.

  Lemma has_rm_enc p : has (rm_of (map enc cs)) (enc p) = memk p cs.
  Proof.
    unfold rm_of. rewrite has_fold. unfold has at 1. cbn [afind]. rewrite orb_false_r.
    apply existsb_enc.
  Qed.

  Notation rm := (rm_of (map enc cs)).
  Definition Rp (pm : pmap) (pg : K -> Z) : Prop := forall k, getz pm (enc k) = pg k.

  Lemma cnt_app x a b : cnt x (a ++ b) = (cnt x a + cnt x b)%nat.
  Proof. unfold cnt. now rewrite filter_app, app_length. Qed.
  Lemma cnt_cons x y l : cnt x (y :: l) = ((if eqb x y then 1 else 0) + cnt x l)%nat.
  Proof. unfold cnt. cbn [filter]. destruct (eqb x y); reflexivity. Qed.

  (** ** the counting loops *)
  Lemma inner_spec s ps : forall st,
    (forall k, getz (fst (cf_inner idz rm (enc s) (map enc ps) st)) (enc k)
               = getz (fst st) (enc k) + Z.of_nat (cnt k (filter (fun p => memk p cs) ps))) /\
    getl (snd (cf_inner idz rm (enc s) (map enc ps) st)) (enc s)
      = getl (snd st) (enc s) ++ map enc (filter (fun p => memk p cs) ps) /\
    (forall c, c <> s -> getl (snd (cf_inner idz rm (enc s) (map enc ps) st)) (enc c) = getl (snd st) (enc c)) /\
    length (fst (cf_inner idz rm (enc s) (map enc ps) st))
      = (length (fst st) + length (filter (fun p => memk p cs) ps))%nat.
  Proof.
    induction ps as [|p ps IH]; intros st; cbn [map cf_inner filter].
    - repeat split; intros; cbn; try nlia. now rewrite app_nil_r.
    - rewrite has_rm_enc. destruct (memk p cs) eqn:Hm.
      + destruct (IH ((enc p, getz (fst st) (enc p) + 1) :: fst st,
                      (enc s, getl (snd st) (enc s) ++ [enc p]) :: snd st)) as (I1 & I2 & I3 & I4).
        cbn [fst snd] in *. repeat split.
        * intros k. rewrite I1, getz_cons, beqb_enc, cnt_cons, (eqb_sym k p).
          destruct (eqb p k) eqn:E; [apply eqb_spec in E; subst|]; nlia.
        * rewrite I2, getl_cons, beqb_refl, <- app_assoc. reflexivity.
        * intros c Hc. rewrite I3 by exact Hc. rewrite getl_cons, beqb_enc, eqb_false; [reflexivity|congruence].
        * rewrite I4. cbn [length]. nlia.
      + apply IH.
  Qed.

  Lemma build_spec l : NoDup l -> incl l cs -> forall st,
    (forall c, In c l -> getl (snd st) (enc c) = []) ->
    (forall k, getz (fst (fold_left (cf_build1 idz par rm) (map enc l) st)) (enc k)
               = getz (fst st) (enc k) + Z.of_nat (cnt k (flat_map cfp l))) /\
    (forall c, In c l -> getl (snd (fold_left (cf_build1 idz par rm) (map enc l) st)) (enc c) = map enc (cfp c)) /\
    (forall c, ~ In c l -> getl (snd (fold_left (cf_build1 idz par rm) (map enc l) st)) (enc c) = getl (snd st) (enc c)) /\
    length (fst (fold_left (cf_build1 idz par rm) (map enc l) st))
      = (length (fst st) + length (flat_map cfp l))%nat.
  Proof.
    induction l as [|c0 l IH]; intros Hnd Hincl st Hemp; cbn [map fold_left flat_map].
    - repeat split; intros; cbn; try nlia; try reflexivity; try contradiction.
    - inversion Hnd as [|? ? Hc0 Hnd']; subst.
      assert (Hin0 : In c0 cs) by (apply Hincl; now left).
      assert (Hincl' : incl l cs) by (intros x Hx; apply Hincl; now right).
      set (st1 := cf_build1 idz par rm st (enc c0)).
      assert (S1 : (forall k, getz (fst st1) (enc k) = getz (fst st) (enc k) + Z.of_nat (cnt k (cfp c0))) /\
                   getl (snd st1) (enc c0) = map enc (cfp c0) /\
                   (forall c, c <> c0 -> getl (snd st1) (enc c) = getl (snd st) (enc c)) /\
                   length (fst st1) = (length (fst st) + length (cfp c0))%nat).
      { unfold st1, cf_build1, cfp. rewrite (par_raw c0 Hin0). destruct (raw c0) as [ps|]; cbn [option_map].
        - destruct (inner_spec c0 ps st) as (I1 & I2 & I3 & I4).
          repeat split; auto. rewrite I2, Hemp by (now left). reflexivity.
        - repeat split; intros; cbn; try nlia. apply Hemp. now left. }
      destruct S1 as (S1 & S2 & S3 & S4).
      destruct (IH Hnd' Hincl' st1) as (I1 & I2 & I3 & I4).
      { intros c Hc. rewrite S3; [apply Hemp; now right|]. intros ->. contradiction. }
      unfold lmap, pmap in *. repeat split.
      + intros k. rewrite I1, S1, cnt_app. nlia.
      + intros c [<-|Hc]; [|now apply I2]. rewrite I3 by exact Hc0. exact S2.
      + intros c Hc. rewrite I3 by (intros H; apply Hc; now right).
        apply S3. intros ->. apply Hc. now left.
      + rewrite I4, S4, app_length. nlia.
  Qed.

  (** ** the queue *)
  Lemma queue_spec pm pg : Rp pm pg -> forall l q,
    fold_left (cf_queue1 pm) (map enc l) (map enc q) = map enc (q ++ filter (fun c => pg c =? 0) l).
  Proof.
    intros HR. induction l as [|c l IH]; intros q; cbn [map fold_left filter].
    - now rewrite app_nil_r.
    - unfold cf_queue1 at 2. rewrite HR. destruct (pg c =? 0).
      + rewrite map_VStr_snoc_gen. rewrite IH. now rewrite <- app_assoc.
      + apply IH.
  Qed.

  (** ** the decrement loop and the main loop *)
  Lemma dec_spec ps : forall pm pg q, Rp pm pg ->
    Rp (fst (cf_dec idz (map enc ps) (pm, map enc q))) (fst (g_dec ps (pg, q))) /\
    snd (cf_dec idz (map enc ps) (pm, map enc q)) = map enc (snd (g_dec ps (pg, q))) /\
    length (fst (cf_dec idz (map enc ps) (pm, map enc q))) = (length pm + length ps)%nat.
  Proof.
    induction ps as [|p ps IH]; intros pm pg q HR; cbn [map cf_dec g_dec fst snd].
    - repeat split; auto.
    - rewrite getz_cons, beqb_refl, (HR p).
      assert (HR' : Rp ((enc p, pg p - 1) :: pm) (g_upd pg p (pg p - 1))).
      { intros k. rewrite getz_cons, beqb_enc, (HR k). unfold g_upd. now rewrite (eqb_sym k p). }
      destruct (pg p - 1 =? 0).
      + rewrite map_VStr_snoc_gen. destruct (IH _ _ (q ++ [p]) HR') as (I1 & I2 & I3).
        unfold lmap, pmap in *. repeat split; auto. rewrite I3. cbn [length]. lia.
      + destruct (IH _ _ q HR') as (I1 & I2 & I3).
        unfold lmap, pmap in *. repeat split; auto. rewrite I3. cbn [length]. lia.
  Qed.

  Lemma cfp_incl c : incl (cfp c) cs.
  Proof.
    unfold cfp. destruct (raw c); [|intros x []]. intros x Hx.
    apply filter_In in Hx. now apply memk_In.
  Qed.

  Lemma g_dec_incl ps : forall pg q, incl ps cs -> incl q cs -> incl (snd (g_dec ps (pg, q))) cs.
  Proof.
    induction ps as [|p ps IH]; intros pg q Hps Hq; cbn [g_dec fst snd]; [exact Hq|].
    apply IH.
    - intros x Hx. apply Hps. now right.
    - destruct (pg p - 1 =? 0); [|exact Hq].
      intros x Hx. apply in_app_or in Hx. destruct Hx as [Hx|[<-|[]]]; [now apply Hq|apply Hps; now left].
  Qed.

  Lemma loop_spec pars : (forall c, In c cs -> getl pars (enc c) = map enc (cfp c)) ->
    forall f pm pg q res out, Rp pm pg -> incl q cs -> g_loop f pg q res = Some out ->
    exists pendF d,
      cf_loop idz f pars pm (map enc q) (map enc res) = Some (map enc out, pendF) /\
      out = res ++ d /\ length pendF = (length pm + length (flat_map cfp d))%nat.
  Proof.
    intros Hpars. induction f as [|f IH]; intros pm pg q res out HR Hq HG; cbn [g_loop cf_loop] in *; [discriminate|].
    destruct q as [|s q']; cbn [map].
    - inversion HG; subst. exists pm, []. rewrite app_nil_r. cbn. repeat split; auto.
    - assert (Hs : In s cs) by (apply Hq; now left).
      rewrite (Hpars s Hs).
      destruct (dec_spec (cfp s) pm pg q' HR) as (D1 & D2 & D3).
      rewrite D2, map_VStr_snoc_gen.
      destruct (IH _ _ _ _ _ D1 (g_dec_incl _ pg q' (cfp_incl s) (fun x Hx => Hq x (or_intror Hx))) HG)
        as (pendF & d & E1 & E2 & E3).
      exists pendF, (s :: d). split; [exact E1|]. split.
      + rewrite E2, <- app_assoc. reflexivity.
      + rewrite E3, D3. cbn [flat_map]. rewrite app_length. nlia.
  Qed.

  Theorem cf_M_g out : g_cf = Some out ->
    exists pendF, cf_M idz par (S (length cs)) (map enc cs) = Some (map enc out, pendF) /\
                  length pendF = (length (flat_map cfp cs) + length (flat_map cfp out))%nat.
  Proof.
    unfold g_cf, cf_M. intros HG.
    destruct (build_spec cs cs_nodup (fun x H => H) ([], [])) as (B1 & B2 & B3 & B4); [reflexivity|].
    unfold cf_build.
    set (st := fold_left (cf_build1 idz par rm) (map enc cs) ([], [])) in *.
    assert (HR : Rp (fst st) g_pend0).
    { intros k. rewrite B1. unfold g_pend0. cbn. reflexivity. }
    unfold cf_queue0. change (@nil bytes) with (map enc []).
    rewrite (queue_spec _ _ HR cs []). cbn [app].
    assert (Hq0 : incl (filter (fun c => g_pend0 c =? 0) cs) cs)
      by (intros x Hx; apply filter_In in Hx; apply Hx).
    destruct (loop_spec (snd st) B2 _ (fst st) g_pend0 _ [] out HR Hq0 HG) as (pendF & d & E1 & E2 & E3).
    exists pendF. split; [exact E1|]. cbn [app] in E2. subst d. rewrite E3, B4. reflexivity.
  Qed.
End G.

(** * lengths of flat_map over a duplicate-free sublist *)
Lemma flat_map_length_incl {A B} (f : A -> list B) (l1 : list A) : forall l2,
  NoDup l1 -> incl l1 l2 -> (length (flat_map f l1) <= length (flat_map f l2))%nat.
Proof.
  induction l1 as [|x l1 IH]; intros l2 Hnd Hincl; cbn [flat_map]; [cbn; lia|].
  inversion Hnd as [|? ? Hx Hnd']; subst.
  destruct (in_split x l2 (Hincl x (or_introl eq_refl))) as (a & b & ->).
  rewrite flat_map_app. cbn [flat_map]. rewrite !app_length.
  specialize (IH (a ++ b) Hnd').
  rewrite flat_map_app, app_length in IH.
  assert (incl l1 (a ++ b)).
  { intros y Hy. specialize (Hincl y (or_intror Hy)). apply in_app_or in Hincl.
    apply in_or_app. destruct Hincl as [H|[H|H]]; auto. subst. contradiction. }
  specialize (IH H). lia.
Qed.

(** * from the generic function to the translated code *)
Section ToCode.
  Variable K : Type.
  Variable eqb : K -> K -> bool.
  Hypothesis eqb_spec : forall a b, eqb a b = true <-> a = b.
  Variable enc : K -> bytes.
  Hypothesis enc_inj : forall a b, enc a = enc b -> a = b.
  Variable raw : K -> option (list K).
  Variable par : bytes -> option (list bytes).
  Variable cs : list K.
  Hypothesis cs_nodup : NoDup cs.
  Hypothesis par_raw : forall c, In c cs -> par (enc c) = option_map (map enc) (raw c).

  Theorem code_of_g out :
    g_cf K eqb raw cs = Some out -> NoDup out -> incl out cs ->
    2 * Z.of_nat (length (flat_map (cfp K eqb raw cs) cs)) < 2 ^ 62 ->
    exists fuel, run_func fuel (with_oracle go_prog (cf_oracle par)) go_childrenFirst
                          [VNil; v_strs (map enc cs)]
                 = FOk [v_strs (map enc out)] [].
  Proof.
    intros HG Hnd Hincl HT.
    destruct (cf_M_g K eqb eqb_spec enc enc_inj raw par cs cs_nodup par_raw out HG) as (pendF & HM & HL).
    pose proof (flat_map_length_incl (cfp K eqb raw cs) out cs Hnd Hincl) as Hle.
    eapply go_childrenFirst_M. apply cf_M_no_overflow; [exact HM|]. lia.
  Qed.
End ToCode.
