(** A small program logic for [prog] over [exec_pure]:

      spec F c J K p R

    says that on every well-formed input s shorter than the fuel F, running p from s
    consumes a prefix d of s, never panics, never runs out of fuel, and with dm the bytes
    it allocated:
      - if it returns a:   dm <= c*|d| + J a   and  R a |d|
      - if it fails:       dm <= c*|d| + K.
    J and K are integers: a negative J is allocation budget "banked" by consumed input,
    which is how pre-allocations capped by a count are paid for by the elements read. *)
From Coq Require Import String.
From Coq Require Import List Lia Arith ZArith ZifyNat ZifyN ZifyBool.
From W.lib Require Import Tree Bytes GoSlice Reader.
From W.model Require Import DecPrim.
Local Open Scope N_scope.

(** ** exec_pure and the monad *)
Lemma exec_pure_bind {A B} (p : prog A) (f : A -> prog B) s m :
  exec_pure (bind p f) s m =
  match exec_pure p s m with
  | (Ok a, s', m') => exec_pure (f a) s' m'
  | (Err e, s', m') => (Err e, s', m')
  | (Panic, s', m') => (Panic, s', m')
  end.
Proof.
  revert s m; induction p as [a|e| |st n k IH|st n k IH|c k IH]; intros s m; cbn; auto.
  - destruct (pure_read_full n s) as [[d e] s']. apply IH.
  - destruct (pure_copy_n n s) as [[d e] s']. apply IH.
Qed.

Lemma exec_pure_attempt {A} (p : prog A) s m :
  exec_pure (attempt p) s m =
  match exec_pure p s m with
  | (Ok a, s', m') => (Ok (inr a), s', m')
  | (Err e, s', m') => (Ok (inl e), s', m')
  | (Panic, s', m') => (Panic, s', m')
  end.
Proof.
  revert s m; induction p as [a|e| |st n k IH|st n k IH|c k IH]; intros s m; cbn; auto.
  - destruct (pure_read_full n s) as [[d e] s']. apply IH.
  - destruct (pure_copy_n n s) as [[d e] s']. apply IH.
Qed.

(** ** spec *)
Definition post {A} (c : N) (J : A -> Z) (K : Z) (R : A -> nat -> Prop)
           (r : res A) (n : nat) (dm : N) : Prop :=
  match r with
  | Ok a => (Z.of_N dm <= Z.of_N c * Z.of_nat n + J a)%Z /\ R a n
  | Err e => e <> CFuel /\ (Z.of_N dm <= Z.of_N c * Z.of_nat n + K)%Z
  | Panic => False
  end.

Definition spec {A} (F : nat) (c : N) (J : A -> Z) (K : Z) (p : prog A) (R : A -> nat -> Prop) : Prop :=
  forall s m, (length s < F)%nat -> wf_bytes s ->
  exists r d s' dm,
    exec_pure p s m = (r, s', m + dm) /\ s = d ++ s' /\ post c J K R r (length d) dm.

Lemma wf_app a b : wf_bytes (a ++ b) -> wf_bytes a /\ wf_bytes b.
Proof. unfold wf_bytes. rewrite Forall_app. auto. Qed.

Lemma spec_ret {A} F c J K (a : A) (R : A -> nat -> Prop) : (0 <= J a)%Z -> R a 0%nat -> spec F c J K (Ret a) R.
Proof.
  intros HJ HR s m _ _. exists (Ok a), [], s, 0. cbn. rewrite N.add_0_r.
  repeat split; auto. lia.
Qed.

Lemma spec_fail {A} F c (J : A -> Z) K e (R : A -> nat -> Prop) : e <> CFuel -> (0 <= K)%Z -> spec F c J K (Fail e) R.
Proof.
  intros He HK s m _ _. exists (Err e), [], s, 0. cbn. rewrite N.add_0_r.
  repeat split; auto. lia.
Qed.

Lemma spec_conseq {A} F c (J J' : A -> Z) K K' (p : prog A) (R R' : A -> nat -> Prop) :
  spec F c J K p R ->
  (forall a n, R a n -> (J a <= J' a)%Z /\ R' a n) -> (K <= K')%Z ->
  spec F c J' K' p R'.
Proof.
  intros H HR HK s m Hs Hw. destruct (H s m Hs Hw) as (r & d & s' & dm & E & Es & P).
  exists r, d, s', dm. repeat split; auto.
  destruct r as [a|e|]; cbn in *; auto.
  - destruct P as [P1 P2]. destruct (HR _ _ P2). split; auto. lia.
  - destruct P; split; auto. lia.
Qed.

Lemma spec_mono_c {A} F c c' (J : A -> Z) K (p : prog A) (R : A -> nat -> Prop) :
  c <= c' -> spec F c J K p R -> spec F c' J K p R.
Proof.
  intros Hc H s m Hs Hw. destruct (H s m Hs Hw) as (r & d & s' & dm & E & Es & P).
  exists r, d, s', dm. repeat split; auto.
  destruct r as [a|e|]; cbn in *; auto.
  - destruct P; split; auto. nia.
  - destruct P; split; auto. nia.
Qed.

Lemma spec_bind {A B} F c (J1 : A -> Z) K1 (J : B -> Z) K (p : prog A) (f : A -> prog B) (R1 : A -> nat -> Prop) (R : B -> nat -> Prop) :
  spec F c J1 K1 p R1 ->
  (K1 <= K)%Z ->
  (forall a n1, R1 a n1 ->
     spec F c (fun b => J b - J1 a)%Z (K - J1 a)%Z (f a) (fun b n2 => R b (n1 + n2)%nat)) ->
  spec F c J K (bind p f) R.
Proof.
  intros Hp HK Hf s m Hs Hw. rewrite exec_pure_bind.
  destruct (Hp s m Hs Hw) as (r & d & s' & dm & E & Es & P). rewrite E.
  destruct r as [a|e|]; cbn in P.
  - destruct P as [P1 P2].
    assert (Hw' : wf_bytes s') by (subst s; apply wf_app in Hw; tauto).
    assert (Hs' : (length s' < F)%nat) by (subst s; rewrite app_length in Hs; lia).
    destruct (Hf a _ P2 s' (m + dm) Hs' Hw') as (r2 & d2 & s2 & dm2 & E2 & Es2 & Q).
    exists r2, (d ++ d2), s2, (dm + dm2). rewrite E2.
    split; [f_equal; lia|]. split; [subst; now rewrite app_assoc|].
    rewrite app_length.
    destruct r2 as [b|e2|]; cbn in *; auto.
    + destruct Q; split; auto. lia.
    + destruct Q; split; auto. lia.
  - exists (Err e), d, s', dm. split; [reflexivity|]. split; [assumption|].
    cbn. destruct P as [P1 P2]. split; [assumption|lia].
  - destruct P.
Qed.

Lemma spec_attempt {A} F c (J : A -> Z) K (p : prog A) (R : A -> nat -> Prop) :
  spec F c J K p R ->
  spec F c (fun x => match x with inr a => J a | inl _ => K end) 0%Z (attempt p)
       (fun x n => match x with inr a => R a n | inl e => e <> CFuel end).
Proof.
  intros H s m Hs Hw. rewrite exec_pure_attempt.
  destruct (H s m Hs Hw) as (r & d & s' & dm & E & Es & P). rewrite E.
  destruct r as [a|e|]; cbn in P.
  - exists (Ok (inr a)), d, s', dm. auto.
  - exists (Ok (inl e)), d, s', dm. split; [reflexivity|]. split; [assumption|]. cbn. tauto.
  - destruct P.
Qed.

(** ** primitives *)
Lemma spec_alloc F c K x : spec F c (fun _ => Z.of_N x) K (alloc x) (fun _ n => n = 0%nat).
Proof.
  intros s m _ _. exists (Ok tt), [], s, x. cbn. repeat split; auto. lia.
Qed.

Lemma wf_firstn n b : wf_bytes b -> wf_bytes (firstn n b).
Proof.
  intros H. rewrite <- (firstn_skipn n b) in H. apply wf_app in H. tauto.
Qed.

Lemma wf_skipn n b : wf_bytes b -> wf_bytes (skipn n b).
Proof.
  intros H. rewrite <- (firstn_skipn n b) in H. apply wf_app in H. tauto.
Qed.

(** what one ReadFull can return *)
Definition rd_post (n : nat) (x : bytes * ioerr) (n1 : nat) : Prop :=
  let '(d, e) := x in
  n1 = length d /\ wf_bytes d /\
  ((e = None /\ length d = n) \/
   (e = Some CEof /\ d = [] /\ (0 < n)%nat) \/
   (e = Some CUnexp /\ (0 < length d < n)%nat)).

Lemma spec_rdf F c K st n :
  spec F c (fun x => - Z.of_N c * Z.of_nat (length (fst x)))%Z K (rdf st n) (rd_post n).
Proof.
  intros s m Hs Hw. cbn. unfold pure_read_full.
  destruct (n <=? length s)%nat eqn:E.
  - apply Nat.leb_le in E.
    exists (Ok (firstn n s, None)), (firstn n s), (skipn n s), 0. rewrite N.add_0_r.
    split; [reflexivity|]. split; [now rewrite firstn_skipn|].
    cbn. rewrite firstn_length. split; [lia|].
    split; [reflexivity|]. split; [now apply wf_firstn|]. left. split; auto. lia.
  - apply Nat.leb_gt in E.
    exists (Ok (s, Some (eof_or_unexpected s))), s, [], 0. rewrite N.add_0_r.
    split; [reflexivity|]. split; [now rewrite app_nil_r|].
    cbn. split; [lia|]. split; [reflexivity|]. split; [assumption|].
    destruct s; cbn in *; [right; left; split; auto; split; auto; lia|right; right; split; auto; lia].
Qed.

Definition cp_post (n : N) (x : bytes * ioerr) (n1 : nat) : Prop :=
  let '(d, e) := x in
  n1 = length d /\ wf_bytes d /\
  ((e = None /\ N.of_nat (length d) = n) \/ (e = Some CEof /\ N.of_nat (length d) < n)).

Lemma spec_cpf F c K st n :
  spec F c (fun x => - Z.of_N c * Z.of_nat (length (fst x)))%Z K (cpf st n) (cp_post n).
Proof.
  intros s m Hs Hw. cbn. unfold pure_copy_n.
  destruct (n <=? N.of_nat (length s)) eqn:E.
  - apply N.leb_le in E.
    exists (Ok (firstn (N.to_nat n) s, None)), (firstn (N.to_nat n) s), (skipn (N.to_nat n) s), 0.
    rewrite N.add_0_r. split; [reflexivity|]. split; [now rewrite firstn_skipn|].
    cbn. rewrite firstn_length. split; [lia|].
    split; [reflexivity|]. split; [now apply wf_firstn|]. left. split; auto. lia.
  - apply N.leb_gt in E.
    exists (Ok (s, Some CEof)), s, [], 0. rewrite N.add_0_r.
    split; [reflexivity|]. split; [now rewrite app_nil_r|].
    cbn. split; [lia|]. split; [reflexivity|]. split; [assumption|]. right. split; auto.
Qed.

Lemma spec_lift {A} F c (J : A -> Z) K (r : res A) (R : A -> nat -> Prop) :
  match r with
  | Ok a => (0 <= J a)%Z /\ R a 0%nat
  | Err e => e <> CFuel /\ (0 <= K)%Z
  | Panic => False
  end -> spec F c J K (lift r) R.
Proof.
  destruct r as [a|e|]; cbn; intros H.
  - apply spec_ret; tauto.
  - apply spec_fail; tauto.
  - destruct H.
Qed.

(** ** loops *)
Lemma spec_for_n {S} F c (g : Z) K (P : N -> S -> Prop) (body : N -> S -> prog S) (n : N) :
  (0 <= g)%Z -> (0 <= K)%Z ->
  (forall i st, i < n -> P i st ->
     spec F c (fun _ => - g)%Z K (body i st) (fun st' n1 => (1 <= n1)%nat /\ P (i + 1) st')) ->
  forall i st, i <= n -> P i st ->
  spec F c (fun _ => - g * Z.of_N (n - i))%Z K (for_n F body n i st) (fun st' _ => P n st').
Proof.
  intros Hg HK Hbody.
  assert (G : forall f, (f <= F)%nat -> forall i st, i <= n -> P i st ->
     forall s m, (length s < f)%nat -> wf_bytes s ->
     exists r d s' dm, exec_pure (for_n f body n i st) s m = (r, s', m + dm) /\ s = d ++ s' /\
       post c (fun _ => - g * Z.of_N (n - i))%Z K (fun st' _ => P n st') r (length d) dm).
  { induction f as [|f IH]; intros Hf i st Hi HP s m Hs Hw; [lia|].
    cbn [for_n]. destruct (i <? n) eqn:E.
    - apply N.ltb_lt in E. rewrite exec_pure_bind.
      destruct (Hbody i st E HP s m ltac:(lia) Hw) as (r & d & s' & dm & Ex & Es & Q). rewrite Ex.
      destruct r as [st'|e|]; cbn in Q.
      + destruct Q as [Q1 [Q2 Q3]].
        assert (Hw' : wf_bytes s') by (subst s; apply wf_app in Hw; tauto).
        assert (Hs' : (length s' < f)%nat) by (subst s; rewrite app_length in Hs; lia).
        destruct (IH ltac:(lia) (i + 1) st' ltac:(lia) Q3 s' (m + dm) Hs' Hw')
          as (r2 & d2 & s2 & dm2 & E2 & Es2 & Q').
        exists r2, (d ++ d2), s2, (dm + dm2). rewrite E2.
        split; [f_equal; lia|]. split; [subst; now rewrite app_assoc|].
        rewrite app_length.
        destruct r2 as [b|e2|]; cbn in *; auto.
        * destruct Q'; split; auto. nia.
        * destruct Q'; split; auto. nia.
      + exists (Err e), d, s', dm. split; [reflexivity|]. split; [assumption|]. cbn. tauto.
      + destruct Q.
    - apply N.ltb_ge in E. assert (i = n) by lia. subst i.
      exists (Ok st), [], s, 0. cbn. rewrite N.add_0_r. repeat split; auto. lia. }
  intros i st Hi HP s m Hs Hw. apply (G F (Nat.le_refl _) i st Hi HP s m Hs Hw).
Qed.

(** for_n with a potential on the loop state (scratch buffers that only grow): an iteration
    may spend what the potential gains. *)
Lemma spec_for_n_pot {S} F c (g : Z) K (Phi : S -> Z) (PhiMax : Z) (P : N -> S -> Prop)
      (body : N -> S -> prog S) (n : N) :
  (0 <= g)%Z ->
  (forall i st, i < n -> P i st ->
     spec F c (fun st' => - g + Phi st' - Phi st)%Z (K + PhiMax - Phi st)%Z (body i st)
          (fun st' n1 => (1 <= n1)%nat /\ P (i + 1) st')) ->
  forall i st, i <= n -> P i st ->
  spec F c (fun st' => - g * Z.of_N (n - i) + Phi st' - Phi st)%Z (K + PhiMax - Phi st)%Z
       (for_n F body n i st) (fun st' _ => P n st').
Proof.
  intros Hg Hbody.
  assert (G : forall f, (f <= F)%nat -> forall i st, i <= n -> P i st ->
     forall s m, (length s < f)%nat -> wf_bytes s ->
     exists r d s' dm, exec_pure (for_n f body n i st) s m = (r, s', m + dm) /\ s = d ++ s' /\
       post c (fun st' => - g * Z.of_N (n - i) + Phi st' - Phi st)%Z (K + PhiMax - Phi st)%Z
            (fun st' _ => P n st') r (length d) dm).
  { induction f as [|f IH]; intros Hf i st Hi HP s m Hs Hw; [lia|].
    cbn [for_n]. destruct (i <? n) eqn:E.
    - apply N.ltb_lt in E. rewrite exec_pure_bind.
      destruct (Hbody i st E HP s m ltac:(lia) Hw) as (r & d & s' & dm & Ex & Es & Q). rewrite Ex.
      destruct r as [st'|e|]; cbn in Q.
      + destruct Q as [Q1 [Q2 Q3]].
        assert (Hw' : wf_bytes s') by (subst s; apply wf_app in Hw; tauto).
        assert (Hs' : (length s' < f)%nat) by (subst s; rewrite app_length in Hs; lia).
        destruct (IH ltac:(lia) (i + 1) st' ltac:(lia) Q3 s' (m + dm) Hs' Hw')
          as (r2 & d2 & s2 & dm2 & E2 & Es2 & Q').
        exists r2, (d ++ d2), s2, (dm + dm2). rewrite E2.
        split; [f_equal; lia|]. split; [subst; now rewrite app_assoc|].
        rewrite app_length.
        destruct r2 as [b|e2|]; cbn in *; auto.
        * destruct Q'; split; auto. nia.
        * destruct Q'; split; auto. nia.
      + exists (Err e), d, s', dm. split; [reflexivity|]. split; [assumption|]. cbn.
        destruct Q. split; [assumption|lia].
      + destruct Q.
    - apply N.ltb_ge in E. assert (i = n) by lia. subst i.
      exists (Ok st), [], s, 0. cbn. rewrite N.add_0_r. repeat split; auto. lia. }
  intros i st Hi HP s m Hs Hw. apply (G F (Nat.le_refl _) i st Hi HP s m Hs Hw).
Qed.

Lemma spec_loop_u {S R0} F c (Jx : R0 -> Z) K (P : S -> Prop) (body : S -> prog (S + R0))
      (R : R0 -> nat -> Prop) :
  (0 <= K)%Z ->
  (forall r n n', R r n -> R r (n' + n)%nat) ->
  (forall st, P st ->
     spec F c (fun x => match x with inl _ => 0 | inr r => Jx r end)%Z K (body st)
          (fun x n1 => match x with inl st' => (1 <= n1)%nat /\ P st' | inr r => R r n1 end)) ->
  forall st, P st -> spec F c Jx K (loop_u F body st) R.
Proof.
  intros HK Hmono Hbody.
  assert (G : forall f, (f <= F)%nat -> forall st, P st ->
     forall s m, (length s < f)%nat -> wf_bytes s ->
     exists r d s' dm, exec_pure (loop_u f body st) s m = (r, s', m + dm) /\ s = d ++ s' /\
       post c Jx K R r (length d) dm).
  { induction f as [|f IH]; intros Hf st HP s m Hs Hw; [lia|].
    cbn [loop_u]. rewrite exec_pure_bind.
    destruct (Hbody st HP s m ltac:(lia) Hw) as (r & d & s' & dm & Ex & Es & Q). rewrite Ex.
    destruct r as [[st'|r0]|e|]; cbn in Q.
    - destruct Q as [Q1 [Q2 Q3]].
      assert (Hw' : wf_bytes s') by (subst s; apply wf_app in Hw; tauto).
      assert (Hs' : (length s' < f)%nat) by (subst s; rewrite app_length in Hs; lia).
      destruct (IH ltac:(lia) st' Q3 s' (m + dm) Hs' Hw') as (r2 & d2 & s2 & dm2 & E2 & Es2 & Q').
      exists r2, (d ++ d2), s2, (dm + dm2). rewrite E2.
      split; [f_equal; lia|]. split; [subst; now rewrite app_assoc|].
      rewrite app_length.
      destruct r2 as [b|e2|]; cbn in *; auto.
      + destruct Q'; split; auto. lia.
      + destruct Q'; split; auto. lia.
    - exists (Ok r0), d, s', dm. split; [reflexivity|]. split; [assumption|]. cbn. tauto.
    - exists (Err e), d, s', dm. split; [reflexivity|]. split; [assumption|]. cbn. tauto.
    - destruct Q. }
  intros st HP s m Hs Hw. apply (G F (Nat.le_refl _) st HP s m Hs Hw).
Qed.

(** a spec proved at rate c, used at a higher rate c': every consumed byte gains c' - c *)
Lemma spec_mono_c_gain {A} F c c' (k : nat) (J : A -> Z) K (p : prog A) (R : A -> nat -> Prop) :
  c <= c' -> (forall a n, R a n -> (k <= n)%nat) ->
  spec F c J K p R ->
  spec F c' (fun a => J a - (Z.of_N c' - Z.of_N c) * Z.of_nat k)%Z K p R.
Proof.
  intros Hc Hk H s m Hs Hw. destruct (H s m Hs Hw) as (r & d & s' & dm & E & Es & P).
  exists r, d, s', dm. repeat split; auto.
  destruct r as [a|e|]; cbn in *; auto.
  - destruct P as [P1 P2]. split; auto. specialize (Hk _ _ P2). nia.
  - destruct P; split; auto. nia.
Qed.

(** ** byte-level facts *)
Lemma pad_length n d : length (pad n d) = n.
Proof. unfold pad. rewrite app_length, firstn_length, repeat_length. lia. Qed.

Lemma wf_repeat0 k : wf_bytes (repeat 0 k).
Proof. induction k; cbn; constructor; auto. unfold wf_byte; lia. Qed.

Lemma wf_pad n d : wf_bytes d -> wf_bytes (pad n d).
Proof.
  intros H. unfold pad. apply Forall_app. split; [now apply wf_firstn|apply wf_repeat0].
Qed.

Lemma pad_exact n d : length d = n -> pad n d = d.
Proof.
  intros H. unfold pad. rewrite firstn_all2 by lia. replace (n - length d)%nat with 0%nat by lia.
  cbn. now rewrite app_nil_r.
Qed.

Lemma unbe_bound b : wf_bytes b -> unbe b < 256 ^ N.of_nat (length b).
Proof.
  unfold unbe. intros H.
  assert (G : forall acc k, acc < 256 ^ k ->
            fold_left (fun a x => a * 256 + x) b acc < 256 ^ (k + N.of_nat (length b))).
  { induction H as [|x b Hx Hb IH]; intros acc k Ha; cbn [fold_left length].
    - now rewrite N.add_0_r.
    - replace (k + N.of_nat (S (length b))) with ((k + 1) + N.of_nat (length b)) by lia.
      apply IH. rewrite N.pow_add_r. unfold wf_byte in Hx. cbn. nia. }
  apply (G 0 0). cbn. lia.
Qed.

Lemma be_uint_ok w b : length b = w -> wf_bytes b ->
  exists v, be_uint w b = Ok v /\ v < 256 ^ N.of_nat w.
Proof.
  intros Hl Hw. unfold be_uint. replace (w <=? length b)%nat with true by (symmetry; apply Nat.leb_le; lia).
  rewrite firstn_all2 by lia. eexists; split; [reflexivity|]. rewrite <- Hl. now apply unbe_bound.
Qed.

Lemma be_u16_ok b : length b = 2%nat -> wf_bytes b -> exists v, be_u16 b = Ok v /\ v < 65536.
Proof. intros. destruct (be_uint_ok 2 b) as (v & ? & ?); auto. exists v. split; auto. Qed.
Lemma be_u32_ok b : length b = 4%nat -> wf_bytes b -> exists v, be_u32 b = Ok v /\ v < 4294967296.
Proof. intros. destruct (be_uint_ok 4 b) as (v & ? & ?); auto. exists v. split; auto. Qed.
Lemma be_u64_ok b : length b = 8%nat -> wf_bytes b -> exists v, be_u64 b = Ok v /\ v < 18446744073709551616.
Proof. intros. destruct (be_uint_ok 8 b) as (v & ? & ?); auto. exists v. split; auto. Qed.

Lemma idx_ok {A} (l : list A) i : (i < length l)%nat -> exists x, idx l i = Ok x /\ In x l.
Proof.
  intros H. unfold idx. destruct (nth_error l i) eqn:E.
  - eexists; split; eauto. eapply nth_error_In; eauto.
  - apply nth_error_None in E. lia.
Qed.
