(** C16 - the worker pool: data invariant (nothing lost, nothing duplicated, the counter
    is the sum) and the result theorems. *)
From W.lib Require Import Tree.
From W.model Require Import Pool PoolSpec.
From W.proofs Require Import PoolBase_proofs Pool_proofs.
From Coq Require Import Arith Lia ZifyNat ZifyN ZifyBool Sorting.Permutation.
Local Open Scope nat_scope.
Set Default Proof Using "All".

Definition is_write (f : field) (a : act) : bool :=
  match a with AWrite g => field_eqb f g | _ => false end.
(* the block a worker still has to add to field [f] *)
Definition fl (f : field) (wk : worker) : list blk :=
  match w_st wk with
  | WBody pc cur => if existsb (is_write f) pc then [cur] else []
  | _ => []
  end.
Definition is_nil {A} (l : list A) : bool := match l with [] => true | _ => false end.
(** some worker or the producer has hit an error *)
Definition errored (s : st) : bool :=
  negb (is_nil (ebuf s)) || negb (is_nil (sbuf s)) || existsb is_werr (ws s).

Definition is_saveblk (a : act) : bool := match a with ASaveBlk => true | _ => false end.
Definition is_saveidx (a : act) : bool := match a with ASaveIdx => true | _ => false end.
(* once past SaveBlock / SaveBlockIndex the object is in the store and the write did not fail *)
Definition wdata_ok (sto : list obj) (wk : worker) : Prop :=
  match w_st wk with
  | WBody pc cur =>
      (existsb is_saveblk pc = false -> b_fail cur <> FBlk /\ In (OBlk (b_off cur)) sto) /\
      (existsb is_saveidx pc = false -> b_fail cur <> FIdx /\ In (OIdx (b_off cur)) sto)
  | _ => True
  end.

Lemma flat_map_set_nth {A B} (f : A -> list B) k x y l :
  nth_error l k = Some y ->
  exists F1 F2, flat_map f l = F1 ++ f y ++ F2 /\ flat_map f (set_nth k x l) = F1 ++ f x ++ F2.
Proof.
  intros H. destruct (set_nth_split k x y l H) as (l1 & l2 & -> & _ & ->).
  exists (flat_map f l1), (flat_map f l2). rewrite !flat_map_app. simpl. auto.
Qed.

Lemma perm_frame {A} (a x' b a0 x b0 F1 F2 P : list A) :
  Permutation (a ++ x' ++ b) (a0 ++ x ++ b0) ->
  Permutation (a ++ (F1 ++ x' ++ F2) ++ b ++ P) (a0 ++ (F1 ++ x ++ F2) ++ b0 ++ P).
Proof.
  intros H.
  assert (E : forall a x b : list A,
             Permutation (a ++ (F1 ++ x ++ F2) ++ b ++ P) ((a ++ x ++ b) ++ F1 ++ F2 ++ P)).
  { intros a1 x1 b1. rewrite <- !app_assoc.
    apply Permutation_app_head.
    rewrite (app_assoc F1 x1). rewrite (Permutation_app_comm F1 x1). rewrite <- !app_assoc.
    apply Permutation_app_head.
    rewrite (app_assoc b1 F1). rewrite (Permutation_app_comm b1 F1). rewrite <- !app_assoc.
    apply Permutation_app_head.
    rewrite (app_assoc F2 b1). rewrite (Permutation_app_comm F2 b1). rewrite <- !app_assoc. reflexivity. }
  rewrite !E. apply Permutation_app_tail. exact H.
Qed.

Lemma existsb_set_nth_false {A} (f : A -> bool) k x l :
  existsb f (set_nth k x l) = false -> (k < List.length l) ->
  f x = false /\ forall j y, j <> k -> nth_error l j = Some y -> f y = false.
Proof.
  intros H Hk. split.
  - destruct (f x) eqn:E; auto. rewrite <- H. symmetry. apply existsb_exists. exists x. split; auto.
    eapply nth_error_In. apply set_nth_same; auto.
  - intros j y Hne Hj. destruct (f y) eqn:E; auto. rewrite <- H. symmetry. apply existsb_exists.
    exists y. split; auto. eapply nth_error_In. rewrite set_nth_other; eauto.
Qed.

Lemma existsb_false_nth {A} (f : A -> bool) l :
  (forall j y, nth_error l j = Some y -> f y = false) -> existsb f l = false.
Proof.
  intros H. destruct (existsb f l) eqn:E; auto. apply existsb_exists in E as (y & Hin & Hy).
  apply In_nth_error in Hin as (j & Hj). rewrite (H j y Hj) in Hy. discriminate.
Qed.

Lemma existsb_nth_false {A} (f : A -> bool) l j y :
  existsb f l = false -> nth_error l j = Some y -> f y = false.
Proof.
  intros H Hj. destruct (f y) eqn:E; auto. rewrite <- H. symmetry. apply existsb_exists.
  exists y. split; auto. eapply nth_error_In; eauto.
Qed.

Lemma flat_map_nil_all {A B} (f : A -> list B) l :
  (forall j y, nth_error l j = Some y -> f y = []) -> flat_map f l = [].
Proof.
  induction l as [|x l IH]; intros H; simpl; auto.
  rewrite (H 0 x eq_refl). simpl. apply IH. intros j y Hj. apply (H (S j) y Hj).
Qed.

Section Data.
  Variable c : cfg.
  Hypothesis Hok : cfg_ok c.
  Let Hbody := ok_body c Hok.
  Let Hinner := ok_inner c Hok.
  Let Houter := ok_outer c Hok.
  Let Hsel := ok_sel c Hok.
  Let Hw := ok_w c Hok.
  Let Hecap := ok_ecap c Hok.
  Let Hccap := ok_ccap c Hok.
  Variable items : list pitem.

  Local Notation InvC := (InvC c).
  Local Notation worker_ph := (worker_ph c Hok).
  Local Notation all_done_of_wg0 := (all_done_of_wg0 c Hok).
  Definition total : N := sum_rows (blocks_of items).

  Definition DataOK (s : st) : Prop :=
    Permutation (blocks_of items) (ab s ++ flat_map (fl FAb) (ws s) ++ buf s ++ blocks_of (pend s)) /\
    wrap32 (rc s + sum_rows (flat_map (fl FRc) (ws s)) + sum_rows (buf s) + sum_rows (blocks_of (pend s)))
      = wrap32 total /\
    (forall k wk, nth_error (ws s) k = Some wk -> is_exited wk = true ->
                  closed s = true /\ buf s = [] /\ pend s = []) /\
    (In PReadErr items -> In PReadErr (pend s)).

  Definition res_ok (s : st) : Prop :=
    (ph s <= 4 -> ebuf s <> [] -> result s = Some RErr) /\
    (ph s = 0 -> sbuf s <> [] -> result s = Some RErr) /\
    (ph s <= 4 -> errored s = false ->
       result s = Some (ROk (wrap32 total) (sort_blocks (ab s))) /\ Permutation (blocks_of items) (ab s)) /\
    (ph s = 5 -> ebuf s = []).

  Record InvD (s : st) : Prop := {
    id_rc : rc s = wrap32 (rc s);
    id_ab : forall b, In b (ab s) ->
              b_fail b = FNone /\ In (OBlk (b_off b)) (store s) /\ In (OIdx (b_off b)) (store s);
    id_w : forall k wk, nth_error (ws s) k = Some wk -> wdata_ok (store s) wk;
    id_data : errored s = false -> DataOK s;
    id_res : res_ok s;
    id_pend : forall i, In i (pend s) -> In i items }.

  Lemma InvD_init : InvD (init c items).
  Proof.
    unfold init. constructor; simpl.
    - reflexivity.
    - intros b [].
    - intros [|?] ? ?; discriminate.
    - intros _. unfold DataOK, total; simpl. split; [|split; [|split]]; auto.
      intros [|?] ? ?; discriminate.
    - unfold res_ok, ph; simpl. rewrite Hinner, Houter. simpl.
      repeat split; intros; try lia; try discriminate.
    - auto.
  Qed.

  (* all workers done: everything was consumed *)
  Lemma all_consumed s :
    InvC s -> ph s <= 7 -> errored s = false -> DataOK s ->
    (forall k wk, nth_error (ws s) k = Some wk -> w_st wk = WDone) /\
    closed s = true /\ buf s = [] /\ pend s = [].
  Proof.
    intros I Hp He (D1 & D2 & D3 & D4).
    assert (H0 : wg s = 0) by (apply (ic_wait c s I); lia).
    assert (Hall : forall k wk, nth_error (ws s) k = Some wk -> w_st wk = WDone)
      by (intros; eapply all_done_of_wg0; eauto).
    split; auto.
    destruct (ic_ws c s I) as [_ Hl]. specialize (Hl ltac:(lia)).
    destruct (ws s) as [|w0 r] eqn:Ews; [simpl in Hl; lia|].
    apply (D3 0 w0 eq_refl). unfold is_exited. now rewrite (Hall 0 w0 eq_refl).
  Qed.

  (* ---------------------------------------------------------------- main *)
  Ltac dmain :=
    constructor; simpl; auto; unfold res_ok, ph in *; simpl;
    repeat split; intros; try lia; try discriminate; auto;
    match goal with R3 : _ -> errored _ = false -> _ /\ _ |- _ => apply R3; auto end.

  Lemma InvD_main s s' l : InvC s -> InvD s -> step_main c s = Some (s', l) -> InvD s'.
  Proof.
    intros I D H.
    pose proof (ic_main c s I) as Im. unfold prog, inner_prog, outer_prog in Im; simpl in Im.
    destruct (ic_flags c s I) as (Ie & Ica & Isc).
    destruct (ic_ws c s I) as [Iws1 Iws2].
    destruct D as [Drc Dab Dw Dd (R1 & R2 & R3 & R4) Dp].
    unfold step_main in H. unfold ph in *.
    suffix_cases Im; rewrite Im in *; simpl in *.
    - (* MAdd *)
      inversion H; subst; clear H. pose proof (Iws1 eq_refl) as Ews.
      assert (Hrep : forall k wk, nth_error (repeat worker0 (c_w c)) k = Some wk -> wk = worker0)
        by (intros; eapply nth_error_repeat; eauto).
      constructor; simpl; rewrite ?Ews; simpl; auto.
      + intros k wk Hn. rewrite (Hrep _ _ Hn). exact Logic.I.
      + unfold errored; simpl. rewrite Ews. simpl. intros He.
        assert (He0 : errored s = false).
        { unfold errored. rewrite Ews. simpl. apply orb_false_iff in He as [He _]. now rewrite He. }
        destruct (Dd He0) as (D1 & D2 & D3 & D4). rewrite Ews in *. simpl in *.
        unfold DataOK; simpl. rewrite Ews. simpl.
        rewrite !(flat_map_nil_all _ (repeat worker0 (c_w c))) by (intros j y Hj; now rewrite (Hrep _ _ Hj)).
        split; [|split; [|split]]; auto. intros k wk Hn Hx. rewrite (Hrep _ _ Hn) in Hx. discriminate.
      + unfold res_ok, ph; simpl. repeat split; intros; try lia; try discriminate.
    - (* MWait *)
      destruct (wg s); [|discriminate]. inversion H; subst; clear H. dmain.
    - (* MClose *)
      rewrite Ie in H; simpl in H. inversion H; subst; clear H. dmain.
    - (* MRecvErr *)
      rewrite Ie in H; simpl in H.
      destruct (ebuf s) as [|e0 er] eqn:Eeb; inversion H; subst; clear H.
      + constructor; simpl; auto;
          try solve [unfold errored in *; simpl; rewrite Eeb in *; simpl; auto];
          unfold res_ok, ph; simpl; repeat split; intros; try lia; try discriminate; auto.
      + rewrite Houter. constructor; simpl; auto;
          try solve [unfold errored in *; simpl; rewrite Eeb in *; simpl; discriminate];
          unfold res_ok, ph, errored; simpl; rewrite Eeb; simpl;
          repeat split; intros; try lia; try discriminate; auto.
    - (* MSort *)
      inversion H; subst; clear H.
      constructor; simpl; auto.
      unfold res_ok, ph; simpl. split; [|split; [|split]]; intros; try lia; try discriminate.
      + rewrite (R4 eq_refl) in *. congruence.
      + assert (He0 : errored s = false) by assumption.
        destruct (all_consumed s I ltac:(unfold ph; rewrite Im; simpl; lia) He0 (Dd He0)) as (Hall & Hc & Hb & Hp).
        destruct (Dd He0) as (D1 & D2 & _).
        rewrite Hb, Hp in *. simpl in *.
        rewrite !(flat_map_nil_all _ (ws s)) in * by (intros j y Hj; unfold fl; now rewrite (Hall _ _ Hj)).
        simpl in *. rewrite !N.add_0_r in D2. rewrite app_nil_r in D1. rewrite Drc, D2. auto.
    - (* MCancel *)
      inversion H; subst; clear H. dmain.
    - (* MDrain *)
      destruct (buf s) as [|b r] eqn:Eb.
      + destruct (closed s); [|discriminate]. inversion H; subst; clear H. dmain.
      + inversion H; subst; clear H.
        assert (Hne : errored s = false -> False).
        { intros He0. destruct (all_consumed s I ltac:(unfold ph; rewrite Im; simpl; lia) He0 (Dd He0)) as (_ & _ & Hb & _).
          congruence. }
        constructor; simpl; auto.
        * intros He. exfalso. apply Hne. exact He.
        * unfold res_ok, ph; simpl. rewrite Im. simpl.
          repeat split; intros; try lia; try discriminate; auto; exfalso; apply Hne; assumption.
    - (* MCloseS *)
      rewrite Isc in H; simpl in H. inversion H; subst; clear H. dmain.
    - (* MRecvS *)
      rewrite Isc in H; simpl in H.
      destruct (sbuf s) as [|e0 er] eqn:Esb; inversion H; subst; clear H.
      + constructor; simpl; auto;
          try solve [unfold errored in *; simpl; rewrite Esb in *; auto];
          unfold res_ok, ph, errored in *; simpl; rewrite Esb in *; simpl in *;
          repeat split; intros; try lia; try discriminate; auto; try congruence; apply R3; auto.
      + constructor; simpl; auto;
          try solve [unfold errored in *; simpl; rewrite Esb in *; auto];
          unfold res_ok, ph, errored in *; simpl; rewrite Esb in *; simpl in *;
          rewrite orb_true_r in *; simpl in *;
          repeat split; intros; try lia; try discriminate; auto.
    - discriminate.
  Qed.

  (* ---------------------------------------------------------------- producer *)
  Lemma InvD_prod s s' l : InvC s -> InvD s -> step_prod c s = Some (s', l) -> InvD s'.
  Proof.
    intros I D H.
    destruct (ic_prod c s I) as (Ip1 & Ip2 & Ip3 & Ip4).
    destruct D as [Drc Dab Dw Dd (R1 & R2 & R3 & R4) Dp].
    unfold step_prod in H. rewrite Hsel in H. simpl in H.
    destruct (pend s) as [|[b|] p] eqn:Ep.
    - destruct (closed s) eqn:Ec; [discriminate|]. inversion H; subst; clear H.
      constructor; simpl; auto; try exact (conj R1 (conj R2 (conj R3 R4)));
        try solve [intros i Hi; rewrite ?Ep in Hi; simpl in Hi; try contradiction; apply Dp; rewrite ?Ep; simpl; auto].
      intros He. destruct (Dd He) as (D1 & D2 & D3 & D4). unfold DataOK; simpl. rewrite Ep in *.
      split; [|split; [|split]]; auto.
      intros k wk Hn Hx. destruct (D3 k wk Hn Hx) as (Hc & _). congruence.
    - destruct (List.length (buf s) <? c_ccap c); [|discriminate]. inversion H; subst; clear H.
      constructor; simpl; auto; try exact (conj R1 (conj R2 (conj R3 R4)));
        try solve [intros i Hi; rewrite ?Ep in Hi; simpl in Hi; try contradiction; apply Dp; rewrite ?Ep; simpl; auto].
      intros He. destruct (Dd He) as (D1 & D2 & D3 & D4). unfold DataOK; simpl. rewrite Ep in *. simpl in *.
      split; [|split; [|split]].
      + rewrite D1. apply Permutation_app_head, Permutation_app_head.
        rewrite <- app_assoc. apply Permutation_app_head. reflexivity.
      + rewrite <- D2. f_equal. rewrite sum_rows_app. simpl. lia.
      + intros k wk Hn Hx. destruct (D3 k wk Hn Hx) as (_ & _ & Hc). discriminate.
      + intros Hin. destruct (D4 Hin) as [Hx|Hx]; [discriminate|auto].
    - assert (Hph : 3 <= ph s).
      { destruct (le_lt_dec 3 (ph s)); auto. destruct (ic_drained c s I ltac:(lia)) as [Hc _].
        specialize (Ip1 Hc). discriminate. }
      destruct (sclosed s); [inversion H; subst; clear H|].
      + (* panic: excluded by InvC, but InvD is preserved anyway *)
        constructor; simpl; auto; try exact (conj R1 (conj R2 (conj R3 R4)));
        try solve [intros i Hi; rewrite ?Ep in Hi; simpl in Hi; try contradiction; apply Dp; rewrite ?Ep; simpl; auto].
      + destruct (List.length (sbuf s) <? 1); [|discriminate]. inversion H; subst; clear H.
        assert (Hne : sbuf s ++ [1] <> []) by (destruct (sbuf s); discriminate).
        assert (He' : forall s0, sbuf s0 = sbuf s ++ [1] -> errored s0 = true).
        { intros s0 E. unfold errored. rewrite E. destruct (sbuf s); simpl; rewrite orb_true_r; auto. }
        constructor; simpl; auto; try exact (conj R1 (conj R2 (conj R3 R4)));
        try solve [intros i Hi; rewrite ?Ep in Hi; simpl in Hi; try contradiction; apply Dp; rewrite ?Ep; simpl; auto].
        * intros He. rewrite He' in He by reflexivity. discriminate.
        * unfold res_ok, ph in *; simpl. split; [|split; [|split]]; auto; intros; try lia.
          rewrite He' in H0 by reflexivity. discriminate.
  Qed.

  Lemma InvD_prod_cancel s s' l : InvC s -> InvD s -> step_prod_cancel c s = Some (s', l) -> InvD s'.
  Proof.
    intros I D H.
    destruct (ic_flags c s I) as (_ & Ica & _).
    destruct D as [Drc Dab Dw Dd (R1 & R2 & R3 & R4) Dp].
    unfold step_prod_cancel in H.
    destruct (pend s) as [|[b|] p] eqn:Ep; try discriminate.
    rewrite Hsel in H. simpl in H. destruct (cancelled s) eqn:Ec; [|discriminate].
    inversion H; subst; clear H.
    assert (Hph : ph s <= 3) by (symmetry in Ica; apply Nat.leb_le in Ica; auto).
    assert (Hne : errored s = false -> False).
    { intros He0. destruct (all_consumed s I ltac:(lia) He0 (Dd He0)) as (_ & _ & _ & Hb). congruence. }
    constructor; simpl; auto; try exact (conj R1 (conj R2 (conj R3 R4)));
        try solve [intros i Hi; rewrite ?Ep in Hi; simpl in Hi; try contradiction; apply Dp; rewrite ?Ep; simpl; auto].
    intros He. exfalso. apply Hne. exact He.
  Qed.

  (* ---------------------------------------------------------------- workers *)
  Lemma wdata_ok_mono st1 st2 wk : (forall o, In o st1 -> In o st2) -> wdata_ok st1 wk -> wdata_ok st2 wk.
  Proof.
    intros Hm. unfold wdata_ok. destruct (w_st wk); auto.
    intros [H1 H2]. split; intros Hn; [destruct (H1 Hn)|destruct (H2 Hn)]; auto.
  Qed.

  Lemma wrap32_cong x y z : wrap32 x = wrap32 y -> wrap32 (x + z) = wrap32 (y + z).
  Proof. intros H. rewrite <- (wrap32_add_l x), <- (wrap32_add_l y), H. reflexivity. Qed.

  Lemma InvD_wupd s k wk wk' b st0 r a m g e :
    InvC s -> InvD s -> nth_error (ws s) k = Some wk -> is_done wk = false ->
    (forall o, In o (store s) -> In o st0) ->
    wdata_ok st0 wk' ->
    (a = ab s \/ exists cur, a = ab s ++ [cur] /\ b_fail cur = FNone /\
                             In (OBlk (b_off cur)) st0 /\ In (OIdx (b_off cur)) st0) ->
    r = wrap32 r ->
    (e = ebuf s \/ e <> []) -> (is_werr wk = true -> e <> []) ->
    (is_werr wk' = false -> e = ebuf s -> errored s = false ->
       Permutation (a ++ fl FAb wk' ++ b) (ab s ++ fl FAb wk ++ buf s) /\
       wrap32 (r + sum_rows (fl FRc wk') + sum_rows b) = wrap32 (rc s + sum_rows (fl FRc wk) + sum_rows (buf s)) /\
       (is_exited wk' = true -> closed s = true /\ b = [] /\ pend s = []) /\
       (b = buf s \/ buf s <> [])) ->
    InvD (set_worker (upd_sh s b st0 r a m g e) k wk').
  Proof.
    intros I D Hk Hd Hst Hwd Ha Hr He Hwe Hdata.
    pose proof (worker_ph s k wk I Hk Hd) as Hph.
    pose proof (nth_error_lt _ _ _ Hk) as Hlt.
    destruct D as [Drc Dab Dw Dd (R1 & R2 & R3 & R4) Dp].
    constructor; simpl.
    - exact Hr.
    - intros b0 Hin. destruct Ha as [-> | (cur & -> & Hf & Ho1 & Ho2)].
      + destruct (Dab b0 Hin) as (? & ? & ?). auto.
      + apply in_app_or in Hin as [Hin|[<-|[]]]; auto. destruct (Dab b0 Hin) as (? & ? & ?). auto.
    - apply (forall_set_nth (fun _ wj => wdata_ok st0 wj)); auto.
      intros j wj _ Hj. eapply wdata_ok_mono; eauto.
    - unfold errored; simpl. intros Herr.
      apply orb_false_iff in Herr as [Herr He3]. apply orb_false_iff in Herr as [He1 He2].
      apply existsb_set_nth_false in He3 as [Hw' Hoth]; auto.
      assert (Ee : e = []) by (destruct e; [auto|discriminate]).
      assert (Eeb : e = ebuf s) by (destruct He as [?|?]; [auto|congruence]).
      assert (Hwk : is_werr wk = false).
      { destruct (is_werr wk) eqn:E; auto. specialize (Hwe eq_refl). congruence. }
      assert (He0 : errored s = false).
      { unfold errored. rewrite <- Eeb, Ee, He2. simpl. apply existsb_false_nth.
        intros j y Hj. destruct (Nat.eq_dec j k) as [->|Hne]; [congruence|eauto]. }
      destruct (Hdata Hw' Eeb He0) as (H1 & H2 & H3 & H4).
      destruct (Dd He0) as (D1 & D2 & D3 & D4).
      unfold DataOK; simpl.
      destruct (flat_map_set_nth (fl FAb) k wk' wk (ws s) Hk) as (A1 & A2 & EA & EA').
      destruct (flat_map_set_nth (fl FRc) k wk' wk (ws s) Hk) as (B1 & B2 & EB & EB').
      rewrite EA', EB'. rewrite EA in D1. rewrite EB in D2.
      split; [|split; [|split]].
      + rewrite D1. symmetry. apply perm_frame. exact H1.
      + rewrite <- D2. rewrite !sum_rows_app in *.
        replace (r + (sum_rows B1 + (sum_rows (fl FRc wk') + sum_rows B2)) + sum_rows b + sum_rows (blocks_of (pend s)))%N
          with ((r + sum_rows (fl FRc wk') + sum_rows b) + (sum_rows B1 + sum_rows B2 + sum_rows (blocks_of (pend s))))%N by lia.
        replace (rc s + (sum_rows B1 + (sum_rows (fl FRc wk) + sum_rows B2)) + sum_rows (buf s) + sum_rows (blocks_of (pend s)))%N
          with ((rc s + sum_rows (fl FRc wk) + sum_rows (buf s)) + (sum_rows B1 + sum_rows B2 + sum_rows (blocks_of (pend s))))%N by lia.
        apply wrap32_cong. exact H2.
      + apply (forall_set_nth (fun _ wj => is_exited wj = true -> closed s = true /\ b = [] /\ pend s = [])); auto.
        intros j wj _ Hj Hx. destruct (D3 j wj Hj Hx) as (? & Hb & ?).
        destruct H4 as [-> | Hne]; [auto|congruence].
      + exact D4.
    - unfold res_ok, ph in *; simpl. split; [|split; [|split]]; intros; lia.
    - exact Dp.
  Qed.

  Lemma fail_none cur : b_fail cur <> FBlk -> b_fail cur <> FIdx -> b_fail cur = FNone.
  Proof. destruct (b_fail cur); congruence. Qed.

  Ltac dwfin :=
    simpl; auto;
    try solve [ intros ?; discriminate
              | left; reflexivity
              | unfold wdata_ok; simpl; exact Logic.I
              | intros; simpl; auto ].
  Ltac wdnew :=
    solve [ unfold wdata_ok; simpl; split; intros Hx; try discriminate Hx; split;
            first [ assumption | congruence | simpl; auto ] ].

  Lemma InvD_worker k s s' l : InvC s -> InvD s -> step_worker c k s = Some (s', l) -> InvD s'.
  Proof.
    intros I D H. unfold step_worker in H.
    destruct (nth_error (ws s) k) as [wk|] eqn:Hk; [|discriminate].
    pose proof (ic_wf c s I k wk Hk) as Hwf. unfold wf_w in Hwf.
    pose proof (id_rc s D) as Drc. pose proof (id_w s D k wk Hk) as Dwk.
    destruct wk as [stt trc tab]; simpl in *.
    destruct stt as [|pc cur|cur| |].
    - (* WLoop *)
      destruct (buf s) as [|b0 r] eqn:Eb.
      + destruct (closed s) eqn:Ec; [|discriminate]. inversion H; subst; clear H.
        apply (InvD_wupd s k _ _ (buf s) (store s) (rc s) (ab s) (mutex s) (wg s) (ebuf s) I D Hk); dwfin.
        intros _ _ _. rewrite Eb. simpl. split; [|split; [|split]]; auto.
        intros _. destruct (ic_prod c s I) as (Hp & _). auto.
      + inversion H; subst; clear H.
        assert (Hb : exists bd, c_body c = bd /\ (bd = bodyA \/ bd = bodyB)) by eauto.
        destruct Hb as (bd & Ebd & Hbd). rewrite Ebd.
        apply (InvD_wupd s k _ _ r (store s) (rc s) (ab s) (mutex s) (wg s) (ebuf s) I D Hk); dwfin.
        * destruct Hbd as [-> | ->]; unfold wdata_ok; simpl; split; intros; discriminate.
        * intros _ _ _. rewrite Eb.
          destruct Hbd as [-> | ->]; simpl; (split; [|split; [|split]]);
            try reflexivity; try (intros ?; discriminate); try (right; discriminate); f_equal; lia.
    - (* WBody *)
      destruct pc as [|a pc]; [discriminate|]. destruct Hwf as [Hsuf _].
      pose proof (ic_cs c s I k _ Hk) as Hcs. pose proof (ic_mid c s I k _ Hk) as Hmid.
      unfold in_cs, mid_ok, mid_ok_v, in_cs in *; simpl in *.
      destruct (body_positions _ a pc Hbody Hsuf) as
        [(-> & f & g & Hfg & ->)|[(-> & f & g & Hfg & ->)|[(-> & f & g & Hfg & ->)|[(f & g & Hfg & -> & ->)|
         [(f & g & Hfg & -> & ->)|[(g & -> & ->)|[(g & -> & ->)|(-> & ->)]]]]]]]; unfold cs_acts in *;
        try (destruct f, g; try congruence);
        unfold wdata_ok in Dwk; simpl in Dwk; destruct Dwk as [Dw1 Dw2];
        try (destruct (Dw1 eq_refl) as [Df1 Do1]); try (destruct (Dw2 eq_refl) as [Df2 Do2]); clear Dw1 Dw2.
      (* SaveBlk (2 orders) *)
      1,2: (destruct (b_fail cur) eqn:Ef; inversion H; subst; clear H;
         (apply (InvD_wupd s k _ _ (buf s) _ (rc s) (ab s) (mutex s) (wg s) (ebuf s) I D Hk); dwfin;
          try wdnew;
          try (intros _ _ _; simpl; split; [|split; [|split]]; auto; intros ?; discriminate))).
      (* SaveIdx (2 orders) *)
      1,2: (destruct (b_fail cur) eqn:Ef; inversion H; subst; clear H;
         (apply (InvD_wupd s k _ _ (buf s) _ (rc s) (ab s) (mutex s) (wg s) (ebuf s) I D Hk); dwfin;
          try wdnew;
          try (intros _ _ _; simpl; split; [|split; [|split]]; auto; intros ?; discriminate))).
      (* Lock *)
      1,2: (destruct (mutex s) eqn:Em; [discriminate|]; inversion H; subst; clear H;
        (apply (InvD_wupd s k _ _ (buf s) (store s) (rc s) (ab s) (Some k) (wg s) (ebuf s) I D Hk); dwfin;
         try wdnew;
         try (intros _ _ _; simpl; split; [|split; [|split]]; auto; intros ?; discriminate))).
      (* Read f, first *)
      1,2: (inversion H; subst; clear H;
        (apply (InvD_wupd s k _ _ (buf s) (store s) (rc s) (ab s) (mutex s) (wg s) (ebuf s) I D Hk); dwfin;
         try wdnew;
         try (intros _ _ _; simpl; split; [|split; [|split]]; auto; intros ?; discriminate))).
      (* Write f, first: f = FRc *)
      + specialize (Hmid eq_refl). inversion H; subst; clear H.
        apply (InvD_wupd s k _ _ (buf s) (store s) _ (ab s) (mutex s) (wg s) (ebuf s) I D Hk); dwfin; try wdnew.
        * symmetry. apply wrap32_idem.
        * intros _ _ _. simpl. split; [|split; [|split]]; auto; try (intros ?; discriminate).
          rewrite <- N.add_assoc, wrap32_add_l. f_equal. lia.
      + (* f = FAb *)
        specialize (Hmid eq_refl). inversion H; subst; clear H.
        apply (InvD_wupd s k _ _ (buf s) (store s) (rc s) _ (mutex s) (wg s) (ebuf s) I D Hk); dwfin; try wdnew.
        * right. exists cur. split; [reflexivity|]. split; [apply fail_none; auto|auto].
        * intros _ _ _. simpl. split; [|split; [|split]]; auto; try (intros ?; discriminate).
          rewrite <- app_assoc. reflexivity.
      + (* Read g, second *)
        destruct g; inversion H; subst; clear H;
        (apply (InvD_wupd s k _ _ (buf s) (store s) (rc s) (ab s) (mutex s) (wg s) (ebuf s) I D Hk); dwfin;
         try wdnew;
         try (intros _ _ _; simpl; split; [|split; [|split]]; auto; intros ?; discriminate)).
      + (* Write g, second *)
        specialize (Hmid eq_refl).
        destruct g; inversion H; subst; clear H.
        * apply (InvD_wupd s k _ _ (buf s) (store s) _ (ab s) (mutex s) (wg s) (ebuf s) I D Hk); dwfin; try wdnew.
          -- symmetry. apply wrap32_idem.
          -- intros _ _ _. simpl. split; [|split; [|split]]; auto; try (intros ?; discriminate).
             rewrite <- N.add_assoc, wrap32_add_l. f_equal. lia.
        * apply (InvD_wupd s k _ _ (buf s) (store s) (rc s) _ (mutex s) (wg s) (ebuf s) I D Hk); dwfin; try wdnew.
          -- right. exists cur. split; [reflexivity|]. split; [apply fail_none; auto|auto].
          -- intros _ _ _. simpl. split; [|split; [|split]]; auto; try (intros ?; discriminate).
             rewrite <- app_assoc. reflexivity.
      + (* Unlock *)
        rewrite (Hcs eq_refl) in H. inversion H; subst; clear H.
        apply (InvD_wupd s k _ _ (buf s) (store s) (rc s) (ab s) None (wg s) (ebuf s) I D Hk); dwfin.
        intros _ _ _; simpl; split; [|split; [|split]]; auto; intros ?; discriminate.
    - (* WErr *)
      destruct (eclosed s).
      + (* panic: excluded by InvC *)
        inversion H; subst; clear H. destruct D. constructor; simpl; auto.
      + destruct (List.length (ebuf s) <? c_ecap c); [|discriminate]. inversion H; subst; clear H.
        apply (InvD_wupd s k _ _ (buf s) (store s) (rc s) (ab s) (mutex s) (wg s) _ I D Hk); dwfin.
        * right. destruct (ebuf s); discriminate.
        * intros _. destruct (ebuf s); discriminate.
        * intros _ E. exfalso. apply (f_equal (@List.length _)) in E. rewrite app_length in E. simpl in E. lia.
    - (* WExit *)
      destruct (wg s).
      + inversion H; subst; clear H. destruct D. constructor; simpl; auto.
      + inversion H; subst; clear H.
        apply (InvD_wupd s k _ _ (buf s) (store s) (rc s) (ab s) (mutex s) _ (ebuf s) I D Hk); dwfin.
        intros _ _ He0. simpl. split; [|split; [|split]]; auto.
        intros _. destruct (id_data s D He0) as (_ & _ & D3 & _). apply (D3 k _ Hk). reflexivity.
    - discriminate.
  Qed.

  Theorem InvD_step t s s' l : InvC s -> InvD s -> step c t s = Some (s', l) -> InvD s'.
  Proof.
    intros I D H. unfold step in H. rewrite (ic_np c s I) in H.
    destruct t as [|[|[|k]]].
    - eapply InvD_main; eauto.
    - eapply InvD_prod; eauto.
    - eapply InvD_prod_cancel; eauto.
    - eapply InvD_worker; eauto.
  Qed.

  Lemma Inv_execs tr s : execs c (init c items) tr s -> InvC s /\ InvD s.
  Proof.
    intros E. eapply (execs_inv c (fun s => InvC s /\ InvD s)); eauto.
    - intros t s1 s2 l [I D] H. split; [eapply InvC_step|eapply InvD_step]; eauto.
    - split; [apply InvC_init; auto|apply InvD_init].
  Qed.

End Data.
