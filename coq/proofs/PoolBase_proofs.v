(** C16 - basic lemmas for the worker-pool model: list surgery, the sort, the skeleton
    checks, executions, and the termination measure. *)
From W.lib Require Import Tree.
From W.model Require Import Pool PoolSpec.
From Coq Require Import Arith Lia ZifyNat ZifyN ZifyBool String Sorting.Permutation Sorting.Sorted.
Local Open Scope N_scope.

(* ------------------------------------------------------------ set_nth *)
Lemma set_nth_length {A} k (x : A) l : List.length (set_nth k x l) = List.length l.
Proof. revert k; induction l as [|y l IH]; intros [|k]; simpl; auto. Qed.

Lemma set_nth_same {A} k (x : A) l : (k < List.length l)%nat -> nth_error (set_nth k x l) k = Some x.
Proof. revert k; induction l as [|y l IH]; intros [|k] H; simpl in *; try lia; auto. apply IH; lia. Qed.

Lemma set_nth_other {A} k j (x : A) l : j <> k -> nth_error (set_nth k x l) j = nth_error l j.
Proof.
  revert k j; induction l as [|y l IH]; intros [|k] [|j] H; simpl; auto; try congruence.
Qed.

Lemma set_nth_split {A} k (x y : A) l :
  nth_error l k = Some y ->
  exists l1 l2, l = l1 ++ y :: l2 /\ List.length l1 = k /\ set_nth k x l = l1 ++ x :: l2.
Proof.
  revert k; induction l as [|z l IH]; intros [|k] H; simpl in *; try discriminate.
  - inversion H; subst. exists [], l; auto.
  - destruct (IH _ H) as (l1 & l2 & -> & <- & ->). exists (z :: l1), l2; auto.
Qed.

Lemma nth_error_lt {A} (l : list A) k x : nth_error l k = Some x -> (k < List.length l)%nat.
Proof. intros H. apply nth_error_Some. congruence. Qed.

Lemma nth_error_repeat {A} (x y : A) n k : nth_error (repeat x n) k = Some y -> y = x.
Proof. intros H. apply nth_error_In in H. now apply repeat_spec in H. Qed.

(* ------------------------------------------------------------ suffixes *)
Definition is_suffix {A} (p l : list A) : Prop := exists pre, l = pre ++ p.

Lemma is_suffix_refl {A} (l : list A) : is_suffix l l.
Proof. now exists []. Qed.
Lemma is_suffix_tail {A} (a : A) p l : is_suffix (a :: p) l -> is_suffix p l.
Proof. intros [pre ->]. exists (pre ++ [a]). now rewrite <- app_assoc. Qed.
Lemma is_suffix_cons_inv {A} (p : list A) a l : is_suffix p (a :: l) -> p = a :: l \/ is_suffix p l.
Proof.
  intros [[|b pre] H]; simpl in H.
  - now left.
  - right. inversion H; subst. now exists pre.
Qed.
Lemma is_suffix_nil_inv {A} (p : list A) : is_suffix p [] -> p = [].
Proof. intros [pre H]. symmetry in H. now apply app_eq_nil in H. Qed.

(* ------------------------------------------------------------ sort_blocks *)
Definition lt_off (a b : blk) : Prop := b_off a < b_off b.

Lemma ins_blk_perm b l : Permutation (ins_blk b l) (b :: l).
Proof.
  induction l as [|x l IH]; simpl; auto.
  destruct (b_off b <=? b_off x); auto.
  rewrite IH. apply perm_swap.
Qed.

Lemma sort_blocks_perm l : Permutation (sort_blocks l) l.
Proof.
  induction l as [|x l IH]; simpl; auto. unfold sort_blocks in *; simpl.
  rewrite ins_blk_perm. now constructor.
Qed.

Lemma ins_blk_sorted b l :
  ~ In (b_off b) (map b_off l) -> StronglySorted lt_off l -> StronglySorted lt_off (ins_blk b l).
Proof.
  induction l as [|x l IH]; intros Hn Hs; simpl.
  - repeat constructor.
  - apply StronglySorted_inv in Hs as [Hs Hx]. simpl in Hn.
    destruct (b_off b <=? b_off x) eqn:E.
    + constructor; [now constructor|]. constructor.
      * unfold lt_off. apply N.leb_le in E. assert (b_off x <> b_off b) by tauto. lia.
      * eapply Forall_impl; [|exact Hx]. unfold lt_off. intros y Hy. apply N.leb_le in E. lia.
    + constructor; [apply IH; tauto|].
      rewrite (ins_blk_perm b l). constructor; auto.
      unfold lt_off. apply N.leb_gt in E. lia.
Qed.

Lemma sort_blocks_sorted l : NoDup (map b_off l) -> StronglySorted lt_off (sort_blocks l).
Proof.
  induction l as [|x l IH]; intros Hn; unfold sort_blocks in *; simpl.
  - constructor.
  - inversion Hn; subst. apply ins_blk_sorted; auto.
    intros Hin. apply H1.
    assert (P : Permutation (map b_off (fold_right ins_blk [] l)) (map b_off l))
      by (apply Permutation_map, sort_blocks_perm).
    eapply Permutation_in; eauto.
Qed.

Lemma sorted_perm_eq l1 l2 :
  StronglySorted lt_off l1 -> StronglySorted lt_off l2 -> Permutation l1 l2 -> l1 = l2.
Proof.
  revert l2; induction l1 as [|a l1 IH]; intros l2 S1 S2 P.
  - apply Permutation_nil in P. now subst.
  - destruct l2 as [|b l2]; [apply Permutation_sym, Permutation_nil in P; discriminate|].
    apply StronglySorted_inv in S1 as [S1 H1]. apply StronglySorted_inv in S2 as [S2 H2].
    assert (a = b).
    { assert (Ia : In a (b :: l2)) by (eapply Permutation_in; eauto; now left).
      assert (Ib : In b (a :: l1)) by (eapply Permutation_in; [apply Permutation_sym; eauto|now left]).
      destruct Ia as [->|Ia]; auto. destruct Ib as [->|Ib]; auto.
      rewrite Forall_forall in H1, H2. specialize (H1 _ Ib). specialize (H2 _ Ia).
      unfold lt_off in *. lia. }
    subst b. f_equal. apply IH; auto. eapply Permutation_cons_inv; eauto.
Qed.

(** the sorted table depends only on the multiset of blocks (offsets distinct) *)
Lemma sort_blocks_unique l1 l2 :
  NoDup (map b_off l1) -> Permutation l1 l2 -> sort_blocks l1 = sort_blocks l2.
Proof.
  intros Hn P. apply sorted_perm_eq.
  - now apply sort_blocks_sorted.
  - apply sort_blocks_sorted. eapply Permutation_NoDup; [apply Permutation_map; eauto|auto].
  - rewrite !sort_blocks_perm. auto.
Qed.

(* ------------------------------------------------------------ arithmetic *)
Lemma two32_nz : two32 <> 0.
Proof. unfold two32. discriminate. Qed.

Lemma wrap32_add_l a b : wrap32 (wrap32 a + b) = wrap32 (a + b).
Proof. unfold wrap32. apply N.add_mod_idemp_l, two32_nz. Qed.
Lemma wrap32_idem a : wrap32 (wrap32 a) = wrap32 a.
Proof. unfold wrap32. apply N.mod_mod, two32_nz. Qed.

Lemma sum_rows_app l1 l2 : sum_rows (l1 ++ l2) = sum_rows l1 + sum_rows l2.
Proof. induction l1; simpl; auto. rewrite IHl1. lia. Qed.
Lemma sum_rows_perm l1 l2 : Permutation l1 l2 -> sum_rows l1 = sum_rows l2.
Proof. induction 1; simpl; try lia. Qed.

Lemma blocks_of_app l1 l2 : blocks_of (l1 ++ l2) = blocks_of l1 ++ blocks_of l2.
Proof. apply flat_map_app. Qed.
Lemma blocks_of_map l : blocks_of (map PBlk l) = l.
Proof. induction l; simpl; auto. now f_equal. Qed.

(* ------------------------------------------------------------ skeleton checks *)
Definition bodyA : list act := gen_body accs_locked.
Definition bodyB : list act :=
  gen_body [mk_access FAb KR true; mk_access FAb KW true; mk_access FRc KR true; mk_access FRc KW true].

Lemma lockset_ok_body acc :
  lockset_ok acc = true ->
  exists l, parse_accesses acc = Some l /\ (gen_body l = bodyA \/ gen_body l = bodyB).
Proof.
  unfold lockset_ok. destruct (parse_accesses acc) as [l|]; [|discriminate].
  intros H. apply andb_true_iff in H as [Hl Hs]. exists l. split; auto.
  unfold shape_ok in Hs.
  destruct l as [|[f1 k1 b1] l]; simpl in Hs; [discriminate|].
  destruct l as [|[f2 k2 b2] l]; simpl in Hs; [destruct f1, k1; discriminate|].
  destruct l as [|[f3 k3 b3] l]; simpl in Hs; [destruct f1, k1, f2, k2; discriminate|].
  destruct l as [|[f4 k4 b4] l]; simpl in Hs; [destruct f1, k1, f2, k2, f3, k3; discriminate|].
  destruct l as [|? l]; simpl in Hs; [|destruct f1, k1, f2, k2, f3, k3, f4, k4; discriminate].
  simpl in Hl. repeat (apply andb_true_iff in Hl as [? Hl]). subst.
  destruct f1, k1, f2, k2, f3, k3, f4, k4; try discriminate; auto.
Qed.

(** what the proofs need from a configuration (established from the skeleton checks) *)
Record cfg_ok (c : cfg) : Prop := {
  ok_body : c_body c = bodyA \/ c_body c = bodyB;
  ok_inner : c_inner c = inner_prog;
  ok_outer : c_outer c = outer_prog;
  ok_sel : c_select c = true;
  ok_w : (1 <= c_w c)%nat;
  ok_ecap : (c_w c <= c_ecap c)%nat;
  ok_ccap : (1 <= c_ccap c)%nat }.

Lemma mprog_eqb_eq a b : mprog_eqb a b = true -> a = b.
Proof.
  revert b; induction a as [|x a IH]; intros [|y b] H; simpl in H; try discriminate; auto.
  apply andb_true_iff in H as [H1 H2]. f_equal; auto. destruct x, y; simpl in H1; congruence.
Qed.

Lemma post_ok_prog l : post_ok l = true -> parse_prog parse_post l = Some inner_prog.
Proof.
  unfold post_ok. destruct (parse_prog parse_post l); [|discriminate].
  intros H. now apply mprog_eqb_eq in H; subst.
Qed.
Lemma outer_ok_prog l : outer_ok l = true -> parse_prog parse_outer l = Some outer_prog.
Proof.
  unfold outer_ok. destruct (parse_prog parse_outer l); [|discriminate].
  intros H. now apply mprog_eqb_eq in H; subst.
Qed.

(* ------------------------------------------------------------ executions *)
Lemma execs_cons c s t l s1 tr s' :
  step c t s = Some (s1, l) -> execs c s1 tr s' -> execs c s ((t, l) :: tr) s'.
Proof.
  intros H E. induction E.
  - change [(t, l)] with ([] ++ [(t, l)]). econstructor; eauto. constructor.
  - rewrite app_comm_cons. econstructor; eauto.
Qed.

Lemma run_tr_execs c sched s : execs c s (snd (run_tr c sched s)) (fst (run_tr c sched s)).
Proof.
  revert s; induction sched as [|t r IH]; intros s; simpl.
  - constructor.
  - destruct (step c t s) as [[s' l]|] eqn:E; auto.
    specialize (IH s'). destruct (run_tr c r s') as [s'' tr]; simpl in *.
    eapply execs_cons; eauto.
Qed.

Lemma run_reachable c items sched : reachable c items (runs c sched (init c items)).
Proof. eexists. apply run_tr_execs. Qed.

Lemma execs_trans c s tr s' tr' s'' :
  execs c s tr s' -> execs c s' tr' s'' -> execs c s (tr ++ tr') s''.
Proof.
  intros E1 E2. induction E2.
  - now rewrite app_nil_r.
  - rewrite app_assoc. econstructor; eauto.
Qed.

(** an invariant preserved by every step holds in every state of every execution *)
Lemma execs_inv c (P : st -> Prop) s tr s' :
  (forall t s1 s2 l, P s1 -> step c t s1 = Some (s2, l) -> P s2) ->
  execs c s tr s' -> P s -> P s'.
Proof. intros Hstep E. induction E; eauto. Qed.
