(** C08 - proofs, part 5: single-round sessions.  Exact characterisation of the commit SET for
    every processing order (order independence), exact commit list / table selection for one
    want, refusal as an equivalence, and the order-dependence witness for tables. *)
From Coq Require Import List NArith Bool Arith Lia Permutation.
From W.lib Require Import Tree.
From W.model Require Import ClosedSets ClosedSetsSpec.
From W.proofs Require Import ClosedSets_proofs ClosedSetsTerm_proofs ClosedSetsQueue_proofs
     ClosedSetsSession_proofs.
Import ListNotations.

(** ** the concrete orders used by the correspondence run are permutations *)
Lemma rot_perm : forall (A : Type) k (l : list A), Permutation (rot k l) l.
Proof.
  intros A k l. unfold rot. etransitivity; [apply Permutation_app_comm|].
  rewrite firstn_skipn. reflexivity.
Qed.

Lemma ord_variant_perm : forall k l, Permutation (ord_variant k l) l.
Proof.
  intros k l. unfold ord_variant.
  destruct k as [|[|[|[|[|k]]]]]; auto;
    try (apply Permutation_sym, Permutation_rev);
    try apply rot_perm;
    try (etransitivity; [apply Permutation_sym, Permutation_rev|apply rot_perm]).
Qed.

Lemma ord_of_order_fun : forall v, order_fun (ord_of v).
Proof. intros v i l. unfold ord_of. destruct i; apply ord_variant_perm. Qed.

Lemma isort_time_perm : sort_fun isort_time.
Proof.
  intros l. unfold isort_time. induction l as [|x l IH]; simpl; auto.
  assert (H : forall y m, Permutation (q_ins y m) (y :: m)).
  { intros y. induction m as [|z m IHm]; simpl; auto.
    destruct (N.leb (c_time (snd z)) (c_time (snd y))); auto.
    etransitivity; [apply perm_skip, IHm|apply perm_swap]. }
  etransitivity; [apply H|]. apply perm_skip. exact IH.
Qed.

(** ** weakening of the stop predicate *)
Lemma visf_weaken : forall g stop1 stop2 s d k x,
  (forall c, stop1 c = false -> stop2 c = false) -> visf g stop1 s d k x -> visf g stop2 s d k x.
Proof.
  intros g stop1 stop2 s d k x E H. induction H.
  - apply visf_0; auto.
  - eapply visf_S; eauto.
Qed.

Lemma stopb_nil_weaker : forall seen commons c, stopb seen commons c = false -> stopb [] commons c = false.
Proof.
  intros seen commons c H. unfold stopb in *. apply orb_false_iff in H. destruct H as [_ H]. simpl. auto.
Qed.

Lemma stopb_nil_false : forall commons c, stopb [] commons c = false <-> ~ In c commons.
Proof. intros commons c. unfold stopb. simpl. apply mem_false. Qed.

(** ** every listed commit was reached from a want along a common-free path *)
Lemma enqueue_loop_vis : forall g depth commons defer order seen cls tls dfr cls' tls' dfr',
  enqueue_loop g depth commons defer order seen cls tls dfr = Ok (cls', tls', dfr') ->
  forall x, In x (concat cls') ->
            In x (concat cls) \/ exists w, In w order /\ exists k, vis g (stopb [] commons) w k x.
Proof.
  intros g depth commons defer. induction order as [|w r IH];
    intros seen cls tls dfr cls' tls' dfr' H x Hx; simpl in H.
  - inversion H; subst. auto.
  - destruct (walk_want g depth seen commons defer w) as [sums cl tl| | |] eqn:Ew; try discriminate.
    + destruct (walk_want_facts _ _ _ _ _ _ _ _ _ Ew) as [F1 _].
      destruct (IH _ _ _ _ _ _ _ H x Hx) as [Hin|[w0 [Hw0 Hv]]].
      * rewrite concat_snoc in Hin. apply in_app_or in Hin. destruct Hin as [Hin|Hin]; auto.
        right. exists w. split; [left; auto|]. apply F1 in Hin. destruct Hin as [k Hv].
        exists k. eapply visf_weaken; [|exact Hv]. apply stopb_nil_weaker.
      * right. exists w0. split; [right; auto|auto].
    + destruct (IH _ _ _ _ _ _ _ H x Hx) as [Hin|[w0 [Hw0 Hv]]]; auto.
      right. exists w0. split; [right; auto|auto].
Qed.

Section Single.
  Variable qsort : list qitem -> list qitem.
  Variable ord : nat -> list cid -> list cid.
  Hypothesis Hsort : sort_fun qsort.
  Hypothesis Hord : order_fun ord.
  Variable g : store.
  Variable refs : list cid.
  Hypothesis Hacyc : acyclic g.

  Lemma enqueue_vis : forall f defer f',
    enqueue ord g f defer = Ok f' ->
    f_commons f' = f_commons f /\ incl (f_wants f') (f_wants f) /\
    forall x, In x (concat (f_clists f')) ->
              In x (concat (f_clists f)) \/
              exists w, In w (f_wants f) /\ exists k, vis g (stopb [] (f_commons f)) w k x.
  Proof.
    intros f defer f' H. unfold enqueue in H.
    destruct (enqueue_loop g (f_depth f) (f_commons f) defer (ord (f_calls f) (f_wants f)) []
                           (f_clists f) (f_tlists f) []) as [[[cls tls] dfr]| |] eqn:E; try discriminate.
    inversion H; subst; clear H. simpl. splits; auto.
    - pose proof (enqueue_loop_spec _ _ _ _ _ _ _ _ _ _ _ _ E) as HS.
      intros w Hw.
      assert (H0 : forall x : cid, In x [] -> In x (f_commons f) \/ In x (concat (f_clists f))) by (intros ? []).
      (* the deferred wants come from the order *)
      clear HS H0. revert Hw. revert E. generalize (@nil cid) at 1 as seen0.
      assert (Hgen : forall order seen cls0 tls0 dfr0 cls1 tls1 dfr1,
                 enqueue_loop g (f_depth f) (f_commons f) defer order seen cls0 tls0 dfr0 = Ok (cls1, tls1, dfr1) ->
                 forall y, In y dfr1 -> In y dfr0 \/ In y order).
      { induction order as [|w1 r IH]; intros seen cls0 tls0 dfr0 cls1 tls1 dfr1 H y Hy; simpl in H.
        - inversion H; subst; auto.
        - destruct (walk_want g (f_depth f) seen (f_commons f) defer w1); try discriminate.
          + destruct (IH _ _ _ _ _ _ _ H y Hy); auto. right. right. auto.
          + destruct (IH _ _ _ _ _ _ _ H y Hy) as [Hin|Hin].
            * apply in_app_or in Hin. destruct Hin as [Hin|[<-|[]]]; auto. right. left. auto.
            * right. right. auto. }
      intros seen0 E Hw. destruct (Hgen _ _ _ _ _ _ _ _ E w Hw) as [[]|Hin].
      eapply ord_In; eauto.
    - intros x Hx. destruct (enqueue_loop_vis _ _ _ _ _ _ _ _ _ _ _ _ E x Hx) as [Hin|[w [Hw Hv]]]; auto.
      right. exists w. split; auto. eapply ord_In; eauto.
  Qed.

  (** the state after one accepted round followed by CommitsToSend *)
  Lemma single_round_inv : forall depth r acks f L,
    session qsort ord g refs depth [r] = ([ROk acks], Some (Ok (f, L))) ->
    (forall k, In k (f_commons f) <-> In k acks) /\
    session_ok g refs depth [r] [ROk acks] f L /\
    forall x, In x L -> exists w, In w (r_wants r) /\ exists k, vis g (stopb [] (f_commons f)) w k x.
  Proof.
    intros depth r acks f L H.
    destruct (session_spec qsort ord Hsort Hord g refs Hacyc depth [r] _ _ H) as [_ [_ [_ HS]]].
    specialize (HS f L eq_refl). split; [|split; auto].
    - intros k. pose proof (so_commons _ _ _ _ _ _ _ HS k) as HK. simpl in HK.
      rewrite app_nil_r in HK. exact HK.
    - unfold session in H. simpl in H.
      destruct (process qsort ord g refs (new_finder depth) (r_wants r) (r_haves r) (r_done r))
        as [f1 acks1|sums| |] eqn:EP; try (inversion H; fail).
      inversion H; subst acks1; clear H. rename H2 into H.
      apply process_ok_inv in EP.
      destruct (enqueue_vis _ _ _ EP) as [C1 [W1 V1]].
      unfold commits_to_send in H. destruct (flush_wants ord g f1) as [f2| |] eqn:EF; try discriminate.
      inversion H; subst f2 L; clear H.
      assert (Hpre : forall w, In w (f_wants (pre_enqueue (new_finder depth) (r_wants r) acks)) -> In w (r_wants r)).
      { unfold pre_enqueue; simpl. intros w Hw. apply add_all_In in Hw. destruct Hw as [Hw|[]]; auto. }
      unfold flush_wants in EF. destruct (f_wants f1) eqn:EW.
      + inversion EF; subst f1. intros x Hx. destruct (V1 x Hx) as [[]|[w [Hw Hv]]].
        exists w. split; auto. rewrite C1. exact Hv.
      + destruct (enqueue_vis _ _ _ EF) as [C2 [W2 V2]].
        intros x Hx. destruct (V2 x Hx) as [Hin|[w [Hw Hv]]].
        * destruct (V1 x Hin) as [[]|[w [Hw Hv]]].
          exists w. split; auto. rewrite C2, C1. exact Hv.
        * rewrite EW in Hw. exists w. split; [apply Hpre, W1; auto|]. rewrite C2. exact Hv.
  Qed.

  (** CommitsToSend as a SET, for every processing order *)
  Theorem single_round_set : forall depth r acks f L,
    session qsort ord g refs depth [r] = ([ROk acks], Some (Ok (f, L))) ->
    forall x, In x L <-> exists w, In w (r_wants r) /\ exists k, vis g (stopb [] acks) w k x.
  Proof.
    intros depth r acks f L H. destruct (single_round_inv _ _ _ _ _ H) as [HK [HS HV]].
    assert (Hext : forall c, stopb [] (f_commons f) c = stopb [] acks c).
    { intros c. unfold stopb. simpl. destruct (mem c acks) eqn:E.
      - apply mem_In. apply HK. apply mem_In. auto.
      - apply mem_false. intros Hin. apply HK in Hin. apply mem_false in E. auto. }
    intros x. split.
    - intros Hx. destruct (HV x Hx) as [w [Hw [k Hv]]]. exists w. split; auto. exists k.
      eapply visf_ext; eauto.
    - intros [w [Hw [k Hv]]].
      assert (Hv' : vis g (stopb [] (f_commons f)) w k x).
      { eapply visf_ext; [|exact Hv]. intros c. symmetry. apply Hext. }
      clear Hv. unfold vis in Hv'. induction Hv' as [Hs He|k c p Hv IH Hp Hsp Hep].
      + apply stopb_nil_false in Hs.
        destruct (so_wants_in _ _ _ _ _ _ _ HS w) as [Hc|Hl]; auto.
        * simpl. rewrite app_nil_r. auto.
        * contradiction.
      + apply stopb_nil_false in Hsp. apply in_split in IH. destruct IH as [l1 [l2 E]].
        destruct (so_order _ _ _ _ _ _ _ HS l1 c l2 E p Hp) as [Hc|Hl].
        * contradiction.
        * subst L. apply in_or_app. auto.
  Qed.
End Single.

(** acks never depend on the processing order *)
Lemma process_acks_indep : forall qsort ord1 ord2 g refs f wants haves done f1 acks1 f2 acks2,
  process qsort ord1 g refs f wants haves done = POk f1 acks1 ->
  process qsort ord2 g refs f wants haves done = POk f2 acks2 -> acks1 = acks2.
Proof.
  intros qsort ord1 ord2 g refs f wants haves done f1 acks1 f2 acks2 H1 H2.
  unfold process in H1, H2.
  destruct (q_new qsort g refs) as [q| |]; try discriminate.
  destruct (match wants with [] => EOk q | _ :: _ => ensure_wants g q wants end); try discriminate.
  destruct (find_commons g q0 haves) as [commons| |]; try discriminate.
  destruct (enqueue ord1 g _ _); try discriminate.
  destruct (enqueue ord2 g _ _); try discriminate.
  inversion H1; inversion H2; subst; auto.
Qed.

(** the commit SET of a single-round session does not depend on the processing order *)
Theorem single_round_set_indep : forall qsort ord1 ord2 g refs depth r acks f1 L1 f2 L2,
  sort_fun qsort -> order_fun ord1 -> order_fun ord2 -> acyclic g ->
  session qsort ord1 g refs depth [r] = ([ROk acks], Some (Ok (f1, L1))) ->
  session qsort ord2 g refs depth [r] = ([ROk acks], Some (Ok (f2, L2))) ->
  forall x, In x L1 <-> In x L2.
Proof.
  intros qsort ord1 ord2 g refs depth r acks f1 L1 f2 L2 Hs H1 H2 Ha S1 S2 x.
  rewrite (single_round_set qsort ord1 Hs H1 g refs Ha depth r acks f1 L1 S1 x).
  rewrite (single_round_set qsort ord2 Hs H2 g refs Ha depth r acks f2 L2 S2 x). tauto.
Qed.

(** ** one want: the exact list and the exact table selection *)
Section OneWant.
  Variable qsort : list qitem -> list qitem.
  Variable ord : nat -> list cid -> list cid.
  Hypothesis Hsort : sort_fun qsort.
  Hypothesis Hord : order_fun ord.
  Variable g : store.
  Variable refs : list cid.
  Hypothesis Hacyc : acyclic g.

  Lemma ord_single : forall i w, ord i [w] = [w].
  Proof.
    intros i w. apply Permutation_length_1_inv. apply Permutation_sym. apply Hord.
  Qed.

  (** the whole session boils down to one completed walk *)
  Lemma single_want_walk : forall depth w haves done acks f L,
    session qsort ord g refs depth [mkRound [w] haves done] = ([ROk acks], Some (Ok (f, L))) ->
    exists dfr sums cl tl,
      walk_want g depth [] (f_commons f) dfr w = WDone sums cl tl /\ L = cl /\
      concat (f_tlists f) = tl.
  Proof.
    intros depth w haves done acks f L H. unfold session in H. simpl in H.
    destruct (process qsort ord g refs (new_finder depth) [w] haves done)
      as [f1 acks1|sums| |] eqn:EP; try (inversion H; fail).
    inversion H; subst acks1; clear H. rename H2 into H.
    apply process_ok_inv in EP. unfold enqueue in EP.
    unfold pre_enqueue, new_finder in EP. simpl in EP. unfold add_set in EP. simpl in EP.
    rewrite ord_single in EP. simpl in EP.
    set (K := add_all acks []) in *.
    unfold commits_to_send, flush_wants in H.
    destruct (walk_want g depth [] K (defer_flag
               {| f_commons := K; f_wants := [w]; f_clists := []; f_tlists := []; f_depth := depth;
                  f_calls := 0; f_multi := false; f_accepted := [w] |} done) w)
      as [sums cl tl| | |] eqn:EW; try discriminate.
    - inversion EP; subst f1; clear EP. simpl in H. inversion H; subst f L; clear H. simpl.
      eexists. exists sums, cl, tl. rewrite !app_nil_r. split; eauto.
    - inversion EP; subst f1; clear EP. simpl in H. unfold enqueue in H. simpl in H.
      rewrite ord_single in H. simpl in H.
      destruct (walk_want g depth [] K false w) as [sums cl tl| | |] eqn:EW2; try discriminate.
      + inversion H; subst f L; clear H. simpl.
        exists false, sums, cl, tl. rewrite !app_nil_r. auto.
      + exfalso. unfold walk_want in EW2. eapply walk_no_defer; eauto.
  Qed.

  Theorem single_want_exact : forall depth w haves done acks f L,
    session qsort ord g refs depth [mkRound [w] haves done] = ([ROk acks], Some (Ok (f, L))) ->
    (forall x, In x L <-> exists k, vis g (stopb [] acks) w k x) /\
    (forall t, In t (concat (f_tlists f)) <->
               exists k x cm, vis g (stopb [] acks) w k x /\ get_commit g x = Some cm /\
                              c_table cm = t /\ depth_ok depth k = true) /\
    (forall l1 c l2, L = l1 ++ c :: l2 -> forall p, parent_of g c p -> In p acks \/ In p l1).
  Proof.
    intros depth w haves done acks f L H.
    destruct (single_round_inv qsort ord Hsort Hord g refs Hacyc _ _ _ _ _ H) as [HK _].
    destruct (single_want_walk _ _ _ _ _ _ _ H) as [dfr [sums [cl [tl [HW [-> <-]]]]]].
    destruct (walk_want_facts _ _ _ _ _ _ _ _ _ HW) as [F1 [F2 [F3 _]]].
    assert (Hext : forall c, stopb [] (f_commons f) c = stopb [] acks c).
    { intros c. unfold stopb. simpl. destruct (mem c acks) eqn:E.
      - apply mem_In. apply HK. apply mem_In. auto.
      - apply mem_false. intros Hin. apply HK in Hin. apply mem_false in E. auto. }
    assert (Hv : forall k x, vis g (stopb [] (f_commons f)) w k x <-> vis g (stopb [] acks) w k x).
    { intros k x. split; apply visf_ext; auto. }
    splits.
    - intros x. rewrite F1. split; intros [k Hk]; exists k; apply Hv; auto.
    - intros t. rewrite F2. split; intros [k [x [cm [Hk Hr]]]]; exists k, x, cm; split; auto; apply Hv; auto.
    - intros l1 c l2 E p Hp. destruct (F3 l1 c l2 E p Hp) as [Hs|Hl]; auto.
      left. apply HK. unfold stopb in Hs. simpl in Hs. apply mem_In. auto.
  Qed.
End OneWant.

(** ** refusal as an equivalence *)
Theorem process_refuses_iff : forall qsort ord g refs A f wants haves done,
  sort_fun qsort -> order_fun ord -> acyclic g -> closed g -> refs_ok g refs ->
  finv g A f -> (forall w, In w A -> good_want g refs w) ->
  ((exists sums, process qsort ord g refs f wants haves done = PUnrecognized sums) <->
   exists w, In w wants /\ ~ good_want g refs w).
Proof.
  intros qsort ord g refs A f wants haves done Hs Ho Ha Hc Hr HI HG.
  pose proof (process_spec qsort ord Hs Ho g refs Ha A f wants haves done HI HG) as HP.
  destruct (process qsort ord g refs f wants haves done) as [f' acks|sums| |].
  - split.
    + intros [sums E]. discriminate.
    + intros [w [Hw Hb]]. exfalso. apply Hb. destruct HP as [_ [HG' _]]. apply HG'. apply in_or_app; auto.
  - split; eauto. intros _. destruct HP as [_ HB]. exact HB.
  - exfalso. apply HP. auto.
  - contradiction.
Qed.

(** ** tables depend on the processing order: the two-commit witness *)
Definition wit_store : store :=
  mkStore [(1%N, mkCommit [0%N] 1 11); (0%N, mkCommit [] 0 10)] [10%N; 11%N].
Definition wit_round : round := mkRound [1%N; 0%N] [] true.

Definition wit_tables (v : nat) : option (list N) :=
  match session isort_time (ord_of v) wit_store [1%N] 1 [wit_round] with
  | (_, Some (Ok (f, _))) => Some (concat (f_tlists f))
  | _ => None
  end.

Lemma wit_order_dependent :
  wit_tables 0 = Some [11%N] /\ wit_tables 1 = Some [10%N; 11%N].
Proof. split; vm_compute; reflexivity. Qed.

Lemma wit_acyclic : acyclic wit_store.
Proof.
  exists N.to_nat. intros c p Hp.
  destruct (N.eq_dec c 1) as [->|H1].
  - vm_compute in Hp. destruct Hp as [<-|[]]. lia.
  - destruct (N.eq_dec c 0) as [->|H0].
    + vm_compute in Hp. destruct Hp.
    + exfalso. unfold parent_of, parents_of, get_commit, wit_store in Hp. cbn [s_commits assoc] in Hp.
      assert (E1 : N.eqb 1 c = false) by (apply N.eqb_neq; auto).
      assert (E0 : N.eqb 0 c = false) by (apply N.eqb_neq; auto).
      rewrite E1, E0 in Hp. destruct Hp.
Qed.
