(** From the specs to statements about decoders run on readers: robustness on every
    well-formed byte string (C17) and independence of the chunking (C18). *)
From Coq Require Import String.
From Coq Require Import List Lia Arith ZArith ZifyNat ZifyN ZifyBool.
From W.lib Require Import Tree Bytes GoSlice Reader.
From W.model Require Import DecPrim DecLists DecObjects DecPack DecReceive DecRun.
From W.proofs Require Import Reader_proofs DecSpec_proofs DecPrim_proofs DecLists_proofs
     DecObjects_proofs DecPack_proofs.
Local Open Scope N_scope.

Lemma robust_of_spec {A} (D : nat -> prog A) c (J K : Z) (k : N) R :
  (forall F, spec F c (fun _ => J) K (D F) R) ->
  (J <= Z.of_N k)%Z -> (K <= Z.of_N k)%Z -> robust D c k.
Proof.
  intros Hs HJ HK b Hw. unfold run_on, outcome, allocated. cbv zeta.
  destruct (exec_whole_pure read_kinds_of_code read_kinds_of_code_full _
              (D (dec_fuel (rest (whole b)))) b 0) as [E1 E2].
  rewrite E1, E2. rewrite rest_whole.
  destruct (Hs (dec_fuel b) b 0 ltac:(unfold dec_fuel; lia) Hw) as (r & d & s' & dm & E & Es & P).
  rewrite E. cbn [fst snd].
  assert (Hlen : (length d <= length b)%nat) by (subst b; rewrite app_length; lia).
  destruct r as [a|e|]; cbn in P.
  - destruct P as [P1 _]. repeat split; try discriminate. nia.
  - destruct P as [P1 P2]. repeat split; try discriminate; try congruence. nia.
  - destruct P.
Qed.

(** chunk independence of everything [run_on] reports except the reader itself *)
Lemma run_on_chunk_independent {A} (k : site -> read_kind) (Hk : forall s, k s = Full)
      (D : nat -> prog A) s p e :
  outcome (run_on k D (chunked p s e)) = outcome (run_on k D (whole s)) /\
  allocated (run_on k D (chunked p s e)) = allocated (run_on k D (whole s)) /\
  rest (snd (fst (run_on k D (chunked p s e)))) = rest (snd (fst (run_on k D (whole s)))).
Proof.
  unfold run_on, outcome, allocated. rewrite rest_chunked, rest_whole.
  apply (exec_chunk_independent k Hk).
Qed.

Theorem chunk_independent_all {A} (D : nat -> prog A) : chunk_independent D.
Proof.
  intros k Hk s p e. apply run_on_chunk_independent. now apply all_full_kinds.
Qed.

Theorem robust_strlist_read : robust (strlist_read1 precap_of_code) 16 540692.
Proof. apply (robust_of_spec _ 16 262084%Z (K_strlist max_prealloc) _ _ (fun F => spec_strlist_read1 F max_prealloc)); unfold K_strlist, max_prealloc; lia. Qed.

Theorem robust_strlist_read_bytes : robust strlist_read_bytes 16 262200.
Proof. apply (robust_of_spec _ 16 262160%Z 262200%Z _ _ spec_strlist_read_bytes); lia. Qed.

Theorem robust_block_read : robust (block_read precap_of_code) 16 840960.
Proof. apply (robust_of_spec _ 16 262100%Z (K_block max_prealloc) _ _ (fun F => spec_block_read F max_prealloc)); unfold K_block, max_prealloc; lia. Qed.

Theorem robust_table_read : robust (table_read precap_of_code) 16 865536.
Proof. apply (robust_of_spec _ 16 262100%Z (K_table max_prealloc) _ _ (fun F => spec_table_read F max_prealloc)); unfold K_table, max_prealloc; lia. Qed.

Theorem robust_blockindex_read : robust blockindex_read 16 6500.
Proof. apply (robust_of_spec _ 16 6500%Z 6500%Z _ _ spec_blockindex_read); lia. Qed.

Theorem robust_commit_read pi ptz : robust (commit_read pi ptz) 16 196817.
Proof. apply (robust_of_spec _ 16 100%Z (K_string + 200)%Z _ _ (spec_commit_read pi ptz)); unfold K_string; lia. Qed.

Theorem robust_profile_read : robust (profile_read precap_of_code) 96 849152.
Proof. apply (robust_of_spec _ 96 262100%Z (K_profile max_prealloc) _ _ (fun F => spec_profile_read F max_prealloc)); unfold K_profile, max_prealloc; lia. Qed.

Theorem robust_objhdr_read : robust objhdr_read 16 1.
Proof. apply (robust_of_spec _ 16 (1 - 2 * 16)%Z 1%Z _ _ (fun F => spec_objhdr_read F 16)); lia. Qed.

Theorem robust_object_read : robust object_read 300 600.
Proof. apply (robust_of_spec _ c_pack 0%Z 600%Z _ _ spec_object_read); lia. Qed.

Theorem robust_packfile_read : robust packfile_read 300 612.
Proof. apply (robust_of_spec _ c_pack 612%Z 12%Z _ _ spec_packfile_read); lia. Qed.

Theorem robust_pktline_read : robust (fun _ => pktline_read) 16 131100.
Proof. apply (robust_of_spec _ 16 0%Z K_pkt _ _ spec_pktline_read); unfold K_pkt; lia. Qed.

Theorem robust_pktline_seq : robust pktline_seq 16 131100.
Proof. apply (robust_of_spec _ 16 K_pkt 0%Z _ _ spec_pktline_seq); unfold K_pkt; lia. Qed.

Theorem robust_uintlist_read : robust (uintlist_read precap_of_code) 16 4096.
Proof. apply (robust_of_spec _ 16 (-64)%Z (4 * Z.of_N max_prealloc)%Z _ _ (fun F => spec_uintlist_read F max_prealloc)); unfold max_prealloc; lia. Qed.

Theorem robust_floatlist_read : robust (floatlist_read precap_of_code) 16 8192.
Proof. apply (robust_of_spec _ 16 (-64)%Z (8 * Z.of_N max_prealloc)%Z _ _ (fun F => spec_floatlist_read F max_prealloc)); unfold max_prealloc; lia. Qed.

(** the reuse-mode decoders (New...Decoder(true)): the other branch of strSlice /
    makeUintSlice / makeFloatSlice *)
Theorem robust_strlist_read_reuse : robust (strlist_read1_reuse precap_of_code) 16 544788.
Proof.
  apply (robust_of_spec _ 16 266180%Z (K_strlist max_prealloc + 4096)%Z _ _
           (fun F => spec_strlist_read1_reuse F max_prealloc)); unfold K_strlist, max_prealloc; lia.
Qed.

Theorem robust_strlist_read_bytes_reuse : robust (strlist_read_bytes_g true) 16 262200.
Proof. apply (robust_of_spec _ 16 262160%Z 262200%Z _ _ (fun F => spec_strlist_read_bytes_g F true)); lia. Qed.

Theorem robust_uintlist_entry ru : robust (uintlist_entry ru precap_of_code) 16 5124.
Proof.
  apply (robust_of_spec _ 16 (Z.of_N (4 + ctor_cost ru 4) - 64)%Z
           (4 * Z.of_N max_prealloc + Z.of_N (4 + ctor_cost ru 4))%Z _ _
           (fun F => spec_list_entry F _ (4 + ctor_cost ru 4) (4 * Z.of_N max_prealloc)%Z ltac:(unfold max_prealloc; lia) (spec_uintlist_read_g F ru max_prealloc)));
    unfold ctor_cost, reuse_cap0, max_prealloc; destruct ru; lia.
Qed.

Theorem robust_floatlist_entry ru : robust (floatlist_entry ru precap_of_code) 16 10248.
Proof.
  apply (robust_of_spec _ 16 (Z.of_N (8 + ctor_cost ru 8) - 64)%Z
           (8 * Z.of_N max_prealloc + Z.of_N (8 + ctor_cost ru 8))%Z _ _
           (fun F => spec_list_entry F _ (8 + ctor_cost ru 8) (8 * Z.of_N max_prealloc)%Z ltac:(unfold max_prealloc; lia) (spec_floatlist_read_g F ru max_prealloc)));
    unfold ctor_cost, reuse_cap0, max_prealloc; destruct ru; lia.
Qed.

(** a clamp covering only the non-reusing branch (= [Uncapped] on the reuse branch): 6 input
    bytes announcing 2^23 strings make NewStrListDecoder(true).Read allocate 128 MiB *)
Theorem reuse_branch_uncapped_alloc :
  let b := [0; 128; 0; 0; 0; 0] in
  wf_bytes b /\ length b = 6%nat /\
  134217728 <= allocated (run_on read_kinds_of_code (strlist_read1_reuse Uncapped) (whole b)).
Proof.
  cbv zeta. split; [repeat constructor|]. split; [reflexivity|].
  vm_compute. discriminate.
Qed.

(** the pre-fix, uncapped pre-allocation: 8 input bytes, > 96 GiB requested *)
Theorem uncapped_block_alloc :
  let b := [255; 255; 255; 255; 0; 0; 0; 0] in
  wf_bytes b /\ length b = 8%nat /\
  103079215080 <= allocated (run_on read_kinds_of_code (block_read Uncapped) (whole b)).
Proof.
  cbv zeta. split; [repeat constructor|]. split; [reflexivity|].
  vm_compute. discriminate.
Qed.

(** the pre-fix single Read: a packfile header delivered one byte at a time *)
Definition single_magic : site -> read_kind :=
  fun s => match s with S_pack_magic => Single | _ => Full end.

Theorem single_read_chunk_dependent :
  let s := [80; 65; 67; 75; 0; 0; 0; 1] in      (* "PACK" 0 0 0 1 *)
  let p := [1; 1; 1; 1; 1; 1; 1; 1]%nat in
  outcome (run_on single_magic packfile_read (whole s)) = Ok (1, [], CEof) /\
  outcome (run_on single_magic packfile_read (chunked p s false)) = Err COther.
Proof. cbv zeta. split; vm_compute; reflexivity. Qed.
