(** C08 - proofs, part 2: termination of the visited-set-free walk by the path-count measure,
    the exact step count, and the diamond chain (the complexity clause is false). *)
From Coq Require Import List NArith Bool Arith Lia Permutation.
From W.lib Require Import Tree.
From W.model Require Import ClosedSets ClosedSetsSpec.
From W.proofs Require Import ClosedSets_proofs.
Import ListNotations.

(* ------------------------------------------------------------------ *)
(** * heights are bounded by the number of commits (pigeonhole) *)
(* ------------------------------------------------------------------ *)

Lemma ht_mono : forall g k c, ht g k c -> ht g (S k) c.
Proof.
  intros g. induction k as [|k IH]; intros c H.
  - simpl in *. rewrite H. intros p [].
  - simpl in *. intros p Hp. apply IH. apply H; auto.
Qed.

Lemma parent_in_dom : forall g c p, parent_of g c p -> In c (map fst (s_commits g)).
Proof.
  intros g c p H. destruct (get_commit g c) as [cm|] eqn:E.
  - eapply get_commit_dom; eauto.
  - exfalso. eapply parent_exists; eauto.
Qed.

Lemma ht_pigeon : forall g rank,
  (forall c p, parent_of g c p -> rank p < rank c) ->
  forall k c l, NoDup l -> incl l (map fst (s_commits g)) ->
                (forall x, In x l -> rank c < rank x) ->
                ncommits g <= k + length l -> ht g k c.
Proof.
  intros g rank Hr. induction k as [|k IH]; intros c l Hnd Hincl Hrk Hlen.
  - simpl. destruct (parents_of g c) as [|p ps] eqn:E; auto. exfalso.
    assert (Hc : In c (map fst (s_commits g))).
    { apply (parent_in_dom g c p). unfold parent_of. rewrite E. left; auto. }
    assert (Hall : incl (map fst (s_commits g)) l).
    { apply NoDup_length_incl; auto. unfold ncommits in Hlen. rewrite map_length. lia. }
    specialize (Hrk c (Hall c Hc)). lia.
  - simpl. intros p Hp.
    assert (Hc : In c (map fst (s_commits g))) by (eapply parent_in_dom; eauto).
    apply (IH p (c :: l)).
    + constructor; auto. intros Hin. specialize (Hrk c Hin). lia.
    + intros x [<-|Hx]; auto.
    + intros x [<-|Hx]. apply Hr; auto. specialize (Hrk x Hx). specialize (Hr c p Hp). lia.
    + simpl. lia.
Qed.

Lemma acyclic_ht : forall g, acyclic g -> forall c, ht g (ncommits g) c.
Proof.
  intros g [rank Hr] c. apply (ht_pigeon g rank Hr (ncommits g) c []).
  - constructor.
  - intros x [].
  - intros x [].
  - simpl. lia.
Qed.

(* ------------------------------------------------------------------ *)
(** * the path count saturates; its recurrence *)
(* ------------------------------------------------------------------ *)

Lemma npaths_sat_above : forall g stop k c, ht g k c ->
  forall j, npaths g stop (S k + j) c = npaths g stop (S k) c.
Proof.
  intros g stop. induction k as [|k IH]; intros c H j.
  - simpl in H. simpl. rewrite H. simpl. reflexivity.
  - simpl in H. change (S (S k) + j) with (S (S k + j)).
    change (npaths g stop (S (S k + j)) c) with
        (if stop c then 1 else S (list_sum (map (npaths g stop (S k + j)) (parents_of g c)))).
    change (npaths g stop (S (S k)) c) with
        (if stop c then 1 else S (list_sum (map (npaths g stop (S k)) (parents_of g c)))).
    destruct (stop c); auto. f_equal. f_equal. apply map_ext_in. intros p Hp. apply IH. auto.
Qed.

(** the fuel is the number of parent paths: it satisfies the path-count recurrence *)
Lemma npaths_rec : forall g stop, acyclic g -> forall c,
  npaths_sat g stop c =
  if stop c then 1 else S (list_sum (map (npaths_sat g stop) (parents_of g c))).
Proof.
  intros g stop Ha c. unfold npaths_sat.
  change (npaths g stop (S (ncommits g)) c) with
      (if stop c then 1 else S (list_sum (map (npaths g stop (ncommits g)) (parents_of g c)))).
  destruct (stop c); auto. f_equal. f_equal. apply map_ext_in. intros p Hp.
  pose proof (acyclic_ht g Ha c) as Hc.
  destruct (ncommits g) as [|n] eqn:En.
  - simpl in Hc. rewrite Hc in Hp. destruct Hp.
  - simpl in Hc. specialize (Hc p Hp).
    pose proof (npaths_sat_above g stop n p Hc 1) as H. rewrite Nat.add_1_r in H. auto.
Qed.

Lemma npaths_pos : forall g stop k c, 1 <= npaths g stop k c.
Proof. intros g stop [|k] c; simpl; [lia|]. destruct (stop c); lia. Qed.

(* ------------------------------------------------------------------ *)
(** * fuel suffices, and the number of steps is exactly the path count *)
(* ------------------------------------------------------------------ *)

Definition qweight (g : store) (stop : cid -> bool) (q : list (cid * nat)) : nat :=
  list_sum (map (fun sd => npaths_sat g stop (fst sd)) q).

Lemma qweight_app : forall g stop q1 q2,
  qweight g stop (q1 ++ q2) = qweight g stop q1 + qweight g stop q2.
Proof. intros. unfold qweight. rewrite map_app, list_sum_app. reflexivity. Qed.

Lemma qweight_parents : forall g stop d ps,
  qweight g stop (map (fun p => (p, S d)) ps) = list_sum (map (npaths_sat g stop) ps).
Proof. intros. unfold qweight. rewrite map_map. simpl. reflexivity. Qed.

Lemma walk_steps : forall g depth seen commons defer, acyclic g ->
  forall fuel q sums cl tl,
    qweight g (stopb seen commons) q <= fuel ->
    match walk g depth seen commons defer fuel q sums cl tl with
    | WFuel => False
    | WDone sums' _ _ => length sums' = length sums + qweight g (stopb seen commons) q
    | _ => True
    end.
Proof.
  intros g depth seen commons defer Ha. set (stop := stopb seen commons).
  induction fuel as [|f IH]; intros q sums cl tl Hw.
  - destruct q as [|[s d] q']; simpl.
    + unfold qweight; simpl. lia.
    + exfalso. unfold qweight in Hw. simpl in Hw.
      pose proof (npaths_pos g stop (S (ncommits g)) s). unfold npaths_sat in Hw. lia.
  - destruct q as [|[s d] q'].
    + simpl. unfold qweight; simpl. lia.
    + rewrite walk_unfold.
      assert (Hq : qweight g stop ((s, d) :: q') = npaths_sat g stop s + qweight g stop q').
      { unfold qweight. simpl. reflexivity. }
      rewrite Hq in *. rewrite (npaths_rec g stop Ha s) in *.
      destruct (wstep g depth seen commons defer s d q' sums cl tl) as [q1 s1 c1 t1| |] eqn:E; auto.
      apply wstep_next in E.
      destruct E as [[Hstop [-> [-> [-> ->]]]]|[Hstop [c [Hg [_ [-> [-> [-> ->]]]]]]]];
        fold stop in Hstop; rewrite Hstop in *.
      * specialize (IH q' (s :: sums) cl tl).
        destruct (walk g depth seen commons defer f q' (s :: sums) cl tl); auto.
        -- simpl in IH. lia.
        -- apply IH. lia.
      * rewrite (parents_of_get _ _ _ Hg) in *.
        specialize (IH (q' ++ map (fun p => (p, S d)) (c_parents c)) (s :: sums) (s :: cl)
                       (if depth_ok depth d then c_table c :: tl else tl)).
        rewrite qweight_app, qweight_parents in IH.
        destruct (walk g depth seen commons defer f (q' ++ map (fun p => (p, S d)) (c_parents c))
                       (s :: sums) (s :: cl) (if depth_ok depth d then c_table c :: tl else tl)); auto.
        -- simpl in IH. lia.
        -- apply IH. lia.
Qed.

(** the exact step-count characterisation: a completed walk pops exactly as many queue entries
    as there are parent paths from the want (cut at stopped commits) *)
Lemma walk_want_steps : forall g depth seen commons defer w, acyclic g ->
  match walk_want g depth seen commons defer w with
  | WFuel => False
  | WDone sums _ _ => length sums = npaths_sat g (stopb seen commons) w
  | _ => True
  end.
Proof.
  intros g depth seen commons defer w Ha. unfold walk_want.
  pose proof (walk_steps g depth seen commons defer Ha (walk_fuel g seen commons w) [(w, 0)] [] [] []) as H.
  assert (Hq : qweight g (stopb seen commons) [(w, 0)] = walk_fuel g seen commons w).
  { unfold qweight, walk_fuel, npaths_sat. simpl. lia. }
  rewrite Hq in H. specialize (H (le_n _)).
  destruct (walk g depth seen commons defer (walk_fuel g seen commons w) [(w, 0)] [] [] []); auto;
    try (simpl in H; unfold walk_fuel, npaths_sat in *; lia).
Qed.

(** a walk errs only on a commit that is not stored *)
Lemma walk_err : forall g depth seen commons defer fuel q sums cl tl,
  (forall s d, In (s, d) q -> get_commit g s <> None) -> closed g ->
  walk g depth seen commons defer fuel q sums cl tl <> WErr.
Proof.
  intros g depth seen commons defer. induction fuel as [|f IH]; intros q sums cl tl Hq Hc.
  - destruct q as [|[s d] q']; simpl; discriminate.
  - destruct q as [|[s d] q']; [simpl; discriminate|].
    rewrite walk_unfold.
    destruct (wstep g depth seen commons defer s d q' sums cl tl) as [q1 s1 c1 t1| |] eqn:E.
    + apply wstep_next in E.
      destruct E as [[Hstop [-> [-> [-> ->]]]]|[Hstop [c [Hg [_ [-> [-> [-> ->]]]]]]]].
      * apply IH; auto. intros s0 d0 H. apply (Hq s0 d0). right; auto.
      * apply IH; auto. intros s0 d0 H. apply in_app_or in H. destruct H as [H|H].
        -- apply (Hq s0 d0). right; auto.
        -- apply in_map_iff in H. destruct H as [p [Ep Hp]]. inversion Ep; subst.
           apply (Hc s s0). unfold parent_of. rewrite (parents_of_get _ _ _ Hg). auto.
    + discriminate.
    + exfalso. unfold wstep in E.
      destruct (mem s seen); [discriminate|]. destruct (mem s commons); [discriminate|].
      destruct (get_commit g s) eqn:Eg.
      * destruct (defer && Nat.eqb (length (c_parents c)) 0); discriminate.
      * apply (Hq s d); auto. left; auto.
Qed.

Lemma walk_want_err : forall g depth seen commons defer w,
  get_commit g w <> None -> closed g -> walk_want g depth seen commons defer w <> WErr.
Proof.
  intros. unfold walk_want. apply walk_err; auto. intros s d [E|[]]. inversion E; subst; auto.
Qed.

(** when nothing is stopped every popped entry is listed *)
Lemma walk_all_listed : forall g depth defer fuel q sums cl tl sums' cl' tl',
  length cl = length sums ->
  walk g depth [] [] defer fuel q sums cl tl = WDone sums' cl' tl' ->
  length cl' = length sums'.
Proof.
  intros g depth defer. induction fuel as [|f IH]; intros q sums cl tl sums' cl' tl' Hl H.
  - destruct q as [|[s d] q']; simpl in H; [|discriminate]. inversion H; subst; auto.
  - destruct q as [|[s d] q'].
    + simpl in H. inversion H; subst; auto.
    + rewrite walk_unfold in H.
      destruct (wstep g depth [] [] defer s d q' sums cl tl) as [q1 s1 c1 t1| |] eqn:E; try discriminate.
      apply wstep_next in E.
      destruct E as [[Hstop _]|[Hstop [c [Hg [_ [-> [-> [-> ->]]]]]]]].
      * unfold stopb in Hstop. simpl in Hstop. discriminate.
      * eapply IH; [|exact H]. simpl. lia.
Qed.

(* ------------------------------------------------------------------ *)
(** * enqueue_loop / enqueue never run out of fuel; errors need a missing commit *)
(* ------------------------------------------------------------------ *)

Lemma enqueue_loop_total : forall g depth commons defer, acyclic g ->
  forall order seen cls tls dfr,
    match enqueue_loop g depth commons defer order seen cls tls dfr with
    | Fuel => False
    | ErrStore => closed g -> (forall w, In w order -> get_commit g w <> None) -> False
    | Ok _ => True
    end.
Proof.
  intros g depth commons defer Ha. induction order as [|w r IH]; intros seen cls tls dfr; simpl; auto.
  pose proof (walk_want_steps g depth seen commons defer w Ha) as Hs.
  destruct (walk_want g depth seen commons defer w) as [sums cl tl| | |] eqn:E; try contradiction.
  - specialize (IH (sums ++ seen) (cls ++ [cl]) (tls ++ [tl]) dfr).
    destruct (enqueue_loop g depth commons defer r (sums ++ seen) (cls ++ [cl]) (tls ++ [tl]) dfr); auto.
  - specialize (IH seen cls tls (dfr ++ [w])).
    destruct (enqueue_loop g depth commons defer r seen cls tls (dfr ++ [w])); auto.
  - intros Hc Hw. apply (walk_want_err g depth seen commons defer w); auto.
Qed.

(* ------------------------------------------------------------------ *)
(** * the diamond chain *)
(* ------------------------------------------------------------------ *)

Lemma dc_get_hi : forall n k, (N.of_nat (3 * n) < k)%N -> assoc (diamond_commits n) k = None.
Proof.
  induction n as [|n IH]; intros k Hk.
  - cbn [diamond_commits assoc]. destruct (N.eqb 0 k) eqn:E; auto.
    apply N.eqb_eq in E. simpl in Hk. lia.
  - cbn [diamond_commits assoc].
    assert (E1 : N.eqb (N.of_nat (3 * n) + 3) k = false) by (apply N.eqb_neq; lia).
    assert (E2 : N.eqb (N.of_nat (3 * n) + 2) k = false) by (apply N.eqb_neq; lia).
    assert (E3 : N.eqb (N.of_nat (3 * n) + 1) k = false) by (apply N.eqb_neq; lia).
    rewrite E1, E2, E3. apply IH. lia.
Qed.

Lemma dc_get_root : forall n, assoc (diamond_commits n) 0%N = Some (mkCommit [] 0 0).
Proof.
  induction n as [|n IH].
  - reflexivity.
  - cbn [diamond_commits assoc].
    assert (E1 : N.eqb (N.of_nat (3 * n) + 3) 0 = false) by (apply N.eqb_neq; lia).
    assert (E2 : N.eqb (N.of_nat (3 * n) + 2) 0 = false) by (apply N.eqb_neq; lia).
    assert (E3 : N.eqb (N.of_nat (3 * n) + 1) 0 = false) by (apply N.eqb_neq; lia).
    rewrite E1, E2, E3. auto.
Qed.

(** the three commits of diamond m+1 inside a chain of n > m diamonds *)
Lemma dc_get : forall n m, m < n ->
  let b := N.of_nat (3 * m) in
  assoc (diamond_commits n) (b + 3)%N = Some (mkCommit [(b + 1)%N; (b + 2)%N] (b + 3)%N 0) /\
  assoc (diamond_commits n) (b + 2)%N = Some (mkCommit [b] (b + 2)%N 0) /\
  assoc (diamond_commits n) (b + 1)%N = Some (mkCommit [b] (b + 1)%N 0).
Proof.
  induction n as [|n IH]; intros m Hm b; [lia|].
  cbn [diamond_commits assoc].
  destruct (Nat.eq_dec m n) as [->|Hne].
  - fold b. rewrite N.eqb_refl.
    assert (E1 : N.eqb (b + 3) (b + 2) = false) by (apply N.eqb_neq; lia).
    assert (E2 : N.eqb (b + 3) (b + 1) = false) by (apply N.eqb_neq; lia).
    assert (E3 : N.eqb (b + 2) (b + 1) = false) by (apply N.eqb_neq; lia).
    rewrite E1, E2, E3, !N.eqb_refl. auto.
  - assert (Hlt : m < n) by lia. destruct (IH m Hlt) as [H3 [H2 H1]]. fold b in H3, H2, H1.
    assert (Hb : (b + 3 <= N.of_nat (3 * n))%N) by (unfold b; lia).
    repeat match goal with
           | |- context [N.eqb ?x ?y] =>
               let E := fresh "E" in
               assert (E : N.eqb x y = false) by (apply N.eqb_neq; lia); rewrite E; clear E
           end.
    auto.
Qed.

Lemma dc_parent_cases : forall n c p, parent_of (diamond_chain n) c p ->
  exists m, m < n /\
    let b := N.of_nat (3 * m) in
    (c = (b + 1)%N /\ p = b) \/ (c = (b + 2)%N /\ p = b) \/
    (c = (b + 3)%N /\ (p = (b + 1)%N \/ p = (b + 2)%N)).
Proof.
  intros n c p Hp. unfold parent_of, parents_of, get_commit, diamond_chain in *. simpl in *.
  destruct (N.eq_dec c 0) as [->|Hc0].
  - rewrite dc_get_root in Hp. destruct Hp.
  - destruct (N.lt_ge_cases (N.of_nat (3 * n)) c) as [Hhi|Hlo].
    + rewrite dc_get_hi in Hp; auto. destruct Hp.
    + set (m := (N.to_nat c - 1) / 3).
      assert (Hm : m < n).
      { unfold m. apply Nat.div_lt_upper_bound; lia. }
      assert (Hj : N.to_nat c = 3 * m + 1 \/ N.to_nat c = 3 * m + 2 \/ N.to_nat c = 3 * m + 3).
      { unfold m. pose proof (Nat.div_mod (N.to_nat c - 1) 3).
        pose proof (Nat.mod_upper_bound (N.to_nat c - 1) 3). lia. }
      destruct (dc_get n m Hm) as [H3 [H2 H1]].
      exists m. split; auto. cbv zeta.
      destruct Hj as [Hj|[Hj|Hj]].
      * assert (Ec : c = (N.of_nat (3 * m) + 1)%N) by lia. rewrite Ec in Hp. rewrite H1 in Hp.
        destruct Hp as [<-|[]]. left. auto.
      * assert (Ec : c = (N.of_nat (3 * m) + 2)%N) by lia. rewrite Ec in Hp. rewrite H2 in Hp.
        destruct Hp as [<-|[]]. right. left. auto.
      * assert (Ec : c = (N.of_nat (3 * m) + 3)%N) by lia. rewrite Ec in Hp. rewrite H3 in Hp.
        destruct Hp as [<-|[<-|[]]]; right; right; auto.
Qed.

Lemma dc_get_top : forall n m, m <= n -> assoc (diamond_commits n) (N.of_nat (3 * m)) <> None.
Proof.
  intros n [|m'] Hm.
  - simpl. rewrite dc_get_root. discriminate.
  - assert (Hm' : m' < n) by lia. destruct (dc_get n m' Hm') as [H3' _].
    replace (N.of_nat (3 * S m')) with (N.of_nat (3 * m') + 3)%N by lia.
    rewrite H3'. discriminate.
Qed.

Lemma dc_closed : forall n, closed (diamond_chain n).
Proof.
  intros n c p Hp. destruct (dc_parent_cases n c p Hp) as [m [Hm H]]. cbv zeta in H.
  unfold get_commit, diamond_chain. simpl.
  destruct (dc_get n m Hm) as [H3 [H2 H1]].
  destruct H as [[_ ->]|[[_ ->]|[_ [->| ->]]]].
  - apply dc_get_top. lia.
  - apply dc_get_top. lia.
  - rewrite H1. discriminate.
  - rewrite H2. discriminate.
Qed.

Lemma dc_acyclic : forall n, acyclic (diamond_chain n).
Proof.
  intros n. exists N.to_nat. intros c p Hp.
  destruct (dc_parent_cases n c p Hp) as [m [Hm H]]. cbv zeta in H. lia.
Qed.

(** ** the count: 2^(n+2) - 3 entries for 3n+1 commits *)

Lemma nostop : forall c, stopb [] [] c = false.
Proof. reflexivity. Qed.

Lemma dc_paths : forall n m, m <= n ->
  npaths_sat (diamond_chain n) (stopb [] []) (N.of_nat (3 * m)) + 3 = 2 ^ (m + 2).
Proof.
  intros n. induction m as [|m IH]; intros Hm.
  - rewrite (npaths_rec _ _ (dc_acyclic n)). rewrite nostop.
    unfold parents_of, get_commit, diamond_chain. cbn [s_commits]. 
    change (N.of_nat (3 * 0)) with 0%N. rewrite dc_get_root. reflexivity.
  - assert (Hlt : m < n) by lia. destruct (dc_get n m Hlt) as [H3 [H2 H1]].
    specialize (IH (Nat.lt_le_incl _ _ Hlt)).
    set (b := N.of_nat (3 * m)) in *.
    replace (N.of_nat (3 * S m)) with (b + 3)%N by (unfold b; lia).
    assert (P3 : parents_of (diamond_chain n) (b + 3)%N = [(b + 1)%N; (b + 2)%N]).
    { unfold parents_of, get_commit, diamond_chain. cbn [s_commits]. rewrite H3. reflexivity. }
    assert (P2 : parents_of (diamond_chain n) (b + 2)%N = [b]).
    { unfold parents_of, get_commit, diamond_chain. cbn [s_commits]. rewrite H2. reflexivity. }
    assert (P1 : parents_of (diamond_chain n) (b + 1)%N = [b]).
    { unfold parents_of, get_commit, diamond_chain. cbn [s_commits]. rewrite H1. reflexivity. }
    rewrite (npaths_rec _ _ (dc_acyclic n) (b + 3)%N), nostop, P3. cbn [map list_sum].
    rewrite (npaths_rec _ _ (dc_acyclic n) (b + 2)%N), nostop, P2. cbn [map list_sum].
    rewrite (npaths_rec _ _ (dc_acyclic n) (b + 1)%N), nostop, P1. cbn [map list_sum].
    replace (S m + 2) with (S (m + 2)) by lia. rewrite Nat.pow_succ_r'. unfold list_sum; cbn [fold_right]. lia.
Qed.

Lemma diamond_send_len : forall n, exists l, diamond_send n = Some l /\ length l + 3 = 2 ^ (n + 2).
Proof.
  intros n. unfold diamond_send.
  set (g := diamond_chain n). set (t := diamond_top n).
  assert (Hg : exists cm, get_commit g t = Some cm /\ c_table cm = 0%N).
  { unfold g, t, diamond_top, get_commit, diamond_chain. cbn [s_commits]. destruct n as [|m].
    - change (N.of_nat (3 * 0)) with 0%N. rewrite dc_get_root. eauto.
    - destruct (dc_get (S m) m (Nat.lt_succ_diag_r m)) as [H3 _].
      replace (N.of_nat (3 * S m)) with (N.of_nat (3 * m) + 3)%N by lia. rewrite H3. eauto. }
  destruct Hg as [cm [Hcm Htb]].
  unfold process, q_new. cbn [q_reset_loop mem existsb]. rewrite Hcm.
  cbn [q_reset_loop app isort_time fold_right q_ins].
  unfold ensure_wants. cbn [ew_loop q_seen mem existsb]. rewrite N.eqb_refl. cbn [orb]. rewrite Hcm.
  unfold confirm, table_exist. rewrite Htb. change (s_tables g) with [0%N].
  change (mem 0%N [0%N]) with true. cbn [filter mem existsb]. rewrite N.eqb_refl. cbn [orb negb].
  cbn [find_commons fc_loop new_finder f_commons f_wants f_clists f_tlists f_depth f_calls f_multi f_accepted
       add_all fold_left add_set mem existsb app length Nat.eqb negb andb].
  unfold enqueue. cbn [f_commons f_wants f_clists f_tlists f_depth f_calls f_multi f_accepted].
  change (ord_of 0 0 [t]) with [t]. cbn [enqueue_loop].
  pose proof (walk_want_steps g 0 [] [] false t (dc_acyclic n)) as Hs.
  pose proof (walk_want_err g 0 [] [] false t) as He.
  destruct (walk_want g 0 [] [] false t) as [sums cl tl| | |] eqn:Ew.
  - cbn [app]. unfold commits_to_send, flush_wants. cbn [f_wants f_clists concat].
    exists (cl ++ []). split; auto. rewrite app_nil_r.
    assert (Hl : length cl = length sums).
    { unfold walk_want in Ew. eapply walk_all_listed; [|exact Ew]. reflexivity. }
    rewrite Hl, Hs. unfold t, diamond_top, g. apply dc_paths. lia.
  - exfalso. unfold walk_want in Ew. eapply walk_no_defer; eauto.
  - exfalso. apply He; auto. rewrite Hcm; discriminate. apply dc_closed.
  - contradiction.
Qed.
