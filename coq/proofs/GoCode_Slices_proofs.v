(** (b) slice.StringSliceEqual, (c) objects.StringSliceIsLess, (d) sorter.pkIsDifferent:
    translated bodies (gen/ExtractedCode.v) = the functions of model/Sorter.v. *)
From Coq Require Import List ZArith NArith Bool String Lia Arith.
From W.lib Require Import Tree Bytes GoLang.
From W.proofs Require Import GoLang_proofs.
From W.gen Require Import ExtractedCode.
From W.model Require Import Sorter.
Import ListNotations.
Local Open Scope Z_scope.

(** * (b) StringSliceEqual *)
Fixpoint strs_eqb (a b : list bytes) : bool :=
  match a, b with
  | [], [] => true
  | x :: a', y :: b' => beqb x y && strs_eqb a' b'
  | _, _ => false
  end.

Lemma strs_eqb_length a : forall b, strs_eqb a b = true -> length a = length b.
Proof.
  induction a as [|x a IH]; intros [|y b]; cbn; try discriminate; auto.
  intros H. apply andb_prop in H. f_equal. apply IH, H.
Qed.

Lemma go_StringSliceEqual_spec (a b : list bytes) :
  exists fuel, run_func fuel go_prog go_StringSliceEqual [v_strs a; v_strs b]
               = FOk [VBool (strs_eqb a b)] [].
Proof.
  start_func go_StringSliceEqual. unfold v_strs.
  stepn. stepn. split_if as Hlen.
  { (* lengths differ *)
    stepsn. repeat f_equal. destruct (strs_eqb a b) eqn:E; [|reflexivity].
    apply strs_eqb_length in E. apply negb_true_iff, Z.eqb_neq in Hlen. lia. }
  apply negb_false_iff, Z.eqb_eq, Nat2Z.inj in Hlen.
  stepsn.
  (* the range loop: invariant over the remaining cells a' = skipn n a *)
  lazymatch goal with |- wp_items ?p ?id ?k ?v ?body _ _ _ _ =>
    assert (LOOP : forall (Q : outcome -> Prop) a' n vi vv, (n + length a' = length b)%nat ->
              (strs_eqb a' (skipn n b) = false -> forall e', Q (OReturn [VBool false] e')) ->
              (strs_eqb a' (skipn n b) = true -> forall vi' vv',
                  Q (ONormal [VList (map VStr a); VList (map VStr b); vi'; vv'])) ->
              wp_items p id k v body (map VStr a') (Z.of_nat n)
                       [VList (map VStr a); VList (map VStr b); vi; vv] Q)
  end.
  { intros Q. induction a' as [|x a' IH]; intros n vi vv Hn Hf Ht; cbn [map wp_items].
    - apply Ht. cbn in Hn. rewrite skipn_all2 by lia. reflexivity.
    - cbn [length] in Hn. ev.
      assert (Hs : skipn n b = nth n b [] :: skipn (S n) b) by (apply skipn_nth_cons; lia).
      stepn. split_if as Hc; try rewrite (beqb_sym (nth n b []) x) in Hc.
      + stepsn. apply Hf. rewrite Hs. cbn [strs_eqb]. apply negb_true_iff in Hc. now rewrite Hc.
      + stepsn. replace (Z.of_nat n + 1) with (Z.of_nat (S n)) by lia.
        apply negb_false_iff in Hc.
        apply IH; [lia| |]; rewrite Hs in *; cbn [strs_eqb] in *; rewrite Hc in *; cbn [andb] in *; auto. }
  apply (LOOP _ a O); [cbn; lia| |]; cbn [skipn].
  - intros E e'. ev. now rewrite E.
  - intros E vi' vv'. stepsn. now rewrite E.
Qed.

Lemma strs_eqb_key_eqb a : forall b, strs_eqb a b = key_eqb a b.
Proof.
  unfold key_eqb, keqb.
  induction a as [|x a IH]; intros [|y b]; cbn; try reflexivity.
  unfold beqb. destruct (bcmp x y); cbn; try reflexivity.
  rewrite IH. reflexivity.
Qed.

Lemma go_StringSliceEqual_model (a b : list bytes) :
  exists fuel, run_func fuel go_prog go_StringSliceEqual [v_strs a; v_strs b]
               = FOk [VBool (key_eqb a b)] [].
Proof. rewrite <- strs_eqb_key_eqb. apply go_StringSliceEqual_spec. Qed.

Lemma key_eqb_true_iff a b : key_eqb a b = true <-> a = b.
Proof.
  rewrite <- strs_eqb_key_eqb. revert b.
  induction a as [|x a IH]; intros [|y b]; cbn; split; try discriminate; try reflexivity.
  - intros H. apply andb_prop in H. destruct H as [H1 H2]. unfold beqb in H1.
    destruct (bcmp x y) eqn:E; try discriminate. apply bcmp_eq in E. apply IH in H2. congruence.
  - intros H. inversion H; subst. unfold beqb. rewrite bcmp_refl. cbn. now apply IH.
Qed.

Lemma key_eqb_sym a b : key_eqb a b = key_eqb b a.
Proof.
  apply eq_true_iff_eq. rewrite !key_eqb_true_iff. split; congruence.
Qed.

(** * (c) StringSliceIsLess *)
(** what Go needs not to panic: every compared index exists in both rows *)
Definition isless_wf (pk : list nat) (a b : row) : Prop :=
  match pk with
  | [] => (length a <= length b)%nat
  | _ => Forall (fun u => (u < length a)%nat /\ (u < length b)%nat) pk
  end.

Lemma ssl_all_skipn a b n :
  (n < length a)%nat ->
  ssl_all (skipn n a) (skipn n b)
  = if blt (nth n a []) (nth n b []) then true
    else if bgt (nth n a []) (nth n b []) then false
    else ssl_all (skipn (S n) a) (skipn (S n) b).
Proof.
  intros H. rewrite (skipn_nth_cons a n []) by exact H. cbn [ssl_all].
  assert (E1 : hd [] (skipn n b) = nth n b []).
  { clear. revert n; induction b as [|y b IH]; intros [|n]; cbn; auto. }
  assert (E2 : tl (skipn n b) = skipn (S n) b).
  { clear. revert n; induction b as [|y b IH]; intros n.
    - destruct n; reflexivity.
    - destruct n as [|n]; [reflexivity|].
      change (skipn (S (S n)) (y :: b)) with (skipn (S n) b).
      change (skipn (S n) (y :: b)) with (skipn n b). apply IH. }
  now rewrite E1, E2.
Qed.

Lemma ssl_pk_skipn pk a b n :
  (n < length pk)%nat ->
  ssl_pk (skipn n pk) a b
  = if blt (nth (nth n pk O) a []) (nth (nth n pk O) b []) then true
    else if bgt (nth (nth n pk O) a []) (nth (nth n pk O) b []) then false
    else ssl_pk (skipn (S n) pk) a b.
Proof. intros H. rewrite (skipn_nth_cons pk n O) by exact H. reflexivity. Qed.

Lemma go_StringSliceIsLess_model (pk : list nat) (a b : row) :
  isless_wf pk a b -> Forall (fun u => Z.of_nat u < 2 ^ 32) pk ->
  exists fuel, run_func fuel go_prog go_StringSliceIsLess [v_nats pk; v_strs a; v_strs b]
               = FOk [VBool (string_slice_is_less pk a b)] [].
Proof.
  intros WF Hpk.
  start_func go_StringSliceIsLess. unfold v_strs, v_nats.
  stepn. stepn. split_if as Hpk0.
  - (* len(pk) == 0: compare all cells *)
    rewrite ?length_map_v_nat in Hpk0. apply Z.eqb_eq in Hpk0.
    destruct pk; [|cbn in Hpk0; lia]. cbn [isless_wf] in WF. cbn [string_slice_is_less map].
    stepn. stepn.
    eapply (wp_items_inv _ _ _ _ _ _
              (fun n e => (exists vi vs, e = [VList []; VList (map VStr a); VList (map VStr b); vi; vs; VUnset])
                          /\ ssl_all a b = ssl_all (skipn n a) (skipn n b))).
    + split; [eauto|reflexivity].
    + intros n e x ((vi & vs & ->) & Hinv) Hx.
      apply (nth_error_map_inv VStr a n x []) in Hx. destruct Hx as [Hn ->].
      rewrite (ssl_all_skipn a b n Hn) in Hinv. rewrite ?bgt_as_blt in Hinv.
      ev. run_with ltac:(rewrite ?bgt_as_blt); first [now rewrite Hinv | split; [eauto|exact Hinv]].
    + intros e ((vi & vs & ->) & Hinv). rewrite length_map_VStr in Hinv.
      rewrite (skipn_all a) in Hinv. cbn [ssl_all] in Hinv.
      stepsn. now rewrite Hinv.
  - (* key columns *)
    rewrite ?length_map_v_nat in Hpk0. apply Z.eqb_neq in Hpk0.
    assert (WF' : Forall (fun u => (u < length a)%nat /\ (u < length b)%nat) pk).
    { destruct pk; [cbn in Hpk0; lia|exact WF]. }
    assert (E : string_slice_is_less pk a b = ssl_pk pk a b).
    { destruct pk; [cbn in Hpk0; lia|reflexivity]. }
    rewrite E. clear E WF.
    stepn. stepn. stepn.
    eapply (wp_items_inv _ _ _ _ _ _
              (fun n e => (exists vi vs vu, e = [VList (map v_nat pk); VList (map VStr a); VList (map VStr b); vi; vs; vu])
                          /\ ssl_pk pk a b = ssl_pk (skipn n pk) a b)).
    + split; [eauto|reflexivity].
    + intros n e x ((vi & vs & vu & ->) & Hinv) Hx.
      apply (nth_error_map_inv v_nat pk n x O) in Hx. destruct Hx as [Hn ->].
      rewrite (ssl_pk_skipn pk a b n Hn) in Hinv.
      assert (Hu : (nth n pk O < length a)%nat /\ (nth n pk O < length b)%nat).
      { rewrite Forall_forall in WF'. apply WF'. now apply nth_In. }
      rewrite ?bgt_as_blt in Hinv.
      ev. run_with ltac:(rewrite ?bgt_as_blt); first [now rewrite Hinv | split; [eauto|exact Hinv]].
    + intros e ((vi & vs & vu & ->) & Hinv). rewrite length_map_v_nat in Hinv.
      rewrite (skipn_all pk) in Hinv. cbn [ssl_pk] in Hinv.
      stepsn. now rewrite Hinv.
Qed.

(** * (d) pkIsDifferent: [first *bool] and the contents of [prevPK] are in/out.
    Assumes pk and prevPK do not overlap in memory and have the same length (the sorter
    allocates both with len(pkIndices)). *)
Lemma go_pkIsDifferent_model (pk prev : key) (first : bool) :
  length prev = length pk ->
  exists fuel, run_func fuel go_prog go_pkIsDifferent [v_strs pk; v_strs prev; VBool first]
               = let '(r, prev', first') := pk_is_different pk prev first in
                 FOk [VBool r] [v_strs prev'; VBool first'].
Proof.
  intros Hlen.
  assert (Hcopy : copy_into (map VStr prev) (map VStr pk) = map VStr pk)
    by (apply copy_into_same_len; now rewrite !map_length).
  start_func go_pkIsDifferent. unfold v_strs, pk_is_different.
  stepn. stepn. destruct first.
  - stepsn. now rewrite Hcopy.
  - stepn. step_call go_StringSliceEqual_model. rewrite ?(key_eqb_sym pk prev).
    stepn. destruct (key_eqb prev pk).
    + stepsn. reflexivity.
    + stepsn. now rewrite Hcopy.
Qed.
