(** Bridge B8: proofs.
    B8a  [pool_blocks_agree], [pool_ingest_table_agree]: for every schedule the table the caller
         assembles from the pool model's result is the table of the ingest model under the
         arrival function the schedule induces (RowsCount modulo 2^32), so C01 / C03 apply to
         every completed pool run ([pool_ingest_lossless], [pool_ingest_wf]);
         [order_realised]: conversely every order of the blocks is the completion order of
         some schedule (one worker per block).
    B8b  [flow_spec_events]: PoolFlow's abstract differ is the image of the diff specification;
         [flow_dataflow_*]: C16_dataflow for the streams of the diff MODEL (C04);
         [merge_group_view], [merge_collector_input]: for every interleaving the grouping holds,
         for every key, what the merge model's [mk_mrec] says, and the records handed to the
         resolver are those of [Merge.merge_records]. *)
From W.lib Require Import Tree Bytes.
From W.model Require Import Sorter SorterSpec Ingest IngestSpec.
From W.model Require Pool PoolSpec PoolFlow Diff DiffSpec Merge.
From W.model Require Import BridgePoolIngest.
From W.proofs Require Import Sorter_proofs Ingest_proofs.
From W.proofs Require PoolBase_proofs Pool_proofs PoolData_proofs PoolThm_proofs PoolTop_proofs.
From Coq Require String.
From Coq Require Import Arith Lia ZifyNat ZifyN ZifyBool Bool List Sorting.Sorted Sorting.Permutation.
Import ListNotations.
Local Open Scope nat_scope.

(* ================================================================== B8a *)

(** * the two views of a block agree *)

Lemma pblk_save H pk b : pblk_of_ab (save_block H pk b) = pblk_of_sblock b.
Proof. reflexivity. Qed.

Lemma map_pblk_save H pk bs : map pblk_of_ab (map (save_block H pk) bs) = map pblk_of_sblock bs.
Proof. rewrite map_map. apply map_ext. intros b. apply pblk_save. Qed.

Lemma map_off_pblk l : map Pool.b_off (map pblk_of_ab l) = map N.of_nat (map ab_offset l).
Proof. rewrite !map_map. reflexivity. Qed.

Lemma NoDup_map_of_nat l : NoDup l -> NoDup (map N.of_nat l).
Proof.
  induction 1 as [|x l Hx Hn IH]; cbn; constructor; auto.
  intros Hin. apply in_map_iff in Hin as (y & E & Hy). apply Nat2N.inj in E. now subst.
Qed.

(** * arrival in a given order *)

Lemma take_off_spec o l a l' :
  take_off o l = Some (a, l') -> N.of_nat (ab_offset a) = o /\ Permutation l (a :: l').
Proof.
  revert a l'; induction l as [|x l IH]; intros a l' E; cbn in E; [discriminate|].
  destruct (N.eqb (N.of_nat (ab_offset x)) o) eqn:Eo.
  - injection E as <- <-. apply N.eqb_eq in Eo. auto.
  - destruct (take_off o l) as [[y r']|] eqn:Et; [|discriminate]. injection E as <- <-.
    destruct (IH _ _ eq_refl) as [E1 P]. split; auto.
    rewrite P. apply perm_swap.
Qed.

Lemma reorder_perm order : forall l r, reorder order l = Some r -> Permutation r l.
Proof.
  induction order as [|o os IH]; intros l r E; cbn in E.
  - destruct l; [|discriminate]. injection E as <-. constructor.
  - destruct (take_off o l) as [[a l']|] eqn:Et; [|discriminate].
    destruct (reorder os l') as [r'|] eqn:Er; [|discriminate]. injection E as <-.
    destruct (take_off_spec _ _ _ _ Et) as [_ P]. rewrite P. constructor. now apply IH.
Qed.

(** for EVERY order the function is an arrival function in the sense of C01 / C03 *)
Lemma arrive_in_order_any order : any_arrival (arrive_in_order order).
Proof.
  intros l. unfold arrive_in_order. destruct (reorder order l) as [r|] eqn:E; [|reflexivity].
  eapply reorder_perm; eauto.
Qed.

Lemma take_off_found a l :
  In a l -> NoDup (map ab_offset l) ->
  exists l', take_off (N.of_nat (ab_offset a)) l = Some (a, l').
Proof.
  induction l as [|x l IH]; intros Hin Hn; [destruct Hin|]. cbn [take_off].
  cbn in Hn. inversion Hn as [|? ? Hx Hn']; subst.
  destruct (N.eqb (N.of_nat (ab_offset x)) (N.of_nat (ab_offset a))) eqn:Eo.
  - apply N.eqb_eq in Eo. apply Nat2N.inj in Eo. destruct Hin as [->|Hin]; [eauto|].
    exfalso. apply Hx. rewrite Eo. now apply in_map.
  - destruct Hin as [->|Hin]; [rewrite N.eqb_refl in Eo; discriminate|].
    destruct (IH Hin Hn') as (l' & ->). eauto.
Qed.

Lemma pblk_of_ab_inj_off a a' : pblk_of_ab a = pblk_of_ab a' -> ab_offset a = ab_offset a'.
Proof. unfold pblk_of_ab. intros E. injection E as E1 _. now apply Nat2N.inj in E1. Qed.

(** a list of async blocks with distinct offsets can be put into any order of its pool view *)
Lemma reorder_complete p : forall l,
  NoDup (map ab_offset l) -> Permutation p (map pblk_of_ab l) ->
  exists r, reorder (map Pool.b_off p) l = Some r /\ map pblk_of_ab r = p.
Proof.
  induction p as [|x p IH]; intros l Hn P.
  - apply Permutation_nil in P. destruct l; [|discriminate]. exists []. auto.
  - assert (Hx : In x (map pblk_of_ab l)) by (eapply Permutation_in; eauto; now left).
    apply in_map_iff in Hx as (a & Ea & Ha).
    destruct (take_off_found a l Ha Hn) as (l' & Et).
    destruct (take_off_spec _ _ _ _ Et) as [_ Pl].
    assert (Hn' : NoDup (map ab_offset l')).
    { assert (Q : NoDup (map ab_offset (a :: l'))) by (eapply Permutation_NoDup; [apply Permutation_map; eauto|auto]).
      now inversion Q. }
    assert (P' : Permutation p (map pblk_of_ab l')).
    { apply (Permutation_cons_inv (a := x)). rewrite P, Pl. cbn. now rewrite Ea. }
    destruct (IH l' Hn' P') as (r & Er & Em).
    exists (a :: r). cbn [map reorder]. rewrite <- Ea at 1. cbn [pblk_of_ab Pool.b_off].
    rewrite Et, Er. split; [reflexivity|]. cbn. now rewrite Ea, Em.
Qed.

(** * the two sortBlocks agree under the abstraction (distinct offsets) *)

Lemma SS_map_pblk l :
  StronglySorted off_lt l -> StronglySorted PoolBase_proofs.lt_off (map pblk_of_ab l).
Proof.
  induction 1 as [|a l Hs IH Ha]; cbn; constructor; auto.
  rewrite Forall_forall in *. intros y Hy. apply in_map_iff in Hy as (b & <- & Hb).
  specialize (Ha b Hb). unfold off_lt in Ha. unfold PoolBase_proofs.lt_off, pblk_of_ab.
  cbn [Pool.b_off]. lia.
Qed.

Lemma sort_blocks_commute l :
  NoDup (map ab_offset l) ->
  map pblk_of_ab (Ingest.sort_blocks l) = Pool.sort_blocks (map pblk_of_ab l).
Proof.
  intros Hn. apply PoolBase_proofs.sorted_perm_eq.
  - apply SS_map_pblk. apply le_sorted_nodup_lt; [apply sort_blocks_sorted|].
    eapply Permutation_NoDup; [apply Permutation_map, Permutation_sym, sort_blocks_perm|auto].
  - apply PoolBase_proofs.sort_blocks_sorted. rewrite map_off_pblk. now apply NoDup_map_of_nat.
  - rewrite PoolBase_proofs.sort_blocks_perm. apply Permutation_map, sort_blocks_perm.
Qed.

(** * sums *)

Lemma sum_rows_pblk l :
  Pool.sum_rows (map pblk_of_ab l) = fold_left (fun n a => (n + N.of_nat (ab_count a))%N) l 0%N.
Proof.
  assert (G : forall z, fold_left (fun n a => (n + N.of_nat (ab_count a))%N) l z
                        = (z + Pool.sum_rows (map pblk_of_ab l))%N).
  { induction l as [|a l IH]; intros z; [cbn; lia|]. cbn [fold_left map]. rewrite IH.
    unfold Pool.sum_rows. cbn [fold_right pblk_of_ab Pool.b_rows]. lia. }
  rewrite G. lia.
Qed.

(** * looking the saved blocks up by offset *)

Lemma find_saved_in saved a :
  NoDup (map ab_offset saved) -> In a saved -> find_saved saved (N.of_nat (ab_offset a)) = Some a.
Proof.
  unfold find_saved. induction saved as [|x l IH]; intros Hn Hin; [destruct Hin|].
  cbn in Hn. inversion Hn as [|? ? Hx Hn']; subst. cbn [find].
  destruct (N.eqb (N.of_nat (ab_offset x)) (N.of_nat (ab_offset a))) eqn:Eo.
  - apply N.eqb_eq in Eo. apply Nat2N.inj in Eo. destruct Hin as [->|Hin]; auto.
    exfalso. apply Hx. rewrite Eo. now apply in_map.
  - destruct Hin as [->|Hin]; [rewrite N.eqb_refl in Eo; discriminate|]. auto.
Qed.

Lemma collect_find_saved saved l :
  NoDup (map ab_offset saved) -> incl l saved ->
  collect (map (fun b => find_saved saved (Pool.b_off b)) (map pblk_of_ab l)) = Some l.
Proof.
  intros Hn. induction l as [|a l IH]; intros Hi; cbn; auto.
  rewrite (find_saved_in saved a Hn) by (apply Hi; now left).
  rewrite IH; auto. intros y Hy. apply Hi. now right.
Qed.

(** * the pool run on the sorter's blocks vs ingestTableFromBlocks of the ingest model *)

Section PoolBlocks.
  Variable H : list bytes -> N.
  Variable c : Pool.cfg.
  Hypothesis Hok : PoolBase_proofs.cfg_ok c.
  Variables (columns : list bytes) (pk : list nat).
  Variables (rem : list nat) (kept : list row) (bs : list sblock).
  Hypothesis Hch : chunked (length columns) pk rem 0 kept bs.
  Variable sched : list nat.

  Let saved := map (save_block H pk) bs.
  Let blocks := map pblk_of_sblock bs.
  Let s := pool_run c sched bs.

  Lemma saved_offsets : map ab_offset saved = seq 0 (length saved).
  Proof.
    unfold saved. rewrite map_map, map_length. cbn [save_block ab_offset].
    exact (chunked_offsets _ _ _ _ _ _ Hch).
  Qed.

  Lemma saved_nodup : NoDup (map ab_offset saved).
  Proof. rewrite saved_offsets. apply seq_NoDup. Qed.

  Lemma blocks_saved : blocks = map pblk_of_ab saved.
  Proof. unfold blocks, saved. symmetry. apply map_pblk_save. Qed.

  Lemma blocks_nodup : NoDup (map Pool.b_off blocks).
  Proof. rewrite blocks_saved, map_off_pblk. apply NoDup_map_of_nat, saved_nodup. Qed.

  Lemma blocks_nofail : Forall (fun b => Pool.b_fail b = Pool.FNone) blocks.
  Proof. unfold blocks. apply Forall_map. apply Forall_forall. reflexivity. Qed.

  Lemma blocks_sum : Pool.sum_rows blocks = N.of_nat (length (concat (map b_rows bs))).
  Proof. rewrite blocks_saved, sum_rows_pblk. unfold saved. rewrite fold_count_saved. lia. Qed.

  (** no Go panic under any schedule *)
  Lemma pool_no_panic : Pool.panicked s = false.
  Proof.
    destruct (PoolThm_proofs.run_inv c Hok (pool_items bs) sched) as [I _].
    exact (Pool_proofs.ic_np c _ I).
  Qed.

  (** the run can always be completed *)
  Lemma pool_completes : exists more, Pool.main_done (pool_run c (sched ++ more) bs) = true.
  Proof.
    destruct (PoolThm_proofs.run_inv c Hok (pool_items bs) sched) as [I _].
    destruct (PoolTop_proofs.completes c _ Hok I) as (more & Hm).
    exists more. unfold pool_run. now rewrite PoolTop_proofs.run_app.
  Qed.

  Theorem pool_blocks_agree :
    Pool.main_done s = true ->
    let arrive := pool_arrival c sched bs in
    any_arrival arrive /\
    map pblk_of_ab (arrive saved) = Pool.ab s /\
    exists T tidx w,
      ingest_blocks H arrive columns pk bs = (T, tidx, w) /\
      T = table_of H columns pk bs /\
      Pool.rc s = Pool.wrap32 (t_rowscount T) /\
      Pool.result s = Some (Pool.ROk (Pool.wrap32 (t_rowscount T))
                                     (map pblk_of_ab (Ingest.sort_blocks (arrive saved)))) /\
      pool_ingest_blocks H c sched columns pk bs = PIOk (wrap_rowscount T) tidx /\
      (forall a, In a (arrive saved) ->
         In (Pool.OBlk (N.of_nat (ab_offset a))) (Pool.store s) /\
         In (Pool.OIdx (N.of_nat (ab_offset a))) (Pool.store s)).
  Proof.
    intros Hd arrive.
    pose proof (PoolTop_proofs.done_sequential_blocks c blocks sched Hok blocks_nodup blocks_nofail) as Hseq.
    cbv zeta in Hseq. change (Pool.runs c sched (Pool.init c (map Pool.PBlk blocks))) with s in Hseq.
    destruct (Hseq Hd) as (Hres & Hperm & Hrc & Hsto). clear Hseq.
    assert (Harr : any_arrival arrive) by apply arrive_in_order_any.
    assert (Hab : map pblk_of_ab (arrive saved) = Pool.ab s).
    { destruct (reorder_complete (Pool.ab s) saved saved_nodup) as (r & Er & Em).
      { rewrite <- blocks_saved. now apply Permutation_sym. }
      unfold arrive, pool_arrival, arrive_in_order, completion_order. fold s. now rewrite Er. }
    split; [exact Harr|]. split; [exact Hab|].
    destruct (ingest_blocks_eq H arrive Harr columns pk rem kept bs Hch) as (w0 & Ei & _).
    eexists _, _, _. split; [exact Ei|]. split; [reflexivity|].
    assert (Ecount : t_rowscount (table_of H columns pk bs) = Pool.sum_rows blocks)
      by (rewrite blocks_sum; reflexivity).
    assert (Esort : Ingest.sort_blocks (arrive saved) = saved)
      by (apply (sort_blocks_arrival arrive saved 0 Harr saved_offsets)).
    assert (Etbl : map pblk_of_ab (Ingest.sort_blocks (arrive saved)) = Pool.sort_blocks blocks).
    { rewrite sort_blocks_commute.
      - rewrite Hab. symmetry. apply PoolBase_proofs.sort_blocks_unique; auto. apply blocks_nodup.
      - eapply Permutation_NoDup; [apply Permutation_map, Permutation_sym, Harr|apply saved_nodup]. }
    split; [now rewrite Ecount|].
    assert (Hres' : Pool.result s = Some (Pool.ROk (Pool.wrap32 (t_rowscount (table_of H columns pk bs)))
                                                   (map pblk_of_ab (Ingest.sort_blocks (arrive saved))))).
    { rewrite Hres, Etbl, Ecount. reflexivity. }
    split; [exact Hres'|]. split.
    - unfold pool_ingest_blocks. fold s. rewrite pool_no_panic, Hd, Hres'. cbn [negb].
      unfold pool_table. fold saved. rewrite Esort.
      rewrite (collect_find_saved saved saved saved_nodup (incl_refl _)).
      unfold wrap_rowscount, table_of, saved. cbn [t_columns t_pk t_rowscount t_blocks t_blockidx].
      rewrite !map_map. reflexivity.
    - intros a Ha.
      assert (Hb : In (pblk_of_ab a) blocks).
      { rewrite blocks_saved. apply in_map. eapply Permutation_in; [apply Harr|exact Ha]. }
      exact (Hsto _ Hb).
  Qed.
End PoolBlocks.

(** * IngestTableFromSorter / IngestTable through the pool *)

Section PoolTable.
  Variable H : list bytes -> N.
  Variable sort_rows : list nat -> list row -> list row.
  Variable c : Pool.cfg.
  Hypothesis Hok : PoolBase_proofs.cfg_ok c.

  Lemma pool_from_sorter_agree columns pk s rows sched :
    NoDup pk -> wf_rows (length columns) rows ->
    Permutation (concat (runs_of sort_rows pk s)) rows ->
    Forall (run_sorted pk) (runs_of sort_rows pk s) ->
    pool_agrees (pool_ingest_from_sorter H sort_rows c sched columns pk s)
                (fun arrive => ingest_from_sorter H sort_rows arrive columns pk s) /\
    exists more, pool_ingest_from_sorter H sort_rows c (sched ++ more) columns pk s <> PIRunning.
  Proof.
    intros Hnd Hwf Hperm Hsorted.
    destruct (blocks_any_runs (length columns) pk [] rows _ Hwf (wf_removed_nil _ _) Hperm Hsorted)
      as (bs & kept & E & Hc & _).
    unfold pool_ingest_from_sorter, ingest_from_sorter, sorted_blocks.
    rewrite E, (has_dup_false pk Hnd). cbn [andb]. split.
    - destruct (Pool.main_done (pool_run c sched bs)) eqn:Hd.
      + right. destruct (pool_blocks_agree H c Hok columns pk [] kept bs Hc sched Hd)
          as (Harr & _ & T & tidx & wr & Ei & _ & _ & _ & Ep & _).
        exists (pool_arrival c sched bs), T, tidx, wr. rewrite Ei. auto.
      + left. unfold pool_ingest_blocks.
        rewrite (pool_no_panic c Hok bs sched), Hd. reflexivity.
    - destruct (pool_completes c Hok bs sched) as (more & Hm). exists more.
      destruct (pool_blocks_agree H c Hok columns pk [] kept bs Hc (sched ++ more) Hm)
        as (_ & _ & T & tidx & wr & _ & _ & _ & _ & Ep & _).
      rewrite Ep. discriminate.
  Qed.

  Lemma pool_ingest_table_agree run_size columns pknames rows sched :
    sort_ok (length columns) sort_rows ->
    incl pknames columns -> NoDup pknames -> wf_rows (length columns) rows -> cells_in_limit rows ->
    pool_agrees (pool_ingest_table H sort_rows c sched run_size columns pknames rows)
                (fun arrive => ingest_table H sort_rows arrive run_size columns pknames rows) /\
    exists more, pool_ingest_table H sort_rows c (sched ++ more) run_size columns pknames rows <> PIRunning.
  Proof.
    intros Hso Hpk Hnd Hwf Hcl.
    destruct (key_indices_total columns pknames Hpk Hnd) as (pk & Ek).
    pose proof (key_indices_wf _ _ _ Ek) as Hwpk.
    pose proof (key_indices_NoDup _ _ _ Ek) as Hndpk.
    destruct (sorter_runs (length columns) sort_rows run_size pk rows Hso Hwpk Hwf Hcl)
      as (s & Es & Hperm & Hsorted).
    unfold pool_ingest_table, ingest_table. rewrite Ek, Es.
    apply pool_from_sorter_agree with (rows := rows); auto.
  Qed.
End PoolTable.

(** * RowsCount: uint32 in the pool, unbounded in the ingest model *)

Lemma wrap32_small x : (x < 4294967296)%N -> Pool.wrap32 x = x.
Proof. intros Hx. unfold Pool.wrap32, Pool.two32. now apply N.mod_small. Qed.

Lemma wrap32_lt x : (Pool.wrap32 x < 4294967296)%N.
Proof. unfold Pool.wrap32, Pool.two32. apply N.mod_lt. discriminate. Qed.

Lemma wrap_rowscount_small T : (t_rowscount T < 4294967296)%N -> wrap_rowscount T = T.
Proof. intros Hx. destruct T as [a b n d e]. unfold wrap_rowscount. cbn in *. now rewrite wrap32_small. Qed.

Lemma wrap_rowscount_rows T : rows_of (wrap_rowscount T) = rows_of T.
Proof. reflexivity. Qed.

Lemma ascending_NoDup ncols pk l : keys_strictly_ascending ncols pk l -> NoDup l.
Proof. intros Hs. eapply NoDup_map_inv. apply strict_sorted_NoDup_keys; eauto. Qed.

Lemma stored_le_input ncols pk (rows l : list row) :
  keys_strictly_ascending ncols pk l -> (forall r, In r l -> In r rows) -> length l <= length rows.
Proof. intros Hs Hi. apply NoDup_incl_length; [eapply ascending_NoDup; eauto|exact Hi]. Qed.

(** a sound table of 2^32 rows or more stops being sound - and is reported by the repository's
    own diagnosis - once its RowsCount has gone through the pool's uint32 counter *)
Lemma wrap_rowscount_unsound H T tidx :
  WF_table H T tidx -> (4294967296 <= N.of_nat (length (rows_of T)))%N ->
  ~ WF_table H (wrap_rowscount T) tidx /\ diagnose (wrap_rowscount T) = Some IssRowsCount.
Proof.
  intros Hwf Hbig. split.
  - intros (E & _). change (rows_of (wrap_rowscount T)) with (rows_of T) in E.
    cbn [wrap_rowscount t_rowscount] in E.
    pose proof (wrap32_lt (t_rowscount T)). lia.
  - pose proof (diagnose_clean H T tidx Hwf) as Hd. destruct Hwf as (E & _).
    unfold diagnose in *. change (rows_of (wrap_rowscount T)) with (rows_of T).
    cbn [wrap_rowscount t_columns t_pk t_rowscount t_blocks t_blockidx] in *.
    destruct (existsb (fun k => length (t_columns T) <=? k) (t_pk T)); [discriminate|].
    destruct (existsb (fun k => match nth k (t_columns T) [] with [] => true | _ => false end) (t_pk T));
      [discriminate|].
    destruct (dup_scan (repeat [] (length (t_columns T))) true (rows_of T)); [discriminate|].
    assert (Hne : (N.of_nat (length (rows_of T)) =? Pool.wrap32 (t_rowscount T))%N = false).
    { apply N.eqb_neq. pose proof (wrap32_lt (t_rowscount T)). lia. }
    rewrite Hne. reflexivity.
Qed.

(** * the theorems over the translator's skeleton *)

Section PoolTop.
  Variables (acc post outer : list String.string) (cap send : String.string) (w : nat).
  Hypothesis Hsk : Pool.skeleton_ok acc post outer cap send = true.
  Hypothesis Hw : 1 <= w.

  (** B8a, block level *)
  Theorem pool_blocks H columns pk rem kept bs :
    chunked (length columns) pk rem 0 kept bs ->
    exists c, Pool.cfg_of_skeleton acc post outer cap send w = Some c /\
    forall sched,
      let s := pool_run c sched bs in
      let arrive := pool_arrival c sched bs in
      let saved := map (save_block H pk) bs in
      Pool.panicked s = false /\ any_arrival arrive /\
      (exists more, Pool.main_done (pool_run c (sched ++ more) bs) = true) /\
      (Pool.main_done s = true ->
         map pblk_of_ab (arrive saved) = Pool.ab s /\
         exists T tidx wr,
           ingest_blocks H arrive columns pk bs = (T, tidx, wr) /\
           Pool.rc s = Pool.wrap32 (t_rowscount T) /\
           Pool.result s = Some (Pool.ROk (Pool.wrap32 (t_rowscount T))
                                          (map pblk_of_ab (Ingest.sort_blocks (arrive saved)))) /\
           pool_ingest_blocks H c sched columns pk bs = PIOk (wrap_rowscount T) tidx /\
           (forall a, In a (arrive saved) ->
              In (Pool.OBlk (N.of_nat (ab_offset a))) (Pool.store s) /\
              In (Pool.OIdx (N.of_nat (ab_offset a))) (Pool.store s))).
  Proof.
    intros Hch. destruct (PoolTop_proofs.skeleton_ok_cfg _ _ _ _ _ w Hsk Hw) as (c & Ec & Hok & _).
    exists c. split; [exact Ec|]. intros sched. cbv zeta.
    split; [apply (pool_no_panic c Hok)|]. split; [apply arrive_in_order_any|].
    split; [apply (pool_completes c Hok)|]. intros Hd.
    destruct (pool_blocks_agree H c Hok columns pk rem kept bs Hch sched Hd)
      as (_ & Hab & T & tidx & wr & Ei & _ & Hrc & Hres & Ep & Hsto).
    split; [exact Hab|]. exists T, tidx, wr. auto.
  Qed.

  Variable H : list bytes -> N.
  Variable sort_rows : list nat -> list row -> list row.

  (** B8a, IngestTable *)
  Theorem pool_ingest_table_top run_size columns pknames rows :
    sort_ok (length columns) sort_rows ->
    incl pknames columns -> NoDup pknames -> wf_rows (length columns) rows -> cells_in_limit rows ->
    exists c, Pool.cfg_of_skeleton acc post outer cap send w = Some c /\
    forall sched,
      pool_agrees (pool_ingest_table H sort_rows c sched run_size columns pknames rows)
                  (fun arrive => ingest_table H sort_rows arrive run_size columns pknames rows) /\
      exists more, pool_ingest_table H sort_rows c (sched ++ more) run_size columns pknames rows <> PIRunning.
  Proof.
    intros Hso Hpk Hnd Hwf Hcl.
    destruct (PoolTop_proofs.skeleton_ok_cfg _ _ _ _ _ w Hsk Hw) as (c & Ec & Hok & _).
    exists c. split; [exact Ec|]. intros sched. now apply pool_ingest_table_agree.
  Qed.

  (** B8a, IngestTableFromSorter (merge commit, doctor re-ingest) *)
  Theorem pool_from_sorter_top columns pk s rows :
    NoDup pk -> wf_rows (length columns) rows ->
    Permutation (concat (runs_of sort_rows pk s)) rows ->
    Forall (run_sorted pk) (runs_of sort_rows pk s) ->
    exists c, Pool.cfg_of_skeleton acc post outer cap send w = Some c /\
    forall sched,
      pool_agrees (pool_ingest_from_sorter H sort_rows c sched columns pk s)
                  (fun arrive => ingest_from_sorter H sort_rows arrive columns pk s) /\
      exists more, pool_ingest_from_sorter H sort_rows c (sched ++ more) columns pk s <> PIRunning.
  Proof.
    intros Hnd Hwf Hperm Hsorted.
    destruct (PoolTop_proofs.skeleton_ok_cfg _ _ _ _ _ w Hsk Hw) as (c & Ec & Hok & _).
    exists c. split; [exact Ec|]. intros sched. now apply pool_from_sorter_agree with (rows := rows).
  Qed.

  (** C16 o C01 *)
  Theorem pool_ingest_lossless run_size columns pknames rows :
    sort_ok (length columns) sort_rows ->
    incl pknames columns -> NoDup pknames -> wf_rows (length columns) rows -> cells_in_limit rows ->
    exists c pk, Pool.cfg_of_skeleton acc post outer cap send w = Some c /\
                 key_indices columns pknames = Some pk /\
    forall sched,
      (exists more, pool_ingest_table H sort_rows c (sched ++ more) run_size columns pknames rows <> PIRunning) /\
      (pool_ingest_table H sort_rows c sched run_size columns pknames rows = PIRunning \/
       exists T tidx,
         pool_ingest_table H sort_rows c sched run_size columns pknames rows = PIOk T tidx /\
         t_columns T = ensure_names columns /\ t_pk T = pk /\
         t_rowscount T = Pool.wrap32 (N.of_nat (length (rows_of T))) /\
         ((N.of_nat (length rows) < 4294967296)%N -> t_rowscount T = N.of_nat (length (rows_of T))) /\
         keys_strictly_ascending (length columns) pk (rows_of T) /\
         (forall r, In r (rows_of T) -> In r rows) /\
         (forall r, In r rows -> exists p, In p (rows_of T) /\
                                           dkey (length columns) pk p = dkey (length columns) pk r) /\
         (NoDup (map (dkey (length columns) pk) rows) -> Permutation rows (rows_of T))).
  Proof.
    intros Hso Hpk Hnd Hwf Hcl.
    destruct (pool_ingest_table_top run_size columns pknames rows Hso Hpk Hnd Hwf Hcl) as (c & Ec & Hall).
    destruct (key_indices_total columns pknames Hpk Hnd) as (pk & Ek).
    exists c, pk. split; [exact Ec|]. split; [exact Ek|]. intros sched.
    destruct (Hall sched) as [[Hrun|(arrive & T & tidx & wr & Harr & Ei & Ep)] Hmore].
    - split; [exact Hmore|]. now left.
    - split; [exact Hmore|]. right.
      destruct (ingest_lossless H sort_rows arrive run_size columns pknames rows Hso Harr Hpk Hnd Hwf Hcl)
        as (pk' & T' & tidx' & wr' & Ek' & Ei' & _ & L1 & L2 & L3 & L4 & L5 & L6 & L7).
      rewrite Ek in Ek'. injection Ek' as <-. rewrite Ei in Ei'. injection Ei' as <- <- <-.
      exists (wrap_rowscount T), tidx. split; [exact Ep|].
      change (rows_of (wrap_rowscount T)) with (rows_of T).
      cbn [wrap_rowscount t_columns t_pk t_rowscount].
      repeat (split; [solve [auto]|]).
      split; [now rewrite L3|]. split; [|auto].
      intros Hlt. rewrite L3. apply wrap32_small.
      pose proof (stored_le_input _ _ rows _ L4 L5). lia.
  Qed.

  (** C16 o C03 *)
  Theorem pool_ingest_wf run_size columns pknames rows :
    sort_ok (length columns) sort_rows ->
    incl pknames columns -> NoDup pknames -> wf_rows (length columns) rows -> cells_in_limit rows ->
    exists c, Pool.cfg_of_skeleton acc post outer cap send w = Some c /\
    forall sched,
      (exists more, pool_ingest_table H sort_rows c (sched ++ more) run_size columns pknames rows <> PIRunning) /\
      (pool_ingest_table H sort_rows c sched run_size columns pknames rows = PIRunning \/
       exists T tidx,
         pool_ingest_table H sort_rows c sched run_size columns pknames rows = PIOk (wrap_rowscount T) tidx /\
         WF_table H T tidx /\
         ((N.of_nat (length rows) < 4294967296)%N -> wrap_rowscount T = T)).
  Proof.
    intros Hso Hpk Hnd Hwf Hcl.
    destruct (pool_ingest_table_top run_size columns pknames rows Hso Hpk Hnd Hwf Hcl) as (c & Ec & Hall).
    exists c. split; [exact Ec|]. intros sched.
    destruct (Hall sched) as [[Hrun|(arrive & T & tidx & wr & Harr & Ei & Ep)] Hmore].
    - split; [exact Hmore|]. now left.
    - split; [exact Hmore|]. right.
      destruct (ingest_wf H sort_rows arrive run_size columns pknames rows Hso Harr Hpk Hnd Hwf Hcl)
        as (T' & tidx' & wr' & Ei' & HWF).
      rewrite Ei in Ei'. injection Ei' as <- <- <-.
      exists T, tidx. split; [exact Ep|]. split; [exact HWF|].
      intros Hlt. apply wrap_rowscount_small.
      destruct (ingest_lossless H sort_rows arrive run_size columns pknames rows Hso Harr Hpk Hnd Hwf Hcl)
        as (pk' & T' & tidx' & wr' & _ & Ei' & _ & _ & _ & L3 & L4 & L5 & _).
      rewrite Ei in Ei'. injection Ei' as <- <- <-.
      rewrite L3. pose proof (stored_le_input _ _ rows _ L4 L5). lia.
  Qed.

  (** C16 o C03 for any rows handed to a sorter (merge commit, doctor re-ingest) *)
  Theorem pool_sorter_wf columns pk s rows :
    wf_pk (length columns) pk -> NoDup pk -> wf_rows (length columns) rows ->
    Permutation (concat (runs_of sort_rows pk s)) rows ->
    Forall (run_sorted pk) (runs_of sort_rows pk s) ->
    exists c, Pool.cfg_of_skeleton acc post outer cap send w = Some c /\
    forall sched,
      (exists more, pool_ingest_from_sorter H sort_rows c (sched ++ more) columns pk s <> PIRunning) /\
      (pool_ingest_from_sorter H sort_rows c sched columns pk s = PIRunning \/
       exists T tidx,
         pool_ingest_from_sorter H sort_rows c sched columns pk s = PIOk (wrap_rowscount T) tidx /\
         WF_table H T tidx /\
         ((N.of_nat (length rows) < 4294967296)%N -> wrap_rowscount T = T)).
  Proof.
    intros Hwpk Hnd Hwf Hperm Hsorted.
    destruct (pool_from_sorter_top columns pk s rows Hnd Hwf Hperm Hsorted) as (c & Ec & Hall).
    exists c. split; [exact Ec|]. intros sched.
    destruct (Hall sched) as [[Hrun|(arrive & T & tidx & wr & Harr & Ei & Ep)] Hmore].
    - split; [exact Hmore|]. now left.
    - split; [exact Hmore|]. right.
      destruct (sorter_any_rows_wf H sort_rows arrive columns pk s rows Harr Hwpk Hnd Hwf Hperm Hsorted)
        as (T' & tidx' & wr' & Ei' & HWF & _).
      rewrite Ei in Ei'. injection Ei' as <- <- <-.
      exists T, tidx. split; [exact Ep|]. split; [exact HWF|].
      intros Hlt. apply wrap_rowscount_small.
      destruct (ingest_from_sorter_char H sort_rows arrive columns pk s rows Harr Hnd Hwf Hperm Hsorted)
        as (bs & kept & wr' & Ei' & _ & Hch & K1 & K2 & _).
      rewrite Ei in Ei'. injection Ei' as -> _ _.
      cbn [table_of t_rowscount]. rewrite (chunked_rows _ _ _ _ _ Hch).
      pose proof (stored_le_input _ _ rows _ K1 K2). lia.
  Qed.
End PoolTop.


(** * every order of the blocks is the completion order of some schedule *)

(** one worker per block: the caller spawns; block k goes to worker k; the workers run their
    bodies one after the other in the wanted order; the producer closes the channel; every
    worker returns; the caller runs to the end ([BridgePoolIngest.sched_of_order]) *)
Module Realise.
Import Pool PoolSpec PoolBase_proofs Pool_proofs PoolTop_proofs.

Definition mkS p cl sto rc ab mx wg ws pc res : st :=
  mk_st p false [] cl false [] false sto rc ab mx wg [] false ws pc res false.
Definition hold (body : list act) (b : blk) : worker := mk_worker (WBody body b) 0%N [].
Local Arguments wrap32 : simpl never.
Local Arguments runs : simpl never.
Local Arguments run_tr : simpl never.

Ltac proj_simpl :=
  unfold set_worker, set_store, set_mutex, set_rc, set_ab, set_buf, set_wg, set_prod, set_main, next_st;
  cbn [w_st w_trc w_tab b_fail b_off b_rows
       pend ppolled buf closed cancelled sbuf sclosed store rc ab mutex wg ebuf eclosed ws mainpc result panicked].

Ltac open_wstep := unfold step, step_worker; cbn [panicked ws].

Section R.
  Variable c : cfg.
  Hypothesis Hok : cfg_ok c.

  Lemma body_ne : exists a r, c_body c = a :: r.
  Proof. destruct (ok_body c Hok) as [-> | ->]; eexists _, _; reflexivity. Qed.
  Lemma ccap_S : exists m, c_ccap c = S m.
  Proof. pose proof (ok_ccap c Hok). destruct (c_ccap c); [lia|eauto]. Qed.

  Lemma step_send_recv b p cl sto rc ab wg ws pc res k trc tab :
    nth_error ws k = Some (mk_worker WLoop trc tab) ->
    runs c [1; S (S (S k))] (mkS (PBlk b :: p) cl sto rc ab None wg ws pc res)
    = mkS p cl sto rc ab None wg (set_nth k (mk_worker (WBody (c_body c) b) trc tab) ws) pc res.
  Proof.
    intros Hk. unfold mkS. rewrite run_cons. unfold step, step_prod. simpl.
    rewrite (ok_sel c Hok). destruct ccap_S as (m & ->). simpl.
    rewrite run_cons. unfold step, step_worker, set_prod. simpl. rewrite Hk. simpl.
    destruct body_ne as (a & r & ->). reflexivity.
  Qed.

  Lemma set_nth_set_nth {A} k (x y : A) l : set_nth k x (set_nth k y l) = set_nth k x l.
  Proof. revert k; induction l as [|z l IH]; intros [|k]; simpl; auto. now rewrite IH. Qed.

  Lemma step_body b p cl sto rc ab wg ws pc res k trc tab :
    nth_error ws k = Some (mk_worker (WBody (c_body c) b) trc tab) -> b_fail b = FNone ->
    runs c (repeat (S (S (S k))) (List.length (c_body c))) (mkS p cl sto rc ab None wg ws pc res)
    = mkS p cl (OIdx (b_off b) :: OBlk (b_off b) :: sto) (wrap32 (rc + b_rows b)) (ab ++ [b]) None wg
          (set_nth k (mk_worker WLoop rc ab) ws) pc res.
  Proof.
    intros Hk Hf. assert (Hlt : k < List.length ws) by (eapply nth_error_lt; eauto).
    destruct b as [off rows f]. cbn [b_fail] in Hf. subst f.
    destruct (ok_body c Hok) as [Eb|Eb]; rewrite Eb in *; unfold bodyA, bodyB in *;
    cbv [gen_body gen_cs accs_locked a_locked acc_act a_kind a_field app List.length repeat] in *; unfold mkS.
    - rewrite run_cons; open_wstep; rewrite Hk; proj_simpl.
      do 7 (rewrite run_cons; open_wstep;
          rewrite set_nth_same by (rewrite ?set_nth_length; exact Hlt); proj_simpl; rewrite ?set_nth_set_nth).
      reflexivity.
    - rewrite run_cons; open_wstep; rewrite Hk; proj_simpl.
      do 7 (rewrite run_cons; open_wstep;
          rewrite set_nth_same by (rewrite ?set_nth_length; exact Hlt); proj_simpl; rewrite ?set_nth_set_nth).
      reflexivity.
  Qed.

  Lemma runs_nil s : runs c [] s = s.
  Proof. reflexivity. Qed.

  (* ---- phase A: the caller spawns the workers *)
  Definition pcA : list mact := [MWait; MClose; MRecvErr; MSort; MCancel; MDrain; MCloseS; MRecvS].

  Lemma step_spawn items :
    runs c [0] (init c items)
    = mkS items false [] 0%N [] None (c_w c) (repeat worker0 (c_w c)) pcA None.
  Proof.
    rewrite run_cons. unfold init. rewrite (ok_inner c Hok), (ok_outer c Hok).
    unfold step, step_main, set_spawn, mkS. simpl. reflexivity.
  Qed.

  (* ---- phase B: block k goes to worker k *)
  Lemma set_nth_app_len {A} (pre : list A) x y rest :
    set_nth (List.length pre) x (pre ++ y :: rest) = pre ++ x :: rest.
  Proof. induction pre as [|z pre IH]; simpl; auto. now rewrite IH. Qed.

  Lemma nth_error_app_len {A} (pre : list A) y rest : nth_error (pre ++ y :: rest) (List.length pre) = Some y.
  Proof. induction pre as [|z pre IH]; simpl; auto. Qed.

  Lemma phaseB : forall bl pre m rest sto rc ab wg pc res,
    List.length bl <= m ->
    runs c (flat_map (fun k => [1; S (S (S k))]) (seq (List.length pre) (List.length bl)))
         (mkS (map PBlk bl ++ rest) false sto rc ab None wg (pre ++ repeat worker0 m) pc res)
    = mkS rest false sto rc ab None wg
          (pre ++ map (hold (c_body c)) bl ++ repeat worker0 (m - List.length bl)) pc res.
  Proof.
    induction bl as [|b bl IH]; intros pre m rest sto rc ab wg pc res Hm.
    - simpl. rewrite Nat.sub_0_r. reflexivity.
    - cbn [List.length] in Hm. destruct m as [|m]; [lia|].
      cbn [List.length seq flat_map map app]. change (1 :: S (S (S (List.length pre))) :: ?r) with ([1; S (S (S (List.length pre)))] ++ r).
      rewrite run_app. cbn [repeat].
      rewrite (step_send_recv b _ false sto rc ab wg _ pc res (List.length pre) 0%N []) by apply nth_error_app_len.
      rewrite set_nth_app_len.
      change (pre ++ ?x :: repeat worker0 m) with (pre ++ [x] ++ repeat worker0 m).
      rewrite app_assoc.
      replace (S (List.length pre)) with (List.length (pre ++ [hold (c_body c) b])) by (rewrite app_length; simpl; lia).
      rewrite IH by lia. rewrite <- app_assoc. reflexivity.
  Qed.

  (* ---- phase C: the workers run their bodies in the order pi *)
  Variable blocks : list blk.
  Hypothesis Hnf : Forall (fun b => b_fail b = FNone) blocks.
  Let n := List.length blocks.
  Let W := c_w c.
  Definition dblk : blk := mk_blk 0 0 FNone.
  Definition blk_at (j : nat) : blk := nth j blocks dblk.

  Definition wsC (done : list nat) (ws : list worker) : Prop :=
    List.length ws = W /\
    (forall j, j < n -> In j done -> exists trc tab, nth_error ws j = Some (mk_worker WLoop trc tab)) /\
    (forall j, j < n -> ~ In j done -> nth_error ws j = Some (hold (c_body c) (blk_at j))) /\
    (forall j, n <= j < W -> nth_error ws j = Some worker0).

  Lemma blk_at_nofail j : b_fail (blk_at j) = FNone.
  Proof.
    unfold blk_at. destruct (Nat.lt_ge_cases j n) as [Hlt|Hge].
    - rewrite Forall_forall in Hnf. apply Hnf. now apply nth_In.
    - now rewrite nth_overflow.
  Qed.

  Lemma phaseC : forall pi done ws sto rc ab pc res,
    NoDup (done ++ pi) -> Forall (fun j => j < n) pi -> wsC done ws ->
    exists ws' sto' rc',
      runs c (flat_map (fun k => repeat (S (S (S k))) (List.length (c_body c))) pi)
           (mkS [] false sto rc ab None W ws pc res)
      = mkS [] false sto' rc' (ab ++ map blk_at pi) None W ws' pc res /\
      wsC (done ++ pi) ws'.
  Proof.
    induction pi as [|j pi IH]; intros done ws sto rc ab pc res Hnd Hlt Hws.
    - exists ws, sto, rc. simpl. rewrite !app_nil_r. auto.
    - inversion Hlt as [|? ? Hj Hlt']; subst.
      assert (Hjd : ~ In j done).
      { intros Hin. apply NoDup_remove_2 in Hnd. apply Hnd. apply in_or_app. now left. }
      destruct Hws as (Hlen & Hdone & Hhold & Hrest).
      cbn [flat_map]. rewrite run_app.
      rewrite (step_body (blk_at j) [] false sto rc ab W ws pc res j 0%N [])
        by (auto using blk_at_nofail; apply Hhold; auto).
      assert (Hws' : wsC (done ++ [j]) (set_nth j (mk_worker WLoop rc ab) ws)).
      { assert (Hjw : j < List.length ws) by (eapply nth_error_lt; apply Hhold; auto).
        split; [now rewrite set_nth_length|]. split; [|split].
        - intros i Hi Hin. destruct (Nat.eq_dec i j) as [->|Hne].
          + rewrite set_nth_same by auto. eauto.
          + rewrite set_nth_other by auto. apply Hdone; auto.
            apply in_app_or in Hin as [Hin|[Hin|[]]]; auto. congruence.
        - intros i Hi Hin. rewrite set_nth_other.
          + apply Hhold; auto. intros H1. apply Hin. apply in_or_app. now left.
          + intros ->. apply Hin. apply in_or_app. right. now left.
        - intros i Hi. rewrite set_nth_other by lia. now apply Hrest. }
      destruct (IH (done ++ [j]) (set_nth j (mk_worker WLoop rc ab) ws) (OIdx (b_off (blk_at j)) :: OBlk (b_off (blk_at j)) :: sto)
                   (wrap32 (rc + b_rows (blk_at j))) (ab ++ [blk_at j]) pc res) as (ws' & sto' & rc' & Er & Hw).
      { now rewrite <- app_assoc. }
      { exact Hlt'. }
      { exact Hws'. }
      exists ws', sto', rc'. rewrite Er. rewrite <- !app_assoc in *. auto.
  Qed.

  (* ---- phase E: the producer closes the channel, every worker returns *)
  Lemma step_close sto rc ab wg ws pc res :
    runs c [1] (mkS [] false sto rc ab None wg ws pc res) = mkS [] true sto rc ab None wg ws pc res.
  Proof. rewrite run_cons. unfold step, step_prod, mkS. simpl. reflexivity. Qed.

  Lemma step_exit sto rc ab m ws pc res k trc tab :
    nth_error ws k = Some (mk_worker WLoop trc tab) ->
    runs c [S (S (S k)); S (S (S k))] (mkS [] true sto rc ab None (S m) ws pc res)
    = mkS [] true sto rc ab None m (set_nth k (mk_worker WDone trc tab) ws) pc res.
  Proof.
    intros Hk. assert (Hlt : k < List.length ws) by (eapply nth_error_lt; eauto). unfold mkS.
    rewrite run_cons; open_wstep; rewrite Hk; proj_simpl.
    rewrite run_cons; open_wstep; rewrite set_nth_same by exact Hlt; proj_simpl.
    rewrite set_nth_set_nth. reflexivity.
  Qed.

  Lemma phaseE : forall m k0 ws sto rc ab pc res,
    (forall j, k0 <= j < k0 + m -> exists trc tab, nth_error ws j = Some (mk_worker WLoop trc tab)) ->
    exists ws',
      runs c (flat_map (fun k => [S (S (S k)); S (S (S k))]) (seq k0 m)) (mkS [] true sto rc ab None m ws pc res)
      = mkS [] true sto rc ab None 0 ws' pc res.
  Proof.
    induction m as [|m IH]; intros k0 ws sto rc ab pc res Hl.
    - exists ws. reflexivity.
    - cbn [seq flat_map].
      rewrite run_app. destruct (Hl k0 ltac:(lia)) as (trc & tab & Hk).
      rewrite (step_exit sto rc ab m ws pc res k0 trc tab Hk).
      apply IH. intros j Hj. rewrite set_nth_other by lia. apply Hl. lia.
  Qed.

  (* ---- phase F: the caller runs to the end *)
  Lemma phaseF sto rc ab ws :
    let s := runs c (repeat 0 (List.length (c_inner c) + List.length (c_outer c)))
                  (mkS [] true sto rc ab None 0 ws pcA None) in
    main_done s = true /\ Pool.ab s = ab /\ Pool.rc s = rc /\ Pool.store s = sto /\
    result s = Some (ROk rc (sort_blocks ab)).
  Proof.
    rewrite (ok_inner c Hok), (ok_outer c Hok). cbn [List.length inner_prog outer_prog Nat.add repeat].
    unfold mkS, pcA.
    do 8 (rewrite run_cons; unfold step, step_main; cbn [panicked mainpc wg eclosed ebuf buf closed sclosed sbuf];
          proj_simpl).
    rewrite run_cons. unfold step, step_main. cbn [panicked mainpc]. rewrite runs_nil.
    cbv zeta. unfold main_done. cbn [mainpc Pool.ab Pool.rc Pool.store result]. auto.
  Qed.

  (* ---- assembly *)
  Definition sched_B : list nat := flat_map (fun k => [1; S (S (S k))]) (seq 0 n).
  Definition sched_C (pi : list nat) : list nat :=
    flat_map (fun k => repeat (S (S (S k))) (List.length (c_body c))) pi.
  Definition sched_E : list nat := flat_map (fun k => [S (S (S k)); S (S (S k))]) (seq 0 W).
  Definition sched_F : list nat := repeat 0 (List.length (c_inner c) + List.length (c_outer c)).

  Theorem order_realised_cfg pi :
    n <= W -> Permutation pi (seq 0 n) ->
    let s := runs c ([0] ++ sched_B ++ sched_C pi ++ [1] ++ sched_E ++ sched_F) (init c (map PBlk blocks)) in
    main_done s = true /\ ab s = map blk_at pi.
  Proof.
    intros HnW Hperm. cbv zeta. rewrite !run_app.
    rewrite step_spawn. fold W.
    pose proof (phaseB blocks [] W [] [] 0%N [] W pcA None HnW) as HB.
    cbn [List.length app] in HB. rewrite app_nil_r in HB. fold n in HB. unfold sched_B. rewrite HB. clear HB.
    assert (HwsC : wsC [] (map (hold (c_body c)) blocks ++ repeat worker0 (W - n))).
    { split; [rewrite app_length, map_length, repeat_length; fold n; lia|]. split; [|split].
      - intros j _ [].
      - intros j Hj _. rewrite nth_error_app1 by (rewrite map_length; exact Hj).
        rewrite nth_error_map. unfold blk_at. rewrite (nth_error_nth' blocks dblk Hj). reflexivity.
      - intros j Hj. rewrite nth_error_app2 by (rewrite map_length; fold n; lia).
        rewrite map_length. fold n. apply List.nth_error_repeat. lia. }
    destruct (phaseC pi [] (map (hold (c_body c)) blocks ++ repeat worker0 (W - n)) [] 0%N [] pcA None)
      as (ws' & sto' & rc' & EC & HwC); auto.
    { cbn [app]. eapply Permutation_NoDup; [apply Permutation_sym; exact Hperm|apply seq_NoDup]. }
    { apply Forall_forall. intros j Hj. apply (Permutation_in _ Hperm) in Hj. apply in_seq in Hj. lia. }
    unfold sched_C. rewrite EC. clear EC. cbn [app] in *.
    rewrite step_close.
    destruct HwC as (Hlen & Hdone & _ & Hrest).
    destruct (phaseE W 0 ws' sto' rc' (map blk_at pi) pcA None) as (ws'' & EE).
    { intros j Hj. destruct (Nat.lt_ge_cases j n) as [Hlt|Hge].
      - apply Hdone; auto. apply (Permutation_in _ (Permutation_sym Hperm)). apply in_seq. lia.
      - exists 0%N, []. apply Hrest. lia. }
    unfold sched_E. rewrite EE. clear EE.
    destruct (phaseF sto' rc' (map blk_at pi) ws'') as (F1 & F2 & _). unfold sched_F. auto.
  Qed.
End R.
End Realise.

Lemma sched_of_order_eq c blocks pi :
  sched_of_order c (length blocks) pi =
  [0] ++ Realise.sched_B blocks
      ++ Realise.sched_C c pi ++ [1] ++ Realise.sched_E c ++ Realise.sched_F c.
Proof. reflexivity. Qed.

Lemma pos_of_spec blocks b :
  NoDup (map Pool.b_off blocks) -> In b blocks ->
  pos_of (Pool.b_off b) blocks < length blocks /\
  nth (pos_of (Pool.b_off b) blocks) blocks Realise.dblk = b.
Proof.
  induction blocks as [|x l IH]; intros Hn Hin; [destruct Hin|].
  cbn in Hn. inversion Hn as [|? ? Hx Hn']; subst. cbn [pos_of].
  destruct (N.eqb (Pool.b_off x) (Pool.b_off b)) eqn:E.
  - apply N.eqb_eq in E. destruct Hin as [->|Hin].
    + cbn. split; [lia|reflexivity].
    + exfalso. apply Hx. rewrite E. now apply in_map.
  - destruct Hin as [->|Hin]; [rewrite N.eqb_refl in E; discriminate|].
    destruct (IH Hn' Hin) as [I1 I2]. cbn. split; [lia|exact I2].
Qed.

Lemma order_positions_map blocks p :
  NoDup (map Pool.b_off blocks) -> incl p blocks ->
  map (Realise.blk_at blocks) (order_positions blocks p) = p.
Proof.
  intros Hn Hi. unfold order_positions. rewrite map_map.
  rewrite <- (map_id p) at 2. apply map_ext_in. intros b Hb.
  apply (pos_of_spec blocks b Hn (Hi _ Hb)).
Qed.

Lemma order_positions_perm blocks p :
  NoDup (map Pool.b_off blocks) -> Permutation p blocks ->
  Permutation (order_positions blocks p) (seq 0 (length blocks)).
Proof.
  intros Hn P.
  assert (Hi : incl p blocks) by (intros b Hb; eapply Permutation_in; eauto).
  assert (Hnp : NoDup p).
  { eapply Permutation_NoDup; [apply Permutation_sym; exact P|]. eapply NoDup_map_inv; eauto. }
  apply NoDup_Permutation_bis.
  - eapply NoDup_map_inv with (f := Realise.blk_at blocks). rewrite order_positions_map; auto.
  - rewrite seq_length. unfold order_positions. rewrite map_length.
    rewrite (Permutation_length P). lia.
  - intros j Hj. unfold order_positions in Hj. apply in_map_iff in Hj as (b & <- & Hb).
    apply in_seq. split; [lia|]. apply (pos_of_spec blocks b Hn (Hi _ Hb)).
Qed.

Lemma map_inj_on {A B} (f : A -> B) (l1 l2 : list A) :
  (forall a b, In a l1 -> In b l2 -> f a = f b -> a = b) -> map f l1 = map f l2 -> l1 = l2.
Proof.
  revert l2; induction l1 as [|x l1 IH]; intros [|y l2] Hinj E; cbn in E; try discriminate; auto.
  injection E as E1 E2. f_equal.
  - apply Hinj; cbn; auto.
  - apply IH; auto. intros a b Ha Hb. apply Hinj; cbn; auto.
Qed.

Section Realised.
  Variables (acc post outer : list String.string) (cap send : String.string).
  Hypothesis Hsk : Pool.skeleton_ok acc post outer cap send = true.

  (** pool level: any order [p] of the blocks, any worker count w >= number of blocks *)
  Theorem order_realised blocks p w :
    NoDup (map Pool.b_off blocks) -> Forall (fun b => Pool.b_fail b = Pool.FNone) blocks ->
    Permutation p blocks -> 1 <= w -> length blocks <= w ->
    exists c, Pool.cfg_of_skeleton acc post outer cap send w = Some c /\
      let s := Pool.runs c (sched_of_order c (length blocks) (order_positions blocks p))
                         (Pool.init c (map Pool.PBlk blocks)) in
      Pool.main_done s = true /\ Pool.ab s = p.
  Proof.
    intros Hn Hnf P Hw Hlen.
    destruct (PoolTop_proofs.skeleton_ok_cfg _ _ _ _ _ w Hsk Hw) as (c & Ec & Hok & Ew).
    exists c. split; [exact Ec|]. cbv zeta. rewrite sched_of_order_eq.
    pose proof (Realise.order_realised_cfg c Hok blocks Hnf (order_positions blocks p)) as R.
    cbv zeta in R. rewrite Ew in R. specialize (R Hlen (order_positions_perm blocks p Hn P)).
    destruct R as [R1 R2]. split; [exact R1|]. rewrite R2. apply order_positions_map; auto.
    intros b Hb. eapply Permutation_in; eauto.
  Qed.

  (** ingest level: every permutation [q] of the saved blocks is what the arrival function of
      some complete pool run makes of them: the quantifier [any_arrival] of C01 / C03 ranges over
      nothing the pool cannot do (given as many workers as blocks) *)
  Theorem arrival_realised H (columns : list bytes) pk rem kept bs q w :
    chunked (length columns) pk rem 0 kept bs ->
    Permutation q (map (save_block H pk) bs) -> 1 <= w -> length bs <= w ->
    exists c sched, Pool.cfg_of_skeleton acc post outer cap send w = Some c /\
      Pool.main_done (pool_run c sched bs) = true /\
      pool_arrival c sched bs (map (save_block H pk) bs) = q.
  Proof.
    intros Hch P Hw Hlen. set (saved := map (save_block H pk) bs) in *.
    set (blocks := map pblk_of_sblock bs).
    assert (Hnd : NoDup (map ab_offset saved)) by (apply (saved_nodup H columns pk rem kept bs Hch)).
    assert (Hbn : NoDup (map Pool.b_off blocks)) by (apply (blocks_nodup H columns pk rem kept bs Hch)).
    assert (Hbs : blocks = map pblk_of_ab saved) by (apply blocks_saved).
    destruct (order_realised blocks (map pblk_of_ab q) w Hbn (blocks_nofail bs)) as (c & Ec & R); auto.
    { rewrite Hbs. now apply Permutation_map. }
    { unfold blocks. now rewrite map_length. }
    cbv zeta in R. destruct R as [R1 R2].
    destruct (PoolTop_proofs.skeleton_ok_cfg _ _ _ _ _ w Hsk Hw) as (c' & Ec' & Hok & _).
    rewrite Ec in Ec'. injection Ec' as <-.
    exists c, (sched_of_order c (length blocks) (order_positions blocks (map pblk_of_ab q))).
    split; [exact Ec|]. split; [exact R1|].
    destruct (pool_blocks_agree H c Hok columns pk rem kept bs Hch _ R1) as (Harr & Hab & _).
    fold saved in Hab. unfold pool_run, pool_items in Hab. fold blocks in Hab. rewrite R2 in Hab.
    apply (map_inj_on pblk_of_ab); [|exact Hab].
    intros a b Ha Hb E. apply pblk_of_ab_inj_off in E.
    apply (NoDup_map_inj ab_offset saved); auto.
    - eapply Permutation_in; [apply Harr|exact Ha].
    - eapply Permutation_in; [exact P|exact Hb].
  Qed.
End Realised.

(* ================================================================== B8b *)

From W.proofs Require PoolFlow_proofs DiffTable_proofs DiffMain_proofs MergeTable_proofs BridgeHashSetMerge_proofs.

Lemma keqb_true a b : keqb a b = true <-> a = b.
Proof.
  unfold keqb. split.
  - destruct (kcmp a b) eqn:E; try discriminate. intros _. now apply kcmp_eq.
  - intros ->. now rewrite kcmp_refl.
Qed.

(** * PoolFlow's abstract differ is the image of the diff specification *)

Section FlowSpec.
  Variable kh : Diff.key -> N.
  Hypothesis kh_inj : forall a b, kh a = kh b -> a = b.

  Lemma kh_eqb a b : N.eqb (kh a) (kh b) = keqb a b.
  Proof.
    destruct (keqb a b) eqn:E.
    - apply keqb_true in E. subst. apply N.eqb_refl.
    - apply N.eqb_neq. intros Hk. apply kh_inj in Hk. subst. rewrite (proj2 (keqb_true b b) eq_refl) in E.
      discriminate.
  Qed.

  Lemma find_row_flow l k : forall off,
    PoolFlow.find_row (kh k) off (flow_rows kh l) =
    option_map (fun pr => ((off + N.of_nat (fst pr))%N, snd pr)) (DiffSpec.lookup l k).
  Proof.
    induction l as [|[k' r] l IH]; intros off; cbn [flow_rows map PoolFlow.find_row DiffSpec.lookup fst snd];
      [reflexivity|].
    rewrite kh_eqb. destruct (keqb k' k).
    - cbn. f_equal. f_equal. lia.
    - fold (flow_rows kh l). rewrite IH. destruct (DiffSpec.lookup l k) as [[p r']|]; cbn; [|reflexivity].
      f_equal. f_equal. lia.
  Qed.

  Lemma flow_pass1 ce l2 : forall l1 p,
    map (flow_dev kh) (DiffSpec.spec_pass1 true ce l1 p l2) =
    PoolFlow.diff1 (flow_rows kh l2) (N.of_nat p) (flow_rows kh l1).
  Proof.
    induction l1 as [|[k r1] l1 IH]; intros p; [reflexivity|].
    cbn [DiffSpec.spec_pass1 flow_rows map PoolFlow.diff1 fst snd orb].
    fold (flow_rows kh l1). fold (flow_rows kh l2). rewrite map_app, IH, find_row_flow.
    replace (N.of_nat (S p)) with (N.of_nat p + 1)%N by lia.
    destruct (DiffSpec.lookup l2 k) as [[q r2]|]; reflexivity.
  Qed.

  Lemma flow_pass2 l1 : forall l2 p,
    map (flow_dev kh) (DiffSpec.spec_pass2 l2 p l1) =
    PoolFlow.diff2 (flow_rows kh l1) (N.of_nat p) (flow_rows kh l2).
  Proof.
    induction l2 as [|[k r2] l2 IH]; intros p; [reflexivity|].
    cbn [DiffSpec.spec_pass2 flow_rows map PoolFlow.diff2 fst snd].
    fold (flow_rows kh l1). fold (flow_rows kh l2). rewrite map_app, IH, find_row_flow.
    replace (N.of_nat (S p)) with (N.of_nat p + 1)%N by lia.
    destruct (DiffSpec.lookup l1 k) as [[q r1]|]; reflexivity.
  Qed.

  (** diffTables(other, base) with WithEmitUnchangedRow, on flat row lists *)
  Theorem flow_spec_events ce l1 l2 :
    map (flow_dev kh) (DiffSpec.spec_diff_rows true ce l1 l2) =
    PoolFlow.diff_events (flow_rows kh l2) (flow_rows kh l1).
  Proof.
    unfold DiffSpec.spec_diff_rows, PoolFlow.diff_events. rewrite map_app.
    rewrite (flow_pass1 ce l2 l1 0), (flow_pass2 l1 l2 0). reflexivity.
  Qed.

  Lemma flow_rows_keys l : NoDup (map fst l) -> NoDup (map fst (flow_rows kh l)).
  Proof.
    intros Hn. unfold flow_rows. rewrite map_map. cbn [fst].
    rewrite <- (map_map fst kh). induction Hn as [|x l' Hx Hn IH]; cbn; constructor; auto.
    intros Hin. apply in_map_iff in Hin as (y & E & Hy). apply kh_inj in E. now subst.
  Qed.

  (** the guard of diffTables *)
  Definition diff_guard (base other : Diff.tbl) : bool :=
    Diff.names_eqb (Diff.t_pk other) (Diff.t_pk base) &&
    (negb (length (Diff.t_pk other) =? 0) || Diff.names_eqb (Diff.t_cols other) (Diff.t_cols base)).

  (** the stream of a layer, from the diff MODEL run on well-formed tables (C04_diff_correct) *)
  Lemma diff_stream_eq base other :
    DiffSpec.WF_table 255 base -> DiffSpec.WF_table 255 other ->
    diff_stream kh base other = spec_stream kh base other /\
    diff_stream kh base other =
      if diff_guard base other
      then PoolFlow.diff_events (flow_rows kh (concat (Diff.t_blocks base)))
                                (flow_rows kh (concat (Diff.t_blocks other)))
      else [].
  Proof.
    intros Wb Wo. unfold diff_stream, spec_stream.
    rewrite (DiffMain_proofs.diff_correct 255 true other base Wo Wb). split; [reflexivity|].
    unfold DiffSpec.spec_diff, diff_guard.
    destruct (Diff.names_eqb (Diff.t_pk other) (Diff.t_pk base) &&
              (negb (length (Diff.t_pk other) =? 0) || Diff.names_eqb (Diff.t_cols other) (Diff.t_cols base)));
      [apply flow_spec_events|reflexivity].
  Qed.

  Lemma flow_streams_agree base others :
    DiffSpec.WF_table 255 base -> Forall (DiffSpec.WF_table 255) others ->
    PoolFlow.old_agree (flow_streams kh base others).
  Proof.
    intros Wb Wo.
    assert (Hn : NoDup (map fst (flow_rows kh (concat (Diff.t_blocks base))))).
    { apply flow_rows_keys. apply (DiffTable_proofs.wf_keys_NoDup 255 _ Wb). }
    assert (Hold : forall l e, In l (flow_streams kh base others) -> In e l ->
              (PoolFlow.d_old e, PoolFlow.d_oldoff e) =
              PoolFlow_proofs.old_of (flow_rows kh (concat (Diff.t_blocks base))) (PoolFlow.d_pk e)).
    { intros l e Hl He. unfold flow_streams in Hl. apply in_map_iff in Hl as (o & <- & Ho).
      rewrite Forall_forall in Wo. destruct (diff_stream_eq base o Wb (Wo o Ho)) as [_ E].
      rewrite E in He. destruct (diff_guard base o); [|destruct He].
      eapply PoolFlow_proofs.diff_events_old; eauto. }
    intros l1 l2 e1 e2 H1 H2 He1 He2 Hk.
    pose proof (Hold l1 e1 H1 He1) as E1. pose proof (Hold l2 e2 H2 He2) as E2.
    rewrite Hk in E1. rewrite <- E2 in E1. now inversion E1.
  Qed.

  (** C16_dataflow o C04: for every interleaving of the streams the diff model emits for the
      layers, the grouping is that of the single-threaded order *)
  Theorem flow_dataflow_model base others s :
    DiffSpec.WF_table 255 base -> Forall (DiffSpec.WF_table 255) others ->
    PoolFlow.interleave (flow_streams kh base others) s ->
    let ls := flow_streams kh base others in
    Forall2 (fun o l => Diff.diff_tables 255 true o base = Diff.Ok (DiffSpec.spec_diff true o base) /\
                        l = map (flow_dev kh) (DiffSpec.spec_diff true o base)) others ls /\
    (forall k, PoolFlow.lookup k (PoolFlow.group (length ls) s) =
               PoolFlow.lookup k (PoolFlow.group (length ls) (PoolFlow.sequential ls))) /\
    Permutation (PoolFlow.group (length ls) s) (PoolFlow.group (length ls) (PoolFlow.sequential ls)) /\
    Permutation (PoolFlow.emitted (PoolFlow.group (length ls) s))
                (PoolFlow.emitted (PoolFlow.group (length ls) (PoolFlow.sequential ls))).
  Proof.
    intros Wb Wo Hi ls. pose proof (flow_streams_agree base others Wb Wo) as Ha.
    pose proof (PoolFlow_proofs.sequential_interleave ls) as Hs.
    split; [|split; [|split]].
    - unfold ls, flow_streams. clear Hi Ha Hs ls. induction Wo as [|o others Wo1 Wo IH]; cbn; constructor; auto.
      split; [apply (DiffMain_proofs.diff_correct 255 true o base Wo1 Wb)|].
      apply (diff_stream_eq base o Wb Wo1).
    - intros k. now apply PoolFlow_proofs.group_lookup_eq.
    - now apply PoolFlow_proofs.group_perm.
    - now apply PoolFlow_proofs.emitted_perm.
  Qed.
End FlowSpec.

(** * the merge model's view of the grouping *)

Lemma last_opt_in {A} (l : list A) e : PoolFlow_proofs.last_opt l = Some e -> In e l.
Proof.
  unfold PoolFlow_proofs.last_opt. intros Hl. apply in_rev. destruct (rev l); [discriminate|].
  injection Hl as ->. now left.
Qed.
Lemma last_opt_none {A} (l : list A) : PoolFlow_proofs.last_opt l = None -> l = [].
Proof.
  unfold PoolFlow_proofs.last_opt. intros Hl. destruct (rev l) eqn:E; [|discriminate].
  rewrite <- (rev_involutive l), E. reflexivity.
Qed.

Lemma NoDup_map_weaken {A B C} (f : A -> B) (g : B -> C) l : NoDup (map (fun x => g (f x)) l) -> NoDup (map f l).
Proof.
  induction l as [|x l IH]; cbn; intros Hn; [constructor|]. inversion Hn as [|? ? Hx Hn']; subst.
  constructor; auto. intros Hin. apply Hx. apply in_map_iff in Hin as (y & E & Hy).
  apply in_map_iff. exists y. split; [now rewrite E|exact Hy].
Qed.

Lemma NoDup_filter {A} (p : A -> bool) l : NoDup l -> NoDup (filter p l).
Proof.
  induction 1 as [|x l Hx Hn IH]; cbn; [constructor|]. destruct (p x); auto.
  constructor; auto. intros Hin. apply filter_In in Hin. tauto.
Qed.

Lemma NoDup_map_filter {A B} (f : A -> B) (p : A -> bool) l : NoDup (map f l) -> NoDup (map f (filter p l)).
Proof.
  induction l as [|x l IH]; cbn; intros Hn; [constructor|]. inversion Hn as [|? ? Hx Hn']; subst.
  destruct (p x); cbn; auto. constructor; auto. intros Hin. apply Hx.
  apply in_map_iff in Hin as (y & E & Hy). apply filter_In in Hy as [Hy _]. apply in_map_iff. eauto.
Qed.

Lemma NoDup_map_inj_on {A B} (f : A -> B) l :
  (forall a b, In a l -> In b l -> f a = f b -> a = b) -> NoDup l -> NoDup (map f l).
Proof.
  intros Hinj Hn. induction Hn as [|x l Hx Hn IH]; cbn; constructor.
  - intros Hin. apply in_map_iff in Hin as (y & E & Hy). apply Hx.
    rewrite (Hinj x y); cbn; auto.
  - apply IH. intros a b Ha Hb. apply Hinj; cbn; auto.
Qed.

Lemma Some_inj {A} (a b : A) : Some a = Some b -> a = b.
Proof. intros E. now injection E. Qed.

Lemma filter_map_comm {A B} (f : A -> B) (p : B -> bool) l : filter p (map f l) = map f (filter (fun x => p (f x)) l).
Proof. induction l as [|x l IH]; cbn; auto. destruct (p (f x)); cbn; now rewrite IH. Qed.

(** events of the diff specification with emitUnchanged, by key *)
Section SpecEvents.
  Variable kh : Diff.key -> N.
  Variables l1 l2 : list Diff.row.
  Hypothesis N1 : NoDup (map fst l1).
  Hypothesis N2 : NoDup (map fst l2).
  Variable ce : bool.

  Lemma ev_facts d :
    In d (DiffSpec.spec_diff_rows true ce l1 l2) ->
    PoolFlow.d_pk (flow_dev kh d) = kh (DiffSpec.dev_key d) /\
    PoolFlow.d_sum (flow_dev kh d) = option_map snd (DiffSpec.lookup l1 (DiffSpec.dev_key d)) /\
    PoolFlow.d_old (flow_dev kh d) = option_map snd (DiffSpec.lookup l2 (DiffSpec.dev_key d)) /\
    (DiffSpec.lookup l1 (DiffSpec.dev_key d) <> None \/ DiffSpec.lookup l2 (DiffSpec.dev_key d) <> None).
  Proof.
    intros Hin. apply (DiffMain_proofs.spec_rows_in true ce l1 l2 d N2) in Hin.
    destruct d as [k r p|k r p r' q|k r' q]; cbn in Hin; cbn [flow_dev DiffSpec.dev_key PoolFlow.d_pk PoolFlow.d_sum PoolFlow.d_old].
    - destruct Hin as (Hn & L). rewrite (DiffTable_proofs.nth_lookup _ _ _ _ N1 Hn), L. cbn.
      repeat split; auto. left. discriminate.
    - destruct Hin as (Hn & Hn2 & _).
      rewrite (DiffTable_proofs.nth_lookup _ _ _ _ N1 Hn), (DiffTable_proofs.nth_lookup _ _ _ _ N2 Hn2). cbn.
      repeat split; auto. left. discriminate.
    - destruct Hin as (Hn & L). rewrite (DiffTable_proofs.nth_lookup _ _ _ _ N2 Hn), L. cbn.
      repeat split; auto. right. discriminate.
  Qed.

  Lemma ev_exists k :
    DiffSpec.lookup l1 k <> None \/ DiffSpec.lookup l2 k <> None ->
    exists d, In d (DiffSpec.spec_diff_rows true ce l1 l2) /\ DiffSpec.dev_key d = k.
  Proof.
    intros Hk.
    destruct (DiffSpec.lookup l1 k) as [[p r]|] eqn:E1; destruct (DiffSpec.lookup l2 k) as [[q r']|] eqn:E2.
    - exists (Diff.Modified k r p r' q). split; [|reflexivity].
      apply (DiffMain_proofs.spec_rows_in true ce l1 l2 _ N2). cbn.
      split; [now apply DiffTable_proofs.lookup_some_nth|]. split; [now apply DiffTable_proofs.lookup_some_nth|reflexivity].
    - exists (Diff.Added k r p). split; [|reflexivity].
      apply (DiffMain_proofs.spec_rows_in true ce l1 l2 _ N2). cbn.
      split; [now apply DiffTable_proofs.lookup_some_nth|exact E2].
    - exists (Diff.Removed k r' q). split; [|reflexivity].
      apply (DiffMain_proofs.spec_rows_in true ce l1 l2 _ N2). cbn.
      split; [now apply DiffTable_proofs.lookup_some_nth|exact E1].
    - destruct Hk as [Hk|Hk]; now elim Hk.
  Qed.
End SpecEvents.

Section MergeFlow.
  Variable kh : list bytes -> N.
  Variable rh : Merge.row -> N.
  Hypothesis kh_inj : forall a b, kh a = kh b -> a = b.
  Hypothesis rh_inj : forall a b, rh a = rh b -> a = b.
  Variable base : Merge.table.
  Variable others : list Merge.table.
  Hypothesis Hbk : NoDup (map (Merge.key_of base) (Merge.t_rows base)).
  Hypothesis Hokk : Forall (fun o => NoDup (map (Merge.key_of o) (Merge.t_rows o))) others.

  Lemma merge_rows_keys t : map fst (merge_rows rh t) = map (Merge.key_of t) (Merge.t_rows t).
  Proof. unfold merge_rows. rewrite map_map. reflexivity. Qed.

  Lemma lookup_merge_rows t k :
    option_map snd (DiffSpec.lookup (merge_rows rh t) k) = option_map rh (Merge.lookup t k).
  Proof.
    unfold merge_rows, Merge.lookup. induction (Merge.t_rows t) as [|r l IH]; cbn; [reflexivity|].
    destruct (keqb (Merge.key_of t r) k); [reflexivity|].
    rewrite <- IH. destruct (DiffSpec.lookup (map (fun r0 => (Merge.key_of t r0, rh r0)) l) k) as [[p x]|]; reflexivity.
  Qed.

  Lemma lookup_merge_rows_some t k :
    DiffSpec.lookup (merge_rows rh t) k <> None <-> Merge.is_some (Merge.lookup t k) = true.
  Proof.
    pose proof (lookup_merge_rows t k) as E.
    destruct (DiffSpec.lookup (merge_rows rh t) k), (Merge.lookup t k); cbn in *; try discriminate;
      split; congruence.
  Qed.

  Lemma lookup_key t k r : Merge.lookup t k = Some r -> In r (Merge.t_rows t) /\ Merge.key_of t r = k.
  Proof. unfold Merge.lookup. intros Hf. apply find_some in Hf as [Hin Hk]. now apply keqb_true in Hk. Qed.

  Lemma lookup_found t k : In k (map (Merge.key_of t) (Merge.t_rows t)) -> Merge.is_some (Merge.lookup t k) = true.
  Proof.
    intros Hin. apply in_map_iff in Hin as (r & Hk & Hr). unfold Merge.lookup.
    destruct (find (fun r0 => keqb (Merge.key_of t r0) k) (Merge.t_rows t)) eqn:E; [reflexivity|].
    eapply find_none in E; eauto. rewrite Hk in E. rewrite (proj2 (keqb_true k k) eq_refl) in E. discriminate.
  Qed.

  Let present (o : Merge.table) (k : list bytes) : bool :=
    Merge.is_some (Merge.lookup o k) || Merge.is_some (Merge.lookup base k).

  Lemma stream_facts o e k :
    In o others -> In e (merge_stream kh rh base o) -> PoolFlow.d_pk e = kh k ->
    Merge.diff_enabled base o = true /\
    PoolFlow.d_sum e = option_map rh (Merge.lookup o k) /\
    PoolFlow.d_old e = option_map rh (Merge.lookup base k) /\
    present o k = true.
  Proof.
    intros Ho He Hk. unfold merge_stream in He. destruct (Merge.diff_enabled base o); [|destruct He].
    apply in_map_iff in He as (d & <- & Hd).
    assert (N1 : NoDup (map fst (merge_rows rh o))).
    { rewrite merge_rows_keys. rewrite Forall_forall in Hokk. now apply Hokk. }
    assert (N2 : NoDup (map fst (merge_rows rh base))) by (now rewrite merge_rows_keys).
    destruct (ev_facts kh _ _ N1 N2 true d Hd) as (F1 & F2 & F3 & F4).
    rewrite F1 in Hk. apply kh_inj in Hk. rewrite Hk in *.
    rewrite F2, F3, !lookup_merge_rows. repeat split; auto.
    unfold present. apply orb_true_iff. destruct F4 as [F4|F4]; [left|right]; now apply lookup_merge_rows_some.
  Qed.

  Lemma stream_exists o k :
    In o others -> Merge.diff_enabled base o = true -> present o k = true ->
    exists e, In e (merge_stream kh rh base o) /\ PoolFlow.d_pk e = kh k.
  Proof.
    intros Ho Hen Hp. unfold merge_stream. rewrite Hen.
    assert (N1 : NoDup (map fst (merge_rows rh o))).
    { rewrite merge_rows_keys. rewrite Forall_forall in Hokk. now apply Hokk. }
    assert (N2 : NoDup (map fst (merge_rows rh base))) by (now rewrite merge_rows_keys).
    destruct (ev_exists (merge_rows rh o) (merge_rows rh base) N2 true k) as (d & Hd & Hk).
    { unfold present in Hp. apply orb_true_iff in Hp as [Hp|Hp]; [left|right]; now apply lookup_merge_rows_some. }
    exists (flow_dev kh d). split; [now apply in_map|].
    destruct (ev_facts kh _ _ N1 N2 true d Hd) as (F1 & _). now rewrite F1, Hk.
  Qed.

  Let streams := merge_streams kh rh base others.
  Let n := length others.

  Lemma streams_length : length streams = n.
  Proof. unfold streams, merge_streams. apply map_length. Qed.

  Definition dtable : Merge.table := {| Merge.t_cols := []; Merge.t_pk := []; Merge.t_rows := [] |}.

  Lemma nth_streams j : j < n -> nth j streams [] = merge_stream kh rh base (nth j others dtable) /\ In (nth j others dtable) others.
  Proof.
    intros Hj. split; [|now apply nth_In].
    unfold streams, merge_streams. rewrite (nth_indep _ [] (merge_stream kh rh base dtable)) by (now rewrite map_length).
    apply map_nth.
  Qed.

  (** for every interleaving and every key, the grouping holds exactly what Merge.mk_mrec says *)
  Theorem merge_group_view s k :
    PoolFlow.interleave streams s ->
    option_map strip (PoolFlow.lookup (kh k) (PoolFlow.group n s)) =
    if key_emitted base others k then Some (merge_view kh rh base others k) else None.
  Proof.
    intros Hi. unfold PoolFlow.group. rewrite PoolFlow_proofs.lookup_fold. cbn [PoolFlow.lookup find].
    set (p := fun e : PoolFlow.dev => N.eqb (PoolFlow.d_pk e) (kh k)).
    set (F := filter (PoolFlow_proofs.keyis (kh k)) s).
    assert (F1 : PoolFlow.interleave (map (filter p) streams) F) by (apply (PoolFlow_proofs.interleave_filter p); auto).
    destruct (key_emitted base others k) eqn:Ek.
    - (* some layer emits an event for k *)
      unfold key_emitted in Ek. apply existsb_exists in Ek as (o & Ho & Ec). apply andb_true_iff in Ec as [Hen Hp].
      destruct (stream_exists o k Ho Hen Hp) as (e0 & He0 & Hk0).
      destruct F as [|[i1 e1] r1] eqn:EF.
      { exfalso. pose proof (proj1 (PoolFlow_proofs.interleave_nil_iff _ _ F1) eq_refl) as Hn.
        rewrite Forall_forall in Hn.
        assert (Hx : filter p (merge_stream kh rh base o) = []).
        { apply Hn. apply in_map. unfold streams, merge_streams. now apply in_map. }
        assert (Hin : In e0 (filter p (merge_stream kh rh base o))).
        { apply filter_In. split; auto. unfold p. now apply N.eqb_eq. }
        rewrite Hx in Hin. destruct Hin. }
      cbn [fold_left PoolFlow_proofs.stepk fst snd]. rewrite PoolFlow_proofs.fold_stepk_some.
      cbn [option_map strip PoolFlow.m_pk PoolFlow.m_base PoolFlow.m_others PoolFlow.set_other PoolFlow_proofs.fresh].
      assert (Hin1 : In (i1, e1) F) by (rewrite EF; now left).
      assert (K1 : PoolFlow.d_pk e1 = kh k).
      { unfold F in Hin1. apply filter_In in Hin1 as [_ Hk]. now apply N.eqb_eq in Hk. }
      assert (Hs1 : In (i1, e1) s) by (unfold F in Hin1; apply filter_In in Hin1; tauto).
      destruct (PoolFlow_proofs.interleave_in _ _ i1 e1 Hi Hs1) as (l1 & Hl1 & He1).
      unfold streams, merge_streams in Hl1. apply in_map_iff in Hl1 as (o1 & <- & Ho1).
      destruct (stream_facts o1 e1 k Ho1 He1 K1) as (_ & _ & Hold1 & _).
      unfold merge_view. cbn [Merge.mk_mrec Merge.m_base Merge.m_others]. f_equal. apply f_equal2; [apply f_equal2; [exact K1|exact Hold1]|].
      (* the slots *)
      change (Pool.set_nth i1 (PoolFlow.d_sum e1, PoolFlow.d_off e1) (repeat (None, 0%N) n))
        with (PoolFlow_proofs.setf (repeat PoolFlow_proofs.dflt n) (i1, e1)).
      change (fold_left PoolFlow_proofs.setf r1 (PoolFlow_proofs.setf (repeat PoolFlow_proofs.dflt n) (i1, e1)))
        with (fold_left PoolFlow_proofs.setf ((i1, e1) :: r1) (repeat PoolFlow_proofs.dflt n)).
      rewrite map_map. cbn [PoolFlow.m_others].
      apply nth_ext with (d := fst PoolFlow_proofs.dflt)
                         (d' := option_map rh (if Merge.diff_enabled base dtable then Merge.lookup dtable k else None)).
      { rewrite !map_length, PoolFlow_proofs.fold_setf_length, repeat_length. reflexivity. }
      intros j Hj. rewrite map_length, PoolFlow_proofs.fold_setf_length, repeat_length in Hj.
      rewrite (map_nth fst), (map_nth (fun o0 => option_map rh (if Merge.diff_enabled base o0 then Merge.lookup o0 k else None))).
      rewrite PoolFlow_proofs.nth_fold_setf, repeat_length.
      replace (j <? n) with true by (symmetry; now apply Nat.ltb_lt).
      rewrite (PoolFlow_proofs.interleave_proj _ _ j F1).
      replace (nth j (map (filter p) streams) []) with (filter p (nth j streams [])) by (symmetry; exact (map_nth (filter p) streams [] j)).
      destruct (nth_streams j Hj) as [-> Hoj]. set (oj := nth j others dtable) in *.
      destruct (PoolFlow_proofs.last_opt (filter p (merge_stream kh rh base oj))) as [e|] eqn:El.
      + apply last_opt_in in El. apply filter_In in El as [He Hk]. apply N.eqb_eq in Hk.
        destruct (stream_facts oj e k Hoj He Hk) as (Hen' & Hsum & _). rewrite Hen'. exact Hsum.
      + apply last_opt_none in El.
        rewrite nth_repeat. cbn [fst PoolFlow_proofs.dflt].
        destruct (Merge.diff_enabled base oj) eqn:Hen'; [|reflexivity].
        destruct (Merge.lookup oj k) as [r|] eqn:El'; [|reflexivity]. exfalso.
        destruct (stream_exists oj k Hoj Hen') as (e & He & Hk); [unfold present; now rewrite El'|].
        assert (Hin : In e (filter p (merge_stream kh rh base oj))).
        { apply filter_In. split; auto. unfold p. now apply N.eqb_eq. }
        rewrite El in Hin. destruct Hin.
    - (* no layer emits an event for k *)
      assert (EF : F = []).
      { apply (PoolFlow_proofs.interleave_nil_iff _ _ F1). apply Forall_forall. intros l Hl.
        apply in_map_iff in Hl as (l0 & <- & Hl0). unfold streams, merge_streams in Hl0.
        apply in_map_iff in Hl0 as (o & <- & Ho).
        destruct (filter p (merge_stream kh rh base o)) as [|e r] eqn:Ef; [reflexivity|]. exfalso.
        assert (Hin : In e (filter p (merge_stream kh rh base o))) by (rewrite Ef; now left).
        apply filter_In in Hin as [He Hk]. apply N.eqb_eq in Hk.
        destruct (stream_facts o e k Ho He Hk) as (Hen & _ & _ & Hp).
        assert (Ex : key_emitted base others k = true).
        { unfold key_emitted. apply existsb_exists. exists o. split; auto. now rewrite Hen. }
        rewrite Ex in Ek. discriminate. }
      rewrite EF. reflexivity.
  Qed.

  (* ---- the records handed to the resolver *)
  Lemma opt_sum_eqb o b : PoolFlow.opt_eqb (option_map rh o) (Some (rh b)) = Merge.sum_eqb o (Some b).
  Proof.
    destruct o as [x|]; cbn; [|reflexivity]. destruct (keqb x b) eqn:E.
    - apply keqb_true in E. subst. apply N.eqb_refl.
    - apply N.eqb_neq. intros Hx. apply rh_inj in Hx. subst.
      rewrite (proj2 (keqb_true b b) eq_refl) in E. discriminate.
  Qed.

  Lemma forallb_map_comp {A B} (f : B -> bool) (g : A -> B) l : forallb (fun x => f (g x)) l = forallb f (map g l).
  Proof. induction l as [|x l IH]; cbn; auto. now rewrite IH. Qed.

  Lemma no_changes_view r m :
    PoolFlow.m_base r = option_map rh (Merge.m_base m) ->
    map fst (PoolFlow.m_others r) = map (option_map rh) (Merge.m_others m) ->
    PoolFlow.no_changes r = Merge.no_changes m.
  Proof.
    unfold PoolFlow.no_changes, Merge.no_changes. intros Eb Eo. rewrite Eb.
    destruct (Merge.m_base m) as [b|]; cbn [option_map]; [|reflexivity].
    rewrite (forallb_map_comp (fun x => PoolFlow.opt_eqb x (Some (rh b))) fst), Eo.
    rewrite <- (forallb_map_comp (fun x => PoolFlow.opt_eqb x (Some (rh b))) (option_map rh)).
    clear Eo. induction (Merge.m_others m) as [|o l IH]; cbn [forallb]; [reflexivity|]. now rewrite opt_sum_eqb, IH.
  Qed.

  Lemma stream_pk o e : In e (merge_stream kh rh base o) -> exists k, PoolFlow.d_pk e = kh k.
  Proof.
    unfold merge_stream. destruct (Merge.diff_enabled base o); [|intros []].
    intros He. apply in_map_iff in He as (d & <- & _). destruct d; cbn; eauto.
  Qed.

  Lemma group_rec_key s r :
    PoolFlow.interleave streams s -> In r (PoolFlow.group n s) -> exists k, PoolFlow.m_pk r = kh k.
  Proof.
    intros Hi Hr. apply (PoolFlow_proofs.lookup_in _ _ (PoolFlow_proofs.group_keys n s)) in Hr.
    unfold PoolFlow.group in Hr. rewrite PoolFlow_proofs.lookup_fold in Hr. cbn [PoolFlow.lookup find] in Hr.
    destruct (filter (PoolFlow_proofs.keyis (PoolFlow.m_pk r)) s) as [|[i e] r1] eqn:EF; [discriminate|].
    assert (Hin : In (i, e) (filter (PoolFlow_proofs.keyis (PoolFlow.m_pk r)) s)) by (rewrite EF; now left).
    apply filter_In in Hin as [Hs Hk]. unfold PoolFlow_proofs.keyis in Hk. cbn in Hk. apply N.eqb_eq in Hk.
    destruct (PoolFlow_proofs.interleave_in _ _ i e Hi Hs) as (l & Hl & He).
    unfold streams, merge_streams in Hl. apply in_map_iff in Hl as (o & <- & _).
    destruct (stream_pk o e He) as (k & Ek). exists k. congruence.
  Qed.

  Lemma SS_irrefl_NoDup {A} (R : A -> A -> Prop) l : (forall a, ~ R a a) -> StronglySorted R l -> NoDup l.
  Proof.
    intros Hir. induction 1 as [|a l Hs IH Ha]; constructor; auto.
    intros Hin. rewrite Forall_forall in Ha. apply (Hir a). now apply Ha.
  Qed.

  Lemma all_keys_NoDup : NoDup (Merge.all_keys base others).
  Proof.
    unfold Merge.all_keys. destruct (filter (Merge.diff_enabled base) others); [constructor|].
    eapply SS_irrefl_NoDup; [|apply (MergeTable_proofs.sort_dedupe_strict (fun x : list bytes => x))].
    intros a Ha. cbv beta in Ha. rewrite MergeTable_proofs.klt_irrefl in Ha. discriminate.
  Qed.

  Lemma collector_keys :
    map fst (collector_input base others) =
    filter (fun k => negb (Merge.no_changes (Merge.mk_mrec base others k))) (Merge.all_keys base others).
  Proof.
    unfold collector_input. induction (Merge.all_keys base others) as [|k l IH]; cbn; [reflexivity|].
    destruct (Merge.no_changes (Merge.mk_mrec base others k)); cbn; now rewrite IH.
  Qed.

  Lemma key_emitted_all_keys k : key_emitted base others k = true <-> In k (Merge.all_keys base others).
  Proof.
    rewrite BridgeHashSetMerge_proofs.all_keys_in. unfold key_emitted. split.
    - intros Hx. apply existsb_exists in Hx as (o & Ho & Hc). apply andb_true_iff in Hc as [Hen Hp].
      assert (Hf : In o (filter (Merge.diff_enabled base) others)) by (apply filter_In; auto).
      split; [intros E; rewrite E in Hf; destruct Hf|].
      apply in_or_app. apply orb_true_iff in Hp as [Hp|Hp].
      + right. destruct (Merge.lookup o k) as [r|] eqn:El; [|discriminate].
        destruct (lookup_key o k r El) as [Hr <-]. apply in_flat_map. exists o. split; auto. now apply in_map.
      + left. destruct (Merge.lookup base k) as [r|] eqn:El; [|discriminate].
        destruct (lookup_key base k r El) as [Hr <-]. now apply in_map.
    - intros [Hne Hin]. apply existsb_exists. apply in_app_or in Hin as [Hin|Hin].
      + destruct (filter (Merge.diff_enabled base) others) as [|o en] eqn:E; [now elim Hne|].
        assert (Hf : In o (filter (Merge.diff_enabled base) others)) by (rewrite E; now left).
        apply filter_In in Hf as [Ho Hen]. exists o. split; auto. rewrite Hen, (lookup_found base k Hin).
        now rewrite orb_true_r.
      + apply in_flat_map in Hin as (o & Hf & Hk). apply filter_In in Hf as [Ho Hen].
        exists o. split; auto. now rewrite Hen, (lookup_found o k Hk).
  Qed.

  (** for every interleaving, the records mergeTables hands to the resolver are those of the
      merge model, key by key (offsets projected away) *)
  Theorem merge_collector_input s :
    PoolFlow.interleave streams s ->
    Permutation (map strip (PoolFlow.emitted (PoolFlow.group n s)))
                (map (fun km => merge_view kh rh base others (fst km)) (collector_input base others)).
  Proof.
    intros Hi. rewrite <- (map_map fst (merge_view kh rh base others)), collector_keys.
    pose proof (PoolFlow_proofs.group_keys n s) as Hgk.
    apply NoDup_Permutation.
    - apply (NoDup_map_weaken strip (fun x => fst (fst x))). unfold strip. cbn [fst].
      unfold PoolFlow.emitted. apply NoDup_map_filter. exact Hgk.
    - apply (NoDup_map_weaken _ (fun x => fst (fst x))). unfold merge_view. cbn [fst].
      apply NoDup_map_inj_on; [intros a b _ _; apply kh_inj|]. apply NoDup_filter, all_keys_NoDup.
    - intros x. split.
      + intros Hx. apply in_map_iff in Hx as (r & <- & Hr). unfold PoolFlow.emitted in Hr.
        apply filter_In in Hr as [Hr Hnc].
        destruct (group_rec_key s r Hi Hr) as (k & Ek).
        pose proof (merge_group_view s k Hi) as V. rewrite <- Ek in V.
        rewrite (PoolFlow_proofs.lookup_in _ _ Hgk Hr) in V. cbn [option_map] in V.
        destruct (key_emitted base others k) eqn:Eke; [|discriminate]. apply Some_inj in V.
        apply in_map_iff. exists k. split; [now symmetry|]. apply filter_In. split; [now apply key_emitted_all_keys|].
        rewrite <- (no_changes_view r (Merge.mk_mrec base others k)); [exact Hnc| |].
        * unfold strip, merge_view in V. now injection V.
        * unfold strip, merge_view in V. now injection V.
      + intros Hx. apply in_map_iff in Hx as (k & <- & Hk). apply filter_In in Hk as [Hk Hnc].
        apply key_emitted_all_keys in Hk.
        pose proof (merge_group_view s k Hi) as V. rewrite Hk in V.
        destruct (PoolFlow.lookup (kh k) (PoolFlow.group n s)) as [r|] eqn:El; [|discriminate]. apply Some_inj in V.
        apply in_map_iff. exists r. split; [exact V|]. unfold PoolFlow.emitted. apply filter_In.
        split; [eapply PoolFlow_proofs.lookup_some_in; eauto|].
        rewrite (no_changes_view r (Merge.mk_mrec base others k)); [exact Hnc| |];
          unfold strip, merge_view in V; now injection V.
  Qed.

  (** ... which are the (key, record) pairs of Merge.merge_records *)
  Lemma merge_records_input cd :
    map (fun kr => (Merge.k_key kr, Merge.k_m kr)) (Merge.merge_records cd base others) = collector_input base others.
  Proof.
    unfold Merge.merge_records, collector_input. induction (Merge.all_keys base others) as [|k l IH]; cbn; [reflexivity|].
    rewrite map_app, IH. destruct (Merge.no_changes (Merge.mk_mrec base others k)); reflexivity.
  Qed.
End MergeFlow.

(** * the same with the streams of the diff MODEL on the stored tables *)

Lemma merge_names_eqb_true a : forall b, Merge.names_eqb a b = true <-> a = b.
Proof.
  induction a as [|x a IH]; intros [|y b]; cbn; try (split; [discriminate|discriminate]); [tauto|].
  rewrite andb_true_iff, IH. unfold beqb. split.
  - intros [E ->]. destruct (bcmp x y) eqn:Ec; try discriminate. apply bcmp_eq in Ec. now subst.
  - intros E. injection E as -> ->. now rewrite bcmp_refl.
Qed.

Lemma merge_names_eqb_keqb a b : Merge.names_eqb a b = keqb a b.
Proof.
  destruct (keqb a b) eqn:E.
  - apply keqb_true in E. now apply merge_names_eqb_true.
  - destruct (Merge.names_eqb a b) eqn:E'; [|reflexivity]. apply merge_names_eqb_true in E'. subst.
    rewrite (proj2 (keqb_true b b) eq_refl) in E. discriminate.
Qed.

Section MergeModel.
  Variable kh : list bytes -> N.
  Variable rh : Merge.row -> N.
  Hypothesis kh_inj : forall a b, kh a = kh b -> a = b.
  Hypothesis rh_inj : forall a b, rh a = rh b -> a = b.

  Lemma merge_stream_model base o db dl :
    diff_view_of rh base db -> diff_view_of rh o dl ->
    DiffSpec.WF_table 255 db -> DiffSpec.WF_table 255 dl ->
    diff_stream kh db dl = merge_stream kh rh base o.
  Proof.
    intros (Bp & Bc & Br & _) (Op & Oc & Or & Oi) Wb Wo.
    destruct (diff_stream_eq kh kh_inj db dl Wb Wo) as [_ E]. rewrite E.
    unfold merge_stream, diff_guard, Merge.diff_enabled, Diff.names_eqb.
    rewrite Bp, Bc, Op, Oc, Br, Or, <- !merge_names_eqb_keqb.
    match goal with |- context [negb (Nat.eqb ?a 0)] =>
      assert (Ei : Nat.eqb a 0 = Nat.eqb (length (Merge.pk_idx o)) 0) end.
    { destruct (length (Merge.pk_idx o) =? 0) eqn:E1.
      - apply Nat.eqb_eq in E1. apply Oi in E1. apply Nat.eqb_eq. exact E1.
      - apply Nat.eqb_neq. apply Nat.eqb_neq in E1. intros E2. apply E1. apply Oi. exact E2. }
    rewrite Ei.
    destruct (Merge.names_eqb (Merge.t_pk o) (Merge.t_pk base) &&
              (negb (length (Merge.pk_idx o) =? 0) || Merge.names_eqb (Merge.t_cols o) (Merge.t_cols base)));
      [|reflexivity].
    symmetry. apply flow_spec_events. exact kh_inj.
  Qed.

  Lemma view_keys t d :
    diff_view_of rh t d -> DiffSpec.WF_table 255 d -> NoDup (map (Merge.key_of t) (Merge.t_rows t)).
  Proof.
    intros (_ & _ & Er & _) W. rewrite <- (merge_rows_keys rh), <- Er.
    apply (DiffTable_proofs.wf_keys_NoDup 255 _ W).
  Qed.

  (** C16_dataflow o C04 -> C05: diffTables of the diff model run on every layer's stored table,
      the events interleaved in ANY order by mergeTables' select loop: the records handed to the
      resolver are, key by key, those of [Merge.merge_records] (offsets projected away) *)
  Theorem merge_model_collector_input base others db dos s :
    diff_view_of rh base db -> Forall2 (diff_view_of rh) others dos ->
    DiffSpec.WF_table 255 db -> Forall (DiffSpec.WF_table 255) dos ->
    PoolFlow.interleave (flow_streams kh db dos) s ->
    flow_streams kh db dos = merge_streams kh rh base others /\
    (forall k, option_map strip (PoolFlow.lookup (kh k) (PoolFlow.group (length others) s)) =
               if key_emitted base others k then Some (merge_view kh rh base others k) else None) /\
    Permutation (map strip (PoolFlow.emitted (PoolFlow.group (length others) s)))
                (map (fun km => merge_view kh rh base others (fst km)) (collector_input base others)) /\
    (forall cd, map (fun kr => (Merge.k_key kr, Merge.k_m kr)) (Merge.merge_records cd base others)
                = collector_input base others).
  Proof.
    intros Vb Vo Wb Wo Hi.
    assert (Es : flow_streams kh db dos = merge_streams kh rh base others).
    { unfold flow_streams, merge_streams. clear Hi.
      induction Vo as [|o d others dos V Vo IH]; cbn; [reflexivity|].
      inversion Wo as [|? ? W1 Wo']; subst. rewrite IH by auto. f_equal.
      now apply merge_stream_model. }
    assert (Hbk : NoDup (map (Merge.key_of base) (Merge.t_rows base))) by (eapply view_keys; eauto).
    assert (Hokk : Forall (fun o => NoDup (map (Merge.key_of o) (Merge.t_rows o))) others).
    { clear Hi Es. induction Vo as [|o d others dos V Vo IH]; constructor.
      - inversion Wo; subst. eapply view_keys; eauto.
      - inversion Wo; subst. auto. }
    rewrite Es in Hi. split; [exact Es|]. split; [|split].
    - intros k. now apply merge_group_view.
    - now apply merge_collector_input.
    - intros cd. apply merge_records_input.
  Qed.
End MergeModel.
