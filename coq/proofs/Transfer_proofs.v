(** C07 - proofs about the transfer model (coq/model/Transfer.v, TransferSpec.v).
    Part 1: basic facts and the receiver (gates, presence characterisation). *)
From W.lib Require Import Tree.
From W.model Require Import Transfer TransferSpec.
From Coq Require Import List NArith Bool Lia Arith.
Import ListNotations.
Local Open Scope N_scope.

(** * Basics *)

Lemma lookup_app {V} k (l m : list (N * V)) :
  lookup k (l ++ m) = match lookup k l with Some v => Some v | None => lookup k m end.
Proof.
  induction l as [|[k' v] l IH]; simpl; auto. destruct (k =? k'); auto.
Qed.

Lemma lookup_In {V} k (v : V) l : lookup k l = Some v -> In (k, v) l.
Proof.
  induction l as [|[k' v'] l IH]; simpl; [discriminate|].
  destruct (k =? k') eqn:E.
  - intros H; inversion H; subst. apply N.eqb_eq in E; subst; auto.
  - auto.
Qed.

Lemma In_has {V} k (v : V) l : In (k, v) l -> has k l = true.
Proof.
  unfold has. induction l as [|[k' v'] l IH]; simpl; [tauto|].
  intros [H|H].
  - inversion H; subst. rewrite N.eqb_refl; auto.
  - destruct (k =? k'); auto.
Qed.

Lemma has_true {V} k (l : list (N * V)) : has k l = true <-> exists v, lookup k l = Some v.
Proof.
  unfold has. destruct (lookup k l); split; intros H; eauto; try discriminate.
  destruct H; discriminate.
Qed.

Lemma has_false {V} k (l : list (N * V)) : has k l = false <-> lookup k l = None.
Proof. unfold has. destruct (lookup k l); split; congruence. Qed.

Lemma has_app {V} k (l m : list (N * V)) : has k (l ++ m) = has k l || has k m.
Proof. unfold has. rewrite lookup_app. destruct (lookup k l); auto. Qed.

Lemma has_cons {V} k k' (v : V) l : has k ((k', v) :: l) = (k =? k') || has k l.
Proof. unfold has; simpl. destruct (k =? k'); auto. Qed.

Lemma has_In {V} k (l : list (N * V)) : has k l = true <-> exists v, In (k, v) l.
Proof.
  split.
  - intros H; apply has_true in H; destruct H as [v H]; eauto using lookup_In.
  - intros [v H]; eauto using In_has.
Qed.

Lemma memN_In k l : memN k l = true <-> In k l.
Proof.
  unfold memN. rewrite existsb_exists. split.
  - intros [x [H1 H2]]. apply N.eqb_eq in H2; subst; auto.
  - intros H; exists k; split; auto. apply N.eqb_refl.
Qed.

Lemma memN_false k l : memN k l = false <-> ~ In k l.
Proof.
  rewrite <- memN_In. destruct (memN k l); split; intros; try congruence; tauto.
Qed.

Lemma listN_eqb_eq a b : listN_eqb a b = true <-> a = b.
Proof.
  revert b; induction a as [|x a IH]; destruct b as [|y b]; simpl; split; intros H; try discriminate; auto.
  - apply andb_true_iff in H; destruct H as [H1 H2]. apply N.eqb_eq in H1. apply IH in H2. congruence.
  - inversion H; subst. rewrite N.eqb_refl. simpl. apply IH; auto.
Qed.

Lemma xid_eqb_eq x y : xid_eqb x y = true <-> x = y.
Proof.
  destruct x as [p a], y as [q b]; unfold xid_eqb; simpl. rewrite andb_true_iff, listN_eqb_eq, N.eqb_eq.
  split; [intros [? ?]; congruence | intros H; inversion H; auto].
Qed.

(** * Extension of a store (presence only grows) *)

Record ext (d d' : repo) : Prop := {
  ext_c : forall c, has_commit d c = true -> has_commit d' c = true;
  ext_t : forall t, has_table d t = true -> has_table d' t = true;
  ext_b : forall b, has_block d b = true -> has_block d' b = true;
  ext_x : incl (blkidx d) (blkidx d');
  ext_ti : incl (tblidx d) (tblidx d');
  ext_p : incl (prof d) (prof d') }.

Lemma ext_refl d : ext d d.
Proof. split; auto using incl_refl. Qed.

Lemma ext_trans a b c : ext a b -> ext b c -> ext a c.
Proof. intros [] []; split; eauto using incl_tran. Qed.

Lemma ext_put_commit d c cc : ext d (put_commit d c cc).
Proof.
  split; simpl; auto using incl_refl. intros c' H. unfold has_commit in *; simpl. rewrite has_cons, H. apply orb_true_r.
Qed.
Lemma ext_put_table d t tc : ext d (put_table d t tc).
Proof.
  split; simpl; auto using incl_refl. intros c' H. unfold has_table in *; simpl. rewrite has_cons, H. apply orb_true_r.
Qed.
Lemma ext_put_block d b z : ext d (put_block d b z).
Proof.
  split; simpl; auto using incl_refl. intros c' H. unfold has_block in *; simpl. rewrite has_cons, H. apply orb_true_r.
Qed.
Lemma ext_put_blkidx d x : ext d (put_blkidx d x).
Proof. split; simpl; auto using incl_refl, incl_tl. Qed.
Lemma ext_put_tblidx d x : ext d (put_tblidx d x).
Proof. split; simpl; auto using incl_refl, incl_tl. Qed.
Lemma ext_put_prof d x : ext d (put_prof d x).
Proof. split; simpl; auto using incl_refl, incl_tl. Qed.

Section Recv.
Variable bshape : N -> N.

Notation index_blocks := (index_blocks bshape).
Notation recv_table := (recv_table bshape).
Notation recv_obj := (recv_obj bshape).
Notation recv_all := (recv_all bshape).
Notation fits := (fits bshape).
Notation table_sound := (table_sound bshape).
Notation table_ok := (table_ok bshape).
Notation TablesWF := (TablesWF bshape).

(** * index_blocks *)

(* whatever the outcome, only block indices are written *)
Lemma index_blocks_frame d cols pk bl :
  let d' := rstate (index_blocks d cols pk bl) in
  commits d' = commits d /\ tables d' = tables d /\ blocks d' = blocks d /\
  tblidx d' = tblidx d /\ prof d' = prof d /\ incl (blkidx d) (blkidx d') /\
  (forall x, In x (blkidx d') -> In x (blkidx d) \/ exists b, In b (map fst bl) /\ x = reindex pk b /\ has_block d b = true /\ fits cols b = true).
Proof.
  revert d; induction bl as [|[b x] bl IH]; intros d; simpl.
  - repeat split; auto using incl_refl.
  - destruct (has_block d b) eqn:Hb; simpl; [|repeat split; auto using incl_refl].
    destruct (fits cols b) eqn:Hf; simpl; [|repeat split; auto using incl_refl].
    destruct (xid_eqb (reindex pk b) x).
    + specialize (IH (put_blkidx d (reindex pk b))). simpl in IH.
      destruct IH as (H1 & H2 & H3 & H4 & H5 & H6 & H7).
      repeat split; auto.
      * eapply incl_tran; [|apply H6]. simpl. apply incl_tl, incl_refl.
      * intros y Hy. apply H7 in Hy. simpl in Hy. destruct Hy as [[Hy|Hy]|[b' [Hb' [Hy Hp]]]]; auto.
        -- right. exists b. subst; auto.
        -- right. exists b'. unfold has_block in *; simpl in *. auto.
    + simpl. repeat split; auto using incl_tl, incl_refl.
      intros y [Hy|Hy]; auto. right. exists b; subst; auto.
Qed.

Lemma index_blocks_ok d cols pk bl d1 :
  index_blocks d cols pk bl = ROk d1 ->
  (forall b x, In (b, x) bl -> has_block d b = true /\ fits cols b = true /\ x = reindex pk b /\ In x (blkidx d1)) /\
  (forall x, In x (blkidx d1) <-> In x (blkidx d) \/ In x (map snd bl)).
Proof.
  revert d; induction bl as [|[b x] bl IH]; intros d; simpl.
  - intros H; inversion H; subst. split; [tauto|]. intros; tauto.
  - destruct (has_block d b) eqn:Hb; simpl; [|discriminate].
    destruct (fits cols b) eqn:Hf; simpl; [|discriminate].
    destruct (xid_eqb (reindex pk b) x) eqn:Hx; [|discriminate].
    apply xid_eqb_eq in Hx. intros H. apply IH in H. destruct H as [H1 H2]. split.
    + intros b' x' [E|Hin].
      * inversion E; subst b' x'. repeat split; auto. apply H2. left. simpl. auto.
      * destruct (H1 _ _ Hin) as (A & B & C & D). repeat split; auto.
    + intros y. rewrite H2. simpl. rewrite Hx. tauto.
Qed.

(** * One receiver step, successful: exact description of the new store *)

Lemma recv_obj_ok d o d' :
  recv_obj d o = ROk d' ->
  commits d' = match o with OCommit c cc => (c, cc) :: commits d | _ => commits d end /\
  tables d' = match o with OTable t tc => (t, tc) :: tables d | _ => tables d end /\
  blocks d' = match o with OBlock b z => (b, z) :: blocks d | _ => blocks d end /\
  tblidx d' = match o with OTable t _ => t :: tblidx d | _ => tblidx d end /\
  prof d' = match o with OTable t _ => t :: prof d | _ => prof d end /\
  (forall x, In x (blkidx d') <-> In x (blkidx d) \/
                                  match o with OTable _ tc => In x (map snd (t_blocks tc)) | _ => False end).
Proof.
  destruct o as [b z|t tc|c cc|]; simpl.
  - intros H; inversion H; subst; simpl. repeat split; auto; tauto.
  - unfold Transfer.recv_table.
    destruct (forallb _ (t_pk tc)); simpl; [|discriminate].
    destruct (index_blocks d (t_cols tc) (t_pk tc) (t_blocks tc)) as [d1|d1] eqn:E; [|discriminate].
    destruct (forallb _ (tbl_blocks tc)); simpl; [|discriminate].
    intros H; inversion H; subst; simpl.
    pose proof (index_blocks_frame d (t_cols tc) (t_pk tc) (t_blocks tc)) as F. rewrite E in F; simpl in F.
    destruct F as (F1 & F2 & F3 & F4 & F5 & _).
    apply index_blocks_ok in E. destruct E as [_ E].
    repeat split; try congruence. all: apply E.
  - unfold recv_commit. destruct (forallb _ _); [|discriminate].
    intros H; inversion H; subst; simpl. repeat split; auto; tauto.
  - discriminate.
Qed.

(* what a successful step checked *)
Lemma recv_table_ok_checked d t tc d' :
  recv_table d t tc = ROk d' ->
  (forall k, In k (t_pk tc) -> k < t_cols tc) /\
  (forall b x, In (b, x) (t_blocks tc) -> has_block d b = true /\ fits (t_cols tc) b = true /\ x = reindex (t_pk tc) b).
Proof.
  unfold Transfer.recv_table.
  destruct (forallb _ (t_pk tc)) eqn:Hpk; simpl; [|discriminate].
  destruct (index_blocks d (t_cols tc) (t_pk tc) (t_blocks tc)) as [d1|d1] eqn:E; [|discriminate].
  intros _. split.
  - intros k Hk. rewrite forallb_forall in Hpk. apply Hpk in Hk. apply N.ltb_lt; auto.
  - intros b x Hin. apply index_blocks_ok in E. destruct E as [E _]. destruct (E _ _ Hin) as (A & B & C & _); auto.
Qed.

Lemma recv_commit_ok_checked d c cc d' :
  recv_commit d c cc = ROk d' -> forall p, In p (c_parents cc) -> has_commit d p = true.
Proof.
  unfold recv_commit. destruct (forallb _ _) eqn:E; [|discriminate]. intros _ p Hp.
  rewrite forallb_forall in E; auto.
Qed.

(** every step (accepted or rejected) only extends the store *)
Lemma recv_obj_ext d o : ext d (rstate (recv_obj d o)).
Proof.
  destruct o as [b z|t tc|c cc|]; simpl; try apply ext_refl.
  - apply ext_put_block.
  - unfold Transfer.recv_table.
    destruct (forallb _ (t_pk tc)); simpl; [|apply ext_refl].
    pose proof (index_blocks_frame d (t_cols tc) (t_pk tc) (t_blocks tc)) as F.
    destruct (index_blocks d (t_cols tc) (t_pk tc) (t_blocks tc)) as [d1|d1] eqn:E; simpl in F;
      destruct F as (F1 & F2 & F3 & F4 & F5 & F6 & _).
    + assert (X : ext d d1).
      { split; unfold has_commit, has_table, has_block; try rewrite F1; try rewrite F2; try rewrite F3;
          try rewrite F4; try rewrite F5; auto using incl_refl. }
      destruct (forallb _ (tbl_blocks tc)); simpl.
      * eapply ext_trans; [apply X|]. eapply ext_trans; [apply ext_put_tblidx|].
        eapply ext_trans; [apply ext_put_prof|]. apply ext_put_table.
      * eapply ext_trans; [apply X|]. apply ext_put_tblidx.
    + simpl. split; unfold has_commit, has_table, has_block; try rewrite F1; try rewrite F2; try rewrite F3;
          try rewrite F4; try rewrite F5; auto using incl_refl.
  - unfold recv_commit. destruct (forallb _ _); simpl; [apply ext_put_commit|apply ext_refl].
Qed.

Lemma recv_all_ext d objs : ext d (rstate (recv_all d objs)).
Proof.
  revert d; induction objs as [|o objs IH]; intros d; simpl; [apply ext_refl|].
  pose proof (recv_obj_ext d o) as E.
  destruct (recv_obj d o) as [d1|d1]; simpl in *; auto.
  eapply ext_trans; eauto.
Qed.

(** * Parent gate *)

Lemma closed_ext_same_commits d d' : commits d' = commits d -> Closed d -> Closed d'.
Proof.
  unfold Closed, has_commit. intros E H c cc Hc p Hp. rewrite E in *. eauto.
Qed.

Lemma recv_obj_commits_rejected d o d' : recv_obj d o = RErr d' -> commits d' = commits d.
Proof.
  destruct o as [b z|t tc|c cc|]; simpl; try discriminate.
  - unfold Transfer.recv_table.
    destruct (forallb _ (t_pk tc)); simpl; [|intros H; inversion H; auto].
    pose proof (index_blocks_frame d (t_cols tc) (t_pk tc) (t_blocks tc)) as F.
    destruct (index_blocks d (t_cols tc) (t_pk tc) (t_blocks tc)) as [d1|d1] eqn:E; simpl in F;
      destruct F as (F1 & _).
    + destruct (forallb _ (tbl_blocks tc)); simpl; [discriminate|]. intros H; inversion H; subst; simpl; auto.
    + intros H; inversion H; subst; auto.
  - unfold recv_commit. destruct (forallb _ _); [discriminate|]. intros H; inversion H; auto.
  - intros H; inversion H; auto.
Qed.

Lemma closed_recv_obj d o : Closed d -> Closed (rstate (recv_obj d o)).
Proof.
  intros HC. destruct (recv_obj d o) as [d'|d'] eqn:E; simpl.
  - pose proof (recv_obj_ok _ _ _ E) as (H1 & _).
    destruct o as [b z|t tc|c cc|]; simpl in H1; try (eapply closed_ext_same_commits; eauto; fail).
    simpl in E. pose proof (recv_commit_ok_checked _ _ _ _ E) as Hp.
    intros c' cc' Hl p Hin. unfold has_commit. rewrite H1 in *. simpl in Hl.
    rewrite has_cons. destruct (c' =? c) eqn:Ec.
    + inversion Hl; subst cc'. pose proof (Hp _ Hin) as Q. unfold has_commit in Q. rewrite Q. apply orb_true_r.
    + pose proof (HC _ _ Hl _ Hin) as Q. unfold has_commit in Q. rewrite Q. apply orb_true_r.
  - apply (closed_ext_same_commits d d'); auto. eapply recv_obj_commits_rejected; eauto.
Qed.

Theorem closed_recv_all d objs : Closed d -> Closed (rstate (recv_all d objs)).
Proof.
  revert d; induction objs as [|o objs IH]; intros d H; simpl; auto.
  pose proof (closed_recv_obj d o H) as H1.
  destruct (recv_obj d o) as [d1|d1]; simpl in *; auto.
Qed.

(* the gate in the words of the property: a commit enters the store only through an
   accepted commit object all of whose parents were present *)
Theorem commit_stored_only_with_parents d o c cc :
  lookup c (commits (rstate (recv_obj d o))) = Some cc ->
  lookup c (commits d) = Some cc \/
  (o = OCommit c cc /\ forall p, In p (c_parents cc) -> has_commit d p = true).
Proof.
  destruct (recv_obj d o) as [d'|d'] eqn:E; simpl.
  - pose proof (recv_obj_ok _ _ _ E) as (H1 & _). rewrite H1.
    destruct o as [b z|t tc|c0 cc0|]; auto. simpl.
    destruct (c =? c0) eqn:Ec; auto. intros H; inversion H; subst. apply N.eqb_eq in Ec; subst.
    right. split; auto. simpl in E. eauto using recv_commit_ok_checked.
  - rewrite (recv_obj_commits_rejected _ _ _ E). auto.
Qed.

(** * Table gate *)

Lemma table_ok_ext d d' t tc : ext d d' -> table_ok d t tc -> table_ok d' t tc.
Proof.
  intros [] (A & B & C & D). split; auto. split; [|split; auto].
  intros b x H. destruct (B _ _ H); split; auto.
Qed.

Lemma tableswf_ext_same_tables d d' : tables d' = tables d -> ext d d' -> TablesWF d -> TablesWF d'.
Proof.
  intros E X H t tc Hl. rewrite E in Hl. eauto using table_ok_ext.
Qed.

Lemma recv_obj_tables_rejected d o d' : recv_obj d o = RErr d' -> tables d' = tables d.
Proof.
  destruct o as [b z|t tc|c cc|]; simpl; try discriminate.
  - unfold Transfer.recv_table.
    destruct (forallb _ (t_pk tc)); simpl; [|intros H; inversion H; auto].
    pose proof (index_blocks_frame d (t_cols tc) (t_pk tc) (t_blocks tc)) as F.
    destruct (index_blocks d (t_cols tc) (t_pk tc) (t_blocks tc)) as [d1|d1] eqn:E; simpl in F;
      destruct F as (_ & F2 & _).
    + destruct (forallb _ (tbl_blocks tc)); simpl; [discriminate|]. intros H; inversion H; subst; simpl; auto.
    + intros H; inversion H; subst; auto.
  - unfold recv_commit. destruct (forallb _ _); [discriminate|]. intros H; inversion H; auto.
  - intros H; inversion H; auto.
Qed.

(* an accepted table object is usable afterwards, whatever the store held before *)
Lemma recv_table_ok_usable d t tc d' : recv_table d t tc = ROk d' -> table_ok d' t tc.
Proof.
  intros E. pose proof (recv_obj_ext d (OTable t tc)) as X. simpl in X. rewrite E in X. simpl in X.
  pose proof (recv_obj_ok d (OTable t tc) d' E) as (_ & H2 & _ & H4 & H5 & H6).
  pose proof (recv_table_ok_checked _ _ _ _ E) as [Hpk Hb].
  split; [split; auto; intros b x Hin; destruct (Hb _ _ Hin) as (? & ? & ?); auto|].
  split; [|rewrite H4, H5; simpl; auto].
  intros b x Hin. destruct (Hb _ _ Hin) as (A & _ & _). split.
  - destruct X; auto.
  - apply H6. right. apply in_map_iff. exists (b, x); auto.
Qed.

Lemma tableswf_recv_obj d o : TablesWF d -> TablesWF (rstate (recv_obj d o)).
Proof.
  intros HW. pose proof (recv_obj_ext d o) as X.
  destruct (recv_obj d o) as [d'|d'] eqn:E; simpl in *.
  - pose proof (recv_obj_ok _ _ _ E) as (_ & H2 & _ & H4 & H5 & H6).
    destruct o as [b z|t tc|c cc|]; simpl in H2; try (eapply tableswf_ext_same_tables; eauto; fail).
    simpl in E. pose proof (recv_table_ok_checked _ _ _ _ E) as [Hpk Hb].
    intros t' tc' Hl. rewrite H2 in Hl. simpl in Hl. destruct (t' =? t) eqn:Et.
    + inversion Hl; subst tc'. apply N.eqb_eq in Et; subst t'.
      split; [split; auto; intros b x Hin; destruct (Hb _ _ Hin) as (? & ? & ?); auto|].
      split; [|rewrite H4, H5; simpl; auto].
      intros b x Hin. destruct (Hb _ _ Hin) as (A & _ & _). split.
      * destruct X; auto.
      * apply H6. right. apply in_map_iff. exists (b, x); auto.
    + eapply table_ok_ext; eauto.
  - apply (tableswf_ext_same_tables d d'); auto. eapply recv_obj_tables_rejected; eauto.
Qed.

Theorem tableswf_recv_all d objs : TablesWF d -> TablesWF (rstate (recv_all d objs)).
Proof.
  revert d; induction objs as [|o objs IH]; intros d H; simpl; auto.
  pose proof (tableswf_recv_obj d o H) as H1.
  destruct (recv_obj d o) as [d1|d1]; simpl in *; auto.
Qed.

Theorem table_stored_only_when_checked d o t tc :
  lookup t (tables (rstate (recv_obj d o))) = Some tc ->
  lookup t (tables d) = Some tc \/
  (o = OTable t tc /\ table_sound tc /\ forall b, In b (tbl_blocks tc) -> has_block d b = true).
Proof.
  destruct (recv_obj d o) as [d'|d'] eqn:E; simpl.
  - pose proof (recv_obj_ok _ _ _ E) as (_ & H2 & _). rewrite H2.
    destruct o as [b z|t0 tc0|c0 cc0|]; auto. simpl.
    destruct (t =? t0) eqn:Ec; auto. intros H; inversion H; subst. apply N.eqb_eq in Ec; subst.
    right. split; auto. simpl in E. destruct (recv_table_ok_checked _ _ _ _ E) as [A B].
    split; [split; auto; intros b x Hin; destruct (B _ _ Hin) as (? & ? & ?); auto|].
    intros b Hb. unfold tbl_blocks in Hb. apply in_map_iff in Hb. destruct Hb as [[b' x] [Eb Hin]]. simpl in Eb; subst.
    destruct (B _ _ Hin) as (? & _); auto.
  - rewrite (recv_obj_tables_rejected _ _ _ E). auto.
Qed.

(** * Successful receive of a sequence: exact description *)

Definition ocommits (objs : list obj) : list (N * commit) :=
  flat_map (fun o => match o with OCommit c cc => [(c, cc)] | _ => [] end) objs.
Definition otables (objs : list obj) : list (N * table) :=
  flat_map (fun o => match o with OTable t tc => [(t, tc)] | _ => [] end) objs.
Definition oblocks (objs : list obj) : list (N * N) :=
  flat_map (fun o => match o with OBlock b z => [(b, z)] | _ => [] end) objs.

Lemma in_ocommits objs c cc : In (c, cc) (ocommits objs) <-> In (OCommit c cc) objs.
Proof.
  unfold ocommits. rewrite in_flat_map. split.
  - intros [o [H1 H2]]. destruct o; simpl in H2; try tauto. destruct H2 as [H2|[]]. inversion H2; subst; auto.
  - intros H. exists (OCommit c cc); simpl; auto.
Qed.
Lemma in_otables objs c cc : In (c, cc) (otables objs) <-> In (OTable c cc) objs.
Proof.
  unfold otables. rewrite in_flat_map. split.
  - intros [o [H1 H2]]. destruct o; simpl in H2; try tauto. destruct H2 as [H2|[]]. inversion H2; subst; auto.
  - intros H. exists (OTable c cc); simpl; auto.
Qed.
Lemma in_oblocks objs c cc : In (c, cc) (oblocks objs) <-> In (OBlock c cc) objs.
Proof.
  unfold oblocks. rewrite in_flat_map. split.
  - intros [o [H1 H2]]. destruct o; simpl in H2; try tauto. destruct H2 as [H2|[]]. inversion H2; subst; auto.
  - intros H. exists (OBlock c cc); simpl; auto.
Qed.

Lemma recv_all_ok d objs d' :
  recv_all d objs = ROk d' ->
  commits d' = rev (ocommits objs) ++ commits d /\
  tables d' = rev (otables objs) ++ tables d /\
  blocks d' = rev (oblocks objs) ++ blocks d /\
  tblidx d' = rev (map fst (otables objs)) ++ tblidx d /\
  prof d' = rev (map fst (otables objs)) ++ prof d /\
  (forall x, In x (blkidx d') <-> In x (blkidx d) \/ exists t tc, In (OTable t tc) objs /\ In x (map snd (t_blocks tc))).
Proof.
  revert d; induction objs as [|o objs IH]; intros d; simpl.
  - intros H; inversion H; subst. repeat split; auto. intros [H1|(t & tc & [] & _)]; auto.
  - destruct (recv_obj d o) as [d1|d1] eqn:E; [|discriminate].
    intros H. apply IH in H. destruct H as (H1 & H2 & H3 & H4 & H5 & H6).
    pose proof (recv_obj_ok _ _ _ E) as (G1 & G2 & G3 & G4 & G5 & G6).
    rewrite H1, H2, H3, H4, H5, G1, G2, G3, G4, G5.
    assert (A : forall {X} (a : X) l m, rev l ++ a :: m = rev (a :: l) ++ m) by (intros; simpl; rewrite <- app_assoc; auto).
    repeat split.
    + destruct o; simpl; auto. rewrite <- app_assoc; auto.
    + destruct o; simpl; auto. rewrite <- app_assoc; auto.
    + destruct o; simpl; auto. rewrite <- app_assoc; auto.
    + destruct o; simpl; auto. rewrite <- app_assoc; auto.
    + destruct o; simpl; auto. rewrite <- app_assoc; auto.
    + intros Hx. apply H6 in Hx. destruct Hx as [Hx|(t & tc & Hin & Hx)].
      * apply G6 in Hx. destruct Hx as [Hx|Hx]; auto. destruct o; try tauto. right. eauto.
      * right. eauto.
    + intros Hx. apply H6. rewrite G6. destruct Hx as [Hx|(t & tc & [Hin|Hin] & Hx)]; auto.
      * subst o. auto.
      * right. eauto.
Qed.

(* recv_all over a concatenation *)
Lemma recv_all_app d l1 l2 :
  recv_all d (l1 ++ l2) = match recv_all d l1 with ROk d' => recv_all d' l2 | RErr d' => RErr d' end.
Proof.
  revert d; induction l1 as [|o l1 IH]; intros d; simpl; auto.
  destruct (recv_obj d o); auto.
Qed.

Lemma has_rev {V} k (l : list (N * V)) : has k (rev l) = has k l.
Proof.
  destruct (has k l) eqn:E.
  - apply has_In in E. destruct E as [v E]. apply has_In. exists v. apply in_rev in E; auto.
  - destruct (has k (rev l)) eqn:E'; auto. apply has_In in E'. destruct E' as [v E'].
    apply in_rev in E'. assert (has k l = true) by (apply has_In; eauto). congruence.
Qed.

Section Presence.
Variables (d : repo) (objs : list obj) (d' : repo).
Hypothesis Hok : recv_all d objs = ROk d'.

Lemma ok_has_commit c : has_commit d' c = true <-> has_commit d c = true \/ exists cc, In (OCommit c cc) objs.
Proof.
  destruct (recv_all_ok _ _ _ Hok) as (H1 & _). unfold has_commit. rewrite H1, has_app, has_rev, orb_true_iff, has_In.
  split.
  - intros [[cc H]|H]; [right; exists cc; apply in_ocommits; auto | left; auto].
  - intros [H|[cc H]]; [right; auto | left; exists cc; apply in_ocommits; auto].
Qed.
Lemma ok_has_table c : has_table d' c = true <-> has_table d c = true \/ exists cc, In (OTable c cc) objs.
Proof.
  destruct (recv_all_ok _ _ _ Hok) as (_ & H1 & _). unfold has_table. rewrite H1, has_app, has_rev, orb_true_iff, has_In.
  split.
  - intros [[cc H]|H]; [right; exists cc; apply in_otables; auto | left; auto].
  - intros [H|[cc H]]; [right; auto | left; exists cc; apply in_otables; auto].
Qed.
Lemma ok_has_block c : has_block d' c = true <-> has_block d c = true \/ exists cc, In (OBlock c cc) objs.
Proof.
  destruct (recv_all_ok _ _ _ Hok) as (_ & _ & H1 & _). unfold has_block. rewrite H1, has_app, has_rev, orb_true_iff, has_In.
  split.
  - intros [[cc H]|H]; [right; exists cc; apply in_oblocks; auto | left; auto].
  - intros [H|[cc H]]; [right; auto | left; exists cc; apply in_oblocks; auto].
Qed.
Lemma ok_tblidx t : In t (tblidx d') <-> In t (tblidx d) \/ exists tc, In (OTable t tc) objs.
Proof.
  destruct (recv_all_ok _ _ _ Hok) as (_ & _ & _ & H1 & _). rewrite H1, in_app_iff, <- in_rev, in_map_iff.
  split; intros [H|H]; auto.
  - destruct H as [[t' tc] [E H]]; simpl in E; subst. right. exists tc. apply in_otables; auto.
  - destruct H as [tc H]. left. exists (t, tc). split; auto. apply in_otables; auto.
Qed.
Lemma ok_prof t : In t (prof d') <-> In t (prof d) \/ exists tc, In (OTable t tc) objs.
Proof.
  destruct (recv_all_ok _ _ _ Hok) as (_ & _ & _ & _ & H1 & _). rewrite H1, in_app_iff, <- in_rev, in_map_iff.
  split; intros [H|H]; auto.
  - destruct H as [[t' tc] [E H]]; simpl in E; subst. right. exists tc. apply in_otables; auto.
  - destruct H as [tc H]. left. exists (t, tc). split; auto. apply in_otables; auto.
Qed.
Lemma ok_blkidx x : In x (blkidx d') <-> In x (blkidx d) \/ exists t tc, In (OTable t tc) objs /\ In x (map snd (t_blocks tc)).
Proof. destruct (recv_all_ok _ _ _ Hok) as (_ & _ & _ & _ & _ & H1). apply H1. Qed.

Lemma ok_lookup_commit c cc : lookup c (commits d') = Some cc -> lookup c (commits d) = Some cc \/ In (OCommit c cc) objs.
Proof.
  destruct (recv_all_ok _ _ _ Hok) as (H1 & _). rewrite H1, lookup_app.
  destruct (lookup c (rev (ocommits objs))) eqn:E; auto.
  intros H; inversion H; subst. apply lookup_In in E. apply in_rev in E. right. apply in_ocommits; auto.
Qed.
Lemma ok_lookup_table c cc : lookup c (tables d') = Some cc -> lookup c (tables d) = Some cc \/ In (OTable c cc) objs.
Proof.
  destruct (recv_all_ok _ _ _ Hok) as (_ & H1 & _). rewrite H1, lookup_app.
  destruct (lookup c (rev (otables objs))) eqn:E; auto.
  intros H; inversion H; subst. apply lookup_In in E. apply in_rev in E. right. apply in_otables; auto.
Qed.
Lemma ok_lookup_block c cc : lookup c (blocks d') = Some cc -> lookup c (blocks d) = Some cc \/ In (OBlock c cc) objs.
Proof.
  destruct (recv_all_ok _ _ _ Hok) as (_ & _ & H1 & _). rewrite H1, lookup_app.
  destruct (lookup c (rev (oblocks objs))) eqn:E; auto.
  intros H; inversion H; subst. apply lookup_In in E. apply in_rev in E. right. apply in_oblocks; auto.
Qed.

End Presence.

(* a packfile cut strictly inside an object: the reader fails there, the receiver has handled the
   objects before it and returns an error - nothing of the cut object, nothing after it *)
Theorem cut_inside_rejected d pack j o :
  nth_error pack j = Some o ->
  recv_all d (cut_pack j true pack) = RErr (rstate (recv_all d (firstn j pack))).
Proof.
  intros E. unfold cut_pack. rewrite E. rewrite recv_all_app.
  destruct (recv_all d (firstn j pack)); simpl; auto.
Qed.

(* every table object of an accepted sequence is usable at the end: blocks, rebuilt block
   indices, table index and profile are there - with NO assumption on the initial store *)
Theorem received_usable d objs d' :
  recv_all d objs = ROk d' ->
  forall l1 t tc l2, objs = l1 ++ OTable t tc :: l2 -> table_ok d' t tc.
Proof.
  intros Hok l1 t tc l2 E. subst objs. rewrite recv_all_app in Hok.
  destruct (recv_all d l1) as [d1|d1] eqn:E1; [|discriminate].
  simpl in Hok. destruct (Transfer.recv_table bshape d1 t tc) as [d2|d2] eqn:E2; [|discriminate].
  pose proof (recv_all_ext d2 l2) as X. rewrite Hok in X. simpl in X.
  eapply table_ok_ext; eauto using recv_table_ok_usable.
Qed.

(* every accepted table had all its blocks present when it arrived *)
Lemma ok_table_blocks_present d objs d' :
  recv_all d objs = ROk d' ->
  forall l1 t tc l2, objs = l1 ++ OTable t tc :: l2 ->
  forall b, In b (tbl_blocks tc) -> has_block d b = true \/ exists z, In (OBlock b z) l1.
Proof.
  intros Hok l1 t tc l2 E b Hb. subst objs. rewrite recv_all_app in Hok.
  destruct (recv_all d l1) as [d1|d1] eqn:E1; [|discriminate].
  simpl in Hok. destruct (Transfer.recv_table bshape d1 t tc) as [d2|d2] eqn:E2; [|discriminate].
  destruct (recv_table_ok_checked _ _ _ _ E2) as [_ B].
  unfold tbl_blocks in Hb. apply in_map_iff in Hb. destruct Hb as [[b' x] [Eb Hin]]. simpl in Eb; subst.
  destruct (B _ _ Hin) as (A & _). eapply ok_has_block in A; eauto.
Qed.

End Recv.
