(** C16 - theorems stated over the translator's skeleton (strings of gen/Extracted.v). *)
From W.lib Require Import Tree.
From W.model Require Import Pool PoolSpec PoolFlow.
From W.proofs Require Import PoolBase_proofs Pool_proofs PoolData_proofs PoolThm_proofs PoolHB_proofs.
From Coq Require Import Arith Lia String Sorting.Permutation.
Local Open Scope nat_scope.

Lemma skeleton_ok_cfg acc post outer cap send w :
  skeleton_ok acc post outer cap send = true -> 1 <= w ->
  exists c, cfg_of_skeleton acc post outer cap send w = Some c /\ cfg_ok c /\ c_w c = w.
Proof.
  unfold skeleton_ok. intros H Hw. repeat (apply andb_true_iff in H as [H ?]).
  now apply cfg_of_skeleton_ok.
Qed.

Lemma outer_cost c : cfg_ok c -> Forall (fun a => m_cost c a = 2) (c_outer c).
Proof. intros H. rewrite (ok_outer c H). repeat constructor. Qed.

Lemma run_cons c t r s :
  runs c (t :: r) s = match step c t s with Some (s', _) => runs c r s' | None => runs c r s end.
Proof.
  unfold runs. simpl. destruct (step c t s) as [[s' l]|]; auto.
  destruct (run_tr c r s'); reflexivity.
Qed.

Lemma run_app c r1 r2 s : runs c (r1 ++ r2) s = runs c r2 (runs c r1 s).
Proof.
  revert s; induction r1 as [|t r1 IH]; intros s; simpl; auto.
  rewrite !run_cons. destruct (step c t s) as [[s' l]|]; auto.
Qed.

(** every execution can be completed: from any state satisfying the invariant some
    schedule lets the caller return (no deadlock + no infinite run) *)
Lemma completes c s : cfg_ok c -> InvC c s -> exists sched, main_done (runs c sched s) = true.
Proof.
  intros Hok. remember (measure c s) as m eqn:Em. revert s Em.
  induction m as [m IH] using lt_wf_ind. intros s -> I.
  destruct (main_done s) eqn:Hd.
  - exists []. exact Hd.
  - destruct (progress c Hok s I Hd) as (t & s' & l & Hs).
    pose proof (measure_decreases c (outer_cost c Hok) _ _ _ _ Hs) as Hlt.
    destruct (IH _ Hlt s' eq_refl (InvC_step c Hok _ _ _ _ I Hs)) as (sched & Hdone).
    exists (t :: sched). now rewrite run_cons, Hs.
Qed.

Lemma done_sequential_blocks c blocks sched :
  cfg_ok c -> NoDup (map b_off blocks) -> Forall (fun b => b_fail b = FNone) blocks ->
  let s := runs c sched (init c (map PBlk blocks)) in
  main_done s = true ->
  result s = Some (seq_result blocks) /\
  Permutation blocks (ab s) /\ rc s = wrap32 (sum_rows blocks) /\
  (forall b, In b blocks -> In (OBlk (b_off b)) (store s) /\ In (OIdx (b_off b)) (store s)).
Proof.
  intros Hok Hnd Hnf.
  assert (Hnr : ~ In PReadErr (map PBlk blocks)).
  { intros Hin. apply in_map_iff in Hin as (b & Hb & _). discriminate. }
  remember (map PBlk blocks) as items eqn:Ei.
  assert (E : blocks_of items = blocks) by (subst; apply blocks_of_map).
  rewrite <- E in *. apply (done_sequential c Hok items); auto.
Qed.

Section Top.
  Variables (acc post outer : list string) (cap send : string) (w : nat).
  Hypothesis Hsk : skeleton_ok acc post outer cap send = true.
  Hypothesis Hw : 1 <= w.

  (** C16_pool_sequential *)
  Theorem pool_sequential (blocks : list blk) (sched : list nat) :
    NoDup (map b_off blocks) -> Forall (fun b => b_fail b = FNone) blocks ->
    exists c, cfg_of_skeleton acc post outer cap send w = Some c /\
      let s := runs c sched (init c (map PBlk blocks)) in
      panicked s = false /\
      (main_done s = true ->
         result s = Some (seq_result blocks) /\
         Permutation blocks (ab s) /\ rc s = wrap32 (sum_rows blocks) /\
         (forall b, In b blocks -> In (OBlk (b_off b)) (store s) /\ In (OIdx (b_off b)) (store s))).
  Proof.
    intros Hnd Hnf. destruct (skeleton_ok_cfg _ _ _ _ _ w Hsk Hw) as (c & Ec & Hok & _).
    exists c. split; auto. cbv zeta.
    destruct (run_inv c Hok (map PBlk blocks) sched) as [I D].
    split; [apply (ic_np c _ I)|]. intros Hd.
    apply (done_sequential_blocks c blocks sched Hok Hnd Hnf Hd).
  Qed.

  (** ... in particular the same table as with a single worker *)
  Theorem pool_same_as_one_worker (blocks : list blk) (sched sched1 : list nat) :
    NoDup (map b_off blocks) -> Forall (fun b => b_fail b = FNone) blocks ->
    exists c c1, cfg_of_skeleton acc post outer cap send w = Some c /\
                 cfg_of_skeleton acc post outer cap send 1 = Some c1 /\
      let s := runs c sched (init c (map PBlk blocks)) in
      let s1 := runs c1 sched1 (init c1 (map PBlk blocks)) in
      main_done s = true -> main_done s1 = true -> result s = result s1 /\ result s <> None.
  Proof.
    intros Hnd Hnf.
    destruct (skeleton_ok_cfg _ _ _ _ _ w Hsk Hw) as (c & Ec & Hok & _).
    destruct (skeleton_ok_cfg _ _ _ _ _ 1 Hsk (le_n 1)) as (c1 & Ec1 & Hok1 & _).
    exists c, c1. split; [auto|split; [auto|]]. cbv zeta. intros Hd Hd1.
    destruct (done_sequential_blocks c blocks sched Hok Hnd Hnf Hd) as (R & _).
    destruct (done_sequential_blocks c1 blocks sched1 Hok1 Hnd Hnf Hd1) as (R1 & _).
    rewrite R, R1. split; [reflexivity|discriminate].
  Qed.

  (** C16_no_hang *)
  Theorem no_hang (items : list pitem) (sched : list nat) :
    exists c, cfg_of_skeleton acc post outer cap send w = Some c /\
      let s := runs c sched (init c items) in
      (* no send on / close of a closed channel, no negative WaitGroup, no bad Unlock *)
      panicked s = false /\
      (* no deadlock, and the run can always be completed; no run is infinite *)
      (main_done s = false -> enabled c s) /\
      (exists more, main_done (runs c (sched ++ more) (init c items)) = true) /\
      (forall tr s', execs c (init c items) tr s' -> List.length tr <= measure c (init c items)) /\
      (* when the caller returns nothing is left running *)
      (main_done s = true ->
         closed s = true /\ pend s = [] /\ forall k wk, nth_error (ws s) k = Some wk -> w_st wk = WDone) /\
      (* an error in a worker (or in the producer) reaches the caller *)
      (main_done s = true ->
         (exists b, In b (blocks_of items) /\ b_fail b <> FNone) \/ In PReadErr items ->
         result s = Some RErr).
  Proof.
    destruct (skeleton_ok_cfg _ _ _ _ _ w Hsk Hw) as (c & Ec & Hok & _).
    exists c. split; auto. cbv zeta.
    destruct (run_inv c Hok items sched) as [I D].
    split; [apply (ic_np c _ I)|].
    split; [apply (progress c Hok _ I)|].
    split.
    { destruct (completes c _ Hok I) as (more & Hm). exists more. now rewrite run_app. }
    split.
    { intros tr s' E. pose proof (execs_length c (outer_cost c Hok) _ _ _ E). lia. }
    split.
    { intros Hd. destruct (done_all_finished c Hok items _ I Hd) as (? & ? & _ & _ & ?). auto. }
    intros Hd Herr. eapply done_error_reported; eauto.
  Qed.

  (** C16_lockset_no_race *)
  Theorem lockset_no_race (items : list pitem) (sched : list nat) :
    exists c, cfg_of_skeleton acc post outer cap send w = Some c /\
      let tr := snd (run_tr c sched (init c items)) in
      forall i j t1 a1 t2 a2,
        i < j -> nth_error tr i = Some (t1, a1) -> nth_error tr j = Some (t2, a2) ->
        conflict a1 a2 = true -> thread_of t1 <> thread_of t2 ->
        hb tr i j.
  Proof.
    destruct (skeleton_ok_cfg _ _ _ _ _ w Hsk Hw) as (c & Ec & Hok & _).
    exists c. split; auto. cbv zeta. intros i j t1 a1 t2 a2 Hij Hi Hj Hc Hne.
    eapply (no_race c Hok); eauto. apply run_tr_execs.
  Qed.

  (** mutual exclusion, in state form: at most one worker is inside the critical section,
      and it is the holder of the mutex *)
  Theorem mutual_exclusion (items : list pitem) (sched : list nat) :
    exists c, cfg_of_skeleton acc post outer cap send w = Some c /\
      let s := runs c sched (init c items) in
      forall k1 k2 w1 w2, nth_error (ws s) k1 = Some w1 -> nth_error (ws s) k2 = Some w2 ->
        in_cs w1 = true -> in_cs w2 = true -> k1 = k2 /\ mutex s = Some k1.
  Proof.
    destruct (skeleton_ok_cfg _ _ _ _ _ w Hsk Hw) as (c & Ec & Hok & _).
    exists c. split; auto. cbv zeta. intros k1 k2 w1 w2 H1 H2 C1 C2.
    destruct (run_inv c Hok items sched) as [I _].
    pose proof (ic_cs c _ I k1 w1 H1 C1). pose proof (ic_cs c _ I k2 w2 H2 C2).
    split; congruence.
  Qed.
End Top.
