(** Proofs for model/CodecCommit.v.  Axiom-free. *)
From W.lib Require Import Tree Bytes.
From W.model Require Import CodecBase CodecStrList CodecObjline CodecCommit.
From W.proofs Require Import CodecBase_proofs CodecStrList_proofs CodecObjline_proofs.
From Coq Require Import Arith Lia ZifyNat ZifyN ZifyBool List NArith Bool ZArith.
Import ListNotations.
Local Open Scope N_scope.

Lemma dec_raw_app n (p rest : bytes) : length p = n -> dec_raw n (p ++ rest) = Some (p, rest).
Proof. intros H. unfold dec_raw. now apply take_app_n. Qed.

Lemma enc_field_length label body :
  length (enc_field label body) = (length label + length body + 2)%nat.
Proof. unfold enc_field. rewrite !app_length. cbn. lia. Qed.

Lemma enc_field_cons label body : exists c r, enc_field label body = c :: r.
Proof.
  unfold enc_field. destruct label as [|c l]; cbn; eauto.
Qed.

Lemma read_parents_step f b : b <> [] ->
  read_parents (S f) b =
  match dec_field L_parent (dec_raw 16) b with
  | None => None
  | Some (p, b') => match read_parents f b' with Some r => Some (p :: r) | None => None end
  end.
Proof. destruct b; [congruence|reflexivity]. Qed.

Lemma read_parents_enc ps : Forall (fun p => length p = 16%nat) ps ->
  forall fuel, (length (enc_parents ps) <= fuel)%nat -> read_parents fuel (enc_parents ps) = Some ps.
Proof.
  induction 1 as [|p ps Hp _ IH]; intros fuel Hf.
  - destruct fuel; reflexivity.
  - cbn [enc_parents] in *. rewrite app_length, enc_field_length in Hf.
    destruct fuel as [|f]; [lia|].
    rewrite read_parents_step.
    2:{ destruct (enc_field_cons L_parent p) as (c & r & E). rewrite E. discriminate. }
    rewrite (dec_field_enc L_parent (dec_raw 16) p p) by (now apply dec_raw_app).
    rewrite IH by lia. reflexivity.
Qed.

Theorem commit_roundtrip c : wf_commit c ->
  exists b, encode_commit c = Some b /\ forall strict, decode_commit_g strict b = Some (c, []).
Proof.
  destruct c as [tbl name email tm msg ps]. unfold wf_commit. cbn [c_table c_name c_email c_time c_msg c_parents].
  intros (Ht & Hn & He & Hm & Htm & Hps).
  unfold encode_commit. cbn [c_table c_name c_email c_time c_msg c_parents].
  rewrite !enc_string_some by assumption.
  eexists. split; [reflexivity|]. intros strict.
  unfold decode_commit_g.
  rewrite (dec_field_enc L_table (dec_raw 16) tbl tbl) by (now apply dec_raw_app).
  rewrite (dec_field_enc L_authorName dec_string _ name)
    by (rewrite <- app_assoc; now apply dec_string_enc).
  rewrite (dec_field_enc L_authorEmail dec_string _ email)
    by (rewrite <- app_assoc; now apply dec_string_enc).
  rewrite (dec_field_enc L_time (dec_time strict) _ tm) by (now apply dec_time_enc).
  rewrite (dec_field_enc L_message dec_string _ msg)
    by (rewrite <- app_assoc; now apply dec_string_enc).
  rewrite read_parents_enc by auto. reflexivity.
Qed.

Theorem commit_reject_overlimit c : commit_overlimit c -> encode_commit c = None.
Proof.
  unfold commit_overlimit, encode_commit. intros [H|[H|H]]; rewrite (enc_string_none _ H);
    repeat match goal with |- context [enc_string ?s] => destruct (enc_string s) end; reflexivity.
Qed.

Lemma read_parents_inv : forall fuel b ps,
  read_parents fuel b = Some ps -> b = enc_parents ps.
Proof.
  induction fuel as [|f IH]; intros b ps H.
  - destruct b; cbn in H; [inv H; reflexivity|discriminate].
  - destruct b as [|x b]; [cbn in H; inv H; reflexivity|].
    cbn [read_parents] in H.
    destruct (dec_field L_parent (dec_raw 16) (x :: b)) as [[p b']|] eqn:E; [|discriminate].
    destruct (read_parents f b') as [r|] eqn:E2; [|discriminate].
    inv H. apply dec_field_inv in E as (b1 & Eb & Hp).
    unfold dec_raw in Hp. apply take_spec in Hp as [-> _].
    rewrite Eb. apply IH in E2. subst b'. cbn [enc_parents]. unfold enc_field.
    now rewrite <- !app_assoc.
Qed.

(** canonicity: what the reader restricted to canonical time fields accepts is
    exactly an encoding, and it is a restriction of the real reader *)
Theorem commit_reencode b c rest :
  wf_bytes b -> decode_commit_g true b = Some (c, rest) -> encode_commit c = Some b /\ rest = [].
Proof.
  intros Hw H. unfold decode_commit_g in H.
  destruct (dec_field L_table (dec_raw 16) b) as [[tbl b1]|] eqn:E1; [|discriminate].
  destruct (dec_field L_authorName dec_string b1) as [[name b2]|] eqn:E2; [|discriminate].
  destruct (dec_field L_authorEmail dec_string b2) as [[email b3]|] eqn:E3; [|discriminate].
  destruct (dec_field L_time (dec_time true) b3) as [[tm b4]|] eqn:E4; [|discriminate].
  destruct (dec_field L_message dec_string b4) as [[msg b5]|] eqn:E5; [|discriminate].
  destruct (read_parents (length b5) b5) as [ps|] eqn:E6; [|discriminate].
  inv H. split; [|reflexivity].
  apply dec_field_inv in E1 as (x1 & -> & F1). unfold dec_raw in F1. apply take_spec in F1 as [-> _].
  apply wf_label_app in Hw. apply wf_bytes_app in Hw as [_ Hw]. apply wf_nl_rest in Hw.
  apply dec_field_inv in E2 as (x2 & -> & F2). apply wf_label_app in Hw.
  apply dec_string_inv in F2 as (En & -> & Hw2 & _); [|assumption]. apply wf_nl_rest in Hw2.
  apply dec_field_inv in E3 as (x3 & -> & F3). apply wf_label_app in Hw2.
  apply dec_string_inv in F3 as (Ee & -> & Hw3 & _); [|assumption]. apply wf_nl_rest in Hw3.
  apply dec_field_inv in E4 as (x4 & -> & F4). apply wf_label_app in Hw3.
  apply dec_time_strict_inv in F4. subst x4.
  apply wf_bytes_app in Hw3 as [_ Hw4]. apply wf_nl_rest in Hw4.
  apply dec_field_inv in E5 as (x5 & -> & F5). apply wf_label_app in Hw4.
  apply dec_string_inv in F5 as (Em & -> & Hw5 & _); [|assumption].
  apply read_parents_inv in E6. subst b5.
  unfold encode_commit. cbn [c_table c_name c_email c_time c_msg c_parents].
  rewrite En, Ee, Em. f_equal. unfold enc_field. now rewrite <- !app_assoc.
Qed.

Lemma dec_field_mono {X} label (f g : bytes -> option (X * bytes)) b r :
  (forall b' r', f b' = Some r' -> g b' = Some r') ->
  dec_field label f b = Some r -> dec_field label g b = Some r.
Proof.
  intros Hfg. unfold dec_field. destruct (expect (label ++ [SP]) b) as [b1|]; [|discriminate].
  destruct (f b1) as [[x b2]|] eqn:E; [|discriminate]. now rewrite (Hfg _ _ E).
Qed.

Theorem commit_strict_real b r : decode_commit_g true b = Some r -> decode_commit b = Some r.
Proof.
  unfold decode_commit, decode_commit_g. intros H.
  destruct (dec_field L_table (dec_raw 16) b) as [[tbl b1]|]; [|discriminate].
  destruct (dec_field L_authorName dec_string b1) as [[name b2]|]; [|discriminate].
  destruct (dec_field L_authorEmail dec_string b2) as [[email b3]|]; [|discriminate].
  destruct (dec_field L_time (dec_time true) b3) as [[tm b4]|] eqn:E4; [|discriminate].
  now rewrite (dec_field_mono _ _ _ _ _ dec_time_strict_real E4).
Qed.

(** the real commit reader is not canonical: witness in the time field *)
Definition nc_commit_bytes (tm : bytes) : bytes :=
  enc_field L_table zeros16 ++ enc_field L_authorName [0;0] ++ enc_field L_authorEmail [0;0] ++
  enc_field L_time tm ++ enc_field L_message [0;0].

Lemma commit_noncanonical :
  let b := nc_commit_bytes [43;48;48;48;48;48;48;48;48;53;120;45;48;48;48;48] in
  let c := mk_commit zeros16 [] [] (5%Z, 0%Z) [] [] in
  decode_commit b = Some (c, []) /\
  encode_commit c = Some (nc_commit_bytes [48;48;48;48;48;48;48;48;48;53;32;43;48;48;48;48]).
Proof. split; vm_compute; reflexivity. Qed.
