(** Proofs for model/CodecTable.v: Table and BlockIndex.  Axiom-free. *)
From W.lib Require Import Tree Bytes.
From W.model Require Import CodecBase CodecStrList CodecObjline CodecTable.
From W.proofs Require Import CodecBase_proofs CodecStrList_proofs CodecObjline_proofs.
From Coq Require Import Arith Lia ZifyNat ZifyN ZifyBool List NArith Bool.
Import ListNotations.
Local Open Scope N_scope.

(* ------------------------------------------------------------------ *)
(** * fixed-width chunks *)

Lemma read_fixed_concat w (l : list bytes) rest :
  Forall (fun s => length s = w) l -> read_fixed w (length l) (concat l ++ rest) = Some (l, rest).
Proof.
  induction 1 as [|s l Hs _ IH]; [reflexivity|].
  cbn [length read_fixed concat]. rewrite <- app_assoc, (take_app_n w) by assumption.
  now rewrite IH.
Qed.

Lemma read_fixed_inv w : forall n b l rest,
  read_fixed w n b = Some (l, rest) ->
  b = concat l ++ rest /\ length l = n /\ Forall (fun s => length s = w) l.
Proof.
  induction n as [|n IH]; intros b l rest H; cbn [read_fixed] in H.
  - inv H. repeat split; auto.
  - destruct (take w b) as [[h b1]|] eqn:E; [|discriminate].
    destruct (read_fixed w n b1) as [[r t]|] eqn:E2; [|discriminate].
    inv H. apply take_spec in E as [-> Hh]. apply IH in E2 as (-> & Hn & Hf).
    cbn [concat length]. rewrite <- app_assoc. repeat split; auto.
Qed.

Lemma concat_length_fixed w (l : list bytes) :
  Forall (fun s => length s = w) l -> length (concat l) = (w * length l)%nat.
Proof.
  induction 1 as [|s l Hs _ IH]; [cbn; lia|]. cbn [concat length]. rewrite app_length, IH, Hs. lia.
Qed.

(* ------------------------------------------------------------------ *)
(** * Table *)

Lemma rd_be_nl n rest : n < 2 ^ 32 -> rd_be 4 (be 4 n ++ [NL] ++ rest) = Some (n, [NL] ++ rest).
Proof. intros H. apply rd_be_app. now rewrite pow256_4. Qed.

Theorem table_roundtrip t : wf_table t ->
  exists b, encode_table t = Some b /\ forall rest, decode_table (b ++ rest) = Some (t, rest).
Proof.
  destruct t as [cols pk rows blocks idx]. unfold wf_table.
  cbn [t_columns t_pk t_rowscount t_blocks t_indices].
  intros (Hc & Hp & Hr & Hlb & Hli & Hfb & Hfi).
  destruct (strlist_roundtrip cols Hc) as (bc & Ebc & Dc).
  destruct (words_roundtrip 4 pk ltac:(lia) Hp) as (bp & Ebp & Dp).
  unfold encode_table. cbn [t_columns t_pk t_rowscount t_blocks t_indices].
  unfold encode_uintlist. rewrite Ebc, Ebp. eexists. split; [reflexivity|].
  intros rest. unfold decode_table. rewrite <- !app_assoc.
  rewrite (dec_field_enc L_columns decode_strlist bc cols) by apply Dc.
  rewrite (dec_field_enc L_pk decode_uintlist bp pk) by apply Dp.
  rewrite (dec_field_enc L_rows (rd_be 4) _ rows) by (now apply rd_be_nl).
  pose proof (concat_length_fixed 16 _ Hfb) as Lb.
  unfold count_fits, len. rewrite !app_length, Lb, Hlb.
  destruct (blocks_count rows <=?
            N.of_nat (16 * N.to_nat (blocks_count rows) + (length (concat idx) + length rest))) eqn:E;
    [|apply N.leb_gt in E; lia].
  rewrite <- Hlb, read_fixed_concat by assumption.
  rewrite Hlb, <- Hli, read_fixed_concat by assumption. reflexivity.
Qed.

Theorem table_reject_overlimit t :
  Exists (fun s => max_str_len < len s) (t_columns t) -> encode_table t = None.
Proof.
  intros H. unfold encode_table. now rewrite (strlist_reject_overlimit _ H).
Qed.

(** the table reader is canonical: the tolerance of the StrList reader cannot fire
    because a '\n' must follow the column list *)
Theorem table_reencode b t rest :
  wf_bytes b -> decode_table b = Some (t, rest) ->
  exists b', encode_table t = Some b' /\ b = b' ++ rest /\ wf_table t.
Proof.
  intros Hw H. unfold decode_table in H.
  destruct (dec_field L_columns decode_strlist b) as [[cols b1]|] eqn:E1; [|discriminate].
  destruct (dec_field L_pk decode_uintlist b1) as [[pk b2]|] eqn:E2; [|discriminate].
  destruct (dec_field L_rows (rd_be 4) b2) as [[rows b3]|] eqn:E3; [|discriminate].
  destruct (count_fits (blocks_count rows) b3); [|discriminate].
  destruct (read_fixed 16 (N.to_nat (blocks_count rows)) b3) as [[blocks b4]|] eqn:E4; [|discriminate].
  destruct (read_fixed 16 (N.to_nat (blocks_count rows)) b4) as [[idx b5]|] eqn:E5; [|discriminate].
  inv H.
  apply dec_field_inv in E1 as (x1 & -> & F1). apply wf_label_app in Hw.
  apply strlist_real_strict in F1; [|discriminate].
  apply strlist_reencode in F1 as (bc & Ec & -> & Hw1 & Hcols); [|assumption]. apply wf_nl_rest in Hw1.
  apply dec_field_inv in E2 as (x2 & -> & F2). apply wf_label_app in Hw1.
  apply words_reencode in F2 as (bp & Ep & -> & Hw2 & Hpk); [|assumption]. apply wf_nl_rest in Hw2.
  apply dec_field_inv in E3 as (x3 & -> & F3). apply wf_label_app in Hw2.
  apply rd_be_inv in F3 as (-> & Hrows & Hw3); [|assumption]. rewrite pow256_4 in Hrows.
  apply read_fixed_inv in E4 as (-> & Lb & Fb). apply read_fixed_inv in E5 as (-> & Li & Fi).
  unfold encode_table. cbn [t_columns t_pk t_rowscount t_blocks t_indices].
  unfold encode_uintlist. rewrite Ec, Ep. eexists. split; [reflexivity|]. split.
  - unfold enc_field. now rewrite <- !app_assoc.
  - unfold wf_table. cbn [t_columns t_pk t_rowscount t_blocks t_indices].
    destruct Hcols as [? ?]; destruct Hpk as [? ?]. rewrite Lb, Li. repeat split; auto.
Qed.

(* ------------------------------------------------------------------ *)
(** * BlockIndex *)

Theorem blockindex_roundtrip x : wf_blockindex x ->
  exists b, encode_blockindex x = Some b /\
    forall rest, decode_blockindex (b ++ rest) = Some (x, rest).
Proof.
  destruct x as [off rows]. unfold wf_blockindex. cbn [bi_off bi_rows].
  intros (Hl & Hn & Hf).
  unfold encode_blockindex. cbn [bi_off bi_rows].
  rewrite Hl, Nat.leb_refl, firstn_all. eexists. split; [reflexivity|].
  intros rest. cbn [app decode_blockindex].
  rewrite N.mod_small by lia. rewrite Nat2N.id, <- app_assoc.
  rewrite (take_app_n (length rows)) by assumption.
  now rewrite read_fixed_concat.
Qed.

Theorem blockindex_reencode b x rest :
  wf_bytes b -> decode_blockindex b = Some (x, rest) ->
  exists b', encode_blockindex x = Some b' /\ b = b' ++ rest /\ wf_blockindex x.
Proof.
  intros Hw H. unfold decode_blockindex in H.
  destruct b as [|l b1]; [discriminate|].
  destruct (take (N.to_nat l) b1) as [[off b2]|] eqn:E1; [|discriminate].
  destruct (read_fixed 32 (N.to_nat l) b2) as [[rows b3]|] eqn:E2; [|discriminate].
  inv H. apply take_spec in E1 as [-> Lo]. apply read_fixed_inv in E2 as (-> & Lr & Fr).
  inversion Hw as [|? ? Hl _]; subst. unfold wf_byte in Hl.
  unfold encode_blockindex, wf_blockindex. cbn [bi_off bi_rows].
  rewrite Lo, Lr, Nat.leb_refl. replace (firstn (N.to_nat l) rows) with rows by (rewrite <- Lr; symmetry; apply firstn_all).
  eexists. split; [reflexivity|]. rewrite N2Nat.id, N.mod_small by lia.
  repeat split; auto; try lia. cbn [app]. now rewrite <- app_assoc.
Qed.
