(** Proofs about ingestion (C01, C02, C03). *)
From W.lib Require Import Tree Bytes GoSort.
From W.model Require Import Sorter SorterSpec Ingest IngestSpec.
From W.proofs Require Import Sorter_proofs.
From Coq Require Import Arith Lia ZifyNat ZifyN ZifyBool Sorting.Sorted Sorting.Permutation.
Local Open Scope nat_scope.

(** * generic: a strictly sorted list is determined by its elements *)

Lemma strict_sorted_perm_unique {A} (R : A -> A -> Prop) :
  (forall a b, R a b -> R b a -> False) ->
  forall l1 l2, StronglySorted R l1 -> StronglySorted R l2 -> Permutation l1 l2 -> l1 = l2.
Proof.
  intros Hasym. induction l1 as [|a l1 IH]; intros l2 S1 S2 HP.
  - apply Permutation_nil in HP. now subst.
  - destruct l2 as [|b l2]; [symmetry in HP; apply Permutation_nil in HP; discriminate|].
    apply StronglySorted_inv in S1 as [S1 Ha]. apply StronglySorted_inv in S2 as [S2 Hb].
    rewrite Forall_forall in Ha, Hb.
    assert (Eab : a = b).
    { assert (Ia : In a (b :: l2)) by (eapply Permutation_in; [exact HP|now left]).
      assert (Ib : In b (a :: l1)) by (eapply Permutation_in; [symmetry; exact HP|now left]).
      destruct Ia as [->|Ia]; [reflexivity|]. destruct Ib as [->|Ib]; [reflexivity|].
      exfalso. eapply Hasym; [apply Ha; exact Ib|apply Hb; exact Ia]. }
    subst b. f_equal. apply IH; auto. eapply Permutation_cons_inv; eauto.
Qed.

Lemma NoDup_map_inj {A B} (f : A -> B) l a b :
  NoDup (map f l) -> In a l -> In b l -> f a = f b -> a = b.
Proof.
  induction l as [|x l IH]; intros Hn Ha Hb E; [inversion Ha|].
  cbn in Hn. inversion Hn as [|? ? Hx Hn']; subst.
  destruct Ha as [->|Ha], Hb as [->|Hb]; auto.
  - exfalso. apply Hx. rewrite E. now apply in_map.
  - exfalso. apply Hx. rewrite <- E. now apply in_map.
Qed.

Lemma strict_sorted_NoDup_keys ncols pk l :
  keys_strictly_ascending ncols pk l -> NoDup (map (dkey ncols pk) l).
Proof.
  induction 1 as [|a l Hs IH Ha]; cbn; constructor; auto.
  intros Hin. apply in_map_iff in Hin as (b & Eb & Hb).
  rewrite Forall_forall in Ha. specialize (Ha b Hb). rewrite Eb, kcmp_refl in Ha. discriminate.
Qed.

Lemma kcmp_lt_asym a b : kcmp a b = Lt -> kcmp b a = Lt -> False.
Proof. intros H1 H2. rewrite (kcmp_antisym a b), H1 in H2. discriminate. Qed.

(** * remove_cols with nothing to remove *)

Lemma remove_from_nil r : forall i, remove_from i [] r = r.
Proof. induction r as [|c r IH]; intros i; cbn; [reflexivity|]. now rewrite IH. Qed.

Lemma map_remove_cols_nil (l : list row) : map (remove_cols []) l = l.
Proof.
  induction l as [|r l IH]; cbn; [reflexivity|]. unfold remove_cols at 1.
  now rewrite remove_from_nil, IH.
Qed.

Lemma wf_removed_nil ncols pk : wf_removed ncols pk [].
Proof. split; [constructor|intros c []]. Qed.

(** * KeyIndices *)

Lemma indices_of_bounds k cols : forall s,
  Forall (fun i => s <= i < s + length cols) (indices_of k s cols).
Proof.
  induction cols as [|c cols IH]; intros s; cbn; [constructor|].
  assert (Forall (fun i => s <= i < s + S (length cols)) (indices_of k (S s) cols)).
  { eapply Forall_impl; [|apply IH]. cbn. intros; lia. }
  destruct (beqb c k); auto. constructor; auto. lia.
Qed.

Lemma indices_of_in k cols : forall s, In k cols -> indices_of k s cols <> [].
Proof.
  induction cols as [|c cols IH]; intros s Hin; [inversion Hin|]. cbn.
  destruct (beqb c k) eqn:E; [discriminate|].
  destruct Hin as [->|Hin]; [|apply IH; auto].
  unfold beqb in E. rewrite bcmp_refl in E. discriminate.
Qed.

Lemma has_dup_false l : NoDup l -> has_dup l = false.
Proof.
  induction 1 as [|x l Hx Hn IH]; cbn; [reflexivity|]. rewrite IH, Bool.orb_false_r.
  destruct (existsb (Nat.eqb x) l) eqn:E; [|reflexivity].
  apply existsb_exists in E as (y & Hy & Ey). apply Nat.eqb_eq in Ey. subst. contradiction.
Qed.

Lemma indices_of_NoDup k cols : forall s, NoDup (indices_of k s cols).
Proof.
  induction cols as [|c cols IH]; intros s; cbn; [constructor|].
  destruct (beqb c k); [|apply IH]. constructor; [|apply IH].
  intros Hin. pose proof (indices_of_bounds k cols (S s)) as B. rewrite Forall_forall in B.
  specialize (B s Hin). lia.
Qed.

Lemma indices_of_nth k cols : forall s i, In i (indices_of k s cols) -> nth (i - s) cols [] = k.
Proof.
  induction cols as [|c cols IH]; intros s i Hin; cbn in Hin; [contradiction|].
  assert (Hrec : In i (indices_of k (S s) cols) -> nth (i - s) (c :: cols) [] = k).
  { intros H. pose proof (indices_of_bounds k cols (S s)) as B. rewrite Forall_forall in B.
    specialize (B i H). replace (i - s) with (S (i - S s)) by lia. cbn. apply IH. exact H. }
  destruct (beqb c k) eqn:E; [|auto].
  destruct Hin as [->|Hin]; [|auto].
  rewrite Nat.sub_diag. cbn. unfold beqb in E. destruct (bcmp c k) eqn:C; try discriminate.
  now apply bcmp_eq.
Qed.

Lemma NoDup_app_intro {A} (l1 l2 : list A) :
  NoDup l1 -> NoDup l2 -> (forall x, In x l1 -> ~ In x l2) -> NoDup (l1 ++ l2).
Proof.
  induction 1 as [|a l1 Ha Hn IH]; intros H2 Hd; cbn; [exact H2|].
  constructor.
  - intros Hin. apply in_app_or in Hin as [Hin|Hin]; [contradiction|]. eapply Hd; [now left|exact Hin].
  - apply IH; auto. intros x Hx. apply Hd. now right.
Qed.

Lemma clash_false seen l :
  existsb (fun i => existsb (Nat.eqb i) seen) l = false -> forall i, In i l -> ~ In i seen.
Proof.
  intros E i Hi Hs.
  assert (existsb (fun i => existsb (Nat.eqb i) seen) l = true); [|congruence].
  apply existsb_exists. exists i. split; auto. apply existsb_exists. exists i. split; auto.
  apply Nat.eqb_refl.
Qed.

Lemma clash_false_intro seen l :
  (forall i, In i l -> ~ In i seen) -> existsb (fun i => existsb (Nat.eqb i) seen) l = false.
Proof.
  intros Hd. destruct (existsb _ l) eqn:E; [|reflexivity].
  apply existsb_exists in E as (i & Hi & Ei). apply existsb_exists in Ei as (j & Hj & Ej).
  apply Nat.eqb_eq in Ej. subst j. exfalso. eapply Hd; eauto.
Qed.

Lemma key_indices_loop_some cols names : forall seen pk,
  key_indices_loop cols names seen = Some pk ->
  (forall i, In i pk -> ~ In i seen) /\ NoDup pk /\
  (forall k, In k names -> indices_of k 0 cols <> [] /\ incl (indices_of k 0 cols) pk) /\
  NoDup names /\ wf_pk (length cols) pk.
Proof.
  induction names as [|k names IH]; intros seen pk H; cbn in H.
  - inversion H; subst. repeat split; try constructor; intros; contradiction.
  - destruct (existsb (fun i => existsb (Nat.eqb i) seen) (indices_of k 0 cols)) eqn:Ec; [discriminate|].
    destruct (indices_of k 0 cols) as [|j l] eqn:E; [discriminate|].
    destruct (key_indices_loop cols names ((j :: l) ++ seen)) as [r|] eqn:Er; [|discriminate].
    inversion H; subst pk. clear H.
    destruct (IH _ _ Er) as (A & B & C & D & F).
    pose proof (clash_false _ _ Ec) as Hc.
    assert (Hdisj : forall i, In i (j :: l) -> ~ In i r).
    { intros i Hi Hr. apply (A i Hr). apply in_or_app. now left. }
    change (j :: l ++ r) with ((j :: l) ++ r).
    split; [|split; [|split; [|split]]].
    + intros i Hi. apply in_app_or in Hi as [Hi|Hi]; [now apply Hc|].
      intros Hs. apply (A i Hi). apply in_or_app. now right.
    + apply NoDup_app_intro; auto. rewrite <- E. apply indices_of_NoDup.
    + intros k' [<-|Hk'].
      * rewrite E. split; [discriminate|]. intros x Hx. apply in_or_app. now left.
      * destruct (C k' Hk') as [C1 C2]. split; auto. intros x Hx. apply in_or_app. right. now apply C2.
    + constructor; auto. intros Hk. destruct (C k Hk) as [_ C2]. rewrite E in C2.
      apply (Hdisj j); [now left|]. apply C2. now left.
    + unfold wf_pk. apply Forall_app. split; [|exact F].
      pose proof (indices_of_bounds k cols 0) as Bd. rewrite E in Bd.
      eapply Forall_impl; [|exact Bd]. cbn. intros; lia.
Qed.

Lemma key_indices_wf cols names pk : key_indices cols names = Some pk -> wf_pk (length cols) pk.
Proof. intros H. now destruct (key_indices_loop_some _ _ _ _ H) as (_ & _ & _ & _ & F). Qed.

Lemma key_indices_NoDup cols names pk : key_indices cols names = Some pk -> NoDup pk.
Proof. intros H. now destruct (key_indices_loop_some _ _ _ _ H) as (_ & B & _). Qed.

Lemma key_indices_names_NoDup cols names pk : key_indices cols names = Some pk -> NoDup names.
Proof. intros H. now destruct (key_indices_loop_some _ _ _ _ H) as (_ & _ & _ & D & _). Qed.

Lemma key_indices_loop_total cols names : forall seen,
  incl names cols -> NoDup names ->
  (forall k i, In k names -> In i (indices_of k 0 cols) -> ~ In i seen) ->
  exists pk, key_indices_loop cols names seen = Some pk.
Proof.
  induction names as [|k names IH]; intros seen Hi Hn Hs; cbn; [eauto|].
  inversion Hn as [|? ? Hk Hn']; subst.
  rewrite clash_false_intro by (intros i Hx; eapply Hs; [now left|exact Hx]).
  destruct (indices_of k 0 cols) as [|j l] eqn:E.
  { exfalso. eapply indices_of_in; [|exact E]. apply Hi. now left. }
  destruct (IH ((j :: l) ++ seen)) as (r & ->); [| |  |eauto].
  - intros x Hx. apply Hi. now right.
  - exact Hn'.
  - intros k' i Hk' Hx Hin. apply in_app_or in Hin as [Hin|Hin].
    + rewrite <- E in Hin. apply indices_of_nth in Hin. apply indices_of_nth in Hx.
      rewrite Nat.sub_0_r in *. apply Hk. congruence.
    + eapply Hs; [right; exact Hk'|exact Hx|exact Hin].
Qed.

Lemma key_indices_total cols names :
  incl names cols -> NoDup names -> exists pk, key_indices cols names = Some pk.
Proof. intros Hi Hn. apply key_indices_loop_total; auto. Qed.

(** * sortBlocks *)

Lemma insert_ab_perm a l : Permutation (insert_ab a l) (a :: l).
Proof.
  induction l as [|x l IH]; cbn [insert_ab]; [reflexivity|].
  destruct (ab_offset a <? ab_offset x); [reflexivity|]. rewrite IH. apply perm_swap.
Qed.

Lemma sort_blocks_perm l : Permutation (sort_blocks l) l.
Proof.
  induction l as [|a l IH]; cbn; [reflexivity|]. fold (sort_blocks l).
  rewrite insert_ab_perm. now constructor.
Qed.

Definition off_le (a b : asyncblock) : Prop := ab_offset a <= ab_offset b.
Definition off_lt (a b : asyncblock) : Prop := ab_offset a < ab_offset b.

Lemma insert_ab_sorted a l : StronglySorted off_le l -> StronglySorted off_le (insert_ab a l).
Proof.
  induction 1 as [|x l Hs IH Hx]; cbn [insert_ab]; [repeat constructor|].
  destruct (ab_offset a <? ab_offset x) eqn:E.
  - apply Nat.ltb_lt in E. constructor; [constructor; auto|]. constructor; [unfold off_le; lia|].
    eapply Forall_impl; [|exact Hx]. unfold off_le. intros; lia.
  - apply Nat.ltb_ge in E. constructor; auto.
    rewrite Forall_forall in *. intros y Hy.
    apply (Permutation_in _ (insert_ab_perm a l)) in Hy. destruct Hy as [<-|Hy]; auto.
Qed.

Lemma sort_blocks_sorted l : StronglySorted off_le (sort_blocks l).
Proof.
  induction l as [|a l IH]; cbn; [constructor|]. fold (sort_blocks l). now apply insert_ab_sorted.
Qed.

Lemma le_sorted_nodup_lt l :
  StronglySorted off_le l -> NoDup (map ab_offset l) -> StronglySorted off_lt l.
Proof.
  induction 1 as [|a l Hs IH Ha]; intros Hn; [constructor|].
  cbn in Hn. inversion Hn as [|? ? Hna Hn']; subst. constructor; auto.
  rewrite Forall_forall in *. intros b Hb. specialize (Ha b Hb).
  unfold off_le, off_lt in *.
  assert (ab_offset a <> ab_offset b) by (intros E; apply Hna; rewrite E; now apply in_map).
  lia.
Qed.

Lemma seq_sorted_lt (l : list asyncblock) s :
  map ab_offset l = seq s (length l) -> StronglySorted off_lt l.
Proof.
  revert s; induction l as [|a l IH]; intros s H; [constructor|].
  cbn in H. inversion H as [[Ha Hl]]. constructor; [eapply IH; eauto|].
  rewrite Forall_forall. intros b Hb. unfold off_lt.
  assert (In (ab_offset b) (seq (S (ab_offset a)) (length l))) by (rewrite <- Hl; now apply in_map).
  apply in_seq in H0. lia.
Qed.

Lemma sort_blocks_arrival arrive l s :
  any_arrival arrive -> map ab_offset l = seq s (length l) -> sort_blocks (arrive l) = l.
Proof.
  intros Ha Hseq.
  pose proof (seq_sorted_lt l s Hseq) as Sl.
  assert (HP : Permutation (sort_blocks (arrive l)) l).
  { rewrite sort_blocks_perm. apply Ha. }
  apply (strict_sorted_perm_unique off_lt); auto.
  - unfold off_lt. intros; lia.
  - apply le_sorted_nodup_lt; [apply sort_blocks_sorted|].
    rewrite (Permutation_map ab_offset HP), Hseq. apply seq_NoDup.
Qed.

(** * sums are independent of the arrival order *)

Lemma fold_add_perm {A} (f : A -> N) l l' : Permutation l l' ->
  forall z, fold_left (fun n a => (n + f a)%N) l z = fold_left (fun n a => (n + f a)%N) l' z.
Proof.
  induction 1; intros z; cbn; auto.
  - f_equal. lia.
  - now rewrite IHPermutation1.
Qed.

Lemma fold_add_lengths (bs : list (list row)) : forall z,
  fold_left (fun n b => (n + N.of_nat (length b))%N) bs z = (z + N.of_nat (length (concat bs)))%N.
Proof.
  induction bs as [|b bs IH]; intros z; cbn; [lia|]. rewrite IH, app_length. lia.
Qed.

(** * shape of a chunked block list (no removed columns) *)

Section Chunked.
  Variable ncols : nat.
  Variable pk : list nat.

  Lemma chunked_offsets rem off l bs :
    chunked ncols pk rem off l bs -> map b_offset bs = seq off (length bs).
  Proof. induction 1; cbn; auto. now rewrite IHchunked. Qed.

  Lemma chunked_rows off l bs : chunked ncols pk [] off l bs -> concat (map b_rows bs) = l.
  Proof. intros H. rewrite (chunked_concat _ _ _ _ _ _ H). apply map_remove_cols_nil. Qed.

  Lemma chunked_sizes off l bs :
    chunked ncols pk [] off l bs ->
    Forall (fun b => 1 <= length b <= block_size) (map b_rows bs) /\
    (forall i, S i < length bs -> length (nth i (map b_rows bs) []) = block_size).
  Proof.
    induction 1 as [off|off l Hne Hlen|off l1 l2 bs Hl1 Hne Hc IH]; cbn.
    - split; [constructor|intros; lia].
    - split; [|intros; lia]. constructor; [|constructor]. rewrite map_length.
      destruct l; [contradiction|cbn in *; lia].
    - destruct IH as [I1 I2]. split.
      + constructor; auto. rewrite map_length. unfold block_size in *. lia.
      + intros [|i] Hi; [now rewrite map_length|]. apply I2. lia.
  Qed.

  Lemma chunked_pks off l bs :
    chunked ncols pk [] off l bs ->
    map b_pk bs = map (fun b => dkey ncols pk (hd [] b)) (map b_rows bs).
  Proof.
    induction 1 as [off|off l Hne Hlen|off l1 l2 bs Hl1 Hne Hc IH]; cbn; auto.
    - now rewrite map_remove_cols_nil.
    - now rewrite map_remove_cols_nil, IH.
  Qed.
End Chunked.

(** * ingestTableFromBlocks on a chunked block list *)

Section IngestBlocks.
  Variable H : list bytes -> N.
  Variable arrive : list asyncblock -> list asyncblock.
  Hypothesis Harr : any_arrival arrive.

  (** the table determined by the kept rows *)
  Definition table_of (columns : list bytes) (pk : list nat) (bs : list sblock) : table :=
    mk_table (ensure_names columns) pk (N.of_nat (length (concat (map b_rows bs))))
             (map b_rows bs) (map (index_block H pk) (map b_rows bs)).

  Lemma fold_count_saved pk bs : forall z,
    fold_left (fun n a => (n + N.of_nat (ab_count a))%N) (map (save_block H pk) bs) z
    = (z + N.of_nat (length (concat (map b_rows bs))))%N.
  Proof.
    induction bs as [|b bs IH]; intros z; cbn; [lia|]. rewrite IH, app_length. lia.
  Qed.

  Lemma ingest_blocks_eq columns pk rem kept bs :
    chunked (length columns) pk rem 0 kept bs ->
    exists w0,
      ingest_blocks H arrive columns pk bs =
        (table_of columns pk bs, map b_pk bs,
         w0 ++ [WTableIdx (table_of columns pk bs) (map b_pk bs); WTable (table_of columns pk bs)]) /\
      Forall (fun o => match o with WTable _ => False | _ => True end) w0.
  Proof.
    intros Hc. unfold ingest_blocks.
    set (saved := map (save_block H pk) bs).
    assert (Hoff : map ab_offset saved = seq 0 (length saved)).
    { unfold saved. rewrite map_map, map_length. cbn [save_block ab_offset].
      exact (chunked_offsets _ _ _ _ _ _ Hc). }
    rewrite (sort_blocks_arrival arrive saved 0 Harr Hoff).
    assert (Ecount : fold_left (fun n a => (n + N.of_nat (ab_count a))%N) (arrive saved) 0%N
                     = N.of_nat (length (concat (map b_rows bs)))).
    { rewrite (fold_add_perm (fun a => N.of_nat (ab_count a)) _ _ (Harr saved)).
      unfold saved. rewrite fold_count_saved. lia. }
    rewrite Ecount.
    assert (E1 : map ab_rows saved = map b_rows bs) by (unfold saved; rewrite map_map; reflexivity).
    assert (E2 : map ab_idx saved = map (index_block H pk) (map b_rows bs))
      by (unfold saved; rewrite !map_map; reflexivity).
    assert (E3 : map ab_pk saved = map b_pk bs) by (unfold saved; rewrite map_map; reflexivity).
    rewrite E1, E2, E3. eexists. split; [reflexivity|].
    apply Forall_concat. apply Forall_map. apply Forall_forall. intros a _.
    repeat constructor.
  Qed.
End IngestBlocks.

(** * Characterisation of a successful ingest *)

Lemma unique_keys_perm ncols pk rows kept :
  keys_strictly_ascending ncols pk kept ->
  (forall r, In r kept -> In r rows) ->
  (forall r, In r rows -> exists p, In p kept /\ dkey ncols pk p = dkey ncols pk r) ->
  NoDup (map (dkey ncols pk) rows) -> Permutation rows kept.
Proof.
  intros Hs Hin Hcov Hn.
  apply NoDup_Permutation.
  - eapply NoDup_map_inv; eauto.
  - eapply NoDup_map_inv. apply strict_sorted_NoDup_keys; eauto.
  - intros r. split; [|apply Hin].
    intros Hr. destruct (Hcov r Hr) as (p & Hp & E).
    assert (p = r) by (eapply NoDup_map_inj; eauto). now subst.
Qed.

Section Characterisation.
  Variable H : list bytes -> N.
  Variable sort_rows : list nat -> list row -> list row.
  Variable arrive : list asyncblock -> list asyncblock.

  (** any sorted runs handed to IngestTableFromSorter (ingest, merge, doctor re-ingest) *)
  Lemma ingest_from_sorter_char columns pk s rows :
    any_arrival arrive -> NoDup pk -> wf_rows (length columns) rows ->
    Permutation (concat (runs_of sort_rows pk s)) rows ->
    Forall (run_sorted pk) (runs_of sort_rows pk s) ->
    exists bs kept w,
      ingest_from_sorter H sort_rows arrive columns pk s =
        (IOk (table_of H columns pk bs) (map b_pk bs), w) /\
      table_written_last w (table_of H columns pk bs) /\
      chunked (length columns) pk [] 0 kept bs /\
      keys_strictly_ascending (length columns) pk kept /\
      (forall r, In r kept -> In r rows) /\
      (forall r, In r rows -> exists p, In p kept /\
                                        dkey (length columns) pk p = dkey (length columns) pk r).
  Proof.
    intros Harr Hnd Hwf Hperm Hsorted. unfold ingest_from_sorter, sorted_blocks.
    destruct (blocks_any_runs (length columns) pk [] rows _ Hwf (wf_removed_nil _ _) Hperm Hsorted)
      as (bs & kept & E & Hc & K1 & K2 & K3 & _).
    rewrite E, (has_dup_false pk Hnd). cbn [andb].
    destruct (ingest_blocks_eq H arrive Harr columns pk [] kept bs Hc) as (w0 & Ei & Hw0).
    rewrite Ei. exists bs, kept. eexists. split; [reflexivity|].
    split; [|auto]. exists w0, (map b_pk bs). auto.
  Qed.

  Lemma ingest_table_char run_size columns pknames rows :
    sort_ok (length columns) sort_rows -> any_arrival arrive ->
    incl pknames columns -> NoDup pknames -> wf_rows (length columns) rows -> cells_in_limit rows ->
    exists pk bs kept w,
      key_indices columns pknames = Some pk /\ wf_pk (length columns) pk /\
      ingest_table H sort_rows arrive run_size columns pknames rows =
        (IOk (table_of H columns pk bs) (map b_pk bs), w) /\
      table_written_last w (table_of H columns pk bs) /\
      chunked (length columns) pk [] 0 kept bs /\
      keys_strictly_ascending (length columns) pk kept /\
      (forall r, In r kept -> In r rows) /\
      (forall r, In r rows -> exists p, In p kept /\
                                        dkey (length columns) pk p = dkey (length columns) pk r).
  Proof.
    intros Hso Harr Hpk Hnd Hwf Hc.
    destruct (key_indices_total columns pknames Hpk Hnd) as (pk & Ek).
    pose proof (key_indices_wf _ _ _ Ek) as Hwpk.
    pose proof (key_indices_NoDup _ _ _ Ek) as Hndpk.
    destruct (sorter_runs (length columns) sort_rows run_size pk rows Hso Hwpk Hwf Hc)
      as (s & Es & Hperm & Hsorted).
    destruct (ingest_from_sorter_char columns pk s rows Harr Hndpk Hwf Hperm Hsorted)
      as (bs & kept & w & Ei & R).
    exists pk, bs, kept, w. unfold ingest_table. rewrite Ek, Es. auto.
  Qed.
End Characterisation.

(** * C01 *)

Theorem ingest_lossless H sort_rows arrive run_size columns pknames rows :
  sort_ok (length columns) sort_rows -> any_arrival arrive ->
  incl pknames columns -> NoDup pknames -> wf_rows (length columns) rows -> cells_in_limit rows ->
  exists pk T tidx w,
    key_indices columns pknames = Some pk /\
    ingest_table H sort_rows arrive run_size columns pknames rows = (IOk T tidx, w) /\
    table_written_last w T /\
    t_columns T = ensure_names columns /\ t_pk T = pk /\
    t_rowscount T = N.of_nat (length (rows_of T)) /\
    keys_strictly_ascending (length columns) pk (rows_of T) /\
    (forall r, In r (rows_of T) -> In r rows) /\
    (forall r, In r rows -> exists p, In p (rows_of T) /\
                                      dkey (length columns) pk p = dkey (length columns) pk r) /\
    (NoDup (map (dkey (length columns) pk) rows) -> Permutation rows (rows_of T)).
Proof.
  intros Hso Harr Hpk Hnd Hwf Hc.
  destruct (ingest_table_char H sort_rows arrive run_size columns pknames rows Hso Harr Hpk Hnd Hwf Hc)
    as (pk & bs & kept & w & Ek & Hwpk & Ei & Hw & Hch & K1 & K2 & K3).
  exists pk, (table_of H columns pk bs), (map b_pk bs), w.
  assert (Erows : rows_of (table_of H columns pk bs) = kept).
  { unfold rows_of, table_of. cbn. eapply chunked_rows; eauto. }
  rewrite Erows. repeat (split; [solve [auto]|]).
  split; [cbn; now rewrite <- Erows|].
  repeat (split; [solve [auto]|]).
  intros Hn. eapply unique_keys_perm; eauto.
Qed.

Theorem ingest_overlimit_refused H sort_rows arrive run_size columns pknames rows :
  has_overlimit_cell rows ->
  exists e, ingest_table H sort_rows arrive run_size columns pknames rows = (e, []) /\
            forall T tidx, e <> IOk T tidx.
Proof.
  intros Ho. unfold ingest_table.
  destruct (key_indices columns pknames) as [pk|].
  - rewrite (add_rows_refused sort_rows run_size pk rows new_sorter Ho).
    exists IErrCell. split; [reflexivity|discriminate].
  - exists IErrKey. split; [reflexivity|discriminate].
Qed.

(** a key that names a column twice (or a name that is no column) is refused with an
    error before any row is read; nothing is written *)
Theorem ingest_bad_key_refused H sort_rows arrive run_size columns pknames rows :
  ~ NoDup pknames \/ ~ incl pknames columns ->
  ingest_table H sort_rows arrive run_size columns pknames rows = (IErrKey, []).
Proof.
  intros Hbad. unfold ingest_table.
  destruct (key_indices columns pknames) as [pk|] eqn:E; [|reflexivity].
  exfalso. destruct (key_indices_loop_some _ _ _ _ E) as (_ & _ & C & D & _).
  destruct Hbad as [Hb|Hb]; [now apply Hb|].
  apply Hb. intros k Hk. destruct (C k Hk) as [C1 _].
  destruct (in_dec (list_eq_dec N.eq_dec) k columns) as [Hin|Hnin]; [exact Hin|].
  exfalso. apply C1. clear -Hnin. generalize 0. induction columns as [|c cols IH]; intros s; cbn; [reflexivity|].
  destruct (beqb c k) eqn:Eb.
  - unfold beqb in Eb. destruct (bcmp c k) eqn:Cb; try discriminate. apply bcmp_eq in Cb. subst.
    exfalso. apply Hnin. now left.
  - apply IH. intros Hx. apply Hnin. now right.
Qed.

(** a header without empty names is stored unchanged *)
Lemma ensure_names_loop_nonempty cols : forall m j,
  names_nonempty cols -> ensure_names_loop cols m j = cols.
Proof.
  induction cols as [|c cols IH]; intros m j Hn; cbn; [reflexivity|].
  inversion Hn; subst. destruct c; [contradiction|]. now rewrite IH.
Qed.

Theorem ensure_names_nonempty cols : names_nonempty cols -> ensure_names cols = cols.
Proof. apply ensure_names_loop_nonempty. Qed.

(** * C03: the stored table is structurally sound *)

Lemma ensure_names_loop_length cols : forall m j, length (ensure_names_loop cols m j) = length cols.
Proof.
  induction cols as [|c cols IH]; intros m j; cbn; [reflexivity|].
  destruct c; cbn; now rewrite IH.
Qed.

Lemma ensure_names_length cols : length (ensure_names cols) = length cols.
Proof. apply ensure_names_loop_length. Qed.

Lemma ensure_names_loop_nonempty_out cols : forall m j,
  Forall (fun c => c <> []) (ensure_names_loop cols m j).
Proof.
  induction cols as [|c cols IH]; intros m j; cbn; [constructor|].
  destruct c; constructor; auto; discriminate.
Qed.

Lemma ensure_names_all_nonempty cols : Forall (fun c => c <> []) (ensure_names cols).
Proof. apply ensure_names_loop_nonempty_out. Qed.

Lemma table_of_wf H columns pk kept bs :
  chunked (length columns) pk [] 0 kept bs ->
  keys_strictly_ascending (length columns) pk kept ->
  wf_rows (length columns) kept -> wf_pk (length columns) pk ->
  WF_table H (table_of H columns pk bs) (map b_pk bs).
Proof.
  intros Hc Hk Hwr Hwp. unfold WF_table.
  assert (Erows : rows_of (table_of H columns pk bs) = kept).
  { unfold rows_of, table_of. cbn. eapply chunked_rows; eauto. }
  rewrite Erows. cbn [table_of t_columns t_pk t_rowscount t_blocks t_blockidx].
  rewrite ensure_names_length.
  destruct (chunked_sizes _ _ _ _ _ Hc) as [S1 S2].
  split; [now rewrite (chunked_rows _ _ _ _ _ Hc)|].
  split; [exact S1|].
  split; [intros i Hi; apply S2; now rewrite map_length in Hi|].
  split; [exact Hk|].
  split; [reflexivity|].
  split; [now rewrite !map_length|].
  split; [eapply chunked_pks; eauto|].
  split; [exact Hwp|].
  split; [exact Hwr|].
  unfold wf_pk in Hwp. rewrite Forall_forall in *. intros k Hkin.
  pose proof (ensure_names_all_nonempty columns) as Hne. rewrite Forall_forall in Hne.
  apply Hne. apply nth_In. rewrite ensure_names_length. now apply Hwp.
Qed.

Lemma incl_wf_rows ncols kept rows :
  (forall r, In r kept -> In r rows) -> wf_rows ncols rows -> wf_rows ncols kept.
Proof. unfold wf_rows. rewrite !Forall_forall. auto. Qed.

Theorem ingest_wf H sort_rows arrive run_size columns pknames rows :
  sort_ok (length columns) sort_rows -> any_arrival arrive ->
  incl pknames columns -> NoDup pknames -> wf_rows (length columns) rows -> cells_in_limit rows ->
  exists T tidx w,
    ingest_table H sort_rows arrive run_size columns pknames rows = (IOk T tidx, w) /\
    WF_table H T tidx.
Proof.
  intros Hso Harr Hpk Hnd Hwf Hc.
  destruct (ingest_table_char H sort_rows arrive run_size columns pknames rows Hso Harr Hpk Hnd Hwf Hc)
    as (pk & bs & kept & w & Ek & Hwpk & Ei & Hw & Hch & K1 & K2 & K3).
  exists (table_of H columns pk bs), (map b_pk bs), w. split; [exact Ei|].
  eapply table_of_wf; eauto. eapply incl_wf_rows; eauto.
Qed.

(** arbitrary rows handed to a sorter (merge result, doctor re-ingest), then
    IngestTableFromSorter: every family of sorted runs *)
Theorem sorter_any_rows_wf H sort_rows arrive columns pk s rows :
  any_arrival arrive -> wf_pk (length columns) pk -> NoDup pk -> wf_rows (length columns) rows ->
  Permutation (concat (runs_of sort_rows pk s)) rows ->
  Forall (run_sorted pk) (runs_of sort_rows pk s) ->
  exists T tidx w,
    ingest_from_sorter H sort_rows arrive columns pk s = (IOk T tidx, w) /\
    WF_table H T tidx /\ table_written_last w T.
Proof.
  intros Harr Hwpk Hndpk Hwf Hperm Hsorted.
  destruct (ingest_from_sorter_char H sort_rows arrive columns pk s rows Harr Hndpk Hwf Hperm Hsorted)
    as (bs & kept & w & Ei & Hw & Hch & K1 & K2 & K3).
  exists (table_of H columns pk bs), (map b_pk bs), w. split; [exact Ei|]. split; [|exact Hw].
  eapply table_of_wf; eauto. eapply incl_wf_rows; eauto.
Qed.

(** ** number of blocks *)

Lemma chunked_count ncols pk rem off l bs :
  chunked ncols pk rem off l bs -> length bs = (length l + 254) / 255.
Proof.
  induction 1 as [off|off l Hne Hlen|off l1 l2 bs Hl1 Hne Hc IH].
  - reflexivity.
  - cbn [length]. unfold block_size in Hlen. destruct l as [|r l]; [contradiction|]. cbn [length] in *.
    apply (Nat.div_unique _ 255 1 (length l)); lia.
  - cbn [length]. rewrite IH, app_length, Hl1. unfold block_size.
    replace (255 + length l2 + 254) with (1 * 255 + (length l2 + 254)) by lia.
    rewrite Nat.div_add_l by lia. reflexivity.
Qed.

Theorem ingest_block_count H sort_rows arrive run_size columns pknames rows :
  sort_ok (length columns) sort_rows -> any_arrival arrive ->
  incl pknames columns -> NoDup pknames -> wf_rows (length columns) rows -> cells_in_limit rows ->
  exists T tidx w,
    ingest_table H sort_rows arrive run_size columns pknames rows = (IOk T tidx, w) /\
    length (t_blocks T) = (length (rows_of T) + 254) / 255 /\
    length (t_blockidx T) = length (t_blocks T) /\
    (NoDup (map (dkey (length columns)
                      (match key_indices columns pknames with Some pk => pk | None => [] end)) rows) ->
     length (rows_of T) = length rows).
Proof.
  intros Hso Harr Hpk Hnd Hwf Hc.
  destruct (ingest_table_char H sort_rows arrive run_size columns pknames rows Hso Harr Hpk Hnd Hwf Hc)
    as (pk & bs & kept & w & Ek & Hwpk & Ei & Hw & Hch & K1 & K2 & K3).
  exists (table_of H columns pk bs), (map b_pk bs), w. split; [exact Ei|].
  assert (Erows : rows_of (table_of H columns pk bs) = kept).
  { unfold rows_of, table_of. cbn. eapply chunked_rows; eauto. }
  rewrite Erows. cbn [table_of t_blocks t_blockidx]. rewrite !map_length.
  split; [eapply chunked_count; eauto|]. split; [reflexivity|].
  rewrite Ek. intros Hu. symmetry. apply Permutation_length. eapply unique_keys_perm; eauto.
Qed.

(** ** row addressing *)

Theorem row_addr i j : j < block_size -> row_to_block_and_offset (i * block_size + j) = (i, j).
Proof.
  intros Hj. unfold row_to_block_and_offset, block_size in *.
  assert (E : (i * 255 + j) / 255 = i).
  { rewrite Nat.div_add_l by lia. rewrite Nat.div_small by lia. lia. }
  rewrite E. f_equal. lia.
Qed.

Lemma nth_concat_full (blocks : list (list row)) d : forall i j,
  (forall i', i' < i -> length (nth i' blocks []) = block_size) ->
  j < length (nth i blocks []) ->
  nth (i * block_size + j) (concat blocks) d = nth j (nth i blocks []) d.
Proof.
  induction blocks as [|b blocks IH]; intros i j Hfull Hj.
  - destruct i; cbn in Hj; lia.
  - destruct i as [|i]; cbn [concat nth].
    + cbn in Hj. cbn. rewrite app_nth1 by exact Hj. reflexivity.
    + assert (Hb : length b = block_size) by (apply (Hfull 0); lia).
      rewrite app_nth2 by (rewrite Hb; unfold block_size; lia).
      replace (S i * block_size + j - length b) with (i * block_size + j) by (rewrite Hb; unfold block_size; lia).
      apply IH; [|exact Hj]. intros i' Hi'. apply (Hfull (S i')). lia.
Qed.

(** in a sound table the row at global offset i*255+j is row j of block i *)
Theorem row_addr_table H T tidx i j d :
  WF_table H T tidx -> i < length (t_blocks T) -> j < length (nth i (t_blocks T) []) ->
  nth (i * block_size + j) (rows_of T) d = nth j (nth i (t_blocks T) []) d.
Proof.
  intros (_ & _ & Hfull & _) Hi Hj. unfold rows_of. apply nth_concat_full; [|exact Hj].
  intros i' Hi'. apply Hfull. lia.
Qed.

(** ** diagnosis *)

Lemma row_eqb_eq a : forall b, row_eqb a b = true -> a = b.
Proof.
  induction a as [|x a IH]; intros [|y b] E; cbn in E; try discriminate; [reflexivity|].
  apply andb_prop in E as [E1 E2]. unfold beqb in E1.
  destruct (bcmp x y) eqn:C; try discriminate. apply bcmp_eq in C. subst. f_equal. auto.
Qed.

Lemma dup_scan_sorted ncols pk l : forall prev,
  keys_strictly_ascending ncols pk l ->
  Forall (fun r => kcmp (dkey ncols pk prev) (dkey ncols pk r) = Lt) l ->
  dup_scan prev false l = false.
Proof.
  induction l as [|r l IH]; intros prev Hs Hp; cbn; [reflexivity|].
  apply StronglySorted_inv in Hs as [Hs Hr]. inversion Hp as [|? ? Hpr _]; subst.
  destruct (row_eqb r prev) eqn:E.
  - apply row_eqb_eq in E. subst. rewrite kcmp_refl in Hpr. discriminate.
  - apply IH; auto.
Qed.

Lemma dup_scan_first ncols pk l prev :
  keys_strictly_ascending ncols pk l -> dup_scan prev true l = false.
Proof.
  destruct l as [|r l]; intros Hs; cbn; [reflexivity|].
  apply StronglySorted_inv in Hs as [Hs Hr]. eapply dup_scan_sorted; eauto.
Qed.

Lemma fold_idx_lengths H pk (blocks : list (list row)) : forall z,
  fold_left (fun a i => a + length (bi_rows i)) (map (index_block H pk) blocks) z
  = z + length (concat blocks).
Proof.
  induction blocks as [|b blocks IH]; intros z; cbn; [lia|].
  rewrite IH, map_length, app_length. lia.
Qed.

Theorem diagnose_clean H T tidx : WF_table H T tidx -> diagnose T = None.
Proof.
  intros (Hcount & _ & _ & Hkeys & Hidx & Hlen & _ & Hwpk & _ & Hnames). unfold diagnose.
  assert (E1 : existsb (fun k => length (t_columns T) <=? k) (t_pk T) = false).
  { destruct (existsb (fun k => length (t_columns T) <=? k) (t_pk T)) eqn:E; [|reflexivity].
    apply existsb_exists in E as (k & Hk & Ek).
    unfold wf_pk in Hwpk. rewrite Forall_forall in Hwpk. specialize (Hwpk k Hk).
    apply Nat.leb_le in Ek. lia. }
  rewrite E1.
  assert (E2 : existsb (fun k => match nth k (t_columns T) [] with [] => true | _ => false end) (t_pk T) = false).
  { match goal with |- ?e = false => destruct e eqn:E; [|reflexivity] end.
    apply existsb_exists in E as (k & Hk & Ek).
    rewrite Forall_forall in Hnames. specialize (Hnames k Hk).
    destruct (nth k (t_columns T) []); [contradiction|discriminate]. }
  rewrite E2.
  rewrite (dup_scan_first _ _ _ _ Hkeys).
  rewrite Hcount, N.eqb_refl. cbn [negb].
  rewrite Hlen, Nat.eqb_refl. cbn [negb].
  rewrite Hidx, fold_idx_lengths. cbn. rewrite N.eqb_refl. reflexivity.
Qed.

(** ** the block index answers exactly for the block's rows *)

From W.proofs Require HashSet_proofs.

Lemma insert_hp_perm e l : Permutation (insert_hp e l) (e :: l).
Proof.
  induction l as [|x l IH]; cbn [insert_hp]; [reflexivity|].
  destruct (fst e <? fst x)%N; [reflexivity|]. rewrite IH. apply perm_swap.
Qed.

Definition hp_le (a b : N * nat) : Prop := (fst a <= fst b)%N.

Lemma insert_hp_sorted e l : StronglySorted hp_le l -> StronglySorted hp_le (insert_hp e l).
Proof.
  induction 1 as [|x l Hs IH Hx]; cbn [insert_hp]; [repeat constructor|].
  destruct (fst e <? fst x)%N eqn:E.
  - apply N.ltb_lt in E. constructor; [constructor; auto|]. constructor; [unfold hp_le; lia|].
    eapply Forall_impl; [|exact Hx]. unfold hp_le. intros; lia.
  - apply N.ltb_ge in E. constructor; auto.
    rewrite Forall_forall in *. intros y Hy.
    apply (Permutation_in _ (insert_hp_perm e l)) in Hy. destruct Hy as [<-|Hy]; auto.
Qed.

Lemma sort_hp_perm l : Permutation (fold_right insert_hp [] l) l.
Proof.
  induction l as [|a l IH]; cbn; [reflexivity|]. rewrite insert_hp_perm. now constructor.
Qed.

Lemma sort_hp_sorted l : StronglySorted hp_le (fold_right insert_hp [] l).
Proof. induction l as [|a l IH]; cbn; [constructor|]. now apply insert_hp_sorted. Qed.

Lemma StronglySorted_nth {A} (R : A -> A -> Prop) (l : list A) d :
  StronglySorted R l -> forall x y, x < y -> y < length l -> R (nth x l d) (nth y l d).
Proof.
  induction 1 as [|a l Hs IH Ha]; intros x y Hxy Hy; [cbn in Hy; lia|].
  destruct y as [|y]; [lia|]. cbn in Hy. destruct x as [|x].
  - cbn. rewrite Forall_forall in Ha. apply Ha. apply nth_In. lia.
  - cbn. apply IH; lia.
Qed.

Lemma in_combine_seq {A} (l : list A) d : forall s h p,
  In (h, p) (combine l (seq s (length l))) -> s <= p < s + length l /\ nth (p - s) l d = h.
Proof.
  induction l as [|a l IH]; intros s h p Hin; cbn in Hin; [contradiction|].
  destruct Hin as [E|Hin].
  - inversion E; subst. split; [cbn; lia|]. now rewrite Nat.sub_diag.
  - destruct (IH _ _ _ Hin) as [B E]. split; [cbn; lia|].
    replace (p - s) with (S (p - S s)) by lia. exact E.
Qed.

Lemma combine_seq_in {A} (l : list A) d : forall s j,
  j < length l -> In (nth j l d, s + j) (combine l (seq s (length l))).
Proof.
  induction l as [|a l IH]; intros s j Hj; cbn in Hj; [lia|].
  destruct j as [|j]; cbn.
  - left. f_equal. lia.
  - right. replace (s + S j) with (S s + j) by lia. apply IH. lia.
Qed.

Section IndexGet.
  Variable H : list bytes -> N.
  Hypothesis Hinj : forall a b, H a = H b -> a = b.
  Variable ncols : nat.
  Variable pk : list nat.
  Variable blk : list row.
  Hypothesis Hwf : wf_rows ncols blk.
  Hypothesis Hnd : NoDup (map (dkey ncols pk) blk).

  Lemma index_entry_fst r : length r = ncols -> fst (index_entry H pk r) = H (dkey ncols pk r).
  Proof.
    intros Hl. unfold index_entry, dkey. destruct pk as [|u pk']; cbn [fst pk_indices]; [|reflexivity].
    rewrite <- Hl. now rewrite key_of_seq.
  Qed.

  Lemma index_entry_snd r : snd (index_entry H pk r) = H r.
  Proof. unfold index_entry. destruct pk; reflexivity. Qed.

  Let rows := map (index_entry H pk) blk.
  Let n := length rows.
  Let hp := combine (map fst rows) (seq 0 (length rows)).
  Let srt := fold_right insert_hp [] hp.

  Lemma n_blk : n = length blk.
  Proof. unfold n, rows. now rewrite map_length. Qed.

  Lemma srt_length : length srt = n.
  Proof.
    unfold srt. rewrite (Permutation_length (sort_hp_perm hp)). unfold hp.
    rewrite combine_length, map_length, seq_length. unfold n. lia.
  Qed.

  Lemma hp_elem h p : In (h, p) hp -> p < n /\ h = H (dkey ncols pk (nth p blk [])) /\
                                     nth p rows (0%N, 0%N) = index_entry H pk (nth p blk []).
  Proof.
    intros Hin. unfold hp in Hin.
    assert (Hl : length rows = length (map fst rows)) by now rewrite map_length.
    rewrite Hl in Hin. destruct (in_combine_seq (map fst rows) 0%N 0 h p Hin) as [B E].
    rewrite map_length in B. rewrite Nat.sub_0_r in E.
    assert (Hp : p < n) by (unfold n; lia).
    split; [exact Hp|].
    assert (Er : nth p rows (0%N, 0%N) = index_entry H pk (nth p blk [])).
    { unfold rows. rewrite n_blk in Hp.
      rewrite (nth_indep _ (0%N, 0%N) (index_entry H pk [])) by (rewrite map_length; lia).
      now rewrite map_nth. }
    split; [|exact Er].
    rewrite <- E. change 0%N with (fst (0%N, 0%N)). rewrite map_nth, Er.
    apply index_entry_fst. unfold wf_rows in Hwf. rewrite Forall_forall in Hwf.
    apply Hwf. apply nth_In. rewrite <- n_blk. exact Hp.
  Qed.

  Lemma srt_elem i : i < n -> In (nth i srt (0%N, 0)) hp.
  Proof.
    intros Hi. eapply Permutation_in; [apply sort_hp_perm|]. apply nth_In. fold srt.
    now rewrite srt_length.
  Qed.

  Lemma sorted_nth i : nth i (bi_sorted (index_block H pk blk)) 0 = snd (nth i srt (0%N, 0)).
  Proof.
    unfold index_block, sorted_off. cbn [bi_sorted]. fold rows. fold hp. fold srt.
    change 0 with (snd (0%N, 0)) at 1. now rewrite map_nth.
  Qed.

  Lemma at_sorted_fst i : i < n ->
    fst (nth (nth i (bi_sorted (index_block H pk blk)) 0) rows (0%N, 0%N)) = fst (nth i srt (0%N, 0)).
  Proof.
    intros Hi. rewrite sorted_nth. pose proof (srt_elem i Hi) as Hin.
    destruct (nth i srt (0%N, 0)) as [h p] eqn:E. cbn [fst snd].
    destruct (hp_elem h p Hin) as (Hp & Eh & Er). rewrite Er, index_entry_fst; [now rewrite Eh|].
    unfold wf_rows in Hwf. rewrite Forall_forall in Hwf. apply Hwf. apply nth_In.
    rewrite <- n_blk. exact Hp.
  Qed.

  Lemma srt_mono x y : x <= y -> y < n -> (fst (nth x srt (0%N, 0%nat)) <= fst (nth y srt (0%N, 0%nat)))%N.
  Proof.
    intros Hxy Hy. destruct (Nat.eq_dec x y) as [->|Hne]; [lia|].
    apply (StronglySorted_nth hp_le srt (0%N, 0) (sort_hp_sorted hp) x y); [lia|].
    now rewrite srt_length.
  Qed.

  Definition get_pred (h0 : N) (i : nat) : bool :=
    (h0 <=? fst (nth (nth i (bi_sorted (index_block H pk blk)) 0%nat) rows (0%N, 0%N)))%N.

  Lemma get_pred_mono h0 x y : x <= y -> y < n -> get_pred h0 x = true -> get_pred h0 y = true.
  Proof.
    unfold get_pred. intros Hxy Hy Hx.
    rewrite at_sorted_fst in * by lia. apply N.leb_le in Hx. apply N.leb_le.
    pose proof (srt_mono x y Hxy Hy). lia.
  Qed.

  Lemma idx_get_unfold h0 :
    idx_get (index_block H pk blk) h0 =
    let i := search n (get_pred h0) in
    if n <=? i then None
    else let j := nth i (bi_sorted (index_block H pk blk)) 0 in
         let e := nth j rows (0%N, 0%N) in
         if (fst e =? h0)%N then Some (j, snd e) else None.
  Proof. reflexivity. Qed.

  Theorem index_get_present j r :
    nth_error blk j = Some r ->
    idx_get (index_block H pk blk) (H (dkey ncols pk r)) = Some (j, H r).
  Proof.
    intros Hj. set (h0 := H (dkey ncols pk r)).
    assert (Hjn : j < n). { rewrite n_blk. apply nth_error_Some. congruence. }
    assert (Hr : nth j blk [] = r) by (apply nth_error_nth; exact Hj).
    assert (Hlen : length r = ncols).
    { unfold wf_rows in Hwf. rewrite Forall_forall in Hwf. apply Hwf. eapply nth_error_In; eauto. }
    (* (h0, j) is an element of hp, hence of srt *)
    assert (Hin : In (h0, j) hp).
    { unfold hp.
      assert (E : nth j (map fst rows) 0%N = h0).
      { change 0%N with (fst (0%N, 0%N)). rewrite map_nth. unfold rows.
        rewrite (nth_indep _ (0%N, 0%N) (index_entry H pk [])) by (rewrite map_length, <- n_blk; exact Hjn).
        rewrite map_nth, Hr. now apply index_entry_fst. }
      rewrite <- E. replace (length rows) with (length (map fst rows)) by now rewrite map_length.
      apply (combine_seq_in (map fst rows) 0%N 0 j). rewrite map_length. exact Hjn. }
    assert (Hin' : In (h0, j) srt) by (eapply Permutation_in; [symmetry; apply sort_hp_perm|exact Hin]).
    destruct (In_nth _ _ (0%N, 0) Hin') as (i1 & Hi1 & Ei1). rewrite srt_length in Hi1.
    destruct (HashSet_proofs.search_spec n (get_pred h0) (get_pred_mono h0)) as (S1 & S2 & S3).
    set (i0 := search n (get_pred h0)) in *.
    assert (Hp1 : get_pred h0 i1 = true).
    { unfold get_pred. rewrite at_sorted_fst by exact Hi1. rewrite Ei1. cbn. apply N.leb_le. lia. }
    assert (Hi0 : i0 <= i1).
    { destruct (le_lt_dec i0 i1); auto. rewrite S2 in Hp1 by lia. discriminate. }
    assert (Hp0 : get_pred h0 i0 = true) by (apply S3; lia).
    unfold get_pred in Hp0. rewrite at_sorted_fst in Hp0 by lia. apply N.leb_le in Hp0.
    pose proof (srt_mono i0 i1 Hi0 Hi1) as Hm. rewrite Ei1 in Hm. cbn [fst] in Hm.
    assert (Efst : fst (nth i0 srt (0%N, 0)) = h0) by lia.
    rewrite idx_get_unfold. cbn zeta. fold i0.
    assert (En : (n <=? i0) = false) by (apply Nat.leb_gt; lia). rewrite En.
    rewrite sorted_nth.
    pose proof (srt_elem i0 ltac:(lia)) as Hin0.
    destruct (nth i0 srt (0%N, 0)) as [h' p'] eqn:E0. cbn [fst snd] in *. subst h'.
    destruct (hp_elem h0 p' Hin0) as (Hp' & Eh & Er).
    (* same key hash, hence same key, hence same position *)
    assert (Ep : p' = j).
    { unfold h0 in Eh. apply Hinj in Eh.
      rewrite n_blk in Hp', Hjn.
      apply (proj1 (NoDup_nth (map (dkey ncols pk) blk) []) Hnd); try (rewrite map_length; lia).
      rewrite !(nth_indep _ [] (dkey ncols pk [])) by (rewrite map_length; lia).
      rewrite !map_nth, Hr. symmetry. exact Eh. }
    subst p'. rewrite Er, Hr, index_entry_fst by exact Hlen. fold h0. rewrite N.eqb_refl.
    now rewrite index_entry_snd.
  Qed.

  Theorem index_get_absent k :
    (forall r, In r blk -> dkey ncols pk r <> k) -> idx_get (index_block H pk blk) (H k) = None.
  Proof.
    intros Hk. rewrite idx_get_unfold. cbn zeta. set (i0 := search n (get_pred (H k))).
    destruct (n <=? i0) eqn:En; [reflexivity|]. apply Nat.leb_gt in En.
    rewrite sorted_nth. pose proof (srt_elem i0 En) as Hin0.
    destruct (nth i0 srt (0%N, 0)) as [h' p'] eqn:E0. cbn [snd].
    destruct (hp_elem h' p' Hin0) as (Hp' & Eh & Er).
    assert (Hlen : length (nth p' blk []) = ncols).
    { unfold wf_rows in Hwf. rewrite Forall_forall in Hwf. apply Hwf. apply nth_In. now rewrite <- n_blk. }
    rewrite Er, index_entry_fst by exact Hlen.
    destruct (H (dkey ncols pk (nth p' blk [])) =? H k)%N eqn:E; [|reflexivity].
    apply N.eqb_eq in E. apply Hinj in E. exfalso. eapply Hk; [|exact E].
    apply nth_In. now rewrite <- n_blk.
  Qed.
End IndexGet.

(** every block of a sound table has pairwise distinct keys and well-formed rows *)
Lemma StronglySorted_app_inv {A} (R : A -> A -> Prop) l1 l2 :
  StronglySorted R (l1 ++ l2) -> StronglySorted R l1 /\ StronglySorted R l2.
Proof.
  induction l1 as [|a l1 IH]; cbn; intros Hs; [split; [constructor|exact Hs]|].
  apply StronglySorted_inv in Hs as [Hs Ha]. destruct (IH Hs) as [I1 I2]. split; auto.
  constructor; auto. apply Forall_app in Ha. tauto.
Qed.

Lemma concat_block_sorted {A} (R : A -> A -> Prop) (blocks : list (list A)) i blk :
  StronglySorted R (concat blocks) -> nth_error blocks i = Some blk -> StronglySorted R blk.
Proof.
  revert i; induction blocks as [|b blocks IH]; intros i Hs Hn; [destruct i; discriminate|].
  cbn in Hs. apply StronglySorted_app_inv in Hs as [H1 H2].
  destruct i; cbn in Hn; [inversion Hn; subst; exact H1|eauto].
Qed.

Theorem wf_table_block_index H T tidx i blk idx :
  (forall a b, H a = H b -> a = b) -> WF_table H T tidx ->
  nth_error (t_blocks T) i = Some blk -> nth_error (t_blockidx T) i = Some idx ->
  (forall j r, nth_error blk j = Some r ->
     idx_get idx (H (dkey (length (t_columns T)) (t_pk T) r)) = Some (j, H r)) /\
  (forall k, (forall r, In r blk -> dkey (length (t_columns T)) (t_pk T) r <> k) ->
     idx_get idx (H k) = None).
Proof.
  intros Hinj (_ & _ & _ & Hkeys & Hidx & _ & _ & _ & Hwr & _) Hb Hi.
  assert (Eidx : idx = index_block H (t_pk T) blk).
  { rewrite Hidx in Hi. rewrite nth_error_map, Hb in Hi. cbn in Hi. congruence. }
  subst idx.
  assert (Hwb : wf_rows (length (t_columns T)) blk).
  { unfold wf_rows, rows_of in *. rewrite Forall_forall in *. intros r Hr. apply Hwr.
    apply in_concat. exists blk. split; [eapply nth_error_In; eauto|exact Hr]. }
  assert (Hnd : NoDup (map (dkey (length (t_columns T)) (t_pk T)) blk)).
  { apply strict_sorted_NoDup_keys. eapply concat_block_sorted; eauto. }
  split.
  - intros j r Hj. eapply index_get_present; eauto.
  - intros k Hk. eapply index_get_absent; eauto.
Qed.

(** * C02: the table depends only on the logical content *)

Lemma app_inv_length {A} (a b c d : list A) : a ++ b = c ++ d -> length a = length c -> a = c /\ b = d.
Proof.
  revert c; induction a as [|x a IH]; intros [|y c] E L; cbn in *; try discriminate; auto.
  inversion E; subst. destruct (IH c H1 ltac:(lia)) as [-> ->]. auto.
Qed.

Lemma chunked_functional ncols pk rem off l bs1 :
  chunked ncols pk rem off l bs1 -> forall bs2, chunked ncols pk rem off l bs2 -> bs1 = bs2.
Proof.
  induction 1 as [off|off l Hne Hlen|off l1 l2 bs Hl1 Hne Hc IH]; intros bs2 H2.
  - inversion H2; subst; auto.
    + contradiction.
    + match goal with E : _ ++ _ = [] |- _ => apply app_eq_nil in E as [-> ->] end.
      cbn in *. unfold block_size in *. discriminate.
  - inversion H2; subst; auto.
    + contradiction.
    + exfalso. rewrite app_length in Hlen.
      match goal with Hx : ?l2 <> [], Hy : length ?l1 = block_size |- _ =>
        destruct l2; [contradiction|]; cbn [length] in Hlen; rewrite Hy in Hlen; lia end.
  - assert (Hlong : block_size < length (l1 ++ l2)).
    { rewrite app_length, Hl1. destruct l2; [contradiction|]. cbn [length]. lia. }
    inversion H2; subst.
    + match goal with E : [] = _ ++ _ |- _ => symmetry in E; apply app_eq_nil in E as [-> ->] end.
      contradiction.
    + lia.
    + match goal with E : ?a ++ ?b = l1 ++ l2, Hy : length ?a = block_size |- _ =>
        destruct (app_inv_length _ _ _ _ E ltac:(lia)) as [-> ->] end.
      f_equal. auto.
Qed.

Lemma perm_wf_rows ncols r1 r2 : Permutation r1 r2 -> wf_rows ncols r1 -> wf_rows ncols r2.
Proof. intros P Hw. unfold wf_rows in *. eapply Permutation_Forall; eauto. Qed.

Lemma perm_cells r1 r2 : Permutation r1 r2 -> cells_in_limit r1 -> cells_in_limit r2.
Proof. intros P Hw. unfold cells_in_limit in *. eapply Permutation_Forall; eauto. Qed.

Theorem ingest_canonical H sort1 sort2 arrive1 arrive2 rs1 rs2 columns pknames rows1 rows2 :
  sort_ok (length columns) sort1 -> sort_ok (length columns) sort2 ->
  any_arrival arrive1 -> any_arrival arrive2 ->
  incl pknames columns -> NoDup pknames -> wf_rows (length columns) rows1 -> cells_in_limit rows1 ->
  Permutation rows1 rows2 ->
  (forall pk, key_indices columns pknames = Some pk -> NoDup (map (dkey (length columns) pk) rows1)) ->
  exists T tidx w1 w2,
    ingest_table H sort1 arrive1 rs1 columns pknames rows1 = (IOk T tidx, w1) /\
    ingest_table H sort2 arrive2 rs2 columns pknames rows2 = (IOk T tidx, w2).
Proof.
  intros So1 So2 A1 A2 Hpk Hndn Hwf Hc HP Hnd.
  destruct (ingest_table_char H sort1 arrive1 rs1 columns pknames rows1 So1 A1 Hpk Hndn Hwf Hc)
    as (pk & bs1 & kept1 & w1 & Ek & Hwpk & Ei1 & _ & Hch1 & K1 & K2 & K3).
  destruct (ingest_table_char H sort2 arrive2 rs2 columns pknames rows2 So2 A2 Hpk Hndn
              (perm_wf_rows _ _ _ HP Hwf) (perm_cells _ _ HP Hc))
    as (pk' & bs2 & kept2 & w2 & Ek' & _ & Ei2 & _ & Hch2 & L1 & L2 & L3).
  rewrite Ek in Ek'. inversion Ek'; subst pk'.
  specialize (Hnd pk Ek).
  assert (Hnd2 : NoDup (map (dkey (length columns) pk) rows2)).
  { eapply Permutation_NoDup; [apply Permutation_map; exact HP|exact Hnd]. }
  assert (P1 : Permutation rows1 kept1) by (eapply unique_keys_perm; eauto).
  assert (P2 : Permutation rows2 kept2) by (eapply unique_keys_perm; eauto).
  assert (Ekept : kept1 = kept2).
  { apply (strict_sorted_perm_unique
             (fun a b => kcmp (dkey (length columns) pk a) (dkey (length columns) pk b) = Lt)); auto.
    - intros a b. apply kcmp_lt_asym.
    - rewrite <- P1, <- P2. exact HP. }
  subst kept2. rewrite (chunked_functional _ _ _ _ _ _ Hch2 _ Hch1) in Ei2.
  eauto 10.
Qed.

Lemma map_injective {A B} (f : A -> B) : (forall a b, f a = f b -> a = b) ->
  forall l1 l2, map f l1 = map f l2 -> l1 = l2.
Proof.
  intros Hf. induction l1 as [|a l1 IH]; intros [|b l2] E; cbn in E; try discriminate; auto.
  inversion E. f_equal; auto.
Qed.

Theorem table_id_injective Hb Hi Ht :
  (forall a b, Hb a = Hb b -> a = b) -> (forall a b, Ht a = Ht b -> a = b) ->
  forall T1 T2, table_id Hb Hi Ht T1 = table_id Hb Hi Ht T2 ->
    t_columns T1 = t_columns T2 /\ t_pk T1 = t_pk T2 /\ t_rowscount T1 = t_rowscount T2 /\
    t_blocks T1 = t_blocks T2 /\ rows_of T1 = rows_of T2.
Proof.
  intros Hbi Hti T1 T2 E. unfold table_id in E. apply Hti in E. inversion E as [[E1 E2 E3 E4 E5]].
  apply (map_injective Hb Hbi) in E4. unfold rows_of. rewrite E4. auto.
Qed.

(** tables ingested from inputs that differ in a column name, the column order, the key
    or any cell get different identifiers *)
Theorem table_id_distinct H Hb Hi Ht sort1 sort2 arrive1 arrive2 rs1 rs2 cols1 pkn1 rows1 cols2 pkn2 rows2 T1 x1 w1 T2 x2 w2 pk1 pk2 :
  (forall a b, Hb a = Hb b -> a = b) -> (forall a b, Ht a = Ht b -> a = b) ->
  sort_ok (length cols1) sort1 -> sort_ok (length cols2) sort2 -> any_arrival arrive1 -> any_arrival arrive2 ->
  names_nonempty cols1 -> names_nonempty cols2 ->
  incl pkn1 cols1 -> incl pkn2 cols2 -> NoDup pkn1 -> NoDup pkn2 ->
  wf_rows (length cols1) rows1 -> wf_rows (length cols2) rows2 -> cells_in_limit rows1 -> cells_in_limit rows2 ->
  key_indices cols1 pkn1 = Some pk1 -> key_indices cols2 pkn2 = Some pk2 ->
  NoDup (map (dkey (length cols1) pk1) rows1) -> NoDup (map (dkey (length cols2) pk2) rows2) ->
  ingest_table H sort1 arrive1 rs1 cols1 pkn1 rows1 = (IOk T1 x1, w1) ->
  ingest_table H sort2 arrive2 rs2 cols2 pkn2 rows2 = (IOk T2 x2, w2) ->
  table_id Hb Hi Ht T1 = table_id Hb Hi Ht T2 ->
  cols1 = cols2 /\ pk1 = pk2 /\ Permutation rows1 rows2.
Proof.
  intros Hbi Hti So1 So2 A1 A2 N1 N2 I1 I2 U1 U2 W1 W2 C1 C2 K1 K2 D1 D2 E1 E2 Eid.
  destruct (ingest_lossless H sort1 arrive1 rs1 cols1 pkn1 rows1 So1 A1 I1 U1 W1 C1)
    as (pk1' & T1' & x1' & w1' & Ek1 & Ei1 & _ & Ec1 & Ep1 & _ & _ & _ & _ & P1).
  destruct (ingest_lossless H sort2 arrive2 rs2 cols2 pkn2 rows2 So2 A2 I2 U2 W2 C2)
    as (pk2' & T2' & x2' & w2' & Ek2 & Ei2 & _ & Ec2 & Ep2 & _ & _ & _ & _ & P2).
  assert (X1 : pk1' = pk1) by congruence. assert (X2 : pk2' = pk2) by congruence.
  assert (Y1 : T1' = T1) by congruence. assert (Y2 : T2' = T2) by congruence.
  rewrite X1, Y1 in *. rewrite X2, Y2 in *.
  destruct (table_id_injective Hb Hi Ht Hbi Hti T1 T2 Eid) as (Q1 & Q2 & _ & _ & Q5).
  rewrite Ec1, Ec2, !ensure_names_nonempty in Q1 by assumption.
  rewrite Ep1, Ep2 in Q2. split; [exact Q1|]. split; [exact Q2|].
  rewrite (P1 D1), (P2 D2), Q5. reflexivity.
Qed.

Theorem commit_if_changed_spec head tmp :
  commit_if_changed head tmp = false <-> head = Some tmp.
Proof.
  unfold commit_if_changed. destruct head as [old|]; [|split; discriminate].
  destruct (N.eqb_spec old tmp) as [->|Hne]; cbn; split; auto; try discriminate.
  intros E; inversion E; contradiction.
Qed.

(** * the commit cache in front of the no-change decision *)

Theorem cache_fresh_spec t m : cache_fresh t m = true <-> (m <= t)%N.
Proof.
  unfold cache_fresh. destruct (N.ltb_spec t m); cbn; split; intros; try discriminate; try lia; auto.
Qed.

(** when the file is newer than the cached commit (or there is none), the step decides by
    comparing the head's table id with the id of the table the file really holds *)
Theorem branch_commit_step_sound st mtime now table :
  (forall t tb, cs_cache st = Some (t, tb) -> (t < mtime)%N) ->
  snd (branch_commit_step st mtime now table) = commit_if_changed (cs_head st) table /\
  cs_cache (fst (branch_commit_step st mtime now table)) = Some (now, table) /\
  cs_head (fst (branch_commit_step st mtime now table)) =
    (if commit_if_changed (cs_head st) table then Some table else cs_head st).
Proof.
  intros Hn. unfold branch_commit_step. destruct (cs_cache st) as [[t tb]|] eqn:E; cbn.
  - specialize (Hn t tb eq_refl). unfold cache_fresh. apply N.ltb_lt in Hn. rewrite Hn. cbn. auto.
  - auto.
Qed.

(** a changed file can be taken for unchanged only through a cache entry that is not older
    than the file: then the file's modification time is at most the cached commit's time *)
Theorem branch_commit_stale_only_if_old st mtime now table :
  snd (branch_commit_step st mtime now table) <> commit_if_changed (cs_head st) table ->
  exists t tb, cs_cache st = Some (t, tb) /\ (mtime <= t)%N.
Proof.
  intros Hd. unfold branch_commit_step in Hd. destruct (cs_cache st) as [[t tb]|] eqn:E; cbn in Hd.
  - exists t, tb. split; [reflexivity|]. destruct (cache_fresh t mtime) eqn:F.
    + now apply cache_fresh_spec.
    + cbn in Hd. contradiction.
  - contradiction.
Qed.
